/-
Dispatch accounting on the controller state alone: a task is dispatched at most once, only
while it is in `computable`, and it enters `computable` only out of the blocked state.
-/
import EkwVerif.Lemmas.CtrlFrame

namespace EkwVerif.Ctrl

structure Once (c : Ctl) : Prop where
  nodup : c.computable.Nodup
  comp : ∀ t, t ∈ c.computable → c.dispatched t = 0
  blocked : ∀ t ds, c.tracked t = true → ds ∈ c.tracker t → c.dispatched t = 0 ∧ t ∉ c.computable
  le : ∀ t, c.dispatched t ≤ 1

/-- `Once` depends only on four fields -/
theorem Once.congr {c c' : Ctl} (h : Once c) (h1 : c'.computable = c.computable) (h2 : c'.dispatched = c.dispatched)
    (h3 : c'.tracked = c.tracked) (h4 : c'.tracker = c.tracker) : Once c' := by
  refine ⟨?_, ?_, ?_, ?_⟩
  · rw [h1]; exact h.nodup
  · intro t ht; rw [h1] at ht; rw [h2]; exact h.comp t ht
  · intro t ds ht hd; rw [h3] at ht; rw [h4] at hd; rw [h1, h2]; exact h.blocked t ds ht hd
  · intro t; rw [h2]; exact h.le t

theorem once_init (j : Job) (cl : Cluster) : Once (initCtl j cl) := by
  refine ⟨?_, ?_, ?_, ?_⟩
  · simp only [initCtl]
    exact List.Nodup.sublist List.filter_sublist (by simp [Job.taskIds, List.nodup_range])
  · intro t _; rfl
  · intro t ds _ hds
    refine ⟨rfl, ?_⟩
    simp only [initCtl, List.mem_filter] at hds ⊢
    intro h
    have := h.2
    cases hx : j.inputs t with
    | nil => simp [hx] at hds
    | cons a b => simp [hx] at this
  · intro t; simp [initCtl]

theorem once_considerChild (c : Ctl) (ds : Ds) (ch : Task) (h : Once c) : Once (considerChild c ds ch) := by
  unfold considerChild
  split
  · rename_i hc
    simp only [Bool.and_eq_true, List.contains_iff_mem] at hc
    obtain ⟨htr, hmem⟩ := hc
    have hb := h.blocked ch ds htr hmem
    dsimp only
    split
    · refine ⟨?_, ?_, ?_, h.le⟩
      · simp only
        exact List.nodup_append.mpr ⟨h.nodup, by simp, by intro a ha b hb2; simp at hb2; subst hb2; intro he; subst he; exact hb.2 ha⟩
      · intro t ht
        simp only [List.mem_append, List.mem_singleton] at ht
        rcases ht with ht | ht
        · exact h.comp t ht
        · subst ht; exact hb.1
      · intro t d ht hd
        simp only at ht hd ⊢
        by_cases htc : t = ch
        · subst htc; simp at ht
        · simp only [upd_other _ _ _ _ htc] at ht hd
          have := h.blocked t d ht hd
          refine ⟨this.1, ?_⟩
          simp only [List.mem_append, List.mem_singleton, not_or]
          exact ⟨this.2, htc⟩
    · refine ⟨h.nodup, h.comp, ?_, h.le⟩
      intro t d ht hd
      simp only at ht hd ⊢
      by_cases htc : t = ch
      · subst htc
        exact h.blocked t ds ht hmem
      · simp only [upd_other _ _ _ _ htc] at hd
        exact h.blocked t d ht hd
  · exact h

theorem once_considerComputable (c : Ctl) (ds : Ds) (h : Once c) : Once (considerComputable c ds) := by
  unfold considerComputable
  generalize (if c.ptracked ds = true then c.ptrack ds else []) = l
  induction l generalizing c with
  | nil => exact h
  | cons a l ih => exact ih _ (once_considerChild c ds a h)

theorem once_notifyEvent (j : Job) (c c' : Ctl) (ev : Event) (h : Once c)
    (hr : notifyEvent j c ev = .ok c') : Once c' := by
  cases ev with
  | payload ds v =>
    simp only [notifyEvent, Except.ok.injEq] at hr
    subst hr; exact h.congr rfl rfl rfl rfl
  | pubT hst ds =>
    simp only [notifyEvent, Except.ok.injEq] at hr
    subst hr
    exact once_considerComputable _ ds (h.congr (by simp) (by simp) (by simp) (by simp))
  | pubW w ds =>
    simp only [notifyEvent] at hr
    have h0 : Once (considerComputable (considerFetch j (markAvailable c w.host ds) ds w.host) ds) :=
      once_considerComputable _ ds (h.congr (by simp) (by simp) (by simp) (by simp))
    have h1 : Once (markPublished (considerComputable (considerFetch j (markAvailable c w.host ds) ds w.host) ds) ds) :=
      h0.congr (by simp) (by simp) (by simp) (by simp)
    split at hr
    · split at hr
      · cases hr
      · rename_i c2 hc2
        have h2 : Once c2 := h1.congr (completeInputs_computable _ _ _ _ _ hc2) (completeInputs_dispatched _ _ _ _ _ hc2)
          (completeInputs_tracked _ _ _ _ _ hc2) (completeInputs_tracker _ _ _ _ _ hc2)
        split at hr
        · simp only [Except.ok.injEq] at hr; subst hr; exact h2.congr rfl rfl rfl rfl
        · cases hr
    · simp only [Except.ok.injEq] at hr; subst hr; exact h1

theorem once_assignOne (j : Job) (cl : Cluster) (c c' : Ctl) (a : Asg) (p : List (Ds × Host)) (h : Once c)
    (hr : assignOne j cl c a = .ok (c', p)) :
    Once c' ∧ c.dispatched a.task = 0 ∧ c'.dispatched = upd c.dispatched a.task 1 ∧ a.task ∈ c.computable
      ∧ a.worker ∈ c.idle ∧ c'.idle = c.idle.erase a.worker ∧ c'.ongoing = c.ongoing
      ∧ (j.gpu a.task = true → cl.hasGpu a.worker = true) := by
  unfold assignOne at hr
  split at hr; · cases hr
  rename_i hidle
  split at hr; · cases hr
  rename_i hcomp
  split at hr; · cases hr
  rename_i hgpu
  split at hr; · cases hr
  rename_i c2 prep hb
  simp only [Except.ok.injEq, Prod.mk.injEq] at hr
  obtain ⟨rfl, rfl⟩ := hr
  have f1 := buildPrep_computable _ _ _ _ _ _ _ hb
  have f2 := buildPrep_dispatched _ _ _ _ _ _ _ hb
  have f3 := buildPrep_tracked _ _ _ _ _ _ _ hb
  have f4 := buildPrep_tracker _ _ _ _ _ _ _ hb
  have f5 := buildPrep_idle _ _ _ _ _ _ _ hb
  have f6 := buildPrep_ongoing _ _ _ _ _ _ _ hb
  have hmem : a.task ∈ c.computable := by simpa using hcomp
  have hd0 := h.comp a.task hmem
  refine ⟨⟨?_, ?_, ?_, ?_⟩, hd0, ?_, hmem, by simpa using hidle, by simp [f5], by simp [f6], ?_⟩
  · simp only [f1]; exact h.nodup.erase _
  · intro t ht
    simp only [f1, f2] at ht ⊢
    have hne : t ≠ a.task := by
      intro he; subst he
      exact (List.Nodup.not_mem_erase h.nodup) ht
    simp only [upd_other _ _ _ _ hne]
    exact h.comp t (List.mem_of_mem_erase ht)
  · intro t d ht hd
    simp only [f1, f2, f3, f4] at ht hd ⊢
    have hb' := h.blocked t d ht hd
    have hne : t ≠ a.task := by intro he; subst he; exact hb'.2 hmem
    simp only [upd_other _ _ _ _ hne]
    exact ⟨hb'.1, fun hx => hb'.2 (List.mem_of_mem_erase hx)⟩
  · intro t
    simp only [f2]
    by_cases hne : t = a.task
    · subst hne; simp [hd0]
    · simp only [upd_other _ _ _ _ hne]; exact h.le t
  · simp [f2, hd0, upd]
  · intro hg
    simp only [hg, Bool.true_and, Bool.not_eq_true', Bool.not_eq_false] at hgpu
    simpa using hgpu

end EkwVerif.Ctrl
