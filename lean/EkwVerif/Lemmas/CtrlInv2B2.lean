/-
Tier 2 (`Inv2`) preservation, slice B, part 2: what `considerChild/considerComputable` do to
`tracker/tracked/computable`, what `completeInputs` does to `ptrack/ptracked/purgeQ`, and the two
stages of a notification (announce a dataset; complete a task) as `Inv2 → Inv2` lemmas.
-/
import EkwVerif.Lemmas.CtrlInv2B1

set_option linter.unusedVariables false
set_option linter.unusedSimpArgs false

namespace EkwVerif.Ctrl

/-! ### consider_computable -/

/-- the Tier-2 facts about `tracker/tracked/computable` relative to `announced` -/
structure i2b_TK (j : Job) (c : Ctl) : Prop where
  comp_valid : ∀ t, t ∈ c.computable → t < j.tasks.length
  tracked_valid : ∀ t, c.tracked t = true → t < j.tasks.length
  tracker_complete : ∀ ds t, t ∈ j.consumers ds → c.announced ds = false → c.tracked t = true ∧ ds ∈ c.tracker t
  ready : ∀ t, t ∈ c.computable → ∀ ds, ds ∈ j.inputs t → c.announced ds = true

theorem i2b_TK_considerChild (j : Job) (c : Ctl) (ds : Ds) (ch : Task) (h : i2b_TK j c)
    (ha : c.announced ds = true) : i2b_TK j (considerChild c ds ch) := by
  have hne : ∀ d, c.announced d = false → d ≠ ds := by
    intro d hd he; subst he; rw [ha] at hd; cases hd
  unfold considerChild
  split
  · rename_i hc
    simp only [Bool.and_eq_true, List.contains_iff_mem] at hc
    obtain ⟨htr, hmem⟩ := hc
    dsimp only
    split
    · rename_i hemp
      have hemp' : (c.tracker ch).erase ds = [] := by simpa using hemp
      refine ⟨?_, ?_, ?_, ?_⟩
      · intro t ht
        simp only [List.mem_append, List.mem_singleton] at ht
        rcases ht with ht | ht
        · exact h.comp_valid t ht
        · subst ht; exact h.tracked_valid _ htr
      · intro t ht
        simp only at ht
        by_cases htc : t = ch
        · subst htc; simp at ht
        · rw [upd_other _ _ _ _ htc] at ht; exact h.tracked_valid t ht
      · intro d t ht hd
        simp only at hd ⊢
        have := h.tracker_complete d t ht hd
        by_cases htc : t = ch
        · subst htc
          have hx : d ∈ (c.tracker t).erase ds := (List.mem_erase_of_ne (hne d hd)).mpr this.2
          rw [hemp'] at hx; cases hx
        · rw [upd_other _ _ _ _ htc, upd_other _ _ _ _ htc]; exact this
      · intro t ht d hd
        simp only [List.mem_append, List.mem_singleton] at ht
        simp only
        rcases ht with ht | ht
        · exact h.ready t ht d hd
        · subst ht
          cases hda : c.announced d with
          | true => rfl
          | false =>
            have := h.tracker_complete d t ((i2b_mem_consumers j d t).mpr hd) hda
            have hx : d ∈ (c.tracker t).erase ds := (List.mem_erase_of_ne (hne d hda)).mpr this.2
            rw [hemp'] at hx; cases hx
    · refine ⟨h.comp_valid, h.tracked_valid, ?_, h.ready⟩
      intro d t ht hd
      simp only at hd ⊢
      have := h.tracker_complete d t ht hd
      by_cases htc : t = ch
      · subst htc; rw [upd_same]; exact ⟨this.1, (List.mem_erase_of_ne (hne d hd)).mpr this.2⟩
      · rw [upd_other _ _ _ _ htc]; exact this
  · exact h

theorem i2b_TK_considerComputable (j : Job) (c : Ctl) (ds : Ds) (h : i2b_TK j c)
    (ha : c.announced ds = true) : i2b_TK j (considerComputable c ds) := by
  unfold considerComputable
  generalize (if c.ptracked ds = true then c.ptrack ds else []) = l
  induction l generalizing c with
  | nil => exact h
  | cons a l ih => exact ih _ (i2b_TK_considerChild j c ds a h ha) (by simpa using ha)

@[simp] theorem i2b_markAvailable_announced (c : Ctl) (h : Host) (ds : Ds) :
    (markAvailable c h ds).announced = upd c.announced ds true := rfl

/-! ### the completion loop -/

/-- the Tier-2 facts about `ptrack/ptracked/purgeQ` while `task` is being completed -/
structure i2b_PT (j : Job) (task : Task) (c : Ctl) : Prop where
  sound : ∀ ds t, t ∈ j.consumers ds → c.doneC t = false → t ≠ task → c.ptracked ds = true ∧ t ∈ c.ptrack ds
  pq : ∀ ds, ds ∈ c.purgeQ → (∀ t, t ∈ j.consumers ds → t ≠ task → c.doneC t = true) ∧
      (ds ∈ j.ext → (c.outputs ds).isSome = true) ∧ c.announced ds = true

theorem i2b_PT_iter (j : Job) (task : Task) (c : Ctl) (src : Ds) (h : i2b_PT j task c)
    (ha : c.announced src = true) :
    i2b_PT j task (considerPurge j { c with ptrack := upd c.ptrack src ((c.ptrack src).erase task) } src) := by
  have key : ∀ t, t ∈ j.consumers src → c.doneC t = false → t ≠ task →
      c.ptracked src = true ∧ t ∈ (c.ptrack src).erase task := by
    intro t ht hd hne
    have := h.sound src t ht hd hne
    exact ⟨this.1, (List.mem_erase_of_ne hne).mpr this.2⟩
  unfold considerPurge
  dsimp only
  split
  · rename_i hc
    simp only [upd_same, Bool.and_eq_true, Bool.or_eq_true, Bool.not_eq_true', List.isEmpty_iff] at hc
    obtain ⟨hnd, hnr⟩ := hc
    have alld : ∀ t, t ∈ j.consumers src → t ≠ task → c.doneC t = true := by
      intro t ht hne
      cases hd : c.doneC t with
      | true => rfl
      | false =>
        obtain ⟨k1, k2⟩ := key t ht hd hne
        rcases hnd with hnd | hnd
        · rw [k1] at hnd; cases hnd
        · rw [hnd] at k2; cases k2
    refine ⟨?_, ?_⟩
    · intro d t ht hd hne
      simp only at hd ⊢
      by_cases hds : d = src
      · subst hds; rw [alld t ht hne] at hd; cases hd
      · rw [upd_other _ _ _ _ hds, upd_other _ _ _ _ hds]; exact h.sound d t ht hd hne
    · intro d hd
      simp only [List.mem_append, List.mem_singleton] at hd
      rcases hd with hd | hd
      · exact h.pq d hd
      · subst hd
        refine ⟨alld, ?_, ha⟩
        intro hext
        rcases hnr with hnr | hnr
        · have : j.ext.contains d = true := by simpa using hext
          rw [this] at hnr; cases hnr
        · exact hnr
  · refine ⟨?_, h.pq⟩
    intro d t ht hd hne
    simp only at hd ⊢
    by_cases hds : d = src
    · subst hds; rw [upd_same]; exact key t ht hd hne
    · rw [upd_other _ _ _ _ hds]; exact h.sound d t ht hd hne

theorem i2b_PT_completeInputs (j : Job) (task : Task) (l : List Ds) (c c' : Ctl) (h : i2b_PT j task c)
    (hann : ∀ src, src ∈ l → c.announced src = true)
    (hr : completeInputs j task c l = .ok c') : i2b_PT j task c' := by
  induction l generalizing c with
  | nil => simp only [completeInputs, Except.ok.injEq] at hr; subst hr; exact h
  | cons a l ih =>
    unfold completeInputs at hr
    split at hr
    · dsimp only at hr
      refine ih _ (i2b_PT_iter j task c a h (hann a (by simp))) ?_ hr
      intro src hs
      simp only [considerPurge_announced]
      exact hann src (by simp [hs])
    · cases hr

theorem i2b_considerPurge_ptracked_other (j : Job) (c : Ctl) (ds ds' : Ds) (h : ds' ≠ ds) :
    (considerPurge j c ds).ptracked ds' = c.ptracked ds' := by
  unfold considerPurge
  dsimp only
  split
  · simp [upd_other _ _ _ _ h]
  · rfl

/-- the loop over the inputs of a completing task does not hit the `KeyError` -/
theorem i2b_completeInputs_ok (j : Job) (task : Task) (l : List Ds) (c : Ctl) (hnd : l.Nodup)
    (hin : ∀ src, src ∈ l → c.ptracked src = true ∧ task ∈ c.ptrack src) (e : Err) :
    completeInputs j task c l ≠ .error e := by
  induction l generalizing c with
  | nil => simp [completeInputs]
  | cons a l ih =>
    have ha := hin a (by simp)
    simp only [List.nodup_cons] at hnd
    unfold completeInputs
    split
    · dsimp only
      refine ih _ hnd.2 ?_
      intro src hs
      have hne : src ≠ a := by intro he; subst he; exact hnd.1 hs
      have := hin src (by simp [hs])
      rw [i2b_considerPurge_ptracked_other _ _ _ _ hne, considerPurge_ptrack]
      simp only [upd_other _ _ _ _ hne]
      exact this
    · rename_i hc
      exfalso; apply hc
      simp [ha.1, ha.2]

/-! ### removing a completed pair from `ongoing` -/

theorem i2b_erase_snd : ∀ (l : List (Worker × Task)) (a b : Worker) (t t' : Task),
    (l.map (·.2)).Nodup → (b, t') ∈ l → (a, t) ∈ l.erase (b, t') → t ≠ t'
  | [], _, _, _, _, _, hb, _ => by cases hb
  | x :: l, a, b, t, t', hnd, hb, ha => by
    simp only [List.map_cons, List.nodup_cons] at hnd
    rw [List.erase_cons] at ha
    split at ha
    · rename_i hx
      have hx' : x = (b, t') := by simpa using hx
      subst hx'
      intro he; subst he
      exact hnd.1 (List.mem_map.mpr ⟨(a, t), ha, rfl⟩)
    · rename_i hx
      have hxne : x ≠ (b, t') := by simpa using hx
      have hb' : (b, t') ∈ l := by
        rcases List.mem_cons.mp hb with h | h
        · exact absurd h.symm hxne
        · exact h
      rcases List.mem_cons.mp ha with h | h
      · intro he; subst he; subst h
        exact hnd.1 (List.mem_map.mpr ⟨(b, t), hb', rfl⟩)
      · exact i2b_erase_snd l a b t t' hnd.2 hb' h

/-! ### stage 1 of a `DatasetPublished` notification: the dataset is announced -/

theorem i2b_inv2_announce (j : Job) (cl : Cluster) (s : Sys) (h2 : Inv2 j cl s)
    (htv : ∀ t, s.ctl.tracked t = true → t < j.tasks.length)
    (ds : Ds) (h : Host) (rest : List Event)
    (hsub : ∀ e, (rest ++ s.env.pending).count e ≤ s.allEv.count e)
    (hp : s.phase = .notifying) (hprod : s.env.produced ds = true) :
    Inv2 j cl { s with ctl := considerComputable (considerFetch j (markAvailable s.ctl h ds) ds h) ds,
                       inbox := rest } := by
  have tk2 : i2b_TK j (considerFetch j (markAvailable s.ctl h ds) ds h) := by
    refine ⟨?_, ?_, ?_, ?_⟩
    · intro t ht; simp only [considerFetch_computable, markAvailable_computable] at ht; exact h2.comp_valid t ht
    · intro t ht; simp only [considerFetch_tracked, markAvailable_tracked] at ht; exact htv t ht
    · intro d t ht hd
      simp only [considerFetch_announced, i2b_markAvailable_announced, considerFetch_tracked, markAvailable_tracked,
        considerFetch_tracker, markAvailable_tracker] at hd ⊢
      by_cases hds : d = ds
      · subst hds; simp at hd
      · rw [upd_other _ _ _ _ hds] at hd; exact h2.tracker_complete d t ht hd
    · intro t ht d hd
      simp only [considerFetch_computable, markAvailable_computable] at ht
      simp only [considerFetch_announced, i2b_markAvailable_announced]
      by_cases hds : d = ds
      · subst hds; simp
      · rw [upd_other _ _ _ _ hds]; exact h2.ready t (Or.inl ht) d hd
  have tk3 := i2b_TK_considerComputable j _ ds tk2 (by simp)
  have f_ong : (considerComputable (considerFetch j (markAvailable s.ctl h ds) ds h) ds).ongoing = s.ctl.ongoing := by simp
  have f_done : (considerComputable (considerFetch j (markAvailable s.ctl h ds) ds h) ds).doneC = s.ctl.doneC := by simp
  have f_disp : (considerComputable (considerFetch j (markAvailable s.ctl h ds) ds h) ds).dispatched = s.ctl.dispatched := by simp
  have f_ptd : (considerComputable (considerFetch j (markAvailable s.ctl h ds) ds h) ds).ptracked = s.ctl.ptracked := by simp
  have f_pt : (considerComputable (considerFetch j (markAvailable s.ctl h ds) ds h) ds).ptrack = s.ctl.ptrack := by simp
  have f_pq : (considerComputable (considerFetch j (markAvailable s.ctl h ds) ds h) ds).purgeQ = s.ctl.purgeQ := by simp
  have f_out : (considerComputable (considerFetch j (markAvailable s.ctl h ds) ds h) ds).outputs = s.ctl.outputs := by simp
  have f_ann : (considerComputable (considerFetch j (markAvailable s.ctl h ds) ds h) ds).announced
      = upd s.ctl.announced ds true := by simp
  generalize considerComputable (considerFetch j (markAvailable s.ctl h ds) ds h) ds = c3 at *
  have hmono : ∀ d, s.ctl.announced d = true → c3.announced d = true := by
    intro d hd; rw [f_ann]
    by_cases hds : d = ds
    · subst hds; simp
    · rw [upd_other _ _ _ _ hds]; exact hd
  have hfl : ∀ w t, Sys.inFlight { s with ctl := c3, inbox := rest } w t ↔ s.inFlight w t := by
    intro w t; simp only [Sys.inFlight, Sys.todoPairs, f_ong]
  have hmem : ∀ e, e ∈ rest ++ s.env.pending → e ∈ s.allEv := i2b_mem_of_count_le hsub
  refine ⟨?_, ?_, ?_, ?_, ?_, ?_, ?_, ?_, ?_, ?_, ?_, ?_, ?_, ?_, ?_, ?_, ?_, ?_, ?_, ?_, ?_, ?_, ?_⟩
  · intro w t hf; simp only [f_done]; exact h2.flight_not_done w t ((hfl w t).mp hf)
  · intro w t hf; exact h2.flight_valid w t ((hfl w t).mp hf)
  · exact tk3.comp_valid
  · intro t ht; simp only [f_done] at ht; exact h2.done_ran t ht
  · intro t ht; simp only [f_disp]; exact h2.ran_disp t ht
  · exact h2.queued_not_ran
  · intro w t hf; exact h2.flight_queued_or_ran w t ((hfl w t).mp hf)
  · intro w d; exact Nat.le_trans (hsub _) (h2.ev_count w d)
  · intro w d he; exact h2.ev_ran w d (hmem _ he)
  · intro w d he; rw [hfl]; exact h2.ev_flight w d (hmem _ he)
  · intro hx _; exact absurd hp hx
  · intro d t ht hd; simp only [f_done] at hd; simp only [f_ptd, f_pt]; exact h2.ptrack_sound d t ht hd
  · intro d hd
    simp only [f_pq] at hd
    obtain ⟨a, b, c⟩ := h2.purgeQ_ok d hd
    simp only [f_done, f_out]
    exact ⟨a, b, hmono d c⟩
  · exact tk3.tracker_complete
  · intro t ht d hd
    rcases ht with ht | ht
    · exact tk3.ready t ht d hd
    · simp only [f_disp] at ht; exact hmono d (h2.ready t (Or.inr ht) d hd)
  · intro d hd
    simp only [f_ann] at hd
    by_cases hds : d = ds
    · subst hds; exact hprod
    · rw [upd_other _ _ _ _ hds] at hd; exact h2.announced_produced d hd
  · exact h2.produced_iff
  · exact h2.no_input_not_produced
  · exact h2.no_purge_before_consumer
  · exact h2.no_purge_needed_queued
  · exact h2.no_err_tracker
  · exact h2.no_err_ongoing
  · exact h2.no_err_plan

/-! ### stage 2: the notices of all outputs of `task` have been processed — the task is completed -/

theorem i2b_inv2_complete (j : Job) (cl : Cluster) (s : Sys) (h2 : Inv2 j cl s) (task : Task) (w : Worker)
    (c4 : Ctl) (idle : List Worker) (rem : Nat)
    (htodo : s.todo = [])
    (hfu : (s.ctl.ongoing.map (·.2)).Nodup) (hon : (w, task) ∈ s.ctl.ongoing)
    (hran : s.env.ran task = true) (hdisp : s.ctl.dispatched task = 1)
    (hev : ∀ w' ds', Event.pubW w' ds' ∈ s.allEv → ds'.task ≠ task)
    (hci : completeInputs j task s.ctl (j.inputs task) = .ok c4) :
    Inv2 j cl { s with ctl := { c4 with ongoing := c4.ongoing.erase (w, task), idle := idle, remaining := rem,
                                        doneC := upd c4.doneC task true } } := by
  have f_ong := completeInputs_ongoing _ _ _ _ _ hci
  have f_done := completeInputs_doneC _ _ _ _ _ hci
  have f_disp := completeInputs_dispatched _ _ _ _ _ hci
  have f_comp := completeInputs_computable _ _ _ _ _ hci
  have f_out := completeInputs_outputs _ _ _ _ _ hci
  have f_ann := completeInputs_announced _ _ _ _ _ hci
  have f_td := completeInputs_tracked _ _ _ _ _ hci
  have f_tr := completeInputs_tracker _ _ _ _ _ hci
  have pt0 : i2b_PT j task s.ctl := by
    refine ⟨fun d t ht hd _ => h2.ptrack_sound d t ht hd, ?_⟩
    intro d hd
    obtain ⟨a, b, c⟩ := h2.purgeQ_ok d hd
    exact ⟨fun t ht _ => a t ht, b, c⟩
  have pt4 := i2b_PT_completeInputs j task _ _ _ pt0 (fun src hs => h2.ready task (Or.inr hdisp) src hs) hci
  have hfl : ∀ w' t, Sys.inFlight { s with ctl := { c4 with ongoing := c4.ongoing.erase (w, task), idle := idle, remaining := rem, doneC := upd c4.doneC task true } } w' t → s.inFlight w' t ∧ t ≠ task := by
    intro w' t hf
    simp only [Sys.inFlight, Sys.todoPairs, htodo, List.map_nil, List.not_mem_nil, or_false, f_ong] at hf ⊢
    exact ⟨List.mem_of_mem_erase hf, i2b_erase_snd _ _ _ _ _ hfu hon hf⟩
  refine ⟨?_, ?_, ?_, ?_, ?_, ?_, ?_, ?_, ?_, ?_, ?_, ?_, ?_, ?_, ?_, ?_, ?_, ?_, ?_, ?_, ?_, ?_, ?_⟩
  · intro w' t hf
    obtain ⟨k1, k2⟩ := hfl w' t hf
    simp only [upd_other _ _ _ _ k2, f_done]
    exact h2.flight_not_done w' t k1
  · intro w' t hf; exact h2.flight_valid w' t (hfl w' t hf).1
  · intro t ht; simp only [f_comp] at ht; exact h2.comp_valid t ht
  · intro t ht
    simp only at ht ⊢
    by_cases htt : t = task
    · subst htt; exact hran
    · rw [upd_other _ _ _ _ htt, f_done] at ht; exact h2.done_ran t ht
  · intro t ht; simp only [f_disp]; exact h2.ran_disp t ht
  · exact h2.queued_not_ran
  · intro w' t hf; exact h2.flight_queued_or_ran w' t (hfl w' t hf).1
  · exact h2.ev_count
  · exact h2.ev_ran
  · intro w' d he
    have hf := h2.ev_flight w' d he
    have hne := hev w' d he
    simp only [Sys.inFlight, Sys.todoPairs, htodo, List.map_nil, List.not_mem_nil, or_false, f_ong] at hf ⊢
    refine (List.mem_erase_of_ne ?_).mpr hf
    intro heq; simp only [Prod.mk.injEq] at heq; exact hne heq.2
  · exact h2.inbox_phase
  · intro d t ht hd
    simp only at hd ⊢
    by_cases htt : t = task
    · subst htt; simp at hd
    · rw [upd_other _ _ _ _ htt] at hd; exact pt4.sound d t ht hd htt
  · intro d hd
    obtain ⟨a, b, c⟩ := pt4.pq d hd
    refine ⟨?_, b, c⟩
    intro t ht
    simp only
    by_cases htt : t = task
    · subst htt; simp
    · rw [upd_other _ _ _ _ htt]; exact a t ht htt
  · intro d t ht hd
    simp only [f_ann, f_td, f_tr] at hd ⊢
    exact h2.tracker_complete d t ht hd
  · intro t ht d hd
    simp only [f_comp, f_disp, f_ann] at ht ⊢
    exact h2.ready t ht d hd
  · intro d hd; simp only [f_ann] at hd; exact h2.announced_produced d hd
  · exact h2.produced_iff
  · exact h2.no_input_not_produced
  · exact h2.no_purge_before_consumer
  · exact h2.no_purge_needed_queued
  · exact h2.no_err_tracker
  · exact h2.no_err_ongoing
  · exact h2.no_err_plan

end EkwVerif.Ctrl
