/-
Helper lemmas for Props/C11.lean (namespace `EkwVerif.Graph.Aux`).
-/
import EkwVerif.Model.Graph

namespace EkwVerif.Graph.Aux
open EkwVerif.Graph

/-! ### folds and maps with exceptions -/

theorem foldE_append {α β ε : Type} (f : β → α → Except ε β) (b : β) (l l' : List α) :
    foldE f b (l ++ l') = match foldE f b l with | .error e => .error e | .ok b' => foldE f b' l' := by
  induction l generalizing b with
  | nil => simp [foldE]
  | cons a l ih =>
    simp only [List.cons_append, foldE]
    cases f b a with
    | error e => simp
    | ok b' => simp [ih]

/-- Invariant rule for `foldE`: total correctness (the fold succeeds and the invariant holds of
the whole list) from a step rule that may use the position in the list. -/
theorem foldE_inv {α β ε : Type} (f : β → α → Except ε β) (l : List α) (Inv : List α → β → Prop) (b0 : β)
    (h0 : Inv [] b0)
    (hstep : ∀ pre a post b, l = pre ++ a :: post → Inv pre b → ∃ b', f b a = .ok b' ∧ Inv (pre ++ [a]) b') :
    ∃ b, foldE f b0 l = .ok b ∧ Inv l b := by
  suffices h : ∀ (l' pre : List α) (b : β), l = pre ++ l' → Inv pre b → ∃ b', foldE f b l' = .ok b' ∧ Inv l b' by
    exact h l [] b0 rfl h0
  intro l'
  induction l' with
  | nil => intro pre b hl hi; exact ⟨b, rfl, by simpa [hl] using hi⟩
  | cons a l' ih =>
    intro pre b hl hi
    obtain ⟨b', hf, hi'⟩ := hstep pre a l' b hl hi
    have := ih (pre ++ [a]) b' (by simp [hl]) hi'
    simpa [foldE, hf] using this

/-- Partial-correctness version: if the fold succeeded, the invariant holds. -/
theorem foldE_inv' {α β ε : Type} (f : β → α → Except ε β) (l : List α) (Inv : List α → β → Prop) (b0 b : β)
    (h0 : Inv [] b0)
    (hstep : ∀ pre a post b b', l = pre ++ a :: post → Inv pre b → f b a = .ok b' → Inv (pre ++ [a]) b')
    (h : foldE f b0 l = .ok b) : Inv l b := by
  suffices hs : ∀ (l' pre : List α) (b1 : β), l = pre ++ l' → Inv pre b1 → foldE f b1 l' = .ok b → Inv l b by
    exact hs l [] b0 rfl h0 h
  intro l'
  induction l' with
  | nil => intro pre b1 hl hi hf; simp [foldE] at hf; subst hf; simpa [hl] using hi
  | cons a l' ih =>
    intro pre b1 hl hi hf
    simp only [foldE] at hf
    cases hfa : f b1 a with
    | error e => simp [hfa] at hf
    | ok b' =>
      simp only [hfa] at hf
      exact ih (pre ++ [a]) b' (by simp [hl]) (hstep pre a l' b1 b' hl hi hfa) hf

theorem mapE_cons_ok {α β ε : Type} (f : α → Except ε β) (a : α) (l : List α) (bs : List β) :
    mapE f (a :: l) = .ok bs ↔ ∃ b bs', f a = .ok b ∧ mapE f l = .ok bs' ∧ bs = b :: bs' := by
  simp only [mapE]
  cases hfa : f a with
  | error e => simp
  | ok b =>
    cases hm : mapE f l with
    | error e => simp
    | ok bs' =>
      simp only [Except.ok.injEq]
      constructor
      · intro h; exact ⟨b, bs', rfl, rfl, h.symm⟩
      · rintro ⟨b1, bs1, h1, h2, h3⟩; subst h1 h2; exact h3.symm

theorem mapE_ok_length {α β ε : Type} (f : α → Except ε β) (l : List α) (bs : List β)
    (h : mapE f l = .ok bs) : bs.length = l.length := by
  induction l generalizing bs with
  | nil => simp [mapE] at h; subst h; rfl
  | cons a l ih =>
    rw [mapE_cons_ok] at h
    obtain ⟨b, bs', _, h2, h3⟩ := h
    subst h3; simp [ih bs' h2]

theorem mapE_ok_get {α β ε : Type} (f : α → Except ε β) (l : List α) (bs : List β)
    (h : mapE f l = .ok bs) (i : Nat) (a : α) (ha : l[i]? = some a) :
    ∃ b, bs[i]? = some b ∧ f a = .ok b := by
  induction l generalizing bs i with
  | nil => simp at ha
  | cons a' l ih =>
    rw [mapE_cons_ok] at h
    obtain ⟨b, bs', h1, h2, h3⟩ := h
    subst h3
    cases i with
    | zero => simp at ha; subst ha; exact ⟨b, by simp, h1⟩
    | succ i => simpa using ih bs' h2 i (by simpa using ha)

theorem mapE_ok_mem {α β ε : Type} (f : α → Except ε β) (l : List α) (bs : List β)
    (h : mapE f l = .ok bs) (b : β) (hb : b ∈ bs) : ∃ a ∈ l, f a = .ok b := by
  induction l generalizing bs with
  | nil => simp [mapE] at h; subst h; simp at hb
  | cons a' l ih =>
    rw [mapE_cons_ok] at h
    obtain ⟨b', bs', h1, h2, h3⟩ := h
    subst h3
    rcases List.mem_cons.1 hb with rfl | hb
    · exact ⟨a', by simp, h1⟩
    · obtain ⟨a, ha, hf⟩ := ih bs' h2 hb
      exact ⟨a, by simp [ha], hf⟩

theorem mapE_total {α β ε : Type} (f : α → Except ε β) (g : α → β) (l : List α)
    (h : ∀ a ∈ l, f a = .ok (g a)) : mapE f l = .ok (l.map g) := by
  induction l with
  | nil => rfl
  | cons a l ih =>
    simp only [mapE, List.map_cons]
    rw [h a (by simp), ih (fun a ha => h a (by simp [ha]))]


/-! ### denotation -/

theorem denFrom_append (acc : List Term) (ns ms : List Node) :
    denFrom acc (ns ++ ms) = denFrom (denFrom acc ns) ms := by
  induction ns generalizing acc with
  | nil => rfl
  | cons n ns ih => simp [denFrom, ih]

theorem denAll_snoc (ns : List Node) (n : Node) :
    denAll (ns ++ [n]) = denAll ns ++ [termOf (denAll ns) n] := by
  simp [denAll, denFrom_append, denFrom]

theorem denFrom_length (acc : List Term) (ns : List Node) :
    (denFrom acc ns).length = acc.length + ns.length := by
  induction ns generalizing acc with
  | nil => simp [denFrom]
  | cons n ns ih => simp [denFrom, ih]; omega

@[simp] theorem denAll_length (ns : List Node) : (denAll ns).length = ns.length := by
  simp [denAll, denFrom_length]

theorem denFrom_prefix (acc : List Term) (ns : List Node) : ∃ l, denFrom acc ns = acc ++ l := by
  induction ns generalizing acc with
  | nil => exact ⟨[], by simp [denFrom]⟩
  | cons n ns ih =>
    obtain ⟨l, hl⟩ := ih (acc ++ [termOf acc n])
    exact ⟨termOf acc n :: l, by simp [denFrom, hl]⟩

theorem denAll_append_get (ns ms : List Node) (i : Nat) (h : i < ns.length) :
    (denAll (ns ++ ms))[i]? = (denAll ns)[i]? := by
  obtain ⟨l, hl⟩ := denFrom_prefix (denAll ns) ms
  have : denAll (ns ++ ms) = denAll ns ++ l := by simp [denAll, denFrom_append]; exact hl
  rw [this, List.getElem?_append_left (by simpa using h)]

theorem den_append (ns ms : List Node) (i : Nat) (h : i < ns.length) :
    den (ns ++ ms) i = den ns i := denAll_append_get ns ms i h

theorem den_snoc_last (ns : List Node) (n : Node) :
    den (ns ++ [n]) ns.length = some (termOf (denAll ns) n) := by
  unfold den
  rw [denAll_snoc]
  have : ns.length = (denAll ns).length := by simp
  rw [this, List.getElem?_concat_length]

theorem den_isSome (ns : List Node) (i : Nat) (h : i < ns.length) : ∃ t, den ns i = some t := by
  unfold den
  have : i < (denAll ns).length := by simpa using h
  exact ⟨(denAll ns)[i], List.getElem?_eq_getElem this⟩

theorem den_none (ns : List Node) (i : Nat) (h : ns.length ≤ i) : den ns i = none := by
  unfold den; exact List.getElem?_eq_none (by simpa using h)

/-! ### well-formedness -/

theorem wfFrom_append (pre ns ms : List Node) :
    wfFrom pre (ns ++ ms) ↔ wfFrom pre ns ∧ wfFrom (pre ++ ns) ms := by
  induction ns generalizing pre with
  | nil => simp [wfFrom]
  | cons n ns ih => simp [wfFrom, ih, and_assoc]

theorem wf_snoc (ns : List Node) (n : Node) : WFNodes (ns ++ [n]) ↔ WFNodes ns ∧ NodeOK ns n := by
  simp [WFNodes, wfFrom_append, wfFrom]

theorem wf_split (pre : List Node) (a : Node) (post : List Node) (h : WFNodes (pre ++ a :: post)) :
    WFNodes pre ∧ NodeOK pre a := by
  have : pre ++ a :: post = (pre ++ [a]) ++ post := by simp
  rw [this] at h
  have h1 := ((wfFrom_append [] _ _).1 h).1
  exact (wf_snoc pre a).1 h1


/-! ### generic traversal helpers -/

/-- Inputs re-pointed through `done` (old index ↦ index in the output store). -/
def remap (done : List Nat) (ins : List (Name × Ref)) : List (Name × Ref) :=
  ins.map fun x => (x.1, (done.getD x.2.1 0, x.2.2))

theorem nodeVisit_node_only {σ T O : Type} (tr : Transformer σ T O) (f) (h1 : tr.source = none) (h2 : tr.sink = none)
    (h3 : tr.processor = none) (h4 : tr.node = some f) (s : σ) (n : Node) (ins : List (Name × O)) :
    nodeVisit tr s n ins = f s n ins := by
  simp [nodeVisit, h1, h2, h3, h4]

/-- With the node-like output lookup, the transformed inputs are the inputs re-pointed through `done`,
provided every referenced node is done and its image declares the output. -/
theorem transInputs_nodeOutput (tr : Transformer (List Node) Nat Ref) (htr : tr.output = nodeOutput)
    (out : List Node) (done : List Nat) (ins : List (Name × Ref))
    (h : ∀ x ∈ ins, ∃ t m, done[x.2.1]? = some t ∧ out[t]? = some m ∧ x.2.2 ∈ m.outputs) :
    transInputs tr out done ins = .ok (remap done ins) := by
  unfold transInputs remap
  apply mapE_total
  intro x hx
  obtain ⟨t, m, h1, h2, h3⟩ := h x hx
  simp [h1, htr, nodeOutput, h2, h3, List.getD_eq_getElem?_getD]

theorem remap_range (k : Nat) (ins : List (Name × Ref)) (h : ∀ x ∈ ins, x.2.1 < k) :
    remap (List.range k) ins = ins := by
  unfold remap
  conv => rhs; rw [← List.map_id ins]
  apply List.map_congr_left
  intro x hx
  have := h x hx
  simp [List.getD_eq_getElem?_getD, this]

theorem nodeOK_lt {pre : List Node} {n : Node} (h : NodeOK pre n) : ∀ x ∈ n.inputs, x.2.1 < pre.length := by
  intro x hx
  obtain ⟨m, hm, _⟩ := h.2 x hx
  exact (List.getElem?_eq_some_iff.1 hm).1

/-! ### copy -/

theorem copy_run (ns : List Node) (h : WFNodes ns) :
    run copier [] ns = .ok (ns, List.range ns.length) := by
  have := foldE_inv (step copier) ns (fun pre st => st = (pre, List.range pre.length)) ([], []) (by simp)
    (by
      intro pre a post b hl hb
      subst hb
      have hok := (wf_split pre a post (hl ▸ h)).2
      have hti : transInputs copier pre (List.range pre.length) a.inputs = .ok a.inputs := by
        rw [transInputs_nodeOutput copier rfl]
        · rw [remap_range _ _ (nodeOK_lt hok)]
        · intro x hx
          obtain ⟨m, hm, ho⟩ := hok.2 x hx
          have hlt := (List.getElem?_eq_some_iff.1 hm).1
          exact ⟨x.2.1, m, by simp [hlt], hm, ho⟩
      refine ⟨(pre ++ [a], List.range (pre ++ [a]).length), ?_, rfl⟩
      simp [step, hti, nodeVisit_node_only copier _ rfl rfl rfl rfl, List.range_succ])
  obtain ⟨b, hb, hi⟩ := this
  rw [run, hb, hi]

theorem sinksOf_range (k : Nat) (sinks : List Nat) (h : ∀ s ∈ sinks, s < k) :
    sinksOf (List.range k) sinks = .ok sinks := by
  unfold sinksOf
  conv => rhs; rw [← List.map_id sinks]
  apply mapE_total
  intro s hs
  simp [h s hs]

theorem copy_id (g : Graph) (h : g.WF) : copyGraph g = .ok g := by
  simp [copyGraph, transform, copy_run g.nodes h.nodes, sinksOf_range _ _ h.sinks]


/-! ### rename -/

def renameNode (f : Name → Name) (n : Node) : Node := { n with name := f n.name }

theorem nodeOK_rename (f : Name → Name) (pre : List Node) (n : Node) :
    NodeOK (pre.map (renameNode f)) n ↔ NodeOK pre n := by
  unfold NodeOK
  apply and_congr Iff.rfl
  constructor
  · intro h x hx
    obtain ⟨m, hm, ho⟩ := h x hx
    rw [List.getElem?_map] at hm
    cases hp : pre[x.2.1]? with
    | none => simp [hp] at hm
    | some m' => simp [hp] at hm; subst hm; exact ⟨m', rfl, ho⟩
  · intro h x hx
    obtain ⟨m, hm, ho⟩ := h x hx
    exact ⟨renameNode f m, by simp [hm], ho⟩

theorem rename_run (f : Name → Name) (ns : List Node) (h : WFNodes ns) :
    run (renamer f) [] ns = .ok (ns.map (renameNode f), List.range ns.length) := by
  have := foldE_inv (step (renamer f)) ns
    (fun pre st => st = (pre.map (renameNode f), List.range pre.length)) ([], []) (by simp)
    (by
      intro pre a post b hl hb
      subst hb
      have hok := (wf_split pre a post (hl ▸ h)).2
      have hti : transInputs (renamer f) (pre.map (renameNode f)) (List.range pre.length) a.inputs = .ok a.inputs := by
        rw [transInputs_nodeOutput (renamer f) rfl]
        · rw [remap_range _ _ (nodeOK_lt hok)]
        · intro x hx
          obtain ⟨m, hm, ho⟩ := hok.2 x hx
          have hlt := (List.getElem?_eq_some_iff.1 hm).1
          exact ⟨x.2.1, renameNode f m, by simp [hlt], by simp [hm], ho⟩
      refine ⟨((pre ++ [a]).map (renameNode f), List.range (pre ++ [a]).length), ?_, rfl⟩
      simp [step, hti, nodeVisit_node_only (renamer f) _ rfl rfl rfl rfl, List.range_succ, renameNode])
  obtain ⟨b, hb, hi⟩ := this
  rw [run, hb, hi]

theorem rename_eq (f : Name → Name) (g : Graph) (h : g.WF) :
    renameGraph f g = .ok { nodes := g.nodes.map (renameNode f), sinks := g.sinks } := by
  simp [renameGraph, transform, rename_run f g.nodes h.nodes, sinksOf_range _ _ h.sinks]

theorem denFrom_rename (f : Name → Name) (acc : List Term) (ns : List Node) :
    denFrom acc (ns.map (renameNode f)) = denFrom acc ns := by
  induction ns generalizing acc with
  | nil => rfl
  | cons n ns ih => simp only [List.map_cons, denFrom]; rw [show termOf acc (renameNode f n) = termOf acc n from rfl, ih]

theorem den_rename (f : Name → Name) (ns : List Node) (i : Nat) :
    den (ns.map (renameNode f)) i = den ns i := by
  simp [den, denAll, denFrom_rename]


/-! ### association lists -/

theorem mem_of_lookup {β : Type} {a : List (Name × β)} {k : Name} {v : β} (h : a.lookup k = some v) : (k, v) ∈ a := by
  induction a with
  | nil => simp at h
  | cons x a ih =>
    obtain ⟨k', v'⟩ := x
    rw [List.lookup_cons] at h
    by_cases hk : k = k'
    · subst hk; simp at h; subst h; simp
    · have : (k == k') = false := by simpa using hk
      simp [this] at h
      exact List.mem_cons_of_mem _ (ih h)

theorem lookup_of_mem {β : Type} {a : List (Name × β)} (hnd : (a.map (·.1)).Nodup) {k : Name} {v : β}
    (h : (k, v) ∈ a) : a.lookup k = some v := by
  induction a with
  | nil => simp at h
  | cons x a ih =>
    obtain ⟨k', v'⟩ := x
    simp only [List.map_cons, List.nodup_cons] at hnd
    rw [List.lookup_cons]
    rcases List.mem_cons.1 h with h1 | h2
    · cases h1; simp
    · have hne : k ≠ k' := by
        intro e
        exact hnd.1 (List.mem_map.2 ⟨(k, v), h2, e⟩)
      have : (k == k') = false := by simpa using hne
      simp [this, ih hnd.2 h2]

theorem lookup_none_iff {β : Type} {a : List (Name × β)} {k : Name} : a.lookup k = none ↔ k ∉ a.map (·.1) := by
  rw [List.lookup_eq_none_iff]
  constructor
  · intro h hk
    obtain ⟨p, hp, rfl⟩ := List.mem_map.1 hk
    simpa using h p hp
  · intro h p hp
    have : p.1 ∈ a.map (·.1) := List.mem_map.2 ⟨p, hp, rfl⟩
    simp; intro e; exact h (e ▸ this)

theorem lookup_remap (done : List Nat) (ins : List (Name × Ref)) (k : Name) :
    (remap done ins).lookup k = (ins.lookup k).map fun r => (done.getD r.1 0, r.2) := by
  induction ins with
  | nil => rfl
  | cons x ins ih =>
    obtain ⟨k', r⟩ := x
    simp only [remap, List.map_cons, List.lookup_cons] at ih ⊢
    cases (k == k') with
    | false => exact ih
    | true => rfl

theorem remap_keys (done : List Nat) (ins : List (Name × Ref)) : (remap done ins).map (·.1) = ins.map (·.1) := by
  simp [remap, Function.comp_def]

theorem sameInputs_lookup (a b : List (Name × Ref)) (h : sameInputs a b = true) (k : Name) :
    a.lookup k = b.lookup k := by
  simp only [sameInputs, Bool.and_eq_true, List.all_eq_true, List.any_eq_true] at h
  obtain ⟨⟨_, h2⟩, h3⟩ := h
  cases hk : a.lookup k with
  | none =>
    symm
    rw [lookup_none_iff] at hk ⊢
    intro hb
    obtain ⟨y, hy, rfl⟩ := List.mem_map.1 hb
    obtain ⟨x, hx, hxy⟩ := h2 y hy
    have : x.1 = y.1 := by simpa using hxy
    exact hk (this ▸ List.mem_map.2 ⟨x, hx, rfl⟩)
  | some v =>
    have := h3 (k, v) (mem_of_lookup hk)
    simp at this
    exact this.symm

theorem sameInputs_refl (a : List (Name × Ref)) (ha : (a.map (·.1)).Nodup) : sameInputs a a = true := by
  simp only [sameInputs, Bool.and_eq_true, List.all_eq_true, List.any_eq_true]
  refine ⟨⟨fun x hx => ⟨x, hx, by simp⟩, fun x hx => ⟨x, hx, by simp⟩⟩, fun x hx => ?_⟩
  have := lookup_of_mem ha (k := x.1) (v := x.2) hx
  simp [this]

theorem sameInputs_of_lookup (a b : List (Name × Ref)) (ha : (a.map (·.1)).Nodup)
    (h : ∀ k, a.lookup k = b.lookup k) : sameInputs a b = true := by
  simp only [sameInputs, Bool.and_eq_true, List.all_eq_true, List.any_eq_true]
  refine ⟨⟨fun x hx => ?_, fun y hy => ?_⟩, fun x hx => ?_⟩
  · have h1 := lookup_of_mem ha (k := x.1) (v := x.2) hx
    rw [h] at h1
    exact ⟨(x.1, x.2), mem_of_lookup h1, by simp⟩
  · cases hk : a.lookup y.1 with
    | none =>
      rw [h, lookup_none_iff] at hk
      exact absurd (List.mem_map.2 ⟨y, hy, rfl⟩) hk
    | some v => exact ⟨(y.1, v), mem_of_lookup hk, by simp⟩
  · have h1 := lookup_of_mem ha (k := x.1) (v := x.2) hx
    rw [h] at h1
    simp [h1]

/-! ### denotation at an index -/

theorem split_at {α : Type} (l : List α) (i : Nat) (a : α) (h : l[i]? = some a) :
    l = l.take i ++ a :: l.drop (i + 1) := by
  obtain ⟨hlt, rfl⟩ := List.getElem?_eq_some_iff.1 h
  rw [List.getElem_cons_drop hlt, List.take_append_drop]

theorem den_at (ns : List Node) (i : Nat) (n : Node) (h : ns[i]? = some n) :
    den ns i = some (termOf (denAll (ns.take i)) n) := by
  have hlt := (List.getElem?_eq_some_iff.1 h).1
  have hs := split_at ns i n h
  have hlen : (ns.take i).length = i := by simp; omega
  have : ns = (ns.take i ++ [n]) ++ ns.drop (i + 1) := by simpa using hs
  have h2 := den_snoc_last (ns.take i) n
  rw [hlen] at h2
  conv => lhs; rw [this]
  rw [den_append _ _ _ (by simp [hlen]), h2]

theorem wf_get (ns : List Node) (h : WFNodes ns) (i : Nat) (n : Node) (hn : ns[i]? = some n) :
    NodeOK (ns.take i) n := by
  have hs := split_at ns i n hn
  rw [hs] at h
  exact (wf_split _ _ _ h).2

theorem denAll_take_get (ns : List Node) (i j : Nat) (h : j < i) (hi : i ≤ ns.length) :
    (denAll (ns.take i))[j]? = den ns j := by
  have : ns = ns.take i ++ ns.drop i := (List.take_append_drop i ns).symm
  conv => rhs; rw [this]
  rw [den_append _ _ _ (by simp; omega)]
  rfl

theorem termOf_congr (acc acc' : List Term) (n n' : Node) (hp : n.payload = n'.payload) (ho : n.outputs = n'.outputs)
    (hi : ∀ k, (match n.inputs.lookup k with
                | none => none
                | some (j, o) => match acc[j]? with | none => none | some t => some (o, t)) =
               (match n'.inputs.lookup k with
                | none => none
                | some (j, o) => match acc'[j]? with | none => none | some t => some (o, t))) :
    termOf acc n = termOf acc' n' := by
  unfold termOf
  rw [hp, ho]
  congr 1
  funext k
  exact hi k

theorem termOf_remap (acc acc0 : List Term) (done : List Nat) (n : Node)
    (h : ∀ x ∈ n.inputs, acc[done.getD x.2.1 0]? = acc0[x.2.1]?) :
    termOf acc { n with inputs := remap done n.inputs } = termOf acc0 n := by
  refine termOf_congr acc acc0 { n with inputs := remap done n.inputs } n rfl rfl ?_
  intro k
  simp only [lookup_remap]
  cases hl : n.inputs.lookup k with
  | none => rfl
  | some r =>
    have := h (k, r) (mem_of_lookup hl)
    simp at this
    simp [this]


/-! ### simulation between the processed prefix and the output store -/

/-- `done` maps every processed node to a store node with the same declared outputs and the same
denotation. -/
def Sim (pre out : List Node) (done : List Nat) : Prop :=
  done.length = pre.length ∧
  ∀ i n, pre[i]? = some n →
    ∃ t m, done[i]? = some t ∧ out[t]? = some m ∧ m.outputs = n.outputs ∧ den out t = den pre i

theorem sim_nil (out : List Node) : Sim [] out [] := ⟨rfl, by simp⟩

theorem sim_inputs {pre out : List Node} {done : List Nat} (hs : Sim pre out done) {n : Node} (hn : NodeOK pre n) :
    ∀ x ∈ n.inputs, ∃ t m, done[x.2.1]? = some t ∧ out[t]? = some m ∧ x.2.2 ∈ m.outputs := by
  intro x hx
  obtain ⟨m0, hm0, ho⟩ := hn.2 x hx
  obtain ⟨t, m, h1, h2, h3, _⟩ := hs.2 _ _ hm0
  exact ⟨t, m, h1, h2, h3 ▸ ho⟩

theorem sim_store_append {pre out : List Node} {done : List Nat} (hs : Sim pre out done) (more : List Node) :
    Sim pre (out ++ more) done := by
  refine ⟨hs.1, fun i n hn => ?_⟩
  obtain ⟨t, m, h1, h2, h3, h4⟩ := hs.2 i n hn
  have hlt := (List.getElem?_eq_some_iff.1 h2).1
  exact ⟨t, m, h1, by rw [List.getElem?_append_left hlt]; exact h2, h3, by rw [den_append _ _ _ hlt]; exact h4⟩

theorem sim_snoc {pre out : List Node} {done : List Nat} (hs : Sim pre out done) (n : Node) (t : Nat) (m : Node)
    (hm : out[t]? = some m) (ho : m.outputs = n.outputs) (hd : den out t = some (termOf (denAll pre) n)) :
    Sim (pre ++ [n]) out (done ++ [t]) := by
  refine ⟨by simp [hs.1], fun i n' hn' => ?_⟩
  by_cases hi : i < pre.length
  · rw [List.getElem?_append_left hi] at hn'
    obtain ⟨t', m', h1, h2, h3, h4⟩ := hs.2 i n' hn'
    refine ⟨t', m', ?_, h2, h3, ?_⟩
    · rw [List.getElem?_append_left (by rw [hs.1]; exact hi)]; exact h1
    · rw [den_append _ _ _ hi]; exact h4
  · have hlt := (List.getElem?_eq_some_iff.1 hn').1
    simp at hlt
    have hi' : i = pre.length := by omega
    subst hi'
    simp at hn'
    subst hn'
    refine ⟨t, m, ?_, hm, ho, ?_⟩
    · rw [← hs.1]; simp
    · rw [den_snoc_last]; exact hd

/-- The node rebuilt with its inputs re-pointed through `done` denotes the same term. -/
theorem termOf_sim {pre out : List Node} {done : List Nat} (hs : Sim pre out done) {n : Node} (hn : NodeOK pre n) :
    termOf (denAll out) { n with inputs := remap done n.inputs } = termOf (denAll pre) n := by
  apply termOf_remap
  intro x hx
  obtain ⟨m0, hm0, _⟩ := hn.2 x hx
  obtain ⟨t, m, h1, _, _, h4⟩ := hs.2 _ _ hm0
  simp only [List.getD_eq_getElem?_getD, h1, Option.getD_some]
  exact h4

theorem nodeOK_remap {pre out : List Node} {done : List Nat} (hs : Sim pre out done) {n : Node} (hn : NodeOK pre n) :
    NodeOK out { n with inputs := remap done n.inputs } := by
  refine ⟨by simpa [remap_keys] using hn.1, ?_⟩
  intro x hx
  simp only [remap, List.mem_map] at hx
  obtain ⟨y, hy, rfl⟩ := hx
  obtain ⟨t, m, h1, h2, h3⟩ := sim_inputs hs hn y hy
  exact ⟨m, by simpa [List.getD_eq_getElem?_getD, h1] using h2, h3⟩

/-! ### `uniq` -/

theorem mem_uniq (l : List Nat) (x : Nat) : x ∈ uniq l ↔ x ∈ l := by
  induction l with
  | nil => simp [uniq]
  | cons a l ih =>
    simp only [uniq, List.mem_cons, List.mem_filter, ih]
    by_cases h : x = a <;> simp [h]

theorem uniq_nodup (l : List Nat) : (uniq l).Nodup := by
  induction l with
  | nil => simp [uniq]
  | cons a l ih =>
    simp only [uniq, List.nodup_cons, List.mem_filter]
    exact ⟨by simp, List.Nodup.sublist List.filter_sublist ih⟩

theorem uniq_of_nodup (l : List Nat) (h : l.Nodup) : uniq l = l := by
  induction l with
  | nil => rfl
  | cons a l ih =>
    rw [List.nodup_cons] at h
    simp only [uniq, ih h.2]
    congr 1
    rw [List.filter_eq_self]
    intro x hx
    simp
    intro e; subst e; exact h.1 hx

theorem uniq_idem (l : List Nat) : uniq (uniq l) = uniq l := uniq_of_nodup _ (uniq_nodup l)


/-! ### dedup -/

/-- No store node matches an EARLIER store node (what `__find_node` returning `None` records). -/
def Distinct (pred : Node → Node → Bool) (out : List Node) : Prop :=
  ∀ (a b : Nat) (m n : Node), a < b → out[a]? = some m → out[b]? = some n → sameNode pred n m = false

def DInv (pred : Node → Node → Bool) (pre : List Node) (st : List Node × List Nat) : Prop :=
  WFNodes st.1 ∧ Sim pre st.1 st.2 ∧ Distinct pred st.1

theorem nodeOK_inputs_lt {pre : List Node} {n : Node} (h : NodeOK pre n) {k : Name} {r : Ref}
    (hl : n.inputs.lookup k = some r) : r.1 < pre.length :=
  nodeOK_lt h (k, r) (mem_of_lookup hl)

/-- A store node matched by `_cmp_nodes` and a payload-respecting predicate denotes the same term. -/
theorem den_of_match (pred : Node → Node → Bool) (hp : ∀ a b, pred a b = true → a.payload = b.payload)
    (out : List Node) (hwf : WFNodes out) (n' : Node) (m : Nat) (x : Node) (hx : out[m]? = some x)
    (hm : sameNode pred n' x = true) :
    den out m = some (termOf (denAll out) n') := by
  rw [den_at out m x hx]
  congr 1
  simp only [sameNode, Bool.and_eq_true, beq_iff_eq] at hm
  obtain ⟨⟨ho, hi⟩, hpr⟩ := hm
  have hok := wf_get out hwf m x hx
  have hmlt := (List.getElem?_eq_some_iff.1 hx).1
  refine termOf_congr _ _ x n' (hp _ _ hpr).symm ho.symm ?_
  intro k
  rw [sameInputs_lookup _ _ hi k]
  cases hl : x.inputs.lookup k with
  | none => rfl
  | some r =>
    have hlt := nodeOK_inputs_lt hok hl
    rw [List.length_take] at hlt
    have : (denAll (List.take m out))[r.1]? = (denAll out)[r.1]? :=
      denAll_take_get out m r.1 (by omega) (Nat.le_of_lt hmlt)
    simp only [this]

theorem dedup_step (pred : Node → Node → Bool) (hp : ∀ a b, pred a b = true → a.payload = b.payload)
    (pre : List Node) (a : Node) (hok : NodeOK pre a) (st : List Node × List Nat) (hinv : DInv pred pre st) :
    ∃ st', step (deduper pred) st a = .ok st' ∧ DInv pred (pre ++ [a]) st' := by
  obtain ⟨out, done⟩ := st
  obtain ⟨hwf, hsim, hdis⟩ := hinv
  simp only at hwf hsim hdis
  have hti : transInputs (deduper pred) out done a.inputs = .ok (remap done a.inputs) :=
    transInputs_nodeOutput (deduper pred) rfl out done a.inputs (sim_inputs hsim hok)
  have hnv : ∀ ins, nodeVisit (deduper pred) out a ins = dedupNode pred out a ins :=
    fun ins => nodeVisit_node_only (deduper pred) _ rfl rfl rfl rfl out a ins
  simp only [step, hti, hnv, dedupNode]
  have hterm := termOf_sim hsim hok
  have hnok := nodeOK_remap hsim hok
  cases hf : findNode pred out { a with inputs := remap done a.inputs } with
  | some m =>
    refine ⟨(out, done ++ [m]), rfl, hwf, ?_, hdis⟩
    unfold findNode at hf
    rw [List.findIdx?_eq_some_iff_getElem] at hf
    obtain ⟨hlt, hmatch, _⟩ := hf
    have hx : out[m]? = some out[m] := List.getElem?_eq_getElem hlt
    refine sim_snoc hsim a m out[m] hx ?_ ?_
    · simp only [sameNode, Bool.and_eq_true, beq_iff_eq] at hmatch
      exact hmatch.1.1.symm
    · rw [den_of_match pred hp out hwf _ m _ hx hmatch, hterm]
  | none =>
    refine ⟨(out ++ [{ a with inputs := remap done a.inputs }], done ++ [out.length]), rfl, ?_, ?_, ?_⟩
    · exact (wf_snoc _ _).2 ⟨hwf, hnok⟩
    · refine sim_snoc (sim_store_append hsim _) a out.length { a with inputs := remap done a.inputs } (by simp) rfl ?_
      rw [den_snoc_last, hterm]
    · show Distinct pred (out ++ [{ a with inputs := remap done a.inputs }])
      intro i j m n hij hm hn
      unfold findNode at hf
      rw [List.findIdx?_eq_none_iff] at hf
      have hjlt := (List.getElem?_eq_some_iff.1 hn).1
      simp at hjlt
      by_cases hj : j < out.length
      · rw [List.getElem?_append_left hj] at hn
        rw [List.getElem?_append_left (by omega)] at hm
        exact hdis i j m n hij hm hn
      · have hj' : j = out.length := by omega
        subst hj'
        simp at hn
        subst hn
        rw [List.getElem?_append_left hij] at hm
        exact hf m (List.mem_of_getElem? hm)

theorem dedup_run (pred : Node → Node → Bool) (hp : ∀ a b, pred a b = true → a.payload = b.payload)
    (ns : List Node) (h : WFNodes ns) :
    ∃ st, run (deduper pred) [] ns = .ok st ∧ DInv pred ns st := by
  refine foldE_inv (step (deduper pred)) ns (DInv pred) ([], []) ⟨trivial, sim_nil _, ?_⟩ ?_
  · show Distinct pred []
    intro a b m n _ hm; simp at hm
  · intro pre a post b hl hb
    exact dedup_step pred hp pre a (wf_split pre a post (hl ▸ h)).2 b hb


theorem sameNode_refl (pred : Node → Node → Bool) (hr : ∀ a, pred a a = true) (m : Node)
    (hnd : (m.inputs.map (·.1)).Nodup) : sameNode pred m m = true := by
  simp [sameNode, hr, sameInputs_refl _ hnd]

theorem find_self (pred : Node → Node → Bool) (hr : ∀ a, pred a a = true) (out : List Node) (hwf : WFNodes out)
    (hdis : Distinct pred out) (t : Nat) (m : Node) (hm : out[t]? = some m) : findNode pred out m = some t := by
  unfold findNode
  rw [List.findIdx?_eq_some_iff_getElem]
  obtain ⟨hlt, hget⟩ := List.getElem?_eq_some_iff.1 hm
  refine ⟨hlt, ?_, ?_⟩
  · rw [hget]; exact sameNode_refl pred hr m (wf_get out hwf t m hm).1
  · intro j hj
    have := hdis j t out[j] m hj (List.getElem?_eq_getElem (by omega)) hm
    simp [this]

theorem sinksOf_sim {pre out : List Node} {done : List Nat} (hs : Sim pre out done) (sinks : List Nat)
    (h : ∀ s ∈ sinks, s < pre.length) : sinksOf done sinks = .ok (sinks.map (done.getD · 0)) := by
  unfold sinksOf
  apply mapE_total
  intro s hs'
  have : s < done.length := by rw [hs.1]; exact h s hs'
  simp [List.getD_eq_getElem?_getD, this]

theorem sim_sink {pre out : List Node} {done : List Nat} (hs : Sim pre out done) (s : Nat) (h : s < pre.length) :
    ∃ m, out[done.getD s 0]? = some m ∧ den out (done.getD s 0) = den pre s := by
  obtain ⟨t, m, h1, h2, _, h4⟩ := hs.2 s pre[s] (List.getElem?_eq_getElem h)
  simp only [List.getD_eq_getElem?_getD, h1, Option.getD_some]
  exact ⟨m, h2, h4⟩

theorem dedupFin_ok (pred : Node → Node → Bool) (hr : ∀ a, pred a a = true) (out : List Node) (hwf : WFNodes out)
    (hdis : Distinct pred out) (ts : List Nat) (h : ∀ t ∈ ts, t < out.length) :
    dedupFin pred out ts = .ok { nodes := out, sinks := uniq ts } := by
  unfold dedupFin
  have : mapE (refind pred out) ts = .ok (ts.map id) := by
    apply mapE_total
    intro t ht
    have hlt := h t ht
    have hm : out[t]? = some out[t] := List.getElem?_eq_getElem hlt
    simp only [refind, hm, find_self pred hr out hwf hdis t _ hm, id]
  rw [this]; simp

/-- `deduplicate_nodes` succeeds; its result with the invariant. -/
theorem dedup_result (pred : Node → Node → Bool) (hr : ∀ a, pred a a = true)
    (hp : ∀ a b, pred a b = true → a.payload = b.payload) (g : Graph) (h : g.WF) :
    ∃ out done, DInv pred g.nodes (out, done) ∧
      dedupGraph pred g = .ok { nodes := out, sinks := uniq (g.sinks.map (done.getD · 0)) } := by
  obtain ⟨⟨out, done⟩, hrun, hinv⟩ := dedup_run pred hp g.nodes h.nodes
  refine ⟨out, done, hinv, ?_⟩
  obtain ⟨hwf, hsim, hdis⟩ := hinv
  simp only [dedupGraph, transform, hrun, sinksOf_sim hsim g.sinks h.sinks]
  apply dedupFin_ok pred hr out hwf hdis
  intro t ht
  obtain ⟨s, hs, rfl⟩ := List.mem_map.1 ht
  obtain ⟨m, hm, _⟩ := sim_sink hsim s (h.sinks s hs)
  exact (List.getElem?_eq_some_iff.1 hm).1

/-- On a store without duplicates `_DedupTransformer` keeps every node. -/
theorem dedup_run_distinct (pred : Node → Node → Bool) (ns : List Node) (h : WFNodes ns) (hd : Distinct pred ns) :
    run (deduper pred) [] ns = .ok (ns, List.range ns.length) := by
  have := foldE_inv (step (deduper pred)) ns (fun pre st => st = (pre, List.range pre.length)) ([], []) (by simp)
    (by
      intro pre a post b hl hb
      subst hb
      have hok := (wf_split pre a post (hl ▸ h)).2
      have hti : transInputs (deduper pred) pre (List.range pre.length) a.inputs = .ok a.inputs := by
        rw [transInputs_nodeOutput (deduper pred) rfl]
        · rw [remap_range _ _ (nodeOK_lt hok)]
        · intro x hx
          obtain ⟨m, hm, ho⟩ := hok.2 x hx
          have hlt := (List.getElem?_eq_some_iff.1 hm).1
          exact ⟨x.2.1, m, by simp [hlt], hm, ho⟩
      have hfind : findNode pred pre a = none := by
        unfold findNode
        rw [List.findIdx?_eq_none_iff]
        intro x hx
        obtain ⟨i, hi, hxi⟩ := List.getElem_of_mem hx
        refine hd i pre.length x a hi ?_ ?_
        · rw [hl, List.getElem?_append_left hi, List.getElem?_eq_getElem hi, hxi]
        · rw [hl]; simp
      refine ⟨(pre ++ [a], List.range (pre ++ [a]).length), ?_, rfl⟩
      simp [step, hti, nodeVisit_node_only (deduper pred) _ rfl rfl rfl rfl, dedupNode, hfind, List.range_succ])
  obtain ⟨b, hb, hi⟩ := this
  rw [run, hb, hi]

theorem dedup_fixpoint (pred : Node → Node → Bool) (hr : ∀ a, pred a a = true) (out : List Node) (hwf : WFNodes out)
    (hdis : Distinct pred out) (ts : List Nat) (h : ∀ t ∈ ts, t < out.length) :
    dedupGraph pred { nodes := out, sinks := uniq ts } = .ok { nodes := out, sinks := uniq ts } := by
  have hlt : ∀ t ∈ uniq ts, t < out.length := fun t ht => h t ((mem_uniq ts t).1 ht)
  simp only [dedupGraph, transform, dedup_run_distinct pred out hwf hdis, sinksOf_range _ _ hlt]
  rw [dedupFin_ok pred hr out hwf hdis _ hlt, uniq_idem]


/-- `__find_node` iterates a Python set: with `same_payload` at most one stored node matches, so the
iteration order is immaterial (and `findIdx?` models it). -/
theorem dedup_match_unique (out : List Node) (hwf : WFNodes out) (hd : Distinct samePayload out) (n : Node)
    (a b : Nat) (x y : Node) (hx : out[a]? = some x) (hy : out[b]? = some y)
    (hax : sameNode samePayload n x = true) (hby : sameNode samePayload n y = true) : a = b := by
  have key : ∀ (a b : Nat) (x y : Node), a < b → out[a]? = some x → out[b]? = some y →
      sameNode samePayload n x = true → sameNode samePayload n y = true → False := by
    intro a b x y hab hx hy hax hby
    have hdis := hd a b x y hab hx hy
    simp only [sameNode, samePayload, Bool.and_eq_true, beq_iff_eq] at hax hby
    obtain ⟨⟨ho1, hi1⟩, hp1⟩ := hax
    obtain ⟨⟨ho2, hi2⟩, hp2⟩ := hby
    have hnd := (wf_get out hwf b y hy).1
    have : sameNode samePayload y x = true := by
      simp only [sameNode, samePayload, Bool.and_eq_true, beq_iff_eq]
      refine ⟨⟨by rw [← ho2, ho1], ?_⟩, by rw [← hp2, hp1]⟩
      apply sameInputs_of_lookup _ _ hnd
      intro k
      rw [← sameInputs_lookup _ _ hi2 k, sameInputs_lookup _ _ hi1 k]
    rw [this] at hdis; cases hdis
  rcases Nat.lt_trichotomy a b with h | h | h
  · exact (key a b x y h hx hy hax hby).elim
  · exact h
  · exact (key b a y x h hy hx hby hax).elim

end EkwVerif.Graph.Aux
