/-
Assembly of the system invariant: all tiers hold initially and are preserved by every step,
hence hold in every reachable state of the controller/executor system.
-/
import EkwVerif.Lemmas.CtrlInv1Step
import EkwVerif.Lemmas.CtrlInv2A
import EkwVerif.Lemmas.CtrlInv2B
import EkwVerif.Lemmas.CtrlInv3Step
import EkwVerif.Lemmas.CtrlInv4A2
import EkwVerif.Lemmas.CtrlInv4B2
import EkwVerif.Lemmas.CtrlInv4C2
import EkwVerif.Lemmas.CtrlInv4C3
import EkwVerif.Lemmas.CtrlInv4XStep
import EkwVerif.Lemmas.CtrlInvTStep
import EkwVerif.Lemmas.CtrlInvPStep

namespace EkwVerif.Ctrl

structure InvAll (f : Sem) (j : Job) (cl : Cluster) (s : Sys) : Prop where
  h1 : Inv1 cl s
  h2 : Inv2 j cl s
  h2x : Inv2X j s
  h3 : Inv3 f j cl s
  h4 : Inv4 j cl s
  h4x : Inv4X j s
  hT : InvT j s
  hP : InvP j s

theorem invAll_init (f : Sem) (j : Job) (cl : Cluster) (wf : WF j cl) : InvAll f j cl (Sys.init j cl) :=
  ⟨inv1_init j cl wf.workersNodup, i2a_init j cl wf, i2b_inv2x_init j cl, i3_init f j cl wf, i4a_init j cl wf,
    i4x_init j cl wf, iT_init j cl, iP_init j cl wf⟩

theorem inv2_step (f : Sem) (j : Job) (cl : Cluster) (s s' : Sys) (st : Step) (wf : WF j cl)
    (h : InvAll f j cl s) (hs : step f j cl s st = some s') : Inv2 j cl s' := by
  obtain ⟨h1, h2, h2x, h3, h4, h4x, hT, hP⟩ := h
  cases st with
  | enter => exact i2b_step_enter f j cl s s' wf h1 h2 h3 h4 hs
  | assign a => exact i2a_step_assign f j cl s s' a wf h1 h2 h3 h4 hs
  | endAssign => exact i2b_step_endAssign f j cl s s' wf h1 h2 h3 h4 hs
  | plan1 => exact i2a_step_plan1 f j cl s s' wf h1 h2 h3 h4 hT hs
  | endPlan => exact i2b_step_endPlan f j cl s s' wf h1 h2 h3 h4 hs
  | flushF1 => exact i2b_step_flushF1 f j cl s s' wf h1 h2 h3 h4 hs
  | endFlushF => exact i2b_step_endFlushF f j cl s s' wf h1 h2 h3 h4 hs
  | flushP1 => exact i2b_step_flushP1 f j cl s s' wf h1 h2 h3 h4 hs
  | endFlush => exact i2b_step_endFlush f j cl s s' wf h1 h2 h3 h4 hs
  | recv evs => exact i2b_step_recv f j cl s s' wf evs h1 h2 h3 h4 hs
  | notify1 => exact i2b_step_notify1 f j cl s s' wf h1 h2 h3 h4 h2x hP hs
  | endNotify => exact i2b_step_endNotify f j cl s s' wf h1 h2 h3 h4 hs
  | env es => exact i2a_step_env f j cl s s' es wf h1 h2 h3 h4 h2x hs

theorem inv4_step (f : Sem) (j : Job) (cl : Cluster) (s s' : Sys) (st : Step) (wf : WF j cl)
    (h : InvAll f j cl s) (hs : step f j cl s st = some s') : Inv4 j cl s' := by
  obtain ⟨h1, h2, h2x, h3, h4, h4x, hT, hP⟩ := h
  cases st with
  | enter => exact i4a_step_enter f j cl s s' wf h1 h2 h3 h4 hs
  | assign a => exact i4a_step_assign f j cl s s' a wf h1 h2 h3 h4 hT hs
  | endAssign => exact i4a_step_endAssign f j cl s s' wf h1 h2 h3 h4 hs
  | plan1 => exact i4b_step_plan1 f j cl s s' wf h1 h2 h3 h4 hT hs
  | endPlan => exact i4a_step_endPlan f j cl s s' wf h1 h2 h3 h4 hs
  | flushF1 => exact i4c_step_flushF1 f j cl s s' wf h1 h2 h3 h4 hs
  | endFlushF => exact i4a_step_endFlushF f j cl s s' wf h1 h2 h3 h4 hs
  | flushP1 => exact i4c_step_flushP1 f j cl s s' wf h1 h2 h3 h4 hs
  | endFlush => exact i4a_step_endFlush f j cl s s' wf h1 h2 h3 h4 hs
  | recv evs => exact i4a_step_recv f j cl s s' evs wf h1 h2 h3 h4 hs
  | notify1 => exact i4c_step_notify1 f j cl s s' wf h1 h2 h3 h4 h4x hs
  | endNotify => exact i4a_step_endNotify f j cl s s' wf h1 h2 h3 h4 hs
  | env es => exact i4b_step_env f j cl s s' es wf h1 h2 h3 h4 h2x h4x hs

theorem inv4x_step (f : Sem) (j : Job) (cl : Cluster) (s s' : Sys) (st : Step) (wf : WF j cl)
    (h : InvAll f j cl s) (hs : step f j cl s st = some s') : Inv4X j s' := by
  obtain ⟨h1, h2, h2x, h3, h4, h4x, hT, hP⟩ := h
  cases st with
  | enter => exact i4x_step_enter f j cl s s' wf h1 h2 h3 h4 hT h2x h4x hs
  | assign a => exact i4x_step_assign f j cl s s' a wf h1 h2 h3 h4 hT h2x h4x hs
  | endAssign => exact i4x_step_endAssign f j cl s s' wf h1 h2 h3 h4 hT h2x h4x hs
  | plan1 => exact i4x_step_plan1 f j cl s s' wf h1 h2 h3 h4 hT h2x h4x hs
  | endPlan => exact i4x_step_endPlan f j cl s s' wf h1 h2 h3 h4 hT h2x h4x hs
  | flushF1 => exact i4c_inv4x_step_flushF1 f j cl s s' h4x hs
  | endFlushF => exact i4x_step_endFlushF f j cl s s' wf h1 h2 h3 h4 hT h2x h4x hs
  | flushP1 => exact i4c_inv4x_step_flushP1 f j cl s s' h2 h4x hs
  | endFlush => exact i4x_step_endFlush f j cl s s' wf h1 h2 h3 h4 hT h2x h4x hs
  | recv evs => exact i4x_step_recv f j cl s s' evs wf h1 h2 h3 h4 hT h2x h4x hs
  | notify1 => exact i4c_inv4x_step_notify1 f j cl s s' h2 h4 h2x h4x hs
  | endNotify => exact i4x_step_endNotify f j cl s s' wf h1 h2 h3 h4 hT h2x h4x hs
  | env es => exact i4x_step_env f j cl s s' es wf h1 h2 h3 h4 hT h2x h4x hs

theorem invAll_step (f : Sem) (j : Job) (cl : Cluster) (s s' : Sys) (st : Step) (wf : WF j cl)
    (h : InvAll f j cl s) (hs : step f j cl s st = some s') : InvAll f j cl s' :=
  ⟨inv1_step f j cl s s' st h.h1 hs, inv2_step f j cl s s' st wf h hs,
    i2b_inv2x_step f j cl s s' st h.h1 h.h4 h.h2x hs, i3_step f j cl s s' st wf h.h1 h.h2 h.h3 h.h4 hs,
    inv4_step f j cl s s' st wf h hs, inv4x_step f j cl s s' st wf h hs,
    iT_step f j cl s s' st wf h.h1 h.h2 h.h4 h.hT hs, iP_step f j cl s s' st wf h.h1 h.h2 h.h2x h.hP hs⟩

/-- **The system invariant holds in every reachable state.** -/
theorem invAll_reachable (f : Sem) (j : Job) (cl : Cluster) (wf : WF j cl) (s : Sys)
    (hr : Reachable f j cl s) : InvAll f j cl s := by
  induction hr with
  | init => exact invAll_init f j cl wf
  | step s s' st _ hs ih => exact invAll_step f j cl s s' st wf ih hs

end EkwVerif.Ctrl
