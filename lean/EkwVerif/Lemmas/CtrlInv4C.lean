/-
Tier 4 (`Inv4`) preservation, slice i4c: general helpers, the frame lemma and the step `.flushF1`.
(`.flushP1` is in CtrlInv4C2.lean, `.notify1` in CtrlInv4C3.lean.)
-/
import EkwVerif.Lemmas.CtrlInvDefs
import EkwVerif.Lemmas.CtrlInv1Step
import EkwVerif.Lemmas.CtrlInv2X
import EkwVerif.Lemmas.CtrlInv4X

namespace EkwVerif.Ctrl

/-! ### `needed` -/

/-- `needed` is anti-monotone: it only depends on `doneC` (growing) and `outputs` (growing). -/
theorem i4c_needed_mono (j : Job) (c c' : Ctl) (ds : Ds)
    (hd : ∀ t, c.doneC t = true → c'.doneC t = true)
    (ho : ∀ d, (c.outputs d).isSome = true → (c'.outputs d).isSome = true) :
    needed j c' ds → needed j c ds := by
  intro hn
  rcases hn with ⟨t, ht, hdt⟩ | ⟨he, hout⟩
  · refine Or.inl ⟨t, ht, ?_⟩
    cases hx : c.doneC t with
    | false => rfl
    | true => rw [hd t hx] at hdt; cases hdt
  · refine Or.inr ⟨he, ?_⟩
    cases hx : c.outputs ds with
    | none => rfl
    | some v =>
      have := ho ds (by simp [hx])
      rw [hout] at this; cases this

theorem i4c_needed_congr (j : Job) (c c' : Ctl) (ds : Ds) (hd : c'.doneC = c.doneC) (ho : c'.outputs = c.outputs) :
    needed j c' ds ↔ needed j c ds := by
  simp only [needed, hd, ho]

/-- a consumer in the sense of `needed` -/
theorem i4c_mem_consumers (j : Job) (ds : Ds) (t : Task) (ht : t < j.tasks.length) (hin : ds ∈ j.inputs t) :
    t ∈ j.consumers ds := by
  simp only [Job.consumers, List.mem_filter, Job.taskIds, List.mem_range, List.contains_iff_mem]
  exact ⟨ht, hin⟩

/-! ### the cluster's host list -/

theorem i4c_nodup_eraseDups (l : List Nat) : l.eraseDups.Nodup := by
  have : ∀ n (l : List Nat), l.length ≤ n → l.eraseDups.Nodup := by
    intro n
    induction n with
    | zero =>
      intro l hl
      have : l = [] := List.eq_nil_of_length_eq_zero (by omega)
      subst this; simp
    | succ n ih =>
      intro l hl
      cases l with
      | nil => simp
      | cons a as =>
        rw [List.eraseDups_cons]
        refine List.nodup_cons.mpr ⟨?_, ih _ ?_⟩
        · intro hm
          rw [List.mem_eraseDups] at hm
          simp at hm
        · have := List.length_filter_le (fun b => !b == a) as
          simp only [List.length_cons] at hl
          omega
  exact this l.length l (Nat.le_refl _)

theorem i4c_hosts_nodup (cl : Cluster) : cl.hosts.Nodup := i4c_nodup_eraseDups _

theorem i4c_mem_hosts (cl : Cluster) (w : Worker) (hw : w ∈ cl.ids) : w.host ∈ cl.hosts := by
  simp only [Cluster.hosts, List.mem_eraseDups, List.mem_map]
  simp only [Cluster.ids, List.mem_map] at hw
  obtain ⟨p, hp, rfl⟩ := hw
  exact ⟨p, hp, rfl⟩

/-! ### environment helpers -/

theorem i4c_inbound_iff (e : Env) (ds : Ds) (h : Host) :
    inboundTransmit e ds h = true ↔ ∃ src, IO.transmit ds src h ∈ e.outstanding := by
  simp only [inboundTransmit, List.any_eq_true]
  constructor
  · rintro ⟨o, ho, hc⟩
    cases o with
    | transmit d s t =>
      simp only [Bool.and_eq_true, beq_iff_eq] at hc
      obtain ⟨rfl, rfl⟩ := hc
      exact ⟨s, ho⟩
    | fetch d s => simp at hc
  · rintro ⟨src, hm⟩
    exact ⟨_, hm, by simp⟩

theorem i4c_outbound_iff (e : Env) (ds : Ds) (h : Host) :
    outboundIO e ds h = true ↔ (∃ tgt, IO.transmit ds h tgt ∈ e.outstanding) ∨ IO.fetch ds h ∈ e.outstanding := by
  simp only [outboundIO, List.any_eq_true]
  constructor
  · rintro ⟨o, ho, hc⟩
    cases o with
    | transmit d s t =>
      simp only [Bool.and_eq_true, beq_iff_eq] at hc
      obtain ⟨rfl, rfl⟩ := hc
      exact Or.inl ⟨t, ho⟩
    | fetch d s =>
      simp only [Bool.and_eq_true, beq_iff_eq] at hc
      obtain ⟨rfl, rfl⟩ := hc
      exact Or.inr ho
  · rintro (⟨tgt, hm⟩ | hm)
    · exact ⟨_, hm, by simp⟩
    · exact ⟨_, hm, by simp⟩

/-- the monitor messages and crash messages that Tier 4 is responsible for -/
def i4c_msgs : List String :=
  ["C04 transmit-from-missing", "C04 fetch-from-missing", "C04 purge-while-outstanding-from",
   "C04 input-purged-on-target", "C02 input-neither-present-nor-in-transfer",
   "C04 io-source-gone transmit", "C04 io-source-gone fetch"]

/-- `Inv4X.status_produced` as a stand-alone proposition (premise `produced` instead of `announced`):
`Inv4.status_present` as stated is not inductive for `.notify1`, this strengthening is. -/
def i4c_StatusP (j : Job) (s : Sys) : Prop :=
  ∀ h ds, s.ctl.hostDs h ds ≠ .missing → needed j s.ctl ds → s.env.produced ds = true →
    (s.env.present h ds).isSome = true ∨ inboundTransmit s.env ds h = true

/-! ### frame lemma: steps that leave the status maps and the stores alone -/

theorem i4c_inv4_frame {j : Job} {cl : Cluster} {s s' : Sys} (h4 : Inv4 j cl s)
    (hH : s'.ctl.hostDs = s.ctl.hostDs) (hD : s'.ctl.dsHost = s.ctl.dsHost) (hW : s'.ctl.workerDs = s.ctl.workerDs)
    (hA : s'.ctl.announced = s.ctl.announced)
    (hN : ∀ ds, needed j s'.ctl ds → needed j s.ctl ds)
    (hDone : ∀ t, s.ctl.doneC t = true → s'.ctl.doneC t = true)
    (hOng : ∀ p, p ∈ s'.ctl.ongoing → p ∈ s.ctl.ongoing) (hTodo : s'.todo = s.todo)
    (hEv : ∀ e, e ∈ s'.allEv → e ∈ s.allEv)
    (hP : s'.env.present = s.env.present) (hQ : s'.env.queued = s.env.queued) (hR : s'.env.ran = s.env.ran)
    (hPr : s'.env.produced = s.env.produced) (hPu : s'.env.purged = s.env.purged)
    (hO : ∀ ds a b, IO.transmit ds a b ∈ s'.env.outstanding ↔ IO.transmit ds a b ∈ s.env.outstanding)
    (hV : ∀ m, m ∈ i4c_msgs → m ∈ s'.env.viol → m ∈ s.env.viol)
    (hE1 : s'.err ≠ some "ValueError: dataset not found in any host")
    (hE2 : s'.err ≠ some "KeyError: host2ds pop") : Inv4 j cl s' := by
  have hfl : ∀ w t, s'.inFlight w t → s.inFlight w t := by
    intro w t hf
    simp only [Sys.inFlight, Sys.todoPairs, hTodo] at hf ⊢
    rcases hf with hf | hf
    · exact Or.inl (hOng _ hf)
    · exact Or.inr hf
  have hin : ∀ ds h, inboundTransmit s'.env ds h = inboundTransmit s.env ds h := by
    intro ds h
    rw [Bool.eq_iff_iff, i4c_inbound_iff, i4c_inbound_iff]
    constructor
    · rintro ⟨src, hm⟩; exact ⟨src, (hO _ _ _).mp hm⟩
    · rintro ⟨src, hm⟩; exact ⟨src, (hO _ _ _).mpr hm⟩
  refine ⟨?_, ?_, ?_, ?_, ?_, ?_, ?_, ?_, ?_, ?_, ?_, ?_, ?_, ?_, ?_, ?_, ?_, ?_, ?_, ?_, ?_, hE1, hE2⟩
  · intro h ds; rw [hH, hD]; exact h4.keys h ds
  · intro h ds; rw [hD]; exact h4.status_hosts h ds
  · intro w ds; rw [hW, hH]; exact h4.workerDs_ok w ds
  · intro h ds ha hn; rw [hD] at ha; rw [hP]; exact h4.avail_present h ds ha (hN ds hn)
  · intro h ds hh hn ha
    rw [hH] at hh; rw [hA] at ha; rw [hP, hin]
    exact h4.status_present h ds hh (hN ds hn) ha
  · intro ds src tgt hm
    rw [hP, hH, hQ]
    exact h4.transmit_out ds src tgt ((hO _ _ _).mp hm)
  · intro w t hf hr k hk hn
    rw [hR] at hr; rw [hP]
    exact h4.flight_present w t (hfl w t hf) hr k hk (hN _ hn)
  · intro h ds hp
    rw [hP] at hp; rw [hH]
    simp only [Sys.todoPairs, hTodo]
    exact h4.present_status h ds hp
  · intro w t hm hr k hk
    rw [hR] at hr; rw [hH]
    exact h4.ongoing_status w t (hOng _ hm) hr k hk
  · intro w ds hm
    have := h4.evW_present w ds (hEv _ hm)
    refine ⟨this.1, fun hn => ?_⟩
    rw [hP]; exact this.2 (hN ds hn)
  · intro h ds hm
    have := h4.evT_present h ds (hEv _ hm)
    refine ⟨this.1, fun hn => ?_⟩
    rw [hP]; exact this.2 (hN ds hn)
  · intro ds ha hex
    rw [hA] at ha
    obtain ⟨t, ht, hdt⟩ := hex
    have hdt' : s.ctl.doneC t = false := by
      cases hx : s.ctl.doneC t with
      | false => rfl
      | true => rw [hDone t hx] at hdt; cases hdt
    obtain ⟨h, hh, hav⟩ := h4.avail_somewhere ds ha ⟨t, ht, hdt'⟩
    exact ⟨h, hh, by rw [hD]; exact hav⟩
  · intro h ds hm hn
    rw [hPu] at hm
    exact h4.purged_unneeded h ds hm (hN ds hn)
  · intro h ds hp
    rw [hP] at hp; rw [hPr]
    exact h4.present_produced h ds hp
  · exact fun hm => h4.no_transmit_from_missing (hV _ (by simp [i4c_msgs]) hm)
  · exact fun hm => h4.no_fetch_from_missing (hV _ (by simp [i4c_msgs]) hm)
  · exact fun hm => h4.no_purge_while_outstanding (hV _ (by simp [i4c_msgs]) hm)
  · exact fun hm => h4.no_input_purged (hV _ (by simp [i4c_msgs]) hm)
  · exact fun hm => h4.no_input_absent (hV _ (by simp [i4c_msgs]) hm)
  · exact fun hm => h4.no_io_gone_t (hV _ (by simp [i4c_msgs]) hm)
  · exact fun hm => h4.no_io_gone_f (hV _ (by simp [i4c_msgs]) hm)

/-- the same frame for the proposed conjunct `i4c_StatusP` -/
theorem i4c_statusP_frame {j : Job} {s s' : Sys} (hsp : i4c_StatusP j s)
    (hH : s'.ctl.hostDs = s.ctl.hostDs)
    (hN : ∀ ds, needed j s'.ctl ds → needed j s.ctl ds)
    (hP : s'.env.present = s.env.present) (hPr : s'.env.produced = s.env.produced)
    (hO : ∀ ds a b, IO.transmit ds a b ∈ s.env.outstanding → IO.transmit ds a b ∈ s'.env.outstanding) :
    i4c_StatusP j s' := by
  intro h ds hh hn hp
  rw [hH] at hh; rw [hPr] at hp; rw [hP]
  rcases hsp h ds hh (hN ds hn) hp with hx | hx
  · exact Or.inl hx
  · refine Or.inr ?_
    rw [i4c_inbound_iff] at hx ⊢
    obtain ⟨src, hm⟩ := hx
    exact ⟨src, hO _ _ _ hm⟩

/-! ### `.flushF1` -/

theorem i4c_step_flushF1 (f : Sem) (j : Job) (cl : Cluster) (s s' : Sys) (wf : WF j cl)
    (h1 : Inv1 cl s) (h2 : Inv2 j cl s) (h3 : Inv3 f j cl s) (h4 : Inv4 j cl s)
    (hs : step f j cl s .flushF1 = some s') : Inv4 j cl s' := by
  simp only [step] at hs
  split at hs; · cases hs
  split at hs
  · cases hs
  · rename_i ds hst rest hq
    cases hs
    have hmem : (ds, hst) ∈ s.ctl.fetchQ := by rw [hq]; simp
    obtain ⟨hext, hout, _, hav⟩ := h3.fetchQ_ok ds hst hmem
    have hpres : (s.env.present hst ds).isSome = true :=
      h4.avail_present hst ds hav (Or.inr ⟨hext, hout⟩)
    refine i4c_inv4_frame h4 (by simp) (by simp) (by simp) (by simp) ?_ (by simp) (by simp) rfl
      (fun e he => by simpa [Sys.allEv, applyCmd] using he)
      (by simp [applyCmd]) (by simp [applyCmd]) (by simp [applyCmd]) (by simp [applyCmd]) (by simp [applyCmd])
      (by intro d a b; simp [applyCmd]) ?_ h4.no_err_notfound h4.no_err_pop
    · intro d hn
      exact (i4c_needed_congr j _ _ d (by simp) (by simp)).mp hn
    · intro m _ hm
      rw [mem_viol_fetch] at hm
      rcases hm with hm | ⟨hc, _⟩
      · exact hm
      · rw [hpres] at hc; cases hc

theorem i4c_statusP_flushF1 (f : Sem) (j : Job) (cl : Cluster) (s s' : Sys)
    (hsp : i4c_StatusP j s) (hs : step f j cl s .flushF1 = some s') : i4c_StatusP j s' := by
  simp only [step] at hs
  split at hs; · cases hs
  split at hs
  · cases hs
  · rename_i ds hst rest hq
    cases hs
    refine i4c_statusP_frame hsp (by simp) ?_ (by simp [applyCmd]) (by simp [applyCmd])
      (by intro d a b hm; simp [applyCmd, hm])
    intro d hn
    exact (i4c_needed_congr j _ _ d (by simp) (by simp)).mp hn

theorem i4c_inv4x_step_flushF1 (f : Sem) (j : Job) (cl : Cluster) (s s' : Sys)
    (h4x : Inv4X j s) (hs : step f j cl s .flushF1 = some s') : Inv4X j s' := by
  have hsp := i4c_statusP_flushF1 f j cl s s' h4x.status_produced hs
  simp only [step] at hs
  split at hs; · cases hs
  split at hs
  · cases hs
  · rename_i ds hst rest hq
    cases hs
    refine ⟨?_, hsp, ?_⟩
    · intro d tgt
      have := h4x.transmit_count d tgt
      simpa [applyCmd, List.filter_append, isTransmitTo] using this
    · intro h d hh hr
      obtain ⟨w, hw, hf⟩ := h4x.status_unran h d (by simpa using hh) (by simpa [applyCmd] using hr)
      refine ⟨w, hw, ?_⟩
      simpa [Sys.inFlight, Sys.todoPairs] using hf

end EkwVerif.Ctrl

