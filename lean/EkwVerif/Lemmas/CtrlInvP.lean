/-
Tier P: the controller's record of processed output notices (`State.published_outputs`, `Ctl.published`), from which
the completion of a task is detected: a task is complete exactly when the notices of ALL its outputs have been
processed, whatever the order in which they arrived. Definitions only (preservation: `CtrlInvPStep.lean`);
validated on random walks (Drive/CtrlInvCheck.lean, conjuncts `P.*`) before being proved.
-/
import EkwVerif.Lemmas.CtrlInvDefs

namespace EkwVerif.Ctrl

structure InvP (j : Job) (s : Sys) : Prop where
  /-- a worker's notice is processed at most once: while it is on its way its output is not recorded yet -/
  pub_once : ∀ w ds, Event.pubW w ds ∈ s.allEv → s.ctl.published ds = false
  /-- only declared outputs of tasks that ran are recorded; hence `len(published) == len(output_schema)` in
      `all_outputs_published` is equality of the two sets (`Ctl.allPublished`) -/
  pub_ran : ∀ ds, s.ctl.published ds = true → s.env.ran ds.task = true ∧ ds.out < j.nOut ds.task
  /-- a recorded output has been announced -/
  pub_announced : ∀ ds, s.ctl.published ds = true → s.ctl.announced ds = true
  /-- completion has been notified exactly when the notices of all outputs have been processed -/
  done_iff : ∀ t, t < j.tasks.length → (s.ctl.doneC t = true ↔ ∀ k, k < j.nOut t → s.ctl.published ⟨t, k⟩ = true)

theorem allPublished_iff (j : Job) (c : Ctl) (t : Task) :
    c.allPublished j t = true ↔ ∀ k, k < j.nOut t → c.published ⟨t, k⟩ = true := by
  simp [Ctl.allPublished, Job.outputsOf]

end EkwVerif.Ctrl
