/-
Liveness, third part: what one eviction attempt launches; the allocation that waits is granted after the batch has
completed WHATEVER the outcomes of the page-outs; a `get` of a dataset on disk is granted after eviction and page-in.
-/
import EkwVerif.Lemmas.ShmLive2

namespace EkwVerif.Shm
open Aux
namespace Aux

theorem pageOutAll_files (ws : List String) : ∀ (s : St), (pageOutAll s ws).files = s.files := by
  induction ws with
  | nil => intro s; rfl
  | cons k ws ih => intro s; simp only [pageOutAll, List.foldl_cons]; exact (ih _).trans (pageOut_frame s k).2.2.2.2.2.1

/-- one job per winner, in order -/
theorem pageOutAll_keys (ws : List String) : ∀ (s : St), (∀ w ∈ ws, (find? s.ds w).isSome = true) →
    ∃ J, (pageOutAll s ws).jobs = s.jobs ++ J ∧ J.map (·.key) = ws ∧ (∀ j ∈ J, j.kind = .out ∧ j.io = none) ∧
      (J.map (·.size)).sum = (ws.map (dsize s.ds)).sum := by
  induction ws with
  | nil => intro s _; exact ⟨[], by simp [pageOutAll], rfl, by simp, by simp⟩
  | cons k ws ih =>
    intro s hf
    obtain ⟨d, hd⟩ := Option.isSome_iff_exists.mp (hf k (by simp))
    obtain ⟨ej, _, _⟩ := pageOut_jobs s k d hd
    have hf' : ∀ w ∈ ws, (find? (pageOut s k).ds w).isSome = true := by
      intro w hw; rw [pageOut_isSome]; exact hf w (List.mem_cons_of_mem _ hw)
    obtain ⟨J, hJ, hkeys, hall, hsum⟩ := ih (pageOut s k) hf'
    refine ⟨{ id := s.nextJob, kind := .out, key := k, gen := d.gen, size := d.size, io := none } :: J, ?_, ?_, ?_, ?_⟩
    · simp only [pageOutAll, List.foldl_cons] at hJ ⊢
      rw [hJ, ej]; simp
    · simp [hkeys]
    · intro j hj
      rcases List.mem_cons.mp hj with hj | hj
      · subst hj; exact ⟨rfl, rfl⟩
      · exact hall j hj
    · simp only [List.map_cons, List.sum_cons]
      rw [hsum]
      have e1 : dsize s.ds k = d.size := by simp [dsize, hd]
      have e2 : ws.map (dsize (pageOut s k).ds) = ws.map (dsize s.ds) := by
        apply List.map_congr_left; intro w _; exact pageOut_dsize s k w
      rw [e1, e2]

/-- What `page_out_at_least amount` does in a quiescent state in which the evictable datasets are enough: it launches
fresh page-out jobs, one per winner, whose sizes add up to at least `amount`, each winner a dataset that
`is_pageoutable`; free space, capacity, segments, files and every other dataset are untouched. -/
theorem launch_spec (s : St) (hb : Base s) (hq : s.jobs = []) (amount t : Nat) (hpos : 0 < amount)
    (hroom : amount ≤ candTotal s.staleCreate s.staleRead t s.ds) :
    ∃ ws, (pageOutAtLeast s amount t).jobs.map (·.key) = ws ∧
    (∀ j ∈ (pageOutAtLeast s amount t).jobs, j.kind = .out ∧ j.io = none) ∧
    (∀ w ∈ ws, ∃ d, find? s.ds w = some d ∧ isPageoutable s.staleCreate s.staleRead d t = true) ∧
    amount ≤ ((pageOutAtLeast s amount t).jobs.map (·.size)).sum ∧
    (pageOutAtLeast s amount t).free = s.free ∧ (pageOutAtLeast s amount t).cap = s.cap ∧
    (pageOutAtLeast s amount t).segs = s.segs ∧ (pageOutAtLeast s amount t).files = s.files ∧
    (∀ x, x ∉ ws → find? (pageOutAtLeast s amount t).ds x = find? s.ds x) ∧
    (∀ x, (find? (pageOutAtLeast s amount t).ds x).isSome = (find? s.ds x).isSome) := by
  have hlock : s.lock = false := by
    have h0 : s.count = 0 := by rw [hb.countJobs, hq]; rfl
    cases hl : s.lock
    · rfl
    · have := hb.lockCount.mp hl; omega
  generalize hws : lottery (candidates s.staleCreate s.staleRead t s.ds) amount = ws at *
  have henough : amount ≤ (ws.map (dsize s.ds)).sum := by
    rw [← hws]; exact lottery_enough _ _ _ _ _ hb.nd hroom
  have hne : ws.isEmpty = false := by
    cases ws with
    | nil => simp at henough; omega
    | cons _ _ => rfl
  have hs1 : pageOutAtLeast s amount t = pageOutAll { s with lock := true, count := ws.length } ws := by
    simp [pageOutAtLeast, hlock, hws, hne]
  have hwin : ∀ w ∈ ws, ∃ d, find? s.ds w = some d ∧ isPageoutable s.staleCreate s.staleRead d t = true := by
    intro w hw'; rw [← hws] at hw'; exact winners_pageoutable _ _ _ _ _ hb.nd w hw'
  have hfound : ∀ w ∈ ws, (find? ({ s with lock := true, count := ws.length } : St).ds w).isSome = true := by
    intro w hw'; obtain ⟨d, hd, _⟩ := hwin w hw'; simp [hd]
  obtain ⟨J, hJ, hkeys, hall, hsum⟩ := pageOutAll_keys ws { s with lock := true, count := ws.length } hfound
  have hJ' : (pageOutAtLeast s amount t).jobs = J := by rw [hs1, hJ]; simp [hq]
  obtain ⟨f1, c1, k1⟩ := pageOutAtLeast_free s amount t
  refine ⟨ws, by rw [hJ', hkeys], by rw [hJ']; exact hall, hwin, ?_, f1, c1, ?_, ?_, ?_, k1⟩
  · rw [hJ', hsum]; exact henough
  · rw [hs1]; exact pageOutAll_segs ws _
  · rw [hs1]; exact pageOutAll_files ws _
  · intro x hx
    rw [hs1]; exact (pageOutAll_other ws _ x hx).1

/-- **Eventually granted, whatever the disk does**: in a quiescent state satisfying the invariants, an allocation of a
new key with `size ≤ capacity` and `size ≤ free + Σ sizes of the datasets evictable now` is granted at once, or answered
`wait`, and once the launched page-out jobs have completed -- EACH SUCCESSFULLY OR NOT (`inj` arbitrary) -- the retry is
granted: a failed page-out gives its space back too (the dataset is dropped by the failure callback's purge). -/
theorem eventually_granted_any (s : St) (hb : Base s) (hc : Core s) (k : String) (size : Nat) (deser : String) (t t' : Nat)
    (inj : Nat → IoRes) (hq : s.jobs = []) (hk : find? s.ds k = none) (hcap : size ≤ s.cap)
    (hroom : size ≤ s.free + candTotal s.staleCreate s.staleRead t s.ds) :
    (add s k size deser t).2 = .granted ∨
    ((add s k size deser t).2 = .wait ∧
      (add (drainWith (add s k size deser t).1 (add s k size deser t).1.jobs inj) k size deser t').2 = .granted) := by
  by_cases hfit : size ≤ s.free
  · left
    have h1 : ¬ size > s.cap := by omega
    have h2 : ¬ size > s.free := by omega
    simp [add, hk, h1, h2]
  · right
    have h1 : ¬ size > s.cap := by omega
    have h2 : size > s.free := by omega
    have hadd : add s k size deser t = (pageOutAtLeast s (size - s.free) t, .wait) := by simp [add, hk, h1, h2]
    rw [hadd]
    refine ⟨rfl, ?_⟩
    simp only
    have hstep : (step s (.add k size deser t)).1 = pageOutAtLeast s (size - s.free) t := by simp [step, hadd]
    have hb1 : Base (pageOutAtLeast s (size - s.free) t) := hstep ▸ base_step s _ hb
    have hc1 : Core (pageOutAtLeast s (size - s.free) t) := hstep ▸ core_step s _ hb hc rfl
    obtain ⟨ws, _, hall, _, hsum, f1, c1, _, _, _, k1⟩ := launch_spec s hb hq (size - s.free) t (by omega) (by omega)
    obtain ⟨q1, q2, _, _, q5⟩ := drainWith_outs inj _ _ hb1 hc1 rfl hall
    have hk1 : find? (pageOutAtLeast s (size - s.free) t).ds k = none := by
      have := k1 k
      rw [hk] at this
      cases h : find? (pageOutAtLeast s (size - s.free) t).ds k <;> simp [h] at this ⊢
    have hk2 := q5 k hk1
    have hcap2 : ¬ size > (drainWith (pageOutAtLeast s (size - s.free) t) (pageOutAtLeast s (size - s.free) t).jobs inj).cap := by
      rw [q2, c1]; omega
    have hfree2 : ¬ size > (drainWith (pageOutAtLeast s (size - s.free) t) (pageOutAtLeast s (size - s.free) t).jobs inj).free := by
      rw [q1, f1]; omega
    simp [add, hk2, hcap2, hfree2]

/-! ### `get` of a dataset on disk -/

/-- A dataset on disk that fits: the `get` launches the page-in (answer `wait`); when that job has completed
successfully the dataset is `in_memory` with its bytes, and the next `get` is granted. -/
theorem get_pagein_granted (s : St) (hb : Base s) (hc : Core s) (hq : s.jobs = []) (k : String) (d : Dataset) (tok : Nat)
    (hd : find? s.ds k = some d) (hst : d.status = .onDisk) (hw : d.wrote = some tok) (hs0 : d.size ≠ 0)
    (hfit : d.size ≤ s.free) (t t' : Nat) (c c' : List String) (r : String) (hr : firstFresh d.readers c' = some r) :
    (get s k t c).2 = .wait ∧
    (get (drainWith (get s k t c).1 (get s k t c).1.jobs (fun _ => .ok)) k t' c').2 = .granted d.size r d.deser ∧
    find? (drainWith (get s k t c).1 (get s k t c).1.jobs (fun _ => .ok)).segs k = some ⟨d.size, tok⟩ := by
  have hn : ¬ d.size > s.free := by omega
  have e : get s k t c = (pageIn s k d, .wait) := by simp [get, hd, hst, hn]
  rw [e]
  refine ⟨rfl, ?_⟩
  simp only
  -- the job and the state it is launched in
  let j : Job := { id := s.nextJob, kind := .inn, key := k, gen := d.gen, size := d.size, io := none }
  have hjobs : (pageIn s k d).jobs = [j] := by simp [pageIn, hq, j]
  have hnoseg : find? s.segs k = none := by
    cases hg : find? s.segs k with
    | none => rfl
    | some g =>
      obtain ⟨d0, h0, r0, _⟩ := hc.segLink k g hg
      rw [hd] at h0; cases h0; simp [hst, Status.resident] at r0
  have hfile : find? s.files k = some ⟨d.size, tok⟩ := by
    have := hc.content k d tok hd hw
    rw [hst] at this
    simpa [Holds] using this
  have hfj : findJob (pageIn s k d).jobs s.nextJob = some j := by rw [hjobs]; simp [findJob, j]
  have e1 : (ioStep (pageIn s k d) s.nextJob .ok).1 =
      { pageIn s k d with segs := s.segs ++ [(k, { size := d.size, data := tok })], jobs := setJobIo [j] s.nextJob true } := by
    have hs0' : (d.size == 0) = false := by simp [hs0]
    unfold ioStep
    rw [hfj]
    simp [j, hs0', pageIn, hnoseg, hfile, hq, setJobIo]
  have e2 : drainWith (pageIn s k d) (pageIn s k d).jobs (fun _ => .ok) =
      { pageIn s k d with segs := s.segs ++ [(k, { size := d.size, data := tok })], jobs := [],
                          ds := set (set s.ds k { d with status := .pagedIn }) k { d with status := .inMemory } } := by
    rw [hjobs]
    simp only [drainWith, List.foldl_cons, List.foldl_nil, completeWith]
    show (cbStep (ioStep (pageIn s k d) s.nextJob .ok).1 s.nextJob).1 = _
    rw [e1]
    have hfd : find? (set s.ds k { d with status := .pagedIn }) k = some { d with status := .pagedIn } := find?_set_self _ _ _ _ hd
    simp [cbStep, setJobIo, findJob, j, eraseJob, setStatusIfSame, pageIn, hfd]
  rw [e2]
  have hfin : find? (set (set s.ds k { d with status := .pagedIn }) k { d with status := .inMemory }) k = some { d with status := .inMemory } :=
    find?_set_self _ _ _ { d with status := .pagedIn } (find?_set_self _ _ _ _ hd)
  refine ⟨?_, ?_⟩
  · simp [get, hfin, hr]
  · simp only; exact find?_append_self _ _ _ hnoseg

/-- **A `get` of a dataset on disk is eventually granted**: in a quiescent state satisfying the invariants, for a dataset
on disk whose writer wrote `tok`, with `size ≤ free + Σ sizes of the datasets evictable now`: either it fits and two
requests suffice (page-in, grant), or the first request launches page-outs (answer `wait`); after they have completed
-- each successfully or not -- the second request launches the page-in, and after that job has completed successfully the
third request is granted, and the segment handed out holds the writer's bytes. `cands` must offer an unused reader id. -/
theorem get_eventually (s : St) (hb : Base s) (hc : Core s) (hq : s.jobs = []) (k : String) (d : Dataset) (tok : Nat)
    (hd : find? s.ds k = some d) (hst : d.status = .onDisk) (hw : d.wrote = some tok) (hs0 : d.size ≠ 0)
    (t1 t2 t3 : Nat) (c1 c2 c3 : List String) (r : String) (hr : firstFresh d.readers c3 = some r) (inj : Nat → IoRes)
    (hroom : d.size ≤ s.free + candTotal s.staleCreate s.staleRead t1 s.ds) :
    (d.size ≤ s.free ∧ (get s k t1 c1).2 = .wait ∧
      (get (drainWith (get s k t1 c1).1 (get s k t1 c1).1.jobs (fun _ => .ok)) k t3 c3).2 = .granted d.size r d.deser) ∨
    (s.free < d.size ∧ (get s k t1 c1).2 = .wait ∧
      let s2 := drainWith (get s k t1 c1).1 (get s k t1 c1).1.jobs inj
      (get s2 k t2 c2).2 = .wait ∧
      (get (drainWith (get s2 k t2 c2).1 (get s2 k t2 c2).1.jobs (fun _ => .ok)) k t3 c3).2 = .granted d.size r d.deser ∧
      find? (drainWith (get s2 k t2 c2).1 (get s2 k t2 c2).1.jobs (fun _ => .ok)).segs k = some ⟨d.size, tok⟩) := by
  by_cases hfit : d.size ≤ s.free
  · left
    obtain ⟨a, b, _⟩ := get_pagein_granted s hb hc hq k d tok hd hst hw hs0 hfit t1 t3 c1 c3 r hr
    exact ⟨hfit, a, b⟩
  · right
    have h2 : d.size > s.free := by omega
    have hget : get s k t1 c1 = (pageOutAtLeast s (d.size - s.free) t1, .wait) := by simp [get, hd, hst, h2]
    rw [hget]
    refine ⟨by omega, rfl, ?_⟩
    simp only
    have hstep : (step s (.get k t1 c1)).1 = pageOutAtLeast s (d.size - s.free) t1 := by simp [step, hget]
    have hb1 : Base (pageOutAtLeast s (d.size - s.free) t1) := hstep ▸ base_step s _ hb
    have hc1 : Core (pageOutAtLeast s (d.size - s.free) t1) := hstep ▸ core_step s _ hb hc rfl
    obtain ⟨ws, hkeys, hall, hwin, hsum, f1, c1', sg1, fl1, hoth, _⟩ := launch_spec s hb hq (d.size - s.free) t1 (by omega) (by omega)
    -- `k` is on disk, hence no winner
    have hkw : k ∉ ws := by
      intro hm
      obtain ⟨d', hd', hp⟩ := hwin k hm
      rw [hd] at hd'; cases hd'
      have := pageoutable_status _ _ _ _ hp
      rw [hst] at this; rcases this with h | h <;> cases h
    have hkj : ∀ j ∈ (pageOutAtLeast s (d.size - s.free) t1).jobs, j.key ≠ k := by
      intro j hj e
      apply hkw
      rw [← hkeys, ← e]
      exact List.mem_map.mpr ⟨j, hj, rfl⟩
    obtain ⟨q1, q2, q3, q4, _⟩ := drainWith_outs inj _ _ hb1 hc1 rfl hall
    obtain ⟨hc2, hb2⟩ := core_drainWith inj (pageOutAtLeast s (d.size - s.free) t1).jobs _ hb1 hc1
    obtain ⟨o1, _, _⟩ := q4 k hkj
    have hd2 : find? (drainWith (pageOutAtLeast s (d.size - s.free) t1) (pageOutAtLeast s (d.size - s.free) t1).jobs inj).ds k = some d := by
      rw [o1, hoth k hkw]; exact hd
    have hfit2 : d.size ≤ (drainWith (pageOutAtLeast s (d.size - s.free) t1) (pageOutAtLeast s (d.size - s.free) t1).jobs inj).free := by
      rw [q1, f1]; omega
    obtain ⟨a, b, c⟩ := get_pagein_granted _ hb2 hc2 q3 k d tok hd2 hst hw hs0 hfit2 t2 t3 c2 c3 r hr
    exact ⟨a, b, c⟩

end Aux
end EkwVerif.Shm
