/-
Tier 4 (`Inv4`) preservation, slice i4c: the step `.flushP1` (purge of one dataset on every host).
-/
import EkwVerif.Lemmas.CtrlInv4C

namespace EkwVerif.Ctrl

/-! ### what `purgeHosts` does, precisely -/

theorem i4c_fold_workers (ds : Ds) (ws : List Worker) (g : Worker → Ds → Status) (w : Worker) (d : Ds) :
    (ws.foldl (fun f w => upd f w (upd (f w) ds .missing)) g) w d =
      if d = ds ∧ w ∈ ws then .missing else g w d := by
  induction ws generalizing g with
  | nil => simp
  | cons a ws ih =>
    simp only [List.foldl_cons, ih, List.mem_cons]
    by_cases hd : d = ds
    · by_cases hw : w ∈ ws
      · simp [hd, hw]
      · by_cases hwa : w = a
        · subst hwa; simp [hd, hw]
        · simp [hd, hw, hwa]
    · by_cases hwa : w = a
      · subst hwa; simp [hd]
      · simp [hd, hwa]

theorem i4c_mem_workersOf (cl : Cluster) (h : Host) (w : Worker) :
    w ∈ cl.workersOf h ↔ w ∈ cl.ids ∧ w.host = h := by
  simp [Cluster.workersOf, List.mem_filter]

theorem i4c_purgeHosts_ok (cl : Cluster) (ds : Ds) (l : List Host) (c c' : Ctl) (cmds : List Cmd)
    (hr : purgeHosts cl ds c l = .ok (c', cmds)) :
    (∀ h d, c'.hostDs h d = if d = ds ∧ h ∈ l ∧ c.dsHost ds h ≠ .missing then .missing else c.hostDs h d) ∧
    (∀ w d, c'.workerDs w d =
      if d = ds ∧ w ∈ cl.ids ∧ w.host ∈ l ∧ c.dsHost ds w.host ≠ .missing then .missing else c.workerDs w d) ∧
    cmds = (l.filter (fun h => c.dsHost ds h != .missing)).map (fun h => Cmd.purge h ds) := by
  induction l generalizing c c' cmds with
  | nil =>
    simp only [purgeHosts, Except.ok.injEq, Prod.mk.injEq] at hr
    obtain ⟨rfl, rfl⟩ := hr
    simp
  | cons a l ih =>
    unfold purgeHosts at hr
    split at hr
    · rename_i hmiss
      have hmiss' : c.dsHost ds a = .missing := by simpa using hmiss
      obtain ⟨i1, i2, i3⟩ := ih _ _ _ hr
      refine ⟨?_, ?_, ?_⟩
      · intro h d
        rw [i1]
        by_cases hha : h = a
        · subst hha; simp [hmiss']
        · simp [hha]
      · intro w d
        rw [i2]
        by_cases hha : w.host = a
        · simp [hha, hmiss']
        · simp [hha]
      · rw [i3]; simp [hmiss']
    · rename_i hmiss
      have hmiss' : c.dsHost ds a ≠ .missing := by simpa using hmiss
      split at hr
      · cases hr
      · dsimp only at hr
        split at hr
        · cases hr
        · rename_i c2 cm2 hc2
          cases hr
          obtain ⟨i1, i2, i3⟩ := ih _ _ _ hc2
          simp only at i1 i2 i3
          refine ⟨?_, ?_, ?_⟩
          · intro h d
            rw [i1]
            by_cases hha : h = a
            · subst hha
              by_cases hd : d = ds
              · subst hd; simp [hmiss']
              · simp [hd]
            · simp [hha]
          · intro w d
            rw [i2, i4c_fold_workers]
            simp only [i4c_mem_workersOf]
            by_cases hd : d = ds
            · by_cases hha : w.host = a
              · by_cases hw : w ∈ cl.ids
                · simp [hd, hha, hw, hmiss']
                · simp [hd, hha, hw]
              · simp [hd, hha]
            · simp [hd]
          · rw [i3]; simp [hmiss']

theorem i4c_purgeHosts_noerr (cl : Cluster) (ds : Ds) (l : List Host) (c : Ctl) (e : Err)
    (hn : l.Nodup) (hk : ∀ h, h ∈ l → c.dsHost ds h ≠ .missing → c.hostDs h ds ≠ .missing) :
    purgeHosts cl ds c l ≠ .error e := by
  induction l generalizing c e with
  | nil => simp [purgeHosts]
  | cons a l ih =>
    have hn' := List.nodup_cons.mp hn
    unfold purgeHosts
    split
    · exact ih c e hn'.2 (fun h hm => hk h (List.mem_cons_of_mem _ hm))
    · rename_i hmiss
      have hmiss' : c.dsHost ds a ≠ .missing := by simpa using hmiss
      split
      · rename_i hx
        exact absurd (by simpa using hx) (hk a (by simp) hmiss')
      · dsimp only
        split
        · rename_i e2 he2
          refine absurd he2 (ih _ _ hn'.2 ?_)
          intro h hm hd
          have hne : h ≠ a := by intro he; subst he; exact hn'.1 hm
          simp only [upd_other _ _ _ _ hne]
          exact hk h (List.mem_cons_of_mem _ hm) hd
        · simp

/-! ### what a batch of purges of one dataset does to the environment -/

theorem i4c_applyPurges (j : Job) (cl : Cluster) (ds : Ds) (hs : List Host) (e : Env) :
    (∀ h d, (applyCmds j cl e (hs.map (fun h => Cmd.purge h ds))).present h d =
        if d = ds ∧ h ∈ hs then none else e.present h d) ∧
    (applyCmds j cl e (hs.map (fun h => Cmd.purge h ds))).purged = e.purged ++ hs.map (fun h => (h, ds)) ∧
    (applyCmds j cl e (hs.map (fun h => Cmd.purge h ds))).outstanding = e.outstanding ∧
    (applyCmds j cl e (hs.map (fun h => Cmd.purge h ds))).queued = e.queued ∧
    (applyCmds j cl e (hs.map (fun h => Cmd.purge h ds))).pending = e.pending ∧
    (applyCmds j cl e (hs.map (fun h => Cmd.purge h ds))).ran = e.ran ∧
    (applyCmds j cl e (hs.map (fun h => Cmd.purge h ds))).produced = e.produced ∧
    (∀ m, m ∈ (applyCmds j cl e (hs.map (fun h => Cmd.purge h ds))).viol → m ∈ e.viol ∨
      (∃ h, h ∈ hs ∧ outboundIO e ds h = true ∧ m = "C04 purge-while-outstanding-from") ∨
      m = "C04 purge-before-consumer-done" ∨ m = "C04 purge-before-output-delivered" ∨
      m = "C04 purge-needed-by-queued-task") := by
  induction hs generalizing e with
  | nil => simp only [applyCmds, List.map_nil, List.foldl_nil]; simp; intro m hm; exact Or.inl hm
  | cons a hs ih =>
    obtain ⟨i1, i2, i3, i4, i5, i6, i7, i8⟩ := ih (applyCmd j cl e (.purge a ds))
    simp only [applyCmds, List.map_cons, List.foldl_cons] at i1 i2 i3 i4 i5 i6 i7 i8 ⊢
    have o1 : (applyCmd j cl e (.purge a ds)).outstanding = e.outstanding := by simp [applyCmd]
    refine ⟨?_, ?_, ?_, ?_, ?_, ?_, ?_, ?_⟩
    · intro h d
      rw [i1]
      by_cases hd : d = ds
      · by_cases hh : h ∈ hs
        · simp [hd, hh]
        · by_cases hha : h = a
          · subst hha; simp [hd, hh, applyCmd]
          · simp [hd, hh, hha, applyCmd]
      · by_cases hha : h = a
        · subst hha; simp [hd, applyCmd]
        · simp [hd, hha, applyCmd]
    · rw [i2]; simp [applyCmd]
    · rw [i3, o1]
    · rw [i4]; simp [applyCmd]
    · rw [i5]; simp [applyCmd]
    · rw [i6]; simp [applyCmd]
    · rw [i7]; simp [applyCmd]
    · intro m hm
      rcases i8 m hm with hm | ⟨h, hh, ho, rfl⟩ | hm
      · rw [mem_viol_purge] at hm
        rcases hm with hm | ⟨hc, rfl⟩ | ⟨_, rfl⟩ | ⟨_, rfl⟩ | ⟨_, rfl⟩
        · exact Or.inl hm
        · refine Or.inr (Or.inl ⟨a, by simp, ?_, rfl⟩)
          simpa using hc
        · simp
        · simp
        · simp
      · refine Or.inr (Or.inl ⟨h, by simp [hh], ?_, rfl⟩)
        simpa only [outboundIO, o1] using ho
      · exact Or.inr (Or.inr hm)

/-! ### the dataset being purged is not needed and nothing is outstanding from it -/

theorem i4c_purgeQ_unneeded {j : Job} {cl : Cluster} {s : Sys} (h2 : Inv2 j cl s) {ds : Ds}
    (hds : ds ∈ s.ctl.purgeQ) : ¬ needed j s.ctl ds := by
  obtain ⟨p1, p2, _⟩ := h2.purgeQ_ok ds hds
  rintro (⟨t, ht, hdt⟩ | ⟨he, ho⟩)
  · rw [p1 t ht] at hdt; cases hdt
  · have := p2 he; rw [ho] at this; cases this

theorem i4c_purgeQ_no_transmit {j : Job} {cl : Cluster} {s : Sys} (h1 : Inv1 cl s) (h2 : Inv2 j cl s)
    (h4 : Inv4 j cl s) {ds : Ds} (hds : ds ∈ s.ctl.purgeQ) (a b : Host) :
    IO.transmit ds a b ∉ s.env.outstanding := by
  intro hm
  obtain ⟨_, _, _, w, t, hq, _, hin⟩ := h4.transmit_out ds a b hm
  have hf := h1.queued_flight w t hq
  have hnd := h2.flight_not_done w t hf
  have hv := h2.flight_valid w t hf
  have := (h2.purgeQ_ok ds hds).1 t (i4c_mem_consumers j ds t hv hin)
  rw [this] at hnd; cases hnd

theorem i4c_purgeQ_no_outbound {f : Sem} {j : Job} {cl : Cluster} {s : Sys} (h1 : Inv1 cl s) (h2 : Inv2 j cl s)
    (h3 : Inv3 f j cl s) (h4 : Inv4 j cl s) {ds : Ds} (hds : ds ∈ s.ctl.purgeQ) (h : Host) :
    outboundIO s.env ds h = false := by
  cases hx : outboundIO s.env ds h with
  | false => rfl
  | true =>
    rw [i4c_outbound_iff] at hx
    rcases hx with ⟨tgt, hm⟩ | hm
    · exact absurd hm (i4c_purgeQ_no_transmit h1 h2 h4 hds h tgt)
    · obtain ⟨he, ho, _⟩ := h3.fetch_out ds h hm
      have := (h2.purgeQ_ok ds hds).2.1 he
      rw [ho] at this; cases this

/-! ### the invariant after the purge, from the characterisation of the post-state -/

theorem i4c_inv4_purge {j : Job} {cl : Cluster} {s s' : Sys} {ds : Ds}
    (h1 : Inv1 cl s) (h2 : Inv2 j cl s) (h4 : Inv4 j cl s)
    (hds : ds ∈ s.ctl.purgeQ) (htodo : s.todo = [])
    (HH : ∀ h d, s'.ctl.hostDs h d = if d = ds then .missing else s.ctl.hostDs h d)
    (DD : ∀ d h, s'.ctl.dsHost d h = if d = ds then .missing else s.ctl.dsHost d h)
    (WW : ∀ w d, s'.ctl.workerDs w d = if d = ds then .missing else s.ctl.workerDs w d)
    (hDone : s'.ctl.doneC = s.ctl.doneC) (hOut : s'.ctl.outputs = s.ctl.outputs)
    (hA : s'.ctl.announced = s.ctl.announced) (hOng : s'.ctl.ongoing = s.ctl.ongoing)
    (hTodo : s'.todo = s.todo) (hInbox : s'.inbox = s.inbox)
    (PP : ∀ h d, s'.env.present h d =
      if d = ds ∧ s.ctl.dsHost ds h ≠ .missing then none else s.env.present h d)
    (hPu : ∀ h d, (h, d) ∈ s'.env.purged → (h, d) ∈ s.env.purged ∨ d = ds)
    (hO : s'.env.outstanding = s.env.outstanding) (hQ : s'.env.queued = s.env.queued)
    (hPe : s'.env.pending = s.env.pending) (hR : s'.env.ran = s.env.ran)
    (hPr : s'.env.produced = s.env.produced)
    (hV : ∀ m, m ∈ i4c_msgs → m ∈ s'.env.viol → m ∈ s.env.viol)
    (hE : s'.err = s.err) : Inv4 j cl s' := by
  have hnn := i4c_purgeQ_unneeded h2 hds
  have pq := h2.purgeQ_ok ds hds
  have hN : ∀ d, needed j s'.ctl d ↔ needed j s.ctl d := fun d => i4c_needed_congr j _ _ d hDone hOut
  have hNne : ∀ d, needed j s'.ctl d → d ≠ ds := by
    intro d hn hd; subst hd; exact hnn ((hN _).mp hn)
  have hfl : ∀ w t, s'.inFlight w t ↔ s.inFlight w t := by
    intro w t; simp only [Sys.inFlight, Sys.todoPairs, hOng, hTodo]
  have hEv : s'.allEv = s.allEv := by simp only [Sys.allEv, hInbox, hPe]
  have hPne : ∀ h d, d ≠ ds → s'.env.present h d = s.env.present h d := by
    intro h d hd; rw [PP]; simp [hd]
  have hPsub : ∀ h d, (s'.env.present h d).isSome = true → (s.env.present h d).isSome = true := by
    intro h d hp
    rw [PP] at hp
    split at hp
    · simp at hp
    · exact hp
  have hHne : ∀ h d, d ≠ ds → s'.ctl.hostDs h d = s.ctl.hostDs h d := by
    intro h d hd; rw [HH]; simp [hd]
  have hDne : ∀ h d, d ≠ ds → s'.ctl.dsHost d h = s.ctl.dsHost d h := by
    intro h d hd; rw [DD]; simp [hd]
  have hWne : ∀ w d, d ≠ ds → s'.ctl.workerDs w d = s.ctl.workerDs w d := by
    intro w d hd; rw [WW]; simp [hd]
  have hin : ∀ d h, inboundTransmit s'.env d h = inboundTransmit s.env d h := by
    intro d h; simp only [inboundTransmit, hO]
  refine ⟨?_, ?_, ?_, ?_, ?_, ?_, ?_, ?_, ?_, ?_, ?_, ?_, ?_, ?_, ?_, ?_, ?_, ?_, ?_, ?_, ?_, ?_, ?_⟩
  · -- keys
    intro h d
    by_cases hd : d = ds
    · subst hd; simp [HH, DD]
    · rw [hHne h d hd, hDne h d hd]; exact h4.keys h d
  · -- status_hosts
    intro h d hne
    by_cases hd : d = ds
    · subst hd; simp [DD] at hne
    · rw [hDne h d hd] at hne; exact h4.status_hosts h d hne
  · -- workerDs_ok
    intro w d hne
    by_cases hd : d = ds
    · subst hd; simp [WW] at hne
    · rw [hWne w d hd] at hne; rw [hHne _ d hd]; exact h4.workerDs_ok w d hne
  · -- avail_present
    intro h d ha hn
    have hd := hNne d hn
    rw [hDne h d hd] at ha; rw [hPne h d hd]
    exact h4.avail_present h d ha ((hN d).mp hn)
  · -- status_present
    intro h d hh hn ha
    have hd := hNne d hn
    rw [hHne h d hd] at hh; rw [hA] at ha; rw [hPne h d hd, hin]
    exact h4.status_present h d hh ((hN d).mp hn) ha
  · -- transmit_out
    intro d src tgt hm
    rw [hO] at hm
    by_cases hd : d = ds
    · subst hd; exact absurd hm (i4c_purgeQ_no_transmit h1 h2 h4 hds src tgt)
    · rw [hPne _ d hd, hPne _ d hd, hHne _ d hd, hQ]
      exact h4.transmit_out d src tgt hm
  · -- flight_present
    intro w t hf hr k hk hn
    have hd := hNne _ hn
    rw [hR] at hr; rw [hPne _ _ hd]
    exact h4.flight_present w t ((hfl w t).mp hf) hr k hk ((hN _).mp hn)
  · -- present_status
    intro h d hp
    have hp0 := hPsub h d hp
    rcases h4.present_status h d hp0 with hst | ⟨w, _, hw⟩
    · refine Or.inl ?_
      by_cases hd : d = ds
      · subst hd
        have hdm : s.ctl.dsHost d h ≠ .missing := fun hx => hst ((h4.keys h d).mpr hx)
        rw [PP] at hp
        simp [hdm] at hp
      · rw [hHne h d hd]; exact hst
    · simp [Sys.todoPairs, htodo] at hw
  · -- ongoing_status
    intro w t hm hr k hk
    rw [hOng] at hm; rw [hR] at hr
    have hd : (⟨t, k⟩ : Ds) ≠ ds := by
      intro hd
      have hprod := h2.announced_produced ds pq.2.2
      have := ((h2.produced_iff ds).mp hprod).1
      rw [← hd] at this
      simp only at this
      rw [hr] at this; cases this
    rw [hHne _ _ hd]
    exact h4.ongoing_status w t hm hr k hk
  · -- evW_present
    intro w d hm
    rw [hEv] at hm
    have := h4.evW_present w d hm
    refine ⟨this.1, fun hn => ?_⟩
    rw [hPne _ d (hNne d hn)]; exact this.2 ((hN d).mp hn)
  · -- evT_present
    intro h d hm
    rw [hEv] at hm
    have := h4.evT_present h d hm
    refine ⟨this.1, fun hn => ?_⟩
    rw [hPne _ d (hNne d hn)]; exact this.2 ((hN d).mp hn)
  · -- avail_somewhere
    intro d ha hex
    rw [hA] at ha; rw [hDone] at hex
    have hd : d ≠ ds := by
      intro hd; subst hd
      obtain ⟨t, ht, hdt⟩ := hex
      rw [pq.1 t ht] at hdt; cases hdt
    obtain ⟨h, hh, hav⟩ := h4.avail_somewhere d ha hex
    exact ⟨h, hh, by rw [hDne h d hd]; exact hav⟩
  · -- purged_unneeded
    intro h d hm hn
    rcases hPu h d hm with hm | hd
    · exact h4.purged_unneeded h d hm ((hN d).mp hn)
    · exact hNne d hn hd
  · -- present_produced
    intro h d hp
    rw [hPr]; exact h4.present_produced h d (hPsub h d hp)
  · exact fun hm => h4.no_transmit_from_missing (hV _ (by simp [i4c_msgs]) hm)
  · exact fun hm => h4.no_fetch_from_missing (hV _ (by simp [i4c_msgs]) hm)
  · exact fun hm => h4.no_purge_while_outstanding (hV _ (by simp [i4c_msgs]) hm)
  · exact fun hm => h4.no_input_purged (hV _ (by simp [i4c_msgs]) hm)
  · exact fun hm => h4.no_input_absent (hV _ (by simp [i4c_msgs]) hm)
  · exact fun hm => h4.no_io_gone_t (hV _ (by simp [i4c_msgs]) hm)
  · exact fun hm => h4.no_io_gone_f (hV _ (by simp [i4c_msgs]) hm)
  · rw [hE]; exact h4.no_err_notfound
  · rw [hE]; exact h4.no_err_pop

/-! ### `.flushP1` -/

theorem i4c_step_flushP1 (f : Sem) (j : Job) (cl : Cluster) (s s' : Sys) (_wf : WF j cl)
    (h1 : Inv1 cl s) (h2 : Inv2 j cl s) (h3 : Inv3 f j cl s) (h4 : Inv4 j cl s)
    (hs : step f j cl s .flushP1 = some s') : Inv4 j cl s' := by
  simp only [step] at hs
  split at hs; · cases hs
  rename_i hc
  have hp : s.phase = .flushP := by simpa using hc
  have htodo : s.todo = [] := h1.todo_phase (by simp [hp]) (by simp [hp]) (by simp [hp])
  split at hs
  · cases hs
  · rename_i ds rest hq
    have hds : ds ∈ s.ctl.purgeQ := by rw [hq]; simp
    have hkeys : ∀ h, s.ctl.dsHost ds h ≠ .missing → s.ctl.hostDs h ds ≠ .missing :=
      fun h hd hx => hd ((h4.keys h ds).mp hx)
    split at hs
    · cases hs
    · rename_i e he
      exact absurd he (i4c_purgeHosts_noerr cl ds cl.hosts s.ctl _ (i4c_hosts_nodup cl) (fun h _ => hkeys h))
    · rename_i c2 cmds hph
      cases hs
      obtain ⟨k1, k2, k3⟩ := i4c_purgeHosts_ok cl ds cl.hosts s.ctl c2 cmds hph
      subst k3
      obtain ⟨i1, i2, i3, i4, i5, i6, i7, i8⟩ := i4c_applyPurges j cl ds
        (cl.hosts.filter (fun h => s.ctl.dsHost ds h != .missing)) s.env
      have hmemP : ∀ h, h ∈ cl.hosts.filter (fun h => s.ctl.dsHost ds h != .missing) ↔ s.ctl.dsHost ds h ≠ .missing := by
        intro h
        simp only [List.mem_filter, bne_iff_ne, ne_eq, and_iff_right_iff_imp]
        exact fun hd => h4.status_hosts h ds hd
      have hD2 := purgeHosts_dsHost _ _ _ _ _ _ hph
      have f1 : c2.doneC = s.ctl.doneC := purgeHosts_doneC _ _ _ _ _ _ hph
      have f2 : c2.outputs = s.ctl.outputs := purgeHosts_outputs _ _ _ _ _ _ hph
      have f3 : c2.announced = s.ctl.announced := purgeHosts_announced _ _ _ _ _ _ hph
      have f4 : c2.ongoing = s.ctl.ongoing := purgeHosts_ongoing _ _ _ _ _ _ hph
      refine i4c_inv4_purge (s := s) (ds := ds) h1 h2 h4 hds htodo ?_ ?_ ?_ f1 f2 f3 f4 rfl rfl
        ?_ ?_ i3 i4 i5 i6 i7 ?_ rfl
      · intro h d
        show c2.hostDs h d = _
        rw [k1]
        by_cases hd : d = ds
        · subst hd
          by_cases hm : s.ctl.dsHost d h = .missing
          · simp [hm, (h4.keys h d).mpr hm]
          · simp [hm, h4.status_hosts h d hm]
        · simp [hd]
      · intro d h
        show upd c2.dsHost ds (fun _ => Status.missing) d h = _
        rw [hD2]
        by_cases hd : d = ds
        · subst hd; simp
        · simp [hd]
      · intro w d
        show c2.workerDs w d = _
        rw [k2]
        by_cases hd : d = ds
        · subst hd
          by_cases hm : s.ctl.workerDs w d = .missing
          · simp [hm]
          · obtain ⟨a1, a2⟩ := h4.workerDs_ok w d hm
            have a3 : s.ctl.dsHost d w.host ≠ .missing := fun hx => a1 ((h4.keys _ _).mpr hx)
            simp [a2, a3, h4.status_hosts _ _ a3]
        · simp [hd]
      · intro h d
        show (applyCmds j cl s.env _).present h d = _
        rw [i1]
        simp only [hmemP]
      · intro h d hm
        change (h, d) ∈ (applyCmds j cl s.env _).purged at hm
        rw [i2] at hm
        rcases List.mem_append.mp hm with hm | hm
        · exact Or.inl hm
        · simp only [List.mem_map, Prod.mk.injEq] at hm
          obtain ⟨_, _, _, rfl⟩ := hm
          exact Or.inr rfl
      · intro m hmm hm
        rcases i8 m hm with hm | ⟨h, _, ho, _⟩ | rfl | rfl | rfl
        · exact hm
        · rw [i4c_purgeQ_no_outbound h1 h2 h3 h4 hds h] at ho; cases ho
        · simp [i4c_msgs] at hmm
        · simp [i4c_msgs] at hmm
        · simp [i4c_msgs] at hmm

theorem i4c_statusP_flushP1 (f : Sem) (j : Job) (cl : Cluster) (s s' : Sys)
    (h2 : Inv2 j cl s) (hsp : i4c_StatusP j s) (hs : step f j cl s .flushP1 = some s') : i4c_StatusP j s' := by
  simp only [step] at hs
  split at hs; · cases hs
  split at hs
  · cases hs
  · rename_i ds rest hq
    have hds : ds ∈ s.ctl.purgeQ := by rw [hq]; simp
    have hnn := i4c_purgeQ_unneeded h2 hds
    split at hs
    · cases hs
    · cases hs; exact hsp
    · rename_i c2 cmds hph
      cases hs
      obtain ⟨k1, k2, k3⟩ := i4c_purgeHosts_ok cl ds cl.hosts s.ctl c2 cmds hph
      subst k3
      obtain ⟨i1, i2, i3, i4, i5, i6, i7, i8⟩ := i4c_applyPurges j cl ds
        (cl.hosts.filter (fun h => s.ctl.dsHost ds h != .missing)) s.env
      intro h d hh hn hp
      have f1 : c2.doneC = s.ctl.doneC := purgeHosts_doneC _ _ _ _ _ _ hph
      have f2 : c2.outputs = s.ctl.outputs := purgeHosts_outputs _ _ _ _ _ _ hph
      have hn0 : needed j s.ctl d := (i4c_needed_congr j _ _ d f1 f2).mp hn
      have hd : d ≠ ds := by intro hd; subst hd; exact hnn hn0
      change c2.hostDs h d ≠ .missing at hh
      change (applyCmds j cl s.env _).produced d = true at hp
      show ((applyCmds j cl s.env _).present h d).isSome = true ∨ inboundTransmit (applyCmds j cl s.env _) d h = true
      rw [k1] at hh; rw [i7] at hp; rw [i1]
      simp only [hd, false_and, if_false] at hh ⊢
      simp only [inboundTransmit, i3]
      exact hsp h d hh hn0 hp

theorem i4c_inv4x_step_flushP1 (f : Sem) (j : Job) (cl : Cluster) (s s' : Sys)
    (h2 : Inv2 j cl s) (h4x : Inv4X j s) (hs : step f j cl s .flushP1 = some s') : Inv4X j s' := by
  have hsp := i4c_statusP_flushP1 f j cl s s' h2 h4x.status_produced hs
  simp only [step] at hs
  split at hs; · cases hs
  split at hs
  · cases hs
  · rename_i ds rest hq
    split at hs
    · cases hs
    · cases hs; exact ⟨h4x.transmit_count, h4x.status_produced, h4x.status_unran⟩
    · rename_i c2 cmds hph
      cases hs
      obtain ⟨k1, k2, k3⟩ := i4c_purgeHosts_ok cl ds cl.hosts s.ctl c2 cmds hph
      subst k3
      obtain ⟨i1, i2, i3, i4, i5, i6, i7, i8⟩ := i4c_applyPurges j cl ds
        (cl.hosts.filter (fun h => s.ctl.dsHost ds h != .missing)) s.env
      have f4 : c2.ongoing = s.ctl.ongoing := purgeHosts_ongoing _ _ _ _ _ _ hph
      refine ⟨?_, hsp, ?_⟩
      · intro d tgt
        show ((applyCmds j cl s.env _).outstanding.filter (isTransmitTo d tgt)).length ≤ 1
        rw [i3]; exact h4x.transmit_count d tgt
      · intro h d hh hr
        change c2.hostDs h d ≠ .missing at hh
        change (applyCmds j cl s.env _).ran d.task = false at hr
        rw [i6] at hr
        have hh0 : s.ctl.hostDs h d ≠ .missing := by
          rw [k1] at hh
          split at hh
          · exact absurd rfl hh
          · exact hh
        obtain ⟨w, hw, hf⟩ := h4x.status_unran h d hh0 hr
        refine ⟨w, hw, ?_⟩
        simp only [Sys.inFlight, Sys.todoPairs] at hf ⊢
        rw [f4]; exact hf

end EkwVerif.Ctrl
