/-
Tier S (`InvS`) preservation, slice S1 (base steps), part A: list helpers, what `planChildren` /
`notifyChildren` do to the bookkeeping, the projection of the extended system onto the base system,
and the auxiliary invariant `InvS1X`.
-/
import EkwVerif.Lemmas.SchedInvDefs

set_option linter.unusedVariables false
set_option linter.unusedSimpArgs false

namespace EkwVerif.Ctrl

/-! ### addL / addAll / addAt -/

theorem sS1_mem_addL {α : Type} [DecidableEq α] (l : List α) (x y : α) : y ∈ addL l x ↔ y ∈ l ∨ y = x := by
  unfold addL
  split
  · rename_i h
    have hx : x ∈ l := by simpa using h
    constructor
    · exact fun h => Or.inl h
    · rintro (h | rfl)
      · exact h
      · exact hx
  · simp

theorem sS1_mem_addAll {α : Type} [DecidableEq α] (xs : List α) (l : List α) (y : α) :
    y ∈ addAll l xs ↔ y ∈ l ∨ y ∈ xs := by
  unfold addAll
  induction xs generalizing l with
  | nil => simp
  | cons a xs ih =>
    simp only [List.foldl_cons, ih, sS1_mem_addL, List.mem_cons]
    grind

theorem sS1_mem_addAt (f : Worker → List Task) (ws : List Worker) (ts : List Task) (w : Worker) (t : Task) :
    t ∈ addAt f ws ts w ↔ t ∈ f w ∨ (w ∈ ws ∧ t ∈ ts) := by
  unfold addAt
  split
  · rename_i h
    have hw : w ∈ ws := by simpa using h
    rw [sS1_mem_addAll]; grind
  · rename_i h
    have hw : w ∉ ws := by simpa using h
    grind

/-! ### plan: `planChildren` -/

/-- one iteration of `planChildren` -/
def sS1_planChild (cm : Comps) (w : Worker) (sc : Sch) (ch : Task) : Sch :=
  let c := cm.compOf ch
  let sc := { sc with values := upd sc.values c (addL (sc.values c) ch) }
  if sc.schErr.isNone && !((sc.distDom c).contains w) then { sc with schErr := some "KeyError: worker2task_distance[worker] in plan" }
  else sc

theorem sS1_planChildren_eq (cm : Comps) (w : Worker) (children : List Task) (sc : Sch) :
    planChildren cm sc w children = children.foldl (sS1_planChild cm w) sc := rfl

theorem sS1_planChild_spec (cm : Comps) (w : Worker) (sc : Sch) (ch : Task) :
    (sS1_planChild cm w sc ch).host2comp = sc.host2comp ∧
    (sS1_planChild cm w sc ch).weight = sc.weight ∧
    (sS1_planChild cm w sc ch).distDom = sc.distDom ∧
    (sS1_planChild cm w sc ch).ovDom = sc.ovDom ∧
    (sS1_planChild cm w sc ch).stage = sc.stage ∧
    (∀ c t, t ∈ (sS1_planChild cm w sc ch).values c ↔ (t ∈ sc.values c ∨ (t = ch ∧ cm.compOf t = c))) ∧
    (sc.schErr = none → w ∈ sc.distDom (cm.compOf ch) → (sS1_planChild cm w sc ch).schErr = none) := by
  have hv : ∀ c t, t ∈ upd sc.values (cm.compOf ch) (addL (sc.values (cm.compOf ch)) ch) c ↔
      (t ∈ sc.values c ∨ (t = ch ∧ cm.compOf t = c)) := by
    intro c t
    by_cases hc : c = cm.compOf ch
    · subst hc; simp only [upd_same, sS1_mem_addL]; grind
    · simp only [upd_other _ _ _ _ hc]; grind
  unfold sS1_planChild
  dsimp only
  split
  · rename_i hbad
    refine ⟨rfl, rfl, rfl, rfl, rfl, hv, ?_⟩
    intro he hw
    exfalso
    simp only [Bool.and_eq_true, Bool.not_eq_true'] at hbad
    have h2 := hbad.2
    simp only [List.contains_eq_mem, decide_eq_false_iff_not] at h2
    exact h2 hw
  · rename_i hbad
    exact ⟨rfl, rfl, rfl, rfl, rfl, hv, fun he _ => he⟩

theorem sS1_planChildren (cm : Comps) (w : Worker) (children : List Task) (sc : Sch) :
    (planChildren cm sc w children).host2comp = sc.host2comp ∧
    (planChildren cm sc w children).weight = sc.weight ∧
    (planChildren cm sc w children).distDom = sc.distDom ∧
    (planChildren cm sc w children).ovDom = sc.ovDom ∧
    (planChildren cm sc w children).stage = sc.stage ∧
    (∀ c t, t ∈ (planChildren cm sc w children).values c ↔ (t ∈ sc.values c ∨ (t ∈ children ∧ cm.compOf t = c))) ∧
    (sc.schErr = none → (∀ ch, ch ∈ children → w ∈ sc.distDom (cm.compOf ch)) →
      (planChildren cm sc w children).schErr = none) := by
  simp only [sS1_planChildren_eq]
  induction children generalizing sc with
  | nil => simp
  | cons ch l ih =>
    simp only [List.foldl_cons]
    obtain ⟨a1, a2, a3, a4, a5, a6, a7⟩ := ih (sS1_planChild cm w sc ch)
    obtain ⟨b1, b2, b3, b4, b5, b6, b7⟩ := sS1_planChild_spec cm w sc ch
    refine ⟨by rw [a1, b1], by rw [a2, b2], by rw [a3, b3], by rw [a4, b4], by rw [a5, b5], ?_, ?_⟩
    · intro c t
      rw [a6, b6]
      simp only [List.mem_cons]
      grind
    · intro he hall
      refine a7 (b7 he (hall ch (by simp))) ?_
      intro q hq
      rw [b3]
      exact hall q (by simp [hq])

/-- folding `planChildren` over a list of child lists -/
theorem sS1_planFold {α : Type} (cm : Comps) (w : Worker) (g : α → List Task) (l : List α) (sc : Sch) :
    (l.foldl (fun sc p => planChildren cm sc w (g p)) sc).host2comp = sc.host2comp ∧
    (l.foldl (fun sc p => planChildren cm sc w (g p)) sc).weight = sc.weight ∧
    (l.foldl (fun sc p => planChildren cm sc w (g p)) sc).distDom = sc.distDom ∧
    (l.foldl (fun sc p => planChildren cm sc w (g p)) sc).ovDom = sc.ovDom ∧
    (l.foldl (fun sc p => planChildren cm sc w (g p)) sc).stage = sc.stage ∧
    (∀ c t, t ∈ (l.foldl (fun sc p => planChildren cm sc w (g p)) sc).values c ↔
        (t ∈ sc.values c ∨ ((∃ p, p ∈ l ∧ t ∈ g p) ∧ cm.compOf t = c))) ∧
    (sc.schErr = none → (∀ p, p ∈ l → ∀ ch, ch ∈ g p → w ∈ sc.distDom (cm.compOf ch)) →
      (l.foldl (fun sc p => planChildren cm sc w (g p)) sc).schErr = none) := by
  induction l generalizing sc with
  | nil => simp
  | cons p l ih =>
    simp only [List.foldl_cons]
    obtain ⟨a1, a2, a3, a4, a5, a6, a7⟩ := ih (planChildren cm sc w (g p))
    obtain ⟨b1, b2, b3, b4, b5, b6, b7⟩ := sS1_planChildren cm w (g p) sc
    refine ⟨by rw [a1, b1], by rw [a2, b2], by rw [a3, b3], by rw [a4, b4], by rw [a5, b5], ?_, ?_⟩
    · intro c t
      rw [a6, b6]
      simp only [List.mem_cons]
      grind
    · intro he hall
      refine a7 (b7 he (fun ch hch => hall p (by simp) ch hch)) ?_
      intro q hq ch hch
      rw [b3]
      exact hall q (by simp [hq]) ch hch

/-! ### notify: `notifyChildren` -/

theorem sS1_notifyChildren_aux (cm : Comps) (cl : Cluster) (pre post : Ctl) (host : Host) (children : List Task) (sc : Sch) :
    let r := children.foldl (fun sc ch =>
      let sc := if pre.computable.contains ch then
          { sc with ovDom := addAt sc.ovDom (cl.workersOf host) [ch] }
        else sc
      if post.computable.contains ch && !(pre.computable.contains ch) then
        { sc with ovDom := addAt sc.ovDom (sc.distDom (cm.compOf ch)) [ch] }
      else sc) sc
    r.host2comp = sc.host2comp ∧ r.weight = sc.weight ∧ r.distDom = sc.distDom ∧ r.values = sc.values ∧
    r.stage = sc.stage ∧ r.schErr = sc.schErr ∧
    (∀ w t, t ∈ sc.ovDom w → t ∈ r.ovDom w) ∧
    (∀ ch, ch ∈ children → ch ∈ post.computable → ch ∉ pre.computable →
      ∀ w, w ∈ sc.distDom (cm.compOf ch) → ch ∈ r.ovDom w) := by
  induction children generalizing sc with
  | nil => simp
  | cons ch l ih =>
    simp only [List.foldl_cons]
    generalize hsc1 : (if pre.computable.contains ch then
          { sc with ovDom := addAt sc.ovDom (cl.workersOf host) [ch] } else sc) = sc1
    have e1 : sc1.host2comp = sc.host2comp ∧ sc1.weight = sc.weight ∧ sc1.distDom = sc.distDom ∧ sc1.values = sc.values ∧
        sc1.stage = sc.stage ∧ sc1.schErr = sc.schErr ∧ (∀ w t, t ∈ sc.ovDom w → t ∈ sc1.ovDom w) := by
      subst hsc1
      split
      · refine ⟨rfl, rfl, rfl, rfl, rfl, rfl, ?_⟩
        intro w t ht
        simp only [sS1_mem_addAt]
        exact Or.inl ht
      · exact ⟨rfl, rfl, rfl, rfl, rfl, rfl, fun _ _ h => h⟩
    obtain ⟨p1, p2, p3, p4, p5, p6, p7⟩ := e1
    generalize hsc2 : (if post.computable.contains ch && !(pre.computable.contains ch) then
        { sc1 with ovDom := addAt sc1.ovDom (sc1.distDom (cm.compOf ch)) [ch] } else sc1) = sc2
    have e2 : sc2.host2comp = sc1.host2comp ∧ sc2.weight = sc1.weight ∧ sc2.distDom = sc1.distDom ∧ sc2.values = sc1.values ∧
        sc2.stage = sc1.stage ∧ sc2.schErr = sc1.schErr ∧ (∀ w t, t ∈ sc1.ovDom w → t ∈ sc2.ovDom w) ∧
        (ch ∈ post.computable → ch ∉ pre.computable → ∀ w, w ∈ sc1.distDom (cm.compOf ch) → ch ∈ sc2.ovDom w) := by
      subst hsc2
      split
      · refine ⟨rfl, rfl, rfl, rfl, rfl, rfl, ?_, ?_⟩
        · intro w t ht
          simp only [sS1_mem_addAt]
          exact Or.inl ht
        · intro _ _ w hw
          simp only [sS1_mem_addAt]
          exact Or.inr ⟨hw, by simp⟩
      · rename_i hc
        refine ⟨rfl, rfl, rfl, rfl, rfl, rfl, fun _ _ h => h, ?_⟩
        intro h1 h2
        exfalso
        apply hc
        simp [h1, h2]
    obtain ⟨q1, q2, q3, q4, q5, q6, q7, q8⟩ := e2
    obtain ⟨r1, r2, r3, r4, r5, r6, r7, r8⟩ := ih sc2
    refine ⟨by rw [r1, q1, p1], by rw [r2, q2, p2], by rw [r3, q3, p3], by rw [r4, q4, p4], by rw [r5, q5, p5],
      by rw [r6, q6, p6], ?_, ?_⟩
    · intro w t ht
      exact r7 w t (q7 w t (p7 w t ht))
    · intro c hc hpost hpre w hw
      rcases List.mem_cons.mp hc with rfl | hc
      · exact r7 w c (q8 hpost hpre w (by rw [p3]; exact hw))
      · exact r8 c hc hpost hpre w (by rw [q3, p3]; exact hw)

theorem sS1_notifyChildren (cm : Comps) (cl : Cluster) (pre post : Ctl) (sc : Sch) (ds : Ds) (host : Host) :
    (notifyChildren cm cl pre post sc ds host).host2comp = sc.host2comp ∧
    (notifyChildren cm cl pre post sc ds host).weight = sc.weight ∧
    (notifyChildren cm cl pre post sc ds host).distDom = sc.distDom ∧
    (notifyChildren cm cl pre post sc ds host).values = sc.values ∧
    (notifyChildren cm cl pre post sc ds host).stage = sc.stage ∧
    (notifyChildren cm cl pre post sc ds host).schErr = sc.schErr ∧
    (∀ w t, t ∈ sc.ovDom w → t ∈ (notifyChildren cm cl pre post sc ds host).ovDom w) ∧
    (∀ ch, ch ∈ (if pre.ptracked ds then pre.ptrack ds else []) → ch ∈ post.computable → ch ∉ pre.computable →
      ∀ w, w ∈ sc.distDom (cm.compOf ch) → ch ∈ (notifyChildren cm cl pre post sc ds host).ovDom w) := by
  exact sS1_notifyChildren_aux cm cl pre post host (if pre.ptracked ds then pre.ptrack ds else []) sc

/-! ### projection onto the base system -/


/-! ### projection onto the base system, and what each base step does to the bookkeeping -/

/-- the bookkeeping of one `yield` of `_assignment_heuristic` (remove from values, weight, the lists) -/
def sS1_assignSch (sc : Sch) (c : Nat) (st' : AStage) (a : Asg) : Sch :=
  let sc := if (sc.values c).contains a.task then { sc with values := upd sc.values c ((sc.values c).erase a.task) }
            else { sc with schErr := some "KeyError: worker2task_values.remove" }
  { sc with weight := upd sc.weight c (sc.weight c - 1), stage := st' }

/-- the bookkeeping of `plan` for one assignment -/
def sS1_planSch (j : Job) (cm : Comps) (c : Ctl) (sc : Sch) (a : Asg) (prep : List (Ds × Host)) : Sch :=
  let sc := prep.foldl (fun sc p => planChildren cm sc a.worker (c.ptrack p.1)) sc
  (j.outputsOf a.task).foldl (fun sc ds => planChildren cm sc a.worker (j.consumers ds)) sc

/-- the bookkeeping of `notify` for one event -/
def sS1_notifySch (cm : Comps) (cl : Cluster) (pre post : Ctl) (sc : Sch) : Event → Sch
  | .pubW w ds => notifyChildren cm cl pre post sc ds w.host
  | .pubT h ds => notifyChildren cm cl pre post sc ds h
  | .payload _ _ => sc

def sS1_enterStage (sc : Sch) (s' : Sys) : AStage :=
  if s'.phase == .assigning && s'.mayAssign then
    .stepI ((s'.ctl.idle.filterMap (fun w => sc.host2comp w.host)).eraseDups)
  else .done

/-- the base steps that carry no scheduler bookkeeping -/
def sS1_plain : Step → Prop
  | .enter | .assign _ | .endAssign | .plan1 | .notify1 => False
  | _ => True

theorem sS1_enter_spec (f : Sem) (j : Job) (cl : Cluster) (cm : Comps) (x x' : SysX)
    (hs : stepX f j cl cm x (.base .enter) = some x') :
    x.sch.schErr = none ∧ step f j cl x.sys .enter = some x'.sys ∧
    x'.sch = { x.sch with stage := sS1_enterStage x.sch x'.sys } := by
  simp -zeta only [stepX] at hs
  split at hs
  · cases hs
  rename_i hne
  have hne' : x.sch.schErr = none := by simpa using hne
  cases hst : step f j cl x.sys .enter with
  | none => simp [hst] at hs
  | some s' =>
    simp -zeta only [hst, Option.map_some, Option.some.injEq] at hs
    subst hs
    refine ⟨hne', ?_, ?_⟩
    · split <;> rfl
    · unfold sS1_enterStage
      split <;> simp_all

theorem sS1_assign_spec (f : Sem) (j : Job) (cl : Cluster) (cm : Comps) (x x' : SysX) (a : Asg)
    (hs : stepX f j cl cm x (.base (.assign a)) = some x') :
    x.sch.schErr = none ∧ step f j cl x.sys (.assign a) = some x'.sys ∧
    ∃ c cls tasks workers phase cpuT cpuW k, x.sch.stage = .inH c cls tasks workers phase cpuT cpuW k ∧
      a.task ∈ tasks ∧ a.worker ∈ workers ∧
      x'.sch = if x'.sys.phase == .crashed then x.sch else
        sS1_assignSch x.sch c (.inH c cls (tasks.erase a.task) (workers.erase a.worker) phase cpuT cpuW k) a := by
  simp -zeta only [stepX] at hs
  split at hs
  · cases hs
  rename_i hne
  have hne' : x.sch.schErr = none := by simpa using hne
  split at hs
  · rename_i c cls tasks workers phase cpuT cpuW k hstage
    split at hs
    · cases hs
    · rename_i hmem
      simp only [Bool.or_eq_true, Bool.not_eq_true', not_or, Bool.not_eq_false, List.contains_iff_mem] at hmem
      cases hst : step f j cl x.sys (.assign a) with
      | none => simp [hst] at hs
      | some s' =>
        simp -zeta only [hst, Option.map_some, Option.some.injEq] at hs
        subst hs
        refine ⟨hne', ?_, c, cls, tasks, workers, phase, cpuT, cpuW, k, hstage, hmem.1, hmem.2, ?_⟩
        · split <;> rfl
        · split
          · rename_i hc; simp [hc]
          · rename_i hc; simp only [hc]; rfl
  · cases hs

theorem sS1_endAssign_spec (f : Sem) (j : Job) (cl : Cluster) (cm : Comps) (x x' : SysX)
    (hs : stepX f j cl cm x (.base .endAssign) = some x') :
    x.sch.schErr = none ∧ step f j cl x.sys .endAssign = some x'.sys ∧
    x'.sch = { x.sch with stage := .off } := by
  simp -zeta only [stepX] at hs
  split at hs
  · cases hs
  rename_i hne
  have hne' : x.sch.schErr = none := by simpa using hne
  cases hst : step f j cl x.sys .endAssign with
  | none => split at hs <;> simp [hst] at hs
  | some s' =>
    split at hs
    · simp -zeta only [hst, Option.map_some, Option.some.injEq] at hs
      subst hs; exact ⟨hne', rfl, rfl⟩
    · simp -zeta only [hst, Option.map_some, Option.some.injEq] at hs
      subst hs; exact ⟨hne', rfl, rfl⟩
    · cases hs

theorem sS1_plan1_spec (f : Sem) (j : Job) (cl : Cluster) (cm : Comps) (x x' : SysX)
    (hs : stepX f j cl cm x (.base .plan1) = some x') :
    x.sch.schErr = none ∧ step f j cl x.sys .plan1 = some x'.sys ∧
    ∃ a prep rest, x.sys.todo = (a, prep) :: rest ∧
      x'.sch = if x'.sys.phase == .crashed then x.sch else sS1_planSch j cm x.sys.ctl x.sch a prep := by
  simp -zeta only [stepX] at hs
  split at hs
  · cases hs
  rename_i hne
  have hne' : x.sch.schErr = none := by simpa using hne
  split at hs
  · cases hs
  · rename_i a prep rest htodo
    cases hst : step f j cl x.sys .plan1 with
    | none => simp [hst] at hs
    | some s' =>
      simp -zeta only [hst, Option.map_some, Option.some.injEq] at hs
      subst hs
      refine ⟨hne', ?_, a, prep, rest, htodo, ?_⟩
      · split <;> rfl
      · split
        · rename_i hc; simp [hc]
        · rename_i hc; simp only [hc]; rfl

theorem sS1_notify1_spec (f : Sem) (j : Job) (cl : Cluster) (cm : Comps) (x x' : SysX)
    (hs : stepX f j cl cm x (.base .notify1) = some x') :
    x.sch.schErr = none ∧ step f j cl x.sys .notify1 = some x'.sys ∧
    ∃ ev rest, x.sys.inbox = ev :: rest ∧
      x'.sch = if x'.sys.phase == .crashed then x.sch else sS1_notifySch cm cl x.sys.ctl x'.sys.ctl x.sch ev := by
  simp -zeta only [stepX] at hs
  split at hs
  · cases hs
  rename_i hne
  have hne' : x.sch.schErr = none := by simpa using hne
  split at hs
  · cases hs
  · rename_i ev rest hin
    cases hst : step f j cl x.sys .notify1 with
    | none => simp [hst] at hs
    | some s' =>
      simp -zeta only [hst, Option.map_some, Option.some.injEq] at hs
      subst hs
      refine ⟨hne', ?_, ev, rest, hin, ?_⟩
      · split
        · rfl
        · cases ev <;> rfl
      · split
        · rename_i hc; simp [hc]
        · rename_i hc
          cases ev <;> simp [hc, sS1_notifySch]

theorem sS1_map_spec (o : Option Sys) (sc : Sch) (x' : SysX)
    (hs : o.map (fun s' => ({ sys := s', sch := sc } : SysX)) = some x') : o = some x'.sys ∧ x'.sch = sc := by
  cases o with
  | none => simp at hs
  | some s' => simp only [Option.map_some, Option.some.injEq] at hs; subst hs; exact ⟨rfl, rfl⟩

theorem sS1_plain_spec (f : Sem) (j : Job) (cl : Cluster) (cm : Comps) (x x' : SysX) (st : Step) (hp : sS1_plain st)
    (hs : stepX f j cl cm x (.base st) = some x') :
    x.sch.schErr = none ∧ step f j cl x.sys st = some x'.sys ∧ x'.sch = x.sch := by
  cases st <;> simp only [sS1_plain] at hp <;> (
    simp -zeta only [stepX] at hs
    split at hs
    · cases hs
    rename_i hne
    have hne' : x.sch.schErr = none := by simpa using hne
    exact ⟨hne', sS1_map_spec _ _ _ hs⟩)

/-- a `.base st` step of the extended system performs `st` on the base part (and needs `schErr = none`) -/
theorem sS1_base_sys (f : Sem) (j : Job) (cl : Cluster) (cm : Comps) (x x' : SysX) (st : Step)
    (hs : stepX f j cl cm x (.base st) = some x') :
    x.sch.schErr = none ∧ step f j cl x.sys st = some x'.sys := by
  cases st with
  | enter => exact ⟨(sS1_enter_spec f j cl cm x x' hs).1, (sS1_enter_spec f j cl cm x x' hs).2.1⟩
  | assign a => exact ⟨(sS1_assign_spec f j cl cm x x' a hs).1, (sS1_assign_spec f j cl cm x x' a hs).2.1⟩
  | endAssign => exact ⟨(sS1_endAssign_spec f j cl cm x x' hs).1, (sS1_endAssign_spec f j cl cm x x' hs).2.1⟩
  | plan1 => exact ⟨(sS1_plan1_spec f j cl cm x x' hs).1, (sS1_plan1_spec f j cl cm x x' hs).2.1⟩
  | notify1 => exact ⟨(sS1_notify1_spec f j cl cm x x' hs).1, (sS1_notify1_spec f j cl cm x x' hs).2.1⟩
  | endPlan =>
    have h := sS1_plain_spec f j cl cm x x' _ (by simp [sS1_plain]) hs
    exact ⟨h.1, h.2.1⟩
  | flushF1 =>
    have h := sS1_plain_spec f j cl cm x x' _ (by simp [sS1_plain]) hs
    exact ⟨h.1, h.2.1⟩
  | endFlushF =>
    have h := sS1_plain_spec f j cl cm x x' _ (by simp [sS1_plain]) hs
    exact ⟨h.1, h.2.1⟩
  | flushP1 =>
    have h := sS1_plain_spec f j cl cm x x' _ (by simp [sS1_plain]) hs
    exact ⟨h.1, h.2.1⟩
  | endFlush =>
    have h := sS1_plain_spec f j cl cm x x' _ (by simp [sS1_plain]) hs
    exact ⟨h.1, h.2.1⟩
  | recv evs =>
    have h := sS1_plain_spec f j cl cm x x' _ (by simp [sS1_plain]) hs
    exact ⟨h.1, h.2.1⟩
  | endNotify =>
    have h := sS1_plain_spec f j cl cm x x' _ (by simp [sS1_plain]) hs
    exact ⟨h.1, h.2.1⟩
  | env es =>
    have h := sS1_plain_spec f j cl cm x x' _ (by simp [sS1_plain]) hs
    exact ⟨h.1, h.2.1⟩

/-- the scheduler-only steps leave the base part alone -/
theorem sS1_sched_sys (f : Sem) (j : Job) (cl : Cluster) (cm : Comps) (x x' : SysX) (st : StepX)
    (hst : ∀ st0, st ≠ .base st0) (hs : stepX f j cl cm x st = some x') :
    x'.sys = x.sys ∧ x'.sch.values = x.sch.values := by
  cases st with
  | base st0 => exact absurd rfl (hst st0)
  | awcBegin c =>
    simp -zeta only [stepX] at hs
    split at hs; · cases hs
    split at hs
    · split at hs
      · cases hs; exact ⟨rfl, rfl⟩
      · cases hs
    · cases hs
  | beginStepII =>
    simp -zeta only [stepX] at hs
    split at hs; · cases hs
    split at hs
    · split at hs
      · cases hs; exact ⟨rfl, rfl⟩
      · dsimp only at hs
        split at hs
        · cases hs; exact ⟨rfl, rfl⟩
        · cases hs; exact ⟨rfl, rfl⟩
    · cases hs
  | migrate h =>
    simp -zeta only [stepX] at hs
    split at hs; · cases hs
    split at hs
    · split at hs
      · cases hs
      · split at hs
        · cases hs
        · cases hs; exact ⟨rfl, rfl⟩
    · cases hs
  | awcEnter =>
    simp -zeta only [stepX] at hs
    split at hs; · cases hs
    split at hs
    · cases hs
      refine ⟨rfl, ?_⟩
      dsimp only
      split <;> rfl
    · cases hs
  | hPhase2 =>
    simp -zeta only [stepX] at hs
    split at hs; · cases hs
    split at hs
    · cases hs
      refine ⟨rfl, ?_⟩
      dsimp only
      split <;> rfl
    · cases hs
  | hEnd =>
    simp -zeta only [stepX] at hs
    split at hs; · cases hs
    split at hs
    · split at hs
      · cases hs
      · split at hs
        · cases hs
          refine ⟨rfl, ?_⟩
          dsimp only
          split <;> rfl
        · split at hs
          · cases hs; exact ⟨rfl, rfl⟩
          · cases hs; exact ⟨rfl, rfl⟩
    · cases hs

/-- **projection**: a step of the extended system is a stutter or a step of the base system -/
theorem sS1_stepX_base (f : Sem) (j : Job) (cl : Cluster) (cm : Comps) (x x' : SysX) (st : StepX)
    (hs : stepX f j cl cm x st = some x') :
    x'.sys = x.sys ∨ ∃ st', step f j cl x.sys st' = some x'.sys := by
  cases st with
  | base st0 => exact Or.inr ⟨st0, (sS1_base_sys f j cl cm x x' st0 hs).2⟩
  | awcBegin c => exact Or.inl (sS1_sched_sys f j cl cm x x' _ (by intro st0 h; cases h) hs).1
  | beginStepII => exact Or.inl (sS1_sched_sys f j cl cm x x' _ (by intro st0 h; cases h) hs).1
  | migrate h => exact Or.inl (sS1_sched_sys f j cl cm x x' _ (by intro st0 h; cases h) hs).1
  | awcEnter => exact Or.inl (sS1_sched_sys f j cl cm x x' _ (by intro st0 h; cases h) hs).1
  | hPhase2 => exact Or.inl (sS1_sched_sys f j cl cm x x' _ (by intro st0 h; cases h) hs).1
  | hEnd => exact Or.inl (sS1_sched_sys f j cl cm x x' _ (by intro st0 h; cases h) hs).1

/-- every reachable state of the extended system projects to a reachable state of the base system -/
theorem sS1_reachableX_base (f : Sem) (j : Job) (cl : Cluster) (cm : Comps) (x : SysX)
    (hr : ReachableX f j cl cm x) : Reachable f j cl x.sys := by
  induction hr with
  | init => exact Reachable.init
  | step x x' st _ hs ih =>
    rcases sS1_stepX_base f j cl cm x x' st hs with h | ⟨st', h⟩
    · rw [h]; exact ih
    · exact Reachable.step x.sys x'.sys st' ih h

/-! ### frames of the base steps on the fields the scheduler tier talks about -/

theorem sS1_plain_frames (f : Sem) (j : Job) (cl : Cluster) (s s' : Sys) (st : Step) (hp : sS1_plain st)
    (hs : step f j cl s st = some s') :
    s'.ctl.dispatched = s.ctl.dispatched ∧ s'.todo = s.todo ∧ s'.ctl.computable = s.ctl.computable ∧
    s'.ctl.idle = s.ctl.idle ∧ s'.ctl.ongoing = s.ctl.ongoing ∧ s'.ctl.ptrack = s.ctl.ptrack ∧
    (s'.phase = s.phase ∨ (s.phase ≠ .assigning ∧ s'.phase ≠ .assigning)) := by
  cases st with
  | enter => simp [sS1_plain] at hp
  | assign a => simp [sS1_plain] at hp
  | endAssign => simp [sS1_plain] at hp
  | plan1 => simp [sS1_plain] at hp
  | notify1 => simp [sS1_plain] at hp
  | endPlan =>
    simp only [step] at hs
    split at hs; · cases hs
    rename_i hc
    simp only [bne_iff_ne, ne_eq, Bool.or_eq_true, not_or, Decidable.not_not] at hc
    cases hs
    exact ⟨rfl, rfl, rfl, rfl, rfl, rfl, Or.inr ⟨by simp [hc.1], by simp⟩⟩
  | endFlushF =>
    simp only [step] at hs
    split at hs; · cases hs
    rename_i hc
    simp only [bne_iff_ne, ne_eq, Bool.or_eq_true, not_or, Decidable.not_not] at hc
    cases hs
    exact ⟨rfl, rfl, rfl, rfl, rfl, rfl, Or.inr ⟨by simp [hc.1], by simp⟩⟩
  | endFlush =>
    simp only [step] at hs
    split at hs; · cases hs
    rename_i hc
    simp only [bne_iff_ne, ne_eq, Bool.or_eq_true, not_or, Decidable.not_not] at hc
    cases hs
    refine ⟨rfl, rfl, rfl, rfl, rfl, rfl, Or.inr ⟨by simp [hc.1], ?_⟩⟩
    dsimp only
    split <;> simp
  | endNotify =>
    simp only [step] at hs
    split at hs; · cases hs
    rename_i hc
    simp only [bne_iff_ne, ne_eq, Bool.or_eq_true, not_or, Decidable.not_not] at hc
    cases hs
    exact ⟨rfl, rfl, rfl, rfl, rfl, rfl, Or.inr ⟨by simp [hc.1], by simp⟩⟩
  | recv evs =>
    simp only [step] at hs
    split at hs; · cases hs
    rename_i hc
    simp only [bne_iff_ne, ne_eq, Bool.or_eq_true, not_or, Decidable.not_not] at hc
    split at hs
    · cases hs
    · cases hs
      exact ⟨rfl, rfl, rfl, rfl, rfl, rfl, Or.inr ⟨by simp [hc.1], by simp⟩⟩
  | env es =>
    simp only [step] at hs
    split at hs; · cases hs
    cases he : envStepP f j s.env es with
    | none => simp [he] at hs
    | some e' =>
      simp only [he, Option.map_some, Option.some.injEq] at hs
      subst hs
      exact ⟨rfl, rfl, rfl, rfl, rfl, rfl, Or.inl rfl⟩
  | flushF1 =>
    simp only [step] at hs
    split at hs; · cases hs
    rename_i hc
    have hph : s.phase = .flushF := by simpa using hc
    split at hs
    · cases hs
    · cases hs
      exact ⟨by simp, rfl, by simp, by simp, by simp, by simp, Or.inl rfl⟩
  | flushP1 =>
    simp only [step] at hs
    split at hs; · cases hs
    rename_i hc
    have hph : s.phase = .flushP := by simpa using hc
    split at hs
    · cases hs
    · split at hs
      · cases hs
      · cases hs
        exact ⟨rfl, rfl, rfl, rfl, rfl, rfl, Or.inr ⟨by simp [hph], by simp [Sys.crash]⟩⟩
      · rename_i c2 cmds hph2
        cases hs
        exact ⟨by simpa using purgeHosts_dispatched _ _ _ _ _ _ hph2, rfl,
          by simpa using purgeHosts_computable _ _ _ _ _ _ hph2, by simpa using purgeHosts_idle _ _ _ _ _ _ hph2,
          by simpa using purgeHosts_ongoing _ _ _ _ _ _ hph2, by simpa using purgeHosts_ptrack _ _ _ _ _ _ hph2,
          Or.inl rfl⟩

end EkwVerif.Ctrl
