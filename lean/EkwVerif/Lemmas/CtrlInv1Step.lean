import EkwVerif.Lemmas.CtrlInv1

namespace EkwVerif.Ctrl

theorem planOne_frames (j : Job) (c c' : Ctl) (a : Asg) (prep : List (Ds × Host)) (h : planOne j c a prep = .ok c') :
    c'.computable = c.computable ∧ c'.dispatched = c.dispatched ∧ c'.tracked = c.tracked ∧ c'.tracker = c.tracker ∧
    c'.idle = c.idle ∧ c'.ongoing = c.ongoing ++ [(a.worker, a.task)] ∧ (a.worker, a.task) ∉ c.ongoing := by
  have fold : ∀ (l : List Ds) (w : Worker) (c0 : Ctl),
      let r := l.foldl (fun c ds => setPreparingAt c ds w) c0
      r.computable = c0.computable ∧ r.dispatched = c0.dispatched ∧ r.tracked = c0.tracked ∧ r.tracker = c0.tracker
      ∧ r.idle = c0.idle ∧ r.ongoing = c0.ongoing := by
    intro l w
    induction l with
    | nil => intro c0; simp
    | cons x l ih => intro c0; simp only [List.foldl_cons]; have := ih (setPreparingAt c0 x w); simpa using this
  have fold2 : ∀ (l : List (Ds × Host)) (w : Worker) (c0 : Ctl),
      let r := l.foldl (fun c p => setPreparingAt c p.1 w) c0
      r.computable = c0.computable ∧ r.dispatched = c0.dispatched ∧ r.tracked = c0.tracked ∧ r.tracker = c0.tracker
      ∧ r.idle = c0.idle ∧ r.ongoing = c0.ongoing := by
    intro l w
    induction l with
    | nil => intro c0; simp
    | cons x l ih => intro c0; simp only [List.foldl_cons]; have := ih (setPreparingAt c0 x.1 w); simpa using this
  unfold planOne at h
  split at h
  · cases h
  · dsimp only at h
    split at h
    · cases h
    · rename_i hno
      simp only [Except.ok.injEq] at h
      subst h
      have h1 := fold2 prep a.worker c
      have h2 := fold (j.outputsOf a.task) a.worker (prep.foldl (fun c p => setPreparingAt c p.1 a.worker) c)
      dsimp only at h1 h2
      obtain ⟨a1, a2, a3, a4, a5, a6⟩ := h1
      obtain ⟨b1, b2, b3, b4, b5, b6⟩ := h2
      refine ⟨by simp [b1, a1], by simp [b2, a2], by simp [b3, a3], by simp [b4, a4], by simp [b5, a5], by simp [b6, a6], ?_⟩
      rw [b6, a6] at hno
      simpa using hno

theorem notifyEvent_workers (j : Job) (c c' : Ctl) (ev : Event) (h : notifyEvent j c ev = .ok c') :
    c'.dispatched = c.dispatched ∧
    ((c'.idle = c.idle ∧ c'.ongoing = c.ongoing) ∨
     (∃ w t, (w, t) ∈ c.ongoing ∧ c'.ongoing = c.ongoing.erase (w, t) ∧
        c'.idle = (if (c.ongoing.erase (w, t)).any (·.1 == w) || c.idle.contains w then c.idle else c.idle ++ [w]) ∧
        ∃ ds, ev = Event.pubW w ds ∧ ds.task = t)) := by
  cases ev with
  | payload ds v => simp only [notifyEvent, Except.ok.injEq] at h; subst h; exact ⟨rfl, Or.inl ⟨rfl, rfl⟩⟩
  | pubT hst ds => simp only [notifyEvent, Except.ok.injEq] at h; subst h; exact ⟨by simp, Or.inl ⟨by simp, by simp⟩⟩
  | pubW w ds =>
    simp only [notifyEvent] at h
    split at h
    · split at h
      · cases h
      · rename_i c2 hc2
        have e1 := completeInputs_dispatched _ _ _ _ _ hc2
        have e2 := completeInputs_idle _ _ _ _ _ hc2
        have e3 := completeInputs_ongoing _ _ _ _ _ hc2
        simp only [markPublished_dispatched, markPublished_idle, markPublished_ongoing,
          considerComputable_dispatched, considerFetch_dispatched, markAvailable_dispatched,
          considerComputable_idle, considerFetch_idle, markAvailable_idle,
          considerComputable_ongoing, considerFetch_ongoing, markAvailable_ongoing] at e1 e2 e3
        split at h
        · rename_i hin
          simp only [Except.ok.injEq] at h; subst h
          refine ⟨e1, Or.inr ⟨w, ds.task, ?_, ?_, ?_, ds, rfl, rfl⟩⟩
          · rw [← e3]; simpa using hin
          · simp [e3]
          · simp only [e2, e3]
        · cases h
    · simp only [Except.ok.injEq] at h; subst h
      exact ⟨by simp, Or.inl ⟨by simp, by simp⟩⟩

theorem inv1_step (f : Sem) (j : Job) (cl : Cluster) (s s' : Sys) (st : Step)
    (h : Inv1 cl s) (hs : step f j cl s st = some s') : Inv1 cl s' := by
  cases st with
  | enter =>
    simp only [step] at hs
    split at hs; · cases hs
    rename_i hp
    have hp' : s.phase = .top := by simpa using hp
    have htodo : s.todo = [] := h.todo_phase (by simp [hp']) (by simp [hp']) (by simp [hp'])
    split at hs
    · cases hs
      exact h.congr h.once rfl rfl rfl rfl rfl rfl (fun _ _ he => he) (fun _ _ _ => htodo) (fun _ _ hv => hv) h.no_double_add
    · cases hs
      exact h.congr h.once rfl rfl rfl rfl (by simp [htodo]) rfl (fun _ _ he => he) (fun _ _ _ => htodo) (fun _ _ hv => hv) h.no_double_add
  | endAssign =>
    simp only [step] at hs
    split at hs; · cases hs
    cases hs
    exact h.congr h.once rfl rfl rfl rfl rfl rfl (fun _ _ he => he) (fun _ h2 _ => absurd rfl h2) (fun _ _ hv => hv) h.no_double_add
  | endPlan =>
    simp only [step] at hs
    split at hs; · cases hs
    rename_i hc
    cases hs
    have : s.todo = [] := by
      simp only [bne_iff_ne, ne_eq, Bool.not_eq_true', Bool.or_eq_true, not_or, Decidable.not_not] at hc
      simpa using hc.2
    exact h.congr h.once rfl rfl rfl rfl rfl rfl (fun _ _ he => he) (fun _ _ _ => this) (fun _ _ hv => hv) h.no_double_add
  | endFlushF =>
    simp only [step] at hs
    split at hs; · cases hs
    rename_i hc
    cases hs
    have hp : s.phase = .flushF := by
      simp only [bne_iff_ne, ne_eq, Bool.or_eq_true, not_or, Decidable.not_not] at hc; simpa using hc.1
    have : s.todo = [] := h.todo_phase (by simp [hp]) (by simp [hp]) (by simp [hp])
    exact h.congr h.once rfl rfl rfl rfl rfl rfl (fun _ _ he => he) (fun _ _ _ => this) (fun _ _ hv => hv) h.no_double_add
  | endFlush =>
    simp only [step] at hs
    split at hs; · cases hs
    rename_i hc
    cases hs
    have hp : s.phase = .flushP := by
      simp only [bne_iff_ne, ne_eq, Bool.or_eq_true, not_or, Decidable.not_not] at hc; simpa using hc.1
    have : s.todo = [] := h.todo_phase (by simp [hp]) (by simp [hp]) (by simp [hp])
    exact h.congr h.once rfl rfl rfl rfl rfl rfl (fun _ _ he => he) (fun _ _ _ => this) (fun _ _ hv => hv) h.no_double_add
  | endNotify =>
    simp only [step] at hs
    split at hs; · cases hs
    rename_i hc
    cases hs
    have hp : s.phase = .notifying := by
      simp only [bne_iff_ne, ne_eq, Bool.or_eq_true, not_or, Decidable.not_not] at hc; simpa using hc.1
    have : s.todo = [] := h.todo_phase (by simp [hp]) (by simp [hp]) (by simp [hp])
    exact h.congr h.once rfl rfl rfl rfl rfl rfl (fun _ _ he => he) (fun _ _ _ => this) (fun _ _ hv => hv) h.no_double_add
  | recv evs =>
    simp only [step] at hs
    split at hs; · cases hs
    rename_i hc
    have hp : s.phase = .waiting := by
      simp only [bne_iff_ne, ne_eq, Bool.or_eq_true, not_or, Decidable.not_not] at hc; simpa using hc.1
    have htodo : s.todo = [] := h.todo_phase (by simp [hp]) (by simp [hp]) (by simp [hp])
    have hinb : True := trivial
    split at hs
    · cases hs
    · rename_i pend htk
      cases hs
      have md : ∀ (l : List Event) (e : Env), (markDelivered e l).queued = e.queued ∧
          (markDelivered e l).dispatchedE = e.dispatchedE ∧ (markDelivered e l).viol = e.viol ∧
          (markDelivered e l).pending = e.pending ∧ (markDelivered e l).trimmed = e.trimmed := by
        intro l
        induction l with
        | nil => intro e; simp [markDelivered]
        | cons x l ih =>
          intro e
          simp only [markDelivered, List.foldl_cons] at ih ⊢
          cases x <;> simp [ih]
      have hsub := takeEvents_sub evs s.env.pending pend htk
      refine h.congr h.once rfl ?_ rfl rfl rfl ?_ ?_ (fun _ _ _ => htodo) ?_ h.no_double_add ?_
      · simp [(md _ _).2.1]
      · simp [(md _ _).1]
      · intro w ds he
        simp only [(md _ _).2.2.2.1] at he
        exact List.mem_append.mpr (Or.inr (hsub _ he))
      · intro m _ hv; simpa [(md _ _).2.2.1] using hv
      · simp [(md _ _).2.2.2.2]
  | env es =>
    simp only [step] at hs
    split at hs; · cases hs
    rw [envStepP_eq f j s.env es h.no_trim] at hs
    cases he : envStep f j s.env es with
    | none => simp [he] at hs
    | some e' =>
      simp only [he, Option.map_some, Option.some.injEq] at hs
      subst hs
      obtain ⟨t1, t2, t3⟩ := envStep_tier1 f j s.env e' es he
      have htr := (envStep_trimmed f j s.env e' es he).1
      have hfl : ∀ w t, Sys.inFlight { s with env := e' } w t ↔ s.inFlight w t := by
        intro w t; simp [Sys.inFlight, Sys.todoPairs]
      rcases t3 with ⟨w, t, hq, hq', hpend⟩ | ⟨hq', hpend⟩
      · refine ⟨h.once, ?_, h.idle_nodup, ?_, h.idle_known, ?_, ?_, ?_, ?_, ?_, ?_, h.todo_phase, h.todo_nodup,
          h.todo_not_ongoing, t2 _ (Or.inl rfl) h.no_dd, t2 _ (Or.inr (Or.inl rfl)) h.no_busy,
          t2 _ (Or.inr (Or.inr (Or.inl rfl))) h.no_unknown, t2 _ (Or.inr (Or.inr (Or.inr rfl))) h.no_gpu,
          h.no_double_add, fun w' t' hq2 => by
            simp only [hq'] at hq2; simp only [htr]; exact h.no_trim w' t' (List.mem_of_mem_erase hq2)⟩
        · intro t'; simp only [t1]; exact h.disp_eq t'
        · intro w' hw' t'; rw [hfl]; exact h.idle_free w' hw' t'
        · intro w' t' hf; exact h.flight_known w' t' ((hfl w' t').mp hf)
        · intro w' t' hf; exact h.flight_disp w' t' ((hfl w' t').mp hf)
        · intro w' t' hq2; rw [hfl]; simp only [hq'] at hq2; exact h.queued_flight w' t' (List.mem_of_mem_erase hq2)
        · simp only [hq']; exact h.queued_nodup.erase _
        · intro w' ds hev
          simp only [List.mem_append] at hev
          rcases hev with hev | hev
          · exact h.ev_disp w' ds (List.mem_append.mpr (Or.inl hev))
          · rcases hpend _ hev with hev | ⟨ds', heq, htask⟩
            · exact h.ev_disp w' ds (List.mem_append.mpr (Or.inr hev))
            · simp only [Event.pubW.injEq] at heq
              obtain ⟨rfl, rfl⟩ := heq
              rw [htask]
              exact h.flight_disp _ t (h.queued_flight _ t hq)
        · intro w' ds hev
          simp only [hq']
          simp only [List.mem_append] at hev
          have hold : Event.pubW w' ds ∈ s.inbox ++ s.env.pending → (w', ds.task) ∉ s.env.queued.erase (w, t) :=
            fun hx hm => h.ev_not_queued w' ds hx (List.mem_of_mem_erase hm)
          rcases hev with hev | hev
          · exact hold (List.mem_append.mpr (Or.inl hev))
          · rcases hpend _ hev with hev | ⟨ds', heq, htask⟩
            · exact hold (List.mem_append.mpr (Or.inr hev))
            · simp only [Event.pubW.injEq] at heq
              obtain ⟨rfl, rfl⟩ := heq
              rw [htask]
              exact List.Nodup.not_mem_erase h.queued_nodup
      · refine h.congr h.once rfl t1 rfl rfl rfl hq' ?_ (fun h1 h2 h3 => h.todo_phase h1 h2 h3) t2 h.no_double_add htr
        intro w ds hev
        simp only [List.mem_append] at hev ⊢
        rcases hev with hev | hev
        · exact Or.inl hev
        · rcases hpend _ hev with hev | hne
          · exact Or.inr hev
          · exact absurd rfl (hne w ds)
  | flushF1 =>
    simp only [step] at hs
    split at hs; · cases hs
    rename_i hc
    have hp : s.phase = .flushF := by simpa using hc
    have htodo : s.todo = [] := h.todo_phase (by simp [hp]) (by simp [hp]) (by simp [hp])
    split at hs
    · cases hs
    · rename_i ds hst rest hq
      cases hs
      have nt := applyCmd_queued_notTask j cl s.env (.fetch ds hst) (by intro w t pb; simp)
      refine h.congr (h.once.congr (by simp) (by simp) (by simp) (by simp)) (by simp) nt.2 (by simp) (by simp) rfl
        nt.1 ?_ (fun _ _ _ => htodo) ?_ h.no_double_add
        (applyCmd_trimmed_notTask j cl s.env (.fetch ds hst) (by intro w t pb; simp)).1
      · intro w d he; simpa [applyCmd] using he
      · intro m hm hv
        exact applyCmd_viol_c02_notTask j cl s.env _ (by intro w t pb; simp) m hm hv
  | flushP1 =>
    simp only [step] at hs
    split at hs; · cases hs
    rename_i hc
    have hp : s.phase = .flushP := by simpa using hc
    have htodo : s.todo = [] := h.todo_phase (by simp [hp]) (by simp [hp]) (by simp [hp])
    split at hs
    · cases hs
    · rename_i ds rest hq
      split at hs
      · cases hs
      · rename_i e he
        cases hs
        have := purgeHosts_err _ _ _ _ _ he
        simp only [Err.raised.injEq] at this
        refine ⟨h.once, h.disp_eq, h.idle_nodup, h.idle_free, h.idle_known, h.flight_known, h.flight_disp,
          h.queued_flight, h.queued_nodup, h.ev_disp, h.ev_not_queued, ?_, h.todo_nodup, h.todo_not_ongoing,
          h.no_dd, h.no_busy, h.no_unknown, h.no_gpu, ?_, h.no_trim⟩
        · intro _ _ _; exact htodo
        · simp [Sys.crash, this]
      · rename_i c2 cmds hph
        cases hs
        have hcm := purgeHosts_cmds cl ds cl.hosts s.ctl c2 cmds hph
        have nt := applyCmds_notTask j cl cmds s.env (by
          intro cmd hm w t pb; obtain ⟨hh, rfl⟩ := hcm cmd hm; simp)
        have ntr := applyCmds_trimmed_notTask j cl cmds s.env (by
          intro cmd hm w t pb; obtain ⟨hh, rfl⟩ := hcm cmd hm; simp)
        have hpend : (applyCmds j cl s.env cmds).pending = s.env.pending := by
          clear nt
          have : ∀ (l : List Cmd) (e : Env), (∀ cmd ∈ l, ∃ h, cmd = Cmd.purge h ds) →
              (applyCmds j cl e l).pending = e.pending := by
            intro l
            induction l with
            | nil => intro e _; rfl
            | cons x l ih =>
              intro e hl
              simp only [applyCmds, List.foldl_cons] at ih ⊢
              rw [ih _ (fun c hc => hl c (by simp [hc]))]
              obtain ⟨hh, rfl⟩ := hl x (by simp)
              simp [applyCmd]
          exact this cmds s.env hcm
        refine h.congr (h.once.congr ?_ ?_ ?_ ?_) ?_ nt.2.1 ?_ ?_ rfl nt.1 ?_ (fun _ _ _ => htodo) nt.2.2 h.no_double_add ntr.1
        · simpa using purgeHosts_computable _ _ _ _ _ _ hph
        · simpa using purgeHosts_dispatched _ _ _ _ _ _ hph
        · simpa using purgeHosts_tracked _ _ _ _ _ _ hph
        · simpa using purgeHosts_tracker _ _ _ _ _ _ hph
        · simpa using purgeHosts_dispatched _ _ _ _ _ _ hph
        · simpa using purgeHosts_idle _ _ _ _ _ _ hph
        · simpa using purgeHosts_ongoing _ _ _ _ _ _ hph
        · intro w d he; simpa [hpend] using he
  | plan1 =>
    simp only [step] at hs
    split at hs; · cases hs
    rename_i hc
    have hp : s.phase = .planning := by simpa using hc
    split at hs
    · cases hs
    · rename_i a prep rest htd
      split at hs
      · cases hs
      · rename_i e he
        cases hs
        have hne : e ≠ "ValueError: double add" := by
          intro heq; subst heq
          unfold planOne at he
          split at he
          · simp at he
          · dsimp only at he
            split at he
            · rename_i hin
              have hmem : (a.worker, a.task) ∈ s.todoPairs := by simp [Sys.todoPairs, htd]
              have hno := h.todo_not_ongoing _ hmem
              have fold : ∀ (l : List Ds) (w : Worker) (c0 : Ctl),
                  (l.foldl (fun c ds => setPreparingAt c ds w) c0).ongoing = c0.ongoing := by
                intro l w; induction l with
                | nil => intro c0; rfl
                | cons x l ih => intro c0; simp only [List.foldl_cons]; rw [ih]; simp
              have fold2 : ∀ (l : List (Ds × Host)) (w : Worker) (c0 : Ctl),
                  (l.foldl (fun c p => setPreparingAt c p.1 w) c0).ongoing = c0.ongoing := by
                intro l w; induction l with
                | nil => intro c0; rfl
                | cons x l ih => intro c0; simp only [List.foldl_cons]; rw [ih]; simp
              rw [fold, fold2] at hin
              exact hno (by simpa using hin)
            · cases he
        refine ⟨h.once, h.disp_eq, h.idle_nodup, h.idle_free, h.idle_known, h.flight_known, h.flight_disp,
          h.queued_flight, h.queued_nodup, h.ev_disp, h.ev_not_queued, ?_, h.todo_nodup, h.todo_not_ongoing,
          h.no_dd, h.no_busy, h.no_unknown, h.no_gpu, ?_, h.no_trim⟩
        · intro _ _ h3; simp [Sys.crash] at h3
        · simp only [Sys.crash, ne_eq, Option.some.injEq]; exact hne
      · rename_i c2 hpl
        cases hs
        obtain ⟨f1, f2, f3, f4, f5, f6, f7⟩ := planOne_frames j s.ctl c2 a prep hpl
        have hfl : ∀ w t, Sys.inFlight { s with ctl := c2, todo := rest } w t ↔ s.inFlight w t := by
          intro w t
          simp only [Sys.inFlight, Sys.todoPairs, f6, htd, List.map_cons, List.mem_append, List.mem_singleton,
            List.mem_cons]
          grind
        have hnd := h.todo_nodup
        simp only [Sys.todoPairs, htd, List.map_cons, List.nodup_cons] at hnd
        refine ⟨h.once.congr f1 f2 f3 f4, ?_, ?_, ?_, ?_, ?_, ?_, ?_, h.queued_nodup, ?_, h.ev_not_queued, ?_, ?_, ?_,
          h.no_dd, h.no_busy, h.no_unknown, h.no_gpu, h.no_double_add, h.no_trim⟩
        · intro t; simp only [f2]; exact h.disp_eq t
        · simp only [f5]; exact h.idle_nodup
        · intro w hw t; rw [hfl]; simp only [f5] at hw; exact h.idle_free w hw t
        · intro w hw; simp only [f5] at hw; exact h.idle_known w hw
        · intro w t hf; exact h.flight_known w t ((hfl w t).mp hf)
        · intro w t hf; simp only [f2]; exact h.flight_disp w t ((hfl w t).mp hf)
        · intro w t hq; rw [hfl]; exact h.queued_flight w t hq
        · intro w ds he; simp only [f2]; exact h.ev_disp w ds he
        · intro h1 h2 _; simp only at h1 h2; exact absurd hp h2
        · simp only [Sys.todoPairs]; exact hnd.2
        · intro p hp'
          simp only [Sys.todoPairs] at hp'
          simp only [f6, List.mem_append, List.mem_singleton, not_or]
          refine ⟨h.todo_not_ongoing p (by simp [Sys.todoPairs, htd, hp']), ?_⟩
          intro heq; subst heq; exact hnd.1 hp'
  | notify1 =>
    simp only [step] at hs
    split at hs; · cases hs
    rename_i hc
    have hp : s.phase = .notifying := by simpa using hc
    have htodo : s.todo = [] := h.todo_phase (by simp [hp]) (by simp [hp]) (by simp [hp])
    split at hs
    · cases hs
    · rename_i ev rest hib
      have hevsub : ∀ w ds, Event.pubW w ds ∈ rest ++ s.env.pending → Event.pubW w ds ∈ s.inbox ++ s.env.pending := by
        intro w ds he
        rw [hib]
        simp only [List.mem_append, List.mem_cons] at he ⊢
        rcases he with he | he
        · exact Or.inl (Or.inr he)
        · exact Or.inr he
      split at hs
      · cases hs
      · rename_i e he
        cases hs
        have hne : e ≠ "ValueError: double add" := by
          intro heq; subst heq
          cases ev with
          | payload ds v => simp [notifyEvent] at he
          | pubT a ds => simp [notifyEvent] at he
          | pubW w ds =>
            simp only [notifyEvent] at he
            split at he
            · split at he
              · rename_i e2 hci
                simp only [Except.error.injEq] at he
                subst he
                have : ∀ (l : List Ds) (c0 : Ctl) (e : Err), completeInputs j ds.task c0 l = .error e →
                    e = .raised "KeyError: purging_tracker removal" := by
                  intro l
                  induction l with
                  | nil => intro c0 e h0; simp [completeInputs] at h0
                  | cons x l ih =>
                    intro c0 e h0
                    unfold completeInputs at h0
                    split at h0
                    · exact ih _ _ h0
                    · simp only [Except.error.injEq] at h0; exact h0.symm
                have := this _ _ _ hci
                simp at this
              · split at he
                · cases he
                · simp at he
            · cases he
        refine ⟨h.once, h.disp_eq, h.idle_nodup, h.idle_free, h.idle_known, h.flight_known, h.flight_disp,
          h.queued_flight, h.queued_nodup, ?_, ?_, ?_, h.todo_nodup, h.todo_not_ongoing, h.no_dd, h.no_busy,
          h.no_unknown, h.no_gpu, ?_, h.no_trim⟩
        · intro w ds he2; exact h.ev_disp w ds (hevsub w ds he2)
        · intro w ds he2; exact h.ev_not_queued w ds (hevsub w ds he2)
        · intro _ _ _; exact htodo
        · simp only [Sys.crash, ne_eq, Option.some.injEq]; exact hne
      · rename_i c2 hne
        cases hs
        have ho := once_notifyEvent j s.ctl c2 ev h.once hne
        obtain ⟨hd, hw⟩ := notifyEvent_workers j s.ctl c2 ev hne
        rcases hw with ⟨hi, hon⟩ | ⟨w, t, hmem, hon, hi, hevw⟩
        · exact h.congr ho hd rfl hi hon rfl rfl hevsub (fun _ _ _ => htodo) (fun _ _ hv => hv) h.no_double_add
        · have hsub : ∀ p, p ∈ c2.ongoing → p ∈ s.ctl.ongoing := by
            intro p hp'; rw [hon] at hp'; exact List.mem_of_mem_erase hp'
          have hfl : ∀ w' t', Sys.inFlight { s with ctl := c2, inbox := rest } w' t' → s.inFlight w' t' := by
            intro w' t' hf
            simp only [Sys.inFlight, Sys.todoPairs] at hf ⊢
            rcases hf with hf | hf
            · exact Or.inl (hsub _ hf)
            · exact Or.inr hf
          -- the completed pair is not queued (its last-output event was pending)
          have hnq : (w, t) ∉ s.env.queued := by
            obtain ⟨ds, rfl, rfl⟩ := hevw
            exact h.ev_not_queued w ds (by rw [hib]; simp)
          refine ⟨ho, ?_, ?_, ?_, ?_, ?_, ?_, ?_, h.queued_nodup, ?_, ?_, ?_, h.todo_nodup, ?_, h.no_dd, h.no_busy,
            h.no_unknown, h.no_gpu, h.no_double_add, h.no_trim⟩
          · intro t'; simp only [hd]; exact h.disp_eq t'
          · simp only [hi]
            split
            · exact h.idle_nodup
            · rename_i hcond
              simp only [Bool.or_eq_true, not_or, Bool.not_eq_true] at hcond
              exact List.nodup_append.mpr ⟨h.idle_nodup, by simp, by
                intro a ha b hb; simp at hb; subst hb; intro he; subst he
                have := hcond.2; simp at this; exact this ha⟩
          · intro w' hw' t' hf
            simp only [hi] at hw'
            split at hw'
            · exact h.idle_free w' hw' t' (hfl w' t' hf)
            · rename_i hcond
              simp only [Bool.or_eq_true, not_or, Bool.not_eq_true] at hcond
              rcases List.mem_append.mp hw' with hw' | hw'
              · exact h.idle_free w' hw' t' (hfl w' t' hf)
              · simp only [List.mem_singleton] at hw'; subst hw'
                simp only [Sys.inFlight, Sys.todoPairs, htodo, List.map_nil, List.not_mem_nil, or_false] at hf
                rw [hon] at hf
                have := hcond.1
                simp only [List.any_eq_false, beq_iff_eq] at this
                exact this _ hf rfl
          · intro w' hw'
            simp only [hi] at hw'
            split at hw'
            · exact h.idle_known w' hw'
            · rcases List.mem_append.mp hw' with hw' | hw'
              · exact h.idle_known w' hw'
              · simp only [List.mem_singleton] at hw'; subst hw'
                exact h.flight_known w' t (Or.inl hmem)
          · intro w' t' hf; exact h.flight_known w' t' (hfl w' t' hf)
          · intro w' t' hf; simp only [hd]; exact h.flight_disp w' t' (hfl w' t' hf)
          · intro w' t' hq
            have hfl0 := h.queued_flight w' t' hq
            simp only [Sys.inFlight, Sys.todoPairs, htodo, List.map_nil, List.not_mem_nil, or_false] at hfl0 ⊢
            rw [hon]
            have hne2 : (w', t') ≠ (w, t) := by intro heq; rw [heq] at hq; exact hnq hq
            exact (List.mem_erase_of_ne hne2).mpr hfl0
          · intro w' ds he2; simp only [hd]; exact h.ev_disp w' ds (hevsub w' ds he2)
          · intro w' ds he2; exact h.ev_not_queued w' ds (hevsub w' ds he2)
          · intro _ _ _; exact htodo
          · intro p hp'; simp only [Sys.todoPairs, htodo] at hp'; simp at hp'
  | assign a =>
    simp only [step] at hs
    split at hs; · cases hs
    rename_i hc
    have hp : s.phase = .assigning := by
      simp only [bne_iff_ne, ne_eq, Bool.or_eq_true, not_or, Decidable.not_not] at hc; simpa using hc.1
    split at hs
    · cases hs
    · rename_i e he
      cases hs
      have hne : e ≠ "ValueError: double add" := by
        intro heq; subst heq
        unfold assignOne at he
        split at he; · cases he
        split at he; · cases he
        split at he; · cases he
        split at he
        · rename_i e2 hb
          simp only [Except.error.injEq] at he; subst he
          have : ∀ (l : List Ds) (c0 : Ctl) (e : Err), buildPrep cl a.worker a.cands c0 l = .error e →
              e ≠ .raised "ValueError: double add" := by
            intro l
            induction l with
            | nil => intro c0 e h0; simp [buildPrep] at h0
            | cons x l ih =>
              intro c0 e h0
              unfold buildPrep at h0
              split at h0
              · exact ih _ _ h0
              · split at h0
                · split at h0
                  · rename_i e3 h3; simp only [Except.error.injEq] at h0; subst h0; exact ih _ _ h3
                  · cases h0
                · split at h0
                  · split at h0
                    · dsimp only at h0
                      split at h0
                      · rename_i e3 h3; simp only [Except.error.injEq] at h0; subst h0; exact ih _ _ h3
                      · cases h0
                    · simp only [Except.error.injEq] at h0; subst h0; simp
                  · split at h0 <;> (simp only [Except.error.injEq] at h0; subst h0; simp)
          exact this _ _ _ hb rfl
        · cases he
      refine ⟨h.once, h.disp_eq, h.idle_nodup, h.idle_free, h.idle_known, h.flight_known, h.flight_disp,
        h.queued_flight, h.queued_nodup, h.ev_disp, h.ev_not_queued, ?_, h.todo_nodup, h.todo_not_ongoing,
        h.no_dd, h.no_busy, h.no_unknown, h.no_gpu, ?_, h.no_trim⟩
      · intro _ _ h3; simp [Sys.crash] at h3
      · simp only [Sys.crash, ne_eq, Option.some.injEq]; exact hne
    · rename_i c2 prep has
      cases hs
      obtain ⟨ho, hd0, hd', hcomp, hidle, hi', hon', hgpu⟩ := once_assignOne j cl s.ctl c2 a prep h.once has
      -- the commands: transmits then the task sequence
      have hcm : ∀ cmd ∈ (prep.filter (fun p => p.2 != a.worker.host)).map (fun p => Cmd.transmit p.1 p.2 a.worker.host),
          ∀ w t pb, cmd ≠ .taskSeq w t pb := by
        intro cmd hm w t pb
        simp only [List.mem_map] at hm
        obtain ⟨p, _, rfl⟩ := hm
        simp
      have nt := applyCmds_notTask j cl _ s.env hcm
      have ntr := applyCmds_trimmed_notTask j cl _ s.env hcm
      have hpend : ∀ (l : List Cmd) (e : Env), (applyCmds j cl e l).pending = e.pending := by
        intro l
        induction l with
        | nil => intro e; rfl
        | cons x l ih =>
          intro e
          simp only [applyCmds, List.foldl_cons] at ih ⊢
          rw [ih]
          cases x <;> simp [applyCmd]
      have henv : applyCmds j cl s.env (actCmds j a prep) =
          applyCmd j cl (applyCmds j cl s.env ((prep.filter (fun p => p.2 != a.worker.host)).map
            (fun p => Cmd.transmit p.1 p.2 a.worker.host))) (.taskSeq a.worker a.task (asgOutputs j a.task)) := by
        simp [applyCmds, actCmds, List.foldl_append]
      generalize hE : applyCmds j cl s.env ((prep.filter (fun p => p.2 != a.worker.host)).map
            (fun p => Cmd.transmit p.1 p.2 a.worker.host)) = e1 at henv nt ntr
      have hq1 : e1.queued = s.env.queued := nt.1
      have htr2 : (applyCmd j cl e1 (.taskSeq a.worker a.task (asgOutputs j a.task))).trimmed = upd s.env.trimmed a.task false := by
        have hcov : publishCovers j a.task (asgOutputs j a.task) = true := by
          simp [publishCovers, asgOutputs]
        simp [applyCmd, ntr.1, hcov]
      have hde1 : e1.dispatchedE = s.env.dispatchedE := nt.2.1
      have hpe1 : e1.pending = s.env.pending := by rw [← hE]; exact hpend _ _
      have hnotfl : ∀ t, ¬ s.inFlight a.worker t := h.idle_free a.worker hidle
      have hnq : ∀ t, (a.worker, t) ∉ s.env.queued := fun t hq => hnotfl t (h.queued_flight _ _ hq)
      have hnf : ∀ w, ¬ s.inFlight w a.task := by
        intro w hf
        have := h.flight_disp w a.task hf
        omega
      have hq2 : (applyCmd j cl e1 (.taskSeq a.worker a.task (asgOutputs j a.task))).queued = s.env.queued ++ [(a.worker, a.task)] := by
        simp [applyCmd, hq1]
      have hde2 : (applyCmd j cl e1 (.taskSeq a.worker a.task (asgOutputs j a.task))).dispatchedE = upd s.env.dispatchedE a.task (s.env.dispatchedE a.task + 1) := by
        simp [applyCmd, hde1]
      have hpe2 : (applyCmd j cl e1 (.taskSeq a.worker a.task (asgOutputs j a.task))).pending = s.env.pending := by
        simp [applyCmd, hpe1]
      have hfl : ∀ w t, Sys.inFlight { s with ctl := c2, env := applyCmds j cl s.env (actCmds j a prep), todo := s.todo ++ [(a, prep)] } w t ↔
          (s.inFlight w t ∨ (w, t) = (a.worker, a.task)) := by
        intro w t
        simp only [Sys.inFlight, Sys.todoPairs, hon', List.map_append, List.map_cons, List.map_nil, List.mem_append,
          List.mem_singleton]
        constructor
        · rintro (h1 | h1 | h1)
          · exact Or.inl (Or.inl h1)
          · exact Or.inl (Or.inr h1)
          · exact Or.inr h1
        · rintro ((h1 | h1) | h1)
          · exact Or.inl h1
          · exact Or.inr (Or.inl h1)
          · exact Or.inr (Or.inr h1)
      have hviol : ∀ m, (m = "C02 double-dispatch" ∨ m = "C02 busy-worker" ∨ m = "C02 unknown-worker" ∨ m = "C02 gpu") →
          m ∉ s.env.viol → m ∉ (applyCmd j cl e1 (.taskSeq a.worker a.task (asgOutputs j a.task))).viol := by
        intro m hm hv
        have hv1 := nt.2.2 m hm hv
        rw [mem_viol_taskSeq]
        have k1 : a.worker ∈ cl.ids := h.idle_known a.worker hidle
        have k2 : (!(e1.queued.any (·.1 == a.worker))) = true := by
          rw [hq1]
          simp only [Bool.not_eq_true', List.any_eq_false, beq_iff_eq]
          intro p hp' heq
          exact hnq p.2 (by rw [← heq]; exact hp')
        have k3 : (e1.dispatchedE a.task == 0) = true := by
          rw [hde1, h.disp_eq, hd0]; rfl
        have k4 : (!(j.gpu a.task) || cl.hasGpu a.worker) = true := by
          cases hg : j.gpu a.task with
          | false => simp
          | true => simp [hgpu hg]
        rcases hm with rfl | rfl | rfl | rfl <;> simp [hv1, k1, k2, k3, k4]
      rw [henv]
      refine ⟨ho, ?_, ?_, ?_, ?_, ?_, ?_, ?_, ?_, ?_, ?_, ?_, ?_, ?_, hviol _ (Or.inl rfl) h.no_dd,
        hviol _ (Or.inr (Or.inl rfl)) h.no_busy, hviol _ (Or.inr (Or.inr (Or.inl rfl))) h.no_unknown,
        hviol _ (Or.inr (Or.inr (Or.inr rfl))) h.no_gpu, h.no_double_add, ?_⟩
      · intro t
        simp only [hde2, hd']
        by_cases ht : t = a.task
        · subst ht; simp [h.disp_eq, hd0]
        · simp [upd_other _ _ _ _ ht, h.disp_eq]
      · simp only [hi']; exact h.idle_nodup.erase _
      · intro w hw t
        simp only [hi'] at hw
        rw [← henv, hfl]
        rintro (hf | heq)
        · exact h.idle_free w (List.mem_of_mem_erase hw) t hf
        · simp only [Prod.mk.injEq] at heq
          obtain ⟨rfl, _⟩ := heq
          exact (List.Nodup.not_mem_erase h.idle_nodup) hw
      · intro w hw; simp only [hi'] at hw; exact h.idle_known w (List.mem_of_mem_erase hw)
      · intro w t hf
        rw [← henv, hfl] at hf
        rcases hf with hf | heq
        · exact h.flight_known w t hf
        · simp only [Prod.mk.injEq] at heq; obtain ⟨rfl, _⟩ := heq; exact h.idle_known _ hidle
      · intro w t hf
        rw [← henv, hfl] at hf
        simp only [hd']
        rcases hf with hf | heq
        · have := h.flight_disp w t hf
          by_cases ht : t = a.task
          · subst ht; simp
          · simp [upd_other _ _ _ _ ht, this]
        · simp only [Prod.mk.injEq] at heq; obtain ⟨_, rfl⟩ := heq; simp
      · intro w t hq
        rw [← henv, hfl]
        simp only [hq2, List.mem_append, List.mem_singleton] at hq
        rcases hq with hq | hq
        · exact Or.inl (h.queued_flight w t hq)
        · exact Or.inr hq
      · simp only [hq2]
        exact List.nodup_append.mpr ⟨h.queued_nodup, by simp, by
          intro p hp' q hq; simp at hq; subst hq; intro heq; subst heq; exact hnq _ hp'⟩
      · intro w ds he
        simp only [hpe2] at he
        have := h.ev_disp w ds he
        simp only [hd']
        by_cases ht : ds.task = a.task
        · rw [ht]; simp
        · simp [upd_other _ _ _ _ ht, this]
      · intro w ds he
        simp only [hpe2] at he
        simp only [hq2, List.mem_append, List.mem_singleton, not_or]
        refine ⟨h.ev_not_queued w ds he, ?_⟩
        intro heq
        simp only [Prod.mk.injEq] at heq
        have := h.ev_disp w ds he
        rw [heq.2] at this
        omega
      · intro h1 _ _; simp only at h1; exact absurd hp h1
      · simp only [Sys.todoPairs, List.map_append, List.map_cons, List.map_nil]
        exact List.nodup_append.mpr ⟨h.todo_nodup, by simp, by
          intro p hp' q hq; simp at hq; subst hq; intro heq; subst heq
          exact hnf _ (Or.inr hp')⟩
      · intro p hp'
        simp only [Sys.todoPairs, List.map_append, List.map_cons, List.map_nil, List.mem_append, List.mem_singleton] at hp'
        rw [hon']
        rcases hp' with hp' | rfl
        · exact h.todo_not_ongoing p hp'
        · intro hin; exact hnf _ (Or.inl hin)
      · intro w t hq
        simp only [hq2, List.mem_append, List.mem_singleton] at hq
        simp only [htr2]
        by_cases ht : t = a.task
        · subst ht; simp
        · rw [upd_other _ _ _ _ ht]
          rcases hq with hq | hq
          · exact h.no_trim w t hq
          · simp only [Prod.mk.injEq] at hq; exact absurd hq.2 ht

end EkwVerif.Ctrl
