/-
Helper lemmas for Props/C11.lean: the splice in closed form.  `Splicer.transform` on a well-formed
sub-graph ALWAYS succeeds and appends exactly `sub.nodes.map (splicedNode c base)` to the store; the
`_Subgraph` it returns files, under each selected leaf name, the LAST sub-graph sink of that name.
-/
import EkwVerif.Lemmas.GraphExpand
namespace EkwVerif.Graph.Aux
open EkwVerif.Graph

theorem leafName_eq (e : Expansion) (o : Name) : leafName e o = selectedLeaf e o := rfl

/-- `done` of a splice: sub-graph node `j` is stored at `base + j`. -/
def shiftDone (base k : Nat) : List Nat := (List.range k).map (base + ·)

theorem shiftDone_succ (base k : Nat) : shiftDone base (k + 1) = shiftDone base k ++ [base + k] := by
  simp [shiftDone, List.range_succ]

@[simp] theorem shiftDone_length (base k : Nat) : (shiftDone base k).length = k := by simp [shiftDone]

theorem shiftDone_get (base k j : Nat) (h : j < k) : (shiftDone base k)[j]? = some (base + j) := by
  simp [shiftDone, h]

theorem remap_shiftDone (base k : Nat) (ins : List (Name × Ref)) (h : ∀ x ∈ ins, x.2.1 < k) :
    remap (shiftDone base k) ins = shiftIns base ins := by
  unfold remap shiftIns
  apply List.map_congr_left
  intro x hx
  simp [List.getD_eq_getElem?_getD, shiftDone_get base k x.2.1 (h x hx)]

/-- Sanity of overridden `splice_source` / `splice_sink` (see `SpliceFns`): the input names of a replaced
source are distinct and it declares at least the source's outputs (the inner nodes keep consuming them); a
replaced sink declares the default output (`_Subgraph.get_output` asks for it) and selects, under distinct
new names, inputs it was given. -/
structure SpliceOK (f : SpliceFns) : Prop where
  srcKeys : ∀ name s, (f.src name s).2.2.Nodup
  srcOuts : ∀ name s, ∀ o ∈ s.outputs, o ∈ (f.src name s).1
  snkDefault : ∀ name s keys, defaultOutput ∈ (f.snk name s keys).1
  snkSel : ∀ name s keys sel, keys.Nodup → (f.snk name s keys).2.2 = some sel → (sel.map (·.1)).Nodup ∧ ∀ x ∈ sel, x.2 ∈ keys

theorem spliceOK_default : SpliceOK defaultSplice :=
  ⟨fun _ _ => by simp [defaultSplice], fun _ _ o ho => ho, fun _ _ _ => by simp [defaultSplice],
   fun _ _ _ sel _ h => by simp [defaultSplice] at h⟩

theorem splicedNode_eq_W (c : SplicerCfg) (base : Nat) (m : Node) :
    splicedNode c base m = splicedNodeW defaultSplice c base m := by
  unfold splicedNode splicedNodeW
  split
  · split <;> rfl
  · split <;> rfl

theorem splicer_eq_W (c : SplicerCfg) : splicer c = splicerW defaultSplice c := rfl

theorem expandGraph_eq_W (ex : Node → Option Expansion) (g : Graph) :
    expandGraph ex g = expandGraphW defaultSplice ex g := rfl

theorem splicedNodeW_outputs (f : SpliceFns) (hf : SpliceOK f) (c : SplicerCfg) (base : Nat) (m : Node) (o : Name)
    (h : o ∈ m.outputs) : o ∈ (splicedNodeW f c base m).outputs := by
  unfold splicedNodeW
  split
  · split
    · exact h
    · exact hf.srcOuts _ m o h
  · split
    · rename_i hs
      simp only [Bool.and_eq_true, Node.isSink, List.isEmpty_iff] at hs
      rw [hs.1] at h; cases h
    · exact h

theorem splicedNodeW_name (f : SpliceFns) (c : SplicerCfg) (base : Nat) (m : Node) :
    (splicedNodeW f c base m).name = prefixed c.name m.name := by
  unfold splicedNodeW
  split
  · split <;> rfl
  · split <;> rfl

/-- `node_visit` of the `Splicer` builds `splicedNodeW`. -/
theorem splicer_visit (f : SpliceFns) (c : SplicerCfg) (store : List Node) (base : Nat) (a : Node) :
    nodeVisit (splicerW f c) store a (shiftIns base a.inputs) = .ok (store ++ [splicedNodeW f c base a], store.length) := by
  by_cases hsrc : a.isSource = true
  · simp only [nodeVisit, splicerW, splicedNodeW, hsrc, if_true]
    cases c.inputs.lookup a.name <;> rfl
  · have hsrc' : a.isSource = false := by simpa using hsrc
    by_cases hsnk : a.isSink = true
    · by_cases hc : (mapValues c.outputs).contains a.name = true
      · simp only [nodeVisit, splicerW, splicedNodeW, hsrc', hsnk, hc, Bool.false_eq_true, if_false, if_true, Bool.and_self]
      · have hc' : (mapValues c.outputs).contains a.name = false := by simpa using hc
        simp only [nodeVisit, splicerW, splicedNodeW, hsrc', hsnk, hc', Bool.false_eq_true, if_false, if_true, Bool.and_false]
    · have hsnk' : a.isSink = false := by simpa using hsnk
      have hp : a.isProcessor = true := by simp [Node.isProcessor, hsrc', hsnk']
      simp only [nodeVisit, splicerW, splicedNodeW, hsrc', hsnk', hp, Bool.false_eq_true, if_false, if_true, Bool.false_and]

theorem splicer_step_eq (f : SpliceFns) (hf : SpliceOK f) (c : SplicerCfg) (out pre : List Node) (a : Node) (hok : NodeOK pre a) :
    step (splicerW f c) (out ++ pre.map (splicedNodeW f c out.length), shiftDone out.length pre.length) a =
      .ok (out ++ (pre ++ [a]).map (splicedNodeW f c out.length), shiftDone out.length (pre.length + 1)) := by
  have hti : transInputs (splicerW f c) (out ++ pre.map (splicedNodeW f c out.length)) (shiftDone out.length pre.length) a.inputs =
      .ok (shiftIns out.length a.inputs) := by
    rw [transInputs_nodeOutput (splicerW f c) rfl, remap_shiftDone _ _ _ (nodeOK_lt hok)]
    intro x hx
    obtain ⟨m0, hm0, ho⟩ := hok.2 x hx
    have hlt := (List.getElem?_eq_some_iff.1 hm0).1
    refine ⟨out.length + x.2.1, splicedNodeW f c out.length m0, shiftDone_get _ _ _ hlt, ?_, splicedNodeW_outputs f hf c _ m0 _ ho⟩
    rw [List.getElem?_append_right (by omega)]
    simp [hm0]
  simp only [step, hti, splicer_visit]
  simp [shiftDone_succ]

/-- The traversal of a `Splicer` over a well-formed sub-graph, in closed form. -/
theorem splicer_run_eq (f : SpliceFns) (hf : SpliceOK f) (c : SplicerCfg) (out ns : List Node) (h : WFNodes ns) :
    run (splicerW f c) out ns = .ok (out ++ ns.map (splicedNodeW f c out.length), shiftDone out.length ns.length) := by
  have := foldE_inv (step (splicerW f c)) ns
    (fun pre st => st = (out ++ pre.map (splicedNodeW f c out.length), shiftDone out.length pre.length)) (out, [])
    (by simp [shiftDone])
    (by
      intro pre a post b hl hb
      subst hb
      have hok := (wf_split pre a post (hl ▸ h)).2
      exact ⟨_, splicer_step_eq f hf c out pre a hok, by simp⟩)
  obtain ⟨b, hb, hi⟩ := this
  rw [run, hb, hi]

/-! ### `Splicer.graph`: the leaves -/

theorem spliceLeaves_lookup_eq (c : SplicerCfg) (out : List Node) (lname : Name) (hl : (mapValues c.outputs).contains lname = true)
    (ts : List Nat) : ∀ (acc : List (Name × Nat) × List Nat),
      (spliceLeaves c out ts acc).1.lookup lname =
        lastWith (fun t => removePrefix (nameAt out t) (prefixOf c.name) == lname) ts (acc.1.lookup lname) := by
  induction ts with
  | nil => intro acc; rfl
  | cons t ts ih =>
    intro acc
    simp only [spliceLeaves, lastWith]
    by_cases hc : (mapValues c.outputs).contains (removePrefix (nameAt out t) (prefixOf c.name)) = true
    · rw [if_pos hc, ih]
      congr 1
      simp only [lookup_dictSet]
      by_cases hk : removePrefix (nameAt out t) (prefixOf c.name) = lname
      · simp [hk]
      · have h1 : (lname == removePrefix (nameAt out t) (prefixOf c.name)) = false := by
          simp only [beq_eq_false_iff_ne, ne_eq]; exact fun e => hk e.symm
        have h2 : (removePrefix (nameAt out t) (prefixOf c.name) == lname) = false := by simpa using hk
        simp [h1, h2]
    · rw [if_neg hc, ih]
      congr 1
      have : (removePrefix (nameAt out t) (prefixOf c.name) == lname) = false := by
        simp only [beq_eq_false_iff_ne, ne_eq]
        intro e; rw [e] at hc; exact hc hl
      simp [this]

theorem lastWith_map (p : Nat → Bool) (f : Nat → Nat) (ts : List Nat) (acc : Option Nat) :
    lastWith p (ts.map f) (acc.map f) = (lastWith (fun q => p (f q)) ts acc).map f := by
  induction ts generalizing acc with
  | nil => rfl
  | cons t ts ih =>
    simp only [List.map_cons, lastWith]
    by_cases hp : p (f t) = true
    · simp only [hp, if_true]; exact ih (some t)
    · simp only [hp]; exact ih acc

theorem lastWith_congr (p p' : Nat → Bool) (ts : List Nat) (acc : Option Nat) (h : ∀ t ∈ ts, p t = p' t) :
    lastWith p ts acc = lastWith p' ts acc := by
  induction ts generalizing acc with
  | nil => rfl
  | cons t ts ih =>
    simp only [lastWith]
    rw [h t (by simp), ih _ (fun t' ht' => h t' (by simp [ht']))]

theorem lastWith_some_mem (p : Nat → Bool) (ts : List Nat) (q : Nat) (h : lastWith p ts none = some q) :
    q ∈ ts ∧ p q = true := by
  suffices hs : ∀ (acc : Option Nat), lastWith p ts acc = some q → (q ∈ ts ∧ p q = true) ∨ acc = some q by
    rcases hs none h with h1 | h1
    · exact h1
    · cases h1
  clear h
  induction ts with
  | nil => intro acc h; exact Or.inr h
  | cons t ts ih =>
    intro acc h
    simp only [lastWith] at h
    rcases ih _ h with ⟨h1, h2⟩ | h1
    · exact Or.inl ⟨by simp [h1], h2⟩
    · by_cases hp : p t = true
      · simp only [hp, if_true] at h1; cases h1; exact Or.inl ⟨by simp, hp⟩
      · simp only [hp] at h1; exact Or.inr h1

theorem sinksOf_shiftDone (base k : Nat) (sinks : List Nat) (h : ∀ s ∈ sinks, s < k) :
    sinksOf (shiftDone base k) sinks = .ok (sinks.map (base + ·)) := by
  unfold sinksOf
  apply mapE_total
  intro s hs
  simp [shiftDone_get base k s (h s hs)]

/-! ### `Splicer.__init__` -/

theorem mapE_filterMap {α β ε : Type} (f : α → Except ε β) (g : α → Option β) (l : List α)
    (h : ∀ x ∈ l, ∃ b, f x = .ok b ∧ g x = some b) : mapE f l = .ok (l.filterMap g) := by
  induction l with
  | nil => rfl
  | cons x l ih =>
    obtain ⟨b, h1, h2⟩ := h x (by simp)
    simp only [mapE, h1, List.filterMap_cons, h2]
    rw [ih (fun y hy => h y (by simp [hy]))]

theorem splicerInit_eq (name : Name) (inputs : List (Name × Ref)) (im : Option (List (Name × Name))) (outs : List Name)
    (om : Option (List (Name × Name)))
    (h : match im with | none => True | some im => ∀ x ∈ im, x.2 ∈ inputs.map (·.1)) :
    splicerInit name inputs im outs om =
      .ok { name := name, inputs := cfgInputs inputs im, outputs := outputsMap outs om } := by
  unfold splicerInit
  cases im with
  | none => rfl
  | some im =>
    simp only at h ⊢
    rw [mapE_filterMap _ (fun x => (inputs.lookup x.2).map fun r => (x.1, r)) im]
    · rfl
    · intro x hx
      cases hl : inputs.lookup x.2 with
      | none => exact absurd (h x hx) (lookup_none_iff.1 hl)
      | some r => exact ⟨(x.1, r), by simp, by simp⟩

/-- `Splicer.inputs[s]`: the transformed input the source `s` is mapped to. -/
theorem cfgInputs_lookup (inputs : List (Name × Ref)) (im : Option (List (Name × Name))) (s : Name)
    (h : match im with | none => True | some im => ∀ x ∈ im, x.2 ∈ inputs.map (·.1)) :
    (cfgInputs inputs im).lookup s = (srcInput (inputs.map (·.1)) im s).bind fun k => inputs.lookup k := by
  cases im with
  | none =>
    simp only [cfgInputs, srcInput]
    by_cases hs : s ∈ inputs.map (·.1)
    · have : (inputs.map (·.1)).contains s = true := by simpa using hs
      rw [if_pos this]; rfl
    · have : (inputs.map (·.1)).contains s = false := by simpa using hs
      simp only [this]
      exact lookup_none_iff.2 hs
  | some im =>
    simp only [cfgInputs, srcInput]
    simp only at h
    induction im with
    | nil => rfl
    | cons x im ih =>
      obtain ⟨xk, xv⟩ := x
      have hx := h (xk, xv) (by simp)
      have ih' := ih (fun y hy => h y (by simp [hy]))
      simp only at hx
      cases hl : inputs.lookup xv with
      | none => exact absurd hx (lookup_none_iff.1 hl)
      | some r =>
        simp only [List.filterMap_cons, hl, Option.map_some, List.lookup_cons]
        cases hb : (s == xk) with
        | false => exact ih'
        | true => simp only [Option.bind_some, hl]

end EkwVerif.Graph.Aux
