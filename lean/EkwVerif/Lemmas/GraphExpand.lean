/-
Helper lemmas for Props/C11.lean: `Splicer` / `_Expander` (namespace `EkwVerif.Graph.Aux`).
-/
import EkwVerif.Lemmas.GraphSplit
namespace EkwVerif.Graph.Aux
open EkwVerif.Graph

theorem get_of_prefix {α : Type} {a b : List α} (h : a <+: b) {i : Nat} {x : α} (hx : a[i]? = some x) : b[i]? = some x := by
  obtain ⟨t, rfl⟩ := h
  exact get_append_of_some hx t

/-- What `Splicer` makes of sub-graph node `m`: prefixed name, same payload, and the outputs kept
(a mapped sink gets the default output instead). -/
def Spliced (c : SplicerCfg) (m m' : Node) : Prop :=
  m'.name = prefixed c.name m.name ∧ m'.payload = m.payload ∧ (m'.outputs = m.outputs ∨ m'.outputs = [defaultOutput])

theorem splicer_step (c : SplicerCfg) (o : List Node) (d : List Nat) (m : Node) (st' : List Node × List Nat)
    (h : step (splicer c) (o, d) m = .ok st') :
    ∃ m', st' = (o ++ [m'], d ++ [o.length]) ∧ Spliced c m m' := by
  simp only [step] at h
  cases hti : transInputs (splicer c) o d m.inputs with
  | error e => simp [hti] at h
  | ok ins =>
    simp only [hti] at h
    cases hnv : nodeVisit (splicer c) o m ins with
    | error e => simp [hnv] at h
    | ok r =>
      simp only [hnv] at h
      cases h
      simp only [nodeVisit, splicer] at hnv
      by_cases hsrc : m.isSource = true
      · simp only [hsrc, if_true] at hnv
        cases hl : c.inputs.lookup m.name with
        | none => simp only [hl] at hnv; cases hnv; exact ⟨_, rfl, rfl, rfl, Or.inl rfl⟩
        | some r0 => simp only [hl] at hnv; cases hnv; exact ⟨_, rfl, rfl, rfl, Or.inl rfl⟩
      · have hsrc' : m.isSource = false := by simpa using hsrc
        simp only [hsrc'] at hnv
        by_cases hsnk : m.isSink = true
        · simp only [hsnk, if_true] at hnv
          by_cases hc : (mapValues c.outputs).contains m.name = true
          · rw [if_pos hc] at hnv; cases hnv; exact ⟨_, rfl, rfl, rfl, Or.inr rfl⟩
          · rw [if_neg hc] at hnv; cases hnv; exact ⟨_, rfl, rfl, rfl, Or.inl rfl⟩
        · have hsnk' : m.isSink = false := by simpa using hsnk
          have hp : m.isProcessor = true := by simp [Node.isProcessor, hsrc', hsnk']
          simp [hsnk', hp] at hnv
          cases hnv; exact ⟨_, rfl, rfl, rfl, Or.inl rfl⟩

theorem splicer_run (c : SplicerCfg) (o0 : List Node) (ns : List Node) (st : List Node × List Nat)
    (h : run (splicer c) o0 ns = .ok st) :
    o0 <+: st.1 ∧ st.2.length = ns.length ∧
      ∀ (q : Nat) (m : Node), ns[q]? = some m → ∃ u m', st.2[q]? = some u ∧ st.1[u]? = some m' ∧ Spliced c m m' := by
  refine foldE_inv' (step (splicer c)) ns (fun pre st => o0 <+: st.1 ∧ st.2.length = pre.length ∧
      ∀ (q : Nat) (m : Node), pre[q]? = some m → ∃ u m', st.2[q]? = some u ∧ st.1[u]? = some m' ∧ Spliced c m m')
    (o0, []) st ⟨List.prefix_refl _, rfl, by simp⟩ ?_ h
  intro pre a post b b' _ hb hstep
  obtain ⟨o, d⟩ := b
  obtain ⟨hp, hl, hq⟩ := hb
  obtain ⟨m', rfl, hsp⟩ := splicer_step c o d a b' hstep
  refine ⟨hp.trans (List.prefix_append _ _), by simp [hl], ?_⟩
  intro q m hm
  by_cases hlt : q < pre.length
  · rw [List.getElem?_append_left hlt] at hm
    obtain ⟨u, mu, h1, h2, h3⟩ := hq q m hm
    exact ⟨u, mu, get_append_of_some h1 _, get_append_of_some h2 _, h3⟩
  · have hqlt := (List.getElem?_eq_some_iff.1 hm).1
    simp at hqlt
    have : q = pre.length := by omega
    subst this
    simp at hm; subst hm
    refine ⟨o.length, m', ?_, by simp, hsp⟩
    simp only at hl
    rw [← hl]; simp

theorem lookup_dictSet (d : List (Name × Nat)) (k : Name) (v : Nat) (k' : Name) :
    (dictSet d k v).lookup k' = if (k' == k) = true then some v else d.lookup k' := by
  induction d with
  | nil =>
    simp only [dictSet, List.lookup_cons, List.lookup_nil]
    cases (k' == k) <;> rfl
  | cons x d ih =>
    obtain ⟨k0, v0⟩ := x
    simp only [dictSet]
    by_cases h0 : k0 = k
    · subst h0
      simp only [beq_self_eq_true, if_true, List.lookup_cons]
      cases (k' == k0) <;> rfl
    · have hk0 : (k0 == k) = false := by simpa using h0
      rw [if_neg (by simp [hk0])]
      rw [List.lookup_cons, List.lookup_cons, ih]
      cases hk' : (k' == k0) with
      | false => rfl
      | true =>
        have : k' = k0 := by simpa using hk'
        subst this
        simp [hk0]

/-- Every leaf recorded by `Splicer.graph` is one of the transformed sinks, filed under its store
name with the prefix removed. -/
theorem spliceLeaves_lookup (c : SplicerCfg) (out : List Node) (ts : List Nat) :
    ∀ (acc : List (Name × Nat) × List Nat) (lname : Name) (l : Nat),
      (spliceLeaves c out ts acc).1.lookup lname = some l →
      acc.1.lookup lname = some l ∨ (l ∈ ts ∧ removePrefix (nameAt out l) (prefixOf c.name) = lname) := by
  induction ts with
  | nil => intro acc lname l h; exact Or.inl h
  | cons t ts ih =>
    intro acc lname l h
    simp only [spliceLeaves] at h
    by_cases hc : (mapValues c.outputs).contains (removePrefix (nameAt out t) (prefixOf c.name)) = true
    · rw [if_pos hc] at h
      rcases ih _ lname l h with h1 | ⟨h1, h2⟩
      · simp only [lookup_dictSet] at h1
        by_cases hk : lname = removePrefix (nameAt out t) (prefixOf c.name)
        · rw [if_pos (by simp [hk])] at h1
          cases h1
          exact Or.inr ⟨by simp, hk.symm⟩
        · rw [if_neg (by simpa using hk)] at h1; exact Or.inl h1
      · exact Or.inr ⟨by simp [h1], h2⟩
    · rw [if_neg hc] at h
      rcases ih _ lname l h with h1 | ⟨h1, h2⟩
      · exact Or.inl h1
      · exact Or.inr ⟨by simp [h1], h2⟩

theorem removePrefix_prefixed (name nm : Name) : removePrefix (prefixed name nm) (prefixOf name) = nm := by
  have : (prefixOf name).isPrefixOf (prefixOf name ++ nm) = true := by
    rw [List.isPrefixOf_iff_prefix]; exact List.prefix_append _ _
  simp [removePrefix, prefixed, this]

theorem splicerInit_spec (name : Name) (inputs : List (Name × Ref)) (im : Option (List (Name × Name))) (outs : List Name)
    (om : Option (List (Name × Name))) (c : SplicerCfg) (h : splicerInit name inputs im outs om = .ok c) :
    c.name = name ∧ c.outputs = outputsMap outs om := by
  unfold splicerInit at h
  cases im with
  | none => simp at h; subst h; exact ⟨rfl, rfl⟩
  | some im =>
    simp only at h
    split at h
    · cases h
    · cases h; exact ⟨rfl, rfl⟩

/-- What `_Expander.node` leaves for an expanded node: a `_Subgraph` whose leaves are transformed
copies of sub-graph sinks, filed under the sink's own name. -/
theorem expandNode_sub (ex : Node → Option Expansion) (out : List Node) (n : Node) (ins : List (Name × Ref)) (e : Expansion)
    (he : ex n = some e) (r : List Node × XNode) (h : expandNode ex out n ins = .ok r) :
    out <+: r.1 ∧ ∃ sg, r.2 = .sub sg ∧ sg.outputMap = outputsMap n.outputs e.outputMap ∧
      ∀ (lname : Name) (l : Nat), sg.leaves.lookup lname = some l →
        ∃ (q : Nat) (mq m' : Node), q ∈ e.sub.sinks ∧ e.sub.nodes[q]? = some mq ∧ mq.name = lname ∧
          r.1[l]? = some m' ∧ m'.name = prefixed n.name lname ∧ m'.payload = mq.payload := by
  simp only [expandNode, he] at h
  cases hc : splicerInit n.name ins e.inputMap n.outputs e.outputMap with
  | error err => simp [hc] at h
  | ok c =>
    simp only [hc] at h
    obtain ⟨hcn, hco⟩ := splicerInit_spec _ _ _ _ _ c hc
    simp only [transform] at h
    cases hrun : run (splicer c) out e.sub.nodes with
    | error err => simp [hrun] at h
    | ok st =>
      simp only [hrun] at h
      cases hsk : sinksOf st.2 e.sub.sinks with
      | error err => simp [hsk] at h
      | ok ts =>
        simp only [hsk, splicerFin] at h
        cases h
        obtain ⟨hpre, _, himg⟩ := splicer_run c out e.sub.nodes st hrun
        refine ⟨hpre, _, rfl, ?_, ?_⟩
        · exact hco
        · intro lname l hl
          rcases spliceLeaves_lookup c st.1 ts ([], []) lname l hl with h1 | ⟨hmem, hrem⟩
          · simp at h1
          · obtain ⟨q, hq, hdq⟩ := mapE_ok_mem _ _ _ hsk l hmem
            have hdq' : st.2[q]? = some l := by
              cases hd : st.2[q]? with
              | none => simp [hd] at hdq
              | some l' => simp [hd] at hdq; rw [hdq]
            have hqlt : q < e.sub.nodes.length := by
              obtain ⟨_, hlen, _⟩ := splicer_run c out e.sub.nodes st hrun
              rw [← hlen]; exact (List.getElem?_eq_some_iff.1 hdq').1
            obtain ⟨u, m', h1, h2, h3, h4, _⟩ := himg q e.sub.nodes[q] (List.getElem?_eq_getElem hqlt)
            rw [hdq'] at h1; cases h1
            have hna : nameAt st.1 l = prefixed c.name e.sub.nodes[q].name := by simp [nameAt, h2, h3]
            rw [hna, removePrefix_prefixed] at hrem
            exact ⟨q, _, m', hq, List.getElem?_eq_getElem hqlt, hrem, h2, by rw [h3, hrem, hcn], h4⟩


/-- The sub-graph sink the output map selects for output `o` of an expanded node. -/
def selectedLeaf (e : Expansion) (o : Name) : Name :=
  match e.outputMap with
  | none => o
  | some om => (om.lookup o).getD o

theorem lookup_map_self (f : Name → Name) (outs : List Name) (o l : Name)
    (h : (outs.map fun o => (o, f o)).lookup o = some l) : l = f o := by
  induction outs with
  | nil => simp at h
  | cons a outs ih =>
    simp only [List.map_cons, List.lookup_cons] at h
    cases hb : (o == a) with
    | true =>
      have : o = a := by simpa using hb
      subst this
      simp at h; exact h.symm
    | false => simp only [hb] at h; exact ih h

theorem lookup_outputsMap (outs : List Name) (e : Expansion) (o l : Name)
    (h : (outputsMap outs e.outputMap).lookup o = some l) : l = selectedLeaf e o := by
  unfold outputsMap at h
  unfold selectedLeaf
  cases hom : e.outputMap with
  | none => simp only [hom] at h; exact lookup_map_self (fun o => o) outs o l h
  | some om => simp only [hom] at h; exact lookup_map_self (fun o => (om.lookup o).getD o) outs o l h

/-- Input `x` of an original node appears as `y` in its image: connected to the image of the parent,
or — if the parent was expanded — to the default output of the transformed copy of the sub-graph sink
the output map selects. -/
def WiredInput (ex : Node → Option Expansion) (pre out : List Node) (done : List XNode) (x y : Name × Ref) : Prop :=
  y.1 = x.1 ∧ ∃ pj, pre[x.2.1]? = some pj ∧
    ((ex pj = none ∧ ∃ t, done[x.2.1]? = some (.node t) ∧ y.2 = (t, x.2.2)) ∨
     (∃ e, ex pj = some e ∧ ∃ (q : Nat) (mq m' : Node), q ∈ e.sub.sinks ∧ e.sub.nodes[q]? = some mq ∧
        mq.name = selectedLeaf e x.2.2 ∧ y.2.2 = defaultOutput ∧ out[y.2.1]? = some m' ∧
        m'.name = prefixed pj.name (selectedLeaf e x.2.2) ∧ m'.payload = mq.payload ∧ defaultOutput ∈ m'.outputs))

theorem WiredInput.mono {ex : Node → Option Expansion} {pre out out' : List Node} {done : List XNode} {x y : Name × Ref}
    (hp : out <+: out') (pre' : List Node) (done' : List XNode) (h : WiredInput ex pre out done x y) :
    WiredInput ex (pre ++ pre') out' (done ++ done') x y := by
  obtain ⟨h1, pj, h2, h3⟩ := h
  refine ⟨h1, pj, get_append_of_some h2 _, ?_⟩
  rcases h3 with ⟨h3, t, h4, h5⟩ | ⟨e, h3, q, mq, m', h4, h5, h6, h7, h8, h9⟩
  · exact Or.inl ⟨h3, t, get_append_of_some h4 _, h5⟩
  · exact Or.inr ⟨e, h3, q, mq, m', h4, h5, h6, h7, get_of_prefix hp h8, h9⟩

/-- What the traversal of `_Expander` leaves for original node `n`. -/
def XImg (ex : Node → Option Expansion) (pre out : List Node) (done : List XNode) (n : Node) (t : XNode) : Prop :=
  match ex n with
  | none => ∃ ti m, t = .node ti ∧ out[ti]? = some m ∧ m.name = n.name ∧ m.payload = n.payload ∧ m.outputs = n.outputs ∧
      m.inputs.length = n.inputs.length ∧
      ∀ (p : Nat) (x y : Name × Ref), n.inputs[p]? = some x → m.inputs[p]? = some y → WiredInput ex pre out done x y
  | some e => ∃ sg, t = .sub sg ∧ sg.outputMap = outputsMap n.outputs e.outputMap ∧
      ∀ (lname : Name) (l : Nat), sg.leaves.lookup lname = some l →
        ∃ (q : Nat) (mq m' : Node), q ∈ e.sub.sinks ∧ e.sub.nodes[q]? = some mq ∧ mq.name = lname ∧
          out[l]? = some m' ∧ m'.name = prefixed n.name lname ∧ m'.payload = mq.payload

theorem XImg.mono {ex : Node → Option Expansion} {pre out out' : List Node} {done : List XNode} {n : Node} {t : XNode}
    (hp : out <+: out') (pre' : List Node) (done' : List XNode) (h : XImg ex pre out done n t) :
    XImg ex (pre ++ pre') out' (done ++ done') n t := by
  unfold XImg at h ⊢
  cases he : ex n with
  | none =>
    simp only [he] at h ⊢
    obtain ⟨ti, m, h1, h2, h3, h4, h5, h6, h7⟩ := h
    exact ⟨ti, m, h1, get_of_prefix hp h2, h3, h4, h5, h6, fun p x y hx hy => (h7 p x y hx hy).mono hp pre' done'⟩
  | some e =>
    simp only [he] at h ⊢
    obtain ⟨sg, h1, h2, h3⟩ := h
    refine ⟨sg, h1, h2, fun lname l hl => ?_⟩
    obtain ⟨q, mq, m', a1, a2, a3, a4, a5, a6⟩ := h3 lname l hl
    exact ⟨q, mq, m', a1, a2, a3, get_of_prefix hp a4, a5, a6⟩

def XInv (ex : Node → Option Expansion) (pre : List Node) (st : List Node × List XNode) : Prop :=
  st.2.length = pre.length ∧ ∀ (i : Nat) (n : Node), pre[i]? = some n → ∃ t, st.2[i]? = some t ∧ XImg ex pre st.1 st.2 n t

theorem expandNode_prefix (ex : Node → Option Expansion) (out : List Node) (n : Node) (ins : List (Name × Ref))
    (r : List Node × XNode) (h : expandNode ex out n ins = .ok r) : out <+: r.1 := by
  cases he : ex n with
  | none => simp only [expandNode, he] at h; cases h; exact List.prefix_append _ _
  | some e => exact (expandNode_sub ex out n ins e he r h).1

/-- the transformed inputs `_Expander.node` receives -/
theorem expand_inputs (ex : Node → Option Expansion) (pre out : List Node) (done : List XNode)
    (hinv : XInv ex pre (out, done)) (xs : List (Name × Ref)) (ins : List (Name × Ref))
    (h : transInputs (expander ex) out done xs = .ok ins) :
    ins.length = xs.length ∧
    ∀ (p : Nat) (x y : Name × Ref), xs[p]? = some x → ins[p]? = some y → WiredInput ex pre out done x y := by
  unfold transInputs at h
  refine ⟨mapE_ok_length _ _ _ h, ?_⟩
  intro p x y hx hy
  obtain ⟨y', hy', hf⟩ := mapE_ok_get _ _ _ h p x hx
  rw [hy] at hy'; cases hy'
  cases hd : done[x.2.1]? with
  | none => simp [hd] at hf
  | some tj =>
    simp only [hd] at hf
    have hlt : x.2.1 < pre.length := by
      rw [← hinv.1]; exact (List.getElem?_eq_some_iff.1 hd).1
    have hpj : pre[x.2.1]? = some pre[x.2.1] := List.getElem?_eq_getElem hlt
    obtain ⟨t', ht', himg⟩ := hinv.2 x.2.1 _ hpj
    simp only at ht'
    rw [hd] at ht'; cases ht'
    cases ho : (expander ex).output out tj x.2.2 with
    | error err => simp [ho] at hf
    | ok r =>
      simp only [ho] at hf
      cases hf
      refine ⟨rfl, pre[x.2.1], hpj, ?_⟩
      unfold XImg at himg
      cases he : ex pre[x.2.1] with
      | none =>
        simp only [he] at himg
        obtain ⟨ti, m, h1, h2, _⟩ := himg
        subst h1
        simp only [expander, nodeOutput, h2] at ho
        split at ho
        · cases ho; exact Or.inl ⟨rfl, ti, hd, rfl⟩
        · cases ho
      | some e =>
        simp only [he] at himg
        obtain ⟨sg, h1, h2, h3⟩ := himg
        subst h1
        simp only [expander, subgraphOutput] at ho
        cases hl1 : sg.outputMap.lookup x.2.2 with
        | none => simp [hl1] at ho
        | some lname =>
          simp only [hl1] at ho
          cases hl2 : sg.leaves.lookup lname with
          | none => simp [hl2] at ho
          | some l =>
            simp only [hl2, nodeOutput] at ho
            obtain ⟨q, mq, m', a1, a2, a3, a4, a5, a6⟩ := h3 lname l hl2
            simp only [a4] at ho
            split at ho
            · rename_i hmem
              cases ho
              have hsel : lname = selectedLeaf e x.2.2 := by
                rw [h2] at hl1; exact lookup_outputsMap _ e _ _ hl1
              subst hsel
              exact Or.inr ⟨e, rfl, q, mq, m', a1, a2, a3, rfl, a4, a5, a6, hmem⟩
            · cases ho

theorem expand_step (ex : Node → Option Expansion) (pre : List Node) (a : Node) (st st' : List Node × List XNode)
    (hinv : XInv ex pre st) (h : step (expander ex) st a = .ok st') : XInv ex (pre ++ [a]) st' := by
  obtain ⟨out, done⟩ := st
  simp only [step] at h
  cases hti : transInputs (expander ex) out done a.inputs with
  | error e => simp [hti] at h
  | ok ins =>
    simp only [hti, nodeVisit_node_only (expander ex) _ rfl rfl rfl rfl] at h
    cases hnv : expandNode ex out a ins with
    | error e => simp [hnv] at h
    | ok r =>
      simp only [hnv] at h
      cases h
      have hpre := expandNode_prefix ex out a ins r hnv
      obtain ⟨hlen, hwired⟩ := expand_inputs ex pre out done hinv a.inputs ins hti
      refine ⟨by simp [hinv.1], ?_⟩
      intro i n hn
      by_cases hi : i < pre.length
      · rw [List.getElem?_append_left hi] at hn
        obtain ⟨t, ht, himg⟩ := hinv.2 i n hn
        exact ⟨t, get_append_of_some ht _, himg.mono hpre _ _⟩
      · have hlt := (List.getElem?_eq_some_iff.1 hn).1
        simp at hlt
        have : i = pre.length := by omega
        subst this
        simp at hn; subst hn
        refine ⟨r.2, by rw [← hinv.1]; simp, ?_⟩
        unfold XImg
        cases he : ex a with
        | none =>
          simp only [expandNode, he] at hnv
          cases hnv
          simp only
          refine ⟨out.length, { a with inputs := ins }, rfl, by simp, rfl, rfl, rfl, hlen, ?_⟩
          intro p x y hx hy
          exact (hwired p x y hx hy).mono (List.prefix_append _ _) _ _
        | some e =>
          simp only
          obtain ⟨_, sg, h1, h2, h3⟩ := expandNode_sub ex out a ins e he r hnv
          exact ⟨sg, h1, h2, h3⟩

theorem expand_run (ex : Node → Option Expansion) (ns : List Node) (st : List Node × List XNode)
    (h : run (expander ex) [] ns = .ok st) : XInv ex ns st := by
  refine foldE_inv' (step (expander ex)) ns (XInv ex) ([], []) st ⟨rfl, by simp⟩ ?_ h
  intro pre a post b b' _ hb hstep
  exact expand_step ex pre a b b' hb hstep

end EkwVerif.Graph.Aux
