/-
Tier P (`InvP`, CtrlInvP.lean) holds initially and is preserved by every step, relative to Tiers 1, 2, 2X.
`published` moves only in `.notify1` of a worker's `DatasetPublished`; that step is where completion is detected.
-/
import EkwVerif.Lemmas.CtrlInv2A
import EkwVerif.Lemmas.CtrlInv2B1
import EkwVerif.Lemmas.CtrlInvP

set_option linter.unusedVariables false
set_option linter.unusedSimpArgs false

namespace EkwVerif.Ctrl

theorem iP_init (j : Job) (cl : Cluster) (wf : WF j cl) : InvP j (Sys.init j cl) := by
  refine ⟨?_, ?_, ?_, ?_⟩
  · intro w ds _; rfl
  · intro ds h; simp [Sys.init, initCtl] at h
  · intro ds h; simp [Sys.init, initCtl] at h
  · intro t ht
    have h1 := wf.nout t ht
    constructor
    · intro h; simp [Sys.init, initCtl] at h
    · intro h
      have := h 0 (by omega)
      simp [Sys.init, initCtl] at this

/-- a step that does not touch the record: `published`, `doneC` unchanged, `announced` and `ran` only grow, and every
worker notice on its way afterwards was on its way before or is about an output not recorded -/
theorem InvP.congr {j : Job} {s s' : Sys} (h : InvP j s)
    (hpub : s'.ctl.published = s.ctl.published) (hdone : s'.ctl.doneC = s.ctl.doneC)
    (hann : ∀ ds, s.ctl.announced ds = true → s'.ctl.announced ds = true)
    (hran : ∀ t, s.env.ran t = true → s'.env.ran t = true)
    (hev : ∀ w ds, Event.pubW w ds ∈ s'.allEv → Event.pubW w ds ∈ s.allEv ∨ s.ctl.published ds = false) : InvP j s' := by
  refine ⟨?_, ?_, ?_, ?_⟩
  · intro w ds he
    rw [hpub]
    rcases hev w ds he with h' | h'
    · exact h.pub_once w ds h'
    · exact h'
  · intro ds hd; rw [hpub] at hd
    exact ⟨hran _ (h.pub_ran ds hd).1, (h.pub_ran ds hd).2⟩
  · intro ds hd; rw [hpub] at hd; exact hann ds (h.pub_announced ds hd)
  · intro t ht; rw [hdone, hpub]; exact h.done_iff t ht

theorem iP_assignOne_published (j : Job) (cl : Cluster) (c c' : Ctl) (a : Asg) (p : List (Ds × Host))
    (hr : assignOne j cl c a = .ok (c', p)) : c'.published = c.published := by
  unfold assignOne at hr
  split at hr; · cases hr
  split at hr; · cases hr
  split at hr; · cases hr
  split at hr; · cases hr
  rename_i c2 prep hb
  simp only [Except.ok.injEq, Prod.mk.injEq] at hr
  obtain ⟨rfl, rfl⟩ := hr
  have := buildPrep_published _ _ _ _ _ _ _ hb
  simp [this]

theorem iP_planOne_published (j : Job) (c c' : Ctl) (a : Asg) (prep : List (Ds × Host)) (h : planOne j c a prep = .ok c') :
    c'.published = c.published := by
  have fold : ∀ (l : List Ds) (w : Worker) (c0 : Ctl),
      (l.foldl (fun c ds => setPreparingAt c ds w) c0).published = c0.published := by
    intro l w
    induction l with
    | nil => intro c0; rfl
    | cons x l ih => intro c0; simp only [List.foldl_cons]; rw [ih]; simp
  have fold2 : ∀ (l : List (Ds × Host)) (w : Worker) (c0 : Ctl),
      (l.foldl (fun c p => setPreparingAt c p.1 w) c0).published = c0.published := by
    intro l w
    induction l with
    | nil => intro c0; rfl
    | cons x l ih => intro c0; simp only [List.foldl_cons]; rw [ih]; simp
  unfold planOne at h
  split at h
  · cases h
  · dsimp only at h
    split at h
    · cases h
    · simp only [Except.ok.injEq] at h
      subst h
      simp only [fold, fold2]

theorem iP_envStep_io (f : Sem) (j : Job) (e e' : Env) (i : Nat) (h : envStep f j e (.io i) = some e') :
    e'.ran = e.ran ∧ ∀ w ds, Event.pubW w ds ∈ e'.pending → Event.pubW w ds ∈ e.pending := by
  simp only [envStep] at h
  split at h
  · cases h
  · rename_i o ho
    cases o with
    | transmit ds src tgt =>
      dsimp only at h
      split at h
      · cases h; exact ⟨by simp [Env.flag], fun w d hm => by simpa [Env.flag] using hm⟩
      · split at h
        · cases h; exact ⟨rfl, fun w d hm => hm⟩
        · cases h
          refine ⟨rfl, fun w d hm => ?_⟩
          simpa using hm
    | fetch ds src =>
      dsimp only at h
      split at h
      · cases h; exact ⟨by simp [Env.flag], fun w d hm => by simpa [Env.flag] using hm⟩
      · cases h
        refine ⟨rfl, fun w d hm => ?_⟩
        simpa using hm

/-- what `notify` of a worker's `DatasetPublished` does to the record, the announcements and the completions -/
theorem notifyEvent_pubW_spec (j : Job) (c c' : Ctl) (w : Worker) (ds : Ds) (hr : notifyEvent j c (.pubW w ds) = .ok c') :
    c'.published = upd c.published ds true ∧ c'.announced = upd c.announced ds true ∧
    (((∀ k, k < j.nOut ds.task → upd c.published ds true ⟨ds.task, k⟩ = true) ∧ c'.doneC = upd c.doneC ds.task true) ∨
     ((¬ ∀ k, k < j.nOut ds.task → upd c.published ds true ⟨ds.task, k⟩ = true) ∧ c'.doneC = c.doneC)) := by
  simp only [notifyEvent] at hr
  have hP : (markPublished (considerComputable (considerFetch j (markAvailable c w.host ds) ds w.host) ds) ds).published =
      upd c.published ds true := by simp [markPublished]
  have hA : (markPublished (considerComputable (considerFetch j (markAvailable c w.host ds) ds w.host) ds) ds).announced =
      upd c.announced ds true := by simp [markAvailable]
  have hD : (markPublished (considerComputable (considerFetch j (markAvailable c w.host ds) ds w.host) ds) ds).doneC =
      c.doneC := by simp
  split at hr
  · rename_i hall
    have hall' := (allPublished_iff j _ ds.task).mp hall
    rw [hP] at hall'
    split at hr
    · cases hr
    · rename_i c2 hci
      have p2 := completeInputs_published _ _ _ _ _ hci
      have a2 := completeInputs_announced _ _ _ _ _ hci
      have d2 := completeInputs_doneC _ _ _ _ _ hci
      split at hr
      · simp only [Except.ok.injEq] at hr; subst hr
        exact ⟨by simp only [p2, hP], by simp only [a2, hA], Or.inl ⟨hall', by simp only [d2, hD]⟩⟩
      · cases hr
  · rename_i hall
    have hall' : ¬ ∀ k, k < j.nOut ds.task → upd c.published ds true ⟨ds.task, k⟩ = true := by
      intro h; apply hall; rw [allPublished_iff, hP]; exact h
    simp only [Except.ok.injEq] at hr; subst hr
    exact ⟨hP, hA, Or.inr ⟨hall', hD⟩⟩

/-- the other events leave the record and the completions alone -/
theorem notifyEvent_other_spec (j : Job) (c c' : Ctl) (ev : Event) (hne : ∀ w ds, ev ≠ .pubW w ds)
    (hr : notifyEvent j c ev = .ok c') :
    c'.published = c.published ∧ c'.doneC = c.doneC ∧ ∀ d, c.announced d = true → c'.announced d = true := by
  cases ev with
  | pubW w ds => exact absurd rfl (hne w ds)
  | payload ds v =>
    simp only [notifyEvent, Except.ok.injEq] at hr; subst hr
    exact ⟨rfl, rfl, fun _ h => h⟩
  | pubT h ds =>
    simp only [notifyEvent, Except.ok.injEq] at hr; subst hr
    refine ⟨by simp, by simp, ?_⟩
    intro d hd
    simp only [considerComputable_announced, considerFetch_announced, markAvailable]
    by_cases hx : d = ds
    · subst hx; simp
    · rw [upd_other _ _ _ _ hx]; exact hd

theorem iP_step (f : Sem) (j : Job) (cl : Cluster) (s s' : Sys) (st : Step) (wf : WF j cl)
    (h1 : Inv1 cl s) (h2 : Inv2 j cl s) (hx : Inv2X j s) (hP : InvP j s)
    (hs : step f j cl s st = some s') : InvP j s' := by
  cases st with
  | enter =>
    simp only [step] at hs
    split at hs; · cases hs
    split at hs <;> (cases hs; exact hP.congr rfl rfl (fun _ h => h) (fun _ h => h) (fun _ _ h => Or.inl h))
  | assign a =>
    simp only [step] at hs
    split at hs; · cases hs
    split at hs
    · cases hs
    · cases hs; exact hP.congr rfl rfl (fun _ h => h) (fun _ h => h) (fun _ _ h => Or.inl h)
    · rename_i c p hr
      cases hs
      obtain ⟨f1, f2, _⟩ := i2a_assignOne_frames _ _ _ _ _ _ hr
      have f3 := iP_assignOne_published _ _ _ _ _ _ hr
      refine hP.congr f3 f1 (fun d h => by simpa [f2] using h) ?_ ?_
      · intro t ht; simpa [(i2b_applyCmds_frame j cl (actCmds j a p) s.env).1] using ht
      · intro w ds he
        left
        simpa [Sys.allEv, (i2b_applyCmds_frame j cl (actCmds j a p) s.env).2.2.1] using he
  | endAssign =>
    simp only [step] at hs; split at hs; · cases hs
    cases hs; exact hP.congr rfl rfl (fun _ h => h) (fun _ h => h) (fun _ _ h => Or.inl h)
  | plan1 =>
    simp only [step] at hs
    split at hs; · cases hs
    split at hs; · cases hs
    split at hs
    · cases hs
    · cases hs; exact hP.congr rfl rfl (fun _ h => h) (fun _ h => h) (fun _ _ h => Or.inl h)
    · rename_i c hr
      cases hs
      obtain ⟨f1, f2, _⟩ := i2a_planOne_frames _ _ _ _ _ hr
      have f3 := iP_planOne_published _ _ _ _ _ hr
      exact hP.congr f3 f1 (fun d h => by simpa [f2] using h) (fun _ h => h) (fun _ _ h => Or.inl h)
  | endPlan =>
    simp only [step] at hs; split at hs; · cases hs
    cases hs; exact hP.congr rfl rfl (fun _ h => h) (fun _ h => h) (fun _ _ h => Or.inl h)
  | flushF1 =>
    simp only [step] at hs
    split at hs; · cases hs
    split at hs; · cases hs
    rename_i ds hst rest hq
    cases hs
    refine hP.congr (by simp) (by simp) (fun d h => by simpa using h) ?_ ?_
    · intro t ht; simpa [(i2b_applyCmd_frame j cl s.env (.fetch ds hst)).1] using ht
    · intro w d he; left
      simpa [Sys.allEv, (i2b_applyCmd_frame j cl s.env (.fetch ds hst)).2.2.1] using he
  | endFlushF =>
    simp only [step] at hs; split at hs; · cases hs
    cases hs; exact hP.congr rfl rfl (fun _ h => h) (fun _ h => h) (fun _ _ h => Or.inl h)
  | flushP1 =>
    simp only [step] at hs
    split at hs; · cases hs
    split at hs; · cases hs
    split at hs
    · cases hs
    · cases hs; exact hP.congr rfl rfl (fun _ h => h) (fun _ h => h) (fun _ _ h => Or.inl h)
    · rename_i c cmds hr
      cases hs
      refine hP.congr (by simp [purgeHosts_published _ _ _ _ _ _ hr]) (by simp [purgeHosts_doneC _ _ _ _ _ _ hr])
        (fun d h => by simpa [purgeHosts_announced _ _ _ _ _ _ hr] using h) ?_ ?_
      · intro t ht; simpa [(i2b_applyCmds_frame j cl cmds s.env).1] using ht
      · intro w d he; left
        simpa [Sys.allEv, (i2b_applyCmds_frame j cl cmds s.env).2.2.1] using he
  | endFlush =>
    simp only [step] at hs; split at hs; · cases hs
    cases hs; exact hP.congr rfl rfl (fun _ h => h) (fun _ h => h) (fun _ _ h => Or.inl h)
  | recv evs =>
    simp only [step] at hs
    split at hs; · cases hs
    split at hs; · cases hs
    rename_i pend htk
    cases hs
    obtain ⟨_, m2, _, _, m5, _⟩ := i2b_markDelivered_frame evs { s.env with pending := pend }
    refine hP.congr rfl rfl (fun _ h => h) (fun t ht => by simpa [m2] using ht) ?_
    intro w ds he; left
    have hc := i2b_takeEvents_count evs s.env.pending pend htk (Event.pubW w ds)
    have he' : Event.pubW w ds ∈ evs ++ pend := by simpa [Sys.allEv, m5] using he
    have := List.count_pos_iff.mpr he'
    have h3 : Event.pubW w ds ∈ s.env.pending := List.count_pos_iff.mp (by omega)
    exact List.mem_append.mpr (Or.inr h3)
  | notify1 =>
    simp only [step] at hs
    split at hs; · cases hs
    rename_i hc
    have hp : s.phase = .notifying := by simpa using hc
    have htodo : s.todo = [] := h1.todo_phase (by simp [hp]) (by simp [hp]) (by simp [hp])
    split at hs; · cases hs
    rename_i ev rest hib
    have hmem : ∀ e, e ∈ rest ++ s.env.pending → e ∈ s.allEv := by
      intro e he; simp only [Sys.allEv, hib, List.cons_append]; exact List.mem_cons_of_mem _ he
    have hhead : ev ∈ s.allEv := by simp [Sys.allEv, hib]
    split at hs
    · cases hs
    · cases hs
      exact hP.congr rfl rfl (fun _ h => h) (fun _ h => h) (fun w ds he => Or.inl (hmem _ he))
    · rename_i c2 hr
      cases hs
      by_cases hW : ∃ w ds, ev = .pubW w ds
      · obtain ⟨w, ds, rfl⟩ := hW
        obtain ⟨p1, p2, p3⟩ := notifyEvent_pubW_spec j s.ctl c2 w ds hr
        have hfl := h2.ev_flight w ds hhead
        have hnd := h2.flight_not_done w ds.task hfl
        have hran := h2.ev_ran w ds hhead
        refine ⟨?_, ?_, ?_, ?_⟩
        · intro w' d he
          have he' : Event.pubW w' d ∈ rest ++ s.env.pending := he
          have hm := hmem _ he'
          show c2.published d = false
          rw [p1]
          by_cases hd : d = ds
          · exfalso
            subst hd
            have hw : w' = w := hx.uniq w' w d.task (h2.ev_flight w' d hm) hfl
            subst hw
            have c1 := List.count_pos_iff.mpr he'
            have c2' := h2.ev_count w' d
            simp only [Sys.allEv, hib, List.cons_append, List.count_cons, beq_self_eq_true, if_true] at c2'
            omega
          · rw [upd_other _ _ _ _ hd]; exact hP.pub_once w' d hm
        · intro d hd
          have hd' : c2.published d = true := hd
          rw [p1] at hd'
          by_cases hdd : d = ds
          · subst hdd; exact hran
          · rw [upd_other _ _ _ _ hdd] at hd'; exact hP.pub_ran d hd'
        · intro d hd
          have hd' : c2.published d = true := hd
          show c2.announced d = true
          rw [p1] at hd'; rw [p2]
          by_cases hdd : d = ds
          · subst hdd; simp
          · rw [upd_other _ _ _ _ hdd] at hd' ⊢; exact hP.pub_announced d hd'
        · intro t ht
          show c2.doneC t = true ↔ ∀ k, k < j.nOut t → c2.published ⟨t, k⟩ = true
          rw [p1]
          by_cases htt : t = ds.task
          · subst htt
            rcases p3 with ⟨a1, a2⟩ | ⟨a1, a2⟩
            · rw [a2]; simp only [upd_same, true_iff]; exact a1
            · rw [a2, hnd]
              constructor
              · intro h; cases h
              · intro h; exact absurd h a1
          · have hk : ∀ k, upd s.ctl.published ds true ⟨t, k⟩ = s.ctl.published ⟨t, k⟩ := by
              intro k; apply upd_other; intro h; apply htt; rw [← h]
            simp only [hk]
            rcases p3 with ⟨_, a2⟩ | ⟨_, a2⟩
            · rw [a2, upd_other _ _ _ _ htt]; exact hP.done_iff t ht
            · rw [a2]; exact hP.done_iff t ht
      · have hne : ∀ w ds, ev ≠ .pubW w ds := fun w ds h => hW ⟨w, ds, h⟩
        obtain ⟨q1, q2, q3⟩ := notifyEvent_other_spec j s.ctl c2 ev hne hr
        exact hP.congr q1 q2 q3 (fun _ h => h) (fun w ds he => Or.inl (hmem _ he))
  | endNotify =>
    simp only [step] at hs; split at hs; · cases hs
    cases hs; exact hP.congr rfl rfl (fun _ h => h) (fun _ h => h) (fun _ _ h => Or.inl h)
  | env es =>
    simp only [step] at hs
    split at hs; · cases hs
    rw [envStepP_eq f j s.env es h1.no_trim] at hs
    cases he : envStep f j s.env es with
    | none => simp [he] at hs
    | some e' =>
      simp only [he, Option.map_some, Option.some.injEq] at hs
      subst hs
      cases es with
      | io i =>
        obtain ⟨g1, g2⟩ := iP_envStep_io f j s.env e' i he
        refine hP.congr rfl rfl (fun _ h => h) (fun t ht => by simpa [g1] using ht) ?_
        intro w ds hm; left
        simp only [Sys.allEv, List.mem_append] at hm ⊢
        rcases hm with hm | hm
        · exact Or.inl hm
        · exact Or.inr (g2 w ds hm)
      | run w t =>
        simp only [envStep] at he
        split at he
        · rename_i hc
          cases he
          obtain ⟨_, _, _, _, h5, _, _, h8⟩ := publishOutputs_frame f j w t
            ((j.inputs t).map (fun d => (s.env.present w.host d).getD ""))
            { s.env with queued := s.env.queued.erase (w, t), ran := upd s.env.ran t true }
          have hq : (w, t) ∈ s.env.queued := by
            simp only [Bool.and_eq_true, List.contains_iff_mem] at hc; exact hc.1
          have hnr : s.env.ran t = false := h2.queued_not_ran w t hq
          refine hP.congr rfl rfl (fun _ h => h) ?_ ?_
          · intro t' ht'
            simp only [h5]
            by_cases htt : t' = t
            · subst htt; simp
            · rw [upd_other _ _ _ _ htt]; exact ht'
          · intro w' ds hm
            simp only [Sys.allEv, h8, List.mem_append, List.mem_map] at hm
            rcases hm with hm | hm | ⟨d, hd, heq⟩
            · exact Or.inl (List.mem_append.mpr (Or.inl hm))
            · exact Or.inl (List.mem_append.mpr (Or.inr hm))
            · right
              simp only [Event.pubW.injEq] at heq
              obtain ⟨_, rfl⟩ := heq
              have htask : d.task = t := by
                simp only [Job.outputsOf, List.mem_map, List.mem_range] at hd
                obtain ⟨k, _, rfl⟩ := hd; rfl
              cases hpb : s.ctl.published d with
              | false => rfl
              | true => have := (hP.pub_ran d hpb).1; rw [htask, hnr] at this; cases this
        · cases he

end EkwVerif.Ctrl
