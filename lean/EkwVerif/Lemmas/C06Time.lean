/-
Helper lemmas for C06, timing: which steps leave `hosts` / the clock of an endpoint alone, what
`maybe_retry` does to one record, and the deadline potential. No property theorem lives here.
-/
import EkwVerif.Lemmas.C06Inv

namespace EkwVerif.Ack
open EkwVerif.Frames

/-- the sender-side fields of endpoint `a` that only `a`'s own `send`/`retry`/`popHost`/`tick` touch -/
theorem collect_sender {s : Sys} (hi : Inv s) (b a : Nat) :
    ((collect s b).ep a).hosts = (s.ep a).hosts ∧ ((collect s b).ep a).now = (s.ep a).now := by
  cases hin : (s.ep b).inbox with
  | nil => rw [collect_empty hin]; exact ⟨rfl, rfl⟩
  | cons fs rest =>
    have hok := hi.wire_inbox b fs (by simp [hin])
    rcases hok with ⟨a', i', m, h, rfl, hl, h0⟩ | ⟨i', c, rfl, hc⟩ | ⟨m, rfl⟩
    · cases hack : (s.ep b).acked i' a' with
      | true => rw [collect_data_dup_ep hin hack]; exact ⟨rfl, rfl⟩
      | false => rw [collect_data_new_ep hin hack]; exact ⟨rfl, rfl⟩
    · rw [collect_ack_ep hin]; exact ⟨rfl, rfl⟩
    · rw [collect_local_ep hin]; exact ⟨rfl, rfl⟩

theorem process_sender (s : Sys) (b a : Nat) (feeds stage : Bool) :
    ((process s b feeds stage).ep a).hosts = (s.ep a).hosts ∧ ((process s b feeds stage).ep a).now = (s.ep a).now := by
  cases hb : (s.ep b).batch with
  | nil => rw [process_empty feeds stage hb]; exact ⟨rfl, rfl⟩
  | cons d rest =>
    cases hd : d.isAck with
    | false => rw [process_msg_ep feeds stage hb hd]; exact ⟨rfl, rfl⟩
    | true =>
      obtain ⟨sy, body⟩ := d
      have : ∃ i', body = Parsed.msg (Msg.ack i') := by
        cases body with
        | msg m => cases m with
          | ack i' => exact ⟨i', rfl⟩
          | app m => simp [Delivery.isAck] at hd
        | payload h v => simp [Delivery.isAck] at hd
      obtain ⟨i', rfl⟩ := this
      rw [process_ack_ep feeds stage hb]; exact ⟨rfl, rfl⟩

theorem retryOne_sender (s : Sys) (b j a : Nat) :
    ((retryOne s b j).1.ep a).hosts = (s.ep a).hosts ∧ ((retryOne s b j).1.ep a).now = (s.ep a).now ∧
    ((retryOne s b j).1.ep a).grace = (s.ep a).grace := by
  rcases retryOne_cases s b j with h | ⟨r, d, hf⟩
  · rw [h]; exact ⟨rfl, rfl, rfl⟩
  · rw [retryOne_fire_ep hf]; exact ⟨rfl, rfl, rfl⟩

theorem retryList_sender (s : Sys) (b a : Nat) (l : List Nat) :
    ((retryList s b l).ep a).hosts = (s.ep a).hosts ∧ ((retryList s b l).ep a).now = (s.ep a).now ∧
    ((retryList s b l).ep a).grace = (s.ep a).grace := by
  induction l generalizing s with
  | nil => exact ⟨rfl, rfl, rfl⟩
  | cons j js ih =>
    simp only [retryList]; split
    · exact retryOne_sender s b j a
    · obtain ⟨h1, h2, h3⟩ := ih (retryOne s b j).1
      obtain ⟨g1, g2, g3⟩ := retryOne_sender s b j a
      exact ⟨h1.trans g1, h2.trans g2, h3.trans g3⟩

/-- `hosts[h]` of `a` changes only by `hosts.pop(h)` at `a` -/
theorem step_hosts {s : Sys} (hi : Inv s) (op : Op) (a h : Nat) (hop : op ≠ Op.popHost a h) :
    ((step s op).ep a).hosts h = (s.ep a).hosts h := by
  cases op with
  | send b h' m =>
    simp only [step]
    cases hh : (s.ep b).hosts h' with
    | none => rw [send_none_ep m hh]
    | some d => rw [send_some_ep m hh]
  | localMsg b m => simp [step, localMsg_ep]
  | drop k => simp [step, drop]
  | deliver k => simp only [step, deliver]; split <;> simp [arrive_ep]
  | dup k => simp only [step, dup]; split <;> simp [arrive_ep]
  | collect b => simp only [step]; rw [(collect_sender hi b a).1]
  | process b f st => simp only [step]; rw [(process_sender s b a f st).1]
  | commit b => simp [step, commit_ep]
  | abort b => simp [step, abort_ep]
  | retry b => simp only [step, retry]; rw [(retryList_sender s b a _).1]
  | tick b dt => simp [step, tick_ep]
  | popHost b h' =>
    simp only [step, popHost_ep]
    have : ¬ (a = b ∧ h = h') := by
      rintro ⟨rfl, rfl⟩; exact hop rfl
    simp [this]

theorem run_hosts {s : Sys} (hi : Inv s) (ops : List Op) (a h : Nat) (hop : Op.popHost a h ∉ ops) :
    ((run s ops).ep a).hosts h = (s.ep a).hosts h := by
  induction ops generalizing s with
  | nil => rfl
  | cons op ops ih =>
    simp only [run]
    rw [ih (step_inv hi op) (fun hm => hop (List.mem_cons_of_mem _ hm))]
    exact step_hosts hi op a h (fun he => hop (by simp [he]))

/-- the clock of `a` advances only by `tick a` -/
theorem step_now {s : Sys} (hi : Inv s) (op : Op) (a : Nat) (hop : ∀ dt, op ≠ Op.tick a dt) :
    ((step s op).ep a).now = (s.ep a).now := by
  cases op with
  | send b h' m =>
    simp only [step]
    cases hh : (s.ep b).hosts h' with
    | none => rw [send_none_ep m hh]
    | some d => rw [send_some_ep m hh]
  | localMsg b m => simp [step, localMsg_ep]
  | drop k => simp [step, drop]
  | deliver k => simp only [step, deliver]; split <;> simp [arrive_ep]
  | dup k => simp only [step, dup]; split <;> simp [arrive_ep]
  | collect b => simp only [step]; rw [(collect_sender hi b a).2]
  | process b f st => simp only [step]; rw [(process_sender s b a f st).2]
  | commit b => simp [step, commit_ep]
  | abort b => simp [step, abort_ep]
  | retry b => simp only [step, retry]; rw [(retryList_sender s b a _).2.1]
  | tick b dt =>
    simp only [step, tick_ep]
    have : ¬ a = b := by rintro rfl; exact hop dt rfl
    simp [this]
  | popHost b h' => simp [step, popHost_ep]

def NoTick (a : Nat) (ops : List Op) : Prop := ∀ dt, Op.tick a dt ∉ ops

theorem run_now {s : Sys} (hi : Inv s) (ops : List Op) (a : Nat) (hop : NoTick a ops) :
    ((run s ops).ep a).now = (s.ep a).now := by
  induction ops generalizing s with
  | nil => rfl
  | cons op ops ih =>
    simp only [run]
    rw [ih (step_inv hi op) (fun dt hm => hop dt (List.mem_cons_of_mem _ hm))]
    exact step_now hi op a (fun dt he => hop dt (by simp [he]))

/-- a run without `maybe_retry` at `a` leaves an in-flight record of an accepted message as it is, or removes it -/
theorem run_infl_same {s : Sys} (hi : Inv s) (ops : List Op) (a i : Nat) (r : Rec)
    (hlt : i < (s.ep a).idx) (hr : (s.ep a).inflight i = some r) (hops : Op.retry a ∉ ops) :
    ((run s ops).ep a).inflight i = some r ∨ ((run s ops).ep a).inflight i = none := by
  induction ops generalizing s with
  | nil => exact Or.inl hr
  | cons op ops ih =>
    simp only [run]
    have hop : op ≠ Op.retry a := fun he => hops (by simp [he])
    have hl := step_later hi op
    rcases step_infl hi op a i r hlt hr with ⟨r', hr', heq⟩ | ⟨hn, _⟩
    · rw [heq hop] at hr'
      exact ih (step_inv hi op) (Nat.lt_of_lt_of_le hlt (hl.idx a)) hr' (fun hm => hops (List.mem_cons_of_mem _ hm))
    · right
      exact ((run_later (step_inv hi op) ops).inflNone a i (Nat.lt_of_lt_of_le hlt (hl.idx a)) hn).1

/-- a record that has not expired is left alone by `maybe_retry` -/
theorem retryList_unexpired (a i : Nat) (r : Rec) :
    ∀ (l : List Nat) (s : Sys), (s.ep a).inflight i = some r → ¬ (r.sentAt + (s.ep a).grace < (s.ep a).now) →
      ((retryList s a l).ep a).inflight i = some r := by
  intro l
  induction l with
  | nil => intro s hr _; exact hr
  | cons j js ih =>
    intro s hr hne
    have h1 : ((retryOne s a j).1.ep a).inflight i = some r := by
      rcases retryOne_cases s a j with h | ⟨rj, d, hf⟩
      · rw [h]; exact hr
      · rw [retryOne_fire_ep hf]
        by_cases hji : i = j
        · subst hji
          obtain ⟨hr', hexp, _⟩ := hf
          rw [hr] at hr'; cases hr'
          exact absurd hexp hne
        · simp only [hji, and_false, if_false]; exact hr
    simp only [retryList]; split
    · exact h1
    · obtain ⟨_, g2, g3⟩ := retryOne_sender s a j a
      exact ih _ h1 (by rw [g2, g3]; exact hne)

/-- an expired record whose host is present is retransmitted by `maybe_retry` (unless an earlier
record makes it raise): afterwards its `at` is the current time and one retry is used up -/
theorem retryList_fires (a i : Nat) (r : Rec) (d : Nat) :
    ∀ (l : List Nat) (s : Sys), i ∈ l → (s.ep a).inflight i = some r →
      r.sentAt + (s.ep a).grace < (s.ep a).now → (s.ep a).hosts r.host = some d →
      ((retryList s a l).ep a).raised = true ∨
      ((retryList s a l).ep a).inflight i =
        some { r with sentAt := (s.ep a).now, remaining := r.remaining - 1 } := by
  intro l
  induction l with
  | nil => intro s hm; simp at hm
  | cons j js ih =>
    intro s hm hr hexp hh
    by_cases hji : j = i
    · subst hji
      have hf : Fires s a j r d := ⟨hr, hexp, hh⟩
      have hrec : ((retryOne s a j).1.ep a).inflight j =
          some { r with sentAt := (s.ep a).now, remaining := r.remaining - 1 } := by
        rw [retryOne_fire_ep hf]; simp
      simp only [retryList]; split
      · right; exact hrec
      · right
        obtain ⟨_, g2, g3⟩ := retryOne_sender s a j a
        refine retryList_unexpired a j _ js _ hrec ?_
        rw [g2, g3]; simp
    · have hm' : i ∈ js := by
        rcases List.mem_cons.mp hm with h | h
        · exact absurd h.symm hji
        · exact h
      rcases retryOne_cases s a j with h | ⟨rj, dj, hf⟩
      · simp only [retryList, h]
        exact ih s hm' hr hexp hh
      · simp only [retryList]
        split
        · rename_i hraise
          left
          rw [retryOne_fire_raise hf] at hraise
          rw [retryOne_fire_ep hf]; simp [hraise]
        · have hij : ¬ i = j := fun h => hji h.symm
          obtain ⟨g1, g2, g3⟩ := retryOne_sender s a j a
          have := ih (retryOne s a j).1 hm' (by rw [retryOne_fire_ep hf]; simp only [hij, and_false, if_false]; exact hr)
            (by rw [g2, g3]; exact hexp) (by rw [g1]; exact hh)
          rw [g2] at this
          rcases this with h | h
          · exact Or.inl h
          · exact Or.inr h

/-! ### the deadline potential -/

/-- A timed iteration of `a`'s loop: `pre` (steps of anybody while `a` is about to poll), `a`'s
blocking poll lasting `dt` ms, `body` (what the iteration does: receive, dispatch, own sends —
anything but `maybe_retry`), then `maybe_retry` at `a`. `a`'s clock advances only in the poll. -/
structure TIter where
  pre : List Op
  dt : Nat
  body : List Op

def TIter.ops (a : Nat) (x : TIter) : List Op := x.pre ++ [Op.tick a x.dt] ++ x.body ++ [Op.retry a]

def titersOps (a : Nat) : List TIter → List Op
  | [] => []
  | x :: xs => x.ops a ++ titersOps a xs

def totalDt : List TIter → Nat
  | [] => 0
  | x :: xs => x.dt + totalDt xs

/-- the iteration lasts at most `B` ms, and everything but its poll and its final `maybe_retry`
leaves `a`'s clock and `a`'s retry timer alone -/
def TIter.Ok (a B : Nat) (x : TIter) : Prop :=
  x.dt ≤ B ∧ Op.retry a ∉ x.pre ∧ Op.retry a ∉ x.body ∧ NoTick a x.pre ∧ NoTick a x.body

/-- progress towards "acknowledged or raised" measured in time: the record was last transmitted
at most `grace` ago (or nothing happened yet since time `N0`), and `k` further retransmissions,
each at most `D = grace + B` after the previous one, fit before `N0 + B + K * D`. -/
def ProgT (s : Sys) (a i h g B N0 K : Nat) : Prop :=
  (s.ep a).raised = true ∨ (s.ep a).hosts h = none ∨ (s.ep a).inflight i = none ∨
  ∃ (r' : Rec) (k : Nat), (s.ep a).inflight i = some r' ∧ r'.host = h ∧ r'.remaining ≤ (k : Int) ∧ k ≤ K ∧
    ((s.ep a).now ≤ r'.sentAt + g ∨ (s.ep a).now ≤ N0) ∧
    r'.sentAt + k * (g + B) ≤ N0 + B + K * (g + B)

theorem ProgT.later {s s' : Sys} {a i h g B N0 K : Nat} (hl : Later s s') (hlt : i < (s.ep a).idx)
    (hp : (s.ep a).raised = true ∨ (s.ep a).hosts h = none ∨ (s.ep a).inflight i = none) :
    ProgT s' a i h g B N0 K := by
  rcases hp with hp | hp | hp
  · exact Or.inl (hl.raised a hp)
  · exact Or.inr (Or.inl (hl.hostsNone a h hp))
  · exact Or.inr (Or.inr (Or.inl (hl.inflNone a i hlt hp).1))

theorem ProgT.afterIter {a i h g B N0 K : Nat} (x : TIter) (s : Sys) (hi : Inv s)
    (hlt : i < (s.ep a).idx) (hg : (s.ep a).grace = g) (hx : x.Ok a B) (hp : ProgT s a i h g B N0 K) :
    ProgT (run s (x.ops a)) a i h g B N0 K ∧ Inv (run s (x.ops a)) ∧ i < ((run s (x.ops a)).ep a).idx ∧
      ((run s (x.ops a)).ep a).grace = g ∧ ((run s (x.ops a)).ep a).now = (s.ep a).now + x.dt := by
  obtain ⟨hdt, hpre, hbody, htpre, htbody⟩ := hx
  -- the four phases
  have hi1 := run_inv hi x.pre
  have hl1 := run_later hi x.pre
  have hlt1 := Nat.lt_of_lt_of_le hlt (hl1.idx a)
  have hn1 := run_now hi x.pre a htpre
  have hi2 := tick_inv hi1 a x.dt
  have hl2 := tick_later (run s x.pre) a x.dt
  have hlt2 := Nat.lt_of_lt_of_le hlt1 (hl2.idx a)
  have hn2 : ((tick (run s x.pre) a x.dt).ep a).now = (s.ep a).now + x.dt := by
    rw [tick_ep]; simp [hn1]
  have hi3 := run_inv hi2 x.body
  have hl3 := run_later hi2 x.body
  have hlt3 := Nat.lt_of_lt_of_le hlt2 (hl3.idx a)
  have hn3 := run_now hi2 x.body a htbody
  have hi4 := retry_inv hi3 a
  have hl4 : Later _ (retry (run (tick (run s x.pre) a x.dt) x.body) a) := retryList_later hi3 a _
  have hlt4 := Nat.lt_of_lt_of_le hlt3 (hl4.idx a)
  have hn4 : ((retry (run (tick (run s x.pre) a x.dt) x.body) a).ep a).now = (s.ep a).now + x.dt := by
    simp only [retry]; rw [(retryList_sender _ a a _).2.1, hn3, hn2]
  have hg3 : ((run (tick (run s x.pre) a x.dt) x.body).ep a).grace = g := by
    rw [hl3.grace, hl2.grace, hl1.grace, hg]
  have hrun : run s (x.ops a) = retry (run (tick (run s x.pre) a x.dt) x.body) a := by
    simp [TIter.ops, run_append, run, step]
  rw [hrun]
  refine ⟨?_, hi4, hlt4, by rw [hl4.grace, hg3], hn4⟩
  have hl13 : Later s (run (tick (run s x.pre) a x.dt) x.body) := (hl1.trans hl2).trans hl3
  rcases hp with hp | hp | hp | ⟨r', k, hr', hh, hrem, hkK, hnow, hbound⟩
  · exact ProgT.later (hl13.trans hl4) hlt (Or.inl hp)
  · exact ProgT.later (hl13.trans hl4) hlt (Or.inr (Or.inl hp))
  · exact ProgT.later (hl13.trans hl4) hlt (Or.inr (Or.inr hp))
  · -- the record survives `pre`, the poll and `body` unchanged, or is acknowledged
    have hnone1 : ((run s x.pre).ep a).inflight i = none →
        ProgT (retry (run (tick (run s x.pre) a x.dt) x.body) a) a i h g B N0 K := fun h1 =>
      ProgT.later ((hl2.trans hl3).trans hl4) hlt1 (Or.inr (Or.inr h1))
    rcases run_infl_same hi x.pre a i r' hlt hr' hpre with h1 | h1
    · have h2 : ((tick (run s x.pre) a x.dt).ep a).inflight i = some r' := by rw [tick_ep]; exact h1
      rcases run_infl_same hi2 x.body a i r' hlt2 h2 hbody with h3 | h3
      · -- `maybe_retry`
        by_cases hexp : r'.sentAt + g < (s.ep a).now + x.dt
        · cases hhost : ((run (tick (run s x.pre) a x.dt) x.body).ep a).hosts r'.host with
          | none => exact ProgT.later hl4 hlt3 (Or.inr (Or.inl (by rw [← hh]; exact hhost)))
          | some d =>
            have := retryList_fires a i r' d (List.range (((run (tick (run s x.pre) a x.dt) x.body).ep a).idx + 1)) _
              (by simp; omega) h3 (by rw [hg3, hn3, hn2]; exact hexp) hhost
            rcases this with hra | hrec
            · exact Or.inl hra
            · cases k with
              | zero =>
                have := hi3.exhausted a i r' h3 hlt3 (by simpa using hrem)
                exact Or.inl (hl4.raised a this)
              | succ k' =>
                right; right; right
                refine ⟨_, k', hrec, hh, ?_, by omega, ?_, ?_⟩
                · simp only; push_cast at hrem; omega
                · left; rw [hn4, hn3, hn2]; simp
                · simp only [hn3, hn2]
                  have hmul : (k' + 1) * (g + B) = k' * (g + B) + (g + B) := Nat.succ_mul _ _
                  have hle : k' * (g + B) ≤ K * (g + B) := Nat.mul_le_mul_right _ (by omega)
                  rcases hnow with hnow | hnow <;> omega
        · have hrec := retryList_unexpired a i r' (List.range (((run (tick (run s x.pre) a x.dt) x.body).ep a).idx + 1)) _
            h3 (by rw [hg3, hn3, hn2]; exact hexp)
          right; right; right
          exact ⟨r', k, hrec, hh, hrem, hkK, Or.inl (by rw [hn4]; omega), hbound⟩
      · exact ProgT.later hl4 hlt3 (Or.inr (Or.inr h3))
    · exact hnone1 h1

theorem ProgT.afterIters {a i h g B N0 K : Nat} :
    ∀ (xs : List TIter) (s : Sys), Inv s → i < (s.ep a).idx → (s.ep a).grace = g →
      (∀ x ∈ xs, x.Ok a B) → ProgT s a i h g B N0 K →
      ProgT (run s (titersOps a xs)) a i h g B N0 K ∧ Inv (run s (titersOps a xs)) ∧
        i < ((run s (titersOps a xs)).ep a).idx ∧
        ((run s (titersOps a xs)).ep a).now = (s.ep a).now + totalDt xs := by
  intro xs
  induction xs with
  | nil => intro s hi hlt _ _ hp; exact ⟨hp, hi, hlt, rfl⟩
  | cons x xs ih =>
    intro s hi hlt hg hxs hp
    obtain ⟨hp1, hi1, hlt1, hg1, hn1⟩ := ProgT.afterIter x s hi hlt hg (hxs x (by simp)) hp
    obtain ⟨hp2, hi2, hlt2, hn2⟩ := ih _ hi1 hlt1 hg1 (fun y hy => hxs y (List.mem_cons_of_mem _ hy)) hp1
    simp only [titersOps, run_append, totalDt]
    exact ⟨hp2, hi2, hlt2, by rw [hn2, hn1]; omega⟩

end EkwVerif.Ack
