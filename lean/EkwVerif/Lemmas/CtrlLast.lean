/-
`InvL`: the controller infers the completion of a task only from the notice of its LAST output (in index =
declaration order), and never forgets an announcement. One more (small) tier of the base system's invariant.
Also: how `announced`, `doneC` and `inbox` move in one step (used by the non-atomic layer, Lemmas/CtrlN.lean).
-/
import EkwVerif.Lemmas.CtrlInvAll

namespace EkwVerif.Ctrl

def evDs : Event → Ds
  | .pubW _ ds => ds
  | .pubT _ ds => ds
  | .payload ds _ => ds

/-- one event: `announced` grows by at most the event's dataset; `doneC` grows by at most the task whose last output it is -/
theorem notifyEvent_ghosts (j : Job) (c c' : Ctl) (ev : Event) (hr : notifyEvent j c ev = .ok c') :
    (∀ ds, c'.announced ds = true → c.announced ds = true ∨ ds = evDs ev) ∧
    (∀ ds, c.announced ds = true → c'.announced ds = true) ∧
    (∀ t, c'.doneC t = true → c.doneC t = true ∨
        (∃ w ds, ev = .pubW w ds ∧ ds.task = t ∧ j.isLast ds = true ∧ c'.announced ds = true)) ∧
    (∀ t, c.doneC t = true → c'.doneC t = true) := by
  cases ev with
  | payload ds v =>
    simp only [notifyEvent, Except.ok.injEq] at hr; subst hr
    exact ⟨fun _ h => Or.inl h, fun _ h => h, fun _ h => Or.inl h, fun _ h => h⟩
  | pubT h ds =>
    simp only [notifyEvent, Except.ok.injEq] at hr; subst hr
    simp only [considerComputable_announced, considerFetch_announced, considerComputable_doneC, considerFetch_doneC,
      markAvailable_doneC, markAvailable, evDs]
    refine ⟨?_, ?_, fun _ h => Or.inl h, fun _ h => h⟩
    · intro d hd; by_cases hx : d = ds
      · exact Or.inr hx
      · rw [upd_other _ _ _ _ hx] at hd; exact Or.inl hd
    · intro d hd; by_cases hx : d = ds
      · subst hx; simp
      · rw [upd_other _ _ _ _ hx]; exact hd
  | pubW w ds =>
    simp only [notifyEvent] at hr
    have hA : ∀ d, (considerComputable (considerFetch j (markAvailable c w.host ds) ds w.host) ds).announced d =
        (upd c.announced ds true) d := by
      intro d; simp [markAvailable]
    have hD : (considerComputable (considerFetch j (markAvailable c w.host ds) ds w.host) ds).doneC = c.doneC := by simp
    split at hr
    · rename_i hlast
      split at hr
      · cases hr
      · rename_i c2 hci
        have a2 := completeInputs_announced _ _ _ _ _ hci
        have d2 := completeInputs_doneC _ _ _ _ _ hci
        split at hr
        · simp only [Except.ok.injEq] at hr; subst hr
          simp only [evDs]
          refine ⟨?_, ?_, ?_, ?_⟩
          · intro d hd; rw [a2, hA] at hd; by_cases hx : d = ds
            · exact Or.inr hx
            · rw [upd_other _ _ _ _ hx] at hd; exact Or.inl hd
          · intro d hd; rw [a2, hA]; by_cases hx : d = ds
            · subst hx; simp
            · rw [upd_other _ _ _ _ hx]; exact hd
          · intro t ht
            by_cases hx : t = ds.task
            · right; refine ⟨w, ds, rfl, hx.symm, hlast, ?_⟩
              rw [a2, hA]; simp
            · left; rw [upd_other _ _ _ _ hx, d2, hD] at ht; exact ht
          · intro t ht
            by_cases hx : t = ds.task
            · subst hx; simp
            · rw [upd_other _ _ _ _ hx, d2, hD]; exact ht
        · cases hr
    · simp only [Except.ok.injEq] at hr; subst hr
      simp only [evDs]
      refine ⟨?_, ?_, fun t h => Or.inl (by rw [hD] at h; exact h), fun t h => by rw [hD]; exact h⟩
      · intro d hd; rw [hA] at hd; by_cases hx : d = ds
        · exact Or.inr hx
        · rw [upd_other _ _ _ _ hx] at hd; exact Or.inl hd
      · intro d hd; rw [hA]; by_cases hx : d = ds
        · subst hx; simp
        · rw [upd_other _ _ _ _ hx]; exact hd

/-- how the ghosts move in one step of the base system -/
theorem step_ghosts (f : Sem) (j : Job) (cl : Cluster) (s s' : Sys) (st : Step) (hs : step f j cl s st = some s') :
    (∀ ds, s'.ctl.announced ds = true → s.ctl.announced ds = true ∨
        (st = .notify1 ∧ ∃ ev rest, s.inbox = ev :: rest ∧ ds = evDs ev ∧ (∀ w d, ev ≠ .payload d w))) ∧
    (∀ ds, s.ctl.announced ds = true → s'.ctl.announced ds = true) ∧
    (∀ t, s'.ctl.doneC t = true → s.ctl.doneC t = true ∨ ∃ ds, ds.task = t ∧ j.isLast ds = true ∧ s'.ctl.announced ds = true) ∧
    (∀ t, s.ctl.doneC t = true → s'.ctl.doneC t = true) ∧
    (∀ ev, ev ∈ s'.inbox → ev ∈ s.inbox ∨ ∃ evs, st = .recv evs ∧ ev ∈ evs) := by
  have same : ∀ (s s' : Sys), s'.ctl.announced = s.ctl.announced → s'.ctl.doneC = s.ctl.doneC → s'.inbox = s.inbox →
      (∀ ds, s'.ctl.announced ds = true → s.ctl.announced ds = true ∨
        (st = .notify1 ∧ ∃ ev rest, s.inbox = ev :: rest ∧ ds = evDs ev ∧ (∀ w d, ev ≠ .payload d w))) ∧
      (∀ ds, s.ctl.announced ds = true → s'.ctl.announced ds = true) ∧
      (∀ t, s'.ctl.doneC t = true → s.ctl.doneC t = true ∨ ∃ ds, ds.task = t ∧ j.isLast ds = true ∧ s'.ctl.announced ds = true) ∧
      (∀ t, s.ctl.doneC t = true → s'.ctl.doneC t = true) ∧
      (∀ ev, ev ∈ s'.inbox → ev ∈ s.inbox ∨ ∃ evs, st = .recv evs ∧ ev ∈ evs) := by
    intro s s' ha hd hi
    refine ⟨fun ds h => Or.inl (by rw [ha] at h; exact h), fun ds h => by rw [ha]; exact h,
      fun t h => Or.inl (by rw [hd] at h; exact h), fun t h => by rw [hd]; exact h, fun ev h => Or.inl (by rw [hi] at h; exact h)⟩
  cases st with
  | enter =>
    simp only [step] at hs
    split at hs; · cases hs
    split at hs <;> (cases hs; exact same _ _ rfl rfl rfl)
  | assign a =>
    simp only [step] at hs
    split at hs; · cases hs
    split at hs
    · cases hs
    · cases hs; exact same _ _ rfl rfl rfl
    · rename_i c p hr
      cases hs
      obtain ⟨f1, f2, _⟩ := i2a_assignOne_frames _ _ _ _ _ _ hr
      exact same _ _ f2 f1 rfl
  | endAssign => simp only [step] at hs; split at hs; · cases hs
                 cases hs; exact same _ _ rfl rfl rfl
  | plan1 =>
    simp only [step] at hs
    split at hs; · cases hs
    split at hs; · cases hs
    split at hs
    · cases hs
    · cases hs; exact same _ _ rfl rfl rfl
    · rename_i c hr
      cases hs
      obtain ⟨f1, f2, _⟩ := i2a_planOne_frames _ _ _ _ _ hr
      exact same _ _ f2 f1 rfl
  | endPlan => simp only [step] at hs; split at hs; · cases hs
               cases hs; exact same _ _ rfl rfl rfl
  | flushF1 =>
    simp only [step] at hs
    split at hs; · cases hs
    split at hs; · cases hs
    cases hs
    exact same _ _ (by simp) (by simp) rfl
  | endFlushF => simp only [step] at hs; split at hs; · cases hs
                 cases hs; exact same _ _ rfl rfl rfl
  | flushP1 =>
    simp only [step] at hs
    split at hs; · cases hs
    split at hs; · cases hs
    split at hs
    · cases hs
    · cases hs; exact same _ _ rfl rfl rfl
    · rename_i c cmds hr
      cases hs
      exact same _ _ (by simp [purgeHosts_announced _ _ _ _ _ _ hr]) (by simp [purgeHosts_doneC _ _ _ _ _ _ hr]) rfl
  | endFlush => simp only [step] at hs; split at hs; · cases hs
                cases hs; exact same _ _ rfl rfl rfl
  | recv evs =>
    simp only [step] at hs
    split at hs; · cases hs
    split at hs; · cases hs
    cases hs
    refine ⟨fun ds h => Or.inl h, fun ds h => h, fun t h => Or.inl h, fun t h => h, fun ev h => Or.inr ⟨evs, rfl, h⟩⟩
  | notify1 =>
    simp only [step] at hs
    split at hs; · cases hs
    split at hs; · cases hs
    rename_i ev rest hin
    split at hs
    · cases hs
    · cases hs
      refine ⟨fun ds h => Or.inl h, fun ds h => h, fun t h => Or.inl h, fun t h => h, ?_⟩
      intro e he; left; rw [hin]; exact List.mem_cons_of_mem _ he
    · rename_i c hr
      cases hs
      obtain ⟨g1, g2, g3, g4⟩ := notifyEvent_ghosts _ _ _ _ hr
      refine ⟨?_, g2, ?_, g4, ?_⟩
      · intro ds h
        rcases g1 ds h with h' | h'
        · exact Or.inl h'
        · by_cases hp : ∃ w d, ev = .payload d w
          · obtain ⟨w, d, rfl⟩ := hp
            simp only [notifyEvent, Except.ok.injEq] at hr; subst hr
            exact Or.inl h
          · exact Or.inr ⟨rfl, ev, rest, hin, h', fun w d he => hp ⟨w, d, he⟩⟩
      · intro t h
        rcases g3 t h with h' | ⟨w, ds, _, h1, h2, h3⟩
        · exact Or.inl h'
        · exact Or.inr ⟨ds, h1, h2, h3⟩
      · intro e he; left; rw [hin]; exact List.mem_cons_of_mem _ he
  | endNotify => simp only [step] at hs; split at hs; · cases hs
                 cases hs; exact same _ _ rfl rfl rfl
  | env es =>
    simp only [step] at hs
    split at hs; · cases hs
    cases he : envStep f j s.env es with
    | none => simp [he] at hs
    | some e => simp only [he, Option.map_some, Option.some.injEq] at hs; subst hs; exact same _ _ rfl rfl rfl

def InvL (j : Job) (s : Sys) : Prop := ∀ t, s.ctl.doneC t = true → s.ctl.announced ⟨t, j.nOut t - 1⟩ = true

theorem invL_init (j : Job) (cl : Cluster) : InvL j (Sys.init j cl) := by
  intro t h; simp [Sys.init, initCtl] at h

theorem isLast_eq (j : Job) (ds : Ds) (h : j.isLast ds = true) : ds = ⟨ds.task, j.nOut ds.task - 1⟩ := by
  unfold Job.isLast at h
  have : ds.out + 1 = j.nOut ds.task := by simpa using h
  cases ds with
  | mk t o => simp only [Ds.mk.injEq, true_and]; simp only at this; omega

theorem invL_step (f : Sem) (j : Job) (cl : Cluster) (s s' : Sys) (st : Step) (h : InvL j s)
    (hs : step f j cl s st = some s') : InvL j s' := by
  obtain ⟨_, g2, g3, _, _⟩ := step_ghosts f j cl s s' st hs
  intro t ht
  rcases g3 t ht with h' | ⟨ds, h1, h2, h3⟩
  · exact g2 _ (h t h')
  · have := isLast_eq j ds h2
    rw [h1] at this; rw [← this]; exact h3

theorem invL_reachable (f : Sem) (j : Job) (cl : Cluster) (s : Sys) (hr : Reachable f j cl s) : InvL j s := by
  induction hr with
  | init => exact invL_init j cl
  | step s s' st _ hs ih => exact invL_step f j cl s s' st ih hs

end EkwVerif.Ctrl
