/-
`InvL`: the controller infers the completion of a task only once the notices of ALL its outputs have been processed
(in particular of the LAST one, in index = declaration order), and never forgets an announcement.
Also: how `announced`, `doneC` and `inbox` move in one step (used by the non-atomic layer, Lemmas/CtrlN.lean).
-/
import EkwVerif.Lemmas.CtrlInvAll

namespace EkwVerif.Ctrl

def evDs : Event → Ds
  | .pubW _ ds => ds
  | .pubT _ ds => ds
  | .payload ds _ => ds

/-- one event: `announced` grows by at most the event's dataset; `doneC` grows by at most the task of a worker's notice,
and only when the notices of ALL outputs of that task have been processed -/
theorem notifyEvent_ghosts (j : Job) (c c' : Ctl) (ev : Event) (hr : notifyEvent j c ev = .ok c') :
    (∀ ds, c'.announced ds = true → c.announced ds = true ∨ ds = evDs ev) ∧
    (∀ ds, c.announced ds = true → c'.announced ds = true) ∧
    (∀ t, c'.doneC t = true → c.doneC t = true ∨
        (∃ w ds, ev = .pubW w ds ∧ ds.task = t ∧ ∀ k, k < j.nOut t → c'.published ⟨t, k⟩ = true)) ∧
    (∀ t, c.doneC t = true → c'.doneC t = true) := by
  cases ev with
  | payload ds v =>
    simp only [notifyEvent, Except.ok.injEq] at hr; subst hr
    exact ⟨fun _ h => Or.inl h, fun _ h => h, fun _ h => Or.inl h, fun _ h => h⟩
  | pubT h ds =>
    simp only [notifyEvent, Except.ok.injEq] at hr; subst hr
    simp only [considerComputable_announced, considerFetch_announced, considerComputable_doneC, considerFetch_doneC,
      markAvailable_doneC, markAvailable, evDs]
    refine ⟨?_, ?_, fun _ h => Or.inl h, fun _ h => h⟩
    · intro d hd; by_cases hx : d = ds
      · exact Or.inr hx
      · rw [upd_other _ _ _ _ hx] at hd; exact Or.inl hd
    · intro d hd; by_cases hx : d = ds
      · subst hx; simp
      · rw [upd_other _ _ _ _ hx]; exact hd
  | pubW w ds =>
    obtain ⟨p1, p2, p3⟩ := notifyEvent_pubW_spec j c c' w ds hr
    simp only [evDs]
    refine ⟨?_, ?_, ?_, ?_⟩
    · intro d hd; rw [p2] at hd; by_cases hx : d = ds
      · exact Or.inr hx
      · rw [upd_other _ _ _ _ hx] at hd; exact Or.inl hd
    · intro d hd; rw [p2]; by_cases hx : d = ds
      · subst hx; simp
      · rw [upd_other _ _ _ _ hx]; exact hd
    · intro t ht
      rcases p3 with ⟨a1, a2⟩ | ⟨_, a2⟩
      · by_cases hx : t = ds.task
        · right; subst hx; exact ⟨w, ds, rfl, rfl, by rw [p1]; exact a1⟩
        · left; rw [a2, upd_other _ _ _ _ hx] at ht; exact ht
      · left; rw [a2] at ht; exact ht
    · intro t ht
      rcases p3 with ⟨_, a2⟩ | ⟨_, a2⟩
      · rw [a2]; by_cases hx : t = ds.task
        · subst hx; simp
        · rw [upd_other _ _ _ _ hx]; exact ht
      · rw [a2]; exact ht

/-- how the ghosts move in one step of the base system -/
theorem step_ghosts (f : Sem) (j : Job) (cl : Cluster) (s s' : Sys) (st : Step) (hs : step f j cl s st = some s') :
    (∀ ds, s'.ctl.announced ds = true → s.ctl.announced ds = true ∨
        (st = .notify1 ∧ ∃ ev rest, s.inbox = ev :: rest ∧ ds = evDs ev ∧ (∀ w d, ev ≠ .payload d w))) ∧
    (∀ ds, s.ctl.announced ds = true → s'.ctl.announced ds = true) ∧
    (∀ t, s'.ctl.doneC t = true → s.ctl.doneC t = true ∨ ∀ k, k < j.nOut t → s'.ctl.published ⟨t, k⟩ = true) ∧
    (∀ t, s.ctl.doneC t = true → s'.ctl.doneC t = true) ∧
    (∀ ev, ev ∈ s'.inbox → ev ∈ s.inbox ∨ ∃ evs, st = .recv evs ∧ ev ∈ evs) := by
  have same : ∀ (s s' : Sys), s'.ctl.announced = s.ctl.announced → s'.ctl.doneC = s.ctl.doneC → s'.inbox = s.inbox →
      (∀ ds, s'.ctl.announced ds = true → s.ctl.announced ds = true ∨
        (st = .notify1 ∧ ∃ ev rest, s.inbox = ev :: rest ∧ ds = evDs ev ∧ (∀ w d, ev ≠ .payload d w))) ∧
      (∀ ds, s.ctl.announced ds = true → s'.ctl.announced ds = true) ∧
      (∀ t, s'.ctl.doneC t = true → s.ctl.doneC t = true ∨ ∀ k, k < j.nOut t → s'.ctl.published ⟨t, k⟩ = true) ∧
      (∀ t, s.ctl.doneC t = true → s'.ctl.doneC t = true) ∧
      (∀ ev, ev ∈ s'.inbox → ev ∈ s.inbox ∨ ∃ evs, st = .recv evs ∧ ev ∈ evs) := by
    intro s s' ha hd hi
    refine ⟨fun ds h => Or.inl (by rw [ha] at h; exact h), fun ds h => by rw [ha]; exact h,
      fun t h => Or.inl (by rw [hd] at h; exact h), fun t h => by rw [hd]; exact h, fun ev h => Or.inl (by rw [hi] at h; exact h)⟩
  cases st with
  | enter =>
    simp only [step] at hs
    split at hs; · cases hs
    split at hs <;> (cases hs; exact same _ _ rfl rfl rfl)
  | assign a =>
    simp only [step] at hs
    split at hs; · cases hs
    split at hs
    · cases hs
    · cases hs; exact same _ _ rfl rfl rfl
    · rename_i c p hr
      cases hs
      obtain ⟨f1, f2, _⟩ := i2a_assignOne_frames _ _ _ _ _ _ hr
      exact same _ _ f2 f1 rfl
  | endAssign => simp only [step] at hs; split at hs; · cases hs
                 cases hs; exact same _ _ rfl rfl rfl
  | plan1 =>
    simp only [step] at hs
    split at hs; · cases hs
    split at hs; · cases hs
    split at hs
    · cases hs
    · cases hs; exact same _ _ rfl rfl rfl
    · rename_i c hr
      cases hs
      obtain ⟨f1, f2, _⟩ := i2a_planOne_frames _ _ _ _ _ hr
      exact same _ _ f2 f1 rfl
  | endPlan => simp only [step] at hs; split at hs; · cases hs
               cases hs; exact same _ _ rfl rfl rfl
  | flushF1 =>
    simp only [step] at hs
    split at hs; · cases hs
    split at hs; · cases hs
    cases hs
    exact same _ _ (by simp) (by simp) rfl
  | endFlushF => simp only [step] at hs; split at hs; · cases hs
                 cases hs; exact same _ _ rfl rfl rfl
  | flushP1 =>
    simp only [step] at hs
    split at hs; · cases hs
    split at hs; · cases hs
    split at hs
    · cases hs
    · cases hs; exact same _ _ rfl rfl rfl
    · rename_i c cmds hr
      cases hs
      exact same _ _ (by simp [purgeHosts_announced _ _ _ _ _ _ hr]) (by simp [purgeHosts_doneC _ _ _ _ _ _ hr]) rfl
  | endFlush => simp only [step] at hs; split at hs; · cases hs
                cases hs; exact same _ _ rfl rfl rfl
  | recv evs =>
    simp only [step] at hs
    split at hs; · cases hs
    split at hs; · cases hs
    cases hs
    refine ⟨fun ds h => Or.inl h, fun ds h => h, fun t h => Or.inl h, fun t h => h, fun ev h => Or.inr ⟨evs, rfl, h⟩⟩
  | notify1 =>
    simp only [step] at hs
    split at hs; · cases hs
    split at hs; · cases hs
    rename_i ev rest hin
    split at hs
    · cases hs
    · cases hs
      refine ⟨fun ds h => Or.inl h, fun ds h => h, fun t h => Or.inl h, fun t h => h, ?_⟩
      intro e he; left; rw [hin]; exact List.mem_cons_of_mem _ he
    · rename_i c hr
      cases hs
      obtain ⟨g1, g2, g3, g4⟩ := notifyEvent_ghosts _ _ _ _ hr
      refine ⟨?_, g2, ?_, g4, ?_⟩
      · intro ds h
        rcases g1 ds h with h' | h'
        · exact Or.inl h'
        · by_cases hp : ∃ w d, ev = .payload d w
          · obtain ⟨w, d, rfl⟩ := hp
            simp only [notifyEvent, Except.ok.injEq] at hr; subst hr
            exact Or.inl h
          · exact Or.inr ⟨rfl, ev, rest, hin, h', fun w d he => hp ⟨w, d, he⟩⟩
      · intro t h
        rcases g3 t h with h' | ⟨w, ds, _, _, h3⟩
        · exact Or.inl h'
        · exact Or.inr h3
      · intro e he; left; rw [hin]; exact List.mem_cons_of_mem _ he
  | endNotify => simp only [step] at hs; split at hs; · cases hs
                 cases hs; exact same _ _ rfl rfl rfl
  | env es =>
    simp only [step] at hs
    split at hs; · cases hs
    cases he : envStepP f j s.env es with
    | none => simp [he] at hs
    | some e => simp only [he, Option.map_some, Option.some.injEq] at hs; subst hs; exact same _ _ rfl rfl rfl

/-- a task whose completion was seen has had the notices of ALL its outputs processed: every output announced -/
def InvL (j : Job) (s : Sys) : Prop := ∀ t, s.ctl.doneC t = true → ∀ k, k < j.nOut t → s.ctl.announced ⟨t, k⟩ = true

theorem invL_of_invAll (f : Sem) (j : Job) (cl : Cluster) (s : Sys) (h : InvAll f j cl s) : InvL j s := by
  intro t ht k hk
  have hlen := (h.h2.ran_disp t (h.h2.done_ran t ht)).2
  exact h.hP.pub_announced _ ((h.hP.done_iff t hlen).mp ht k hk)

theorem invL_reachable (f : Sem) (j : Job) (cl : Cluster) (wf : WF j cl) (s : Sys) (hr : Reachable f j cl s) : InvL j s :=
  invL_of_invAll f j cl s (invAll_reachable f j cl wf s hr)

/-- in particular the LAST output (in index = declaration order) has been announced -/
theorem invL_last (f : Sem) (j : Job) (cl : Cluster) (wf : WF j cl) (s : Sys) (hr : Reachable f j cl s) (t : Task)
    (ht : s.ctl.doneC t = true) : s.ctl.announced ⟨t, j.nOut t - 1⟩ = true := by
  have h := invAll_reachable f j cl wf s hr
  have hlen := (h.h2.ran_disp t (h.h2.done_ran t ht)).2
  have := wf.nout t hlen
  exact invL_reachable f j cl wf s hr t ht (j.nOut t - 1) (by omega)

end EkwVerif.Ctrl
