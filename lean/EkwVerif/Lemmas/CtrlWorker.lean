/-
"Not already busy" at full strength (audit C02 #3): a worker has AT MOST ONE task in flight (`InvW`), and in the
non-atomic layer a running body (started, not all outputs published) is in flight on exactly the worker it was started
on — so an idle worker has nothing queued AND no body running, and the model never starts a second body on a worker.
-/
import EkwVerif.Lemmas.CtrlN
import EkwVerif.Lemmas.SchedLive
import EkwVerif.Lemmas.CtrlPub

set_option linter.unusedVariables false
set_option linter.unusedSimpArgs false

namespace EkwVerif.Ctrl

/-- how `inFlight` moves in one step: only an assignment to an idle worker adds a pair -/
theorem step_flight (f : Sem) (j : Job) (cl : Cluster) (s s' : Sys) (st : Step) (h1 : Inv1 cl s)
    (hs : step f j cl s st = some s') :
    ∀ w t, s'.inFlight w t → s.inFlight w t ∨ (∃ a, st = .assign a ∧ w = a.worker ∧ t = a.task ∧ a.worker ∈ s.ctl.idle) := by
  have same : ∀ s2 : Sys, s2.ctl.ongoing = s.ctl.ongoing → s2.todo = s.todo →
      ∀ w t, s2.inFlight w t → s.inFlight w t ∨ (∃ a, st = .assign a ∧ w = a.worker ∧ t = a.task ∧ a.worker ∈ s.ctl.idle) := by
    intro s2 ho ht w t hf
    left
    simp only [Sys.inFlight, Sys.todoPairs, ho, ht] at hf ⊢
    exact hf
  cases st with
  | enter =>
    simp only [step] at hs
    split at hs; · cases hs
    rename_i hp
    have hp' : s.phase = .top := by simpa using hp
    have htodo : s.todo = [] := h1.todo_phase (by simp [hp']) (by simp [hp']) (by simp [hp'])
    split at hs
    · cases hs; exact same _ rfl rfl
    · cases hs; exact same _ rfl htodo.symm
  | endAssign => simp only [step] at hs; split at hs; · cases hs
                 cases hs; exact same _ rfl rfl
  | endPlan => simp only [step] at hs; split at hs; · cases hs
               cases hs; exact same _ rfl rfl
  | endFlushF => simp only [step] at hs; split at hs; · cases hs
                 cases hs; exact same _ rfl rfl
  | endFlush => simp only [step] at hs; split at hs; · cases hs
                cases hs; exact same _ rfl rfl
  | endNotify => simp only [step] at hs; split at hs; · cases hs
                 cases hs; exact same _ rfl rfl
  | recv evs =>
    simp only [step] at hs
    split at hs; · cases hs
    split at hs
    · cases hs
    · cases hs; exact same _ rfl rfl
  | env es =>
    simp only [step] at hs
    split at hs; · cases hs
    cases he : envStepP f j s.env es with
    | none => simp [he] at hs
    | some e => simp only [he, Option.map_some, Option.some.injEq] at hs; subst hs; exact same _ rfl rfl
  | flushF1 =>
    simp only [step] at hs
    split at hs; · cases hs
    split at hs
    · cases hs
    · cases hs; exact same _ (by simp) rfl
  | flushP1 =>
    simp only [step] at hs
    split at hs; · cases hs
    split at hs
    · cases hs
    · split at hs
      · cases hs
      · cases hs; exact same _ rfl rfl
      · rename_i c2 cmds hph
        cases hs
        exact same _ (by simpa using purgeHosts_ongoing _ _ _ _ _ _ hph) rfl
  | plan1 =>
    simp only [step] at hs
    split at hs; · cases hs
    split at hs
    · cases hs
    · rename_i a prep rest htd
      split at hs
      · cases hs
      · cases hs; exact same _ rfl rfl
      · rename_i c2 hpl
        cases hs
        obtain ⟨_, _, _, _, _, f6, _⟩ := planOne_frames j s.ctl c2 a prep hpl
        intro w t hf
        left
        simp only [Sys.inFlight, Sys.todoPairs, f6, htd, List.map_cons, List.mem_append, List.mem_singleton,
          List.mem_cons] at hf ⊢
        grind
  | notify1 =>
    simp only [step] at hs
    split at hs; · cases hs
    split at hs
    · cases hs
    · rename_i ev rest hib
      split at hs
      · cases hs
      · cases hs; exact same _ rfl rfl
      · rename_i c2 hne
        cases hs
        obtain ⟨_, hw⟩ := notifyEvent_workers j s.ctl c2 ev hne
        rcases hw with ⟨_, hon⟩ | ⟨w0, t0, _, hon, _, _⟩
        · exact same _ hon rfl
        · intro w t hf
          left
          simp only [Sys.inFlight, Sys.todoPairs, hon] at hf ⊢
          rcases hf with hf | hf
          · exact Or.inl (List.mem_of_mem_erase hf)
          · exact Or.inr hf
  | assign a =>
    simp only [step] at hs
    split at hs; · cases hs
    split at hs
    · cases hs
    · cases hs; exact same _ rfl rfl
    · rename_i c2 prep has
      cases hs
      obtain ⟨_, _, _, _, hidle, _, hon', _⟩ := once_assignOne j cl s.ctl c2 a prep h1.once has
      intro w t hf
      simp only [Sys.inFlight, Sys.todoPairs, hon', List.map_append, List.map_cons, List.map_nil, List.mem_append,
        List.mem_singleton] at hf ⊢
      rcases hf with hf | hf | hf
      · exact Or.inl (Or.inl hf)
      · exact Or.inl (Or.inr hf)
      · simp only [Prod.mk.injEq] at hf
        exact Or.inr ⟨a, rfl, hf.1, hf.2, hidle⟩

/-- **At most one task is in flight on a worker.** -/
def InvW (s : Sys) : Prop := ∀ w t t', s.inFlight w t → s.inFlight w t' → t = t'

theorem invW_step (f : Sem) (j : Job) (cl : Cluster) (s s' : Sys) (st : Step) (h1 : Inv1 cl s) (hW : InvW s)
    (hs : step f j cl s st = some s') : InvW s' := by
  intro w t t' hf hf'
  rcases step_flight f j cl s s' st h1 hs w t hf with h | ⟨a, rfl, rfl, rfl, hi⟩
  · rcases step_flight f j cl s s' st h1 hs w t' hf' with h' | ⟨a, rfl, rfl, rfl, hi⟩
    · exact hW w t t' h h'
    · exact absurd h (h1.idle_free _ hi t)
  · rcases step_flight f j cl s s' _ h1 hs a.worker t' hf' with h' | ⟨a', he, _, rfl, _⟩
    · exact absurd h' (h1.idle_free _ hi t')
    · simp only [Step.assign.injEq] at he; rw [he]

theorem invW_reachable (f : Sem) (j : Job) (cl : Cluster) (hw : cl.ids.Nodup) (s : Sys) (hr : Reachable f j cl s) :
    InvW s := by
  induction hr with
  | init => intro w t t' hf; simp [Sys.inFlight, Sys.todoPairs, Sys.init, initCtl] at hf
  | step s s' st hx hs ih => exact invW_step f j cl s s' st (inv1_reach f j cl hw s hx) ih hs

/-- a body that has run stays run -/
theorem step_ran_mono (f : Sem) (j : Job) (cl : Cluster) (s s' : Sys) (st : Step) (h1 : Inv1 cl s)
    (hs : step f j cl s st = some s') (t : Task) (ht : s.env.ran t = true) : s'.env.ran t = true := by
  cases st with
  | enter => simp only [step] at hs; split at hs; · cases hs
             split at hs <;> (cases hs; exact ht)
  | endAssign => simp only [step] at hs; split at hs; · cases hs
                 cases hs; exact ht
  | endPlan => simp only [step] at hs; split at hs; · cases hs
               cases hs; exact ht
  | endFlushF => simp only [step] at hs; split at hs; · cases hs
                 cases hs; exact ht
  | endFlush => simp only [step] at hs; split at hs; · cases hs
                cases hs; exact ht
  | endNotify => simp only [step] at hs; split at hs; · cases hs
                 cases hs; exact ht
  | recv evs =>
    simp only [step] at hs
    split at hs; · cases hs
    split at hs
    · cases hs
    · cases hs
      show (markDelivered _ evs).ran t = true
      rw [(i2b_markDelivered_frame evs _).2.1]; exact ht
  | env es =>
    simp only [step] at hs
    split at hs; · cases hs
    rw [envStepP_eq f j s.env es h1.no_trim] at hs
    cases he : envStep f j s.env es with
    | none => simp [he] at hs
    | some e =>
      simp only [he, Option.map_some, Option.some.injEq] at hs; subst hs
      cases es with
      | run w t0 =>
        obtain ⟨_, _, r3, _⟩ := i2a_envStep_run f j s.env e w t0 he
        show e.ran t = true
        rw [r3]
        by_cases hh : t = t0
        · subst hh; simp
        · rw [upd_other _ _ _ _ hh]; exact ht
      | io i =>
        obtain ⟨r1, _⟩ := i2a_envStep_io f j s.env e i he
        show e.ran t = true
        rw [r1]; exact ht
  | flushF1 =>
    simp only [step] at hs
    split at hs; · cases hs
    split at hs
    · cases hs
    · rename_i ds hst rest hq
      cases hs
      show (applyCmd j cl s.env (.fetch ds hst)).ran t = true
      rw [(i2b_applyCmd_frame j cl s.env _).1]; exact ht
  | flushP1 =>
    simp only [step] at hs
    split at hs; · cases hs
    split at hs
    · cases hs
    · split at hs
      · cases hs
      · cases hs; exact ht
      · cases hs
        show (applyCmds j cl s.env _).ran t = true
        rw [(i2b_applyCmds_frame j cl _ s.env).1]; exact ht
  | plan1 =>
    simp only [step] at hs
    split at hs; · cases hs
    split at hs
    · cases hs
    · split at hs
      · cases hs
      · cases hs; exact ht
      · cases hs; exact ht
  | notify1 =>
    simp only [step] at hs
    split at hs; · cases hs
    split at hs
    · cases hs
    · split at hs
      · cases hs
      · cases hs; exact ht
      · cases hs; exact ht
  | assign a =>
    simp only [step] at hs
    split at hs; · cases hs
    split at hs
    · cases hs
    · cases hs; exact ht
    · cases hs
      show (applyCmds j cl s.env _).ran t = true
      rw [(i2b_applyCmds_frame j cl _ s.env).1]; exact ht

/-- the hidden (computed, unpublished) outputs belong to bodies that have started -/
def InvN2 (x : SysN) : Prop := ∀ ds, x.hidden ds = true → x.sys.env.ran ds.task = true

theorem invN2_step (f : Sem) (j : Job) (cl : Cluster) (x x' : SysN) (st : StepN) (h1 : Inv1 cl x.sys) (h : InvN2 x)
    (hs : stepN f j cl x st = some x') : InvN2 x' := by
  cases st with
  | start w t =>
    simp only [stepN] at hs
    split at hs; · cases hs
    cases he : step f j cl x.sys (.env (.run w t)) with
    | none => simp [he] at hs
    | some s' =>
      simp only [he, Option.map_some, Option.some.injEq] at hs; subst hs
      intro ds hd
      simp only [hideOutputs, Bool.or_eq_true, Bool.and_eq_true, beq_iff_eq, decide_eq_true_eq] at hd
      rcases hd with ⟨hdt, _⟩ | hd
      · -- the body of `t` has just started
        simp only [step] at he
        split at he; · cases he
        rw [envStepP_eq f j x.sys.env _ h1.no_trim] at he
        cases he2 : envStep f j x.sys.env (.run w t) with
        | none => simp [he2] at he
        | some e =>
          simp only [he2, Option.map_some, Option.some.injEq] at he; subst he
          obtain ⟨_, _, r3, _⟩ := i2a_envStep_run f j x.sys.env e w t he2
          show e.ran ds.task = true
          rw [r3, hdt]; simp
      · exact step_ran_mono f j cl x.sys s' _ h1 he ds.task (h ds hd)
  | yield t =>
    simp only [stepN] at hs
    split at hs
    · cases hs
    · rename_i k hk
      cases hs
      intro ds hd
      by_cases hx : ds = ⟨t, k⟩
      · subst hx; simp at hd
      · have : x.hidden ds = true := by
          have : upd x.hidden ⟨t, k⟩ false ds = x.hidden ds := upd_other _ _ _ _ hx
          rw [← this]; exact hd
        exact h ds this
  | base b =>
    simp only [stepN] at hs
    split at hs
    · cases he : step f j cl x.sys b with
      | none => simp [he] at hs
      | some s' =>
        simp only [he, Option.map_some, Option.some.injEq] at hs; subst hs
        intro ds hd
        exact step_ran_mono f j cl x.sys s' b h1 he ds.task (h ds hd)
    · cases hs

theorem invN2_reachable (f : Sem) (j : Job) (cl : Cluster) (hw : cl.ids.Nodup) (x : SysN) (hr : ReachableN f j cl x) :
    InvN2 x := by
  induction hr with
  | init => intro ds hd; simp [SysN.init] at hd
  | step x x' st hx hs ih =>
    exact invN2_step f j cl x x' st (inv1_reach f j cl hw _ (reachableN_sys f j cl x hx)) ih hs

/-- **A running body is in flight on its worker**: a task with a computed, unpublished output has run, has not been
notified complete, and is therefore in flight — on exactly one worker, and no longer queued. -/
theorem running_in_flight (f : Sem) (j : Job) (cl : Cluster) (wf : WF j cl) (x : SysN) (hr : ReachableN f j cl x)
    (t : Task) (hrun : x.running j t = true) :
    ∃ w, x.sys.inFlight w t ∧ (∀ w', x.sys.inFlight w' t → w' = w) ∧ (∀ w', (w', t) ∉ x.sys.env.queued) := by
  have hb := reachableN_sys f j cl x hr
  have hA := invAll_reachable f j cl wf x.sys hb
  have hN := invN_reachable f j cl wf x hr
  have hN2 := invN2_reachable f j cl wf.workersNodup x hr
  unfold SysN.running isRunning at hrun
  cases hk : nextHidden j x.hidden t with
  | none => simp [hk] at hrun
  | some k =>
    obtain ⟨n1, n2, _⟩ := nextHidden_spec j x.hidden t k hk
    have hran : x.sys.env.ran t = true := hN2 ⟨t, k⟩ n1
    have hd1 := (hA.h2.ran_disp t hran).1
    have hnd : x.sys.ctl.doneC t = false := by
      cases hd : x.sys.ctl.doneC t with
      | false => rfl
      | true =>
        have := invL_reachable f j cl wf x.sys hb t hd k n2
        rw [hN.unannounced ⟨t, k⟩ n1] at this; cases this
    rcases (sL_reachable f j cl wf x.sys hb).disp_flight_or_done t hd1 with ⟨w, hf⟩ | hd
    · refine ⟨w, hf, fun w' hf' => hA.h2x.uniq w' w t hf' hf, ?_⟩
      intro w' hq
      have := hA.h2.queued_not_ran w' t hq
      rw [hran] at this; cases this
    · rw [hnd] at hd; cases hd

end EkwVerif.Ctrl
