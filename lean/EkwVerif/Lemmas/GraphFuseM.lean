/-
Helper lemmas for Props/C11.lean: `fuse_nodes` with callbacks that may answer by mutating `current`
(`FuseFuncM`): total correctness, well-formed result, values of the sinks.
-/
import EkwVerif.Lemmas.GraphFuseTotal

namespace EkwVerif.Graph

/-- Soundness of a (possibly mutating) fusion callback under `I`: whatever the answer's identity, its
CONTENT `F` has distinct input names, refers only to what the parent `P` or the current node `C` refer to,
keeps `C`'s other inputs under their names, declares at least `C`'s outputs and, whenever `C`'s input `cin`
carries `P`'s output `pout`, computes what `C` computes. -/
def FuseSoundM {V : Type} (I : Interp V) (func : FuseFuncM) : Prop :=
  ∀ (P C : Node) (A : FuseAns) (pout cin : Name), func P pout C cin = some A →
    (P.inputs.map (·.1)).Nodup → (C.inputs.map (·.1)).Nodup →
    (A.node.inputs.map (·.1)).Nodup ∧
    (∀ x ∈ A.node.inputs, (∃ y ∈ P.inputs, y.2 = x.2) ∨ (∃ y ∈ C.inputs, y.2 = x.2)) ∧
    (∀ (k : Name) (r : Ref), k ≠ cin → C.inputs.lookup k = some r → A.node.inputs.lookup k = some r) ∧
    (∀ o ∈ C.outputs, o ∈ A.node.outputs) ∧
    (∀ env : Ref → Option V, (C.inputs.lookup cin).bind env = some (nodeVal I env P pout) →
        nodeVal I env A.node = nodeVal I env C)

namespace Aux
variable {V : Type}

/-- what the loop keeps true of `result` and of the original object -/
structure GoodM (I : Interp V) (out : List Node) (outs : List Name) (v : Name → V) (m : Node) : Prop where
  keys : (m.inputs.map (·.1)).Nodup
  refs : ∀ y ∈ m.inputs, RefOKIn out y.2
  val : nodeVal I (storeEnv I out) m = v
  outs : ∀ o ∈ outs, o ∈ m.outputs

theorem refOKIn_lt {out : List Node} {r : Ref} (h : RefOKIn out r) : r.1 < out.length := by
  obtain ⟨m, hm, _⟩ := h
  exact (List.getElem?_eq_some_iff.1 hm).1

theorem fuseLoopM_spec (I : Interp V) (func : FuseFuncM) (hs : FuseSoundM I func) (s : FuseSt) (hwf : WFNodes s.out)
    (C0 : Node) (outs : List Name) (v : Name → V) (xs : List (Name × Ref)) :
    (xs.map (·.1)).Nodup →
    (∀ x ∈ xs, ∃ r, C0.inputs.lookup x.1 = some r ∧ storeEnv I s.out r = storeEnv I s.out x.2 ∧ x.2.1 < s.out.length) →
    ∀ (acc : FuseLoopSt), GoodM I s.out outs v acc.cur → GoodM I s.out outs v acc.selfc →
      (∀ x ∈ xs, acc.cur.inputs.lookup x.1 = C0.inputs.lookup x.1) →
      GoodM I s.out outs v (fuseLoopM func s xs acc).cur ∧ GoodM I s.out outs v (fuseLoopM func s xs acc).selfc := by
  induction xs with
  | nil => intro _ _ acc h1 h2 _; exact ⟨h1, h2⟩
  | cons x xs ih =>
    intro hnd hxs acc h1 h2 h4
    have hnd' : (xs.map (·.1)).Nodup := (List.nodup_cons.1 hnd).2
    have hxs' : ∀ x' ∈ xs, ∃ r, C0.inputs.lookup x'.1 = some r ∧ storeEnv I s.out r = storeEnv I s.out x'.2 ∧
        x'.2.1 < s.out.length := fun x' hx' => hxs x' (by simp [hx'])
    have h4' : ∀ x' ∈ xs, acc.cur.inputs.lookup x'.1 = C0.inputs.lookup x'.1 := fun x' hx' => h4 x' (by simp [hx'])
    simp only [fuseLoopM]
    split
    · exact ih hnd' hxs' acc h1 h2 h4'
    · cases hP : s.out[x.2.1]? with
      | none => simp only; exact ih hnd' hxs' acc h1 h2 h4'
      | some P =>
        simp only
        cases hf : func P x.2.2 acc.cur x.1 with
        | none => simp only; exact ih hnd' hxs' acc h1 h2 h4'
        | some A =>
          simp only
          obtain ⟨hPnd, hPrefs⟩ := refOKIn_of_wf s.out hwf x.2.1 P hP
          obtain ⟨hFnd, hFrefs, hFkeep, hFouts, hFsem⟩ := hs P acc.cur A x.2.2 x.1 hf hPnd h1.keys
          obtain ⟨r, hr1, hr2, hr3⟩ := hxs x (by simp)
          have hb := refsBack_of_wf s.out hwf
          have hpre : (acc.cur.inputs.lookup x.1).bind (storeEnv I s.out) = some (nodeVal I (storeEnv I s.out) P x.2.2) := by
            rw [h4 x (by simp), hr1]
            simp only [Option.bind_some]
            rw [hr2, storeEnv_eq, eval_eq_nodeVal I s.out hb x.2.1 P hP]
            rfl
          have hgF : GoodM I s.out outs v A.node := by
            refine ⟨hFnd, ?_, by rw [hFsem _ hpre]; exact h1.val, fun o ho => hFouts o (h1.outs o ho)⟩
            intro y hy
            rcases hFrefs y hy with ⟨z, hz, hzy⟩ | ⟨z, hz, hzy⟩
            · rw [← hzy]; exact hPrefs z hz
            · rw [← hzy]; exact h1.refs z hz
          refine ih hnd' hxs' _ hgF ?_ ?_
          · show GoodM I s.out outs v (if (A.inplace && acc.isSelf) = true then A.node else acc.selfc)
            split
            · exact hgF
            · exact h2
          · intro x' hx'
            have hne : x'.1 ≠ x.1 := by
              intro e
              have hnm := (List.nodup_cons.1 hnd).1
              exact hnm (List.mem_map.2 ⟨x', hx', e⟩)
            obtain ⟨r', hr', _⟩ := hxs' x' hx'
            have := h4' x' hx'
            rw [hr'] at this
            show A.node.inputs.lookup x'.1 = _
            rw [hFkeep x'.1 r' hne this, hr']

/-- Invariant of the traversal (structure and values). -/
structure FMInv (I : Interp V) (pre : List Node) (st : FuseSt × List Nat) : Prop where
  wf : WFNodes st.1.out
  doneLen : st.2.length = pre.length
  origLen : st.1.orig.length = pre.length
  doneOut : ∀ (i : Nat) (n : Node), pre[i]? = some n →
    ∃ t m, st.2[i]? = some t ∧ st.1.out[t]? = some m ∧ (∀ o ∈ n.outputs, o ∈ m.outputs) ∧ eval I st.1.out t = eval I pre i
  origOut : ∀ (i : Nat) (n : Node), pre[i]? = some n →
    ∃ t m, st.1.orig[i]? = some t ∧ st.1.out[t]? = some m ∧ (∀ o ∈ n.outputs, o ∈ m.outputs) ∧ eval I st.1.out t = eval I pre i

/-- a node appended to the store has the value `nodeVal` gives it in the store's own environment -/
theorem eval_snoc_good (I : Interp V) (out : List Node) (m : Node) (more : List Node) :
    eval I (out ++ [m] ++ more) out.length = some (nodeVal I (storeEnv I out) m) := by
  rw [eval_append _ _ _ _ (by simp)]
  exact eval_snoc_last I out m

theorem nodeVal_store_append (I : Interp V) (out more : List Node) (m : Node) (h : ∀ y ∈ m.inputs, y.2.1 < out.length) :
    nodeVal I (storeEnv I (out ++ more)) m = nodeVal I (storeEnv I out) m := by
  apply nodeVal_congr
  intro x hx
  exact storeEnv_append _ _ _ _ (h x hx)

theorem vals_remap (I : Interp V) (pre out : List Node) (d : List Nat) (a : Node) (hok : NodeOK pre a)
    (hd : ∀ (i : Nat) (n : Node), pre[i]? = some n →
      ∃ t m, d[i]? = some t ∧ out[t]? = some m ∧ (∀ o ∈ n.outputs, o ∈ m.outputs) ∧ eval I out t = eval I pre i) :
    nodeVal I (storeEnv I out) { a with inputs := remap d a.inputs } = nodeVal I (storeEnv I pre) a := by
  apply nodeVal_remap
  intro x hx
  obtain ⟨m0, hm0, _⟩ := hok.2 x hx
  obtain ⟨t, m, h1, _, _, h4⟩ := hd _ _ hm0
  simp only [List.getD_eq_getElem?_getD, h1, Option.getD_some, storeEnv_eq, h4]

theorem fuseNodeM_eq (func : FuseFuncM) (counts : List Nat) (s : FuseSt) (n : Node) (ins : List (Name × Ref)) :
    fuseNodeM func counts s n ins =
      let r := fuseLoopM func s ins { cur := { n with inputs := remap s.orig n.inputs }, fused := false,
                                      selfc := { n with inputs := remap s.orig n.inputs }, isSelf := true }
      if r.fused = true then
        if r.isSelf = true then
          .ok ({ out := s.out ++ [r.cur], cnt := s.cnt ++ [counts.getD s.orig.length 0], orig := s.orig ++ [s.out.length] },
               s.out.length)
        else
          .ok ({ out := s.out ++ [r.selfc, r.cur],
                 cnt := s.cnt ++ [counts.getD s.orig.length 0, counts.getD s.orig.length 0],
                 orig := s.orig ++ [s.out.length] }, s.out.length + 1)
      else
        .ok ({ out := s.out ++ [{ n with inputs := ins }], cnt := s.cnt ++ [counts.getD s.orig.length 0],
               orig := s.orig ++ [s.out.length] }, s.out.length) := rfl

theorem fuseM_step (I : Interp V) (func : FuseFuncM) (hs : FuseSoundM I func) (counts : List Nat) (pre : List Node) (a : Node)
    (hok : NodeOK pre a) (st : FuseSt × List Nat) (hinv : FMInv I pre st) :
    ∃ st', step (fuserM func counts) st a = .ok st' ∧ FMInv I (pre ++ [a]) st' := by
  obtain ⟨s, done⟩ := st
  obtain ⟨hwf, hdl, hol, hdo, hoo⟩ := hinv
  simp only at hwf hdl hol hdo hoo
  have hdo' : ∀ (i : Nat) (n : Node), pre[i]? = some n →
      ∃ t m, done[i]? = some t ∧ s.out[t]? = some m ∧ ∀ o ∈ n.outputs, o ∈ m.outputs :=
    fun i n hn => by obtain ⟨t, m, h1, h2, h3, _⟩ := hdo i n hn; exact ⟨t, m, h1, h2, h3⟩
  have hoo' : ∀ (i : Nat) (n : Node), pre[i]? = some n →
      ∃ t m, s.orig[i]? = some t ∧ s.out[t]? = some m ∧ ∀ o ∈ n.outputs, o ∈ m.outputs :=
    fun i n hn => by obtain ⟨t, m, h1, h2, h3, _⟩ := hoo i n hn; exact ⟨t, m, h1, h2, h3⟩
  have hti : transInputs (fuserM func counts) s done a.inputs = .ok (remap done a.inputs) := by
    apply transInputs_total (fuserM func counts) s s.out (fun _ _ => rfl)
    intro x hx
    obtain ⟨m0, hm0, ho⟩ := hok.2 x hx
    obtain ⟨t, m, h1, h2, h3⟩ := hdo' _ _ hm0
    exact ⟨t, m, h1, h2, h3 _ ho⟩
  have hUrefs := refs_remap pre s.out done a hok hdo'
  have hCrefs := refs_remap pre s.out s.orig a hok hoo'
  have hnd : ∀ d : List Nat, ((remap d a.inputs).map (·.1)).Nodup := fun d => by rw [remap_keys]; exact hok.1
  have hUv := vals_remap I pre s.out done a hok hdo
  have hCv := vals_remap I pre s.out s.orig a hok hoo
  have hlast : eval I (pre ++ [a]) pre.length = some (nodeVal I (storeEnv I pre) a) := eval_snoc_last I pre a
  have hgC : GoodM I s.out a.outputs (nodeVal I (storeEnv I pre) a) { a with inputs := remap s.orig a.inputs } :=
    ⟨hnd s.orig, hCrefs, hCv, fun o ho => ho⟩
  -- the loop
  have hxs : ∀ x ∈ remap done a.inputs, ∃ r, ({ a with inputs := remap s.orig a.inputs } : Node).inputs.lookup x.1 = some r ∧
      storeEnv I s.out r = storeEnv I s.out x.2 ∧ x.2.1 < s.out.length := by
    intro x hx
    have hxr := refOKIn_lt (hUrefs x hx)
    simp only [remap, List.mem_map] at hx
    obtain ⟨x0, hx0, rfl⟩ := hx
    refine ⟨(s.orig.getD x0.2.1 0, x0.2.2), ?_, ?_, hxr⟩
    · show (remap s.orig a.inputs).lookup x0.1 = _
      rw [lookup_remap, lookup_of_mem hok.1 (k := x0.1) (v := x0.2) hx0]
      rfl
    · obtain ⟨m0, hm0, _⟩ := hok.2 x0 hx0
      obtain ⟨t, m, h1, _, _, h4⟩ := hdo _ _ hm0
      obtain ⟨t', m', h1', _, _, h4'⟩ := hoo _ _ hm0
      simp only [List.getD_eq_getElem?_getD, h1, h1', Option.getD_some, storeEnv_eq, h4, h4']
  have hloop := fuseLoopM_spec I func hs s hwf { a with inputs := remap s.orig a.inputs } a.outputs
    (nodeVal I (storeEnv I pre) a) (remap done a.inputs) (hnd done) hxs
    { cur := { a with inputs := remap s.orig a.inputs }, fused := false,
      selfc := { a with inputs := remap s.orig a.inputs }, isSelf := true } hgC hgC (fun _ _ => rfl)
  obtain ⟨hgF, hgS⟩ := hloop
  have hnew : ∀ (i : Nat) (n : Node), ¬ i < pre.length → (pre ++ [a])[i]? = some n → i = pre.length ∧ n = a := by
    intro i n hi hn
    have hlt := (List.getElem?_eq_some_iff.1 hn).1
    simp at hlt
    have : i = pre.length := by omega
    subst this
    simp at hn
    exact ⟨rfl, hn.symm⟩
  have hold : ∀ (d : List Nat) (e : List Node) (t' : Nat),
      (∀ (i : Nat) (n : Node), pre[i]? = some n →
        ∃ t m, d[i]? = some t ∧ s.out[t]? = some m ∧ (∀ o ∈ n.outputs, o ∈ m.outputs) ∧ eval I s.out t = eval I pre i) →
      ∀ (i : Nat) (n : Node), i < pre.length → (pre ++ [a])[i]? = some n →
        ∃ t m, (d ++ [t'])[i]? = some t ∧ (s.out ++ e)[t]? = some m ∧ (∀ o ∈ n.outputs, o ∈ m.outputs) ∧
          eval I (s.out ++ e) t = eval I (pre ++ [a]) i := by
    intro d e t' hd i n hi hn
    rw [List.getElem?_append_left hi] at hn
    obtain ⟨t, m, h1, h2, h3, h4⟩ := hd i n hn
    have htl : t < s.out.length := (List.getElem?_eq_some_iff.1 h2).1
    exact ⟨t, m, get_append_of_some h1 _, get_append_of_some h2 _, h3,
      by rw [eval_append _ _ _ _ htl, eval_append _ _ _ _ hi]; exact h4⟩
  simp only [step, hti, nodeVisit_node_only (fuserM func counts) _ rfl rfl rfl rfl]
  rw [show fuseNodeM func counts s a (remap done a.inputs) = _ from fuseNodeM_eq func counts s a (remap done a.inputs)]
  simp only
  generalize hr : fuseLoopM func s (remap done a.inputs)
    { cur := { a with inputs := remap s.orig a.inputs }, fused := false,
      selfc := { a with inputs := remap s.orig a.inputs }, isSelf := true } = r at hgF hgS ⊢
  by_cases hfu : r.fused = true
  · rw [if_pos hfu]
    by_cases hse : r.isSelf = true
    · -- the original object, mutated, is the result
      rw [if_pos hse]
      have hev : eval I (s.out ++ [r.cur]) s.out.length = eval I (pre ++ [a]) pre.length := by
        have := eval_snoc_good I s.out r.cur []
        rw [List.append_nil] at this
        rw [this, hlast, hgF.val]
      refine ⟨_, rfl, ?_, by simp [hdl], by simp [hol], ?_, ?_⟩
      · exact (wf_snoc _ _).2 ⟨hwf, hgF.keys, hgF.refs⟩
      · intro i n hn
        by_cases hi : i < pre.length
        · exact hold done _ _ hdo i n hi hn
        · obtain ⟨rfl, rfl⟩ := hnew i n hi hn
          exact ⟨s.out.length, r.cur, by simp only; rw [← hdl]; simp, by simp, hgF.outs, hev⟩
      · intro i n hn
        by_cases hi : i < pre.length
        · exact hold s.orig _ _ hoo i n hi hn
        · obtain ⟨rfl, rfl⟩ := hnew i n hi hn
          exact ⟨s.out.length, r.cur, by simp only; rw [← hol]; simp, by simp, hgF.outs, hev⟩
    · rw [if_neg hse]
      have hout : s.out ++ [r.selfc, r.cur] = s.out ++ [r.selfc] ++ [r.cur] := by simp
      have hevS : eval I (s.out ++ [r.selfc] ++ [r.cur]) s.out.length = eval I (pre ++ [a]) pre.length := by
        rw [eval_snoc_good I s.out r.selfc [r.cur], hlast, hgS.val]
      have hevF : eval I (s.out ++ [r.selfc] ++ [r.cur]) (s.out.length + 1) = eval I (pre ++ [a]) pre.length := by
        have h1 := eval_snoc_last I (s.out ++ [r.selfc]) r.cur
        simp only [List.length_append, List.length_singleton] at h1
        rw [h1, hlast]
        congr 1
        have := nodeVal_store_append I s.out [r.selfc] r.cur (fun y hy => refOKIn_lt (hgF.refs y hy))
        exact this.trans hgF.val
      refine ⟨_, rfl, ?_, by simp [hdl], by simp [hol], ?_, ?_⟩
      · show WFNodes (s.out ++ [r.selfc, r.cur])
        rw [hout]
        exact (wf_snoc _ _).2 ⟨(wf_snoc _ _).2 ⟨hwf, hgS.keys, hgS.refs⟩, hgF.keys, fun y hy => (hgF.refs y hy).mono _⟩
      · intro i n hn
        by_cases hi : i < pre.length
        · exact hold done _ _ hdo i n hi hn
        · obtain ⟨rfl, rfl⟩ := hnew i n hi hn
          refine ⟨s.out.length + 1, r.cur, by simp only; rw [← hdl]; simp, by simp, hgF.outs, ?_⟩
          simp only; rw [hout]; exact hevF
      · intro i n hn
        by_cases hi : i < pre.length
        · exact hold s.orig _ _ hoo i n hi hn
        · obtain ⟨rfl, rfl⟩ := hnew i n hi hn
          refine ⟨s.out.length, r.selfc, by simp only; rw [← hol]; simp, by simp, hgS.outs, ?_⟩
          simp only; rw [hout]; exact hevS
  · rw [if_neg hfu]
    have hev : eval I (s.out ++ [{ a with inputs := remap done a.inputs }]) s.out.length = eval I (pre ++ [a]) pre.length := by
      have := eval_snoc_good I s.out { a with inputs := remap done a.inputs } []
      rw [List.append_nil] at this
      rw [this, hlast, hUv]
    refine ⟨_, rfl, ?_, by simp [hdl], by simp [hol], ?_, ?_⟩
    · exact (wf_snoc _ _).2 ⟨hwf, hnd done, hUrefs⟩
    · intro i n hn
      by_cases hi : i < pre.length
      · exact hold done _ _ hdo i n hi hn
      · obtain ⟨rfl, rfl⟩ := hnew i n hi hn
        exact ⟨s.out.length, { n with inputs := remap done n.inputs }, by simp only; rw [← hdl]; simp, by simp, fun o ho => ho, hev⟩
    · intro i n hn
      by_cases hi : i < pre.length
      · exact hold s.orig _ _ hoo i n hi hn
      · obtain ⟨rfl, rfl⟩ := hnew i n hi hn
        exact ⟨s.out.length, { n with inputs := remap done n.inputs }, by simp only; rw [← hol]; simp, by simp, fun o ho => ho, hev⟩

theorem fuseM_run (I : Interp V) (func : FuseFuncM) (hs : FuseSoundM I func) (counts : List Nat) (ns : List Node)
    (hwf : WFNodes ns) : ∃ st, run (fuserM func counts) {} ns = .ok st ∧ FMInv I ns st := by
  refine foldE_inv (step (fuserM func counts)) ns (FMInv I) ({}, []) ?_ ?_
  · exact ⟨trivial, rfl, rfl, fun i n hn => by simp at hn, fun i n hn => by simp at hn⟩
  · intro pre a post b hl hb
    exact fuseM_step I func hs counts pre a (wf_split pre a post (hl ▸ hwf)).2 b hb

/-! ### the model without mutation is the instance "every answer is fresh" -/

/-- a `FuseFunc` as a `FuseFuncM` whose answers are all fresh nodes -/
def freshAns (func : FuseFunc) : FuseFuncM := fun P po C ci => (func P po C ci).map fun f => { node := f, inplace := false }

theorem fuseLoopM_fresh (func : FuseFunc) (s : FuseSt) (xs : List (Name × Ref)) :
    ∀ (acc : FuseLoopSt), acc.isSelf = !acc.fused →
      (fuseLoopM (freshAns func) s xs acc).cur = (fuseLoop func s xs (acc.cur, acc.fused)).1 ∧
      (fuseLoopM (freshAns func) s xs acc).fused = (fuseLoop func s xs (acc.cur, acc.fused)).2 ∧
      (fuseLoopM (freshAns func) s xs acc).selfc = acc.selfc ∧
      (fuseLoopM (freshAns func) s xs acc).isSelf = !(fuseLoop func s xs (acc.cur, acc.fused)).2 := by
  induction xs with
  | nil => intro acc h; exact ⟨rfl, rfl, rfl, h⟩
  | cons x xs ih =>
    intro acc h
    simp only [fuseLoopM, fuseLoop]
    split
    · exact ih acc h
    · cases hP : s.out[x.2.1]? with
      | none => simp only; exact ih acc h
      | some P =>
        simp only [freshAns]
        cases hf : func P x.2.2 acc.cur x.1 with
        | none => simp only [Option.map_none]; exact ih acc h
        | some F =>
          simp only [Option.map_some, Bool.false_and, Bool.false_eq_true, if_false]
          exact ih { cur := F, fused := true, selfc := acc.selfc, isSelf := false } rfl

theorem fuseNodeM_fresh (func : FuseFunc) (counts : List Nat) (s : FuseSt) (n : Node) (ins : List (Name × Ref)) :
    fuseNodeM (freshAns func) counts s n ins = fuseNode func counts s n ins := by
  rw [fuseNodeM_eq, fuseNode_eq]
  obtain ⟨h1, h2, h3, h4⟩ := fuseLoopM_fresh func s ins
    { cur := { n with inputs := remap s.orig n.inputs }, fused := false,
      selfc := { n with inputs := remap s.orig n.inputs }, isSelf := true } rfl
  simp only at h1 h2 h3 h4 ⊢
  rw [h2]
  by_cases hr : (fuseLoop func s ins ({ n with inputs := remap s.orig n.inputs }, false)).2 = true
  · rw [if_pos hr, if_pos hr]
    rw [hr] at h4
    rw [h4, h1, h3]
    simp
  · rw [if_neg hr, if_neg hr]

theorem fuseGraphM_fresh (func : FuseFunc) (g : Graph) : fuseGraphM (freshAns func) g = fuseGraph func g := by
  unfold fuseGraphM fuseGraph
  have : fuserM (freshAns func) (countEdges g.nodes) = fuser func (countEdges g.nodes) := by
    unfold fuserM fuser
    congr 2
    funext s n ins
    exact fuseNodeM_fresh func (countEdges g.nodes) s n ins
  rw [this]

/-- the harness' mutating callback is sound whenever the fresh one is -/
theorem inlineFuseM_sound (I : Interp V) (hI : RespectsFused I) (accept inplace : Node → Name → Node → Name → Bool) :
    FuseSoundM I (inlineFuseM accept inplace) := by
  intro P C A pout cin hA hP hC
  simp only [inlineFuseM] at hA
  cases hf : inlineFuse accept P pout C cin with
  | none => simp [hf] at hA
  | some F =>
    simp only [hf, Option.map_some, Option.some.injEq] at hA
    subst hA
    obtain ⟨h1, h2, h3, h4⟩ := inlineFuse_sound I hI accept P C F pout cin hf hP hC
    refine ⟨h1, h2, h3, ?_, h4⟩
    intro o ho
    simp only [inlineFuse] at hf
    split at hf
    · cases hf
    · split at hf
      · cases hf
      · split at hf
        · cases hf
        · cases hf; exact ho

end Aux
end EkwVerif.Graph
