/-
C16 helper lemmas, part 4: the DP of `enrich` (value, shortest descendant paths) and the python
fallback of `nearest_common_descendant`.
-/
import EkwVerif.Lemmas.C16Layers

set_option linter.unusedSectionVars false
set_option linter.unusedVariables false

namespace EkwVerif.Presched

variable {α : Type} [DecidableEq α]

/-- there is a directed path with exactly `n` edges from `a` to `b` -/
def Reach (ch : α → List α) : Nat → α → α → Prop
  | 0, a, b => a = b
  | n + 1, a, b => ∃ c ∈ ch a, Reach ch n c b

/-- `k` is the distance from `v` to the nearest sink (task without consumers) -/
def NearestSink (ch : α → List α) (v : α) (k : Nat) : Prop :=
  (∃ s, ch s = [] ∧ Reach ch k v s) ∧ ∀ j s, ch s = [] → Reach ch j v s → k ≤ j

namespace Aux

theorem reach_closed {ch : α → List α} {S : α → Prop} (hS : ∀ a, S a → ∀ c ∈ ch a, S c) :
    ∀ n a b, Reach ch n a b → S a → S b := by
  intro n
  induction n with
  | zero => intro a b h ha; simp only [Reach] at h; subst h; exact ha
  | succ n ih =>
    intro a b h ha
    obtain ⟨c, hc, hr⟩ := h
    exact ih c b hr (hS a ha c hc)

/-! ### rows -/

/-- what `paths[v]` must hold -/
structure RowSpec (ch : α → List α) (v : α) (row : Row α) : Prop where
  keys_nodup : (keys row).Nodup
  sound : ∀ d k, dlookup row d = some k → Reach ch k v d
  complete : ∀ n d, Reach ch n v d → ∃ k, dlookup row d = some k ∧ k ≤ n

theorem mergeRow_spec (L : Nat) (S : α → Nat → Prop) :
    ∀ (other row : Row α), (keys row).Nodup → (∀ d k, dlookup row d = some k → S d k) →
      (∀ p ∈ other, S p.1 (p.2 + 1) ∧ p.2 + 1 ≤ L) →
      (keys (mergeRow L row other)).Nodup ∧
      (∀ d k, dlookup (mergeRow L row other) d = some k → S d k) ∧
      (∀ d k, dlookup row d = some k → ∃ k', dlookup (mergeRow L row other) d = some k' ∧ k' ≤ k) ∧
      (∀ p ∈ other, ∃ k', dlookup (mergeRow L row other) p.1 = some k' ∧ k' ≤ p.2 + 1) := by
  intro other
  induction other with
  | nil =>
    intro row hn hs _
    refine ⟨hn, hs, ?_, ?_⟩
    · intro d k h; exact ⟨k, h, Nat.le_refl _⟩
    · intro p hp; simp at hp
  | cons p other ih =>
    intro row hn hs ho
    have hp := ho p (by simp)
    have hn1 : (keys (dset row p.1 (min (rowGet L row p.1) (p.2 + 1)))).Nodup := nodup_keys_dset hn
    have hs1 : ∀ d k, dlookup (dset row p.1 (min (rowGet L row p.1) (p.2 + 1))) d = some k → S d k := by
      intro d k h
      rw [dlookup_dset] at h
      by_cases hd : p.1 = d
      · subst hd
        simp only [↓reduceIte, Option.some.injEq] at h
        subst h
        unfold rowGet
        cases hl : dlookup row p.1 with
        | none =>
          simp only [Option.getD_none]
          rw [Nat.min_eq_right hp.2]
          exact hp.1
        | some k0 =>
          simp only [Option.getD_some]
          rcases Nat.le_total k0 (p.2 + 1) with h1 | h1
          · rw [Nat.min_eq_left h1]; exact hs _ _ hl
          · rw [Nat.min_eq_right h1]; exact hp.1
      · rw [if_neg hd] at h
        exact hs d k h
    have hm1 : ∀ d k, dlookup row d = some k →
        ∃ k', dlookup (dset row p.1 (min (rowGet L row p.1) (p.2 + 1))) d = some k' ∧ k' ≤ k := by
      intro d k h
      rw [dlookup_dset]
      by_cases hd : p.1 = d
      · subst hd
        refine ⟨min (rowGet L row p.1) (p.2 + 1), by simp, ?_⟩
        unfold rowGet
        rw [h]
        exact Nat.min_le_left _ _
      · rw [if_neg hd]
        exact ⟨k, h, Nat.le_refl _⟩
    obtain ⟨i1, i2, i3, i4⟩ := ih _ hn1 hs1 (fun q hq => ho q (List.mem_cons_of_mem _ hq))
    have hfold : mergeRow L row (p :: other) =
        mergeRow L (dset row p.1 (min (rowGet L row p.1) (p.2 + 1))) other := by
      simp [mergeRow]
    rw [hfold]
    refine ⟨i1, i2, ?_, ?_⟩
    · intro d k h
      obtain ⟨k1, h1, h2⟩ := hm1 d k h
      obtain ⟨k2, h3, h4⟩ := i3 d k1 h1
      exact ⟨k2, h3, by omega⟩
    · intro q hq
      rcases List.mem_cons.mp hq with h | h
      · subst h
        have : dlookup (dset row q.1 (min (rowGet L row q.1) (q.2 + 1))) q.1 =
            some (min (rowGet L row q.1) (q.2 + 1)) := dlookup_dset_self
        obtain ⟨k2, h3, h4⟩ := i3 _ _ this
        exact ⟨k2, h3, Nat.le_trans h4 (Nat.min_le_right _ _)⟩
      · exact i4 q h

/-! ### the per-node step -/

/-- the two components of the `for c in edge_o[v]` fold are independent -/
theorem childFold_fst (L : Nat) (st : DpState α) (cs : List α) (acc : Nat × Row α) :
    (cs.foldl (childStep L st) acc).1 =
      cs.foldl (fun x c => max x (((dlookup st.1 c).getD 0) - 1)) acc.1 := by
  induction cs generalizing acc with
  | nil => rfl
  | cons c cs ih => simp only [List.foldl_cons]; rw [ih]; rfl

theorem childFold_snd (L : Nat) (st : DpState α) (cs : List α) (acc : Nat × Row α) :
    (cs.foldl (childStep L st) acc).2 =
      cs.foldl (fun row c => mergeRow L (dset row c 1) ((dlookup st.2 c).getD [])) acc.2 := by
  induction cs generalizing acc with
  | nil => rfl
  | cons c cs ih => simp only [List.foldl_cons]; rw [ih]; rfl

theorem foldl_max_spec (f : α → Nat) (cs : List α) (x0 : Nat) :
    (∀ c ∈ cs, f c ≤ cs.foldl (fun x c => max x (f c)) x0) ∧ x0 ≤ cs.foldl (fun x c => max x (f c)) x0 ∧
    (cs.foldl (fun x c => max x (f c)) x0 = x0 ∨ ∃ c ∈ cs, cs.foldl (fun x c => max x (f c)) x0 = f c) := by
  induction cs generalizing x0 with
  | nil => simp
  | cons c cs ih =>
    simp only [List.foldl_cons]
    obtain ⟨h1, h2, h3⟩ := ih (max x0 (f c))
    refine ⟨?_, ?_, ?_⟩
    · intro d hd
      rcases List.mem_cons.mp hd with h | h
      · subst h
        exact Nat.le_trans (Nat.le_max_right _ _) h2
      · exact h1 d h
    · exact Nat.le_trans (Nat.le_max_left _ _) h2
    · rcases h3 with h | ⟨d, hd, h⟩
      · rcases Nat.le_total x0 (f c) with hle | hle
        · right
          exact ⟨c, by simp, by rw [h, Nat.max_eq_right hle]⟩
        · left
          rw [h, Nat.max_eq_left hle]
      · exact Or.inr ⟨d, List.mem_cons_of_mem _ hd, h⟩

theorem foldl_min_spec (f : α → Nat) (cs : List α) (x0 : Nat) :
    (∀ c ∈ cs, cs.foldl (fun x c => min x (f c)) x0 ≤ f c) ∧ cs.foldl (fun x c => min x (f c)) x0 ≤ x0 ∧
    (cs.foldl (fun x c => min x (f c)) x0 = x0 ∨ ∃ c ∈ cs, cs.foldl (fun x c => min x (f c)) x0 = f c) := by
  induction cs generalizing x0 with
  | nil => simp
  | cons c cs ih =>
    simp only [List.foldl_cons]
    obtain ⟨h1, h2, h3⟩ := ih (min x0 (f c))
    refine ⟨?_, ?_, ?_⟩
    · intro d hd
      rcases List.mem_cons.mp hd with h | h
      · subst h
        exact Nat.le_trans h2 (Nat.min_le_right _ _)
      · exact h1 d h
    · exact Nat.le_trans h2 (Nat.min_le_left _ _)
    · rcases h3 with h | ⟨d, hd, h⟩
      · rcases Nat.le_total x0 (f c) with hle | hle
        · left
          rw [h, Nat.min_eq_left hle]
        · right
          exact ⟨c, by simp, by rw [h, Nat.min_eq_right hle]⟩
      · exact Or.inr ⟨d, List.mem_cons_of_mem _ hd, h⟩

/-- the row fold of one node -/
theorem rowFold_spec (ch : α → List α) (L : Nat) (v : α) (rows : List (α × Row α))
    (hL : ∀ n d, Reach ch n v d → n < L) :
    ∀ (cs : List α) (row : Row α) (processed : List α),
      (∀ c ∈ cs, c ∈ ch v ∧ c ≠ v ∧ ∃ rc, dlookup rows c = some rc ∧ RowSpec ch c rc) →
      (keys row).Nodup → (∀ d k, dlookup row d = some k → Reach ch k v d) →
      dlookup row v = some 0 →
      (∀ c ∈ processed, ∀ n d, Reach ch n c d → ∃ k, dlookup row d = some k ∧ k ≤ n + 1) →
      let r := cs.foldl (fun row c => mergeRow L (dset row c 1) ((dlookup rows c).getD [])) row
      (keys r).Nodup ∧ (∀ d k, dlookup r d = some k → Reach ch k v d) ∧ dlookup r v = some 0 ∧
      (∀ c, c ∈ processed ∨ c ∈ cs → ∀ n d, Reach ch n c d → ∃ k, dlookup r d = some k ∧ k ≤ n + 1) := by
  intro cs
  induction cs with
  | nil =>
    intro row processed _ h1 h2 h3 h4
    refine ⟨h1, h2, h3, ?_⟩
    intro c hc
    rcases hc with hc | hc
    · exact h4 c hc
    · simp at hc
  | cons c cs ih =>
    intro row processed hcs h1 h2 h3 h4
    obtain ⟨hcv, hne, rc, hrc, hspec⟩ := hcs c (by simp)
    simp only [List.foldl_cons]
    -- paths[v][c] = 1
    have a1 : (keys (dset row c 1)).Nodup := nodup_keys_dset h1
    have a2 : ∀ d k, dlookup (dset row c 1) d = some k → Reach ch k v d := by
      intro d k h
      rw [dlookup_dset] at h
      by_cases hd : c = d
      · subst hd
        simp only [↓reduceIte, Option.some.injEq] at h
        subst h
        exact ⟨c, hcv, rfl⟩
      · rw [if_neg hd] at h
        exact h2 d k h
    have a3 : ∀ d k, dlookup row d = some k → ∃ k', dlookup (dset row c 1) d = some k' ∧ k' ≤ k := by
      intro d k h
      rw [dlookup_dset]
      by_cases hd : c = d
      · subst hd
        refine ⟨1, by simp, ?_⟩
        cases k with
        | zero =>
          have := h2 c 0 h
          simp only [Reach] at this
          exact absurd this.symm hne
        | succ k => omega
      · rw [if_neg hd]
        exact ⟨k, h, Nat.le_refl _⟩
    -- merge the row of c
    have hgetD : (dlookup rows c).getD [] = rc := by rw [hrc]; rfl
    rw [hgetD]
    have hm := mergeRow_spec L (fun d k => Reach ch k v d) rc (dset row c 1) a1 a2 (by
      intro p hp
      have hl : dlookup rc p.1 = some p.2 := dlookup_of_mem hspec.keys_nodup (by simpa using hp)
      have hr : Reach ch (p.2 + 1) v p.1 := ⟨c, hcv, hspec.sound _ _ hl⟩
      exact ⟨hr, by have := hL _ _ hr; omega⟩)
    obtain ⟨m1, m2, m3, m4⟩ := hm
    have b3 : dlookup (mergeRow L (dset row c 1) rc) v = some 0 := by
      obtain ⟨k1, e1, e2⟩ := a3 v 0 h3
      obtain ⟨k2, e3, e4⟩ := m3 v k1 e1
      have : k2 = 0 := by omega
      rw [e3, this]
    have b4 : ∀ c' ∈ processed ++ [c], ∀ n d, Reach ch n c' d →
        ∃ k, dlookup (mergeRow L (dset row c 1) rc) d = some k ∧ k ≤ n + 1 := by
      intro c' hc' n d hr
      rcases List.mem_append.mp hc' with hc' | hc'
      · obtain ⟨k0, e0, l0⟩ := h4 c' hc' n d hr
        obtain ⟨k1, e1, l1⟩ := a3 d k0 e0
        obtain ⟨k2, e2, l2⟩ := m3 d k1 e1
        exact ⟨k2, e2, by omega⟩
      · simp at hc'
        subst hc'
        obtain ⟨k0, e0, l0⟩ := hspec.complete n d hr
        obtain ⟨k2, e2, l2⟩ := m4 (d, k0) (mem_of_dlookup e0)
        exact ⟨k2, e2, by simp at l2; omega⟩
    have := ih (mergeRow L (dset row c 1) rc) (processed ++ [c])
      (fun x hx => hcs x (List.mem_cons_of_mem _ hx)) m1 m2 b3 b4
    obtain ⟨r1, r2, r3, r4⟩ := this
    refine ⟨r1, r2, r3, ?_⟩
    intro c' hc'
    apply r4
    rcases hc' with h | h
    · exact Or.inl (List.mem_append_left _ h)
    · rcases List.mem_cons.mp h with h | h
      · subst h; exact Or.inl (by simp)
      · exact Or.inr h

/-! ### the DP as a fold in an order where children come first -/

theorem foldl_ordered {σ : Type} (ch : α → List α) (step : σ → α → σ) (I : σ → List α → Prop)
    (Q : α → Prop)
    (hstep : ∀ st pre v, I st pre → v ∉ pre → (∀ c ∈ ch v, c ∈ pre) → Q v → I (step st v) (pre ++ [v])) :
    ∀ (order pre : List α) (st : σ), I st pre → (pre ++ order).Nodup →
      (∀ p v post, pre ++ order = p ++ v :: post → ∀ c ∈ ch v, c ∈ p) → (∀ v ∈ order, Q v) →
      I (order.foldl step st) (pre ++ order) := by
  intro order
  induction order with
  | nil => intro pre st h _ _ _; simpa using h
  | cons v rest ih =>
    intro pre st h hn hflat hQ
    simp only [List.foldl_cons]
    have hv : v ∉ pre := by
      rw [List.nodup_append] at hn
      intro hc
      exact hn.2.2 v hc v (by simp) rfl
    have h1 := hstep st pre v h hv (hflat pre v rest rfl) (hQ v (by simp))
    have := ih (pre ++ [v]) (step st v) h1 (by simpa using hn) (by
      intro p w post he
      apply hflat p w post
      simpa using he) (fun w hw => hQ w (List.mem_cons_of_mem _ hw))
    simpa using this

/-- the entries of `value` and `paths` for the processed nodes are what the property says -/
def DpInv (ch : α → List α) (L : Nat) (st : DpState α) (done : List α) : Prop :=
  ∀ v ∈ done, (∃ k, NearestSink ch v k ∧ dlookup st.1 v = some (L - k)) ∧
    (∃ row, dlookup st.2 v = some row ∧ RowSpec ch v row)

theorem initNode_inv (ch : α → List α) (L : Nat) (st : DpState α) (pre : List α) (v : α)
    (h : DpInv ch L st pre) (hv : v ∉ pre) (hs : ch v = []) : DpInv ch L (initNode L st v) (pre ++ [v]) := by
  intro u hu
  rcases List.mem_append.mp hu with hu | hu
  · have hne : v ≠ u := by intro hc; subst hc; exact hv hu
    obtain ⟨h1, h2⟩ := h u hu
    simp only [initNode]
    rw [dlookup_dset_ne hne, dlookup_dset_ne hne]
    exact ⟨h1, h2⟩
  · simp at hu
    subst hu
    simp only [initNode, dlookup_dset_self]
    have hnone : ∀ n d, Reach ch (n + 1) u d → False := by
      intro n d hr
      obtain ⟨c, hc, _⟩ := hr
      rw [hs] at hc
      simp at hc
    constructor
    · refine ⟨0, ⟨⟨u, hs, rfl⟩, fun j s _ _ => Nat.zero_le _⟩, by simp⟩
    · refine ⟨[(u, 0)], rfl, ?_⟩
      constructor
      · simp [keys]
      · intro d k hl
        simp only [dlookup] at hl
        split at hl
        · rename_i hd
          simp at hl
          subst hl
          exact hd
        · cases hl
      · intro n d hr
        cases n with
        | zero =>
          simp only [Reach] at hr
          subst hr
          exact ⟨0, by simp [dlookup], Nat.le_refl _⟩
        | succ n => exact absurd hr (fun h => hnone n d h)

theorem stepNode_inv (ch : α → List α) (L : Nat) (st : DpState α) (pre : List α) (v : α)
    (h : DpInv ch L st pre) (hv : v ∉ pre) (hch : ∀ c ∈ ch v, c ∈ pre) (hns : ch v ≠ [])
    (hL : ∀ n d, Reach ch n v d → n < L) : DpInv ch L (stepNode L ch st v) (pre ++ [v]) := by
  intro u hu
  rcases List.mem_append.mp hu with hu | hu
  · have hne : v ≠ u := by intro hc; subst hc; exact hv hu
    obtain ⟨h1, h2⟩ := h u hu
    simp only [stepNode]
    rw [dlookup_dset_ne hne, dlookup_dset_ne hne]
    exact ⟨h1, h2⟩
  · simp at hu
    subst hu
    simp only [stepNode, dlookup_dset_self]
    constructor
    · -- value
      rw [childFold_fst]
      simp only
      obtain ⟨m1, m2, m3⟩ := foldl_max_spec (fun c => ((dlookup st.1 c).getD 0) - 1) (ch u) 0
      generalize (ch u).foldl (fun x c => max x (((dlookup st.1 c).getD 0) - 1)) 0 = x at m1 m2 m3
      -- every child has value L - k_c with k_c + 1 < L
      have hchild : ∀ c ∈ ch u, ∃ k, NearestSink ch c k ∧ (dlookup st.1 c).getD 0 = L - k ∧ k + 1 < L := by
        intro c hc
        obtain ⟨⟨k, hk, hl⟩, _⟩ := h c (hch c hc)
        refine ⟨k, hk, by rw [hl]; rfl, ?_⟩
        obtain ⟨s, _, hr⟩ := hk.1
        exact hL (k + 1) s ⟨c, hc, hr⟩
      obtain ⟨c0, hc0⟩ : ∃ c0, c0 ∈ ch u := by
        cases hcu : ch u with
        | nil => exact absurd hcu hns
        | cons c _ => exact ⟨c, by simp⟩
      have hxpos : 1 ≤ x := by
        obtain ⟨k, _, hv0, hlt⟩ := hchild c0 hc0
        have := m1 c0 hc0
        simp only [hv0] at this
        omega
      rcases m3 with h0 | ⟨cs, hcs, hx⟩
      · omega
      · obtain ⟨ks, hks, hvs, hlts⟩ := hchild cs hcs
        simp only [hvs] at hx
        refine ⟨ks + 1, ⟨?_, ?_⟩, by rw [hx, Nat.sub_sub]⟩
        · obtain ⟨s, hs, hr⟩ := hks.1
          exact ⟨s, hs, ⟨cs, hcs, hr⟩⟩
        · intro j s hs hr
          cases j with
          | zero =>
            simp only [Reach] at hr
            subst hr
            exact absurd hs hns
          | succ j =>
            obtain ⟨c', hc', hr'⟩ := hr
            obtain ⟨k', hk', hv', hlt'⟩ := hchild c' hc'
            have h1 := hk'.2 j s hs hr'
            have h2 := m1 c' hc'
            simp only [hv'] at h2
            omega
    · -- row
      rw [childFold_snd]
      simp only
      have := rowFold_spec ch L u st.2 hL (ch u) [(u, 0)] []
        (by
          intro c hc
          refine ⟨hc, ?_, (h c (hch c hc)).2⟩
          intro hcu
          subst hcu
          exact hv (hch c hc))
        (by simp [keys])
        (by
          intro d k hl
          simp only [dlookup] at hl
          split at hl
          · rename_i hd
            simp at hl
            subst hl
            exact hd
          · cases hl)
        (by simp [dlookup])
        (by intro c hc; simp at hc)
      obtain ⟨r1, r2, r3, r4⟩ := this
      refine ⟨_, rfl, ⟨r1, r2, ?_⟩⟩
      intro n d hr
      cases n with
      | zero =>
        simp only [Reach] at hr
        subst hr
        exact ⟨0, r3, Nat.le_refl _⟩
      | succ n =>
        obtain ⟨c, hc, hr'⟩ := hr
        exact r4 c (Or.inr hc) n d hr'

/-- `dp` on layers whose flattening is ordered children-first establishes the specs everywhere -/
theorem dp_spec (ch : α → List α) (L : Nat) (sinks : List α) (more : List (List α))
    (hn : (sinks ++ more.flatten).Nodup)
    (hflat : ∀ p v post, sinks ++ more.flatten = p ++ v :: post → ∀ c ∈ ch v, c ∈ p)
    (hsinks : ∀ v, v ∈ sinks → ch v = [])
    (hmore : ∀ v, v ∈ more.flatten → ch v ≠ [])
    (hL : ∀ v ∈ more.flatten, ∀ n d, Reach ch n v d → n < L) :
    DpInv ch L (dp L ch (sinks :: more)) (sinks ++ more.flatten) := by
  unfold dp
  simp only [List.tail_cons, List.headD_cons]
  have h1 : DpInv ch L (sinks.foldl (initNode L) ([], [])) ([] ++ sinks) := by
    apply foldl_ordered ch (initNode L) (DpInv ch L) (fun v => ch v = [])
    · intro st pre v hI hv _ hq
      exact initNode_inv ch L st pre v hI hv hq
    · intro v hv; simp at hv
    · simp only [List.nil_append]
      exact (List.nodup_append.mp hn).1
    · intro p v post he c hc
      have : v ∈ sinks := by
        simp only [List.nil_append] at he
        rw [he]; simp
      rw [hsinks v this] at hc
      simp at hc
    · intro v hv; exact hsinks v hv
  simp only [List.nil_append] at h1
  apply foldl_ordered ch (stepNode L ch) (DpInv ch L) (fun v => ch v ≠ [] ∧ ∀ n d, Reach ch n v d → n < L)
  · intro st pre v hI hv hc hq
    exact stepNode_inv ch L st pre v hI hv hc hq.1 hq.2
  · exact h1
  · exact hn
  · exact hflat
  · intro v hv
    exact ⟨hmore v hv, hL v hv⟩

/-! ### nearest common descendant -/

theorem dlookup_ncd (L : Nat) (paths : List (α × Row α)) (nodes : List α) (a b : α)
    (ha : a ∈ nodes) (hb : b ∈ nodes) :
    ∃ row, dlookup (ncd L paths nodes) a = some row ∧ dlookup row b = some (ncdEntry L paths nodes a b) := by
  unfold ncd
  refine ⟨nodes.map (fun b => (b, ncdEntry L paths nodes a b)), ?_, ?_⟩
  · rw [dlookup_map_self nodes (fun a => nodes.map (fun b => (b, ncdEntry L paths nodes a b))) a]
    simp [ha]
  · rw [dlookup_map_self nodes (fun b => ncdEntry L paths nodes a b) b]
    simp [hb]

/-- `paths[a][c]` read with default `L` is the shortest distance, `L` when there is no path -/
theorem pathGet_spec (ch : α → List α) (L : Nat) (paths : List (α × Row α)) (a : α) (row : Row α)
    (hr : dlookup paths a = some row) (hs : RowSpec ch a row) (hL : ∀ n d, Reach ch n a d → n < L) (c : α) :
    pathGet L paths a c ≤ L ∧ (∀ n, Reach ch n a c → pathGet L paths a c ≤ n) ∧
    (pathGet L paths a c < L → Reach ch (pathGet L paths a c) a c) := by
  unfold pathGet rowGet
  rw [hr]
  simp only [Option.getD_some]
  cases hl : dlookup row c with
  | none =>
    simp only [Option.getD_none, Nat.le_refl, Nat.lt_irrefl, false_imp_iff, and_true, true_and]
    intro n hn
    obtain ⟨k, hk, _⟩ := hs.complete n c hn
    rw [hl] at hk
    cases hk
  | some k =>
    simp only [Option.getD_some]
    have hk := hs.sound c k hl
    refine ⟨Nat.le_of_lt (hL k c hk), ?_, fun _ => hk⟩
    intro n hn
    obtain ⟨k', hk', hle⟩ := hs.complete n c hn
    rw [hl] at hk'
    simp at hk'
    omega

end Aux

end EkwVerif.Presched
