/-
Helper lemmas for Props/C11.lean: evaluation under an interpretation and `_FuseTransformer`.
-/
import EkwVerif.Lemmas.GraphSplit
namespace EkwVerif.Graph.Aux
open EkwVerif.Graph

/-! ### evaluation under an interpretation -/

variable {V : Type}

theorem evalFrom_append (I : Interp V) (acc : List (Name → V)) (ns ms : List Node) :
    evalFrom I acc (ns ++ ms) = evalFrom I (evalFrom I acc ns) ms := by
  induction ns generalizing acc with
  | nil => rfl
  | cons n ns ih => simp [evalFrom, ih]

theorem evalAll_snoc (I : Interp V) (ns : List Node) (n : Node) :
    evalAll I (ns ++ [n]) = evalAll I ns ++ [nodeVal I (envOf (evalAll I ns)) n] := by
  simp [evalAll, evalFrom_append, evalFrom]

theorem evalFrom_length (I : Interp V) (acc : List (Name → V)) (ns : List Node) :
    (evalFrom I acc ns).length = acc.length + ns.length := by
  induction ns generalizing acc with
  | nil => simp [evalFrom]
  | cons n ns ih => simp [evalFrom, ih]; omega

@[simp] theorem evalAll_length (I : Interp V) (ns : List Node) : (evalAll I ns).length = ns.length := by
  simp [evalAll, evalFrom_length]

theorem evalFrom_prefix (I : Interp V) (acc : List (Name → V)) (ns : List Node) : ∃ l, evalFrom I acc ns = acc ++ l := by
  induction ns generalizing acc with
  | nil => exact ⟨[], by simp [evalFrom]⟩
  | cons n ns ih =>
    obtain ⟨l, hl⟩ := ih (acc ++ [nodeVal I (envOf acc) n])
    exact ⟨nodeVal I (envOf acc) n :: l, by simp [evalFrom, hl]⟩

theorem eval_append (I : Interp V) (ns ms : List Node) (i : Nat) (h : i < ns.length) :
    eval I (ns ++ ms) i = eval I ns i := by
  obtain ⟨l, hl⟩ := evalFrom_prefix I (evalAll I ns) ms
  have : evalAll I (ns ++ ms) = evalAll I ns ++ l := by simp [evalAll, evalFrom_append]; exact hl
  unfold eval
  rw [this, List.getElem?_append_left (by simpa using h)]

theorem eval_snoc_last (I : Interp V) (ns : List Node) (n : Node) :
    eval I (ns ++ [n]) ns.length = some (nodeVal I (envOf (evalAll I ns)) n) := by
  unfold eval
  rw [evalAll_snoc]
  have : ns.length = (evalAll I ns).length := by simp
  rw [this, List.getElem?_concat_length]

theorem eval_at (I : Interp V) (ns : List Node) (i : Nat) (n : Node) (h : ns[i]? = some n) :
    eval I ns i = some (nodeVal I (envOf (evalAll I (ns.take i))) n) := by
  have hlt := (List.getElem?_eq_some_iff.1 h).1
  have hs := split_at ns i n h
  have hlen : (ns.take i).length = i := by simp; omega
  have : ns = (ns.take i ++ [n]) ++ ns.drop (i + 1) := by simpa using hs
  have h2 := eval_snoc_last I (ns.take i) n
  rw [hlen] at h2
  conv => lhs; rw [this]
  rw [eval_append _ _ _ _ (by simp [hlen]), h2]

/-- every input of every store node refers to an earlier node, and input names are distinct -/
def RefsBack (ns : List Node) : Prop :=
  ∀ (t : Nat) (m : Node), ns[t]? = some m → (m.inputs.map (·.1)).Nodup ∧ ∀ x ∈ m.inputs, x.2.1 < t

theorem nodeVal_congr (I : Interp V) (env env' : Ref → Option V) (n : Node)
    (h : ∀ x ∈ n.inputs, env x.2 = env' x.2) : nodeVal I env n = nodeVal I env' n := by
  unfold nodeVal
  funext o
  congr 1
  funext k
  cases hl : n.inputs.lookup k with
  | none => rfl
  | some r => simp only [Option.bind_some]; exact h (k, r) (mem_of_lookup hl)

/-- the environment given by a store -/
def storeEnv (I : Interp V) (ns : List Node) : Ref → Option V := envOf (evalAll I ns)

theorem storeEnv_eq (I : Interp V) (ns : List Node) (r : Ref) : storeEnv I ns r = (eval I ns r.1).map fun f => f r.2 := rfl

theorem storeEnv_append (I : Interp V) (ns ms : List Node) (r : Ref) (h : r.1 < ns.length) :
    storeEnv I (ns ++ ms) r = storeEnv I ns r := by
  rw [storeEnv_eq, storeEnv_eq, eval_append _ _ _ _ h]

theorem storeEnv_take (I : Interp V) (ns : List Node) (t : Nat) (r : Ref) (h : r.1 < t) (ht : t ≤ ns.length) :
    storeEnv I (ns.take t) r = storeEnv I ns r := by
  have : ns = ns.take t ++ ns.drop t := (List.take_append_drop t ns).symm
  conv => rhs; rw [this]
  rw [storeEnv_append _ _ _ _ (by simp; omega)]

/-- In a store whose references point backwards, a node's value is its `nodeVal` in the store's own
environment. -/
theorem eval_eq_nodeVal (I : Interp V) (ns : List Node) (hb : RefsBack ns) (t : Nat) (m : Node) (hm : ns[t]? = some m) :
    eval I ns t = some (nodeVal I (storeEnv I ns) m) := by
  rw [eval_at I ns t m hm]
  congr 1
  apply nodeVal_congr
  intro x hx
  have hlt := (hb t m hm).2 x hx
  have htl := (List.getElem?_eq_some_iff.1 hm).1
  exact storeEnv_take I ns t x.2 hlt (Nat.le_of_lt htl)

theorem refsBack_snoc (ns : List Node) (n : Node) (h : RefsBack ns) (hn : (n.inputs.map (·.1)).Nodup)
    (hr : ∀ x ∈ n.inputs, x.2.1 < ns.length) : RefsBack (ns ++ [n]) := by
  intro t m hm
  by_cases ht : t < ns.length
  · rw [List.getElem?_append_left ht] at hm
    exact h t m hm
  · have hlt := (List.getElem?_eq_some_iff.1 hm).1
    simp at hlt
    have : t = ns.length := by omega
    subst this
    simp at hm; subst hm
    exact ⟨hn, hr⟩

theorem refsBack_of_wf (ns : List Node) (h : WFNodes ns) : RefsBack ns := by
  intro t m hm
  have hok := wf_get ns h t m hm
  refine ⟨hok.1, fun x hx => ?_⟩
  have := nodeOK_lt hok x hx
  rw [List.length_take] at this; omega

end EkwVerif.Graph.Aux

namespace EkwVerif.Graph

/-- Soundness of a fusion callback under the interpretation `I`: whenever it answers with a node `F`
for (parent `P`, output `pout`, current node `C`, input `cin`), then
* `F` has distinct input names and refers only to what `P` or `C` refer to,
* `F` keeps `C`'s other inputs under their names (later candidates are offered `F` with the input
  names of the original node),
* in every environment in which `C`'s input `cin` carries the value of `P`'s output `pout`, `F`
  computes what `C` computes: it denotes the child with the parent inlined. -/
def FuseSound {V : Type} (I : Interp V) (func : FuseFunc) : Prop :=
  ∀ (P C F : Node) (pout cin : Name), func P pout C cin = some F →
    (P.inputs.map (·.1)).Nodup → (C.inputs.map (·.1)).Nodup →
    (F.inputs.map (·.1)).Nodup ∧
    (∀ x ∈ F.inputs, (∃ y ∈ P.inputs, y.2 = x.2) ∨ (∃ y ∈ C.inputs, y.2 = x.2)) ∧
    (∀ (k : Name) (r : Ref), k ≠ cin → C.inputs.lookup k = some r → F.inputs.lookup k = some r) ∧
    (∀ env : Ref → Option V, (C.inputs.lookup cin).bind env = some (nodeVal I env P pout) →
        nodeVal I env F = nodeVal I env C)

namespace Aux
variable {V : Type}

theorem transInputs_nodeOutput_ok {σ : Type} (tr : Transformer σ Nat Ref) (s : σ) (out : List Node)
    (htr : ∀ t o, tr.output s t o = nodeOutput out t o) (done : List Nat) (xs : List (Name × Ref)) (ins : List (Name × Ref))
    (h : transInputs tr s done xs = .ok ins) :
    ins = remap done xs ∧ ∀ x ∈ xs, ∃ t m, done[x.2.1]? = some t ∧ out[t]? = some m ∧ x.2.2 ∈ m.outputs := by
  unfold transInputs at h
  induction xs generalizing ins with
  | nil => simp [mapE] at h; subst h; exact ⟨rfl, by simp⟩
  | cons x xs ih =>
    rw [mapE_cons_ok] at h
    obtain ⟨y, ys, hy, hys, rfl⟩ := h
    obtain ⟨h1, h2⟩ := ih ys hys
    cases hd : done[x.2.1]? with
    | none => simp [hd] at hy
    | some t =>
      simp only [hd, htr, nodeOutput] at hy
      cases ho : out[t]? with
      | none => simp [ho] at hy
      | some m =>
        simp only [ho] at hy
        by_cases hmem : x.2.2 ∈ m.outputs
        · simp only [hmem, if_true] at hy
          cases hy
          refine ⟨?_, ?_⟩
          · simp only [remap, List.map_cons, List.getD_eq_getElem?_getD, hd, Option.getD_some]
            congr 1
          · intro x' hx'
            rcases List.mem_cons.1 hx' with rfl | hx'
            · exact ⟨t, m, hd, ho, hmem⟩
            · exact h2 x' hx'
        · simp only [hmem, if_false] at hy
          cases hy

/-- The loop of `_FuseTransformer.node` keeps the value of the current node. -/
theorem fuseLoop_spec (I : Interp V) (func : FuseFunc) (hs : FuseSound I func) (s : FuseSt) (hb : RefsBack s.out)
    (C0 : Node) (v : Name → V) (xs : List (Name × Ref)) :
    (xs.map (·.1)).Nodup →
    (∀ x ∈ xs, ∃ r, C0.inputs.lookup x.1 = some r ∧ storeEnv I s.out r = storeEnv I s.out x.2 ∧ x.2.1 < s.out.length) →
    ∀ (acc : Node × Bool), (acc.1.inputs.map (·.1)).Nodup → (∀ y ∈ acc.1.inputs, y.2.1 < s.out.length) →
      nodeVal I (storeEnv I s.out) acc.1 = v → (∀ x ∈ xs, acc.1.inputs.lookup x.1 = C0.inputs.lookup x.1) →
      let r := fuseLoop func s xs acc
      (r.1.inputs.map (·.1)).Nodup ∧ (∀ y ∈ r.1.inputs, y.2.1 < s.out.length) ∧ nodeVal I (storeEnv I s.out) r.1 = v := by
  induction xs with
  | nil => intro _ _ acc h1 h2 h3 _; exact ⟨h1, h2, h3⟩
  | cons x xs ih =>
    intro hnd hxs acc h1 h2 h3 h4
    have hnd' : (xs.map (·.1)).Nodup := (List.nodup_cons.1 hnd).2
    have hxs' : ∀ x' ∈ xs, ∃ r, C0.inputs.lookup x'.1 = some r ∧ storeEnv I s.out r = storeEnv I s.out x'.2 ∧
        x'.2.1 < s.out.length := fun x' hx' => hxs x' (by simp [hx'])
    have h4' : ∀ x' ∈ xs, acc.1.inputs.lookup x'.1 = C0.inputs.lookup x'.1 := fun x' hx' => h4 x' (by simp [hx'])
    simp only [fuseLoop]
    split
    · exact ih hnd' hxs' acc h1 h2 h3 h4'
    · cases hP : s.out[x.2.1]? with
      | none => simp only; exact ih hnd' hxs' acc h1 h2 h3 h4'
      | some P =>
        simp only
        cases hf : func P x.2.2 acc.1 x.1 with
        | none => simp only; exact ih hnd' hxs' acc h1 h2 h3 h4'
        | some F =>
          simp only
          obtain ⟨hPnd, hPrefs⟩ := hb x.2.1 P hP
          obtain ⟨hFnd, hFrefs, hFkeep, hFsem⟩ := hs P acc.1 F x.2.2 x.1 hf hPnd h1
          obtain ⟨r, hr1, hr2, hr3⟩ := hxs x (by simp)
          have hpre : (acc.1.inputs.lookup x.1).bind (storeEnv I s.out) = some (nodeVal I (storeEnv I s.out) P x.2.2) := by
            rw [h4 x (by simp), hr1]
            simp only [Option.bind_some]
            rw [hr2, storeEnv_eq, eval_eq_nodeVal I s.out hb x.2.1 P hP]
            rfl
          refine ih hnd' hxs' (F, true) hFnd ?_ ?_ ?_
          · intro y hy
            rcases hFrefs y hy with ⟨z, hz, hzy⟩ | ⟨z, hz, hzy⟩
            · have := hPrefs z hz
              rw [← hzy]; omega
            · rw [← hzy]; exact h2 z hz
          · rw [hFsem _ hpre]; exact h3
          · intro x' hx'
            have hne : x'.1 ≠ x.1 := by
              intro e
              have hnm := (List.nodup_cons.1 hnd).1
              exact hnm (List.mem_map.2 ⟨x', hx', e⟩)
            obtain ⟨r', hr', _⟩ := hxs' x' hx'
            have := h4' x' hx'
            rw [hr'] at this
            rw [hFkeep x'.1 r' hne this, hr']

variable {V : Type}

theorem eval_isSome (I : Interp V) (ns : List Node) (i : Nat) (h : i < ns.length) : ∃ f, eval I ns i = some f := by
  unfold eval
  have : i < (evalAll I ns).length := by simpa using h
  exact ⟨(evalAll I ns)[i], List.getElem?_eq_getElem this⟩

theorem eval_lt (I : Interp V) (ns : List Node) (i : Nat) (f : Name → V) (h : eval I ns i = some f) : i < ns.length := by
  unfold eval at h
  have := (List.getElem?_eq_some_iff.1 h).1
  simpa using this

theorem nodeVal_remap (I : Interp V) (env env' : Ref → Option V) (d : List Nat) (n : Node)
    (h : ∀ x ∈ n.inputs, env (d.getD x.2.1 0, x.2.2) = env' x.2) :
    nodeVal I env { n with inputs := remap d n.inputs } = nodeVal I env' n := by
  unfold nodeVal
  funext o
  congr 1
  funext k
  simp only [lookup_remap]
  cases hl : n.inputs.lookup k with
  | none => rfl
  | some r => simp only [Option.map_some, Option.bind_some]; exact h (k, r) (mem_of_lookup hl)

theorem fuseNode_eq (func : FuseFunc) (counts : List Nat) (s : FuseSt) (n : Node) (ins : List (Name × Ref)) :
    fuseNode func counts s n ins =
      if (fuseLoop func s ins ({ n with inputs := remap s.orig n.inputs }, false)).2 = true then
        .ok ({ out := s.out ++ [{ n with inputs := remap s.orig n.inputs },
                                 (fuseLoop func s ins ({ n with inputs := remap s.orig n.inputs }, false)).1],
               cnt := s.cnt ++ [counts.getD s.orig.length 0, counts.getD s.orig.length 0],
               orig := s.orig ++ [s.out.length] }, s.out.length + 1)
      else
        .ok ({ out := s.out ++ [{ n with inputs := ins }], cnt := s.cnt ++ [counts.getD s.orig.length 0],
               orig := s.orig ++ [s.out.length] }, s.out.length) := rfl

/-- Invariant of the traversal of `_FuseTransformer`: the transformed node and the original object
of every processed node carry the value the node has in the input graph. -/
structure FInv (I : Interp V) (pre : List Node) (st : FuseSt × List Nat) : Prop where
  back : RefsBack st.1.out
  doneLen : st.2.length = pre.length
  origLen : st.1.orig.length = pre.length
  doneVal : ∀ i, i < pre.length → ∃ t, st.2[i]? = some t ∧ eval I st.1.out t = eval I pre i
  origVal : ∀ i, i < pre.length → ∃ t, st.1.orig[i]? = some t ∧ eval I st.1.out t = eval I pre i

theorem fuse_step (I : Interp V) (func : FuseFunc) (hs : FuseSound I func) (counts : List Nat) (pre : List Node) (a : Node)
    (hok : NodeOK pre a) (st st' : FuseSt × List Nat) (hinv : FInv I pre st)
    (h : step (fuser func counts) st a = .ok st') : FInv I (pre ++ [a]) st' := by
  obtain ⟨s, done⟩ := st
  obtain ⟨hb, hdl, hol, hdv, hov⟩ := hinv
  simp only at hb hdl hol hdv hov
  simp only [step] at h
  cases hti : transInputs (fuser func counts) s done a.inputs with
  | error e => simp [hti] at h
  | ok ins =>
    obtain ⟨hins, _⟩ := transInputs_nodeOutput_ok (fuser func counts) s s.out (fun _ _ => rfl) done a.inputs ins hti
    subst hins
    simp only [hti, nodeVisit_node_only (fuser func counts) _ rfl rfl rfl rfl] at h
    have hfn : (fuser func counts).node = some (fuseNode func counts) := rfl
    -- facts about the inputs
    have hA : ∀ x ∈ a.inputs, storeEnv I s.out (s.orig.getD x.2.1 0, x.2.2) = storeEnv I pre x.2 ∧
        s.orig.getD x.2.1 0 < s.out.length := by
      intro x hx
      have hlt := nodeOK_lt hok x hx
      obtain ⟨t, ht, hev⟩ := hov x.2.1 hlt
      obtain ⟨f, hf⟩ := eval_isSome I pre x.2.1 hlt
      simp only [List.getD_eq_getElem?_getD, ht, Option.getD_some, storeEnv_eq, hev]
      exact ⟨trivial, eval_lt I s.out t f (hev ▸ hf)⟩
    have hB : ∀ x ∈ a.inputs, storeEnv I s.out (done.getD x.2.1 0, x.2.2) = storeEnv I pre x.2 ∧
        done.getD x.2.1 0 < s.out.length := by
      intro x hx
      have hlt := nodeOK_lt hok x hx
      obtain ⟨t, ht, hev⟩ := hdv x.2.1 hlt
      obtain ⟨f, hf⟩ := eval_isSome I pre x.2.1 hlt
      simp only [List.getD_eq_getElem?_getD, ht, Option.getD_some, storeEnv_eq, hev]
      exact ⟨trivial, eval_lt I s.out t f (hev ▸ hf)⟩
    let C0 : Node := { a with inputs := remap s.orig a.inputs }
    have hC0v : nodeVal I (storeEnv I s.out) C0 = nodeVal I (storeEnv I pre) a :=
      nodeVal_remap I _ _ s.orig a (fun x hx => (hA x hx).1)
    have hUv : nodeVal I (storeEnv I s.out) { a with inputs := remap done a.inputs } = nodeVal I (storeEnv I pre) a :=
      nodeVal_remap I _ _ done a (fun x hx => (hB x hx).1)
    have hlast : eval I (pre ++ [a]) pre.length = some (nodeVal I (storeEnv I pre) a) := eval_snoc_last I pre a
    -- the loop
    have hloop := fuseLoop_spec I func hs s hb C0 (nodeVal I (storeEnv I pre) a) (remap done a.inputs)
      (by rw [remap_keys]; exact hok.1)
      (by
        intro x hx
        simp only [remap, List.mem_map] at hx
        obtain ⟨x0, hx0, rfl⟩ := hx
        refine ⟨(s.orig.getD x0.2.1 0, x0.2.2), ?_, ?_, (hB x0 hx0).2⟩
        · show (remap s.orig a.inputs).lookup x0.1 = _
          rw [lookup_remap, lookup_of_mem hok.1 (k := x0.1) (v := x0.2) hx0]
          rfl
        · rw [(hA x0 hx0).1, (hB x0 hx0).1])
      (C0, false)
      (by show ((remap s.orig a.inputs).map (·.1)).Nodup; rw [remap_keys]; exact hok.1)
      (by
        intro y hy
        have hy' : y ∈ remap s.orig a.inputs := hy
        simp only [remap, List.mem_map] at hy'
        obtain ⟨x0, hx0, rfl⟩ := hy'
        exact (hA x0 hx0).2)
      hC0v (fun _ _ => rfl)
    simp only at hloop
    obtain ⟨hrnd, hrrefs, hrval⟩ := hloop
    have hC0refs : ∀ y ∈ C0.inputs, y.2.1 < s.out.length := by
      intro y hy
      have hy' : y ∈ remap s.orig a.inputs := hy
      simp only [remap, List.mem_map] at hy'
      obtain ⟨x0, hx0, rfl⟩ := hy'
      exact (hA x0 hx0).2
    have hC0nd : (C0.inputs.map (·.1)).Nodup := by
      show ((remap s.orig a.inputs).map (·.1)).Nodup; rw [remap_keys]; exact hok.1
    -- old entries keep their values
    have hold : ∀ (e : List Node) i, i < pre.length → (∃ t, done[i]? = some t ∧ eval I (s.out ++ e) t = eval I (pre ++ [a]) i) ∧
        (∃ t, s.orig[i]? = some t ∧ eval I (s.out ++ e) t = eval I (pre ++ [a]) i) := by
      intro e i hi
      obtain ⟨t, ht, hev⟩ := hdv i hi
      obtain ⟨t', ht', hev'⟩ := hov i hi
      obtain ⟨f, hf⟩ := eval_isSome I pre i hi
      have h1 := eval_lt I s.out t f (hev ▸ hf)
      have h2 := eval_lt I s.out t' f (hev' ▸ hf)
      exact ⟨⟨t, ht, by rw [eval_append _ _ _ _ h1, eval_append _ _ _ _ hi]; exact hev⟩,
             ⟨t', ht', by rw [eval_append _ _ _ _ h2, eval_append _ _ _ _ hi]; exact hev'⟩⟩
    rw [show fuseNode func counts s a (remap done a.inputs) = _ from fuseNode_eq func counts s a (remap done a.inputs)] at h
    by_cases hr2 : (fuseLoop func s (remap done a.inputs) (C0, false)).2 = true
    · -- fused
      rw [if_pos hr2] at h
      cases h
      have hb1 : RefsBack (s.out ++ [C0]) := refsBack_snoc s.out C0 hb hC0nd hC0refs
      have hb2 : RefsBack (s.out ++ [C0] ++ [(fuseLoop func s (remap done a.inputs) (C0, false)).1]) :=
        refsBack_snoc _ _ hb1 hrnd (fun y hy => by have := hrrefs y hy; simp; omega)
      have hout : s.out ++ [C0, (fuseLoop func s (remap done a.inputs) (C0, false)).1] =
          s.out ++ [C0] ++ [(fuseLoop func s (remap done a.inputs) (C0, false)).1] := by simp
      have hvalC : eval I (s.out ++ [C0] ++ [(fuseLoop func s (remap done a.inputs) (C0, false)).1]) s.out.length =
          some (nodeVal I (storeEnv I pre) a) := by
        rw [eval_eq_nodeVal I _ hb2 s.out.length C0 (by simp), ← hC0v]
        congr 1
        apply nodeVal_congr
        intro x hx
        rw [List.append_assoc, storeEnv_append _ _ _ _ (hC0refs x hx)]
      have hvalF : eval I (s.out ++ [C0] ++ [(fuseLoop func s (remap done a.inputs) (C0, false)).1]) (s.out.length + 1) =
          some (nodeVal I (storeEnv I pre) a) := by
        rw [eval_eq_nodeVal I _ hb2 (s.out.length + 1) (fuseLoop func s (remap done a.inputs) (C0, false)).1 (by simp), ← hrval]
        congr 1
        apply nodeVal_congr
        intro x hx
        rw [List.append_assoc, storeEnv_append _ _ _ _ (hrrefs x hx)]
      refine ⟨by simp only; rw [hout]; exact hb2, by simp [hdl], by simp [hol], ?_, ?_⟩
      · intro i hi
        simp only [List.length_append, List.length_singleton] at hi
        by_cases hi' : i < pre.length
        · obtain ⟨⟨t, ht, hev⟩, _⟩ := hold [C0, (fuseLoop func s (remap done a.inputs) (C0, false)).1] i hi'
          exact ⟨t, get_append_of_some ht _, hev⟩
        · have : i = pre.length := by omega
          subst this
          refine ⟨s.out.length + 1, by rw [← hdl]; simp, ?_⟩
          simp only; rw [hout, hvalF, hlast]
      · intro i hi
        simp only [List.length_append, List.length_singleton] at hi
        by_cases hi' : i < pre.length
        · obtain ⟨_, ⟨t, ht, hev⟩⟩ := hold [C0, (fuseLoop func s (remap done a.inputs) (C0, false)).1] i hi'
          exact ⟨t, get_append_of_some ht _, hev⟩
        · have : i = pre.length := by omega
          subst this
          refine ⟨s.out.length, by rw [← hol]; simp, ?_⟩
          simp only; rw [hout, hvalC, hlast]
    · -- not fused
      rw [if_neg hr2] at h
      cases h
      have hUrefs : ∀ y ∈ remap done a.inputs, y.2.1 < s.out.length := by
        intro y hy
        simp only [remap, List.mem_map] at hy
        obtain ⟨x0, hx0, rfl⟩ := hy
        exact (hB x0 hx0).2
      have hb1 : RefsBack (s.out ++ [{ a with inputs := remap done a.inputs }]) :=
        refsBack_snoc s.out _ hb (by simp only; rw [remap_keys]; exact hok.1) hUrefs
      have hvalU : eval I (s.out ++ [{ a with inputs := remap done a.inputs }]) s.out.length =
          some (nodeVal I (storeEnv I pre) a) := by
        rw [eval_eq_nodeVal I _ hb1 s.out.length { a with inputs := remap done a.inputs } (by simp), ← hUv]
        congr 1
        apply nodeVal_congr
        intro x hx
        rw [storeEnv_append _ _ _ _ (hUrefs x hx)]
      refine ⟨hb1, by simp [hdl], by simp [hol], ?_, ?_⟩
      · intro i hi
        simp only [List.length_append, List.length_singleton] at hi
        by_cases hi' : i < pre.length
        · obtain ⟨⟨t, ht, hev⟩, _⟩ := hold [{ a with inputs := remap done a.inputs }] i hi'
          exact ⟨t, get_append_of_some ht _, hev⟩
        · have : i = pre.length := by omega
          subst this
          refine ⟨s.out.length, by rw [← hdl]; simp, ?_⟩
          simp only; rw [hvalU, hlast]
      · intro i hi
        simp only [List.length_append, List.length_singleton] at hi
        by_cases hi' : i < pre.length
        · obtain ⟨_, ⟨t, ht, hev⟩⟩ := hold [{ a with inputs := remap done a.inputs }] i hi'
          exact ⟨t, get_append_of_some ht _, hev⟩
        · have : i = pre.length := by omega
          subst this
          refine ⟨s.out.length, by rw [← hol]; simp, ?_⟩
          simp only; rw [hvalU, hlast]

theorem fuse_run (I : Interp V) (func : FuseFunc) (hs : FuseSound I func) (counts : List Nat) (ns : List Node)
    (hwf : WFNodes ns) (st : FuseSt × List Nat) (h : run (fuser func counts) {} ns = .ok st) : FInv I ns st := by
  refine foldE_inv' (step (fuser func counts)) ns (FInv I) ({}, []) st ?_ ?_ h
  · exact ⟨fun t m hm => by simp at hm, rfl, rfl, fun i hi => by simp at hi, fun i hi => by simp at hi⟩
  · intro pre a post b b' hl hb hstep
    exact fuse_step I func hs counts pre a (wf_split pre a post (hl ▸ hwf)).2 b b' hb hstep


end Aux
end EkwVerif.Graph

namespace EkwVerif.Graph

/-- An interpretation gives fused payloads the meaning the harness' callback intends: the child
applied to its own inputs, with input `cin` fed by the parent applied to the inputs `cin.<name>`. -/
def RespectsFused {V : Type} (I : Interp V) : Prop :=
  ∀ (c : Payload) (cin : Name) (p : Payload) (pout : Name) (pins pouts : List Name) (ins : Name → Option V) (o : Name),
    I (.fused c cin p pout pins pouts) ins o =
      I c (fun k => if k = cin then some (I p (fun k' => if k' ∈ pins then ins (cin ++ ['.'] ++ k') else none) pout)
                    else if k ∈ pins.map (fun k' => cin ++ ['.'] ++ k') then none else ins k) o

namespace Aux
variable {V : Type}

theorem lookup_filter_ne (l : List (Name × Ref)) (cin k : Name) (h : k ≠ cin) :
    (l.filter fun x => x.1 != cin).lookup k = l.lookup k := by
  induction l with
  | nil => rfl
  | cons x l ih =>
    obtain ⟨k0, r⟩ := x
    by_cases h0 : k0 = cin
    · subst h0
      have : (k == k0) = false := by simpa using h
      simp [List.lookup_cons, this, ih]
    · have : ((k0 != cin) = true) := by simpa using h0
      simp only [List.filter_cons, this, if_true, List.lookup_cons, ih]

theorem keys_filter (l : List (Name × Ref)) (cin : Name) :
    ((l.filter fun x => x.1 != cin).map (·.1)) = (l.map (·.1)).filter (· != cin) := by
  rw [List.filter_map]; rfl

theorem lookup_taken (l : List (Name × Ref)) (cin k' : Name) :
    (l.map fun x => (cin ++ ['.'] ++ x.1, x.2)).lookup (cin ++ ['.'] ++ k') = l.lookup k' := by
  induction l with
  | nil => rfl
  | cons x l ih =>
    obtain ⟨k0, r⟩ := x
    simp only [List.map_cons, List.lookup_cons, ih]
    by_cases h : k' = k0
    · subst h; simp
    · have h1 : (k' == k0) = false := by simpa using h
      have h2 : (cin ++ '.' :: k' == cin ++ '.' :: k0) = false := by
        simp only [beq_eq_false_iff_ne, ne_eq]
        intro e
        have := List.append_cancel_left e
        simp at this
        exact h this
      simp [h1, h2]

theorem lookup_taken_none (l : List (Name × Ref)) (cin k : Name)
    (h : k ∉ (l.map (·.1)).map (fun k' => cin ++ ['.'] ++ k')) :
    (l.map fun x => (cin ++ ['.'] ++ x.1, x.2)).lookup k = none := by
  rw [lookup_none_iff]
  simpa [Function.comp_def] using h

theorem nodup_taken (l : List Name) (cin : Name) (h : l.Nodup) : (l.map fun k' => cin ++ ['.'] ++ k').Nodup := by
  unfold List.Nodup at h ⊢
  exact List.Pairwise.map _ (fun a b hab e => hab (List.append_cancel_left e)) h

/-- The harness' callback is sound for every interpretation that gives fused payloads their
intended meaning. -/
theorem inlineFuse_sound (I : Interp V) (hI : RespectsFused I) (accept : Node → Name → Node → Name → Bool) :
    FuseSound I (inlineFuse accept) := by
  intro P C F pout cin hF hPnd hCnd
  simp only [inlineFuse] at hF
  split at hF
  · cases hF
  · split at hF
    · cases hF
    · rename_i hcin
      split at hF
      · cases hF
      · rename_i hclash
        cases hF
        simp only [List.any_eq_true, not_exists, not_and, Bool.not_eq_true] at hclash
        have hcin' : ∃ x ∈ C.inputs, x.1 = cin := by
          simp only [Bool.not_eq_true'] at hcin
          simpa using hcin
        -- no taken key is a kept key
        have hdisj : ∀ a ∈ (C.inputs.filter fun x => x.1 != cin).map (·.1),
            ∀ b ∈ (P.inputs.map fun x => (cin ++ ['.'] ++ x.1, x.2)).map (·.1), a ≠ b := by
          intro a ha b hb e
          obtain ⟨y, hy, rfl⟩ := List.mem_map.1 ha
          obtain ⟨x, hx, rfl⟩ := List.mem_map.1 hb
          have := hclash x hx y hy
          simp [e] at this
        have hkeptnd : ((C.inputs.filter fun x => x.1 != cin).map (·.1)).Nodup := by
          rw [keys_filter]; exact List.Nodup.sublist List.filter_sublist hCnd
        have htakennd : ((P.inputs.map fun x => (cin ++ ['.'] ++ x.1, x.2)).map (·.1)).Nodup := by
          have := nodup_taken (P.inputs.map (·.1)) cin hPnd
          simpa [Function.comp_def] using this
        refine ⟨?_, ?_, ?_, ?_⟩
        · simp only [List.map_append]
          exact List.nodup_append.2 ⟨hkeptnd, htakennd, hdisj⟩
        · intro x hx
          simp only [List.mem_append, List.mem_filter, List.mem_map] at hx
          rcases hx with ⟨hx, _⟩ | ⟨y, hy, rfl⟩
          · exact Or.inr ⟨x, hx, rfl⟩
          · exact Or.inl ⟨y, hy, rfl⟩
        · intro k r hk hl
          simp [List.lookup_append, lookup_filter_ne _ _ _ hk, hl]
        · intro env hpre
          funext o
          simp only [nodeVal]
          rw [hI]
          congr 1
          funext k
          by_cases hk : k = cin
          · subst hk
            simp only [if_true]
            rw [hpre]
            congr 1
            simp only [nodeVal]
            congr 1
            funext k'
            by_cases hk' : k' ∈ P.inputs.map (·.1)
            · simp only [hk', if_true]
              rw [List.lookup_append]
              have hnotkept : (C.inputs.filter fun x => x.1 != k).lookup (k ++ ['.'] ++ k') = none := by
                rw [lookup_none_iff]
                intro hmem
                exact hdisj _ hmem (k ++ ['.'] ++ k')
                  (by simp only [List.map_map, List.mem_map, Function.comp]
                      obtain ⟨x, hx, rfl⟩ := List.mem_map.1 hk'
                      exact ⟨x, hx, rfl⟩) rfl
              rw [hnotkept, Option.none_or, lookup_taken]
            · simp only [hk', if_false]
              have : P.inputs.lookup k' = none := lookup_none_iff.2 hk'
              rw [this]; rfl
          · simp only [hk, if_false]
            by_cases ht : k ∈ (P.inputs.map (·.1)).map (fun k' => cin ++ ['.'] ++ k')
            · simp only [ht, if_true]
              -- `k` is a taken key, so not a key of `C`
              have : C.inputs.lookup k = none := by
                rw [lookup_none_iff]
                intro hmem
                obtain ⟨y, hy, hyk⟩ := List.mem_map.1 hmem
                have hy' : y.1 ∈ (C.inputs.filter fun x => x.1 != cin).map (·.1) :=
                  List.mem_map.2 ⟨y, List.mem_filter.2 ⟨hy, by simpa [hyk] using hk⟩, rfl⟩
                exact hdisj _ hy' k (by simpa [Function.comp_def] using ht) hyk
              rw [this]; rfl
            · simp only [ht, if_false]
              rw [List.lookup_append, lookup_filter_ne _ _ _ hk, lookup_taken_none _ _ _ ht, Option.or_none]

end Aux
end EkwVerif.Graph
