/-
C16 — the layering loop of `enrich` as the real code runs it (`relaxE`, `layerStepE`, `layersLoopE`
of Model/Presched.lean: `KeyError` and "never exits" are results) coincides with the total model
function under the invariants of Lemmas/C16Layers.lean: on a closed, symmetric, acyclic node set no
`remaining[a] -= 1` misses its key and no round leaves an empty layer while `remaining` is non-empty.
-/
import EkwVerif.Lemmas.C16Layers

set_option linter.unusedSectionVars false
set_option linter.unusedVariables false

namespace EkwVerif.Presched.Aux

variable {α : Type} [DecidableEq α]

/-- under the counting invariant the key is there: `relaxE` is `relax` -/
theorem relaxE_eq {ns : List α} {ch : α → List α} {rem : List (α × Nat)} {next : List α}
    {seen : α → List α} (h : RemOK ns ch rem seen) (a v : α) (ha : a ∈ ns) (hv : v ∈ ch a)
    (hs : v ∉ seen a) : relaxE (rem, next) a = some (relax (rem, next) a) := by
  have hpos := unvisited_pos (ch a) (seen a) v hv hs
  have hl : dlookup rem a = some (unvisited (ch a) (seen a)) := by
    rw [h.1 a ha]; unfold enc; rw [if_neg (by omega)]
  unfold relaxE relax
  simp only [hl]
  split <;> rfl

/-- the `for a in edge_i[v]` loop never raises -/
theorem innerE_spec {ns : List α} {ch : α → List α} (v : α) (P : List α) (hv : v ∉ P)
    (hcn : ∀ a, (ch a).Nodup) :
    ∀ (as T : List α) (st : List (α × Nat) × List α), as.Nodup →
      (∀ a ∈ as, a ∉ T ∧ a ∈ ns ∧ v ∈ ch a) →
      RemOK ns ch st.1 (fun x => if x ∈ T then v :: P else P) →
      foldO relaxE as st = some (as.foldl relax st) := by
  intro as
  induction as with
  | nil => intro T st _ _ _; rfl
  | cons a as ih =>
    intro T st hn hall h
    simp only [List.nodup_cons] at hn
    obtain ⟨haT, hans, hvch⟩ := hall a (by simp)
    have hseen : (if a ∈ T then v :: P else P) = P := if_neg haT
    have hE : relaxE st a = some (relax st a) :=
      relaxE_eq (next := st.2) (rem := st.1) h a v hans hvch (by rw [hseen]; exact hv)
    -- the invariant after this step, from `inner_spec` on the one-element list
    have h1 := (inner_spec (ns := ns) (ch := ch) v P hv hcn [a] T st (by simp)
      (by intro a' ha'; simp at ha'; subst ha'; exact ⟨haT, hans, hvch⟩) h).1
    have hr1 : RemOK ns ch (relax st a).1 (fun x => if x ∈ a :: T then v :: P else P) := by
      have heq : (fun x => if x ∈ [a] ∨ x ∈ T then v :: P else P) = (fun x => if x ∈ a :: T then v :: P else P) := by
        funext x
        simp
      rw [← heq]
      simpa using h1
    have hall' : ∀ a' ∈ as, a' ∉ a :: T ∧ a' ∈ ns ∧ v ∈ ch a' := by
      intro a' ha'
      obtain ⟨h1, h2, h3⟩ := hall a' (List.mem_cons_of_mem _ ha')
      refine ⟨?_, h2, h3⟩
      intro hc
      rcases List.mem_cons.mp hc with hc | hc
      · subst hc; exact hn.1 ha'
      · exact h1 hc
    simp only [foldO, hE, List.foldl_cons]
    exact ih (a :: T) (relax st a) hn.2 hall' hr1

/-- the `for v in layers[-1]` loop never raises -/
theorem layerFoldE_spec {ns : List α} {ch pa : α → List α} (G : GraphOK ns ch pa) (P0 : List α) :
    ∀ (layer P : List α) (st : List (α × Nat) × List α), layer.Nodup →
      (∀ v ∈ layer, v ∉ P ∧ v ∈ ns) → (∀ x ∈ P0, x ∈ P) →
      RemOK ns ch st.1 (fun _ => P) → NextOK ns ch st.2 P0 P →
      foldO (fun st v => foldO relaxE (pa v) st) layer st =
        some (layer.foldl (fun st v => (pa v).foldl relax st) st) := by
  intro layer
  induction layer with
  | nil => intro P st _ _ _ _ _; rfl
  | cons v layer ih =>
    intro P st hn hall hP0 hrem hnext
    simp only [List.nodup_cons] at hn
    obtain ⟨hvP, hvns⟩ := hall v (by simp)
    have hin : foldO relaxE (pa v) st = some ((pa v).foldl relax st) :=
      innerE_spec (ns := ns) (ch := ch) v P hvP G.ch_nodup (pa v) [] st (G.pa_nodup v)
        (by
          intro a ha
          exact ⟨by simp, G.pa_closed v hvns a ha, (G.ch_pa a v).mpr ha⟩)
        (by simpa using hrem)
    -- the invariants after `v`, from `layerFold_spec` on the one-element layer
    have h1 := layerFold_spec G P0 [v] P st (by simp)
      (by intro w hw; simp at hw; subst hw; exact ⟨hvP, hvns⟩) hP0 hrem hnext
    simp only [List.foldl_cons, List.foldl_nil, List.reverse_cons, List.reverse_nil, List.nil_append,
      List.singleton_append] at h1
    have hall' : ∀ w ∈ layer, w ∉ v :: P ∧ w ∈ ns := by
      intro w hw
      obtain ⟨h1, h2⟩ := hall w (List.mem_cons_of_mem _ hw)
      refine ⟨?_, h2⟩
      intro hc
      rcases List.mem_cons.mp hc with hc | hc
      · subst hc; exact hn.1 hw
      · exact h1 hc
    simp only [foldO, hin, List.foldl_cons]
    exact ih (v :: P) ((pa v).foldl relax st) hn.2 hall' (fun x hx => List.mem_cons_of_mem _ (hP0 x hx)) h1.1 h1.2

/-- one round never raises -/
theorem layerStepE_eq {ns : List α} {ch pa : α → List α} (G : GraphOK ns ch pa)
    {rem : List (α × Nat)} {acc : List (List α)} {last : List α} (h : LoopInv ns ch rem acc last) :
    layerStepE pa rem last = some (layerStep pa rem last) := by
  have hn := h.nodup
  rw [List.nodup_append] at hn
  obtain ⟨hn1, hn2, hn3⟩ := hn
  unfold layerStepE layerStep
  exact layerFoldE_spec G acc.flatten last acc.flatten (rem, []) hn2
    (by
      intro v hv
      exact ⟨fun hc => hn3 v hc v hv rfl, h.sub_ns v (List.mem_append_right _ hv)⟩)
    (fun x hx => hx) h.rem_ok
    (by
      constructor
      · simp
      · intro a
        simp only [List.not_mem_nil, false_iff, not_and]
        intro _ h1 h2
        omega)

/-- the whole loop: no `KeyError`, never stuck, and the fuel is not the reason it stops -/
theorem layersLoopE_eq {ns : List α} {ch pa : α → List α} (G : GraphOK ns ch pa)
    (rk : α → Nat) (hrk : ∀ a ∈ ns, ∀ c ∈ ch a, rk c < rk a) :
    ∀ (fuel : Nat) (rem : List (α × Nat)) (acc : List (List α)) (last : List α),
      LoopInv ns ch rem acc last → (rem ≠ [] → last ≠ []) → unvisited ns (acc.flatten ++ last) ≤ fuel →
      layersLoopE pa fuel rem acc last = .ok (layersLoop pa fuel rem acc last) := by
  intro fuel
  induction fuel with
  | zero =>
    intro rem acc last h _ hf
    have hr : rem = [] := by
      rw [loopInv_rem_nil h]
      exact (unvisited_eq_zero_iff _ _).mp (by omega)
    simp [layersLoopE, layersLoop, hr]
  | succ f ih =>
    intro rem acc last h hlast hf
    by_cases hr : rem = []
    · simp [layersLoopE, layersLoop, hr]
    · have hne : rem.isEmpty = false := by
        cases rem with
        | nil => exact absurd rfl hr
        | cons _ _ => rfl
      have hle : last.isEmpty = false := by
        cases hl : last with
        | nil => exact absurd hl (hlast hr)
        | cons _ _ => rfl
      obtain ⟨hstep, hnext⟩ := loopInv_step G h
      obtain ⟨b, hb⟩ := loop_progress G rk hrk h hr
      have hmeasure : unvisited ns ((acc ++ [last]).flatten ++ (layerStep pa rem last).2) ≤ f := by
        have hflat : (acc ++ [last]).flatten = acc.flatten ++ last := by simp
        rw [hflat]
        have hn := hstep.nodup
        rw [hflat, List.nodup_append] at hn
        have := unvisited_append ns (acc.flatten ++ last) (layerStep pa rem last).2 hn.2.1
          (by
            intro x hx
            exact ⟨fun hc => hn.2.2 x hc x hx rfl, ((hnext x).mp hx).1⟩)
        have hpos : 1 ≤ (layerStep pa rem last).2.length := by
          cases hl : (layerStep pa rem last).2 with
          | nil => rw [hl] at hb; simp at hb
          | cons _ _ => simp
        have hc : unvisited ns (acc.flatten ++ last ++ (layerStep pa rem last).2) =
            unvisited ns ((layerStep pa rem last).2 ++ (acc.flatten ++ last)) :=
          unvisited_congr _ _ _ (fun x _ => by
            simp only [List.mem_append]
            constructor
            · rintro ((h | h) | h)
              · exact Or.inr (Or.inl h)
              · exact Or.inr (Or.inr h)
              · exact Or.inl h
            · rintro (h | h | h)
              · exact Or.inr h
              · exact Or.inl (Or.inl h)
              · exact Or.inl (Or.inr h))
        omega
      have hlast' : (layerStep pa rem last).1 ≠ [] → (layerStep pa rem last).2 ≠ [] := by
        intro _ hc
        rw [hc] at hb
        simp at hb
      have := ih _ _ _ hstep hlast' hmeasure
      simp only [layersLoopE, layersLoop, hne, hle, Bool.false_eq_true, ↓reduceIte, layerStepE_eq G h]
      exact this

end EkwVerif.Presched.Aux
