/-
Tier S, slice S1, part B: frames of the bookkeeping-carrying base steps, the auxiliary invariant
`InvS1X` (what `plan` has put into `values`, `ptrack ⊆ consumers`, duplicate-freeness of the
heuristic's work lists), its initialisation and preservation by EVERY step of the extended system.
-/
import EkwVerif.Lemmas.SchedInvS1A

set_option linter.unusedVariables false
set_option linter.unusedSimpArgs false

namespace EkwVerif.Ctrl

/-! ### frames of enter / endAssign / assign / plan1 / notify1 -/

theorem sS1_enter_frames (f : Sem) (j : Job) (cl : Cluster) (s s' : Sys) (hs : step f j cl s .enter = some s') :
    s'.ctl = s.ctl ∧ s.phase = .top ∧ (s'.phase = .assigning ∨ s'.phase = .finished) ∧
    (s'.todo = [] ∨ s'.todo = s.todo) := by
  simp only [step] at hs
  split at hs; · cases hs
  rename_i hp
  have hp' : s.phase = .top := by simpa using hp
  split at hs
  · cases hs; exact ⟨rfl, hp', Or.inr rfl, Or.inr rfl⟩
  · cases hs; exact ⟨rfl, hp', Or.inl rfl, Or.inl rfl⟩

theorem sS1_endAssign_frames (f : Sem) (j : Job) (cl : Cluster) (s s' : Sys) (hs : step f j cl s .endAssign = some s') :
    s'.ctl = s.ctl ∧ s'.todo = s.todo ∧ s.phase = .assigning ∧ s'.phase = .planning := by
  simp only [step] at hs
  split at hs; · cases hs
  rename_i hp
  have hp' : s.phase = .assigning := by simpa using hp
  cases hs
  exact ⟨rfl, rfl, hp', rfl⟩

theorem sS1_assign_frames (f : Sem) (j : Job) (cl : Cluster) (s s' : Sys) (a : Asg)
    (hs : step f j cl s (.assign a) = some s') :
    s.phase = .assigning ∧
    ((s'.ctl = s.ctl ∧ s'.todo = s.todo ∧ s'.phase = .crashed ∧
        s'.err = some "ValueError: dataset not found in any host") ∨
     (∃ c2 prep, assignOne j cl s.ctl a = .ok (c2, prep) ∧ s'.ctl = c2 ∧ s'.todo = s.todo ++ [(a, prep)] ∧
        s'.phase = s.phase)) := by
  simp only [step] at hs
  split at hs; · cases hs
  rename_i hc
  have hp : s.phase = .assigning := by
    simp only [bne_iff_ne, ne_eq, Bool.or_eq_true, not_or, Decidable.not_not] at hc; simpa using hc.1
  refine ⟨hp, ?_⟩
  split at hs
  · cases hs
  · rename_i e he
    cases hs
    have := i2a_assignOne_err j cl s.ctl a e he
    subst this
    exact Or.inl ⟨rfl, rfl, rfl, rfl⟩
  · rename_i c2 prep has
    cases hs
    exact Or.inr ⟨c2, prep, has, rfl, rfl, rfl⟩

theorem sS1_plan1_frames (f : Sem) (j : Job) (cl : Cluster) (s s' : Sys) (hs : step f j cl s .plan1 = some s') :
    s.phase = .planning ∧ ∃ a prep rest, s.todo = (a, prep) :: rest ∧
    ((s'.ctl = s.ctl ∧ s'.todo = s.todo ∧ s'.phase = .crashed) ∨
     (∃ c2, planOne j s.ctl a prep = .ok c2 ∧ s'.ctl = c2 ∧ s'.todo = rest ∧ s'.phase = s.phase)) := by
  simp only [step] at hs
  split at hs; · cases hs
  rename_i hc
  have hp : s.phase = .planning := by simpa using hc
  refine ⟨hp, ?_⟩
  split at hs
  · cases hs
  · rename_i a prep rest htd
    refine ⟨a, prep, rest, htd, ?_⟩
    split at hs
    · cases hs
    · cases hs; exact Or.inl ⟨rfl, rfl, rfl⟩
    · rename_i c2 hpl
      cases hs; exact Or.inr ⟨c2, hpl, rfl, rfl, rfl⟩

theorem sS1_notify1_frames (f : Sem) (j : Job) (cl : Cluster) (s s' : Sys) (hs : step f j cl s .notify1 = some s') :
    s.phase = .notifying ∧ ∃ ev rest, s.inbox = ev :: rest ∧
    ((s'.ctl = s.ctl ∧ s'.todo = s.todo ∧ s'.phase = .crashed) ∨
     (∃ c2, notifyEvent j s.ctl ev = .ok c2 ∧ s'.ctl = c2 ∧ s'.todo = s.todo ∧ s'.phase = s.phase)) := by
  simp only [step] at hs
  split at hs; · cases hs
  rename_i hc
  have hp : s.phase = .notifying := by simpa using hc
  refine ⟨hp, ?_⟩
  split at hs
  · cases hs
  · rename_i ev rest hib
    refine ⟨ev, rest, hib, ?_⟩
    split at hs
    · cases hs
    · cases hs; exact Or.inl ⟨rfl, rfl, rfl⟩
    · rename_i c2 hne
      cases hs; exact Or.inr ⟨c2, hne, rfl, rfl, rfl⟩

/-! ### `notifyEvent`: the purging tracker only shrinks; what becomes computable -/

theorem sS1_completeInputs_ptrack (j : Job) (task : Task) (l : List Ds) (c c' : Ctl)
    (hr : completeInputs j task c l = .ok c') : ∀ ds t, t ∈ c'.ptrack ds → t ∈ c.ptrack ds := by
  induction l generalizing c with
  | nil => simp only [completeInputs, Except.ok.injEq] at hr; subst hr; exact fun _ _ h => h
  | cons a l ih =>
    unfold completeInputs at hr
    split at hr
    · dsimp only at hr
      intro ds t ht
      have := ih _ hr ds t ht
      simp only [considerPurge_ptrack] at this
      by_cases hds : ds = a
      · subst hds; rw [upd_same] at this; exact List.mem_of_mem_erase this
      · rw [upd_other _ _ _ _ hds] at this; exact this
    · cases hr

theorem sS1_considerFold_comp (ds : Ds) (l : List Task) (c : Ctl) :
    (∀ t, t ∈ c.computable → t ∈ (l.foldl (fun c ch => considerChild c ds ch) c).computable) ∧
    (∀ t, t ∈ (l.foldl (fun c ch => considerChild c ds ch) c).computable → t ∈ c.computable ∨ t ∈ l) := by
  induction l generalizing c with
  | nil => simp
  | cons ch l ih =>
    simp only [List.foldl_cons]
    obtain ⟨a1, a2⟩ := ih (considerChild c ds ch)
    have b : (∀ t, t ∈ c.computable → t ∈ (considerChild c ds ch).computable) ∧
        (∀ t, t ∈ (considerChild c ds ch).computable → t ∈ c.computable ∨ t = ch) := by
      unfold considerChild
      split
      · dsimp only
        split
        · simp only [List.mem_append, List.mem_singleton]
          exact ⟨fun t h => Or.inl h, fun t h => h⟩
        · exact ⟨fun t h => h, fun t h => Or.inl h⟩
      · exact ⟨fun t h => h, fun t h => Or.inl h⟩
    refine ⟨fun t ht => a1 t (b.1 t ht), ?_⟩
    intro t ht
    rcases a2 t ht with h | h
    · rcases b.2 t h with h | h
      · exact Or.inl h
      · exact Or.inr (by simp [h])
    · exact Or.inr (by simp [h])

/-- the dataset an announcement is about (none for a payload) -/
def sS1_evDs : Event → Option Ds
  | .pubW _ ds => some ds
  | .pubT _ ds => some ds
  | .payload _ _ => none

theorem sS1_notifyEvent_frames (j : Job) (c c' : Ctl) (ev : Event) (hr : notifyEvent j c ev = .ok c') :
    (∀ ds t, t ∈ c'.ptrack ds → t ∈ c.ptrack ds) ∧
    (∀ t, t ∈ c.computable → t ∈ c'.computable) ∧
    (∀ t, t ∈ c'.computable → t ∈ c.computable ∨
      ∃ ds, sS1_evDs ev = some ds ∧ t ∈ (if c.ptracked ds then c.ptrack ds else [])) := by
  cases ev with
  | payload ds v =>
    simp only [notifyEvent, Except.ok.injEq] at hr
    subst hr
    exact ⟨fun _ _ h => h, fun _ h => h, fun _ h => Or.inl h⟩
  | pubT hst ds =>
    simp only [notifyEvent, Except.ok.injEq] at hr
    subst hr
    have := sS1_considerFold_comp ds (if c.ptracked ds then c.ptrack ds else []) (considerFetch j (markAvailable c hst ds) ds hst)
    refine ⟨?_, ?_, ?_⟩
    · intro d t ht; simpa using ht
    · intro t ht
      have h1 := this.1 t (by simpa using ht)
      simpa [considerComputable] using h1
    · intro t ht
      have h1 := this.2 t (by simpa [considerComputable] using ht)
      rcases h1 with h1 | h1
      · exact Or.inl (by simpa using h1)
      · exact Or.inr ⟨ds, rfl, h1⟩
  | pubW w ds =>
    simp only [notifyEvent] at hr
    have := sS1_considerFold_comp ds (if c.ptracked ds then c.ptrack ds else []) (considerFetch j (markAvailable c w.host ds) ds w.host)
    have key : (∀ t, t ∈ c.computable → t ∈ (considerComputable (considerFetch j (markAvailable c w.host ds) ds w.host) ds).computable) ∧
        (∀ t, t ∈ (considerComputable (considerFetch j (markAvailable c w.host ds) ds w.host) ds).computable → t ∈ c.computable ∨
          ∃ ds', sS1_evDs (Event.pubW w ds) = some ds' ∧ t ∈ (if c.ptracked ds' then c.ptrack ds' else [])) := by
      refine ⟨?_, ?_⟩
      · intro t ht
        have h1 := this.1 t (by simpa using ht)
        simpa [considerComputable] using h1
      · intro t ht
        have h1 := this.2 t (by simpa [considerComputable] using ht)
        rcases h1 with h1 | h1
        · exact Or.inl (by simpa using h1)
        · exact Or.inr ⟨ds, rfl, h1⟩
    split at hr
    · split at hr
      · cases hr
      · rename_i c2 hc2
        have e1 := completeInputs_computable _ _ _ _ _ hc2
        have e2 := sS1_completeInputs_ptrack _ _ _ _ _ hc2
        split at hr
        · simp only [Except.ok.injEq] at hr; subst hr
          refine ⟨?_, ?_, ?_⟩
          · intro d t ht
            have := e2 d t ht
            simpa using this
          · intro t ht; simp only [e1]; exact key.1 t ht
          · intro t ht; simp only [e1] at ht; exact key.2 t ht
        · cases hr
    · simp only [Except.ok.injEq] at hr; subst hr
      exact ⟨fun d t ht => by simpa using ht, key.1, key.2⟩

/-! ### the auxiliary invariant -/

/-- the heuristic's work lists are duplicate free -/
def sS1_StageNodup (sc : Sch) : Prop :=
  match sc.stage with
  | .ready _ ws _ => ws.Nodup
  | .inH _ _ tasks workers _ cpuT cpuW _ => (workers ++ cpuW).Nodup ∧ (tasks ++ cpuT).Nodup
  | _ => True

/-- auxiliary invariant of slice S1 (needed to make `InvS` inductive) -/
structure InvS1X (j : Job) (cm : Comps) (x : SysX) : Prop where
  /-- once a task has been planned, the consumers of its outputs are in `values` until they are dispatched -/
  plan_values : ∀ ds t, t ∈ j.consumers ds → x.sys.ctl.dispatched ds.task = 1 → (∀ w, (w, ds.task) ∉ x.sys.todoPairs) →
      t ∈ x.sch.values (cm.compOf t) ∨ x.sys.ctl.dispatched t = 1
  /-- the purging tracker only holds consumers -/
  ptrack_sub : ∀ ds t, t ∈ x.sys.ctl.ptrack ds → t ∈ j.consumers ds
  stage_nodup : sS1_StageNodup x.sch

theorem sS1_auxX_init (j : Job) (cl : Cluster) (cm : Comps) : InvS1X j cm (SysX.init j cl cm) := by
  refine ⟨?_, ?_, ?_⟩
  · intro ds t _ hd
    simp [SysX.init, Sys.init, initCtl] at hd
  · intro ds t ht
    simpa [SysX.init, Sys.init, initCtl] using ht
  · simp [sS1_StageNodup, SysX.init, Sch.init]

/-- steps that keep `dispatched`, do not lose `todo` entries, `values` entries, or gain `ptrack` entries -/
theorem InvS1X.sS1_congr {j : Job} {cm : Comps} {x x' : SysX} (h : InvS1X j cm x)
    (hd : x'.sys.ctl.dispatched = x.sys.ctl.dispatched)
    (ht : ∀ p, p ∈ x.sys.todoPairs → p ∈ x'.sys.todoPairs)
    (hv : ∀ c t, t ∈ x.sch.values c → t ∈ x'.sch.values c)
    (hp : ∀ ds t, t ∈ x'.sys.ctl.ptrack ds → t ∈ x.sys.ctl.ptrack ds)
    (hn : sS1_StageNodup x'.sch) : InvS1X j cm x' := by
  refine ⟨?_, ?_, hn⟩
  · intro ds t hc hdd hnt
    rw [hd] at hdd ⊢
    rcases h.plan_values ds t hc hdd (fun w hw => hnt w (ht _ hw)) with h1 | h1
    · exact Or.inl (hv _ _ h1)
    · exact Or.inr h1
  · intro ds t ht'
    exact h.ptrack_sub ds t (hp ds t ht')

theorem sS1_stageNodup_of_stage (sc sc' : Sch) (h : sc'.stage = sc.stage) (hn : sS1_StageNodup sc) : sS1_StageNodup sc' := by
  unfold sS1_StageNodup at hn ⊢
  rw [h]; exact hn

theorem sS1_stageNodup_offdone (sc : Sch) (h : sc.stage = .off ∨ sc.stage = .done) : sS1_StageNodup sc := by
  unfold sS1_StageNodup
  rcases h with h | h <;> simp [h]

theorem sS1_assignSch_values (sc : Sch) (c : Nat) (st' : AStage) (a : Asg) (c' : Nat) (t : Task) (hne : t ≠ a.task)
    (ht : t ∈ sc.values c') : t ∈ (sS1_assignSch sc c st' a).values c' := by
  unfold sS1_assignSch
  dsimp only
  split
  · simp only
    by_cases hc : c' = c
    · subst hc; rw [upd_same]; exact (List.mem_erase_of_ne hne).mpr ht
    · rw [upd_other _ _ _ _ hc]; exact ht
  · exact ht

theorem sS1_assignSch_stage (sc : Sch) (c : Nat) (st' : AStage) (a : Asg) : (sS1_assignSch sc c st' a).stage = st' := rfl

/-! ### preservation of the auxiliary invariant -/

theorem sS1_nodup_filter_split {α : Type} (l : List α) (p : α → Bool) (h : l.Nodup) :
    (l.filter p ++ l.filter (fun a => !p a)).Nodup := by
  refine List.nodup_append.mpr ⟨List.Nodup.sublist List.filter_sublist h, List.Nodup.sublist List.filter_sublist h, ?_⟩
  intro a ha b hb hab
  subst hab
  simp only [List.mem_filter] at ha hb
  have := ha.2
  have := hb.2
  simp_all

theorem sS1_sched_stageNodup (f : Sem) (j : Job) (cl : Cluster) (cm : Comps) (x x' : SysX) (st : StepX)
    (hst : ∀ st0, st ≠ .base st0) (h1 : Inv1 cl x.sys) (hn : sS1_StageNodup x.sch)
    (hs : stepX f j cl cm x st = some x') : sS1_StageNodup x'.sch := by
  cases st with
  | base st0 => exact absurd rfl (hst st0)
  | awcBegin c =>
    simp -zeta only [stepX] at hs
    split at hs; · cases hs
    split at hs
    · split at hs
      · cases hs
        simp only [sS1_StageNodup]
        exact List.Nodup.sublist List.filter_sublist h1.idle_nodup
      · cases hs
    · cases hs
  | beginStepII =>
    simp -zeta only [stepX] at hs
    split at hs; · cases hs
    split at hs
    · split at hs
      · cases hs; simp [sS1_StageNodup]
      · dsimp only at hs
        split at hs
        · cases hs; simp [sS1_StageNodup]
        · cases hs; simp [sS1_StageNodup]
    · cases hs
  | migrate h =>
    simp -zeta only [stepX] at hs
    split at hs; · cases hs
    split at hs
    · split at hs
      · cases hs
      · split at hs
        · cases hs
        · cases hs
          simp only [sS1_StageNodup]
          exact List.Nodup.sublist List.filter_sublist h1.idle_nodup
    · cases hs
  | awcEnter =>
    simp -zeta only [stepX] at hs
    split at hs; · cases hs
    split at hs
    · rename_i c ws k heq
      simp only [sS1_StageNodup, heq] at hn
      cases hs
      have hc : (compTasks cm x.sys.ctl c).Nodup := by
        unfold compTasks
        exact List.Nodup.sublist List.filter_sublist h1.once.nodup
      have g1 := sS1_nodup_filter_split ws (fun w => cl.hasGpu w) hn
      have g2 := sS1_nodup_filter_split (compTasks cm x.sys.ctl c) (fun t => j.gpu t) hc
      dsimp only
      split
      · simp only [sS1_StageNodup]; exact ⟨g1, g2⟩
      · simp only [sS1_StageNodup]; exact ⟨g1, g2⟩
    · cases hs
  | hPhase2 =>
    simp -zeta only [stepX] at hs
    split at hs; · cases hs
    split at hs
    · rename_i c cls tasks workers cpuT cpuW k heq
      simp only [sS1_StageNodup, heq] at hn
      cases hs
      dsimp only
      split
      · simp only [sS1_StageNodup]; exact hn
      · simp only [sS1_StageNodup]; exact hn
    · cases hs
  | hEnd =>
    simp -zeta only [stepX] at hs
    split at hs; · cases hs
    split at hs
    · rename_i c cls tasks workers cpuT cpuW k heq
      simp only [sS1_StageNodup, heq] at hn
      split at hs
      · cases hs
      · split at hs
        · cases hs
          have hw : ((cpuW ++ workers.filter (fun w => x.sys.ctl.idle.contains w)) ++ []).Nodup := by
            have h0 := List.nodup_append.mp hn.1
            simp only [List.append_nil]
            refine List.nodup_append.mpr ⟨h0.2.1, List.Nodup.sublist List.filter_sublist h0.1, ?_⟩
            intro a ha b hb hab
            subst hab
            exact h0.2.2 a (List.mem_filter.mp hb).1 a ha rfl
          have ht : (cpuT ++ []).Nodup := by
            have h0 := List.nodup_append.mp hn.2
            simpa using h0.2.1
          dsimp only
          split
          · simp only [sS1_StageNodup]; exact ⟨hw, ht⟩
          · simp only [sS1_StageNodup]; exact ⟨hw, ht⟩
        · split at hs
          · cases hs; simp [sS1_StageNodup]
          · cases hs; simp [sS1_StageNodup]
    · cases hs

/-- `InvS1X` is preserved by every step of the extended system -/
theorem sS1_auxX_step (f : Sem) (j : Job) (cl : Cluster) (cm : Comps) (x x' : SysX) (st : StepX) (wf : WF j cl)
    (hA : InvAll f j cl x.sys) (hX : InvS1X j cm x) (hs : stepX f j cl cm x st = some x') : InvS1X j cm x' := by
  have h1 := hA.h1
  by_cases hst : ∀ st0, st ≠ .base st0
  · obtain ⟨e1, e2⟩ := sS1_sched_sys f j cl cm x x' st hst hs
    refine hX.sS1_congr (by rw [e1]) (by rw [e1]; exact fun _ h => h) (by rw [e2]; exact fun _ _ h => h)
      (by rw [e1]; exact fun _ _ h => h) (sS1_sched_stageNodup f j cl cm x x' st hst h1 hX.stage_nodup hs)
  · have : ∃ st0, st = .base st0 := by
      cases st with
      | base st0 => exact ⟨st0, rfl⟩
      | _ => exact absurd (by intro st0 h; cases h) hst
    obtain ⟨st0, rfl⟩ := this
    clear hst
    cases st0 with
    | enter =>
      obtain ⟨_, hb, hsch⟩ := sS1_enter_spec f j cl cm x x' hs
      obtain ⟨hctl, hph, _, htd⟩ := sS1_enter_frames f j cl x.sys x'.sys hb
      have htodo : x.sys.todo = [] := h1.todo_phase (by simp [hph]) (by simp [hph]) (by simp [hph])
      refine hX.sS1_congr (by rw [hctl]) ?_ (by rw [hsch]; exact fun _ _ h => h) (by rw [hctl]; exact fun _ _ h => h) ?_
      · intro p hp; simp [Sys.todoPairs, htodo] at hp
      · rw [hsch]
        unfold sS1_enterStage
        split <;> simp [sS1_StageNodup]
    | endAssign =>
      obtain ⟨_, hb, hsch⟩ := sS1_endAssign_spec f j cl cm x x' hs
      obtain ⟨hctl, htd, _, _⟩ := sS1_endAssign_frames f j cl x.sys x'.sys hb
      refine hX.sS1_congr (by rw [hctl]) (by simp only [Sys.todoPairs, htd]; exact fun _ h => h)
        (by rw [hsch]; exact fun _ _ h => h) (by rw [hctl]; exact fun _ _ h => h) ?_
      rw [hsch]; simp [sS1_StageNodup]
    | assign a =>
      obtain ⟨_, hb, c, cls, tasks, workers, phase, cpuT, cpuW, k, hstage, hat, haw, hsch⟩ := sS1_assign_spec f j cl cm x x' a hs
      obtain ⟨hph, hcase⟩ := sS1_assign_frames f j cl x.sys x'.sys a hb
      rcases hcase with ⟨hctl, htd, hph', _⟩ | ⟨c2, prep, has, hctl, htd, hph'⟩
      · have : x'.sch = x.sch := by rw [hsch]; simp [hph']
        exact hX.sS1_congr (by rw [hctl]) (by simp only [Sys.todoPairs, htd]; exact fun _ h => h)
          (by rw [this]; exact fun _ _ h => h) (by rw [hctl]; exact fun _ _ h => h) (by rw [this]; exact hX.stage_nodup)
      · have hsch' : x'.sch = sS1_assignSch x.sch c (.inH c cls (tasks.erase a.task) (workers.erase a.worker) phase cpuT cpuW k) a := by
          rw [hsch]; simp [hph', hph]
        obtain ⟨ho, hd0, hd', hcomp, hidle, hi', hon', hgpu⟩ := once_assignOne j cl x.sys.ctl c2 a prep h1.once has
        obtain ⟨_, _, fpt, _⟩ := i2a_assignOne_frames j cl x.sys.ctl c2 a prep has
        refine ⟨?_, ?_, ?_⟩
        · intro ds t hc hdd hnt
          rw [hctl, hd'] at hdd ⊢
          by_cases hda : ds.task = a.task
          · exfalso
            exact hnt a.worker (by simp [Sys.todoPairs, htd, hda])
          · rw [upd_other _ _ _ _ hda] at hdd
            have hnt' : ∀ w, (w, ds.task) ∉ x.sys.todoPairs := by
              intro w hw
              exact hnt w (by simp only [Sys.todoPairs, htd, List.map_append, List.mem_append]; exact Or.inl hw)
            by_cases hta : t = a.task
            · right; rw [hta]; simp
            · rcases hX.plan_values ds t hc hdd hnt' with h | h
              · left; rw [hsch']; exact sS1_assignSch_values _ _ _ _ _ _ hta h
              · right; rw [upd_other _ _ _ _ hta]; exact h
        · intro ds t ht
          rw [hctl, fpt] at ht
          exact hX.ptrack_sub ds t ht
        · have hn := hX.stage_nodup
          simp only [sS1_StageNodup, hstage] at hn
          rw [hsch']
          simp only [sS1_StageNodup, sS1_assignSch_stage]
          exact ⟨List.Nodup.sublist (List.Sublist.append List.erase_sublist (List.Sublist.refl _)) hn.1,
            List.Nodup.sublist (List.Sublist.append List.erase_sublist (List.Sublist.refl _)) hn.2⟩
    | plan1 =>
      obtain ⟨_, hb, a, prep, rest, htodo, hsch⟩ := sS1_plan1_spec f j cl cm x x' hs
      obtain ⟨hph, a', prep', rest', htodo', hcase⟩ := sS1_plan1_frames f j cl x.sys x'.sys hb
      rw [htodo] at htodo'
      simp only [List.cons.injEq, Prod.mk.injEq] at htodo'
      obtain ⟨⟨rfl, rfl⟩, rfl⟩ := htodo'
      rcases hcase with ⟨hctl, htd, hph'⟩ | ⟨c2, hpl, hctl, htd, hph'⟩
      · have : x'.sch = x.sch := by rw [hsch]; simp [hph']
        exact hX.sS1_congr (by rw [hctl]) (by simp only [Sys.todoPairs, htd]; exact fun _ h => h)
          (by rw [this]; exact fun _ _ h => h) (by rw [hctl]; exact fun _ _ h => h) (by rw [this]; exact hX.stage_nodup)
      · have hsch' : x'.sch = sS1_planSch j cm x.sys.ctl x.sch a prep := by
          rw [hsch]; simp [hph', hph]
        obtain ⟨f1, f2, _, _, _, _, _⟩ := planOne_frames j x.sys.ctl c2 a prep hpl
        obtain ⟨_, _, fpt, _⟩ := i2a_planOne_frames j x.sys.ctl c2 a prep hpl
        obtain ⟨p1, p2, p3, p4, p5, p6, p7⟩ := sS1_planFold cm a.worker (fun p : Ds × Host => x.sys.ctl.ptrack p.1) prep x.sch
        obtain ⟨q1, q2, q3, q4, q5, q6, q7⟩ := sS1_planFold cm a.worker (fun ds : Ds => j.consumers ds) (j.outputsOf a.task)
          (prep.foldl (fun sc p => planChildren cm sc a.worker (x.sys.ctl.ptrack p.1)) x.sch)
        have hvmono : ∀ c t, t ∈ x.sch.values c → t ∈ x'.sch.values c := by
          intro c t ht
          rw [hsch']
          unfold sS1_planSch
          dsimp only
          rw [q6, p6]
          exact Or.inl (Or.inl ht)
        refine ⟨?_, ?_, ?_⟩
        · intro ds t hc hdd hnt
          rw [hctl, f2] at hdd ⊢
          by_cases hda : ds.task = a.task
          · left
            rw [hsch']
            unfold sS1_planSch
            dsimp only
            rw [q6]
            refine Or.inr ⟨⟨ds, ?_, hc⟩, rfl⟩
            rw [i2a_mem_outputsOf]
            exact ⟨hda, hda ▸ wf.outs t ds ((i2b_mem_consumers j ds t).mp hc)⟩
          · have hnt' : ∀ w, (w, ds.task) ∉ x.sys.todoPairs := by
              intro w hw
              simp only [Sys.todoPairs, htodo, List.map_cons, List.mem_cons, Prod.mk.injEq] at hw
              rcases hw with hw | hw
              · exact hda hw.2
              · exact hnt w (by simp only [Sys.todoPairs, htd]; exact hw)
            rcases hX.plan_values ds t hc hdd hnt' with h | h
            · exact Or.inl (hvmono _ _ h)
            · exact Or.inr h
        · intro ds t ht
          rw [hctl, fpt] at ht
          exact hX.ptrack_sub ds t ht
        · refine sS1_stageNodup_of_stage x.sch x'.sch ?_ hX.stage_nodup
          rw [hsch']
          unfold sS1_planSch
          dsimp only
          rw [q5, p5]
    | notify1 =>
      obtain ⟨_, hb, ev, rest, hin, hsch⟩ := sS1_notify1_spec f j cl cm x x' hs
      obtain ⟨hph, ev', rest', hin', hcase⟩ := sS1_notify1_frames f j cl x.sys x'.sys hb
      rw [hin] at hin'
      simp only [List.cons.injEq] at hin'
      obtain ⟨rfl, rfl⟩ := hin'
      rcases hcase with ⟨hctl, htd, hph'⟩ | ⟨c2, hne, hctl, htd, hph'⟩
      · have : x'.sch = x.sch := by rw [hsch]; simp [hph']
        exact hX.sS1_congr (by rw [hctl]) (by simp only [Sys.todoPairs, htd]; exact fun _ h => h)
          (by rw [this]; exact fun _ _ h => h) (by rw [hctl]; exact fun _ _ h => h) (by rw [this]; exact hX.stage_nodup)
      · have hsch' : x'.sch = sS1_notifySch cm cl x.sys.ctl x'.sys.ctl x.sch ev := by
          rw [hsch]; simp [hph', hph]
        have hfr : x'.sch.values = x.sch.values ∧ x'.sch.stage = x.sch.stage := by
          rw [hsch']
          cases ev with
          | pubW w ds => exact ⟨(sS1_notifyChildren cm cl _ _ x.sch ds w.host).2.2.2.1, (sS1_notifyChildren cm cl _ _ x.sch ds w.host).2.2.2.2.1⟩
          | pubT h ds => exact ⟨(sS1_notifyChildren cm cl _ _ x.sch ds h).2.2.2.1, (sS1_notifyChildren cm cl _ _ x.sch ds h).2.2.2.2.1⟩
          | payload ds v => exact ⟨rfl, rfl⟩
        obtain ⟨hd, _⟩ := notifyEvent_workers j x.sys.ctl c2 ev hne
        obtain ⟨hpt, _, _⟩ := sS1_notifyEvent_frames j x.sys.ctl c2 ev hne
        exact hX.sS1_congr (by rw [hctl, hd]) (by simp only [Sys.todoPairs, htd]; exact fun _ h => h)
          (by rw [hfr.1]; exact fun _ _ h => h) (by rw [hctl]; exact hpt)
          (sS1_stageNodup_of_stage x.sch x'.sch hfr.2 hX.stage_nodup)
    | endPlan =>
      obtain ⟨_, hb, hsch⟩ := sS1_plain_spec f j cl cm x x' _ (by simp [sS1_plain]) hs
      obtain ⟨g1, g2, g3, g4, g5, g6, g7⟩ := sS1_plain_frames f j cl x.sys x'.sys _ (by simp [sS1_plain]) hb
      exact hX.sS1_congr g1 (by simp only [Sys.todoPairs, g2]; exact fun _ h => h) (by rw [hsch]; exact fun _ _ h => h)
        (by rw [g6]; exact fun _ _ h => h) (by rw [hsch]; exact hX.stage_nodup)
    | flushF1 =>
      obtain ⟨_, hb, hsch⟩ := sS1_plain_spec f j cl cm x x' _ (by simp [sS1_plain]) hs
      obtain ⟨g1, g2, g3, g4, g5, g6, g7⟩ := sS1_plain_frames f j cl x.sys x'.sys _ (by simp [sS1_plain]) hb
      exact hX.sS1_congr g1 (by simp only [Sys.todoPairs, g2]; exact fun _ h => h) (by rw [hsch]; exact fun _ _ h => h)
        (by rw [g6]; exact fun _ _ h => h) (by rw [hsch]; exact hX.stage_nodup)
    | endFlushF =>
      obtain ⟨_, hb, hsch⟩ := sS1_plain_spec f j cl cm x x' _ (by simp [sS1_plain]) hs
      obtain ⟨g1, g2, g3, g4, g5, g6, g7⟩ := sS1_plain_frames f j cl x.sys x'.sys _ (by simp [sS1_plain]) hb
      exact hX.sS1_congr g1 (by simp only [Sys.todoPairs, g2]; exact fun _ h => h) (by rw [hsch]; exact fun _ _ h => h)
        (by rw [g6]; exact fun _ _ h => h) (by rw [hsch]; exact hX.stage_nodup)
    | flushP1 =>
      obtain ⟨_, hb, hsch⟩ := sS1_plain_spec f j cl cm x x' _ (by simp [sS1_plain]) hs
      obtain ⟨g1, g2, g3, g4, g5, g6, g7⟩ := sS1_plain_frames f j cl x.sys x'.sys _ (by simp [sS1_plain]) hb
      exact hX.sS1_congr g1 (by simp only [Sys.todoPairs, g2]; exact fun _ h => h) (by rw [hsch]; exact fun _ _ h => h)
        (by rw [g6]; exact fun _ _ h => h) (by rw [hsch]; exact hX.stage_nodup)
    | endFlush =>
      obtain ⟨_, hb, hsch⟩ := sS1_plain_spec f j cl cm x x' _ (by simp [sS1_plain]) hs
      obtain ⟨g1, g2, g3, g4, g5, g6, g7⟩ := sS1_plain_frames f j cl x.sys x'.sys _ (by simp [sS1_plain]) hb
      exact hX.sS1_congr g1 (by simp only [Sys.todoPairs, g2]; exact fun _ h => h) (by rw [hsch]; exact fun _ _ h => h)
        (by rw [g6]; exact fun _ _ h => h) (by rw [hsch]; exact hX.stage_nodup)
    | recv evs =>
      obtain ⟨_, hb, hsch⟩ := sS1_plain_spec f j cl cm x x' _ (by simp [sS1_plain]) hs
      obtain ⟨g1, g2, g3, g4, g5, g6, g7⟩ := sS1_plain_frames f j cl x.sys x'.sys _ (by simp [sS1_plain]) hb
      exact hX.sS1_congr g1 (by simp only [Sys.todoPairs, g2]; exact fun _ h => h) (by rw [hsch]; exact fun _ _ h => h)
        (by rw [g6]; exact fun _ _ h => h) (by rw [hsch]; exact hX.stage_nodup)
    | endNotify =>
      obtain ⟨_, hb, hsch⟩ := sS1_plain_spec f j cl cm x x' _ (by simp [sS1_plain]) hs
      obtain ⟨g1, g2, g3, g4, g5, g6, g7⟩ := sS1_plain_frames f j cl x.sys x'.sys _ (by simp [sS1_plain]) hb
      exact hX.sS1_congr g1 (by simp only [Sys.todoPairs, g2]; exact fun _ h => h) (by rw [hsch]; exact fun _ _ h => h)
        (by rw [g6]; exact fun _ _ h => h) (by rw [hsch]; exact hX.stage_nodup)
    | env es =>
      obtain ⟨_, hb, hsch⟩ := sS1_plain_spec f j cl cm x x' _ (by simp [sS1_plain]) hs
      obtain ⟨g1, g2, g3, g4, g5, g6, g7⟩ := sS1_plain_frames f j cl x.sys x'.sys _ (by simp [sS1_plain]) hb
      exact hX.sS1_congr g1 (by simp only [Sys.todoPairs, g2]; exact fun _ h => h) (by rw [hsch]; exact fun _ _ h => h)
        (by rw [g6]; exact fun _ _ h => h) (by rw [hsch]; exact hX.stage_nodup)

end EkwVerif.Ctrl
