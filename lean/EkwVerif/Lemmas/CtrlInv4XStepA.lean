/-
Extra tier `Inv4X` preservation, slice i4x, part A: helper lemmas.
The specifications of `buildPrep`/`assignOne` and `planOne` are copies (renamed) of the ones
proved by the i4a / i4b slices, so that this file depends only on the shared definitions.
-/
import EkwVerif.Lemmas.CtrlInv1Step
import EkwVerif.Lemmas.CtrlInvT
import EkwVerif.Lemmas.CtrlInv2X
import EkwVerif.Lemmas.CtrlInv4X

namespace EkwVerif.Ctrl

theorem i4x_eligible_false (s : Status) : s.eligible = false ↔ s = .missing := by
  cases s <;> simp [Status.eligible]

theorem i4x_eligible_true (s : Status) : s.eligible = true ↔ s ≠ .missing := by
  cases s <;> simp [Status.eligible]

/-- the inputs for which `build_assignment` has to order a transmit -/
def i4x_tx (c : Ctl) (w : Worker) (l : List Ds) (ds : Ds) : Prop :=
  ds ∈ l ∧ c.workerDs w ds = .missing ∧ c.hostDs w.host ds = .missing

/-- what `buildPrep` does to the statuses and which prep entries it returns -/
theorem i4x_buildPrep_spec (cl : Cluster) (w : Worker) (cands : List (Ds × Host)) (l : List Ds) (c c' : Ctl)
    (p : List (Ds × Host)) (hnd : l.Nodup) (hr : buildPrep cl w cands c l = .ok (c', p)) :
    (∀ ds, i4x_tx c w l ds → c'.hostDs w.host ds = .preparing ∧ c'.dsHost ds w.host = .preparing) ∧
    (∀ h ds, ¬ (h = w.host ∧ i4x_tx c w l ds) → c'.hostDs h ds = c.hostDs h ds ∧ c'.dsHost ds h = c.dsHost ds h) ∧
    (∀ ds src, (ds, src) ∈ p → ds ∈ l ∧ c.workerDs w ds = .missing ∧
        ((src = w.host ∧ c.hostDs w.host ds ≠ .missing) ∨
         (c.hostDs w.host ds = .missing ∧ c.dsHost ds src = .available))) ∧
    (∀ ds, ds ∈ l → c.workerDs w ds ≠ .missing ∨ c.hostDs w.host ds ≠ .missing ∨
        ∃ src, (ds, src) ∈ p ∧ c.dsHost ds src = .available) := by
  induction l generalizing c c' p with
  | nil =>
    simp only [buildPrep, Except.ok.injEq, Prod.mk.injEq] at hr
    obtain ⟨rfl, rfl⟩ := hr
    simp [i4x_tx]
  | cons a l ih =>
    have hnd' := (List.nodup_cons.mp hnd)
    unfold buildPrep at hr
    split at hr
    · rename_i hel
      rw [i4x_eligible_true] at hel
      obtain ⟨i1, i2, i3, i4⟩ := ih _ _ _ hnd'.2 hr
      have htx : ∀ ds, i4x_tx c w (a :: l) ds ↔ i4x_tx c w l ds := by
        intro ds; simp only [i4x_tx, List.mem_cons]; grind
      refine ⟨fun ds h => i1 ds ((htx ds).mp h), fun h ds hn => i2 h ds (by rw [← htx]; exact hn), ?_, ?_⟩
      · intro ds src hm
        have := i3 ds src hm
        exact ⟨List.mem_cons_of_mem _ this.1, this.2⟩
      · intro ds hm
        rcases List.mem_cons.mp hm with rfl | hm
        · exact Or.inl hel
        · exact i4 ds hm
    · rename_i hnel
      simp only [Bool.not_eq_true, i4x_eligible_false] at hnel
      split at hr
      · rename_i hel
        rw [i4x_eligible_true] at hel
        split at hr
        · cases hr
        · rename_i c2 p2 hc2
          cases hr
          obtain ⟨i1, i2, i3, i4⟩ := ih _ _ _ hnd'.2 hc2
          have htx : ∀ ds, i4x_tx c w (a :: l) ds ↔ i4x_tx c w l ds := by
            intro ds; simp only [i4x_tx, List.mem_cons]; grind
          refine ⟨fun ds h => i1 ds ((htx ds).mp h), fun h ds hn => i2 h ds (by rw [← htx]; exact hn), ?_, ?_⟩
          · intro ds src hm
            rcases List.mem_cons.mp hm with heq | hm
            · simp only [Prod.mk.injEq] at heq
              obtain ⟨rfl, rfl⟩ := heq
              exact ⟨List.mem_cons_self, hnel, Or.inl ⟨rfl, hel⟩⟩
            · have := i3 ds src hm
              exact ⟨List.mem_cons_of_mem _ this.1, this.2⟩
          · intro ds hm
            rcases List.mem_cons.mp hm with rfl | hm
            · exact Or.inr (Or.inl hel)
            · rcases i4 ds hm with h | h | ⟨src, h, h'⟩
              · exact Or.inl h
              · exact Or.inr (Or.inl h)
              · exact Or.inr (Or.inr ⟨src, List.mem_cons_of_mem _ h, h'⟩)
      · rename_i hnel2
        simp only [Bool.not_eq_true, i4x_eligible_false] at hnel2
        split at hr
        · rename_i x src hfind
          split at hr
          · rename_i hav
            have hav' : c.dsHost a src = .available := by simpa using hav
            dsimp only at hr
            split at hr
            · cases hr
            · rename_i c2 p2 hc2
              cases hr
              obtain ⟨i1, i2, i3, i4⟩ := ih _ _ _ hnd'.2 hc2
              simp only at i1 i2 i3 i4
              have hne : ∀ ds, ds ∈ l → ds ≠ a := by
                intro ds hm heq; subst heq; exact hnd'.1 hm
              have htx : ∀ ds, ds ∈ l →
                  (i4x_tx { c with hostDs := upd c.hostDs w.host (upd (c.hostDs w.host) a .preparing),
                                   dsHost := upd c.dsHost a (upd (c.dsHost a) w.host .preparing) } w l ds ↔
                    i4x_tx c w l ds) := by
                intro ds hm
                have := hne ds hm
                simp only [i4x_tx, upd_same, upd_other _ _ _ _ this]
              have hna : ¬
                  (i4x_tx { c with hostDs := upd c.hostDs w.host (upd (c.hostDs w.host) a .preparing),
                                   dsHost := upd c.dsHost a (upd (c.dsHost a) w.host .preparing) } w l a) := by
                intro h; exact hnd'.1 h.1
              refine ⟨?_, ?_, ?_, ?_⟩
              · intro ds htxd
                obtain ⟨hm, hw, hh⟩ := htxd
                rcases List.mem_cons.mp hm with rfl | hm
                · have := i2 w.host ds (fun h => hna h.2)
                  simp only [upd_same] at this
                  exact this
                · exact i1 ds ((htx ds hm).mpr ⟨hm, hw, hh⟩)
              · intro h ds hn
                have hda : ¬ (h = w.host ∧ ds = a) := by
                  rintro ⟨rfl, rfl⟩
                  exact hn ⟨rfl, List.mem_cons_self, hnel, hnel2⟩
                have hn2 : ¬ (h = w.host ∧
                  i4x_tx { c with hostDs := upd c.hostDs w.host (upd (c.hostDs w.host) a .preparing),
                                  dsHost := upd c.dsHost a (upd (c.dsHost a) w.host .preparing) } w l ds) := by
                  rintro ⟨rfl, htxd⟩
                  have hm := htxd.1
                  have := (htx ds hm).mp htxd
                  exact hn ⟨rfl, List.mem_cons_of_mem _ hm, this.2⟩
                have := i2 h ds hn2
                rw [this.1, this.2]
                constructor
                · by_cases hh : h = w.host
                  · subst hh
                    have hd : ds ≠ a := fun e => hda ⟨rfl, e⟩
                    simp [upd, hd]
                  · simp [upd, hh]
                · by_cases hd : ds = a
                  · subst hd
                    have hh : h ≠ w.host := fun e => hda ⟨e, rfl⟩
                    simp [upd, hh]
                  · simp [upd, hd]
              · intro ds src' hm
                rcases List.mem_cons.mp hm with heq | hm
                · simp only [Prod.mk.injEq] at heq
                  obtain ⟨rfl, rfl⟩ := heq
                  exact ⟨List.mem_cons_self, hnel, Or.inr ⟨hnel2, hav'⟩⟩
                · have := i3 ds src' hm
                  have hd := hne ds this.1
                  simp only [upd_same, upd_other _ _ _ _ hd] at this
                  exact ⟨List.mem_cons_of_mem _ this.1, this.2⟩
              · intro ds hm
                rcases List.mem_cons.mp hm with rfl | hm
                · exact Or.inr (Or.inr ⟨src, List.mem_cons_self, hav'⟩)
                · have hd := hne ds hm
                  have := i4 ds hm
                  simp only [upd_same, upd_other _ _ _ _ hd] at this
                  rcases this with h | h | ⟨src', h, h'⟩
                  · exact Or.inl h
                  · exact Or.inr (Or.inl h)
                  · exact Or.inr (Or.inr ⟨src', List.mem_cons_of_mem _ h, h'⟩)
          · cases hr
        · split at hr <;> cases hr


theorem i4x_assignOne_spec (j : Job) (cl : Cluster) (c c2 : Ctl) (a : Asg) (prep : List (Ds × Host))
    (hnd : (j.inputs a.task).Nodup) (hr : assignOne j cl c a = .ok (c2, prep)) :
    a.task ∈ c.computable ∧ a.worker ∈ c.idle ∧
    c2.workerDs = c.workerDs ∧ c2.doneC = c.doneC ∧ c2.outputs = c.outputs ∧ c2.announced = c.announced ∧
    c2.ongoing = c.ongoing ∧
    (∀ ds, i4x_tx c a.worker (j.inputs a.task) ds →
        c2.hostDs a.worker.host ds = .preparing ∧ c2.dsHost ds a.worker.host = .preparing) ∧
    (∀ h ds, ¬ (h = a.worker.host ∧ i4x_tx c a.worker (j.inputs a.task) ds) →
        c2.hostDs h ds = c.hostDs h ds ∧ c2.dsHost ds h = c.dsHost ds h) ∧
    (∀ ds src, (ds, src) ∈ prep → ds ∈ j.inputs a.task ∧ c.workerDs a.worker ds = .missing ∧
        ((src = a.worker.host ∧ c.hostDs a.worker.host ds ≠ .missing) ∨
         (c.hostDs a.worker.host ds = .missing ∧ c.dsHost ds src = .available))) ∧
    (∀ ds, ds ∈ j.inputs a.task → c.workerDs a.worker ds ≠ .missing ∨ c.hostDs a.worker.host ds ≠ .missing ∨
        ∃ src, (ds, src) ∈ prep ∧ c.dsHost ds src = .available) := by
  unfold assignOne at hr
  split at hr; · cases hr
  rename_i hidle
  split at hr; · cases hr
  rename_i hcomp
  split at hr; · cases hr
  split at hr; · cases hr
  rename_i cb prep' hb
  simp only [Except.ok.injEq, Prod.mk.injEq] at hr
  obtain ⟨rfl, rfl⟩ := hr
  obtain ⟨s1, s2, s3, s4⟩ := i4x_buildPrep_spec _ _ _ _ _ _ _ hnd hb
  have f1 : cb.workerDs = c.workerDs := buildPrep_workerDs _ _ _ _ _ _ _ hb
  have f2 : cb.doneC = c.doneC := buildPrep_doneC _ _ _ _ _ _ _ hb
  have f3 : cb.outputs = c.outputs := buildPrep_outputs _ _ _ _ _ _ _ hb
  have f4 : cb.announced = c.announced := buildPrep_announced _ _ _ _ _ _ _ hb
  have f5 : cb.ongoing = c.ongoing := buildPrep_ongoing _ _ _ _ _ _ _ hb
  exact ⟨by simpa using hcomp, by simpa using hidle, f1, f2, f3, f4, f5, s1, s2, s3, s4⟩

/-! ### the environment side -/


theorem i4x_upd2 {α β γ : Type} [DecidableEq α] [DecidableEq β] (f : α → β → γ) (a : α) (b : β) (v : γ) (x : α) (y : β) :
    upd f a (upd (f a) b v) x y = if x = a ∧ y = b then v else f x y := by
  by_cases hx : x = a
  · subst hx
    by_cases hy : y = b
    · subst hy; simp
    · simp [hy]
  · simp [hx]

theorem i4x_fold_hostDs (w : Worker) (l : List Ds) (c : Ctl) (h : Host) (ds : Ds) :
    (l.foldl (fun c ds => setPreparingAt c ds w) c).hostDs h ds =
      if h = w.host ∧ ds ∈ l then .preparing else c.hostDs h ds := by
  induction l generalizing c with
  | nil => simp
  | cons x l ih =>
    simp only [List.foldl_cons]
    rw [ih]
    simp only [setPreparingAt, List.mem_cons, i4x_upd2]
    grind

theorem i4x_fold_dsHost (w : Worker) (l : List Ds) (c : Ctl) (h : Host) (ds : Ds) :
    (l.foldl (fun c ds => setPreparingAt c ds w) c).dsHost ds h =
      if h = w.host ∧ ds ∈ l ∧ c.dsHost ds h ≠ .available then .preparing else c.dsHost ds h := by
  induction l generalizing c with
  | nil => simp
  | cons x l ih =>
    simp only [List.foldl_cons]
    rw [ih]
    simp only [setPreparingAt, List.mem_cons, beq_iff_eq]
    by_cases hav : c.dsHost x w.host = .available
    · simp only [hav, if_true]; grind
    · simp only [hav, if_false, i4x_upd2]; grind

theorem i4x_fold_workerDs (w : Worker) (l : List Ds) (c : Ctl) (w' : Worker) (ds : Ds) :
    (l.foldl (fun c ds => setPreparingAt c ds w) c).workerDs w' ds =
      if w' = w ∧ ds ∈ l then .preparing else c.workerDs w' ds := by
  induction l generalizing c with
  | nil => simp
  | cons x l ih =>
    simp only [List.foldl_cons]
    rw [ih]
    simp only [setPreparingAt, List.mem_cons, i4x_upd2]
    grind

theorem i4x_fold_frame (w : Worker) (l : List Ds) (c : Ctl) :
    (l.foldl (fun c ds => setPreparingAt c ds w) c).doneC = c.doneC ∧
    (l.foldl (fun c ds => setPreparingAt c ds w) c).outputs = c.outputs ∧
    (l.foldl (fun c ds => setPreparingAt c ds w) c).announced = c.announced ∧
    (l.foldl (fun c ds => setPreparingAt c ds w) c).ongoing = c.ongoing := by
  induction l generalizing c with
  | nil => simp
  | cons x l ih =>
    simp only [List.foldl_cons]
    have := ih (setPreparingAt c x w)
    simpa using this

/-- the statuses after a successful `planOne` -/
theorem i4x_planOne_ok (j : Job) (c c' : Ctl) (a : Asg) (prep : List (Ds × Host))
    (h : planOne j c a prep = .ok c') :
    (∀ h ds, c'.hostDs h ds =
      if h = a.worker.host ∧ ds ∈ prep.map (·.1) ++ j.outputsOf a.task then .preparing else c.hostDs h ds) ∧
    (∀ ds h, c'.dsHost ds h =
      if h = a.worker.host ∧ ds ∈ prep.map (·.1) ++ j.outputsOf a.task ∧ c.dsHost ds h ≠ .available then .preparing
      else c.dsHost ds h) ∧
    (∀ w ds, c'.workerDs w ds =
      if w = a.worker ∧ ds ∈ prep.map (·.1) ++ j.outputsOf a.task then .preparing else c.workerDs w ds) ∧
    c'.doneC = c.doneC ∧ c'.outputs = c.outputs ∧ c'.announced = c.announced ∧
    c'.ongoing = c.ongoing ++ [(a.worker, a.task)] := by
  have hfold : (j.outputsOf a.task).foldl (fun c ds => setPreparingAt c ds a.worker)
        (prep.foldl (fun c p => setPreparingAt c p.1 a.worker) c) =
      (prep.map (·.1) ++ j.outputsOf a.task).foldl (fun c ds => setPreparingAt c ds a.worker) c := by
    rw [List.foldl_append, List.foldl_map]
  unfold planOne at h
  split at h
  · cases h
  · dsimp only at h
    split at h
    · cases h
    · simp only [Except.ok.injEq] at h
      subst h
      rw [hfold]
      obtain ⟨f1, f2, f3, f4⟩ := i4x_fold_frame a.worker (prep.map (·.1) ++ j.outputsOf a.task) c
      refine ⟨fun h ds => i4x_fold_hostDs _ _ _ _ _, fun ds h => i4x_fold_dsHost _ _ _ _ _,
        fun w ds => i4x_fold_workerDs _ _ _ _ _, f1, f2, f3, by simp only [f4]⟩

theorem i4x_outputsOf_mem (j : Job) (t : Task) (ds : Ds) :
    ds ∈ j.outputsOf t ↔ ds.task = t ∧ ds.out < j.nOut t := by
  simp only [Job.outputsOf, List.mem_map, List.mem_range]
  constructor
  · rintro ⟨k, hk, rfl⟩; exact ⟨rfl, hk⟩
  · rintro ⟨rfl, hk⟩; exact ⟨ds.out, hk, rfl⟩

/-! ### `.plan1` -/

theorem i4x_needed_congr (j : Job) (c c' : Ctl) (ds : Ds) (hd : c'.doneC = c.doneC) (ho : c'.outputs = c.outputs) :
    needed j c' ds ↔ needed j c ds := by
  simp only [needed, hd, ho]

theorem i4x_inbound_iff (e : Env) (ds : Ds) (h : Host) :
    inboundTransmit e ds h = true ↔ ∃ src, IO.transmit ds src h ∈ e.outstanding := by
  simp only [inboundTransmit, List.any_eq_true]
  constructor
  · rintro ⟨o, ho, hc⟩
    cases o with
    | transmit d s t =>
      simp only [Bool.and_eq_true, beq_iff_eq] at hc
      obtain ⟨rfl, rfl⟩ := hc
      exact ⟨s, ho⟩
    | fetch d s => simp at hc
  · rintro ⟨src, hm⟩
    exact ⟨_, hm, by simp⟩


end EkwVerif.Ctrl
