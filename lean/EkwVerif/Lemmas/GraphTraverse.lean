/-
Helper lemmas for Props/C11.lean: the `while todo:` loop of `Transformer.transform` terminates on every
finite acyclic graph within `|sinks| + 2·|nodes|` iterations and finishes exactly the nodes reachable
from the sinks, each once, parents first.
-/
import EkwVerif.Lemmas.GraphSplit

namespace EkwVerif.Graph.Aux
open EkwVerif.Graph

/-- `k` iterations of the loop body -/
def travIter (ns : List Node) : Nat → List Nat × List Nat → List Nat × List Nat
  | 0, st => st
  | k + 1, st => travIter ns k (travStep ns st)

theorem travIter_add (ns : List Node) (j k : Nat) (st : List Nat × List Nat) :
    travIter ns (j + k) st = travIter ns k (travIter ns j st) := by
  induction j generalizing st with
  | zero => simp [travIter]
  | succ j ih =>
    rw [Nat.add_right_comm]
    simp only [travIter]
    exact ih _

theorem travStep_empty (ns : List Node) (D : List Nat) : travStep ns ([], D) = ([], D) := rfl

theorem travIter_empty (ns : List Node) (k : Nat) (D : List Nat) : travIter ns k ([], D) = ([], D) := by
  induction k with
  | zero => rfl
  | succ k ih => simp only [travIter, travStep_empty, ih]

/-- the bounded loop returns what the unbounded iteration reaches, given enough fuel -/
theorem travLoop_of_iter (ns : List Node) (k : Nat) : ∀ (fuel : Nat) (st : List Nat × List Nat) (ord : List Nat),
    travIter ns k st = ([], ord) → k ≤ fuel → travLoop ns fuel st = some ord := by
  induction k with
  | zero =>
    intro fuel st ord h _
    simp only [travIter] at h
    subst h
    cases fuel <;> simp [travLoop]
  | succ k ih =>
    intro fuel st ord h hk
    cases fuel with
    | zero => omega
    | succ f =>
      obtain ⟨stk, D⟩ := st
      cases stk with
      | nil =>
        rw [travIter_empty] at h
        cases h
        simp [travLoop]
      | cons top rest =>
        simp only [travLoop, List.isEmpty_cons, Bool.false_eq_true, if_false]
        exact ih f _ ord h (by omega)

/-! ### lists in which parents come first -/

/-- `B` continues `A`: every element is new and all its parents come earlier. -/
def TopoFrom (ns : List Node) (A : List Nat) : List Nat → Prop
  | [] => True
  | i :: B => (i ∉ A ∧ ∃ n, ns[i]? = some n ∧ ∀ x ∈ n.inputs, x.2.1 ∈ A) ∧ TopoFrom ns (A ++ [i]) B

theorem topoFrom_append (ns : List Node) (A B C : List Nat) :
    TopoFrom ns A (B ++ C) ↔ TopoFrom ns A B ∧ TopoFrom ns (A ++ B) C := by
  induction B generalizing A with
  | nil => simp [TopoFrom]
  | cons i B ih => simp [TopoFrom, ih, and_assoc]

theorem topoFrom_snoc (ns : List Node) (A B : List Nat) (i : Nat) :
    TopoFrom ns A (B ++ [i]) ↔
      TopoFrom ns A B ∧ i ∉ A ++ B ∧ ∃ n, ns[i]? = some n ∧ ∀ x ∈ n.inputs, x.2.1 ∈ A ++ B := by
  rw [topoFrom_append]
  simp [TopoFrom]

theorem topoFrom_nodup (ns : List Node) (A B : List Nat) (h : TopoFrom ns A B) (hA : A.Nodup) : (A ++ B).Nodup := by
  induction B generalizing A with
  | nil => simpa using hA
  | cons i B ih =>
    obtain ⟨⟨h1, _⟩, h2⟩ := h
    have : (A ++ [i]).Nodup := List.nodup_append.2 ⟨hA, by simp, fun a ha b hb e => by simp at hb; subst hb; exact h1 (e ▸ ha)⟩
    have := ih (A ++ [i]) h2 this
    simpa using this

theorem topoFrom_closed (ns : List Node) (A B : List Nat) (h : TopoFrom ns A B) :
    ∀ i ∈ B, ∃ n, ns[i]? = some n ∧ ∀ x ∈ n.inputs, x.2.1 ∈ A ++ B := by
  induction B generalizing A with
  | nil => intro i hi; cases hi
  | cons j B ih =>
    obtain ⟨⟨_, n, hn, hp⟩, h2⟩ := h
    intro i hi
    rcases List.mem_cons.1 hi with rfl | hi
    · exact ⟨n, hn, fun x hx => List.mem_append_left _ (hp x hx)⟩
    · obtain ⟨n', hn', hp'⟩ := ih (A ++ [j]) h2 i hi
      exact ⟨n', hn', fun x hx => by have := hp' x hx; simpa using this⟩

/-- parents come strictly earlier -/
theorem topoFrom_before (ns : List Node) (A B : List Nat) (h : TopoFrom ns A B) :
    ∀ i ∈ B, ∀ n, ns[i]? = some n → ∀ x ∈ n.inputs, x.2.1 ∈ A ∨ (x.2.1 ∈ B ∧ B.idxOf x.2.1 < B.idxOf i) := by
  induction B generalizing A with
  | nil => intro i hi; cases hi
  | cons j B ih =>
    obtain ⟨⟨hj, nj, hnj, hp⟩, h2⟩ := h
    intro i hi n hn x hx
    by_cases hij : i = j
    · subst hij
      rw [hnj] at hn; cases hn
      exact Or.inl (hp x hx)
    · have hiB : i ∈ B := by
        rcases List.mem_cons.1 hi with h | h
        · exact absurd h hij
        · exact h
      have hidx : (j :: B).idxOf i = B.idxOf i + 1 := by
        rw [List.idxOf_cons]
        have : (j == i) = false := by simpa using fun e => hij e.symm
        simp [this]
      rcases ih (A ++ [j]) h2 i hiB n hn x hx with h | ⟨h1, h3⟩
      · rcases List.mem_append.1 h with h | h
        · exact Or.inl h
        · simp only [List.mem_singleton] at h
          refine Or.inr ⟨by simp [h], ?_⟩
          rw [hidx, h, List.idxOf_cons_self]; omega
      · refine Or.inr ⟨List.mem_cons_of_mem _ h1, ?_⟩
        rw [hidx, List.idxOf_cons]
        cases (j == x.2.1) <;> simp <;> omega

/-! ### `firstUndone` -/

theorem firstUndone_none (D : List Nat) (ins : List (Name × Ref)) (h : ∀ y ∈ ins, y.2.1 ∈ D) : firstUndone D ins = none := by
  induction ins with
  | nil => rfl
  | cons y ins ih =>
    have : D.contains y.2.1 = true := by simpa using h y (by simp)
    simp only [firstUndone, this, if_true]
    exact ih (fun y' hy' => h y' (by simp [hy']))

theorem firstUndone_some (D : List Nat) (pfx sfx : List (Name × Ref)) (y : Name × Ref) (h : ∀ z ∈ pfx, z.2.1 ∈ D)
    (hy : y.2.1 ∉ D) : firstUndone D (pfx ++ y :: sfx) = some y.2.1 := by
  induction pfx with
  | nil =>
    simp [firstUndone, hy]
  | cons z pfx ih =>
    have : D.contains z.2.1 = true := by simpa using h z (by simp)
    simp only [List.cons_append, firstUndone, this, if_true]
    exact ih (fun z' hz' => h z' (by simp [hz']))

/-! ### reachability -/

theorem reach_roots_mono (ns : List Node) (r1 r2 : List Nat) (h : ∀ t ∈ r1, Reach ns r2 t) (t : Nat) (ht : Reach ns r1 t) :
    Reach ns r2 t := by
  induction ht with
  | root hr => exact h _ hr
  | input _ hn hx ih => exact Reach.input ih hn hx

/-! ### the loop -/

/-- What running the loop with `x` on top of the stack achieves: `x`'s entry is removed, `x` and its not
yet finished ancestors are finished (parents first), within the stated number of iterations. -/
def VisitSpec (ns : List Node) (x : Nat) : Prop :=
  ∀ (D rest : List Nat), TopoFrom ns [] D →
    ∃ (k : Nat) (E : List Nat), travIter ns k (x :: rest, D) = (rest, D ++ E) ∧ TopoFrom ns [] (D ++ E) ∧
      (∀ i ∈ E, i ≤ x ∧ Reach ns [x] i) ∧ x ∈ D ++ E ∧ k ≤ 2 * E.length + 1 ∧ (x ∉ D → k + 1 ≤ 2 * E.length)

theorem visit_spec (ns : List Node) (hwf : WFNodes ns) : ∀ x, x < ns.length → VisitSpec ns x := by
  intro x
  induction x using Nat.strongRecOn with
  | _ x ih =>
    intro hx D rest hD
    by_cases hxD : x ∈ D
    · -- `if node in done: todo.pop()`
      refine ⟨1, [], ?_, by simpa using hD, by simp, by simpa using hxD, by simp, fun h => absurd hxD h⟩
      simp [travIter, travStep, hxD]
    · have hn : ns[x]? = some ns[x] := List.getElem?_eq_getElem hx
      have hrefs : ∀ y ∈ ns[x].inputs, y.2.1 < x := by
        intro y hy
        have := nodeOK_lt (wf_get ns hwf x _ hn) y hy
        rw [List.length_take] at this; omega
      -- the loop over the inputs: `pfx` already finished
      have inner : ∀ (sfx pfx : List (Name × Ref)), ns[x].inputs = pfx ++ sfx → ∀ (D1 : List Nat), TopoFrom ns [] D1 →
          x ∉ D1 → (∀ z ∈ pfx, z.2.1 ∈ D1) →
          ∃ (k : Nat) (E : List Nat), travIter ns k (x :: rest, D1) = (rest, D1 ++ E) ∧ TopoFrom ns [] (D1 ++ E) ∧
            (∀ i ∈ E, i ≤ x ∧ Reach ns [x] i) ∧ x ∈ E ∧ k + 1 ≤ 2 * E.length := by
        intro sfx
        induction sfx with
        | nil =>
          intro pfx hsplit D1 hD1 hx1 hpfx
          have hall : ∀ y ∈ ns[x].inputs, y.2.1 ∈ D1 := by
            intro y hy; rw [hsplit] at hy; exact hpfx y (by simpa using hy)
          refine ⟨1, [x], ?_, ?_, ?_, by simp, by simp⟩
          · simp [travIter, travStep, hx1, hn, firstUndone_none D1 _ hall]
          · exact (topoFrom_snoc ns [] D1 x).2 ⟨hD1, by simpa using hx1, ns[x], hn, by simpa using hall⟩
          · intro i hi
            simp only [List.mem_singleton] at hi
            subst hi
            exact ⟨Nat.le_refl _, Reach.root (by simp)⟩
        | cons y sfx ihs =>
          intro pfx hsplit D1 hD1 hx1 hpfx
          have hsplit' : ns[x].inputs = (pfx ++ [y]) ++ sfx := by simp [hsplit]
          have hymem : y ∈ ns[x].inputs := by rw [hsplit]; simp
          by_cases hy : y.2.1 ∈ D1
          · exact ihs (pfx ++ [y]) hsplit' D1 hD1 hx1
              (fun z hz => by rcases List.mem_append.1 hz with h | h
                              · exact hpfx z h
                              · simp only [List.mem_singleton] at h; rw [h]; exact hy)
          · -- `todo.append(inode); break`, then the parent is processed first
            have hpx : y.2.1 < x := hrefs y hymem
            have hstep : travStep ns (x :: rest, D1) = (y.2.1 :: x :: rest, D1) := by
              simp [travStep, hx1, hn, hsplit, firstUndone_some D1 pfx sfx y hpfx hy]
            obtain ⟨kp, Ep, hkp, hDp, hEp, hpin, _, hkb⟩ := ih y.2.1 hpx (by omega) D1 (x :: rest) hD1
            have hx2 : x ∉ D1 ++ Ep := by
              intro hm
              rcases List.mem_append.1 hm with h | h
              · exact hx1 h
              · have := (hEp x h).1; omega
            obtain ⟨k', E', hk', hD', hE', hxE', hkb'⟩ := ihs (pfx ++ [y]) hsplit' (D1 ++ Ep) hDp hx2
              (fun z hz => by rcases List.mem_append.1 hz with h | h
                              · exact List.mem_append_left _ (hpfx z h)
                              · simp only [List.mem_singleton] at h; rw [h]; exact hpin)
            refine ⟨1 + kp + k', Ep ++ E', ?_, by rw [← List.append_assoc]; exact hD', ?_, by simp [hxE'], ?_⟩
            · rw [travIter_add, travIter_add]
              simp only [travIter, hstep, hkp, hk', List.append_assoc]
            · intro i hi
              rcases List.mem_append.1 hi with h | h
              · obtain ⟨h1, h2⟩ := hEp i h
                refine ⟨by omega, reach_roots_mono ns [y.2.1] [x] ?_ i h2⟩
                intro t ht
                simp only [List.mem_singleton] at ht
                subst ht
                exact Reach.input (Reach.root (by simp)) hn hymem
              · exact hE' i h
            · have := hkb hy
              simp only [List.length_append]
              omega
      obtain ⟨k, E, h1, h2, h3, h4, h5⟩ := inner ns[x].inputs [] (by simp) D hD hxD (by simp)
      exact ⟨k, E, h1, h2, h3, List.mem_append_right _ h4, by omega, fun _ => h5⟩

/-- the whole stack -/
theorem visit_stack (ns : List Node) (hwf : WFNodes ns) (stk : List Nat) (hstk : ∀ s ∈ stk, s < ns.length) :
    ∀ (D : List Nat), TopoFrom ns [] D →
      ∃ (k : Nat) (E : List Nat), travIter ns k (stk, D) = ([], D ++ E) ∧ TopoFrom ns [] (D ++ E) ∧
        (∀ s ∈ stk, s ∈ D ++ E) ∧ (∀ i ∈ E, Reach ns stk i) ∧ k ≤ stk.length + 2 * E.length := by
  induction stk with
  | nil => intro D hD; exact ⟨0, [], by simp [travIter], by simpa using hD, by simp, by simp, by simp⟩
  | cons x stk ih =>
    intro D hD
    obtain ⟨k1, E1, h1, h2, h3, h4, h5, _⟩ := visit_spec ns hwf x (hstk x (by simp)) D stk hD
    obtain ⟨k2, E2, g1, g2, g3, g4, g5⟩ := ih (fun s hs => hstk s (by simp [hs])) (D ++ E1) h2
    refine ⟨k1 + k2, E1 ++ E2, ?_, by rw [← List.append_assoc]; exact g2, ?_, ?_, ?_⟩
    · rw [travIter_add, h1, g1, List.append_assoc]
    · intro s hs
      rw [← List.append_assoc]
      rcases List.mem_cons.1 hs with rfl | hs
      · exact List.mem_append_left _ h4
      · exact g3 s hs
    · intro i hi
      rcases List.mem_append.1 hi with h | h
      · exact reach_roots_mono ns [x] (x :: stk) (fun t ht => by simp only [List.mem_singleton] at ht; subst ht; exact Reach.root (by simp)) i (h3 i h).2
      · exact reach_roots_mono ns stk (x :: stk) (fun t ht => Reach.root (List.mem_cons_of_mem _ ht)) i (g4 i h)
    · simp only [List.length_cons, List.length_append]; omega

/-- a list of distinct node indices is not longer than the node list -/
theorem nodup_bounded (l : List Nat) (n : Nat) (h : l.Nodup) (hb : ∀ x ∈ l, x < n) : l.length ≤ n := by
  have := List.Nodup.length_le_of_subset h (l₂ := List.range n) (fun x hx => List.mem_range.2 (hb x hx))
  simpa using this

/-- `Transformer.transform` finishes: the result of the traversal. -/
theorem visit_result (g : Graph) (h : g.WF) :
    ∃ ord, visitOrder g = some ord ∧ TopoFrom g.nodes [] ord ∧ (∀ s ∈ g.sinks, s ∈ ord) ∧
      (∀ i ∈ ord, Reach g.nodes g.sinks i) := by
  obtain ⟨k, E, h1, h2, h3, h4, h5⟩ := visit_stack g.nodes h.nodes g.sinks.reverse
    (fun s hs => h.sinks s (List.mem_reverse.1 hs)) [] trivial
  simp only [List.nil_append] at h1 h2 h3
  refine ⟨E, ?_, h2, fun s hs => h3 s (List.mem_reverse.2 hs), ?_⟩
  · unfold visitOrder travInit travBound
    apply travLoop_of_iter g.nodes k _ _ E h1
    have hnd : E.Nodup := by simpa using topoFrom_nodup g.nodes [] E h2 (by simp)
    have hb : ∀ x ∈ E, x < g.nodes.length := by
      intro x hx
      obtain ⟨n, hn, _⟩ := topoFrom_closed g.nodes [] E h2 x hx
      exact (List.getElem?_eq_some_iff.1 hn).1
    have := nodup_bounded E g.nodes.length hnd hb
    simp only [List.length_reverse] at h5
    omega
  · intro i hi
    exact reach_roots_mono g.nodes g.sinks.reverse g.sinks (fun t ht => Reach.root (List.mem_reverse.1 ht)) i (h4 i hi)

end EkwVerif.Graph.Aux
