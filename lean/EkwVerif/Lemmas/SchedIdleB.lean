/-
"No idle wait" (C03), part B: the fetch pipeline of requested outputs and the phase facts, for ANY order of
event delivery, and the assembly `sI_inv_reachable`.

* `sI_W3a` — a fetch that was issued and whose value has not reached the controller is outstanding in the
  environment, or its payload is on its way;
* `sI_W3b` — a requested output that was announced and not yet delivered is queued for fetching or its fetch was issued;
* `sI_P`   — in phase `waiting` the controller has something awaitable; the fetching queue is empty after it was flushed.
-/
import EkwVerif.Lemmas.SchedIdleA
import EkwVerif.Lemmas.CtrlLast

set_option linter.unusedVariables false
set_option linter.unusedSimpArgs false

namespace EkwVerif.Ctrl

/-- `notify` sets `outputs[ds]` only on the payload of `ds` -/
theorem sI_notify_outputs (j : Job) (c c' : Ctl) (ev : Event) (hr : notifyEvent j c ev = .ok c') :
    ∀ ds, c'.outputs ds = none → c.outputs ds = none ∧ ∀ v, ev ≠ .payload ds v := by
  cases ev with
  | payload d v =>
    simp only [notifyEvent, Except.ok.injEq] at hr
    subst hr
    intro ds hn
    by_cases hd : ds = d
    · subst hd; simp at hn
    · simp only [upd_other _ _ _ _ hd] at hn
      refine ⟨hn, ?_⟩
      intro v' he
      cases he
      exact hd rfl
  | pubT h d =>
    have := (i3_notifyEvent_pub j c c' _ h d (Or.inl rfl) hr).1
    intro ds hn
    rw [this] at hn
    exact ⟨hn, fun v he => by cases he⟩
  | pubW w d =>
    have := (i3_notifyEvent_pub j c c' _ w.host d (Or.inr ⟨w, rfl, rfl⟩) hr).1
    intro ds hn
    rw [this] at hn
    exact ⟨hn, fun v he => by cases he⟩

/-! ### W3a: an issued fetch is outstanding or its payload is on its way -/

def sI_W3a (s : Sys) : Prop :=
  ∀ ds, ds ∈ s.ctl.fetchIssued → s.ctl.outputs ds = none →
    (∃ h, IO.fetch ds h ∈ s.env.outstanding) ∨ (∃ v, Event.payload ds v ∈ s.allEv)

theorem sI_W3a_mono {s s' : Sys} (h : sI_W3a s) (hfi : s'.ctl.fetchIssued = s.ctl.fetchIssued)
    (hout : s'.ctl.outputs = s.ctl.outputs) (ho : ∀ o, o ∈ s.env.outstanding → o ∈ s'.env.outstanding)
    (hev : ∀ ev, ev ∈ s.allEv → ev ∈ s'.allEv) : sI_W3a s' := by
  intro ds hds hn
  rw [hfi] at hds
  rw [hout] at hn
  rcases h ds hds hn with ⟨h', hm⟩ | ⟨v, hm⟩
  · exact Or.inl ⟨h', ho _ hm⟩
  · exact Or.inr ⟨v, hev _ hm⟩

theorem sI_W3a_init (j : Job) (cl : Cluster) : sI_W3a (Sys.init j cl) := by
  intro ds hds
  simp [Sys.init, initCtl] at hds

theorem sI_W3a_step (f : Sem) (j : Job) (cl : Cluster) (s s' : Sys) (st : Step) (wf : WF j cl)
    (hA : InvAll f j cl s) (h : sI_W3a s) (hs : step f j cl s st = some s') (hnc : s'.phase ≠ .crashed) :
    sI_W3a s' := by
  by_cases hc : sI_ctrlOnly st = true
  · obtain ⟨e1, e2, e3, e4⟩ := sI_ctrl_step f j cl s s' st hA.h1 hc hs
    refine sI_W3a_mono h (by rw [e1]) (by rw [e1]) (by rw [e2]; exact fun o ho => ho) ?_
    intro ev; simp only [Sys.allEv, e2, e3]; exact id
  cases st with
  | enter => simp [sI_ctrlOnly] at hc
  | endAssign => simp [sI_ctrlOnly] at hc
  | endPlan => simp [sI_ctrlOnly] at hc
  | endFlushF => simp [sI_ctrlOnly] at hc
  | endFlush => simp [sI_ctrlOnly] at hc
  | endNotify => simp [sI_ctrlOnly] at hc
  | assign a =>
    simp only [step] at hs
    split at hs; · cases hs
    split at hs
    · cases hs
    · cases hs; exact (hnc rfl).elim
    · rename_i c prep hr
      cases hs
      have hfi := (sB_assignOne j cl s.ctl c a prep hr).2.1
      have hout := (i2a_assignOne_frames j cl s.ctl c a prep hr).2.2.2.2.2.1
      have hpend := (i2b_applyCmds_frame j cl (actCmds j a prep) s.env).2.2.1
      refine sI_W3a_mono h hfi hout (sI_applyCmds_mono j cl _ s.env).2 ?_
      intro ev hev
      simpa [Sys.allEv, hpend] using hev
  | plan1 =>
    simp only [step] at hs
    split at hs; · cases hs
    split at hs; · cases hs
    rename_i a prep rest htodo
    split at hs
    · cases hs
    · cases hs; exact (hnc rfl).elim
    · rename_i c hr
      cases hs
      exact sI_W3a_mono h (sB_planOne j s.ctl c a prep hr) (i2a_planOne_frames j s.ctl c a prep hr).2.2.2.2.2
        (fun o ho => ho) (fun ev hev => hev)
  | flushF1 =>
    simp only [step] at hs
    split at hs; · cases hs
    split at hs; · cases hs
    rename_i ds0 h0 rest hq
    cases hs
    intro ds hds hn
    simp only [considerPurge_fetchIssued, considerPurge_outputs, List.mem_append, List.mem_singleton] at hds hn
    rcases hds with hds | rfl
    · rcases h ds hds hn with ⟨h', hm⟩ | ⟨v, hm⟩
      · exact Or.inl ⟨h', by simp [applyCmd, hm]⟩
      · exact Or.inr ⟨v, by simpa [Sys.allEv, applyCmd] using hm⟩
    · exact Or.inl ⟨h0, by simp [applyCmd]⟩
  | flushP1 =>
    simp only [step] at hs
    split at hs; · cases hs
    split at hs; · cases hs
    rename_i ds0 rest hpq
    split at hs
    · cases hs
    · cases hs; exact (hnc rfl).elim
    · rename_i c cmds hr
      cases hs
      have hcm := purgeHosts_cmds cl ds0 cl.hosts s.ctl c cmds hr
      obtain ⟨ho, _, hpend, _⟩ := i3_applyCmds_purge j cl ds0 cmds s.env hcm
      have e1 := purgeHosts_fetchIssued _ _ _ _ _ _ hr
      have e2 := purgeHosts_outputs _ _ _ _ _ _ hr
      refine sI_W3a_mono h e1 e2 ?_ ?_
      · intro o hm; simpa [ho] using hm
      · intro ev hev; simpa [Sys.allEv, hpend] using hev
  | recv evs =>
    simp only [step] at hs
    split at hs; · cases hs
    rename_i hc0
    simp only [bne_iff_ne, ne_eq, Bool.or_eq_true, not_or, Decidable.not_not] at hc0
    split at hs; · cases hs
    rename_i pend hte
    cases hs
    have hib : s.inbox = [] := hA.h2.inbox_phase (by simp [hc0.1]) (by simp [hc0.1])
    obtain ⟨_, _, _, _, hpend, _, hou, _⟩ := i2b_markDelivered_frame evs { s.env with pending := pend }
    refine sI_W3a_mono h rfl rfl (fun o hm => by simpa [hou] using hm) ?_
    intro ev hev
    simp only [Sys.allEv, hib, List.nil_append] at hev
    simp only [Sys.allEv, hpend]
    exact (i3_takeEvents_perm evs _ _ hte).mem_iff.mpr hev
  | notify1 =>
    simp only [step] at hs
    split at hs; · cases hs
    split at hs; · cases hs
    rename_i ev rest hin
    split at hs
    · cases hs
    · cases hs; exact (hnc rfl).elim
    · rename_i c hr
      cases hs
      have hfi := sB_notifyEvent j s.ctl c ev hr
      have hout := sI_notify_outputs j s.ctl c ev hr
      intro ds hds hn
      simp only [hfi] at hds
      obtain ⟨hn0, hne⟩ := hout ds hn
      rcases h ds hds hn0 with ⟨h', hm⟩ | ⟨v, hm⟩
      · exact Or.inl ⟨h', hm⟩
      · right
        refine ⟨v, ?_⟩
        simp only [Sys.allEv, hin, List.cons_append, List.mem_cons] at hm
        rcases hm with hm | hm
        · exact (hne v hm.symm).elim
        · exact hm
  | env es =>
    simp only [step] at hs
    split at hs; · cases hs
    rw [envStepP_eq f j s.env es hA.h1.no_trim] at hs
    cases he : envStep f j s.env es with
    | none => simp [he] at hs
    | some e =>
      simp only [he, Option.map_some, Option.some.injEq] at hs
      subst hs
      cases es with
      | run w0 t0 =>
        obtain ⟨_, _, _, _, hpend, _⟩ := i2a_envStep_run f j s.env e w0 t0 he
        obtain ⟨hou, _⟩ := sI_envStep_run f j s.env e w0 t0 he
        refine sI_W3a_mono h rfl rfl (fun o hm => by simpa [hou] using hm) ?_
        intro ev hev
        simp only [Sys.allEv, hpend] at hev ⊢
        rcases List.mem_append.mp hev with h1 | h1
        · exact List.mem_append_left _ h1
        · exact List.mem_append_right _ (List.mem_append_left _ h1)
      | io i =>
        obtain ⟨o, hoi, hou, _, _, hpm, _, _, hfe⟩ := sI_envStep_io f j s.env e i he
        intro ds hds hn
        rcases h ds hds hn with ⟨h', hm⟩ | ⟨v, hm⟩
        · by_cases hoo : IO.fetch ds h' = o
          · right
            have hp := (hA.h3.fetch_out ds h' hm).2.2.2.2
            cases hv : s.env.present h' ds with
            | none => rw [hv] at hp; cases hp
            | some v =>
              refine ⟨v, ?_⟩
              simp only [Sys.allEv]
              exact List.mem_append_right _ (hfe ds h' v hoo.symm hv)
          · left
            refine ⟨h', ?_⟩
            simp only [hou]
            exact i3_mem_eraseIdx_of_ne _ i o _ hoi hm hoo
        · right
          refine ⟨v, ?_⟩
          simp only [Sys.allEv] at hm ⊢
          rcases List.mem_append.mp hm with h1 | h1
          · exact List.mem_append_left _ h1
          · exact List.mem_append_right _ (hpm _ h1)

/-! ### W3b: an announced, requested, undelivered output is queued for fetching or its fetch was issued -/

def sI_W3b (j : Job) (s : Sys) : Prop :=
  ∀ ds, ds ∈ j.ext → s.ctl.outputs ds = none → s.ctl.announced ds = true →
    (∃ h, (ds, h) ∈ s.ctl.fetchQ) ∨ ds ∈ s.ctl.fetchIssued

theorem sI_W3b_congr {j : Job} {s s' : Sys} (h : sI_W3b j s) (hout : s'.ctl.outputs = s.ctl.outputs)
    (hann : s'.ctl.announced = s.ctl.announced) (hfq : s'.ctl.fetchQ = s.ctl.fetchQ)
    (hfi : s'.ctl.fetchIssued = s.ctl.fetchIssued) : sI_W3b j s' := by
  intro ds hx hn ha
  rw [hout] at hn
  rw [hann] at ha
  rw [hfq, hfi]
  exact h ds hx hn ha

theorem sI_W3b_init (j : Job) (cl : Cluster) : sI_W3b j (Sys.init j cl) := by
  intro ds _ _ ha
  simp [Sys.init, initCtl] at ha

theorem sI_W3b_step (f : Sem) (j : Job) (cl : Cluster) (s s' : Sys) (st : Step) (wf : WF j cl)
    (hA : InvAll f j cl s) (h : sI_W3b j s) (hs : step f j cl s st = some s') (hnc : s'.phase ≠ .crashed) :
    sI_W3b j s' := by
  by_cases hc : sI_ctrlOnly st = true
  · obtain ⟨e1, e2, e3, e4⟩ := sI_ctrl_step f j cl s s' st hA.h1 hc hs
    exact sI_W3b_congr h (by rw [e1]) (by rw [e1]) (by rw [e1]) (by rw [e1])
  cases st with
  | enter => simp [sI_ctrlOnly] at hc
  | endAssign => simp [sI_ctrlOnly] at hc
  | endPlan => simp [sI_ctrlOnly] at hc
  | endFlushF => simp [sI_ctrlOnly] at hc
  | endFlush => simp [sI_ctrlOnly] at hc
  | endNotify => simp [sI_ctrlOnly] at hc
  | assign a =>
    simp only [step] at hs
    split at hs; · cases hs
    split at hs
    · cases hs
    · cases hs; exact (hnc rfl).elim
    · rename_i c prep hr
      cases hs
      obtain ⟨hfq, hfi, hout, _⟩ := i3_assignOne j cl s.ctl c a prep hr (i3_avail_not_missing hA.h4)
      have hann := (i2a_assignOne_frames j cl s.ctl c a prep hr).2.1
      exact sI_W3b_congr h hout hann hfq hfi
  | plan1 =>
    simp only [step] at hs
    split at hs; · cases hs
    split at hs; · cases hs
    rename_i a prep rest htodo
    split at hs
    · cases hs
    · cases hs; exact (hnc rfl).elim
    · rename_i c hr
      cases hs
      obtain ⟨hfq, hfi, hout, _⟩ := i3_planOne j s.ctl c a prep hr
      have hann := (i2a_planOne_frames j s.ctl c a prep hr).2.1
      exact sI_W3b_congr h hout hann hfq hfi
  | flushF1 =>
    simp only [step] at hs
    split at hs; · cases hs
    split at hs; · cases hs
    rename_i ds0 h0 rest hq
    cases hs
    intro ds hx hn ha
    simp only [considerPurge_fetchIssued, considerPurge_outputs, considerPurge_announced, considerPurge_fetchQ,
      List.mem_append, List.mem_singleton] at hn ha ⊢
    rcases h ds hx hn ha with ⟨h', hm⟩ | hm
    · rw [hq] at hm
      rcases List.mem_cons.mp hm with hm | hm
      · right; right
        exact (Prod.mk.inj hm).1
      · exact Or.inl ⟨h', hm⟩
    · exact Or.inr (Or.inl hm)
  | flushP1 =>
    simp only [step] at hs
    split at hs; · cases hs
    split at hs; · cases hs
    split at hs
    · cases hs
    · cases hs; exact (hnc rfl).elim
    · rename_i c cmds hr
      cases hs
      have e1 := purgeHosts_outputs _ _ _ _ _ _ hr
      have e2 := purgeHosts_announced _ _ _ _ _ _ hr
      have e3 := purgeHosts_fetchQ _ _ _ _ _ _ hr
      have e4 := purgeHosts_fetchIssued _ _ _ _ _ _ hr
      exact sI_W3b_congr h e1 e2 e3 e4
  | recv evs =>
    simp only [step] at hs
    split at hs; · cases hs
    split at hs; · cases hs
    cases hs
    exact sI_W3b_congr h rfl rfl rfl rfl
  | notify1 =>
    simp only [step] at hs
    split at hs; · cases hs
    split at hs; · cases hs
    rename_i ev rest hin
    split at hs
    · cases hs
    · cases hs; exact (hnc rfl).elim
    · rename_i c hr
      cases hs
      have hout := sI_notify_outputs j s.ctl c ev hr
      have hg := (notifyEvent_ghosts j s.ctl c ev hr).1
      -- the pipeline part, by kind of event
      have key : ∀ (hh : Host) (d : Ds), (ev = .pubT hh d ∨ ∃ w, ev = .pubW w d ∧ w.host = hh) →
          ∀ ds, ds ∈ j.ext → c.outputs ds = none → c.announced ds = true →
            (∃ h', (ds, h') ∈ c.fetchQ) ∨ ds ∈ c.fetchIssued := by
        intro hh d hev ds hx hn ha
        obtain ⟨e1, e2, _, e4⟩ := i3_notifyEvent_pub j s.ctl c ev hh d hev hr
        rw [e4, e2, i3_considerFetch_fetchQ]
        simp only [markAvailable_outputs, markAvailable_fetchQ, markAvailable_fetchIssued]
        have hn0 := (hout ds hn).1
        have hevd : evDs ev = d := by
          rcases hev with rfl | ⟨w, rfl, _⟩ <;> rfl
        rcases hg ds ha with ha0 | hd
        · rcases h ds hx hn0 ha0 with ⟨h', hm⟩ | hm
          · left
            refine ⟨h', ?_⟩
            split
            · exact List.mem_append_left _ hm
            · exact hm
          · exact Or.inr hm
        · rw [hevd] at hd
          subst hd
          by_cases hcond : (j.ext.contains ds && (s.ctl.outputs ds).isNone && !(s.ctl.fetchQ.any (·.1 == ds)) &&
              !(s.ctl.fetchIssued.contains ds)) = true
          · left
            refine ⟨hh, ?_⟩
            rw [if_pos hcond]
            simp
          · rw [if_neg hcond]
            simp only [Bool.and_eq_true, Bool.not_eq_true', List.contains_iff_mem, not_and, Bool.not_eq_false] at hcond
            by_cases hany : s.ctl.fetchQ.any (·.1 == ds) = true
            · left
              rw [List.any_eq_true] at hany
              obtain ⟨p, hp, hpe⟩ := hany
              have : p.1 = ds := by simpa using hpe
              refine ⟨p.2, ?_⟩
              rw [← this]
              exact hp
            · right
              have h1 : (s.ctl.outputs ds).isNone = true := by rw [hn0]; rfl
              have h2 : s.ctl.fetchQ.any (·.1 == ds) = false := Bool.eq_false_iff.mpr hany
              have := hcond ⟨⟨hx, h1⟩, h2⟩
              simpa using this
      cases ev with
      | payload d v =>
        simp only [notifyEvent, Except.ok.injEq] at hr
        subst hr
        intro ds hx hn ha
        have hn0 := (hout ds hn).1
        exact h ds hx hn0 ha
      | pubT hh d => exact key hh d (Or.inl rfl)
      | pubW w d => exact key w.host d (Or.inr ⟨w, rfl, rfl⟩)
  | env es =>
    simp only [step] at hs
    split at hs; · cases hs
    rw [envStepP_eq f j s.env es hA.h1.no_trim] at hs
    cases he : envStep f j s.env es with
    | none => simp [he] at hs
    | some e =>
      simp only [he, Option.map_some, Option.some.injEq] at hs
      subst hs
      exact sI_W3b_congr h rfl rfl rfl rfl

/-! ### phase facts -/

def sI_P (j : Job) (s : Sys) : Prop :=
  (s.phase = .waiting → s.ctl.hasAwaitable j = true) ∧
  ((s.phase = .flushP ∨ s.phase = .waiting) → s.ctl.fetchQ = [])

theorem sI_P_init (j : Job) (cl : Cluster) : sI_P j (Sys.init j cl) := by
  refine ⟨?_, ?_⟩ <;> simp [Sys.init]

theorem sI_P_step (f : Sem) (j : Job) (cl : Cluster) (s s' : Sys) (st : Step)
    (h : sI_P j s) (hs : step f j cl s st = some s') : sI_P j s' := by
  cases st with
  | enter =>
    simp only [step] at hs
    split at hs; · cases hs
    split at hs <;> (cases hs; exact ⟨by simp, by simp⟩)
  | assign a =>
    have hp := sB_enabled f j cl s s' _ _ rfl hs
    simp only [step] at hs
    split at hs; · cases hs
    split at hs
    · cases hs
    · cases hs; exact ⟨by simp [Sys.crash], by simp [Sys.crash]⟩
    · cases hs; exact ⟨by simp [hp], by simp [hp]⟩
  | endAssign =>
    simp only [step] at hs
    split at hs; · cases hs
    cases hs; exact ⟨by simp, by simp⟩
  | plan1 =>
    have hp := sB_enabled f j cl s s' _ _ rfl hs
    simp only [step] at hs
    split at hs; · cases hs
    split at hs; · cases hs
    split at hs
    · cases hs
    · cases hs; exact ⟨by simp [Sys.crash], by simp [Sys.crash]⟩
    · cases hs; exact ⟨by simp [hp], by simp [hp]⟩
  | endPlan =>
    simp only [step] at hs
    split at hs; · cases hs
    cases hs; exact ⟨by simp, by simp⟩
  | flushF1 =>
    have hp := sB_enabled f j cl s s' _ _ rfl hs
    simp only [step] at hs
    split at hs; · cases hs
    split at hs; · cases hs
    cases hs; exact ⟨by simp [hp], by simp [hp]⟩
  | endFlushF =>
    simp only [step] at hs
    split at hs; · cases hs
    rename_i hc0
    simp only [bne_iff_ne, ne_eq, Bool.or_eq_true, not_or, Decidable.not_not, Bool.not_eq_true', Bool.not_eq_false] at hc0
    cases hs
    exact ⟨by simp, fun _ => List.isEmpty_iff.mp hc0.2⟩
  | flushP1 =>
    have hp := sB_enabled f j cl s s' _ _ rfl hs
    simp only [step] at hs
    split at hs; · cases hs
    split at hs; · cases hs
    split at hs
    · cases hs
    · cases hs; exact ⟨by simp [Sys.crash], by simp [Sys.crash]⟩
    · rename_i c cmds hr
      cases hs
      refine ⟨by simp [hp], fun _ => ?_⟩
      have := purgeHosts_fetchQ _ _ _ _ _ _ hr
      simp only [this]
      exact h.2 (Or.inl hp)
  | endFlush =>
    have hp := sB_enabled f j cl s s' _ _ rfl hs
    simp only [step] at hs
    split at hs; · cases hs
    cases hs
    refine ⟨?_, fun _ => h.2 (Or.inl hp)⟩
    intro hw
    cases haw : s.ctl.hasAwaitable j with
    | true => rfl
    | false => simp [haw] at hw
  | recv evs =>
    simp only [step] at hs
    split at hs; · cases hs
    split at hs; · cases hs
    cases hs; exact ⟨by simp, by simp⟩
  | notify1 =>
    have hp := sB_enabled f j cl s s' _ _ rfl hs
    simp only [step] at hs
    split at hs; · cases hs
    split at hs; · cases hs
    split at hs
    · cases hs
    · cases hs; exact ⟨by simp [Sys.crash], by simp [Sys.crash]⟩
    · cases hs; exact ⟨by simp [hp], by simp [hp]⟩
  | endNotify =>
    simp only [step] at hs
    split at hs; · cases hs
    cases hs; exact ⟨by simp, by simp⟩
  | env es =>
    obtain ⟨_, _, hph, hctl, _⟩ := sB_env_step f j cl s s' es hs
    unfold sI_P
    rw [hph, hctl]
    exact h

/-! ### assembly -/

/-- the "no idle wait" tier of the base system's invariant (any order of delivery) -/
structure sI_Inv (j : Job) (s : Sys) : Prop where
  queued_inputs : sI_W2 j s
  issued_pipeline : sI_W3a s
  announced_pipeline : sI_W3b j s
  phases : sI_P j s

/-- reachable states are not crashed (the argument of `c03_no_crash`) -/
theorem sI_not_crashed (f : Sem) (j : Job) (cl : Cluster) (wf : WF j cl) (s : Sys) (hr : Reachable f j cl s) :
    s.phase ≠ .crashed := by
  have h := invAll_reachable f j cl wf s hr
  have hF := invF_reachable f j cl s hr
  intro hp
  have hsome := hF.err_phase.mpr hp
  cases he : s.err with
  | none => simp [he] at hsome
  | some e =>
    have hm := hF.err_msg e he
    simp only [crashMsgs, List.mem_cons, List.not_mem_nil, or_false] at hm
    rcases hm with rfl | rfl | rfl | rfl | rfl | rfl
    · exact absurd he h.h4.no_err_notfound
    · exact absurd he h.h2.no_err_plan
    · exact absurd he h.h1.no_double_add
    · exact absurd he h.h4.no_err_pop
    · exact absurd he h.h2.no_err_tracker
    · exact absurd he h.h2.no_err_ongoing

theorem sI_inv_init (j : Job) (cl : Cluster) : sI_Inv j (Sys.init j cl) :=
  ⟨sI_W2_init j cl, sI_W3a_init j cl, sI_W3b_init j cl, sI_P_init j cl⟩

theorem sI_inv_step (f : Sem) (j : Job) (cl : Cluster) (s s' : Sys) (st : Step) (wf : WF j cl)
    (hA : InvAll f j cl s) (h : sI_Inv j s) (hs : step f j cl s st = some s') (hnc : s'.phase ≠ .crashed) :
    sI_Inv j s' :=
  ⟨sI_W2_step f j cl s s' st wf hA h.queued_inputs hs hnc,
    sI_W3a_step f j cl s s' st wf hA h.issued_pipeline hs hnc, sI_W3b_step f j cl s s' st wf hA h.announced_pipeline hs hnc,
    sI_P_step f j cl s s' st h.phases hs⟩

/-- **the tier holds in every reachable state, for any order and batching of event delivery** -/
theorem sI_inv_reachable (f : Sem) (j : Job) (cl : Cluster) (wf : WF j cl) (s : Sys) (hr : Reachable f j cl s) :
    sI_Inv j s := by
  induction hr with
  | init => exact sI_inv_init j cl
  | step s s' st hr0 hs ih =>
    exact sI_inv_step f j cl s s' st wf (invAll_reachable f j cl wf s hr0) ih hs
      (sI_not_crashed f j cl wf s' (Reachable.step s s' st hr0 hs))

end EkwVerif.Ctrl
