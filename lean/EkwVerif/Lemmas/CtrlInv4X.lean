/-
Extra tier found necessary by the Inv4 proof slices (i4b, i4c): facts that hold in every
reachable state and that Inv1–Inv4 as first stated did not imply.
`Inv4.status_present` follows from `status_produced` and `Inv2.announced_produced`.
-/
import EkwVerif.Lemmas.CtrlInvDefs

namespace EkwVerif.Ctrl

def isTransmitTo (ds : Ds) (tgt : Host) : IO → Bool
  | .transmit d _ t => d == ds && t == tgt
  | _ => false

structure Inv4X (j : Job) (s : Sys) : Prop where
  /-- at most one outstanding transmit of a dataset to a host -/
  transmit_count : ∀ ds tgt, (s.env.outstanding.filter (isTransmitTo ds tgt)).length ≤ 1
  /-- strengthening of `Inv4.status_present`: the premise is `produced`, not `announced` -/
  status_produced : ∀ h ds, s.ctl.hostDs h ds ≠ .missing → needed j s.ctl ds → s.env.produced ds = true →
      (s.env.present h ds).isSome = true ∨ inboundTransmit s.env ds h = true
  /-- a status for an output of a task that has not run sits only on the host of the worker it is in flight on -/
  status_unran : ∀ h ds, s.ctl.hostDs h ds ≠ .missing → s.env.ran ds.task = false →
      ∃ w, w.host = h ∧ s.inFlight w ds.task

end EkwVerif.Ctrl
