/-
Tier L (liveness bookkeeping, ANY event order): projection of the extended system (`Model/Sched.lean`) onto the base
system, Tier L in every reachable state, and the liveness-at-exit theorem: when the controller loop exits normally,
the completion of every task has been notified — whatever the order and batching in which events were delivered.
-/
import EkwVerif.Lemmas.SchedLiveB

namespace EkwVerif.Ctrl

/-! ### projection of the extended system onto the base system -/

theorem sL_map_sys {o : Option Sys} {g : Sys → SysX} {x' : SysX} (hg : ∀ s', (g s').sys = s')
    (h : o.map g = some x') : o = some x'.sys := by
  cases o with
  | none => simp at h
  | some s' =>
    simp only [Option.map_some, Option.some.injEq] at h
    subst h
    rw [hg]

/-- a `base` step of the extended system performs the base step on the base part -/
theorem sL_stepX_base (f : Sem) (j : Job) (cl : Cluster) (cm : Comps) (x x' : SysX) (bst : Step)
    (h : stepX f j cl cm x (.base bst) = some x') : step f j cl x.sys bst = some x'.sys := by
  cases bst with
  | enter =>
    simp only [stepX] at h
    split at h; · cases h
    exact sL_map_sys (fun s' => by split <;> rfl) h
  | assign a =>
    simp only [stepX] at h
    split at h; · cases h
    split at h
    · split at h
      · cases h
      · exact sL_map_sys (fun s' => by split <;> rfl) h
    · cases h
  | endAssign =>
    simp only [stepX] at h
    split at h; · cases h
    split at h
    · exact sL_map_sys (fun s' => rfl) h
    · exact sL_map_sys (fun s' => rfl) h
    · cases h
  | plan1 =>
    simp only [stepX] at h
    split at h; · cases h
    split at h
    · cases h
    · exact sL_map_sys (fun s' => by split <;> rfl) h
  | endPlan =>
    simp only [stepX] at h
    split at h; · cases h
    exact sL_map_sys (fun s' => rfl) h
  | flushF1 =>
    simp only [stepX] at h
    split at h; · cases h
    exact sL_map_sys (fun s' => rfl) h
  | endFlushF =>
    simp only [stepX] at h
    split at h; · cases h
    exact sL_map_sys (fun s' => rfl) h
  | flushP1 =>
    simp only [stepX] at h
    split at h; · cases h
    exact sL_map_sys (fun s' => rfl) h
  | endFlush =>
    simp only [stepX] at h
    split at h; · cases h
    exact sL_map_sys (fun s' => rfl) h
  | recv evs =>
    simp only [stepX] at h
    split at h; · cases h
    exact sL_map_sys (fun s' => rfl) h
  | notify1 =>
    simp only [stepX] at h
    split at h; · cases h
    split at h
    · cases h
    · refine sL_map_sys (fun s' => ?_) h
      split
      · rfl
      · split <;> rfl
  | endNotify =>
    simp only [stepX] at h
    split at h; · cases h
    exact sL_map_sys (fun s' => rfl) h
  | env es =>
    simp only [stepX] at h
    split at h; · cases h
    exact sL_map_sys (fun s' => rfl) h

/-- the scheduler-only steps keep the base state -/
theorem sL_stepX_sched (f : Sem) (j : Job) (cl : Cluster) (cm : Comps) (x x' : SysX) (st : StepX)
    (hst : ∀ bst, st ≠ .base bst) (h : stepX f j cl cm x st = some x') : x'.sys = x.sys := by
  cases st with
  | base bst => exact absurd rfl (hst bst)
  | awcBegin c =>
    simp only [stepX] at h
    repeat' (split at h)
    all_goals first | (cases h; rfl) | cases h
  | awcEnter =>
    simp only [stepX] at h
    repeat' (split at h)
    all_goals first | (cases h; rfl) | cases h
  | hPhase2 =>
    simp only [stepX] at h
    repeat' (split at h)
    all_goals first | (cases h; rfl) | cases h
  | hEnd =>
    simp only [stepX] at h
    repeat' (split at h)
    all_goals first | (cases h; rfl) | cases h
  | beginStepII =>
    simp only [stepX] at h
    repeat' (split at h)
    all_goals first | (cases h; rfl) | cases h
  | migrate hh =>
    simp only [stepX] at h
    repeat' (split at h)
    all_goals first | (cases h; rfl) | cases h

/-- every step of the extended system keeps the base state or performs a base step on it -/
theorem sL_stepX_proj (f : Sem) (j : Job) (cl : Cluster) (cm : Comps) (x x' : SysX) (st : StepX)
    (h : stepX f j cl cm x st = some x') :
    x'.sys = x.sys ∨ ∃ bst, st = .base bst ∧ step f j cl x.sys bst = some x'.sys := by
  cases st with
  | base bst => exact Or.inr ⟨bst, rfl, sL_stepX_base f j cl cm x x' bst h⟩
  | awcBegin c => exact Or.inl (sL_stepX_sched f j cl cm x x' _ (by intro b; simp) h)
  | awcEnter => exact Or.inl (sL_stepX_sched f j cl cm x x' _ (by intro b; simp) h)
  | hPhase2 => exact Or.inl (sL_stepX_sched f j cl cm x x' _ (by intro b; simp) h)
  | hEnd => exact Or.inl (sL_stepX_sched f j cl cm x x' _ (by intro b; simp) h)
  | beginStepII => exact Or.inl (sL_stepX_sched f j cl cm x x' _ (by intro b; simp) h)
  | migrate hh => exact Or.inl (sL_stepX_sched f j cl cm x x' _ (by intro b; simp) h)

/-- the base part of a reachable extended state is reachable in the base system -/
theorem sL_reachableX_base (f : Sem) (j : Job) (cl : Cluster) (cm : Comps) (x : SysX)
    (hr : ReachableX f j cl cm x) : Reachable f j cl x.sys := by
  induction hr with
  | init => exact Reachable.init
  | step x x' st _ hs ih =>
    rcases sL_stepX_proj f j cl cm x x' st hs with h | ⟨bst, _, h⟩
    · rw [h]; exact ih
    · exact Reachable.step _ _ bst ih h

/-! ### Tier L holds in every reachable state (any event order) -/

theorem sL_reachable_both (f : Sem) (j : Job) (cl : Cluster) (wf : WF j cl) (s : Sys)
    (hr : Reachable f j cl s) : InvLive j cl s ∧ InvLiveX s := by
  induction hr with
  | init => exact ⟨sL_init j cl wf, sL_x_init j cl wf⟩
  | step s s' st hx hs ih =>
    have hA := invAll_reachable f j cl wf s hx
    exact ⟨sL_step f j cl s s' st wf hA ih.1 ih.2 hs, sL_x_step f j cl s s' st ih.2 hs⟩

theorem sL_reachable (f : Sem) (j : Job) (cl : Cluster) (wf : WF j cl) (s : Sys)
    (hr : Reachable f j cl s) : InvLive j cl s :=
  (sL_reachable_both f j cl wf s hr).1

theorem sL_reachableX (f : Sem) (j : Job) (cl : Cluster) (cm : Comps) (wf : WF j cl) (x : SysX)
    (hr : ReachableX f j cl cm x) : InvLive j cl x.sys :=
  sL_reachable f j cl wf x.sys (sL_reachableX_base f j cl cm x hr)

/-- a task whose completion was seen has all its outputs announced (any event order: Tier P) -/
theorem sL_done_announced (f : Sem) (j : Job) (cl : Cluster) (wf : WF j cl) (s : Sys) (hr : Reachable f j cl s) :
    ∀ t, s.ctl.doneC t = true → ∀ k, k < j.nOut t → s.ctl.announced ⟨t, k⟩ = true := by
  have h := invAll_reachable f j cl wf s hr
  intro t ht k hk
  have hlen := (h.h2.ran_disp t (h.h2.done_ran t ht)).2
  exact h.hP.pub_announced _ ((h.hP.done_iff t hlen).mp ht k hk)

/-! ### liveness at exit -/

/-- **For ANY order and batching of events: when the controller loop exits normally every task's completion has been
notified.** -/
theorem sL_done (f : Sem) (j : Job) (cl : Cluster) (wf : WF j cl) (s : Sys)
    (hr : Reachable f j cl s) (hfin : s.phase = .finished) :
    ∀ t, t < j.tasks.length → s.ctl.doneC t = true := by
  have hA := invAll_reachable f j cl wf _ hr
  have hFin := (invF_reachable f j cl _ hr).fin hfin
  have hF := sL_reachable f j cl wf s hr
  have hDA := sL_done_announced f j cl wf s hr
  have hcomp : s.ctl.computable = [] := by
    have := hFin.1
    simp only [Ctl.hasComputable, gt_iff_lt, decide_eq_false_iff_not, Nat.not_lt, Nat.le_zero_eq] at this
    exact List.eq_nil_of_length_eq_zero this
  have hong : s.ctl.ongoing = [] := by
    have := hFin.2
    simp only [Ctl.hasAwaitable, Bool.or_eq_false_iff, gt_iff_lt, decide_eq_false_iff_not, Nat.not_lt,
      Nat.le_zero_eq] at this
    exact List.eq_nil_of_length_eq_zero this.1
  have htodo : s.todo = [] := hA.h1.todo_phase (by simp [hfin]) (by simp [hfin]) (by simp [hfin])
  have hnofl : ∀ w t, ¬ s.inFlight w t := by
    intro w t h
    simp [Sys.inFlight, Sys.todoPairs, hong, htodo] at h
  have key : ∀ n, ∀ t, t < n → t < j.tasks.length → s.ctl.doneC t = true := by
    intro n
    induction n with
    | zero => intro t ht; omega
    | succ n ih =>
      intro t ht htl
      cases hd : s.ctl.doneC t with
      | true => rfl
      | false =>
        exfalso
        have hle := hA.h1.once.le t
        by_cases h1 : s.ctl.dispatched t = 1
        · rcases hF.disp_flight_or_done t h1 with ⟨w, hw⟩ | h
          · exact hnofl w t hw
          · rw [hd] at h; cases h
        · have h0 : s.ctl.dispatched t = 0 := by omega
          rcases hF.undisp t htl h0 with h | ⟨htr, ds, hds⟩
          · rw [hcomp] at h; cases h
          · obtain ⟨hin, hann⟩ := hF.tracker_sound t ds htr hds
            have hlt := wf.topo t ds hin
            have hdone := ih ds.task (by omega) (by omega)
            have h3 : s.ctl.announced ⟨ds.task, ds.out⟩ = true :=
              hDA ds.task hdone ds.out (wf.outs t ds hin)
            have h4 : (⟨ds.task, ds.out⟩ : Ds) = ds := rfl
            rw [h4, hann] at h3
            cases h3
  intro t ht
  exact key (t + 1) t (by omega) ht

end EkwVerif.Ctrl
