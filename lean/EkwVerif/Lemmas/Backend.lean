/-
Helper lemmas for C15 (and for C13, which re-uses the batch law of the reductions):
pointwise lifting of a scalar batch law to arrays, the fold law for associative operations,
and the concatenation law.  Core Lean only.
-/
import EkwVerif.Model.Backend
import EkwVerif.Model.F64

namespace EkwVerif.Backend
namespace Aux

variable {α : Type} [Inhabited α]

omit [Inhabited α] in
theorem arr_eq {x y : Arr α} (h1 : x.rank = y.rank) (h2 : x.ext = y.ext) (h3 : x.get = y.get) : x = y := by
  cases x; cases y; simp_all

theorem range_map_getD {α β : Type} (l : List α) (d : α) (g : α → β) :
    (List.range l.length).map (fun j => g (l.getD j d)) = l.map g := by
  apply List.ext_getElem
  · simp
  · intro i h1 h2
    simp at h1
    simp [List.getD, h1]

theorem ins_del_zero (i : Idx) (j : Nat) : Idx.del (Idx.ins i 0 j) 0 = i := by
  funext k; simp [Idx.del, Idx.ins]

theorem multiArg_ge2 (f : List α → α) (ax : AxisArg) (args : List (Arr α)) (h : 2 ≤ args.length) :
    multiArg f ax args =
      { rank := (args.headD Arr.zero).rank, ext := (args.headD Arr.zero).ext,
        get := fun i => f (args.map fun x => x.get i) } := by
  match args, h with
  | x :: y :: rest, _ =>
    apply arr_eq
    · simp [multiArg, reduceAx, stack]
    · funext k; simp [multiArg, reduceAx, stack, Idx.del, Idx.ins]
    · funext i
      simp only [multiArg, reduceAx, stack]
      have : ∀ j, Idx.ins i 0 j 0 = j := by intro j; simp [Idx.ins]
      simp only [this, ins_del_zero]
      have h0 : Idx.ins (List.headD (x :: y :: rest) Arr.zero).ext 0 (x :: y :: rest).length 0 = (x :: y :: rest).length := by
        simp [Idx.ins]
      rw [h0]
      exact congrArg f (range_map_getD (x :: y :: rest) Arr.zero (fun a => a.get i))

/-- scalar-level batch law: reducing nonempty batches first changes nothing -/
def ScalarBatchable (f : List α → α) : Prop :=
  ∀ bs : List (List α), (∀ b ∈ bs, b ≠ []) → f (bs.map f) = f bs.flatten

omit [Inhabited α] in
theorem foldl_batches (op : α → α → α) [Std.Associative op] (d : α) :
    ∀ (bs : List (List α)) (x : α), (∀ b ∈ bs, b ≠ []) →
      (bs.map (fold1 op d)).foldl op x = bs.flatten.foldl op x := by
  intro bs
  induction bs with
  | nil => intro x _; rfl
  | cons b bs ih =>
    intro x hne
    match b, hne b (by simp) with
    | y :: ys, _ =>
      simp only [List.map_cons, List.foldl_cons, List.flatten_cons, List.cons_append, List.foldl_append, fold1]
      have h : List.foldl op (op x y) ys = op x (List.foldl op y ys) := List.foldl_assoc
      rw [h, ih _ (fun b hb => hne b (by simp [hb]))]

omit [Inhabited α] in
theorem fold1_batchable (op : α → α → α) [Std.Associative op] (d : α) :
    ScalarBatchable (fold1 op d) := by
  intro bs hne
  match bs, hne with
  | [], _ => rfl
  | b :: bs, hne =>
    match b, hne b (by simp) with
    | y :: ys, _ =>
      simp only [List.map_cons, List.flatten_cons, List.cons_append]
      show List.foldl op (fold1 op d (y :: ys)) (bs.map (fold1 op d)) = List.foldl op y (ys ++ bs.flatten)
      rw [foldl_batches op d bs _ (fun b hb => hne b (by simp [hb]))]
      simp [fold1, List.foldl_append]

omit [Inhabited α] in
theorem vsum_batchable (A : Alg α) [Std.Associative A.add] : ScalarBatchable (vsum A) := fold1_batchable _ _
omit [Inhabited α] in
theorem vprod_batchable (A : Alg α) [Std.Associative A.mul] : ScalarBatchable (vprod A) := fold1_batchable _ _
omit [Inhabited α] in
theorem vmin_batchable (A : Alg α) [Std.Associative A.min] : ScalarBatchable (vmin A) := fold1_batchable _ _
omit [Inhabited α] in
theorem vmax_batchable (A : Alg α) [Std.Associative A.max] : ScalarBatchable (vmax A) := fold1_batchable _ _

omit [Inhabited α] in
theorem flatten_len_ge2 : ∀ (bs : List (List α)), 2 ≤ bs.length → (∀ b ∈ bs, b ≠ []) → 2 ≤ bs.flatten.length := by
  intro bs h hne
  match bs, h with
  | b1 :: b2 :: rest, _ =>
    have h1 : b1 ≠ [] := hne b1 (by simp)
    have h2 : b2 ≠ [] := hne b2 (by simp)
    have := List.length_pos_iff.mpr h1
    have := List.length_pos_iff.mpr h2
    simp only [List.flatten_cons, List.length_append]
    omega

theorem applyBatch_multiArg_shape (f : List α → α) (ax : AxisArg) (x : Arr α) (xs : List (Arr α)) :
    (applyBatch (multiArg f ax) (x :: xs)).rank = x.rank ∧ (applyBatch (multiArg f ax) (x :: xs)).ext = x.ext := by
  cases xs with
  | nil => exact ⟨rfl, rfl⟩
  | cons y ys =>
    have : applyBatch (multiArg f ax) (x :: y :: ys) = multiArg f ax (x :: y :: ys) := rfl
    rw [this, multiArg_ge2 f ax (x :: y :: ys) (by simp)]
    exact ⟨rfl, rfl⟩

theorem applyBatch_multiArg_get (f : List α → α) (hs : ∀ v, f [v] = v) (ax : AxisArg) (b : List (Arr α)) (hb : b ≠ []) (i : Idx) :
    (applyBatch (multiArg f ax) b).get i = f (b.map fun x => x.get i) := by
  match b, hb with
  | [x], _ => simp [applyBatch, hs]
  | x :: y :: ys, _ =>
    have : applyBatch (multiArg f ax) (x :: y :: ys) = multiArg f ax (x :: y :: ys) := rfl
    rw [this, multiArg_ge2 f ax (x :: y :: ys) (by simp)]

/-- pointwise lifting: a reduction whose scalar function obeys the batch law is batchable on arrays -/
theorem multiArg_batchable (f : List α → α) (hs : ∀ v, f [v] = v) (hf : ScalarBatchable f) (ax : AxisArg) :
    IsBatchable (multiArg f ax) := by
  intro r batches hlen hne _
  unfold batched
  rw [multiArg_ge2 f ax _ (by simpa using hlen), multiArg_ge2 f ax _ (flatten_len_ge2 batches hlen hne)]
  match batches, hlen, hne with
  | b1 :: rest, _, hne =>
    match b1, hne b1 (by simp) with
    | x :: xs, _ =>
      have hsh := applyBatch_multiArg_shape f ax x xs
      apply arr_eq
      · simpa using hsh.1
      · simpa using hsh.2
      · funext i
        show f (List.map (fun x => x.get i) (List.map (applyBatch (multiArg f ax)) ((x :: xs) :: rest))) =
          f (List.map (fun x => x.get i) ((x :: xs) :: rest).flatten)
        have h1 : List.map (fun x => x.get i) (List.map (applyBatch (multiArg f ax)) ((x :: xs) :: rest)) =
            List.map f (List.map (List.map fun x => x.get i) ((x :: xs) :: rest)) := by
          rw [List.map_map, List.map_map]
          apply List.map_congr_left
          intro b hb
          exact applyBatch_multiArg_get f hs ax b (hne b hb) i
        rw [h1, List.map_flatten]
        apply hf
        intro b hb
        simp only [List.mem_map] at hb
        obtain ⟨b', hb', rfl⟩ := hb
        have := hne b' hb'
        simpa using this

/-! ### concatenation -/

abbrev Seg (α : Type) := Nat × (Nat → α)
def sumLen (l : List (Seg α)) : Nat := (l.map (·.1)).sum

omit [Inhabited α] in
theorem sumLen_cons (s : Seg α) (l : List (Seg α)) : sumLen (s :: l) = s.1 + sumLen l := by simp [sumLen]

omit [Inhabited α] in
theorem sumLen_pos_ne_nil (l : List (Seg α)) (h : 0 < sumLen l) : l ≠ [] := by
  intro h'; subst h'; simp [sumLen] at h

theorem catAt_append : ∀ (xs ys : List (Seg α)) (j : Nat), ys ≠ [] →
    catAt (xs ++ ys) j = if j < sumLen xs then catAt xs j else catAt ys (j - sumLen xs) := by
  intro xs
  induction xs with
  | nil => intro ys j _; simp [sumLen]
  | cons s xs ih =>
    intro ys j hys
    obtain ⟨n, g⟩ := s
    have hne : (xs ++ ys).isEmpty = false := by
      cases xs <;> cases ys <;> simp_all
    simp only [List.cons_append, catAt, hne, Bool.false_or, sumLen_cons]
    by_cases hj : j < n
    · have : j < n + sumLen xs := by omega
      simp [hj, this]
    · rw [ih ys (j - n) hys]
      by_cases h2 : j - n < sumLen xs
      · have h3 : j < n + sumLen xs := by omega
        have h4 : xs.isEmpty = false := by
          have := sumLen_pos_ne_nil xs (by omega)
          cases xs <;> simp_all
        simp [hj, h2, h3, h4]
      · have h3 : ¬ j < n + sumLen xs := by omega
        simp [hj, h2, h3, Nat.sub_sub]

theorem catAt_batches : ∀ (bs : List (List (Seg α))) (j : Nat), (∀ b ∈ bs, b ≠ []) →
    catAt (bs.map fun b => (sumLen b, catAt b)) j = catAt bs.flatten j := by
  intro bs
  induction bs with
  | nil => intro j _; rfl
  | cons b bs ih =>
    intro j hne
    cases bs with
    | nil => simp [catAt]
    | cons b2 rest =>
      have hb2 : b2 ≠ [] := hne b2 (by simp)
      have hfl : (b2 :: rest).flatten ≠ [] := by
        cases b2 with
        | nil => exact absurd rfl hb2
        | cons s t => simp
      rw [List.flatten_cons, catAt_append b _ j hfl]
      rw [← ih _ (fun b hb => hne b (by simp [hb]))]
      simp [catAt]


theorem set_set (i : Idx) (a u v : Nat) : Idx.set (Idx.set i a u) a v = Idx.set i a v := by
  funext k; simp only [Idx.set]; split <;> rfl
theorem set_same (i : Idx) (a : Nat) : Idx.set i a (i a) = i := by
  funext k; simp only [Idx.set]; split <;> simp_all
theorem set_at (i : Idx) (a v : Nat) : Idx.set i a v a = v := by simp [Idx.set]

/-- the segment an argument contributes to a concatenation along `a`, seen from index `i` -/
def seg (a : Nat) (i : Idx) (x : Arr α) : Seg α := (x.ext a, fun r => x.get (Idx.set i a r))

theorem concat_get (a : Nat) (args : List (Arr α)) (i : Idx) :
    (concat a args).get i = catAt (args.map (seg a i)) (i a) := rfl

omit [Inhabited α] in
theorem sumLen_seg (a : Nat) (i : Idx) (b : List (Arr α)) : sumLen (b.map (seg a i)) = sumExt a b := by
  simp [sumLen, sumExt, seg, List.map_map, Function.comp_def]

theorem concat_singleton (a : Nat) (x : Arr α) : concat a [x] = x := by
  apply arr_eq
  · rfl
  · funext k; simp [concat, sumExt, Idx.set]; intro h; simp [h]
  · funext i; simp [concat, catAt, set_same]

theorem applyBatch_concat (a : Nat) (b : List (Arr α)) : applyBatch (concat a) b = concat a b := by
  match b with
  | [] => rfl
  | [x] => simp [applyBatch, concat_singleton]
  | x :: y :: r => rfl

theorem seg_concat (a : Nat) (i : Idx) (b : List (Arr α)) :
    seg a i (concat a b) = (sumLen (b.map (seg a i)), catAt (b.map (seg a i))) := by
  simp only [seg, sumLen_seg]
  refine Prod.ext ?_ ?_
  · simp [concat, set_at]
  · funext r
    simp only [concat_get, set_at]
    congr 1
    apply List.map_congr_left
    intro x _
    simp [seg, set_set]

theorem sumExt_flatten (a : Nat) : ∀ bs : List (List (Arr α)),
    sumExt a (bs.map (concat a)) = sumExt a bs.flatten := by
  intro bs
  induction bs with
  | nil => rfl
  | cons b bs ih =>
    simp only [sumExt, List.map_cons, List.sum_cons, List.flatten_cons, List.map_append, List.sum_append] at ih ⊢
    rw [ih]
    simp [concat, set_at, sumExt]

theorem concat_batches (a : Nat) (bs : List (List (Arr α))) (hne : ∀ b ∈ bs, b ≠ []) :
    concat a (bs.map (concat a)) = concat a bs.flatten := by
  apply arr_eq
  · match bs, hne with
    | [], _ => rfl
    | b :: rest, hne =>
      match b, hne b (by simp) with
      | x :: xs, _ => simp [concat]
  · show Idx.set _ a _ = Idx.set _ a _
    rw [sumExt_flatten]
    match bs, hne with
    | [], _ => rfl
    | b :: rest, hne =>
      match b, hne b (by simp) with
      | x :: xs, _ => simp [concat, set_set]
  · funext i
    rw [concat_get, concat_get, List.map_map]
    have h1 : List.map (seg a i ∘ concat a) bs = List.map (fun sb => (sumLen sb, catAt sb)) (bs.map (List.map (seg a i))) := by
      rw [List.map_map]
      apply List.map_congr_left
      intro b _
      simp [seg_concat]
    rw [h1, List.map_flatten]
    apply catAt_batches
    intro b hb
    simp only [List.mem_map] at hb
    obtain ⟨b', hb', rfl⟩ := hb
    have := hne b' hb'
    simpa using this

theorem headD_rank_of_uniform (r : Nat) (b : List (Arr α)) (hb : b ≠ []) (h : ∀ x ∈ b, x.rank = r) :
    (b.headD Arr.zero).rank = r := by
  match b, hb with
  | x :: xs, _ => simpa using h x (by simp)

theorem concatKw_uniform (ax : AxisArg) (r : Nat) (b : List (Arr α)) (hb : b ≠ []) (h : ∀ x ∈ b, x.rank = r) :
    concatKw ax b = concat (normAx (axisOne ax) r) b := by
  unfold concatKw; rw [headD_rank_of_uniform r b hb h]

theorem concat_rank (a : Nat) (r : Nat) (b : List (Arr α)) (hb : b ≠ []) (h : ∀ x ∈ b, x.rank = r) :
    (concat a b).rank = r := headD_rank_of_uniform r b hb h

theorem concatKw_batchable (ax : AxisArg) : IsBatchable (concatKw (α := α) ax) := by
  intro r batches hlen hne hrank
  unfold batched
  have hmap : batches.map (applyBatch (concatKw ax)) = batches.map (concat (normAx (axisOne ax) r)) := by
    apply List.map_congr_left
    intro b hb
    rw [← applyBatch_concat]
    match b, hne b hb with
    | [x], _ => rfl
    | x :: y :: t, _ =>
      show concatKw ax (x :: y :: t) = concat _ (x :: y :: t)
      exact concatKw_uniform ax r _ (by simp) (hrank _ hb)
  have hbne : batches ≠ [] := by intro h; subst h; simp at hlen
  have hfne : batches.flatten ≠ [] := by
    match batches, hbne with
    | b :: rest, _ =>
      match b, hne b (by simp) with
      | x :: xs, _ => simp
  rw [hmap, concatKw_uniform ax r _ (by simpa using hbne), concatKw_uniform ax r _ hfne, concat_batches _ _ hne]
  · intro x hx
    simp only [List.mem_flatten] at hx
    obtain ⟨b, hb, hxb⟩ := hx
    exact hrank b hb x hxb
  · intro y hy
    simp only [List.mem_map] at hy
    obtain ⟨b, hb, rfl⟩ := hy
    exact concat_rank _ r b (hne b hb) (hrank b hb)

/-! ### associativity of the concrete arithmetics -/

instance : Std.Associative Alg.rat.add := ⟨Rat.add_assoc⟩
instance : Std.Associative Alg.rat.mul := ⟨Rat.mul_assoc⟩
instance : Std.Associative Alg.rat.min := ⟨by intro a b c; show min (min a b) c = min a (min b c); grind⟩
instance : Std.Associative Alg.rat.max := ⟨by intro a b c; show max (max a b) c = max a (max b c); grind⟩

theorem wrap_add_left (bits : Nat) (signed : Bool) (a b : Int) :
    wrapInt bits signed (wrapInt bits signed a + b) = wrapInt bits signed (a + b) := by
  unfold wrapInt; cases signed
  · simp [Int.emod_add_emod]
  · simp [Int.bmod_add_bmod]

theorem wrap_add_right (bits : Nat) (signed : Bool) (a b : Int) :
    wrapInt bits signed (a + wrapInt bits signed b) = wrapInt bits signed (a + b) := by
  rw [Int.add_comm, wrap_add_left, Int.add_comm]

theorem wrap_mul_left (bits : Nat) (signed : Bool) (a b : Int) :
    wrapInt bits signed (wrapInt bits signed a * b) = wrapInt bits signed (a * b) := by
  unfold wrapInt; cases signed
  · simp only [Bool.false_eq_true, ↓reduceIte]
    rw [Int.mul_emod (a % _), Int.emod_emod, ← Int.mul_emod]
  · simp [Int.bmod_mul_bmod]

theorem wrap_mul_right (bits : Nat) (signed : Bool) (a b : Int) :
    wrapInt bits signed (a * wrapInt bits signed b) = wrapInt bits signed (a * b) := by
  rw [Int.mul_comm, wrap_mul_left, Int.mul_comm]

instance (bits : Nat) (signed : Bool) : Std.Associative (Alg.wrap bits signed).add :=
  ⟨by intro a b c
      show wrapInt bits signed (wrapInt bits signed (a + b) + c) = wrapInt bits signed (a + wrapInt bits signed (b + c))
      rw [wrap_add_left, wrap_add_right, Int.add_assoc]⟩
instance (bits : Nat) (signed : Bool) : Std.Associative (Alg.wrap bits signed).mul :=
  ⟨by intro a b c
      show wrapInt bits signed (wrapInt bits signed (a * b) * c) = wrapInt bits signed (a * wrapInt bits signed (b * c))
      rw [wrap_mul_left, wrap_mul_right, Int.mul_assoc]⟩
instance (bits : Nat) (signed : Bool) : Std.Associative (Alg.wrap bits signed).min :=
  ⟨by intro a b c; show min (min a b) c = min a (min b c); omega⟩
instance (bits : Nat) (signed : Bool) : Std.Associative (Alg.wrap bits signed).max :=
  ⟨by intro a b c; show max (max a b) c = max a (max b c); omega⟩

instance : Std.Associative Alg.bool.add := ⟨by intro a b c; show max (max a b) c = max a (max b c); omega⟩
instance : Std.Associative Alg.bool.mul := ⟨by intro a b c; show min (min a b) c = min a (min b c); omega⟩
instance : Std.Associative Alg.bool.min := ⟨by intro a b c; show min (min a b) c = min a (min b c); omega⟩
instance : Std.Associative Alg.bool.max := ⟨by intro a b c; show max (max a b) c = max a (max b c); omega⟩

/-- `min` / `max` of binary64 (NaN propagates, infinities are ordinary ordinals) are associative -/
instance : Std.Associative Alg.f64.min :=
  ⟨by intro a b c
      cases a <;> cases b <;> cases c <;> simp [Alg.f64, F64.fmin] <;> omega⟩
instance : Std.Associative Alg.f64.max :=
  ⟨by intro a b c
      cases a <;> cases b <;> cases c <;> simp [Alg.f64, F64.fmax] <;> omega⟩

/-- `min` / `max` of a narrow binary format (float32, float16) are those of binary64: no rounding is involved -/
instance (r : F64 → F64) : Std.Associative (Alg.narrowed r).min :=
  ⟨by intro a b c
      cases a <;> cases b <;> cases c <;> simp [Alg.narrowed, F64.fmin] <;> omega⟩
instance (r : F64 → F64) : Std.Associative (Alg.narrowed r).max :=
  ⟨by intro a b c
      cases a <;> cases b <;> cases c <;> simp [Alg.narrowed, F64.fmax] <;> omega⟩

end Aux
end EkwVerif.Backend
