/-
Tier 3 of the controller invariant (`Inv3`: fetch pipeline of requested outputs, soundness of
stored values) — part A: list helpers, the monotone congruence `i3_mono`, the pure lemma about
`den`, facts about commands / environment, `i3_init` and the steps that do not touch the pipeline.
-/
import EkwVerif.Lemmas.CtrlInvDefs
import EkwVerif.Lemmas.CtrlInv1Step

namespace EkwVerif.Ctrl

/-! ### list helpers -/

theorem i3_mem_fetch_filter (ds : Ds) (h : Host) (l : List IO) :
    IO.fetch ds h ∈ l ↔ IO.fetch ds h ∈ l.filter (isFetchOf ds) := by
  simp [List.mem_filter, isFetchOf]

theorem i3_mem_payload_filter (ds : Ds) (v : Val) (l : List Event) :
    Event.payload ds v ∈ l ↔ Event.payload ds v ∈ l.filter (isPayloadOf ds) := by
  simp [List.mem_filter, isPayloadOf]

theorem i3_no_fetch_of_len0 (l : List IO) (ds : Ds) (h0 : (l.filter (isFetchOf ds)).length = 0) :
    ∀ h, IO.fetch ds h ∉ l := by
  intro h hm
  rw [i3_mem_fetch_filter] at hm
  have : l.filter (isFetchOf ds) = [] := List.eq_nil_of_length_eq_zero h0
  rw [this] at hm
  simp at hm

theorem i3_no_payload_of_len0 (l : List Event) (ds : Ds) (h0 : (l.filter (isPayloadOf ds)).length = 0) :
    ∀ v, Event.payload ds v ∉ l := by
  intro v hm
  rw [i3_mem_payload_filter] at hm
  have : l.filter (isPayloadOf ds) = [] := List.eq_nil_of_length_eq_zero h0
  rw [this] at hm
  simp at hm

theorem i3_len0_of_no_fetch (l : List IO) (ds : Ds) (h0 : ∀ h, IO.fetch ds h ∉ l) :
    (l.filter (isFetchOf ds)).length = 0 := by
  have : l.filter (isFetchOf ds) = [] := by
    rw [List.filter_eq_nil_iff]
    intro o ho
    cases o with
    | transmit d a b => simp [isFetchOf]
    | fetch d a =>
      simp only [isFetchOf, beq_iff_eq]
      intro heq; subst heq; exact h0 a ho
  rw [this]; rfl

theorem i3_len0_of_no_payload (l : List Event) (ds : Ds) (h0 : ∀ v, Event.payload ds v ∉ l) :
    (l.filter (isPayloadOf ds)).length = 0 := by
  have : l.filter (isPayloadOf ds) = [] := by
    rw [List.filter_eq_nil_iff]
    intro o ho
    cases o with
    | pubW w d => simp [isPayloadOf]
    | pubT a d => simp [isPayloadOf]
    | payload d v =>
      simp only [isPayloadOf, beq_iff_eq]
      intro heq; subst heq; exact h0 v ho
  rw [this]; rfl

theorem i3_isFetchOf_ne (ds ds' : Ds) (h : Host) (hne : ds' ≠ ds) : isFetchOf ds' (IO.fetch ds h) = false := by
  simp only [isFetchOf, beq_eq_false_iff_ne, ne_eq]
  intro heq; exact hne heq.symm

theorem i3_isPayloadOf_ne (ds ds' : Ds) (v : Val) (hne : ds' ≠ ds) : isPayloadOf ds' (Event.payload ds v) = false := by
  simp only [isPayloadOf, beq_eq_false_iff_ne, ne_eq]
  intro heq; exact hne heq.symm

/-- erasing the `i`-th element: what happens to a filter's length -/
theorem i3_eraseIdx_filter {α : Type} (p : α → Bool) (l : List α) (i : Nat) (o : α) (h : l[i]? = some o) :
    ((l.eraseIdx i).filter p).length + (if p o then 1 else 0) = (l.filter p).length := by
  induction l generalizing i with
  | nil => simp at h
  | cons a l ih =>
    cases i with
    | zero =>
      simp only [List.getElem?_cons_zero, Option.some.injEq] at h
      subst h
      simp only [List.eraseIdx_cons_zero, List.filter_cons]
      by_cases hp : p a <;> simp [hp]
    | succ i =>
      simp only [List.getElem?_cons_succ] at h
      have := ih i h
      simp only [List.eraseIdx_cons_succ, List.filter_cons]
      by_cases hp : p a <;> simp [hp] <;> omega

theorem i3_mem_eraseIdx_of_ne {α : Type} (l : List α) (i : Nat) (o x : α) (h : l[i]? = some o) (hx : x ∈ l) (hne : x ≠ o) :
    x ∈ l.eraseIdx i := by
  induction l generalizing i with
  | nil => simp at hx
  | cons a l ih =>
    cases i with
    | zero =>
      simp only [List.getElem?_cons_zero, Option.some.injEq] at h
      subst h
      simp only [List.eraseIdx_cons_zero]
      rcases List.mem_cons.mp hx with rfl | hx
      · exact absurd rfl hne
      · exact hx
    | succ i =>
      simp only [List.getElem?_cons_succ] at h
      simp only [List.eraseIdx_cons_succ, List.mem_cons]
      rcases List.mem_cons.mp hx with rfl | hx
      · exact Or.inl rfl
      · exact Or.inr (ih i h hx)

theorem i3_mem_of_mem_eraseIdx {α : Type} (l : List α) (i : Nat) (x : α) (hx : x ∈ l.eraseIdx i) : x ∈ l := by
  induction l generalizing i with
  | nil => simp at hx
  | cons a l ih =>
    cases i with
    | zero => simp only [List.eraseIdx_cons_zero] at hx; exact List.mem_cons_of_mem _ hx
    | succ i =>
      simp only [List.eraseIdx_cons_succ, List.mem_cons] at hx
      rcases hx with rfl | hx
      · exact List.mem_cons_self
      · exact List.mem_cons_of_mem _ (ih i hx)

theorem i3_mem_of_getElem? {α : Type} (l : List α) (i : Nat) (o : α) (h : l[i]? = some o) : o ∈ l :=
  List.mem_of_getElem? h

/-! ### the monotone congruence -/

/-- A step that keeps `fetchIssued`/`outputs`, may only lose outstanding fetches and payload
events, keeps delivered flags and keeps every stored value sound. -/
theorem i3_mono {f : Sem} {j : Job} {cl : Cluster} {s s' : Sys} (h3 : Inv3 f j cl s)
    (hfi : s'.ctl.fetchIssued = s.ctl.fetchIssued) (hout : s'.ctl.outputs = s.ctl.outputs)
    (hfq : ∀ ds h, (ds, h) ∈ s'.ctl.fetchQ → ds ∈ j.ext ∧ s'.ctl.outputs ds = none ∧ ds ∉ s'.ctl.fetchIssued ∧
      s'.ctl.dsHost ds h = .available)
    (hnd : (s'.ctl.fetchQ.map (·.1)).Nodup)
    (hsub : ∀ ds h, IO.fetch ds h ∈ s'.env.outstanding → IO.fetch ds h ∈ s.env.outstanding)
    (hlen : ∀ ds, (s'.env.outstanding.filter (isFetchOf ds)).length ≤ (s.env.outstanding.filter (isFetchOf ds)).length)
    (hpres : ∀ ds h, IO.fetch ds h ∈ s'.env.outstanding → (s.env.present h ds).isSome = true →
      (s'.env.present h ds).isSome = true)
    (hsound : ∀ h ds v, s'.env.present h ds = some v → den f j ds = some v)
    (hdel : ∀ ds, s.env.delivered ds = true → s'.env.delivered ds = true)
    (hev : ∀ ds v, Event.payload ds v ∈ s'.allEv → Event.payload ds v ∈ s.allEv)
    (hevlen : ∀ ds, (s'.allEv.filter (isPayloadOf ds)).length ≤ (s.allEv.filter (isPayloadOf ds)).length)
    (hinb : ∀ ds v, Event.payload ds v ∈ s'.inbox → s'.env.delivered ds = true)
    (hviol : "C04 purge-before-output-delivered" ∉ s'.env.viol) : Inv3 f j cl s' := by
  refine ⟨hfq, hnd, ?_, ?_, ?_, ?_, ?_, hinb, hsound, hviol⟩
  · intro ds h hm
    obtain ⟨a1, a2, a3, a4, a5⟩ := h3.fetch_out ds h (hsub ds h hm)
    refine ⟨a1, by rw [hout]; exact a2, by rw [hfi]; exact a3, fun v hv => a4 v (hev ds v hv), hpres ds h hm a5⟩
  · intro ds; exact Nat.le_trans (hlen ds) (h3.fetch_count ds)
  · intro ds v hm
    obtain ⟨a1, a2, a3, a4, a5⟩ := h3.payload_ok ds v (hev ds v hm)
    exact ⟨a1, by rw [hout]; exact a2, by rw [hfi]; exact a3, fun h hh => a4 h (hsub ds h hh), a5⟩
  · intro ds; exact Nat.le_trans (hevlen ds) (h3.payload_count ds)
  · intro ds v hm
    rw [hout] at hm
    obtain ⟨a1, a2, a3, a4, a5⟩ := h3.outputs_ok ds v hm
    exact ⟨a1, hdel ds a2, a3, fun h hh => a4 h (hsub ds h hh), fun v' hv => a5 v' (hev ds v' hv)⟩

/-- special case: the controller part of the pipeline and the whole environment/inbox are unchanged
(up to `dsHost` staying `available` on the entries of `fetchQ`) -/
theorem i3_same {f : Sem} {j : Job} {cl : Cluster} {s s' : Sys} (h3 : Inv3 f j cl s)
    (hq : s'.ctl.fetchQ = s.ctl.fetchQ) (hfi : s'.ctl.fetchIssued = s.ctl.fetchIssued)
    (hout : s'.ctl.outputs = s.ctl.outputs)
    (hdh : ∀ ds h, s.ctl.dsHost ds h = .available → s'.ctl.dsHost ds h = .available)
    (henv : s'.env = s.env) (hinb : s'.inbox = s.inbox) : Inv3 f j cl s' := by
  have hall : s'.allEv = s.allEv := by simp only [Sys.allEv, henv, hinb]
  refine i3_mono h3 hfi hout ?_ ?_ ?_ ?_ ?_ ?_ ?_ ?_ ?_ ?_ ?_
  · intro ds h hm
    rw [hq] at hm
    obtain ⟨a1, a2, a3, a4⟩ := h3.fetchQ_ok ds h hm
    exact ⟨a1, by rw [hout]; exact a2, by rw [hfi]; exact a3, hdh ds h a4⟩
  · rw [hq]; exact h3.fetchQ_nodup
  · intro ds h hm; rw [henv] at hm; exact hm
  · intro ds; rw [henv]; exact Nat.le_refl _
  · intro ds h _ hp; rw [henv]; exact hp
  · intro h ds v hp; rw [henv] at hp; exact h3.store_sound h ds v hp
  · intro ds hd; rw [henv]; exact hd
  · intro ds v hm; rw [hall] at hm; exact hm
  · intro ds; rw [hall]; exact Nat.le_refl _
  · intro ds v hm; rw [hinb] at hm; rw [henv]; exact h3.inbox_delivered ds v hm
  · rw [henv]; exact h3.no_purge_before_delivered

/-! ### sequential denotation -/

theorem i3_seqEval_stable (f : Sem) (j : Job) (ds : Ds) (n m : Nat) (h1 : ds.task < n) (h2 : n ≤ m) :
    seqEval f j m ds = seqEval f j n ds := by
  induction m with
  | zero => have : n = 0 := by omega
            subst this; rfl
  | succ m ih =>
    by_cases hm : n = m + 1
    · subst hm; rfl
    · have hle : n ≤ m := by omega
      rw [← ih hle]
      simp only [seqEval]
      have : ¬ (ds.task = m ∧ ds.out < j.nOut m) := by omega
      simp [this]

theorem i3_seqEval_at (f : Sem) (j : Job) (t k : Nat) (hk : k < j.nOut t) :
    seqEval f j (t + 1) ⟨t, k⟩ = some (f t k ((j.inputs t).map (fun d => (seqEval f j t d).getD ""))) := by
  simp [seqEval, hk]

theorem i3_den_eq (f : Sem) (j : Job) (cl : Cluster) (wf : WF j cl) (t k : Nat) (ht : t < j.tasks.length)
    (hk : k < j.nOut t) :
    den f j ⟨t, k⟩ = some (f t k ((j.inputs t).map (fun d => (den f j d).getD ""))) := by
  unfold den
  rw [i3_seqEval_stable f j ⟨t, k⟩ (t + 1) j.tasks.length (by simp) (by omega), i3_seqEval_at f j t k hk]
  congr 2
  apply List.map_congr_left
  intro d hd
  have hlt := wf.topo t d hd
  rw [i3_seqEval_stable f j d (d.task + 1) t (by omega) (by omega),
    i3_seqEval_stable f j d (d.task + 1) j.tasks.length (by omega) (by omega)]

/-! ### commands -/

/-- a transmit or task-sequence command does not touch what Tier 3 talks about -/
theorem i3_applyCmd_other (j : Job) (cl : Cluster) (e : Env) (cmd : Cmd)
    (hc : (∃ ds a b, cmd = .transmit ds a b) ∨ (∃ w t pb, cmd = .taskSeq w t pb)) :
    (applyCmd j cl e cmd).present = e.present ∧ (applyCmd j cl e cmd).delivered = e.delivered ∧
    (applyCmd j cl e cmd).pending = e.pending ∧
    (∀ ds, (applyCmd j cl e cmd).outstanding.filter (isFetchOf ds) = e.outstanding.filter (isFetchOf ds)) ∧
    ("C04 purge-before-output-delivered" ∉ e.viol → "C04 purge-before-output-delivered" ∉ (applyCmd j cl e cmd).viol) := by
  rcases hc with ⟨ds, a, b, rfl⟩ | ⟨w, t, pb, rfl⟩
  · refine ⟨by simp [applyCmd], by simp [applyCmd], by simp [applyCmd], ?_, ?_⟩
    · intro ds'; simp [applyCmd, List.filter_append, isFetchOf]
    · intro hv; rw [mem_viol_transmit]; simp [hv]
  · refine ⟨by simp [applyCmd], by simp [applyCmd], by simp [applyCmd], ?_, ?_⟩
    · intro ds'; simp [applyCmd]
    · intro hv; rw [mem_viol_taskSeq]; simp [hv]

theorem i3_applyCmds_other (j : Job) (cl : Cluster) (cmds : List Cmd) (e : Env)
    (hc : ∀ cmd ∈ cmds, (∃ ds a b, cmd = .transmit ds a b) ∨ (∃ w t pb, cmd = .taskSeq w t pb)) :
    (applyCmds j cl e cmds).present = e.present ∧ (applyCmds j cl e cmds).delivered = e.delivered ∧
    (applyCmds j cl e cmds).pending = e.pending ∧
    (∀ ds, (applyCmds j cl e cmds).outstanding.filter (isFetchOf ds) = e.outstanding.filter (isFetchOf ds)) ∧
    ("C04 purge-before-output-delivered" ∉ e.viol → "C04 purge-before-output-delivered" ∉ (applyCmds j cl e cmds).viol) := by
  induction cmds generalizing e with
  | nil => simp [applyCmds]
  | cons c cs ih =>
    have h1 := i3_applyCmd_other j cl e c (hc c (by simp))
    have h2 := ih (applyCmd j cl e c) (fun cmd hm => hc cmd (by simp [hm]))
    simp only [applyCmds, List.foldl_cons] at h2 ⊢
    obtain ⟨a1, a2, a3, a4, a5⟩ := h1
    obtain ⟨b1, b2, b3, b4, b5⟩ := h2
    exact ⟨by rw [b1, a1], by rw [b2, a2], by rw [b3, a3], fun ds => by rw [b4, a4], fun hv => b5 (a5 hv)⟩

theorem i3_actCmds_other (j : Job) (a : Asg) (prep : List (Ds × Host)) :
    ∀ cmd ∈ actCmds j a prep, (∃ ds a b, cmd = Cmd.transmit ds a b) ∨ (∃ w t pb, cmd = Cmd.taskSeq w t pb) := by
  intro cmd hm
  simp only [actCmds, List.mem_append, List.mem_map, List.mem_singleton] at hm
  rcases hm with ⟨p, _, rfl⟩ | rfl
  · exact Or.inl ⟨_, _, _, rfl⟩
  · exact Or.inr ⟨_, _, _, rfl⟩

/-- purge commands for one dataset -/
theorem i3_applyCmds_purge (j : Job) (cl : Cluster) (ds : Ds) (cmds : List Cmd) (e : Env)
    (hc : ∀ cmd ∈ cmds, ∃ h, cmd = Cmd.purge h ds) :
    (applyCmds j cl e cmds).outstanding = e.outstanding ∧ (applyCmds j cl e cmds).delivered = e.delivered ∧
    (applyCmds j cl e cmds).pending = e.pending ∧
    (∀ h d, d ≠ ds → (applyCmds j cl e cmds).present h d = e.present h d) ∧
    (∀ h d v, (applyCmds j cl e cmds).present h d = some v → e.present h d = some v) ∧
    ((ds ∈ j.ext → e.delivered ds = true) → "C04 purge-before-output-delivered" ∉ e.viol →
      "C04 purge-before-output-delivered" ∉ (applyCmds j cl e cmds).viol) := by
  induction cmds generalizing e with
  | nil => simp [applyCmds]
  | cons c cs ih =>
    obtain ⟨h, rfl⟩ := hc c (by simp)
    have h2 := ih (applyCmd j cl e (.purge h ds)) (fun cmd hm => hc cmd (by simp [hm]))
    simp only [applyCmds, List.foldl_cons] at h2 ⊢
    obtain ⟨b1, b2, b3, b4, b5, b6⟩ := h2
    have a1 : (applyCmd j cl e (.purge h ds)).outstanding = e.outstanding := by simp [applyCmd]
    have a2 : (applyCmd j cl e (.purge h ds)).delivered = e.delivered := by simp [applyCmd]
    have a3 : (applyCmd j cl e (.purge h ds)).pending = e.pending := by simp [applyCmd]
    have a4 : (applyCmd j cl e (.purge h ds)).present = upd e.present h (upd (e.present h) ds none) := by
      simp [applyCmd]
    refine ⟨by rw [b1, a1], by rw [b2, a2], by rw [b3, a3], ?_, ?_, ?_⟩
    · intro h' d hne
      rw [b4 h' d hne, a4]
      by_cases hh : h' = h
      · subst hh; simp [upd_other _ _ _ _ hne]
      · simp [upd_other _ _ _ _ hh]
    · intro h' d v hp
      have := b5 h' d v hp
      rw [a4] at this
      by_cases hh : h' = h
      · subst hh
        by_cases hd : d = ds
        · subst hd; simp at this
        · simpa [upd_other _ _ _ _ hd] using this
      · simpa [upd_other _ _ _ _ hh] using this
    · intro hd hv
      apply b6
      · rw [a2]; exact hd
      · rw [mem_viol_purge]
        simp only [hv, false_or, String.reduceEq, and_false, or_false, and_true, Bool.or_eq_false_iff,
          Bool.not_eq_eq_eq_not, Bool.not_false, List.contains_iff_mem, not_and]
        intro hx
        simp [hd hx]

/-! ### `init` and the steps that do not touch the pipeline -/

theorem i3_init (f : Sem) (j : Job) (cl : Cluster) (_wf : WF j cl) : Inv3 f j cl (Sys.init j cl) := by
  refine ⟨?_, ?_, ?_, ?_, ?_, ?_, ?_, ?_, ?_, ?_⟩
  all_goals simp [Sys.init, initCtl, Env.init, Sys.allEv]

theorem i3_crash {f : Sem} {j : Job} {cl : Cluster} {s : Sys} (h3 : Inv3 f j cl s) (e : String) :
    Inv3 f j cl (s.crash e) :=
  i3_same h3 rfl rfl rfl (fun _ _ h => h) rfl rfl

theorem i3_step_enter (f : Sem) (j : Job) (cl : Cluster) (s s' : Sys) (_wf : WF j cl)
    (_h1 : Inv1 cl s) (_h2 : Inv2 j cl s) (h3 : Inv3 f j cl s) (_h4 : Inv4 j cl s)
    (hs : step f j cl s .enter = some s') : Inv3 f j cl s' := by
  simp only [step] at hs
  split at hs; · cases hs
  split at hs
  · cases hs; exact i3_same h3 rfl rfl rfl (fun _ _ h => h) rfl rfl
  · cases hs; exact i3_same h3 rfl rfl rfl (fun _ _ h => h) rfl rfl

theorem i3_step_endAssign (f : Sem) (j : Job) (cl : Cluster) (s s' : Sys) (_wf : WF j cl)
    (_h1 : Inv1 cl s) (_h2 : Inv2 j cl s) (h3 : Inv3 f j cl s) (_h4 : Inv4 j cl s)
    (hs : step f j cl s .endAssign = some s') : Inv3 f j cl s' := by
  simp only [step] at hs
  split at hs; · cases hs
  cases hs; exact i3_same h3 rfl rfl rfl (fun _ _ h => h) rfl rfl

theorem i3_step_endPlan (f : Sem) (j : Job) (cl : Cluster) (s s' : Sys) (_wf : WF j cl)
    (_h1 : Inv1 cl s) (_h2 : Inv2 j cl s) (h3 : Inv3 f j cl s) (_h4 : Inv4 j cl s)
    (hs : step f j cl s .endPlan = some s') : Inv3 f j cl s' := by
  simp only [step] at hs
  split at hs; · cases hs
  cases hs; exact i3_same h3 rfl rfl rfl (fun _ _ h => h) rfl rfl

theorem i3_step_endFlushF (f : Sem) (j : Job) (cl : Cluster) (s s' : Sys) (_wf : WF j cl)
    (_h1 : Inv1 cl s) (_h2 : Inv2 j cl s) (h3 : Inv3 f j cl s) (_h4 : Inv4 j cl s)
    (hs : step f j cl s .endFlushF = some s') : Inv3 f j cl s' := by
  simp only [step] at hs
  split at hs; · cases hs
  cases hs; exact i3_same h3 rfl rfl rfl (fun _ _ h => h) rfl rfl

theorem i3_step_endFlush (f : Sem) (j : Job) (cl : Cluster) (s s' : Sys) (_wf : WF j cl)
    (_h1 : Inv1 cl s) (_h2 : Inv2 j cl s) (h3 : Inv3 f j cl s) (_h4 : Inv4 j cl s)
    (hs : step f j cl s .endFlush = some s') : Inv3 f j cl s' := by
  simp only [step] at hs
  split at hs; · cases hs
  cases hs; exact i3_same h3 rfl rfl rfl (fun _ _ h => h) rfl rfl

theorem i3_step_endNotify (f : Sem) (j : Job) (cl : Cluster) (s s' : Sys) (_wf : WF j cl)
    (_h1 : Inv1 cl s) (_h2 : Inv2 j cl s) (h3 : Inv3 f j cl s) (_h4 : Inv4 j cl s)
    (hs : step f j cl s .endNotify = some s') : Inv3 f j cl s' := by
  simp only [step] at hs
  split at hs; · cases hs
  cases hs; exact i3_same h3 rfl rfl rfl (fun _ _ h => h) rfl rfl

end EkwVerif.Ctrl
