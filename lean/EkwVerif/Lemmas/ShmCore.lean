/-
Invariant `Core` of Model/Shm.lean (accounting, segment/dataset link, job/dataset link, content),
preserved by every step of a history whose requests are `Conform`:
  * the writer creates its segment with the granted size while the dataset is `created`
    (client.allocate does so immediately);
  * no purge request reaches a reader-less dataset in status `paging_out` / `paged_in`
    (the excluded class: known finding C08-purge-in-flight).
-/
import EkwVerif.Lemmas.ShmBase

namespace EkwVerif.Shm
open Aux

def jobStatus : JobKind → Status
  | .out => .pagingOut
  | .inn => .pagedIn

/-- where the bytes `tok` written by the writer live, depending on the status -/
def Holds (sg fl : Option Seg) (js : List Job) (k : String) (st : Status) (size tok : Nat) : Prop :=
  match st with
  | .created => sg = some ⟨size, tok⟩
  | .inMemory => sg = some ⟨size, tok⟩
  | .onDisk => fl = some ⟨size, tok⟩
  | .pagingOut => ∀ j ∈ js, j.key = k →
      (j.io = some true → fl = some ⟨size, tok⟩) ∧ (j.io ≠ some true → sg = some ⟨size, tok⟩)
  | .pagedIn => ∀ j ∈ js, j.key = k →
      (j.io = none → fl = some ⟨size, tok⟩) ∧ (j.io = some true → sg = some ⟨size, tok⟩)

structure Core (s : St) : Prop where
  ndSegs : Nd s.segs
  acct : s.free + residentTotal s.ds = s.cap
  jobKeys : s.jobs.Pairwise (fun a b => a.key ≠ b.key)
  jobLink : ∀ j ∈ s.jobs, ∃ d, find? s.ds j.key = some d ∧ d.gen = j.gen ∧ d.size = j.size ∧ d.status = jobStatus j.kind
  outDone : ∀ j ∈ s.jobs, j.kind = .out → j.io = some true → find? s.segs j.key = none
  segLink : ∀ k g, find? s.segs k = some g → ∃ d, find? s.ds k = some d ∧ d.status.resident = true ∧ g.size = d.size
  content : ∀ k d tok, find? s.ds k = some d → d.wrote = some tok →
      Holds (find? s.segs k) (find? s.files k) s.jobs k d.status d.size tok

/-- the requests the theorems about `Core` assume of the clients (see file header), decidable -/
def conformB (s : St) : Op → Bool
  | .cwrite k size _ =>
    match find? s.ds k with
    | some d => d.status == .created && d.size == size
    | none => false
  | .purge k =>
    match find? s.ds k with
    | some d => !d.readers.isEmpty || (d.status != .pagingOut && d.status != .pagedIn)
    | none => true
  | _ => true

def Conform (s : St) (op : Op) : Prop := conformB s op = true

def SafeRun : St → List Op → Prop
  | _, [] => True
  | s, op :: ops => Conform s op ∧ SafeRun (step s op).1 ops

instance decSafeRun : (s : St) → (ops : List Op) → Decidable (SafeRun s ops)
  | _, [] => isTrue trivial
  | s, op :: ops =>
    have := decSafeRun (step s op).1 ops
    inferInstanceAs (Decidable (conformB s op = true ∧ SafeRun (step s op).1 ops))

theorem conform_cwrite (s : St) (k : String) (size tok : Nat) (h : Conform s (.cwrite k size tok)) :
    ∃ d, find? s.ds k = some d ∧ d.status = .created ∧ d.size = size := by
  unfold Conform conformB at h
  cases hd : find? s.ds k with
  | none => simp [hd] at h
  | some d => simp [hd] at h; exact ⟨d, rfl, h.1, h.2⟩

theorem conform_purge (s : St) (k : String) (h : Conform s (.purge k)) :
    ∀ d, find? s.ds k = some d → d.readers.isEmpty = true → d.status ≠ .pagingOut ∧ d.status ≠ .pagedIn := by
  intro d hd hr
  unfold Conform conformB at h
  simp [hd, hr] at h
  exact h

namespace Aux

theorem core_init (cap sc sr : Nat) : Core (init cap sc sr) := by
  constructor <;> simp [init, Nd, residentTotal, total]

theorem holds_mono (sg fl : Option Seg) (js js' : List Job) (k : String) (st : Status) (size tok : Nat)
    (hsub : ∀ j ∈ js', j.key = k → j ∈ js) (h : Holds sg fl js k st size tok) : Holds sg fl js' k st size tok := by
  cases st <;> simp only [Holds] at h ⊢ <;> try exact h
  · intro j hj hk; exact h j (hsub j hj hk) hk
  · intro j hj hk; exact h j (hsub j hj hk) hk

theorem no_job_at (s : St) (hc : Core s) (k : String) (d : Dataset) (hd : find? s.ds k = some d)
    (hs : d.status ≠ .pagingOut ∧ d.status ≠ .pagedIn) : ∀ j ∈ s.jobs, j.key ≠ k := by
  intro j hj e
  obtain ⟨d', hd', _, _, hst⟩ := hc.jobLink j hj
  rw [e, hd] at hd'; cases hd'
  cases hk : j.kind <;> simp [hk, jobStatus] at hst <;> simp [hst] at hs

/-- replacing a dataset by one with the same gen/size/status/wrote (readers, flags, times differ) -/
theorem core_update (s : St) (hc : Core s) (k : String) (d d' : Dataset) (hd : find? s.ds k = some d)
    (e1 : d'.gen = d.gen) (e2 : d'.size = d.size) (e3 : d'.status = d.status) (e4 : d'.wrote = d.wrote)
    (s' : St) (hds : s'.ds = set s.ds k d') (hfree : s'.free = s.free) (hcap : s'.cap = s.cap)
    (hsegs : s'.segs = s.segs) (hfiles : s'.files = s.files) (hjobs : s'.jobs = s.jobs) : Core s' := by
  refine ⟨by rw [hsegs]; exact hc.ndSegs, ?_, by rw [hjobs]; exact hc.jobKeys, ?_, ?_, ?_, ?_⟩
  · have := total_set weight s.ds k d' d hd
    have hw : weight d' = weight d := by simp [weight, e2, e3]
    have ha := hc.acct
    rw [hfree, hcap, hds]; unfold residentTotal at *; omega
  · intro j hj
    rw [hjobs] at hj; rw [hds]
    obtain ⟨d0, h0, r⟩ := hc.jobLink j hj
    by_cases hk : j.key = k
    · rw [hk] at h0 ⊢; rw [hd] at h0; cases h0
      exact ⟨d', find?_set_self _ _ _ _ hd, by rw [e1]; exact r.1, by rw [e2]; exact r.2.1, by rw [e3]; exact r.2.2⟩
    · exact ⟨d0, by rw [find?_set_ne _ _ _ _ hk]; exact h0, r⟩
  · intro j hj; rw [hjobs] at hj; rw [hsegs]; exact hc.outDone j hj
  · intro k' g hg
    rw [hsegs] at hg; rw [hds]
    obtain ⟨d0, h0, r⟩ := hc.segLink k' g hg
    by_cases hk : k' = k
    · rw [hk] at h0 ⊢; rw [hd] at h0; cases h0
      exact ⟨d', find?_set_self _ _ _ _ hd, by rw [e3]; exact r.1, by rw [e2]; exact r.2⟩
    · exact ⟨d0, by rw [find?_set_ne _ _ _ _ hk]; exact h0, r⟩
  · intro k' d0 tok h0 hw
    rw [hds] at h0; rw [hsegs, hfiles, hjobs]
    by_cases hk : k' = k
    · rw [hk] at h0 ⊢; rw [find?_set_self _ _ _ _ hd] at h0; cases h0
      rw [e3, e2]; exact hc.content k d tok hd (by rw [← e4]; exact hw)
    · rw [find?_set_ne _ _ _ _ hk] at h0; exact hc.content k' d0 tok h0 hw

/-- `Core` does not look at lock, count, counters, staleness constants -/
theorem core_frame (s s' : St) (hc : Core s) (h1 : s'.ds = s.ds) (h2 : s'.free = s.free) (h3 : s'.cap = s.cap)
    (h4 : s'.segs = s.segs) (h5 : s'.files = s.files) (h6 : s'.jobs = s.jobs) : Core s' := by
  refine ⟨by rw [h4]; exact hc.ndSegs, by rw [h1, h2, h3]; exact hc.acct, by rw [h6]; exact hc.jobKeys, ?_, ?_, ?_, ?_⟩
  · rw [h6, h1]; exact hc.jobLink
  · rw [h6, h4]; exact hc.outDone
  · rw [h4, h1]; exact hc.segLink
  · rw [h1, h4, h5, h6]; exact hc.content

theorem core_purge (s : St) (k : String) (hn : Nd s.ds) (hc : Core s)
    (hj : ∀ d, find? s.ds k = some d → d.readers.isEmpty = true → ∀ j ∈ s.jobs, j.key ≠ k) : Core (purge s k) := by
  unfold purge
  cases hd : find? s.ds k with
  | none => exact hc
  | some d =>
    simp only
    split
    · exact core_update s hc k d { d with delayed := true } hd rfl rfl rfl rfl _ rfl rfl rfl rfl rfl rfl
    · rename_i hr
      have hr' : d.readers.isEmpty = true := by simpa using hr
      have hnj := hj d hd hr'
      split
      · exact hc
      · rename_i hst
        cases hg : find? s.segs k with
        | none => exact hc
        | some g =>
          simp only
          have hres : d.status.resident = true := by
            cases h : d.status <;> simp [h, Status.resident] at hst ⊢
          refine ⟨nd_erase _ _ hc.ndSegs, ?_, hc.jobKeys, ?_, ?_, ?_, ?_⟩
          · have := total_erase weight s.ds k d hd
            have hw : weight d = d.size := by simp [weight, hres]
            have ha := hc.acct
            simp only; unfold residentTotal at *; omega
          · intro j hjm
            obtain ⟨d0, h0, r⟩ := hc.jobLink j hjm
            exact ⟨d0, by simp only; rw [find?_erase_ne _ _ _ (hnj j hjm)]; exact h0, r⟩
          · intro j hjm h1 h2
            simp only; rw [find?_erase_ne _ _ _ (hnj j hjm)]; exact hc.outDone j hjm h1 h2
          · intro k' g' hg'
            simp only at hg' ⊢
            by_cases hk : k' = k
            · rw [hk, find?_erase_self _ _ hc.ndSegs] at hg'; cases hg'
            · rw [find?_erase_ne _ _ _ hk] at hg' ⊢; exact hc.segLink k' g' hg'
          · intro k' d0 tok h0 hw
            simp only at h0 ⊢
            by_cases hk : k' = k
            · rw [hk, find?_erase_self _ _ hn] at h0; cases h0
            · rw [find?_erase_ne _ _ _ hk] at h0 ⊢; exact hc.content k' d0 tok h0 hw

/-- the purge of a failed job's callback: the job has left the pool, so nothing refers to the key any more -/
theorem core_purgeFailed (s : St) (k : String) (hn : Nd s.ds) (hc : Core s) (hnj : ∀ j ∈ s.jobs, j.key ≠ k) :
    Core (purgeFailed s k) := by
  unfold purgeFailed
  cases hd : find? s.ds k with
  | none => exact hc
  | some d =>
    simp only
    split
    · exact hc
    · rename_i hst
      have hres : d.status.resident = true := by
        cases h : d.status <;> simp [h, Status.resident] at hst ⊢
      refine ⟨nd_erase _ _ hc.ndSegs, ?_, hc.jobKeys, ?_, ?_, ?_, ?_⟩
      · have := total_erase weight s.ds k d hd
        have hw : weight d = d.size := by simp [weight, hres]
        have ha := hc.acct
        simp only; unfold residentTotal at *; omega
      · intro j hjm
        obtain ⟨d0, h0, r⟩ := hc.jobLink j hjm
        exact ⟨d0, by simp only; rw [find?_erase_ne _ _ _ (hnj j hjm)]; exact h0, r⟩
      · intro j hjm h1 h2
        simp only; rw [find?_erase_ne _ _ _ (hnj j hjm)]; exact hc.outDone j hjm h1 h2
      · intro k' g' hg'
        simp only at hg' ⊢
        by_cases hk : k' = k
        · rw [hk, find?_erase_self _ _ hc.ndSegs] at hg'; cases hg'
        · rw [find?_erase_ne _ _ _ hk] at hg' ⊢; exact hc.segLink k' g' hg'
      · intro k' d0 tok h0 hw
        simp only at h0 ⊢
        by_cases hk : k' = k
        · rw [hk, find?_erase_self _ _ hn] at h0; cases h0
        · rw [find?_erase_ne _ _ _ hk] at h0 ⊢; exact hc.content k' d0 tok h0 hw

theorem core_afterClose (s : St) (k : String) (hn : Nd s.ds) (hc : Core s)
    (hj : ∀ d, find? s.ds k = some d → ∀ j ∈ s.jobs, j.key ≠ k) : Core (afterClose s k) := by
  unfold afterClose
  cases hd : find? s.ds k with
  | none => exact hc
  | some d =>
    simp only
    split
    · exact core_purge s k hn hc (fun d' hd' _ => hj d' hd')
    · exact hc

/-! ### page-out -/

theorem core_pageOut (s : St) (k : String) (d : Dataset) (hc : Core s) (hd : find? s.ds k = some d)
    (hst : d.status = .created ∨ d.status = .inMemory) : Core (pageOut s k) := by
  obtain ⟨ej, _, ed⟩ := pageOut_jobs s k d hd
  obtain ⟨_, _, ef, ec, es, efl, _, _⟩ := pageOut_frame s k
  have hnj : ∀ j ∈ s.jobs, j.key ≠ k :=
    no_job_at s hc k d hd (by rcases hst with h | h <;> simp [h])
  have hres : d.status.resident = true := by rcases hst with h | h <;> simp [h, Status.resident]
  refine ⟨by rw [es]; exact hc.ndSegs, ?_, ?_, ?_, ?_, ?_, ?_⟩
  · have := total_set weight s.ds k { d with status := .pagingOut } d hd
    have hw : weight { d with status := .pagingOut } = weight d := by
      unfold weight; rw [hres]; simp [Status.resident]
    have ha := hc.acct
    rw [ef, ec, ed]; unfold residentTotal at *; omega
  · rw [ej, List.pairwise_append]
    refine ⟨hc.jobKeys, by simp, ?_⟩
    intro a ha b hb; simp at hb; subst hb; exact hnj a ha
  · intro j hj
    rw [ej] at hj; rw [ed]
    rcases List.mem_append.mp hj with hj | hj
    · obtain ⟨d0, h0, r⟩ := hc.jobLink j hj
      exact ⟨d0, by rw [find?_set_ne _ _ _ _ (hnj j hj)]; exact h0, r⟩
    · simp at hj; subst hj
      exact ⟨_, find?_set_self _ _ _ _ hd, rfl, rfl, rfl⟩
  · intro j hj h1 h2
    rw [ej] at hj; rw [es]
    rcases List.mem_append.mp hj with hj | hj
    · exact hc.outDone j hj h1 h2
    · simp at hj; subst hj; simp at h2
  · intro k' g hg
    rw [es] at hg; rw [ed]
    obtain ⟨d0, h0, r⟩ := hc.segLink k' g hg
    by_cases hk : k' = k
    · rw [hk] at h0 ⊢; rw [hd] at h0; cases h0
      exact ⟨_, find?_set_self _ _ _ _ hd, by simp [Status.resident], r.2⟩
    · exact ⟨d0, by rw [find?_set_ne _ _ _ _ hk]; exact h0, r⟩
  · intro k' d0 tok h0 hw
    rw [ed] at h0; rw [es, efl, ej]
    by_cases hk : k' = k
    · rw [hk] at h0 ⊢; rw [find?_set_self _ _ _ _ hd] at h0; cases h0
      have hold := hc.content k d tok hd hw
      simp only [Holds]
      intro j hj hjk
      rcases List.mem_append.mp hj with hj | hj
      · exact absurd hjk (hnj j hj)
      · simp at hj; subst hj
        refine ⟨by simp, fun _ => ?_⟩
        rcases hst with h | h <;> (rw [h] at hold; simpa [Holds] using hold)
    · rw [find?_set_ne _ _ _ _ hk] at h0
      refine holds_mono _ _ s.jobs _ _ _ _ _ ?_ (hc.content k' d0 tok h0 hw)
      intro j hj hjk
      rcases List.mem_append.mp hj with hj | hj
      · exact hj
      · simp at hj; subst hj; exact absurd hjk.symm hk

theorem core_pageOutAll (ws : List String) : ∀ (s : St), Core s → ws.Nodup →
    (∀ k ∈ ws, ∃ d, find? s.ds k = some d ∧ (d.status = .created ∨ d.status = .inMemory)) →
    Core (pageOutAll s ws) := by
  induction ws with
  | nil => intro s hc _ _; exact hc
  | cons k ws ih =>
    intro s hc hnd hw
    obtain ⟨d, hd, hst⟩ := hw k (by simp)
    rw [List.nodup_cons] at hnd
    simp only [pageOutAll, List.foldl_cons]
    apply ih _ (core_pageOut s k d hc hd hst) hnd.2
    intro k' hk'
    obtain ⟨d', hd', hst'⟩ := hw k' (List.mem_cons_of_mem _ hk')
    have hne : k' ≠ k := fun e => hnd.1 (e ▸ hk')
    refine ⟨d', ?_, hst'⟩
    rw [(pageOut_jobs s k d hd).2.2, find?_set_ne _ _ _ _ hne]; exact hd'

theorem pageoutable_status (sc sr t : Nat) (d : Dataset) (h : isPageoutable sc sr d t = true) :
    d.status = .created ∨ d.status = .inMemory := by
  unfold isPageoutable at h
  cases hs : d.status <;> simp [hs] at h ⊢

theorem core_pageOutAtLeast (s : St) (amount t : Nat) (hn : Nd s.ds) (hc : Core s) : Core (pageOutAtLeast s amount t) := by
  unfold pageOutAtLeast
  split
  · exact hc
  · simp only
    split
    · exact hc
    · refine core_pageOutAll _ _ (core_frame s _ hc rfl rfl rfl rfl rfl rfl) (winners_nodup _ _ _ _ _ hn) ?_
      intro k hk
      obtain ⟨d, hd, hp⟩ := winners_pageoutable _ _ _ _ _ hn k hk
      exact ⟨d, hd, pageoutable_status _ _ _ _ hp⟩

/-! ### requests -/

theorem core_add (s : St) (k : String) (size : Nat) (deser : String) (t : Nat) (hn : Nd s.ds) (hc : Core s) :
    Core (add s k size deser t).1 := by
  unfold add
  split
  · exact hc
  · rename_i hk
    have hk' : find? s.ds k = none := by cases h : find? s.ds k <;> simp [h] at hk ⊢
    split
    · exact hc
    · split
      · exact core_pageOutAtLeast s _ t hn hc
      · rename_i hfit
        simp only
        refine ⟨hc.ndSegs, ?_, hc.jobKeys, ?_, hc.outDone, ?_, ?_⟩
        · have ha := hc.acct
          unfold residentTotal at ha ⊢
          rw [total_append]
          generalize total weight s.ds = T at ha ⊢
          simp [weight, Status.resident]; omega
        · intro j hj
          obtain ⟨d0, h0, r⟩ := hc.jobLink j hj
          exact ⟨d0, find?_append_some _ _ _ _ _ h0, r⟩
        · intro k' g hg
          obtain ⟨d0, h0, r⟩ := hc.segLink k' g hg
          exact ⟨d0, find?_append_some _ _ _ _ _ h0, r⟩
        · intro k' d0 tok h0 hw
          simp only at h0
          by_cases hkk : k' = k
          · rw [hkk, find?_append_self _ _ _ hk'] at h0; cases h0; simp at hw
          · rw [find?_append_ne _ _ _ _ hkk] at h0; exact hc.content k' d0 tok h0 hw

theorem core_cwrite (s : St) (k : String) (size tok : Nat) (hc : Core s)
    (hcf : ∃ d, find? s.ds k = some d ∧ d.status = .created ∧ d.size = size) : Core (cwrite s k size tok).1 := by
  obtain ⟨d, hd, hst, hsz⟩ := hcf
  unfold cwrite
  split
  · exact hc
  cases hg : find? s.segs k with
  | some g => exact hc
  | none =>
    simp only [hd]
    have hnj : ∀ j ∈ s.jobs, j.key ≠ k := no_job_at s hc k d hd (by simp [hst])
    refine ⟨nd_append _ _ _ hc.ndSegs hg, ?_, hc.jobKeys, ?_, ?_, ?_, ?_⟩
    · have := total_set weight s.ds k { d with wrote := some tok } d hd
      have hw : weight { d with wrote := some tok } = weight d := by simp [weight]
      have ha := hc.acct
      simp only; unfold residentTotal at *; omega
    · intro j hj
      obtain ⟨d0, h0, r⟩ := hc.jobLink j hj
      exact ⟨d0, by simp only; rw [find?_set_ne _ _ _ _ (hnj j hj)]; exact h0, r⟩
    · intro j hj h1 h2
      simp only; rw [find?_append_ne _ _ _ _ (hnj j hj)]; exact hc.outDone j hj h1 h2
    · intro k' g hg'
      simp only at hg' ⊢
      by_cases hk : k' = k
      · rw [hk, find?_append_self _ _ _ hg] at hg'; cases hg'
        exact ⟨_, by rw [hk]; exact find?_set_self _ _ _ _ hd, by simp [hst, Status.resident], by simp [hsz]⟩
      · rw [find?_append_ne _ _ _ _ hk] at hg'
        obtain ⟨d0, h0, r⟩ := hc.segLink k' g hg'
        exact ⟨d0, by rw [find?_set_ne _ _ _ _ hk]; exact h0, r⟩
    · intro k' d0 tok' h0 hw
      simp only at h0 ⊢
      by_cases hk : k' = k
      · rw [hk] at h0 ⊢; rw [find?_set_self _ _ _ _ hd] at h0; cases h0
        simp only at hw; cases hw
        rw [find?_append_self _ _ _ hg]; simp [hst, Holds, hsz]
      · rw [find?_set_ne _ _ _ _ hk] at h0; rw [find?_append_ne _ _ _ _ hk]
        exact hc.content k' d0 tok' h0 hw

theorem core_closeCb (s : St) (k rdid : String) (hn : Nd s.ds) (hc : Core s) : Core (closeCb s k rdid).1 := by
  unfold closeCb
  cases hd : find? s.ds k with
  | none => exact hc
  | some d =>
    simp only
    split
    · split
      · exact hc
      · rename_i hst
        have hst' : d.status = .created := by simpa using hst
        have hnj : ∀ j ∈ s.jobs, j.key ≠ k := no_job_at s hc k d hd (by simp [hst'])
        have hnj0 := hnj
        -- created -> in_memory keeps gen/size/wrote; both statuses are resident and keep the bytes in the segment
        have hc' : Core { s with ds := set s.ds k { d with status := .inMemory } } := by
          refine ⟨hc.ndSegs, ?_, hc.jobKeys, ?_, hc.outDone, ?_, ?_⟩
          · have := total_set weight s.ds k { d with status := .inMemory } d hd
            have hw : weight { d with status := .inMemory } = weight d := by simp [weight, hst', Status.resident]
            have ha := hc.acct
            simp only; unfold residentTotal at *; omega
          · intro j hj
            obtain ⟨d0, h0, r⟩ := hc.jobLink j hj
            exact ⟨d0, by simp only; rw [find?_set_ne _ _ _ _ (hnj j hj)]; exact h0, r⟩
          · intro k' g hg
            simp only
            obtain ⟨d0, h0, r⟩ := hc.segLink k' g hg
            by_cases hk : k' = k
            · rw [hk] at h0 ⊢; rw [hd] at h0; cases h0
              exact ⟨_, find?_set_self _ _ _ _ hd, by simp [Status.resident], r.2⟩
            · exact ⟨d0, by rw [find?_set_ne _ _ _ _ hk]; exact h0, r⟩
          · intro k' d0 tok h0 hw
            simp only at h0 ⊢
            by_cases hk : k' = k
            · rw [hk] at h0 ⊢; rw [find?_set_self _ _ _ _ hd] at h0; cases h0
              have := hc.content k d tok hd hw
              rw [hst'] at this; simpa [Holds] using this
            · rw [find?_set_ne _ _ _ _ hk] at h0; exact hc.content k' d0 tok h0 hw
        exact core_afterClose _ k (nd_set _ _ _ hn) hc' (fun _ _ => hnj0)
    · split
      · exact hc
      · rename_i hst
        have hst' : d.status = .inMemory := by simpa using hst
        have hnj : ∀ j ∈ s.jobs, j.key ≠ k := no_job_at s hc k d hd (by simp [hst'])
        have hc' := core_update s hc k d { d with readers := eraseReader d.readers rdid } hd rfl rfl rfl rfl
          { s with ds := set s.ds k { d with readers := eraseReader d.readers rdid } } rfl rfl rfl rfl rfl rfl
        exact core_afterClose _ k (nd_set _ _ _ hn) hc' (fun _ _ => hnj)

theorem core_get (s : St) (k : String) (t : Nat) (cands : List String) (hn : Nd s.ds) (hc : Core s) :
    Core (get s k t cands).1 := by
  unfold get
  cases hd : find? s.ds k with
  | none => exact hc
  | some d =>
    simp only
    split
    · exact hc
    · exact hc
    · exact hc
    · rename_i hst
      split
      · exact core_pageOutAtLeast s _ t hn hc
      · rename_i hfit
        have hnj : ∀ j ∈ s.jobs, j.key ≠ k := no_job_at s hc k d hd (by simp [hst])
        have hnoseg : find? s.segs k = none := by
          cases hg : find? s.segs k with
          | none => rfl
          | some g =>
            obtain ⟨d0, h0, r, _⟩ := hc.segLink k g hg
            rw [hd] at h0; cases h0; simp [hst, Status.resident] at r
        simp only [pageIn]
        refine ⟨hc.ndSegs, ?_, ?_, ?_, ?_, ?_, ?_⟩
        · have := total_set weight s.ds k { d with status := .pagedIn } d hd
          have hw : weight { d with status := .pagedIn } = d.size := by simp [weight, Status.resident]
          have hw0 : weight d = 0 := by simp [weight, hst, Status.resident]
          have ha := hc.acct
          simp only; unfold residentTotal at *; omega
        · rw [List.pairwise_append]
          refine ⟨hc.jobKeys, by simp, ?_⟩
          intro a ha b hb; simp at hb; subst hb; exact hnj a ha
        · intro j hj
          simp only
          rcases List.mem_append.mp hj with hj | hj
          · obtain ⟨d0, h0, r⟩ := hc.jobLink j hj
            exact ⟨d0, by rw [find?_set_ne _ _ _ _ (hnj j hj)]; exact h0, r⟩
          · simp at hj; subst hj
            exact ⟨_, find?_set_self _ _ _ _ hd, rfl, rfl, rfl⟩
        · intro j hj h1 h2
          rcases List.mem_append.mp hj with hj | hj
          · exact hc.outDone j hj h1 h2
          · simp at hj; subst hj; simp at h1
        · intro k' g hg
          simp only
          obtain ⟨d0, h0, r⟩ := hc.segLink k' g hg
          by_cases hk : k' = k
          · rw [hk, hnoseg] at hg; cases hg
          · exact ⟨d0, by rw [find?_set_ne _ _ _ _ hk]; exact h0, r⟩
        · intro k' d0 tok h0 hw
          simp only at h0 ⊢
          by_cases hk : k' = k
          · rw [hk] at h0 ⊢; rw [find?_set_self _ _ _ _ hd] at h0; cases h0
            have hold := hc.content k d tok hd hw
            rw [hst] at hold
            simp only [Holds] at hold ⊢
            intro j hj hjk
            rcases List.mem_append.mp hj with hj | hj
            · exact absurd hjk (hnj j hj)
            · simp at hj; subst hj; exact ⟨fun _ => hold, by simp⟩
          · rw [find?_set_ne _ _ _ _ hk] at h0
            refine holds_mono _ _ s.jobs _ _ _ _ _ ?_ (hc.content k' d0 tok h0 hw)
            intro j hj hjk
            rcases List.mem_append.mp hj with hj | hj
            · exact hj
            · simp at hj; subst hj; exact absurd hjk.symm hk
    · split
      · exact hc
      · rename_i r _
        exact core_update s hc k d { d with readers := d.readers ++ [(r, t)], first := if d.first = 0 then t else d.first, last := t }
          hd rfl rfl rfl rfl _ rfl rfl rfl rfl rfl rfl

end Aux
end EkwVerif.Shm
