/-
Tiers 2–4 of the controller/executor system invariant (definitions only).
Tier 1 (`Inv1`, dispatch and worker accounting) is in `CtrlInv1.lean`.
Every conjunct was validated dynamically on random walks of the executable model
(`Drive/CtrlFuzz.lean`, Bool mirror in `Drive/CtrlInvCheck.lean`) before being proved.
-/
import EkwVerif.Lemmas.CtrlInv1

namespace EkwVerif.Ctrl

/-- well-formed job and cluster (what `JobInstance`/`Environment` + acyclicity give) -/
structure WF (j : Job) (cl : Cluster) : Prop where
  topo : ∀ t ds, ds ∈ j.inputs t → ds.task < t
  outs : ∀ t ds, ds ∈ j.inputs t → ds.out < j.nOut ds.task
  nout : ∀ t, t < j.tasks.length → 1 ≤ j.nOut t
  inputsNodup : ∀ t, (j.inputs t).Nodup
  extValid : ∀ ds, ds ∈ j.ext → ds.task < j.tasks.length ∧ ds.out < j.nOut ds.task
  workersNodup : cl.ids.Nodup

/-- events received or produced but not yet notified to the controller -/
def Sys.allEv (s : Sys) : List Event := s.inbox ++ s.env.pending

/-- `ds` is still needed: some consumer's completion has not been notified, or it was requested
and its value has not reached the controller. Anti-monotone along every execution. -/
def needed (j : Job) (c : Ctl) (ds : Ds) : Prop :=
  (∃ t, t ∈ j.consumers ds ∧ c.doneC t = false) ∨ (ds ∈ j.ext ∧ c.outputs ds = none)

def isFetchOf (ds : Ds) : IO → Bool
  | .fetch d _ => d == ds
  | _ => false

def isPayloadOf (ds : Ds) : Event → Bool
  | .payload d _ => d == ds
  | _ => false

/-- Tier 2: task life cycle, trackers, events of task outputs. -/
structure Inv2 (j : Job) (cl : Cluster) (s : Sys) : Prop where
  flight_not_done : ∀ w t, s.inFlight w t → s.ctl.doneC t = false
  flight_valid : ∀ w t, s.inFlight w t → t < j.tasks.length
  comp_valid : ∀ t, t ∈ s.ctl.computable → t < j.tasks.length
  done_ran : ∀ t, s.ctl.doneC t = true → s.env.ran t = true
  ran_disp : ∀ t, s.env.ran t = true → s.ctl.dispatched t = 1 ∧ t < j.tasks.length
  queued_not_ran : ∀ w t, (w, t) ∈ s.env.queued → s.env.ran t = false
  flight_queued_or_ran : ∀ w t, s.inFlight w t → (w, t) ∈ s.env.queued ∨ s.env.ran t = true
  ev_count : ∀ w ds, s.allEv.count (Event.pubW w ds) ≤ 1
  ev_ran : ∀ w ds, Event.pubW w ds ∈ s.allEv → s.env.ran ds.task = true ∧ ds.out < j.nOut ds.task
  /-- while ANY output notice of a task is on its way the task is still in flight on the notice's worker
      (completion needs the notices of all outputs) -/
  ev_flight : ∀ w ds, Event.pubW w ds ∈ s.allEv → s.inFlight w ds.task
  inbox_phase : s.phase ≠ .notifying → s.phase ≠ .crashed → s.inbox = []
  ptrack_sound : ∀ ds t, t ∈ j.consumers ds → s.ctl.doneC t = false → s.ctl.ptracked ds = true ∧ t ∈ s.ctl.ptrack ds
  purgeQ_ok : ∀ ds, ds ∈ s.ctl.purgeQ → (∀ t, t ∈ j.consumers ds → s.ctl.doneC t = true) ∧
      (ds ∈ j.ext → (s.ctl.outputs ds).isSome = true) ∧ s.ctl.announced ds = true
  tracker_complete : ∀ ds t, t ∈ j.consumers ds → s.ctl.announced ds = false →
      s.ctl.tracked t = true ∧ ds ∈ s.ctl.tracker t
  ready : ∀ t, (t ∈ s.ctl.computable ∨ s.ctl.dispatched t = 1) → ∀ ds, ds ∈ j.inputs t → s.ctl.announced ds = true
  announced_produced : ∀ ds, s.ctl.announced ds = true → s.env.produced ds = true
  produced_iff : ∀ ds, s.env.produced ds = true ↔ (s.env.ran ds.task = true ∧ ds.out < j.nOut ds.task)
  no_input_not_produced : "C02 input-not-produced" ∉ s.env.viol
  no_purge_before_consumer : "C04 purge-before-consumer-done" ∉ s.env.viol
  no_purge_needed_queued : "C04 purge-needed-by-queued-task" ∉ s.env.viol
  no_err_tracker : s.err ≠ some "KeyError: purging_tracker removal"
  no_err_ongoing : s.err ≠ some "ValueError: removal from ongoing impossible"
  no_err_plan : s.err ≠ some "KeyError: purging_tracker[prep] in plan"

/-- Tier 3: the fetch pipeline of requested outputs and the values in the stores. -/
structure Inv3 (f : Sem) (j : Job) (cl : Cluster) (s : Sys) : Prop where
  fetchQ_ok : ∀ ds h, (ds, h) ∈ s.ctl.fetchQ → ds ∈ j.ext ∧ s.ctl.outputs ds = none ∧ ds ∉ s.ctl.fetchIssued ∧
      s.ctl.dsHost ds h = .available
  fetchQ_nodup : (s.ctl.fetchQ.map (·.1)).Nodup
  fetch_out : ∀ ds h, IO.fetch ds h ∈ s.env.outstanding → ds ∈ j.ext ∧ s.ctl.outputs ds = none ∧
      ds ∈ s.ctl.fetchIssued ∧ (∀ v, Event.payload ds v ∉ s.allEv) ∧ (s.env.present h ds).isSome = true
  fetch_count : ∀ ds, (s.env.outstanding.filter (isFetchOf ds)).length ≤ 1
  payload_ok : ∀ ds v, Event.payload ds v ∈ s.allEv → ds ∈ j.ext ∧ s.ctl.outputs ds = none ∧
      ds ∈ s.ctl.fetchIssued ∧ (∀ h, IO.fetch ds h ∉ s.env.outstanding) ∧ den f j ds = some v
  payload_count : ∀ ds, (s.allEv.filter (isPayloadOf ds)).length ≤ 1
  outputs_ok : ∀ ds v, s.ctl.outputs ds = some v → den f j ds = some v ∧ s.env.delivered ds = true ∧ ds ∈ j.ext ∧
      (∀ h, IO.fetch ds h ∉ s.env.outstanding) ∧ (∀ v', Event.payload ds v' ∉ s.allEv)
  inbox_delivered : ∀ ds v, Event.payload ds v ∈ s.inbox → s.env.delivered ds = true
  store_sound : ∀ h ds v, s.env.present h ds = some v → den f j ds = some v
  no_purge_before_delivered : "C04 purge-before-output-delivered" ∉ s.env.viol

/-- Tier 4: where datasets are versus what the controller believes. -/
structure Inv4 (j : Job) (cl : Cluster) (s : Sys) : Prop where
  keys : ∀ h ds, s.ctl.hostDs h ds = .missing ↔ s.ctl.dsHost ds h = .missing
  status_hosts : ∀ h ds, s.ctl.dsHost ds h ≠ .missing → h ∈ cl.hosts
  workerDs_ok : ∀ w ds, s.ctl.workerDs w ds ≠ .missing → s.ctl.hostDs w.host ds ≠ .missing ∧ w ∈ cl.ids
  avail_present : ∀ h ds, s.ctl.dsHost ds h = .available → needed j s.ctl ds → (s.env.present h ds).isSome = true
  status_present : ∀ h ds, s.ctl.hostDs h ds ≠ .missing → needed j s.ctl ds → s.ctl.announced ds = true →
      (s.env.present h ds).isSome = true ∨ inboundTransmit s.env ds h = true
  transmit_out : ∀ ds src tgt, IO.transmit ds src tgt ∈ s.env.outstanding →
      (s.env.present src ds).isSome = true ∧ s.env.present tgt ds = none ∧ s.ctl.hostDs tgt ds ≠ .missing ∧
      (∃ w t, (w, t) ∈ s.env.queued ∧ w.host = tgt ∧ ds ∈ j.inputs t)
  flight_present : ∀ w t, s.inFlight w t → s.env.ran t = true → ∀ k, k < j.nOut t → needed j s.ctl ⟨t, k⟩ →
      (s.env.present w.host ⟨t, k⟩).isSome = true
  present_status : ∀ h ds, (s.env.present h ds).isSome = true →
      s.ctl.hostDs h ds ≠ .missing ∨ (∃ w, w.host = h ∧ (w, ds.task) ∈ s.todoPairs)
  ongoing_status : ∀ w t, (w, t) ∈ s.ctl.ongoing → s.env.ran t = false → ∀ k, k < j.nOut t →
      s.ctl.hostDs w.host ⟨t, k⟩ ≠ .missing
  evW_present : ∀ w ds, Event.pubW w ds ∈ s.allEv → w ∈ cl.ids ∧ (needed j s.ctl ds → (s.env.present w.host ds).isSome = true)
  evT_present : ∀ h ds, Event.pubT h ds ∈ s.allEv → h ∈ cl.hosts ∧ (needed j s.ctl ds → (s.env.present h ds).isSome = true)
  avail_somewhere : ∀ ds, s.ctl.announced ds = true → (∃ t, t ∈ j.consumers ds ∧ s.ctl.doneC t = false) →
      ∃ h, h ∈ cl.hosts ∧ s.ctl.dsHost ds h = .available
  purged_unneeded : ∀ h ds, (h, ds) ∈ s.env.purged → ¬ needed j s.ctl ds
  present_produced : ∀ h ds, (s.env.present h ds).isSome = true → s.env.produced ds = true
  no_transmit_from_missing : "C04 transmit-from-missing" ∉ s.env.viol
  no_fetch_from_missing : "C04 fetch-from-missing" ∉ s.env.viol
  no_purge_while_outstanding : "C04 purge-while-outstanding-from" ∉ s.env.viol
  no_input_purged : "C04 input-purged-on-target" ∉ s.env.viol
  no_input_absent : "C02 input-neither-present-nor-in-transfer" ∉ s.env.viol
  no_io_gone_t : "C04 io-source-gone transmit" ∉ s.env.viol
  no_io_gone_f : "C04 io-source-gone fetch" ∉ s.env.viol
  no_err_notfound : s.err ≠ some "ValueError: dataset not found in any host"
  no_err_pop : s.err ≠ some "KeyError: host2ds pop"

end EkwVerif.Ctrl
