/-
Helper lemmas for C06: what survives MALFORMED frame lists injected into receive queues — every
accepted message is still a genuine one (sent to this endpoint under that Syn, or a local
callback message). No property theorem lives here.
-/
import EkwVerif.Lemmas.C06App

namespace EkwVerif.Ack
open EkwVerif.Frames

/-- a frame sequence no legal shape matches -/
def Malformed (fs : List Frame) : Prop := ∃ e, parse fs = .error e

/-- What may be on the wire / in a receive queue addressed to `dst` when malformed lists are
injected and rejected lists still acknowledge their leading Syn: genuine data frames, any Ack,
local messages, malformed lists. Genuine data frames come in both wire shapes (`dataFrames`). -/
def PktOkM (s : Sys) (dst : Nat) (fs : List Frame) : Prop :=
  (∃ a i m h, fs = dataFrames i a m ∧ (s.ep a).log i = some (h, m) ∧ (s.ep a).hosts0 h = some dst)
  ∨ (∃ i, fs = ackFrames i)
  ∨ (∃ m, fs = [Frame.msg (Msg.app m)] ∧ m ∈ (s.ep dst).locals)
  ∨ Malformed fs

/-- an accepted message is genuine (under a Syn: the message sent under it, in the form its wire
shape is parsed to — `bodyOf`) -/
def DelOkM (s : Sys) (b : Nat) (d : Delivery) : Prop :=
  (∃ i a h m, d = ⟨some (i, a), bodyOf m⟩ ∧ (s.ep a).log i = some (h, m) ∧
      (s.ep a).hosts0 h = some b)
  ∨ (∃ m, d = ⟨none, Parsed.msg (Msg.app m)⟩ ∧ m ∈ (s.ep b).locals)

/-- sender-side bookkeeping (independent of what arrives) -/
structure InvS (s : Sys) : Prop where
  log_lt : ∀ a i v, (s.ep a).log i = some v → i < (s.ep a).idx
  hosts_mono : ∀ a h, (s.ep a).hosts h = none ∨ (s.ep a).hosts h = (s.ep a).hosts0 h
  infl_rec : ∀ a i r, (s.ep a).inflight i = some r → i < (s.ep a).idx → (s.ep a).log i = some (r.host, r.msg)
  ghost : ∀ a i r, (s.ep a).inflight i = some r → (s.ep a).idx ≤ i → (s.ep a).hosts r.host = none

structure InvM (s : Sys) : Prop where
  sender : InvS s
  wire_net : ∀ p ∈ s.net, PktOkM s p.dst p.frames
  wire_inbox : ∀ b fs, fs ∈ (s.ep b).inbox → PktOkM s b fs
  del_ok : ∀ b d, d ∈ (s.ep b).delivered → DelOkM s b d

structure MonoM (s s' : Sys) : Prop where
  log : ∀ a i v, (s.ep a).log i = some v → (s'.ep a).log i = some v
  hosts0 : ∀ a, (s'.ep a).hosts0 = (s.ep a).hosts0
  locals : ∀ b m, m ∈ (s.ep b).locals → m ∈ (s'.ep b).locals

theorem PktOkM.mono {s s' : Sys} (h : MonoM s s') {dst : Nat} {fs : List Frame} (hp : PktOkM s dst fs) :
    PktOkM s' dst fs := by
  rcases hp with ⟨a, i, m, hh, rfl, hl, h0⟩ | ⟨i, rfl⟩ | ⟨m, rfl, hm⟩ | hb
  · exact Or.inl ⟨a, i, m, hh, rfl, h.log _ _ _ hl, by rw [h.hosts0]; exact h0⟩
  · exact Or.inr (Or.inl ⟨i, rfl⟩)
  · exact Or.inr (Or.inr (Or.inl ⟨m, rfl, h.locals _ _ hm⟩))
  · exact Or.inr (Or.inr (Or.inr hb))

theorem DelOkM.mono {s s' : Sys} (h : MonoM s s') {b : Nat} {d : Delivery} (hp : DelOkM s b d) : DelOkM s' b d := by
  rcases hp with ⟨i, a, hh, m, rfl, hl, h0⟩ | ⟨m, rfl, hm⟩
  · exact Or.inl ⟨i, a, hh, m, rfl, h.log _ _ _ hl, by rw [h.hosts0]; exact h0⟩
  · exact Or.inr ⟨m, rfl, h.locals _ _ hm⟩

/-- the three arrival-side conjuncts from "everything new is fine" -/
theorem InvM.of_frame {s s' : Sys} (h : InvM s) (hs : InvS s') (hm : MonoM s s')
    (hnet : ∀ p ∈ s'.net, p ∈ s.net ∨ PktOkM s' p.dst p.frames)
    (hinb : ∀ b fs, fs ∈ (s'.ep b).inbox → fs ∈ (s.ep b).inbox ∨ PktOkM s' b fs)
    (hdel : ∀ b d, d ∈ (s'.ep b).delivered → d ∈ (s.ep b).delivered ∨ DelOkM s' b d) : InvM s' := by
  refine ⟨hs, ?_, ?_, ?_⟩
  · intro p hp
    rcases hnet p hp with h1 | h1
    · exact (h.wire_net p h1).mono hm
    · exact h1
  · intro b fs hfs
    rcases hinb b fs hfs with h1 | h1
    · exact (h.wire_inbox b fs h1).mono hm
    · exact h1
  · intro b d hd
    rcases hdel b d hd with h1 | h1
    · exact (h.del_ok b d h1).mono hm
    · exact h1

/-- the step does not touch the sender-side fields nor `locals` -/
def SSame (s s' : Sys) : Prop := ∀ a,
  (s'.ep a).idx = (s.ep a).idx ∧ (s'.ep a).log = (s.ep a).log ∧ (s'.ep a).hosts = (s.ep a).hosts ∧
  (s'.ep a).hosts0 = (s.ep a).hosts0 ∧ (s'.ep a).inflight = (s.ep a).inflight ∧ (s'.ep a).locals = (s.ep a).locals

theorem InvS.of_same {s s' : Sys} (h : InvS s) (hs : SSame s s') : InvS s' := by
  constructor
  · intro a i v; obtain ⟨h1, h2, _, _, _, _⟩ := hs a; rw [h1, h2]; exact h.log_lt a i v
  · intro a hh; obtain ⟨_, _, h3, h4, _, _⟩ := hs a; rw [h3, h4]; exact h.hosts_mono a hh
  · intro a i r; obtain ⟨h1, h2, _, _, h5, _⟩ := hs a; rw [h1, h2, h5]; exact h.infl_rec a i r
  · intro a i r; obtain ⟨h1, _, h3, _, h5, _⟩ := hs a; rw [h1, h3, h5]; exact h.ghost a i r

theorem MonoM.of_same {s s' : Sys} (hs : SSame s s') : MonoM s s' := by
  constructor
  · intro a i v hv; obtain ⟨_, h2, _, _, _, _⟩ := hs a; rw [h2]; exact hv
  · intro a; exact (hs a).2.2.2.1
  · intro b m hm; obtain ⟨_, _, _, _, _, h6⟩ := hs b; rw [h6]; exact hm

theorem init_invM (maxRetries : Nat) (cfg : Nat → Nat × (Nat → Option Nat)) : InvM (init maxRetries cfg) := by
  refine ⟨⟨?_, ?_, ?_, ?_⟩, ?_, ?_, ?_⟩ <;> simp [init, mkEndpoint]

/-! steps that leave the sender side alone -/

theorem tick_invM {s : Sys} (h : InvM s) (a dt : Nat) : InvM (tick s a dt) := by
  have hs : SSame s (tick s a dt) := by intro b; simp [tick_ep]
  exact h.of_frame (h.sender.of_same hs) (MonoM.of_same hs) (fun p hp => Or.inl hp)
    (fun b fs hfs => Or.inl (by simpa [tick_ep] using hfs)) (fun b d hd => Or.inl (by simpa [tick_ep] using hd))

theorem drop_invM {s : Sys} (h : InvM s) (k : Nat) : InvM (drop s k) := by
  have hs : SSame s (drop s k) := by intro b; simp [drop]
  exact h.of_frame (h.sender.of_same hs) (MonoM.of_same hs)
    (fun p hp => Or.inl (List.mem_of_mem_eraseIdx (by simpa [drop] using hp)))
    (fun b fs hfs => Or.inl (by simpa [drop] using hfs)) (fun b d hd => Or.inl (by simpa [drop] using hd))

theorem arrive_invM {s : Sys} (h : InvM s) (p : Packet) (hp : PktOkM s p.dst p.frames) : InvM (arrive s p) := by
  have hs : SSame s (arrive s p) := by intro b; simp [arrive_ep]
  refine h.of_frame (h.sender.of_same hs) (MonoM.of_same hs) (fun q hq => Or.inl hq) ?_
    (fun b d hd => Or.inl (by simpa [arrive_ep] using hd))
  intro b fs hfs
  simp only [arrive_ep] at hfs
  split at hfs
  · rcases List.mem_append.mp hfs with h1 | h1
    · exact Or.inl h1
    · simp at h1; subst_vars; exact Or.inr (hp.mono (MonoM.of_same hs))
  · exact Or.inl hfs

theorem deliver_invM {s : Sys} (h : InvM s) (k : Nat) : InvM (deliver s k) := by
  unfold deliver
  split
  · exact h
  · rename_i p hp
    have hok := h.wire_net p (List.mem_of_getElem? hp)
    exact arrive_invM (s := { s with net := s.net.eraseIdx k }) (drop_invM h k) p hok

theorem dup_invM {s : Sys} (h : InvM s) (k : Nat) : InvM (dup s k) := by
  unfold dup
  split
  · exact h
  · rename_i p hp
    exact arrive_invM h p (h.wire_net p (List.mem_of_getElem? hp))

theorem inject_invM {s : Sys} (h : InvM s) (a : Nat) (fs : List Frame) (hb : Malformed fs) : InvM (inject s a fs) := by
  have hs : SSame s (inject s a fs) := by intro b; simp only [inject, setEp_ep]; split <;> simp_all
  refine h.of_frame (h.sender.of_same hs) (MonoM.of_same hs) (fun q hq => Or.inl hq) ?_ ?_
  · intro b gs hg
    simp only [inject, setEp_ep] at hg
    split at hg
    · subst_vars
      rcases List.mem_append.mp hg with h1 | h1
      · exact Or.inl h1
      · simp at h1; subst h1; exact Or.inr (Or.inr (Or.inr (Or.inr hb)))
    · exact Or.inl hg
  · intro b d hd
    simp only [inject, setEp_ep] at hd
    split at hd
    · subst_vars; exact Or.inl hd
    · exact Or.inl hd

theorem commit_invM {s : Sys} (h : InvM s) (a : Nat) : InvM (commit s a) := by
  have hs : SSame s (commit s a) := by intro b; simp [commit_ep]
  exact h.of_frame (h.sender.of_same hs) (MonoM.of_same hs) (fun p hp => Or.inl hp)
    (fun b fs hfs => Or.inl (by simpa [commit_ep] using hfs)) (fun b d hd => Or.inl (by simpa [commit_ep] using hd))

theorem abort_invM {s : Sys} (h : InvM s) (a : Nat) : InvM (abort s a) := by
  have hs : SSame s (abort s a) := by intro b; simp [abort_ep]
  exact h.of_frame (h.sender.of_same hs) (MonoM.of_same hs) (fun p hp => Or.inl hp)
    (fun b fs hfs => Or.inl (by simpa [abort_ep] using hfs)) (fun b d hd => Or.inl (by simpa [abort_ep] using hd))

theorem localMsg_invM {s : Sys} (h : InvM s) (a m : Nat) : InvM (localMsg s a m) := by
  have hsd : InvS (localMsg s a m) := by
    obtain ⟨h1, h2, h3, h4⟩ := h.sender
    constructor <;> simp only [localMsg_ep]
    · exact h1
    · exact h2
    · exact h3
    · exact h4
  have hm : MonoM s (localMsg s a m) := by
    constructor <;> simp only [localMsg_ep]
    · intro b i v hv; exact hv
    · intro b; trivial
    · intro b x hx; split
      · exact List.mem_append_left _ hx
      · exact hx
  refine h.of_frame hsd hm (fun p hp => Or.inl hp) ?_ (fun b d hd => Or.inl (by simpa [localMsg_ep] using hd))
  intro b fs hfs
  simp only [localMsg_ep] at hfs
  split at hfs
  · subst_vars
    rcases List.mem_append.mp hfs with h1 | h1
    · exact Or.inl h1
    · simp at h1; subst h1
      exact Or.inr (Or.inr (Or.inr (Or.inl ⟨m, rfl, by simp [localMsg_ep]⟩)))
  · exact Or.inl hfs

theorem popHost_invM {s : Sys} (h : InvM s) (a h0 : Nat) : InvM (popHost s a h0) := by
  have hsd : InvS (popHost s a h0) := by
    obtain ⟨h1, h2, h3, h4⟩ := h.sender
    constructor <;> simp only [popHost_ep]
    · exact h1
    · intro b hh; split
      · exact Or.inl rfl
      · exact h2 b hh
    · exact h3
    · intro b i r hr hi; split
      · rfl
      · exact h4 b i r hr hi
  have hm : MonoM s (popHost s a h0) := by
    constructor <;> simp only [popHost_ep] <;> intros <;> simp_all
  exact h.of_frame hsd hm (fun p hp => Or.inl hp)
    (fun b fs hfs => Or.inl (by simpa [popHost_ep] using hfs)) (fun b d hd => Or.inl (by simpa [popHost_ep] using hd))

/-! `send`, `maybe_retry`, `process` -/

theorem send_invM {s : Sys} (hi : InvM s) (a h m : Nat) : InvM (send s a h m) := by
  obtain ⟨h1, h2, h3, h4⟩ := hi.sender
  cases hh : (s.ep a).hosts h with
  | none =>
    have hsd : InvS (send s a h m) := by
      constructor <;> simp only [send_none_ep m hh]
      · exact h1
      · exact h2
      · intro b i r hr hlt; grind
      · intro b i r hr hle; grind
    have hm : MonoM s (send s a h m) := by
      constructor <;> simp only [send_none_ep m hh] <;> intros <;> simp_all
    exact hi.of_frame hsd hm (fun p hp => Or.inl (by simpa [send_none_net m hh] using hp))
      (fun b fs hfs => Or.inl (by simpa [send_none_ep m hh] using hfs))
      (fun b d hd => Or.inl (by simpa [send_none_ep m hh] using hd))
  | some d =>
    have hd0 : (s.ep a).hosts0 h = some d := by have := h2 a h; grind
    have hlognone : (s.ep a).log (s.ep a).idx = none := by
      cases hl : (s.ep a).log (s.ep a).idx with
      | none => rfl
      | some v => have := h1 a _ v hl; omega
    have hsd : InvS (send s a h m) := by
      constructor <;> simp only [send_some_ep m hh]
      · intro b i v hv; grind
      · exact h2
      · intro b i r hr hlt; grind
      · intro b i r hr hle; grind
    have hm : MonoM s (send s a h m) := by
      constructor <;> simp only [send_some_ep m hh]
      · intro b i v hv; grind
      · intro b; trivial
      · intro b x hx; exact hx
    refine hi.of_frame hsd hm ?_ (fun b fs hfs => Or.inl (by simpa [send_some_ep m hh] using hfs))
      (fun b d' hd' => Or.inl (by simpa [send_some_ep m hh] using hd'))
    intro p hp
    rw [send_some_net m hh] at hp
    rcases List.mem_append.mp hp with hp | hp
    · exact Or.inl hp
    · simp at hp; subst hp
      right; left
      refine ⟨a, (s.ep a).idx, m, h, rfl, ?_, ?_⟩
      · simp [send_some_ep m hh]
      · simp [send_some_ep m hh]; exact hd0

theorem retryOne_invM {s : Sys} (hi : InvM s) (a i : Nat) : InvM (retryOne s a i).1 := by
  rcases retryOne_cases s a i with h | ⟨r, d, hf⟩
  · rw [h]; exact hi
  · obtain ⟨h1, h2, h3, h4⟩ := hi.sender
    have hf' := hf
    obtain ⟨hr, hexp, hh⟩ := hf'
    have hlt : i < (s.ep a).idx := by
      rcases Nat.lt_or_ge i (s.ep a).idx with h | h
      · exact h
      · have := h4 a i r hr h; simp [this] at hh
    have hlog := h3 a i r hr hlt
    have hd0 : (s.ep a).hosts0 r.host = some d := by have := h2 a r.host; grind
    have hsd : InvS (retryOne s a i).1 := by
      constructor <;> simp only [retryOne_fire_ep hf]
      · exact h1
      · exact h2
      · intro b j r' hr' hj; grind
      · intro b j r' hr' hj; grind
    have hm : MonoM s (retryOne s a i).1 := by
      constructor <;> simp only [retryOne_fire_ep hf] <;> intros <;> simp_all
    refine hi.of_frame hsd hm ?_ (fun b fs hfs => Or.inl (by simpa [retryOne_fire_ep hf] using hfs))
      (fun b d' hd' => Or.inl (by simpa [retryOne_fire_ep hf] using hd'))
    intro p hp
    rw [retryOne_fire_net hf] at hp
    rcases List.mem_append.mp hp with hp | hp
    · exact Or.inl hp
    · simp at hp; subst hp
      right; left
      exact ⟨a, i, r.msg, r.host, rfl, by simp [retryOne_fire_ep hf]; exact hlog,
        by simp [retryOne_fire_ep hf]; exact hd0⟩

theorem retryList_invM {s : Sys} (hi : InvM s) (a : Nat) (l : List Nat) : InvM (retryList s a l) := by
  induction l generalizing s with
  | nil => exact hi
  | cons i is ih =>
    simp only [retryList]
    split
    · exact retryOne_invM hi a i
    · exact ih (retryOne_invM hi a i)

theorem process_invM {s : Sys} (hi : InvM s) (a : Nat) (feeds stage : Bool) : InvM (process s a feeds stage) := by
  cases hb : (s.ep a).batch with
  | nil => rw [process_empty feeds stage hb]; exact hi
  | cons d rest =>
    cases hd : d.isAck with
    | false =>
      have hs : SSame s (process s a feeds stage) := by intro b; simp [process_msg_ep feeds stage hb hd]
      exact hi.of_frame (hi.sender.of_same hs) (MonoM.of_same hs) (fun p hp => Or.inl hp)
        (fun b fs hfs => Or.inl (by simpa [process_msg_ep feeds stage hb hd] using hfs))
        (fun b d' hd' => Or.inl (by simpa [process_msg_ep feeds stage hb hd] using hd'))
    | true =>
      obtain ⟨sy, body⟩ := d
      have : ∃ i, body = Parsed.msg (Msg.ack i) := by
        cases body with
        | msg m => cases m with
          | ack i => exact ⟨i, rfl⟩
          | app m => simp [Delivery.isAck] at hd
        | payload h v => simp [Delivery.isAck] at hd
      obtain ⟨i, rfl⟩ := this
      obtain ⟨h1, h2, h3, h4⟩ := hi.sender
      have hsd : InvS (process s a feeds stage) := by
        constructor <;> simp only [process_ack_ep feeds stage hb]
        · exact h1
        · exact h2
        · intro b j r hr hj; split at hr
          · cases hr
          · exact h3 b j r hr hj
        · intro b j r hr hj; split at hr
          · cases hr
          · exact h4 b j r hr hj
      have hm : MonoM s (process s a feeds stage) := by
        constructor <;> simp only [process_ack_ep feeds stage hb] <;> intros <;> simp_all
      exact hi.of_frame hsd hm (fun p hp => Or.inl hp)
        (fun b fs hfs => Or.inl (by simpa [process_ack_ep feeds stage hb] using hfs))
        (fun b d' hd' => Or.inl (by simpa [process_ack_ep feeds stage hb] using hd'))

/-! `collect` on whatever is at the head of the queue -/

theorem collect_ssame (s : Sys) (b : Nat) : SSame s (collect s b) := by
  intro a
  cases hin : (s.ep b).inbox with
  | nil => rw [collect_empty hin]; exact ⟨rfl, rfl, rfl, rfl, rfl, rfl⟩
  | cons fs rest =>
    by_cases hab : a = b
    · subst hab
      simp only [collect, hin, setEp_ep, ↓reduceIte]
      cases hres : (recvOne (s.ep a).acked fs).res with
      | error e => exact ⟨rfl, rfl, rfl, rfl, rfl, rfl⟩
      | ok o =>
        cases o with
        | none => exact ⟨rfl, rfl, rfl, rfl, rfl, rfl⟩
        | some p => exact ⟨rfl, rfl, rfl, rfl, rfl, rfl⟩
    · rw [collect_ep_other s hab]; exact ⟨rfl, rfl, rfl, rfl, rfl, rfl⟩

theorem collect_net_cases (s : Sys) (b : Nat) :
    (collect s b).net = s.net ∨ ∃ ad i, (collect s b).net = s.net ++ [⟨ad, ackFrames i⟩] := by
  cases hin : (s.ep b).inbox with
  | nil => rw [collect_empty hin]; exact Or.inl rfl
  | cons fs rest =>
    simp only [collect, hin]
    cases (recvOne (s.ep b).acked fs).ack with
    | none => exact Or.inl rfl
    | some x => exact Or.inr ⟨x.1, x.2, rfl⟩

theorem collect_inbox (s : Sys) (b c : Nat) : ∀ fs, fs ∈ ((collect s b).ep c).inbox → fs ∈ (s.ep c).inbox := by
  intro gs hg
  cases hin : (s.ep b).inbox with
  | nil => rw [collect_empty hin] at hg; exact hg
  | cons fs rest =>
    by_cases hcb : c = b
    · subst hcb
      simp only [collect, hin, setEp_ep, ↓reduceIte] at hg
      have : gs ∈ rest := by
        cases hres : (recvOne (s.ep c).acked fs).res with
        | error e => simpa [hres, abortEp] using hg
        | ok o =>
          cases o with
          | none => simpa [hres] using hg
          | some p => simpa [hres] using hg
      rw [hin]; exact List.mem_cons_of_mem _ this
    · rw [collect_ep_other s hcb] at hg; exact hg

theorem collect_invM {s : Sys} (hi : InvM s) (b : Nat) : InvM (collect s b) := by
  have hs := collect_ssame s b
  have hm := MonoM.of_same hs
  refine hi.of_frame (hi.sender.of_same hs) hm ?_ (fun c fs hfs => Or.inl (collect_inbox s b c fs hfs)) ?_
  · intro p hp
    rcases collect_net_cases s b with h | ⟨ad, i, h⟩
    · rw [h] at hp; exact Or.inl hp
    · rw [h] at hp
      rcases List.mem_append.mp hp with hp | hp
      · exact Or.inl hp
      · simp at hp; subst hp; exact Or.inr (Or.inr (Or.inl ⟨i, rfl⟩))
  · intro c d hd
    cases hin : (s.ep b).inbox with
    | nil => rw [collect_empty hin] at hd; exact Or.inl hd
    | cons fs rest =>
      by_cases hcb : c = b
      · subst hcb
        rw [(collect_listener hin).2] at hd
        cases hres : (recvOne (s.ep c).acked fs).res with
        | error e => rw [hres] at hd; exact Or.inl hd
        | ok o =>
          cases o with
          | none => rw [hres] at hd; exact Or.inl hd
          | some p =>
            rw [hres] at hd
            simp only at hd
            split at hd
            · exact Or.inl hd
            · rename_i hnotack
              rcases List.mem_append.mp hd with hd | hd
              · exact Or.inl hd
              · right
                simp at hd; subst hd
                -- the accepted message comes from a legal shape; which one, by what may be queued
                obtain ⟨syn, hleg, hfresh⟩ := (recv_some_iff (s.ep c).acked fs p).mp hres
                have hok := hi.wire_inbox c fs (by rw [hin]; exact List.mem_cons_self)
                rcases hok with ⟨a, i, m, h, rfl, hl, h0⟩ | ⟨i, rfl⟩ | ⟨m, rfl, hmem⟩ | ⟨e, he⟩
                · -- genuine data frame
                  have hp : p = bodyOf m ∧ (recvOne (s.ep c).acked (dataFrames i a m)).mark = some (i, a) := by
                    rw [recvOne_dataFrames] at hres ⊢
                    cases hack : (s.ep c).acked i a with
                    | true => simp [hack] at hres
                    | false =>
                      simp [hack] at hres ⊢
                      exact hres.symm
                  rw [hp.1, hp.2]
                  exact (DelOkM.mono hm (Or.inl ⟨i, a, h, m, rfl, hl, h0⟩))
                · -- an Ack is not owed to the application
                  simp [recvOne, ackFrames, parseBody, Except.map] at hres
                  subst hres
                  simp [Delivery.isAck, ackFrames] at hnotack
                · have hp : p = Parsed.msg (Msg.app m) ∧ (recvOne (s.ep c).acked [Frame.msg (Msg.app m)]).mark = none := by
                    simp [recvOne, parseBody, Except.map] at hres ⊢
                    exact hres.symm
                  rw [hp.1, hp.2]
                  exact (DelOkM.mono hm (Or.inr ⟨m, rfl, hmem⟩))
                · -- malformed: never accepted
                  have := (parse_iff fs syn p).mpr hleg
                  rw [he] at this; cases this
      · rw [collect_ep_other s hcb] at hd; exact Or.inl hd

theorem step_invM {s : Sys} (h : InvM s) (op : Op) : InvM (step s op) := by
  cases op with
  | send a h' m => exact send_invM h a h' m
  | localMsg a m => exact localMsg_invM h a m
  | drop k => exact drop_invM h k
  | deliver k => exact deliver_invM h k
  | dup k => exact dup_invM h k
  | collect a => exact collect_invM h a
  | process a f st => exact process_invM h a f st
  | commit a => exact commit_invM h a
  | abort a => exact abort_invM h a
  | retry a => exact retryList_invM h a _
  | tick a dt => exact tick_invM h a dt
  | popHost a h' => exact popHost_invM h a h'

/-- histories in which only MALFORMED frame lists are injected -/
def OnlyMalformed (ops : List OpF) : Prop := ∀ a fs, OpF.inject a fs ∈ ops → Malformed fs

theorem runF_invM {s : Sys} (h : InvM s) (ops : List OpF) (hops : OnlyMalformed ops) : InvM (runF s ops) := by
  induction ops generalizing s with
  | nil => exact h
  | cons op ops ih =>
    have hrest : OnlyMalformed ops := fun a fs hm => hops a fs (List.mem_cons_of_mem _ hm)
    cases op with
    | op o => exact ih (step_invM h o) hrest
    | inject a fs => exact ih (inject_invM h a fs (hops a fs (by simp))) hrest

end EkwVerif.Ack
