/-
"No idle wait" (C03), part A: two invariants of the base system that hold for ANY order of event delivery.

* `sI_W1` — an output notice of a task that has run and is still in flight is on its way to the controller (pending
  in the environment or in the inbox); a corollary of Tier P and Tier L (`sI_W1_of`);
* `sI_W2` — every input of a queued task is on the task's host or an outstanding transfer will bring it there.

Both were validated on random walks of the executable model (≈ 530 000 states, FIFO and any-order; W1 in its present
form on 160 000 more) before being proved. Part B (`SchedIdleB.lean`) has the fetch pipeline and the phase facts, `SchedIdle.lean` the theorems.
-/
import EkwVerif.Lemmas.SchedBound

set_option linter.unusedVariables false
set_option linter.unusedSimpArgs false

namespace EkwVerif.Ctrl

/-! ### generic facts about steps -/

/-- no step is enabled in a crashed state -/
theorem sI_step_not_crashed (f : Sem) (j : Job) (cl : Cluster) (s s' : Sys) (st : Step)
    (hs : step f j cl s st = some s') : s.phase ≠ .crashed := by
  intro hc
  cases st <;> first
    | (have := sB_enabled f j cl s s' _ _ rfl hs; rw [hc] at this; cases this)
    | exact (sB_env_step f j cl s s' _ hs).2.1 hc

/-- the steps that only move the program counter -/
def sI_ctrlOnly : Step → Bool
  | .enter => true
  | .endAssign => true
  | .endPlan => true
  | .endFlushF => true
  | .endFlush => true
  | .endNotify => true
  | _ => false

theorem sI_ctrl_step (f : Sem) (j : Job) (cl : Cluster) (s s' : Sys) (st : Step) (h1 : Inv1 cl s)
    (hc : sI_ctrlOnly st = true) (hs : step f j cl s st = some s') :
    s'.ctl = s.ctl ∧ s'.env = s.env ∧ s'.inbox = s.inbox ∧ s'.todo = s.todo := by
  cases st with
  | enter =>
    simp only [step] at hs
    split at hs; · cases hs
    rename_i hc0
    have hp : s.phase = .top := by simpa using hc0
    have ht : s.todo = [] := h1.todo_phase (by simp [hp]) (by simp [hp]) (by simp [hp])
    split at hs <;> (cases hs; exact ⟨rfl, rfl, rfl, by simp [ht]⟩)
  | endAssign => simp only [step] at hs; split at hs; · cases hs
                 cases hs; exact ⟨rfl, rfl, rfl, rfl⟩
  | endPlan => simp only [step] at hs; split at hs; · cases hs
               cases hs; exact ⟨rfl, rfl, rfl, rfl⟩
  | endFlushF => simp only [step] at hs; split at hs; · cases hs
                 cases hs; exact ⟨rfl, rfl, rfl, rfl⟩
  | endFlush => simp only [step] at hs; split at hs; · cases hs
                cases hs; exact ⟨rfl, rfl, rfl, rfl⟩
  | endNotify => simp only [step] at hs; split at hs; · cases hs
                 cases hs; exact ⟨rfl, rfl, rfl, rfl⟩
  | assign a => simp [sI_ctrlOnly] at hc
  | plan1 => simp [sI_ctrlOnly] at hc
  | flushF1 => simp [sI_ctrlOnly] at hc
  | flushP1 => simp [sI_ctrlOnly] at hc
  | recv evs => simp [sI_ctrlOnly] at hc
  | notify1 => simp [sI_ctrlOnly] at hc
  | env es => simp [sI_ctrlOnly] at hc

theorem sI_nodup_of_map {α β : Type} (g : α → β) : ∀ l : List α, (l.map g).Nodup → l.Nodup
  | [], _ => List.nodup_nil
  | a :: l, h => by
    simp only [List.map_cons, List.nodup_cons] at h ⊢
    exact ⟨fun ha => h.1 (List.mem_map.mpr ⟨a, ha, rfl⟩), sI_nodup_of_map g l h.2⟩

theorem sI_ongoing_nodup {j : Job} {s : Sys} (h : Inv2X j s) : s.ctl.ongoing.Nodup :=
  (List.nodup_append.mp (sI_nodup_of_map _ _ h.flight_unique)).1

theorem sI_inbound_iff (e : Env) (ds : Ds) (h : Host) :
    inboundTransmit e ds h = true ↔ ∃ src, IO.transmit ds src h ∈ e.outstanding := by
  simp only [inboundTransmit, List.any_eq_true]
  constructor
  · rintro ⟨o, ho, hm⟩
    cases o with
    | transmit d s t =>
      simp only [Bool.and_eq_true, beq_iff_eq] at hm
      obtain ⟨rfl, rfl⟩ := hm
      exact ⟨s, ho⟩
    | fetch d s => simp at hm
  · rintro ⟨src, ho⟩
    exact ⟨_, ho, by simp⟩

theorem sI_mem_consumers (j : Job) (ds : Ds) (t : Task) (ht : t < j.tasks.length) (hd : ds ∈ j.inputs t) :
    t ∈ j.consumers ds := by
  simp only [Job.consumers, Job.taskIds, List.mem_filter, List.mem_range, List.contains_iff_mem]
  exact ⟨ht, hd⟩

/-! ### commands -/

theorem sI_applyCmd_mono (j : Job) (cl : Cluster) (e : Env) (cmd : Cmd) :
    (∀ q, q ∈ e.queued → q ∈ (applyCmd j cl e cmd).queued) ∧
    (∀ o, o ∈ e.outstanding → o ∈ (applyCmd j cl e cmd).outstanding) := by
  cases cmd with
  | transmit ds a b => exact ⟨fun q h => by simpa [applyCmd] using h, fun o h => by simp [applyCmd, h]⟩
  | taskSeq w t pb => exact ⟨fun q h => by simp [applyCmd, h], fun o h => by simpa [applyCmd] using h⟩
  | fetch ds a => exact ⟨fun q h => by simpa [applyCmd] using h, fun o h => by simp [applyCmd, h]⟩
  | purge a ds => exact ⟨fun q h => by simpa [applyCmd] using h, fun o h => by simpa [applyCmd] using h⟩

theorem sI_applyCmds_mono (j : Job) (cl : Cluster) (cmds : List Cmd) (e : Env) :
    (∀ q, q ∈ e.queued → q ∈ (applyCmds j cl e cmds).queued) ∧
    (∀ o, o ∈ e.outstanding → o ∈ (applyCmds j cl e cmds).outstanding) := by
  induction cmds generalizing e with
  | nil => exact ⟨fun q h => h, fun o h => h⟩
  | cons c cs ih =>
    have h1 := sI_applyCmd_mono j cl e c
    have h2 := ih (applyCmd j cl e c)
    simp only [applyCmds, List.foldl_cons] at h2 ⊢
    exact ⟨fun q h => h2.1 q (h1.1 q h), fun o h => h2.2 o (h1.2 o h)⟩

/-- the commands of one assignment: transfers first (they do not touch `queued`/`present`), then the task sequence -/
theorem sI_act_env (j : Job) (cl : Cluster) (e : Env) (a : Asg) (prep : List (Ds × Host)) :
    ∃ e1, applyCmds j cl e (actCmds j a prep) = applyCmd j cl e1 (.taskSeq a.worker a.task (asgOutputs j a.task)) ∧
      e1.queued = e.queued ∧ e1.present = e.present ∧ (∀ o, o ∈ e.outstanding → o ∈ e1.outstanding) := by
  refine ⟨applyCmds j cl e ((prep.filter (fun p => p.2 != a.worker.host)).map (fun p => Cmd.transmit p.1 p.2 a.worker.host)),
    by simp [applyCmds, actCmds, List.foldl_append], ?_, ?_, ?_⟩
  · refine (i2a_applyCmds_transmits j cl _ e ?_).2.2.2.1
    intro cmd hm
    simp only [List.mem_map] at hm
    obtain ⟨p, _, rfl⟩ := hm
    exact ⟨_, _, _, rfl⟩
  · refine (i3_applyCmds_other j cl _ e ?_).1
    intro cmd hm
    simp only [List.mem_map] at hm
    obtain ⟨p, _, rfl⟩ := hm
    exact Or.inl ⟨_, _, _, rfl⟩
  · exact (sI_applyCmds_mono j cl _ e).2

/-! ### environment steps -/

theorem sI_envStep_run (f : Sem) (j : Job) (e e' : Env) (w : Worker) (t : Task)
    (h : envStep f j e (.run w t) = some e') :
    e'.outstanding = e.outstanding ∧ (∀ h' ds, (e.present h' ds).isSome = true → (e'.present h' ds).isSome = true) := by
  simp only [envStep] at h
  split at h
  · cases h
    refine ⟨(publishOutputs_frame f j w t _ _).2.2.2.1, ?_⟩
    intro h' ds hp
    unfold publishOutputs
    rw [i3_publishOutputs_present]
    split
    · rfl
    · exact hp
  · cases h

/-- what performing the `i`-th outstanding transfer/fetch does -/
theorem sI_envStep_io (f : Sem) (j : Job) (e e' : Env) (i : Nat) (h : envStep f j e (.io i) = some e') :
    ∃ o, e.outstanding[i]? = some o ∧ e'.outstanding = e.outstanding.eraseIdx i ∧ e'.queued = e.queued ∧ e'.ran = e.ran ∧
      (∀ ev, ev ∈ e.pending → ev ∈ e'.pending) ∧
      (∀ h' ds, (e.present h' ds).isSome = true → (e'.present h' ds).isSome = true) ∧
      (∀ ds src tgt, o = .transmit ds src tgt → (e.present src ds).isSome = true → (e'.present tgt ds).isSome = true) ∧
      (∀ ds src v, o = .fetch ds src → e.present src ds = some v → Event.payload ds v ∈ e'.pending) := by
  simp only [envStep] at h
  split at h
  · cases h
  · rename_i o ho
    refine ⟨o, ho, ?_⟩
    cases o with
    | transmit ds src tgt =>
      dsimp only at h
      split at h
      · rename_i hnone
        cases h
        refine ⟨by simp, by simp, by simp, fun ev hev => by simpa using hev, fun h' d hp => by simpa using hp, ?_, ?_⟩
        · intro d a b ho hp
          cases ho
          rw [hnone] at hp; cases hp
        · intro d a v ho; cases ho
      · rename_i v hv
        split at h
        · rename_i htg
          cases h
          refine ⟨rfl, rfl, rfl, fun ev hev => hev, fun h' d hp => hp, ?_, ?_⟩
          · intro d a b ho hp
            cases ho
            exact htg
          · intro d a v ho; cases ho
        · cases h
          refine ⟨rfl, rfl, rfl, fun ev hev => by simp [hev], ?_, ?_, ?_⟩
          · intro h' d hp
            simp only
            by_cases hh : h' = tgt
            · subst hh
              by_cases hd : d = ds
              · subst hd; simp
              · simp [upd, hd]; exact hp
            · simp [upd, hh]; exact hp
          · intro d a b ho hp
            cases ho
            simp
          · intro d a v ho; cases ho
    | fetch ds src =>
      dsimp only at h
      split at h
      · rename_i hnone
        cases h
        refine ⟨by simp, by simp, by simp, fun ev hev => by simpa using hev, fun h' d hp => by simpa using hp, ?_, ?_⟩
        · intro d a b ho; cases ho
        · intro d a v ho hp
          cases ho
          rw [hnone] at hp; cases hp
      · rename_i v hv
        cases h
        refine ⟨rfl, rfl, rfl, fun ev hev => by simp [hev], fun h' d hp => hp, ?_, ?_⟩
        · intro d a b ho; cases ho
        · intro d a v' ho hp
          cases ho
          rw [hv] at hp
          cases hp
          simp

/-! ### W1: a notice of a task in flight that has run is on its way -/

/-- a task that has run and is still in flight has an output notice on its way to the controller (in the environment
or in the inbox) — not necessarily the LAST output's: the notices may arrive in any order and the task stays in flight
until all of them have been processed -/
def sI_W1 (j : Job) (s : Sys) : Prop :=
  ∀ w t, s.inFlight w t → s.env.ran t = true → ∃ k, k < j.nOut t ∧ Event.pubW w ⟨t, k⟩ ∈ s.allEv

/-- W1 follows from the base invariant (Tier P: completion ⇔ all notices processed) and Tier L (no notice is lost) -/
theorem sI_W1_of (f : Sem) (j : Job) (cl : Cluster) (s : Sys) (hA : InvAll f j cl s) (hL : InvLive j cl s) :
    sI_W1 j s := by
  intro w t hf hran
  have hlt := hA.h2.flight_valid w t hf
  have hnd := hA.h2.flight_not_done w t hf
  have hiff := hA.hP.done_iff t hlt
  have hex : ∃ k, k < j.nOut t ∧ s.ctl.published ⟨t, k⟩ = false := by
    apply Classical.byContradiction
    intro hno
    have hall : ∀ k, k < j.nOut t → s.ctl.published ⟨t, k⟩ = true := by
      intro k hk
      cases hp : s.ctl.published ⟨t, k⟩ with
      | true => rfl
      | false => exact absurd ⟨k, hk, hp⟩ hno
    have := hiff.mpr hall
    rw [hnd] at this; cases this
  obtain ⟨k, hk, hp⟩ := hex
  rcases hL.notice t hran k hk with h | ⟨w', h⟩
  · rw [hp] at h; cases h
  · have hf' := hA.h2.ev_flight w' ⟨t, k⟩ h
    have hww : w' = w := hA.h2x.uniq w' w t hf' hf
    subst hww
    exact ⟨k, hk, h⟩

theorem sI_W1_reachable (f : Sem) (j : Job) (cl : Cluster) (wf : WF j cl) (s : Sys) (hr : Reachable f j cl s) :
    sI_W1 j s :=
  sI_W1_of f j cl s (invAll_reachable f j cl wf s hr) (sL_reachable f j cl wf s hr)

/-! ### W2: the inputs of a queued task are present on its host or in transfer to it -/

def sI_W2 (j : Job) (s : Sys) : Prop :=
  ∀ w t, (w, t) ∈ s.env.queued → ∀ ds, ds ∈ j.inputs t →
    (s.env.present w.host ds).isSome = true ∨ inboundTransmit s.env ds w.host = true

theorem sI_W2_mono {j : Job} {s s' : Sys} (h : sI_W2 j s) (hq : ∀ q, q ∈ s'.env.queued → q ∈ s.env.queued)
    (hp : ∀ h' ds, (s.env.present h' ds).isSome = true → (s'.env.present h' ds).isSome = true)
    (ho : ∀ o, o ∈ s.env.outstanding → o ∈ s'.env.outstanding) : sI_W2 j s' := by
  intro w t hq' ds hds
  rcases h w t (hq _ hq') ds hds with h1 | h1
  · exact Or.inl (hp _ _ h1)
  · right
    rw [sI_inbound_iff] at h1 ⊢
    obtain ⟨src, hs⟩ := h1
    exact ⟨src, ho _ hs⟩

theorem sI_W2_init (j : Job) (cl : Cluster) : sI_W2 j (Sys.init j cl) := by
  intro w t hq
  simp [Sys.init, Env.init] at hq

theorem sI_W2_step (f : Sem) (j : Job) (cl : Cluster) (s s' : Sys) (st : Step) (wf : WF j cl)
    (hA : InvAll f j cl s) (h : sI_W2 j s) (hs : step f j cl s st = some s') (hnc : s'.phase ≠ .crashed) :
    sI_W2 j s' := by
  have hA' := invAll_step f j cl s s' st wf hA hs
  by_cases hc : sI_ctrlOnly st = true
  · obtain ⟨e1, e2, e3, e4⟩ := sI_ctrl_step f j cl s s' st hA.h1 hc hs
    exact sI_W2_mono h (by rw [e2]; exact fun q hq => hq) (by rw [e2]; exact fun _ _ hp => hp) (by rw [e2]; exact fun o ho => ho)
  cases st with
  | enter => simp [sI_ctrlOnly] at hc
  | endAssign => simp [sI_ctrlOnly] at hc
  | endPlan => simp [sI_ctrlOnly] at hc
  | endFlushF => simp [sI_ctrlOnly] at hc
  | endFlush => simp [sI_ctrlOnly] at hc
  | endNotify => simp [sI_ctrlOnly] at hc
  | assign a =>
    simp only [step] at hs
    split at hs; · cases hs
    split at hs
    · cases hs
    · cases hs; exact (hnc rfl).elim
    · rename_i c prep hr
      cases hs
      obtain ⟨e1, hsplit, hq1, hp1, ho1⟩ := sI_act_env j cl s.env a prep
      have hv : "C02 input-neither-present-nor-in-transfer" ∉ (applyCmd j cl e1 (.taskSeq a.worker a.task (asgOutputs j a.task))).viol := by
        rw [← hsplit]; exact hA'.h4.no_input_absent
      rw [mem_viol_taskSeq] at hv
      have hall : (j.inputs a.task).all (fun d => (e1.present a.worker.host d).isSome || inboundTransmit e1 d a.worker.host) = true := by
        cases hall : (j.inputs a.task).all (fun d => (e1.present a.worker.host d).isSome || inboundTransmit e1 d a.worker.host) with
        | true => rfl
        | false => exact (hv (Or.inr (Or.inr (Or.inr (Or.inr (Or.inr (Or.inr (Or.inr ⟨hall, rfl⟩)))))))).elim
      rw [List.all_eq_true] at hall
      intro w t hq ds hds
      simp only [hsplit] at hq ⊢
      have hq' : (w, t) ∈ e1.queued ++ [(a.worker, a.task)] := by simpa [applyCmd] using hq
      have hpr : (applyCmd j cl e1 (.taskSeq a.worker a.task (asgOutputs j a.task))).present = e1.present := by simp [applyCmd]
      have hou : (applyCmd j cl e1 (.taskSeq a.worker a.task (asgOutputs j a.task))).outstanding = e1.outstanding := by simp [applyCmd]
      have key : (e1.present w.host ds).isSome = true ∨ inboundTransmit e1 ds w.host = true := by
        rcases List.mem_append.mp hq' with hq' | hq'
        · rw [hq1] at hq'
          rcases h w t hq' ds hds with h1 | h1
          · left; rw [hp1]; exact h1
          · right
            rw [sI_inbound_iff] at h1 ⊢
            obtain ⟨src, hs⟩ := h1
            exact ⟨src, ho1 _ hs⟩
        · simp only [List.mem_singleton] at hq'
          obtain ⟨rfl, rfl⟩ := Prod.mk.inj hq'
          have := hall ds hds
          simpa using this
      rcases key with k | k
      · left; rw [hpr]; exact k
      · right
        rw [sI_inbound_iff] at k ⊢
        rw [hou]; exact k
  | plan1 =>
    simp only [step] at hs
    split at hs; · cases hs
    split at hs; · cases hs
    split at hs
    · cases hs
    · cases hs; exact (hnc rfl).elim
    · cases hs
      exact sI_W2_mono h (fun q hq => hq) (fun _ _ hp => hp) (fun o ho => ho)
  | flushF1 =>
    simp only [step] at hs
    split at hs; · cases hs
    split at hs; · cases hs
    cases hs
    refine sI_W2_mono h ?_ ?_ ?_
    · intro q hq; simpa [applyCmd] using hq
    · intro h' ds hp; simpa [applyCmd] using hp
    · intro o ho; simp [applyCmd, ho]
  | flushP1 =>
    simp only [step] at hs
    split at hs; · cases hs
    split at hs; · cases hs
    rename_i ds0 rest hpq
    split at hs
    · cases hs
    · cases hs; exact (hnc rfl).elim
    · rename_i c cmds hr
      cases hs
      have hcm := purgeHosts_cmds cl ds0 cl.hosts s.ctl c cmds hr
      obtain ⟨ho, _, _, hpo, _, _⟩ := i3_applyCmds_purge j cl ds0 cmds s.env hcm
      have hqq := (applyCmds_notTask j cl cmds s.env (by
        intro cmd hm w t pb he
        obtain ⟨h', rfl⟩ := hcm cmd hm
        cases he)).1
      intro w t hq' ds hds
      simp only [hqq] at hq'
      have hfl := hA.h1.queued_flight w t hq'
      have hne : ds ≠ ds0 := by
        intro he
        subst he
        have hd := (hA.h2.purgeQ_ok ds (by rw [hpq]; simp)).1 t
          (sI_mem_consumers j ds t (hA.h2.flight_valid w t hfl) hds)
        have := hA.h2.flight_not_done w t hfl
        rw [this] at hd
        cases hd
      rcases h w t hq' ds hds with h1 | h1
      · left
        simp only [hpo _ _ hne]
        exact h1
      · right
        rw [sI_inbound_iff] at h1 ⊢
        simp only [ho]
        exact h1
  | recv evs =>
    simp only [step] at hs
    split at hs; · cases hs
    split at hs; · cases hs
    rename_i pend hte
    cases hs
    obtain ⟨hq, _, _, _, _, hpr, hou, _⟩ := i2b_markDelivered_frame evs { s.env with pending := pend }
    refine sI_W2_mono h ?_ ?_ ?_
    · intro q hq'; simpa [hq] using hq'
    · intro h' ds hp; simpa [hpr] using hp
    · intro o ho; simpa [hou] using ho
  | notify1 =>
    simp only [step] at hs
    split at hs; · cases hs
    split at hs; · cases hs
    split at hs
    · cases hs
    · cases hs; exact (hnc rfl).elim
    · cases hs
      exact sI_W2_mono h (fun q hq => hq) (fun _ _ hp => hp) (fun o ho => ho)
  | env es =>
    simp only [step] at hs
    split at hs; · cases hs
    rw [envStepP_eq f j s.env es hA.h1.no_trim] at hs
    cases he : envStep f j s.env es with
    | none => simp [he] at hs
    | some e =>
      simp only [he, Option.map_some, Option.some.injEq] at hs
      subst hs
      cases es with
      | run w0 t0 =>
        obtain ⟨_, hq, _⟩ := i2a_envStep_run f j s.env e w0 t0 he
        obtain ⟨hou, hpm⟩ := sI_envStep_run f j s.env e w0 t0 he
        refine sI_W2_mono h ?_ hpm ?_
        · intro q hq'
          simp only [hq] at hq'
          exact List.mem_of_mem_erase hq'
        · intro o ho; simpa [hou] using ho
      | io i =>
        obtain ⟨o, hoi, hou, hq, _, _, hpm, htx, _⟩ := sI_envStep_io f j s.env e i he
        intro w t hq' ds hds
        simp only [hq] at hq'
        rcases h w t hq' ds hds with h1 | h1
        · exact Or.inl (hpm _ _ h1)
        · rw [sI_inbound_iff] at h1
          obtain ⟨src, hsrc⟩ := h1
          by_cases hoo : IO.transmit ds src w.host = o
          · left
            have hsp := (hA.h4.transmit_out ds src w.host hsrc).1
            exact htx ds src w.host hoo.symm hsp
          · right
            rw [sI_inbound_iff]
            refine ⟨src, ?_⟩
            simp only [hou]
            exact i3_mem_eraseIdx_of_ne _ i o _ hoi hsrc hoo

end EkwVerif.Ctrl
