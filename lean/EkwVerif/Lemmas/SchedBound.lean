/-
Bounded number of scheduling rounds (C03): for ANY order and batching of events the controller loop of
`controller.impl.run` performs at most `roundBound j` iterations (`sB_rounds_bounded`).

Proof: the potential `sB_phi` (SchedBoundA/B) is never increased by a step and is decreased by every
successful `assign` and every `recv`. A ghost bit `paid` ("an assign or a recv has happened since the
last `endFlush`") is threaded along executions (`sB_Run`); `rounds + sB_phi + paid ≤ roundBound` is
invariant provided `endFlush` is only taken with `paid = true`. That is the content of the phase
invariant `sB_Unpaid`: with `paid = false` the controller is waiting, or at the top of the loop with
nothing awaitable, or inside an `assign()` entered from such a state with something computable — which
is exactly the situation of the progress theorem (`sP_Good`), so `endAssign` is not enabled before an
assignment has been made.
-/
import EkwVerif.Lemmas.SchedBoundB

set_option linter.unusedVariables false

namespace EkwVerif.Ctrl

/-! ### the ghost bit -/

/-- `paid` after a step: set by a successful `assign` and by `recv`, cleared by `endFlush` -/
def sB_paidNext (paid : Bool) (x' : SysX) : StepX → Bool
  | .base (.assign _) => if x'.sys.phase == .crashed then paid else true
  | .base (.recv _) => true
  | .base .endFlush => false
  | _ => paid

/-- executions (any event order) together with the ghost bit -/
inductive sB_Run (f : Sem) (j : Job) (cl : Cluster) (cm : Comps) : SysX → Bool → Prop
  | init : sB_Run f j cl cm (SysX.init j cl cm) true
  | step (x x' : SysX) (st : StepX) (paid : Bool) : sB_Run f j cl cm x paid →
      stepX f j cl cm x st = some x' → sB_Run f j cl cm x' (sB_paidNext paid x' st)

theorem sB_run_of_reachable (f : Sem) (j : Job) (cl : Cluster) (cm : Comps) (x : SysX)
    (hr : ReachableX f j cl cm x) : ∃ paid, sB_Run f j cl cm x paid := by
  induction hr with
  | init => exact ⟨true, sB_Run.init⟩
  | step x x' st _ hs ih =>
    obtain ⟨paid, hp⟩ := ih
    exact ⟨_, sB_Run.step x x' st paid hp hs⟩

theorem sB_reachable_of_run (f : Sem) (j : Job) (cl : Cluster) (cm : Comps) (x : SysX) (paid : Bool)
    (hr : sB_Run f j cl cm x paid) : ReachableX f j cl cm x := by
  induction hr with
  | init => exact ReachableX.init
  | step x x' st paid _ hs ih => exact ReachableX.step x x' st ih hs

/-! ### which base steps are enabled in which phase -/

def sB_stepPhase : Step → Option Phase
  | .enter => some .top
  | .assign _ => some .assigning
  | .endAssign => some .assigning
  | .plan1 => some .planning
  | .endPlan => some .planning
  | .flushF1 => some .flushF
  | .endFlushF => some .flushF
  | .flushP1 => some .flushP
  | .endFlush => some .flushP
  | .recv _ => some .waiting
  | .notify1 => some .notifying
  | .endNotify => some .notifying
  | .env _ => none

theorem sB_enabled (f : Sem) (j : Job) (cl : Cluster) (s s' : Sys) (st : Step) (p : Phase)
    (hp : sB_stepPhase st = some p) (hs : step f j cl s st = some s') : s.phase = p := by
  cases st <;> simp only [sB_stepPhase, Option.some.injEq, reduceCtorEq] at hp <;> subst hp <;> (
    simp only [step] at hs
    split at hs
    · cases hs
    · rename_i hc
      simp only [bne_iff_ne, ne_eq, Bool.or_eq_true, not_or, Decidable.not_not] at hc
      first | exact hc | exact hc.1)

theorem sB_env_step (f : Sem) (j : Job) (cl : Cluster) (s s' : Sys) (es : EnvStep)
    (hs : step f j cl s (.env es) = some s') :
    s.phase ≠ .finished ∧ s.phase ≠ .crashed ∧ s'.phase = s.phase ∧ s'.ctl = s.ctl ∧ s'.todo = s.todo := by
  simp only [step] at hs
  split at hs
  · cases hs
  rename_i hc
  simp only [Bool.or_eq_true, beq_iff_eq, not_or] at hc
  cases he : envStepP f j s.env es with
  | none => simp [he] at hs
  | some e =>
    simp only [he, Option.map_some, Option.some.injEq] at hs
    subst hs
    exact ⟨hc.1, hc.2, rfl, rfl, rfl⟩

/-! ### the phase invariant for `paid = false` -/

/-- where the controller can be when neither an assignment nor a `recv` has happened since the last `endFlush` -/
def sB_Unpaid (j : Job) (cl : Cluster) (cm : Comps) (x : SysX) : Prop :=
  x.sys.phase = .waiting ∨ (x.sys.phase = .top ∧ x.sys.ctl.hasAwaitable j = false) ∨ x.sys.phase = .finished ∨
  x.sys.phase = .crashed ∨ ∃ c0 w0 g, sP_Entry j cl cm c0 w0 g ∧ sP_Good j cl cm c0 w0 g x

theorem sB_unpaid_phase {j : Job} {cl : Cluster} {cm : Comps} {x : SysX} (h : sB_Unpaid j cl cm x) :
    x.sys.phase = .waiting ∨ x.sys.phase = .top ∨ x.sys.phase = .finished ∨ x.sys.phase = .crashed ∨
    x.sys.phase = .assigning := by
  rcases h with h | h | h | h | ⟨c0, w0, g, _, hG⟩
  · exact Or.inl h
  · exact Or.inr (Or.inl h.1)
  · exact Or.inr (Or.inr (Or.inl h))
  · exact Or.inr (Or.inr (Or.inr (Or.inl h)))
  · exact Or.inr (Or.inr (Or.inr (Or.inr hG.phase)))

/-- a step enabled only in phase `p` is not enabled in an unpaid state unless `p` is one of the five phases -/
theorem sB_unpaid_not_enabled (f : Sem) (j : Job) (cl : Cluster) (cm : Comps) (x : SysX) (s' : Sys) (st : Step) (p : Phase)
    (hU : sB_Unpaid j cl cm x) (hp : sB_stepPhase st = some p)
    (hne : p ≠ .waiting ∧ p ≠ .top ∧ p ≠ .finished ∧ p ≠ .crashed ∧ p ≠ .assigning)
    (hs : step f j cl x.sys st = some s') : False := by
  have := sB_enabled f j cl x.sys s' st p hp hs
  rcases sB_unpaid_phase hU with h | h | h | h | h <;> rw [h] at this <;> subst this <;> simp at hne

/-- scheduler-only steps preserve the unpaid invariant -/
theorem sB_unpaid_sched (f : Sem) (j : Job) (cl : Cluster) (cm : Comps) (x x' : SysX) (st : StepX)
    (hsys : x'.sys = x.sys) (hU : sB_Unpaid j cl cm x) (hs : stepX f j cl cm x st = some x') :
    sB_Unpaid j cl cm x' := by
  rcases hU with h | h | h | h | ⟨c0, w0, g, hE, hG⟩
  · exact Or.inl (by rw [hsys]; exact h)
  · exact Or.inr (Or.inl (by rw [hsys]; exact h))
  · exact Or.inr (Or.inr (Or.inl (by rw [hsys]; exact h)))
  · exact Or.inr (Or.inr (Or.inr (Or.inl (by rw [hsys]; exact h))))
  · rcases sP_step f j cl cm c0 w0 g x x' st hE hG hs with h | h | h
    · exact Or.inr (Or.inr (Or.inr (Or.inl h)))
    · exact absurd (by rw [hsys]; exact hG.todo) h
    · exact Or.inr (Or.inr (Or.inr (Or.inr ⟨c0, w0, g, hE, h⟩)))

/-- base steps other than `assign`, `recv`, `endFlush` preserve the unpaid invariant -/
theorem sB_unpaid_base (f : Sem) (j : Job) (cl : Cluster) (cm : Comps) (wf : WF j cl) (wfc : WFC j cm)
    (feas : Feasible j cl) (x x' : SysX) (bst : Step) (hr : ReachableX f j cl cm x)
    (hU : sB_Unpaid j cl cm x) (hs : stepX f j cl cm x (.base bst) = some x')
    (hna : ∀ a, bst ≠ .assign a) (hnr : ∀ evs, bst ≠ .recv evs) (hnf : bst ≠ .endFlush) :
    sB_Unpaid j cl cm x' := by
  have hb := (sS1_base_sys f j cl cm x x' bst hs).2
  cases bst with
  | assign a => exact absurd rfl (hna a)
  | recv evs => exact absurd rfl (hnr evs)
  | endFlush => exact absurd rfl hnf
  | plan1 => exact (sB_unpaid_not_enabled f j cl cm x x'.sys _ _ hU rfl (by simp) hb).elim
  | endPlan => exact (sB_unpaid_not_enabled f j cl cm x x'.sys _ _ hU rfl (by simp) hb).elim
  | flushF1 => exact (sB_unpaid_not_enabled f j cl cm x x'.sys _ _ hU rfl (by simp) hb).elim
  | endFlushF => exact (sB_unpaid_not_enabled f j cl cm x x'.sys _ _ hU rfl (by simp) hb).elim
  | flushP1 => exact (sB_unpaid_not_enabled f j cl cm x x'.sys _ _ hU rfl (by simp) hb).elim
  | notify1 => exact (sB_unpaid_not_enabled f j cl cm x x'.sys _ _ hU rfl (by simp) hb).elim
  | endNotify => exact (sB_unpaid_not_enabled f j cl cm x x'.sys _ _ hU rfl (by simp) hb).elim
  | endAssign =>
    have hph := sB_enabled f j cl x.sys x'.sys _ _ rfl hb
    rcases hU with h | h | h | h | ⟨c0, w0, g, hE, hG⟩
    · rw [hph] at h; cases h
    · rw [hph] at h; cases h.1
    · rw [hph] at h; cases h
    · rw [hph] at h; cases h
    · exact (sP_no_endAssign f j cl cm c0 w0 g x x' hG hs).elim
  | enter =>
    have hph := sB_enabled f j cl x.sys x'.sys _ _ rfl hb
    rcases hU with h | h | h | h | ⟨c0, w0, g, hE, hG⟩
    · rw [hph] at h; cases h
    · have haw := h.2
      have hong : x.sys.ctl.ongoing = [] := by
        simp only [Ctl.hasAwaitable, Bool.or_eq_false_iff, gt_iff_lt, decide_eq_false_iff_not, Nat.not_lt,
          Nat.le_zero_eq] at haw
        exact List.eq_nil_of_length_eq_zero haw.1
      cases hcomp : x.sys.ctl.hasComputable with
      | false =>
        simp only [step, hph, hcomp, haw] at hb
        simp only [bne_self_eq_false, Bool.false_eq_true, if_false, Bool.or_self, Bool.not_false, if_true,
          Option.some.injEq] at hb
        exact Or.inr (Or.inr (Or.inl (by rw [← hb])))
      | true =>
        obtain ⟨g, hE⟩ := sP_entry f j cl cm x wf wfc feas hr hph hcomp hong
        have hG := sP_after_enter f j cl cm x x' g hE hph hcomp hs
        exact Or.inr (Or.inr (Or.inr (Or.inr ⟨_, _, g, hE, hG⟩)))
    · rw [hph] at h; cases h
    · rw [hph] at h; cases h
    · have := hG.phase; rw [hph] at this; cases this
  | env es =>
    obtain ⟨hnf, hnc, hph, hctl, htodo⟩ := sB_env_step f j cl x.sys x'.sys es hb
    rcases hU with h | h | h | h | ⟨c0, w0, g, hE, hG⟩
    · exact Or.inl (by rw [hph]; exact h)
    · exact Or.inr (Or.inl (by rw [hph, hctl]; exact h))
    · exact absurd h hnf
    · exact absurd h hnc
    · rcases sP_step f j cl cm c0 w0 g x x' _ hE hG hs with h | h | h
      · exact Or.inr (Or.inr (Or.inr (Or.inl h)))
      · exact absurd (by rw [htodo]; exact hG.todo) h
      · exact Or.inr (Or.inr (Or.inr (Or.inr ⟨c0, w0, g, hE, h⟩)))

/-! ### the main invariant -/

structure sB_Inv (j : Job) (cl : Cluster) (cm : Comps) (x : SysX) (paid : Bool) : Prop where
  bound : x.sys.rounds + sB_phi j x.sys + (if paid = true then 1 else 0) ≤ roundBound j
  unpaid : paid = false → sB_Unpaid j cl cm x

/-- **`endFlush` is not enabled while `paid = false`** -/
theorem sB_paid_at_endFlush (f : Sem) (j : Job) (cl : Cluster) (cm : Comps) (x x' : SysX)
    (hU : sB_Unpaid j cl cm x) (hs : stepX f j cl cm x (.base .endFlush) = some x') : False :=
  sB_unpaid_not_enabled f j cl cm x x'.sys _ _ hU rfl (by simp) (sS1_base_sys f j cl cm x x' _ hs).2

theorem sB_inv_run (f : Sem) (j : Job) (cl : Cluster) (cm : Comps) (wf : WF j cl) (wfc : WFC j cm)
    (feas : Feasible j cl) (x : SysX) (paid : Bool) (hr : sB_Run f j cl cm x paid) : sB_Inv j cl cm x paid := by
  induction hr with
  | init =>
    refine ⟨?_, fun h => by cases h⟩
    have := sB_phi_init j cl
    simp only [SysX.init, if_true]
    have h0 : (Sys.init j cl).rounds = 0 := rfl
    omega
  | step x x' st paid hrun hs ih =>
    have hrf := sB_reachable_of_run f j cl cm x paid hrun
    have hX := invX_reachable f j cl cm wf wfc x hrf
    have hbound := ih.bound
    -- scheduler-only steps
    have sched : ∀ (hsch : sS2_schedOnly st = true) (hpn : sB_paidNext paid x' st = paid),
        sB_Inv j cl cm x' (sB_paidNext paid x' st) := by
      intro hsch hpn
      have hsys := sS2_sys_eq f j cl cm x x' st hsch hs
      rw [hpn]
      exact ⟨by rw [hsys]; exact hbound, fun hp => sB_unpaid_sched f j cl cm x x' st hsys (ih.unpaid hp) hs⟩
    cases st with
    | awcBegin c => exact sched rfl rfl
    | beginStepII => exact sched rfl rfl
    | migrate h => exact sched rfl rfl
    | awcEnter => exact sched rfl rfl
    | hPhase2 => exact sched rfl rfl
    | hEnd => exact sched rfl rfl
    | base bst =>
      have hb := (sS1_base_sys f j cl cm x x' bst hs).2
      have hstep := sB_phi_step f j cl x.sys x'.sys bst hX.hA hb
      -- the steps that do not touch `paid`
      have plain : ∀ (hna : ∀ a, bst ≠ .assign a) (hnr : ∀ evs, bst ≠ .recv evs) (hnf : bst ≠ .endFlush)
          (hpn : sB_paidNext paid x' (.base bst) = paid), sB_Inv j cl cm x' (sB_paidNext paid x' (.base bst)) := by
        intro hna hnr hnf hpn
        rw [hpn]
        have hro : x'.sys.rounds = x.sys.rounds := by
          rcases hstep.2 with h | ⟨h, _⟩
          · exact h
          · exact absurd h hnf
        refine ⟨by rw [hro]; have := hstep.1; omega, fun hp => ?_⟩
        exact sB_unpaid_base f j cl cm wf wfc feas x x' bst hrf (ih.unpaid hp) hs hna hnr hnf
      cases bst with
      | enter => exact plain (by intro a; simp) (by intro e; simp) (by simp) rfl
      | endAssign => exact plain (by intro a; simp) (by intro e; simp) (by simp) rfl
      | plan1 => exact plain (by intro a; simp) (by intro e; simp) (by simp) rfl
      | endPlan => exact plain (by intro a; simp) (by intro e; simp) (by simp) rfl
      | flushF1 => exact plain (by intro a; simp) (by intro e; simp) (by simp) rfl
      | endFlushF => exact plain (by intro a; simp) (by intro e; simp) (by simp) rfl
      | flushP1 => exact plain (by intro a; simp) (by intro e; simp) (by simp) rfl
      | notify1 => exact plain (by intro a; simp) (by intro e; simp) (by simp) rfl
      | endNotify => exact plain (by intro a; simp) (by intro e; simp) (by simp) rfl
      | env es => exact plain (by intro a; simp) (by intro e; simp) (by simp) rfl
      | assign a =>
        obtain ⟨hro, h⟩ := sB_phi_assign f j cl x.sys x'.sys a hX.hA.h1 hX.hA.h2 hb
        rcases h with ⟨hcr, hphi⟩ | ⟨hph, hphi⟩
        · have hpn : sB_paidNext paid x' (.base (.assign a)) = paid := by simp [sB_paidNext, hcr]
          rw [hpn]
          exact ⟨by rw [hro, hphi]; exact hbound, fun _ => Or.inr (Or.inr (Or.inr (Or.inl hcr)))⟩
        · have hpn : sB_paidNext paid x' (.base (.assign a)) = true := by simp [sB_paidNext, hph]
          rw [hpn]
          refine ⟨?_, fun h => by cases h⟩
          rw [hro]; simp only [if_true]
          have : (if paid = true then 1 else 0) ≥ 0 := Nat.zero_le _
          omega
      | recv evs =>
        obtain ⟨hro, hphi⟩ := sB_phi_recv f j cl x.sys x'.sys evs hb
        have hpn : sB_paidNext paid x' (.base (.recv evs)) = true := rfl
        rw [hpn]
        refine ⟨?_, fun h => by cases h⟩
        rw [hro]; simp only [if_true]
        omega
      | endFlush =>
        obtain ⟨hro, hphi⟩ := sB_phi_endFlush f j cl x.sys x'.sys hb
        have hpn : sB_paidNext paid x' (.base .endFlush) = false := rfl
        rw [hpn]
        have hpaid : paid = true := by
          cases paid with
          | true => rfl
          | false => exact (sB_paid_at_endFlush f j cl cm x x' (ih.unpaid rfl) hs).elim
        subst hpaid
        refine ⟨?_, fun _ => ?_⟩
        · rw [hro, hphi]
          simp only [if_true] at hbound
          simp only [Bool.false_eq_true, if_false]
          omega
        · simp only [step] at hb
          split at hb
          · cases hb
          · simp only [Option.some.injEq] at hb
            cases haw : x.sys.ctl.hasAwaitable j with
            | true => exact Or.inl (by rw [← hb]; simp [haw])
            | false => exact Or.inr (Or.inl (by rw [← hb]; simp [haw]))

/-- **Bounded number of scheduling rounds (C03).** For ANY order and batching of events the `while` loop of
`controller.impl.run` is iterated at most `roundBound j` times — a bound that depends on the job only. -/
theorem sB_rounds_bounded (f : Sem) (j : Job) (cl : Cluster) (cm : Comps) (wf : WF j cl) (wfc : WFC j cm)
    (feas : Feasible j cl) (x : SysX) (hr : ReachableX f j cl cm x) : x.sys.rounds ≤ roundBound j := by
  obtain ⟨paid, hrun⟩ := sB_run_of_reachable f j cl cm x hr
  have := (sB_inv_run f j cl cm wf wfc feas x paid hrun).bound
  omega

end EkwVerif.Ctrl
