/-
Tier L (liveness bookkeeping, ANY event order), part B: preservation of `InvLive` (and of the auxiliary `InvLiveX`) by
every base step, relative to the full base invariant `InvAll` (whose Tier P says how completion is detected).
-/
import EkwVerif.Lemmas.SchedLiveA

namespace EkwVerif.Ctrl

/-! ### congruence -/

/-- a step that changes none of the fields Tier L talks about (worker notices on their way may only be added) -/
theorem sL_congr {j : Job} {cl : Cluster} {s s' : Sys} (hF : InvLive j cl s)
    (hran : s'.env.ran = s.env.ran) (hev : ∀ w ds, Event.pubW w ds ∈ s.allEv → Event.pubW w ds ∈ s'.allEv)
    (hpub : s'.ctl.published = s.ctl.published)
    (hann : s'.ctl.announced = s.ctl.announced) (hdone : s'.ctl.doneC = s.ctl.doneC)
    (hdisp : s'.ctl.dispatched = s.ctl.dispatched) (hcomp : s'.ctl.computable = s.ctl.computable)
    (htracked : s'.ctl.tracked = s.ctl.tracked) (htracker : s'.ctl.tracker = s.ctl.tracker)
    (hidle : s'.ctl.idle = s.ctl.idle) (hfl : ∀ w t, s'.inFlight w t ↔ s.inFlight w t) :
    InvLive j cl s' := by
  refine ⟨?_, ?_, ?_, ?_, ?_⟩
  · intro t ht k hk; rw [hran] at ht; rw [hpub]
    rcases hF.notice t ht k hk with h | ⟨w, h⟩
    · exact Or.inl h
    · exact Or.inr ⟨w, hev _ _ h⟩
  · intro t ht; rw [hdisp] at ht; rw [hdone]
    rcases hF.disp_flight_or_done t ht with ⟨w, hw⟩ | hd
    · exact Or.inl ⟨w, (hfl w t).mpr hw⟩
    · exact Or.inr hd
  · intro t htl ht; rw [hdisp] at ht; rw [hcomp, htracked, htracker]; exact hF.undisp t htl ht
  · intro t ds ht hd; rw [htracked] at ht; rw [htracker] at hd; rw [hann]; exact hF.tracker_sound t ds ht hd
  · intro w hw
    rcases hF.workers_cover w hw with h | ⟨t, ht⟩
    · exact Or.inl (by rw [hidle]; exact h)
    · exact Or.inr ⟨t, (hfl w t).mpr ht⟩

theorem sL_allEv_congr {s s' : Sys} (h1 : s'.inbox = s.inbox) (h2 : s'.env.pending = s.env.pending) :
    ∀ w ds, Event.pubW w ds ∈ s.allEv → Event.pubW w ds ∈ s'.allEv := by
  intro w ds h; simpa [Sys.allEv, h1, h2] using h

/-! ### init -/

theorem sL_init (j : Job) (cl : Cluster) (_wf : WF j cl) : InvLive j cl (Sys.init j cl) := by
  refine ⟨?_, ?_, ?_, ?_, ?_⟩
  · intro t ht; simp [Sys.init, Env.init] at ht
  · intro t ht; simp [Sys.init, initCtl] at ht
  · intro t htl _
    simp only [Sys.init, initCtl, List.mem_filter, Job.taskIds, List.mem_range, decide_eq_true_eq]
    cases hx : j.inputs t with
    | nil => left; simp [htl]
    | cons a l => right; exact ⟨htl, a, by simp⟩
  · intro t ds _ hd
    simp only [Sys.init, initCtl] at hd ⊢
    exact ⟨hd, trivial⟩
  · intro w hw; left; simpa [Sys.init, initCtl] using hw

theorem sL_x_init (j : Job) (cl : Cluster) (wf : WF j cl) : InvLiveX (Sys.init j cl) :=
  ⟨fun t => by simpa [Sys.init, initCtl] using wf.inputsNodup t⟩

/-! ### the phase-only steps -/

theorem sL_step_enter (f : Sem) (j : Job) (cl : Cluster) (s s' : Sys) (hA : InvAll f j cl s) (hF : InvLive j cl s)
    (hs : step f j cl s .enter = some s') : InvLive j cl s' := by
  simp only [step] at hs
  split at hs; · cases hs
  rename_i hp
  have hp' : s.phase = .top := by simpa using hp
  have htodo : s.todo = [] := hA.h1.todo_phase (by simp [hp']) (by simp [hp']) (by simp [hp'])
  split at hs
  · cases hs; exact sL_congr hF rfl (fun _ _ h => h) rfl rfl rfl rfl rfl rfl rfl rfl (fun _ _ => Iff.rfl)
  · cases hs
    exact sL_congr hF rfl (fun _ _ h => h) rfl rfl rfl rfl rfl rfl rfl rfl
      (fun w t => by simp [Sys.inFlight, Sys.todoPairs, htodo])

theorem sL_step_endAssign (f : Sem) (j : Job) (cl : Cluster) (s s' : Sys) (hF : InvLive j cl s)
    (hs : step f j cl s .endAssign = some s') : InvLive j cl s' := by
  simp only [step] at hs
  split at hs; · cases hs
  cases hs; exact sL_congr hF rfl (fun _ _ h => h) rfl rfl rfl rfl rfl rfl rfl rfl (fun _ _ => Iff.rfl)

theorem sL_step_endPlan (f : Sem) (j : Job) (cl : Cluster) (s s' : Sys) (hF : InvLive j cl s)
    (hs : step f j cl s .endPlan = some s') : InvLive j cl s' := by
  simp only [step] at hs
  split at hs; · cases hs
  cases hs; exact sL_congr hF rfl (fun _ _ h => h) rfl rfl rfl rfl rfl rfl rfl rfl (fun _ _ => Iff.rfl)

theorem sL_step_endFlushF (f : Sem) (j : Job) (cl : Cluster) (s s' : Sys) (hF : InvLive j cl s)
    (hs : step f j cl s .endFlushF = some s') : InvLive j cl s' := by
  simp only [step] at hs
  split at hs; · cases hs
  cases hs; exact sL_congr hF rfl (fun _ _ h => h) rfl rfl rfl rfl rfl rfl rfl rfl (fun _ _ => Iff.rfl)

theorem sL_step_endFlush (f : Sem) (j : Job) (cl : Cluster) (s s' : Sys) (hF : InvLive j cl s)
    (hs : step f j cl s .endFlush = some s') : InvLive j cl s' := by
  simp only [step] at hs
  split at hs; · cases hs
  cases hs; exact sL_congr hF rfl (fun _ _ h => h) rfl rfl rfl rfl rfl rfl rfl rfl (fun _ _ => Iff.rfl)

theorem sL_step_endNotify (f : Sem) (j : Job) (cl : Cluster) (s s' : Sys) (hF : InvLive j cl s)
    (hs : step f j cl s .endNotify = some s') : InvLive j cl s' := by
  simp only [step] at hs
  split at hs; · cases hs
  cases hs; exact sL_congr hF rfl (fun _ _ h => h) rfl rfl rfl rfl rfl rfl rfl rfl (fun _ _ => Iff.rfl)

/-! ### assign -/

theorem sL_step_assign (f : Sem) (j : Job) (cl : Cluster) (s s' : Sys) (a : Asg) (hA : InvAll f j cl s)
    (hF : InvLive j cl s) (hs : step f j cl s (.assign a) = some s') : InvLive j cl s' := by
  simp only [step] at hs
  split at hs; · cases hs
  split at hs
  · cases hs
  · cases hs
    exact sL_congr hF rfl (fun _ _ h => h) rfl rfl rfl rfl rfl rfl rfl rfl (fun _ _ => Iff.rfl)
  · rename_i c2 prep has
    have hctl : s'.ctl = c2 := by cases hs; rfl
    have henv : s'.env = applyCmds j cl s.env (actCmds j a prep) := by cases hs; rfl
    have htodo : s'.todo = s.todo ++ [(a, prep)] := by cases hs; rfl
    have hinb : s'.inbox = s.inbox := by cases hs; rfl
    clear hs
    obtain ⟨ho, hd0, hd', hcomp, hidle, hi', hon', hgpu⟩ := once_assignOne j cl s.ctl c2 a prep hA.h1.once has
    obtain ⟨fa, fd, ftd, ftr, fc⟩ := sL_assignOne_frames j cl s.ctl c2 a prep has
    obtain ⟨ep, er⟩ := sL_applyCmds_frame j cl (actCmds j a prep) s.env
    have hfl : ∀ w t, s'.inFlight w t ↔ (s.inFlight w t ∨ (w, t) = (a.worker, a.task)) := by
      intro w t
      simp only [Sys.inFlight, Sys.todoPairs, hctl, hon', htodo, List.map_append, List.map_cons, List.map_nil,
        List.mem_append, List.mem_singleton]
      exact or_assoc.symm
    have hev : ∀ w ds, Event.pubW w ds ∈ s.allEv → Event.pubW w ds ∈ s'.allEv :=
      sL_allEv_congr hinb (by rw [henv]; exact ep)
    have fp := iP_assignOne_published j cl s.ctl c2 a prep has
    refine ⟨?_, ?_, ?_, ?_, ?_⟩
    · intro t ht k hk
      rw [henv, er] at ht
      rw [hctl, fp]
      rcases hF.notice t ht k hk with h | ⟨w, h⟩
      · exact Or.inl h
      · exact Or.inr ⟨w, hev _ _ h⟩
    · intro t ht
      rw [hctl, hd'] at ht; rw [hctl, fd]
      by_cases hta : t = a.task
      · subst hta; exact Or.inl ⟨a.worker, (hfl _ _).mpr (Or.inr rfl)⟩
      · rw [upd_other _ _ _ _ hta] at ht
        rcases hF.disp_flight_or_done t ht with ⟨w, hw⟩ | hd
        · exact Or.inl ⟨w, (hfl _ _).mpr (Or.inl hw)⟩
        · exact Or.inr hd
    · intro t htl ht
      rw [hctl, hd'] at ht; rw [hctl, fc, ftd, ftr]
      have hta : t ≠ a.task := by intro h; subst h; simp at ht
      rw [upd_other _ _ _ _ hta] at ht
      rcases hF.undisp t htl ht with h | h
      · exact Or.inl ((List.mem_erase_of_ne hta).mpr h)
      · exact Or.inr h
    · intro t ds ht hd
      rw [hctl, ftd] at ht; rw [hctl, ftr] at hd; rw [hctl, fa]
      exact hF.tracker_sound t ds ht hd
    · intro w hw
      rw [hctl, hi']
      by_cases hwa : w = a.worker
      · subst hwa; exact Or.inr ⟨a.task, (hfl _ _).mpr (Or.inr rfl)⟩
      · rcases hF.workers_cover w hw with h | ⟨t, ht⟩
        · exact Or.inl ((List.mem_erase_of_ne hwa).mpr h)
        · exact Or.inr ⟨t, (hfl _ _).mpr (Or.inl ht)⟩

/-! ### plan1 -/

theorem sL_step_plan1 (f : Sem) (j : Job) (cl : Cluster) (s s' : Sys) (hF : InvLive j cl s)
    (hs : step f j cl s .plan1 = some s') : InvLive j cl s' := by
  simp only [step] at hs
  split at hs; · cases hs
  split at hs
  · cases hs
  · rename_i a prep rest htd
    split at hs
    · cases hs
    · cases hs
      exact sL_congr hF rfl (fun _ _ h => h) rfl rfl rfl rfl rfl rfl rfl rfl (fun _ _ => Iff.rfl)
    · rename_i c2 hpl
      cases hs
      obtain ⟨f1, f2, f3, f4, f5, f6, f7⟩ := planOne_frames j s.ctl c2 a prep hpl
      obtain ⟨g1, g2⟩ := sL_planOne_frames j s.ctl c2 a prep hpl
      refine sL_congr hF rfl (fun _ _ h => h) (iP_planOne_published j s.ctl c2 a prep hpl) g1 g2 f2 f1 f3 f4 f5 ?_
      intro w t
      simp only [Sys.inFlight, Sys.todoPairs, f6, htd, List.map_cons, List.mem_append, List.mem_cons]
      grind

/-! ### flush -/

theorem sL_step_flushF1 (f : Sem) (j : Job) (cl : Cluster) (s s' : Sys) (hF : InvLive j cl s)
    (hs : step f j cl s .flushF1 = some s') : InvLive j cl s' := by
  simp only [step] at hs
  split at hs; · cases hs
  split at hs
  · cases hs
  · rename_i ds hst rest hq
    cases hs
    obtain ⟨ep, er⟩ := sL_applyCmd_frame j cl s.env (.fetch ds hst)
    exact sL_congr hF er (sL_allEv_congr rfl ep) (by simp) (by simp) (by simp) (by simp) (by simp) (by simp) (by simp) (by simp)
      (fun w t => by simp [Sys.inFlight, Sys.todoPairs])

theorem sL_step_flushP1 (f : Sem) (j : Job) (cl : Cluster) (s s' : Sys) (hF : InvLive j cl s)
    (hs : step f j cl s .flushP1 = some s') : InvLive j cl s' := by
  simp only [step] at hs
  split at hs; · cases hs
  split at hs
  · cases hs
  · rename_i ds rest hq
    split at hs
    · cases hs
    · cases hs
      exact sL_congr hF rfl (fun _ _ h => h) rfl rfl rfl rfl rfl rfl rfl rfl (fun _ _ => Iff.rfl)
    · rename_i c2 cmds hph
      cases hs
      obtain ⟨ep, er⟩ := sL_applyCmds_frame j cl cmds s.env
      refine sL_congr hF er (sL_allEv_congr rfl ep) ?_ ?_ ?_ ?_ ?_ ?_ ?_ ?_ ?_
      · simpa using purgeHosts_published _ _ _ _ _ _ hph
      · simpa using purgeHosts_announced _ _ _ _ _ _ hph
      · simpa using purgeHosts_doneC _ _ _ _ _ _ hph
      · simpa using purgeHosts_dispatched _ _ _ _ _ _ hph
      · simpa using purgeHosts_computable _ _ _ _ _ _ hph
      · simpa using purgeHosts_tracked _ _ _ _ _ _ hph
      · simpa using purgeHosts_tracker _ _ _ _ _ _ hph
      · simpa using purgeHosts_idle _ _ _ _ _ _ hph
      · intro w t
        have := purgeHosts_ongoing _ _ _ _ _ _ hph
        simp [Sys.inFlight, Sys.todoPairs, this]

/-! ### recv (any sub-multiset of the pending events, in any order) -/

theorem sL_step_recv (f : Sem) (j : Job) (cl : Cluster) (s s' : Sys) (evs : List Event) (hA : InvAll f j cl s)
    (hF : InvLive j cl s) (hs : step f j cl s (.recv evs) = some s') : InvLive j cl s' := by
  simp only [step] at hs
  split at hs; · cases hs
  rename_i hc
  have hp : s.phase = .waiting := by
    simp only [bne_iff_ne, ne_eq, Bool.or_eq_true, not_or, Decidable.not_not] at hc; simpa using hc.1
  have hinb : s.inbox = [] := hA.h2.inbox_phase (by simp [hp]) (by simp [hp])
  split at hs
  · cases hs
  · rename_i pend htk
    cases hs
    obtain ⟨m1, m2⟩ := sL_markDelivered_frame evs { s.env with pending := pend }
    refine sL_congr hF m2 ?_ rfl rfl rfl rfl rfl rfl rfl rfl (fun _ _ => Iff.rfl)
    intro w ds he
    have he' : Event.pubW w ds ∈ s.env.pending := by simpa [Sys.allEv, hinb] using he
    have hc := i2b_takeEvents_count evs s.env.pending pend htk (Event.pubW w ds)
    have := List.count_pos_iff.mpr he'
    have h3 : Event.pubW w ds ∈ evs ++ pend := List.count_pos_iff.mp (by omega)
    simpa [Sys.allEv, m1] using h3

/-! ### environment steps -/

theorem sL_envStep_io (f : Sem) (j : Job) (e e' : Env) (i : Nat) (h : envStep f j e (.io i) = some e') :
    e'.ran = e.ran ∧ ∀ ev, ev ∈ e.pending → ev ∈ e'.pending := by
  simp only [envStep] at h
  split at h
  · cases h
  · rename_i o ho
    cases o with
    | transmit ds src tgt =>
      dsimp only at h
      split at h
      · cases h; exact ⟨by simp [Env.flag], fun ev hm => by simpa [Env.flag] using hm⟩
      · split at h
        · cases h; exact ⟨rfl, fun ev hm => hm⟩
        · cases h
          exact ⟨rfl, fun ev hm => List.mem_append.mpr (Or.inl hm)⟩
    | fetch ds src =>
      dsimp only at h
      split at h
      · cases h; exact ⟨by simp [Env.flag], fun ev hm => by simpa [Env.flag] using hm⟩
      · cases h
        exact ⟨rfl, fun ev hm => List.mem_append.mpr (Or.inl hm)⟩

theorem sL_step_env (f : Sem) (j : Job) (cl : Cluster) (s s' : Sys) (es : EnvStep) (hA : InvAll f j cl s)
    (hF : InvLive j cl s) (hs : step f j cl s (.env es) = some s') : InvLive j cl s' := by
  simp only [step] at hs
  split at hs; · cases hs
  rw [envStepP_eq f j s.env es hA.h1.no_trim] at hs
  cases he : envStep f j s.env es with
  | none => simp [he] at hs
  | some e' =>
    simp only [he, Option.map_some, Option.some.injEq] at hs
    subst hs
    cases es with
    | io i =>
      obtain ⟨h1, h2⟩ := sL_envStep_io f j s.env e' i he
      refine sL_congr hF h1 ?_ rfl rfl rfl rfl rfl rfl rfl rfl (fun _ _ => Iff.rfl)
      intro w ds hm
      simp only [Sys.allEv, List.mem_append] at hm ⊢
      rcases hm with hm | hm
      · exact Or.inl hm
      · exact Or.inr (h2 _ hm)
    | run w t =>
      simp only [envStep] at he
      split at he
      · rename_i hc
        cases he
        obtain ⟨_, _, _, _, h5, _, _, h8⟩ := publishOutputs_frame f j w t
          ((j.inputs t).map (fun d => (s.env.present w.host d).getD ""))
          { s.env with queued := s.env.queued.erase (w, t), ran := upd s.env.ran t true }
        refine ⟨?_, hF.disp_flight_or_done, hF.undisp, hF.tracker_sound, hF.workers_cover⟩
        intro t' ht' k hk
        simp only [h5] at ht'
        simp only [Sys.allEv, h8]
        by_cases htt : t' = t
        · subst htt
          right
          refine ⟨w, List.mem_append.mpr (Or.inr (List.mem_append.mpr (Or.inr ?_)))⟩
          simp only [Job.outputsOf, List.mem_map, List.mem_range]
          exact ⟨⟨t', k⟩, ⟨k, hk, rfl⟩, rfl⟩
        · rw [upd_other _ _ _ _ htt] at ht'
          rcases hF.notice t' ht' k hk with h | ⟨w', h⟩
          · exact Or.inl h
          · right
            refine ⟨w', ?_⟩
            simp only [Sys.allEv, List.mem_append] at h ⊢
            rcases h with h | h
            · exact Or.inl h
            · exact Or.inr (Or.inl h)
      · cases he

/-! ### notify1 -/

theorem sL_idle_sub (idle : List Worker) (w x : Worker) (b : Bool) (h : x ∈ idle) :
    x ∈ (if b = true then idle else idle ++ [w]) := by
  split
  · exact h
  · exact List.mem_append.mpr (Or.inl h)

theorem sL_step_notify1 (f : Sem) (j : Job) (cl : Cluster) (s s' : Sys) (hA : InvAll f j cl s)
    (hA' : InvAll f j cl s') (hF : InvLive j cl s) (hX : InvLiveX s)
    (hs : step f j cl s .notify1 = some s') : InvLive j cl s' := by
  simp only [step] at hs
  split at hs; · cases hs
  rename_i hc
  have hp : s.phase = .notifying := by simpa using hc
  have htodo : s.todo = [] := hA.h1.todo_phase (by simp [hp]) (by simp [hp]) (by simp [hp])
  split at hs
  · cases hs
  rename_i ev rest hib
  split at hs
  · cases hs
  · -- a crash here is excluded by the (post-state) base invariant
    rename_i e he
    cases hs
    exfalso
    rcases notifyEvent_err' j s.ctl ev e he with rfl | rfl
    · exact hA'.h2.no_err_tracker (by simp [Sys.crash])
    · exact hA'.h2.no_err_ongoing (by simp [Sys.crash])
  · rename_i c2 hne
    have hctl : s'.ctl = c2 := by cases hs; rfl
    have henv : s'.env = s.env := by cases hs; rfl
    have htodo' : s'.todo = [] := by cases hs; exact htodo
    have hinb : s'.inbox = rest := by cases hs; rfl
    clear hs
    obtain ⟨t1, t2, t3, t4⟩ := sL_notifyEvent_track j s.ctl c2 ev hne
    obtain ⟨hdisp, _⟩ := notifyEvent_workers j s.ctl c2 ev hne
    have hdone := sL_notifyEvent_done j s.ctl c2 ev hne
    have hfl0 : ∀ w t, s.inFlight w t ↔ (w, t) ∈ s.ctl.ongoing := by
      intro w t; simp [Sys.inFlight, Sys.todoPairs, htodo]
    have hfl1 : ∀ w t, s'.inFlight w t ↔ (w, t) ∈ c2.ongoing := by
      intro w t; simp [Sys.inFlight, Sys.todoPairs, htodo', hctl]
    have hmono : ∀ d, s.ctl.announced d = true → c2.announced d = true := fun d h => (t4 d).mpr (Or.inl h)
    -- the record only grows, and it grows by the dataset of the worker's notice being processed
    have hpubmono : (∀ d, s.ctl.published d = true → c2.published d = true) ∧
        (∀ w ds, ev = Event.pubW w ds → c2.published ds = true) := by
      by_cases hW : ∃ w ds, ev = .pubW w ds
      · obtain ⟨w, ds, rfl⟩ := hW
        obtain ⟨p1, _, _⟩ := notifyEvent_pubW_spec j s.ctl c2 w ds hne
        refine ⟨?_, ?_⟩
        · intro d hd; rw [p1]
          by_cases hx : d = ds
          · subst hx; simp
          · rw [upd_other _ _ _ _ hx]; exact hd
        · intro w' ds' he
          simp only [Event.pubW.injEq] at he
          obtain ⟨_, rfl⟩ := he
          rw [p1]; simp
      · have hne' : ∀ w ds, ev ≠ .pubW w ds := fun w ds h => hW ⟨w, ds, h⟩
        obtain ⟨q1, _, _⟩ := notifyEvent_other_spec j s.ctl c2 ev hne' hne
        exact ⟨fun d hd => by rw [q1]; exact hd, fun w ds he => absurd he (hne' w ds)⟩
    refine ⟨?_, ?_, ?_, ?_, ?_⟩
    · -- notice
      intro t ht k hk
      rw [henv] at ht
      rw [hctl]
      rcases hF.notice t ht k hk with h | ⟨w, h⟩
      · exact Or.inl (hpubmono.1 _ h)
      · simp only [Sys.allEv, hib, List.cons_append, List.mem_cons] at h
        rcases h with h | h
        · exact Or.inl (hpubmono.2 w ⟨t, k⟩ h.symm)
        · right; refine ⟨w, ?_⟩
          simpa [Sys.allEv, hinb, henv] using h
    · -- disp_flight_or_done
      intro t ht
      rw [hctl, hdisp] at ht
      rw [hctl]
      rcases hdone with ⟨hd, _, hon⟩ | ⟨w, ds, hev, _, hd, hmem, hon, hi⟩
      · rcases hF.disp_flight_or_done t ht with ⟨w', hw'⟩ | hd0
        · exact Or.inl ⟨w', (hfl1 _ _).mpr (by rw [hon]; exact (hfl0 _ _).mp hw')⟩
        · exact Or.inr (by rw [hd]; exact hd0)
      · by_cases htt : t = ds.task
        · right; rw [hd, htt]; simp
        · rcases hF.disp_flight_or_done t ht with ⟨w', hw'⟩ | hd0
          · refine Or.inl ⟨w', (hfl1 _ _).mpr ?_⟩
            rw [hon]
            have hne2 : (w', t) ≠ (w, ds.task) := by
              intro heq; exact htt (Prod.mk.inj heq).2
            exact (List.mem_erase_of_ne hne2).mpr ((hfl0 _ _).mp hw')
          · exact Or.inr (by rw [hd, upd_other _ _ _ _ htt]; exact hd0)
    · -- undisp
      intro t htl ht
      rw [hctl, hdisp] at ht
      rw [hctl]
      exact t2 t (hF.undisp t htl ht)
    · -- tracker_sound
      intro t d ht hd
      rw [hctl] at ht hd ⊢
      obtain ⟨x1, x2, x3⟩ := t3 t d ht hd
      obtain ⟨y1, y2⟩ := hF.tracker_sound t d x1 x2
      refine ⟨y1, ?_⟩
      cases hx : c2.announced d with
      | false => rfl
      | true =>
        exfalso
        rcases (t4 d).mp hx with h | h
        · rw [y2] at h; cases h
        · have hcons : t ∈ j.consumers d := by
            simp only [Job.consumers, Job.taskIds, List.mem_filter, List.mem_range, List.contains_iff_mem]
            exact ⟨hA.h2x.tracked_valid t x1, y1⟩
          have hnd : s.ctl.doneC t = false := by
            cases hdn : s.ctl.doneC t with
            | false => rfl
            | true =>
              exfalso
              have := (hA.h2.ran_disp t (hA.h2.done_ran t hdn)).1
              have := (hA.h1.once.blocked t d x1 x2).1
              omega
          obtain ⟨p1, p2⟩ := hA.h2.ptrack_sound d t hcons hnd
          exact x3 d h p1 p2 (hX.tracker_nodup t) rfl
    · -- workers_cover
      intro w0 hw0
      rw [hctl]
      rcases hdone with ⟨_, hi, hon⟩ | ⟨w, ds, hev, _, hd, hmem, hon, hi⟩
      · rcases hF.workers_cover w0 hw0 with h | ⟨t0, h⟩
        · exact Or.inl (by rw [hi]; exact h)
        · exact Or.inr ⟨t0, (hfl1 _ _).mpr (by rw [hon]; exact (hfl0 _ _).mp h)⟩
      · by_cases hw : w0 = w
        · subst hw
          by_cases hcond : ((s.ctl.ongoing.erase (w0, ds.task)).any (·.1 == w0) || s.ctl.idle.contains w0) = true
          · rw [hi, if_pos hcond]
            rcases Bool.or_eq_true _ _ ▸ hcond with hany | hcont
            · simp only [List.any_eq_true, beq_iff_eq] at hany
              obtain ⟨⟨pw, pt⟩, hp1, hp2⟩ := hany
              simp only at hp2
              subst hp2
              exact Or.inr ⟨pt, (hfl1 _ _).mpr (by rw [hon]; exact hp1)⟩
            · exact Or.inl (by simpa using hcont)
          · rw [hi, if_neg hcond]
            exact Or.inl (by simp)
        · rcases hF.workers_cover w0 hw0 with h | ⟨t0, h⟩
          · exact Or.inl (by rw [hi]; exact sL_idle_sub _ _ _ _ h)
          · refine Or.inr ⟨t0, (hfl1 _ _).mpr ?_⟩
            rw [hon]
            have hne2 : (w0, t0) ≠ (w, ds.task) := by
              intro heq; exact hw (Prod.mk.inj heq).1
            exact (List.mem_erase_of_ne hne2).mpr ((hfl0 _ _).mp h)

/-! ### all base steps -/

theorem sL_step (f : Sem) (j : Job) (cl : Cluster) (s s' : Sys) (st : Step) (wf : WF j cl)
    (hA : InvAll f j cl s) (hF : InvLive j cl s) (hX : InvLiveX s)
    (hs : step f j cl s st = some s') : InvLive j cl s' := by
  have hA' : InvAll f j cl s' := invAll_step f j cl s s' st wf hA hs
  cases st with
  | enter => exact sL_step_enter f j cl s s' hA hF hs
  | assign a => exact sL_step_assign f j cl s s' a hA hF hs
  | endAssign => exact sL_step_endAssign f j cl s s' hF hs
  | plan1 => exact sL_step_plan1 f j cl s s' hF hs
  | endPlan => exact sL_step_endPlan f j cl s s' hF hs
  | flushF1 => exact sL_step_flushF1 f j cl s s' hF hs
  | endFlushF => exact sL_step_endFlushF f j cl s s' hF hs
  | flushP1 => exact sL_step_flushP1 f j cl s s' hF hs
  | endFlush => exact sL_step_endFlush f j cl s s' hF hs
  | recv evs => exact sL_step_recv f j cl s s' evs hA hF hs
  | notify1 => exact sL_step_notify1 f j cl s s' hA hA' hF hX hs
  | endNotify => exact sL_step_endNotify f j cl s s' hF hs
  | env es => exact sL_step_env f j cl s s' es hA hF hs

/-- the auxiliary conjunct (trackers have no duplicates) is preserved by every base step -/
theorem sL_x_step (f : Sem) (j : Job) (cl : Cluster) (s s' : Sys) (st : Step) (hX : InvLiveX s)
    (hs : step f j cl s st = some s') : InvLiveX s' := by
  have key : (∀ t, (s.ctl.tracker t).Nodup → (s'.ctl.tracker t).Nodup) → InvLiveX s' :=
    fun h => ⟨fun t => h t (hX.tracker_nodup t)⟩
  apply key
  cases st with
  | enter =>
    simp only [step] at hs
    split at hs; · cases hs
    split at hs <;> (cases hs; exact fun t h => h)
  | assign a =>
    simp only [step] at hs
    split at hs; · cases hs
    split at hs
    · cases hs
    · cases hs; exact fun t h => h
    · rename_i c2 prep has
      cases hs
      obtain ⟨_, _, _, ftr, _⟩ := sL_assignOne_frames j cl s.ctl c2 a prep has
      intro t h; simp only [ftr]; exact h
  | endAssign =>
    simp only [step] at hs
    split at hs; · cases hs
    cases hs; exact fun t h => h
  | plan1 =>
    simp only [step] at hs
    split at hs; · cases hs
    split at hs
    · cases hs
    · split at hs
      · cases hs
      · cases hs; exact fun t h => h
      · rename_i c2 hpl
        cases hs
        obtain ⟨_, _, _, f4, _⟩ := planOne_frames j s.ctl c2 _ _ hpl
        intro t h; simp only [f4]; exact h
  | endPlan =>
    simp only [step] at hs
    split at hs; · cases hs
    cases hs; exact fun t h => h
  | flushF1 =>
    simp only [step] at hs
    split at hs; · cases hs
    split at hs
    · cases hs
    · cases hs; intro t h; simpa using h
  | endFlushF =>
    simp only [step] at hs
    split at hs; · cases hs
    cases hs; exact fun t h => h
  | flushP1 =>
    simp only [step] at hs
    split at hs; · cases hs
    split at hs
    · cases hs
    · split at hs
      · cases hs
      · cases hs; exact fun t h => h
      · rename_i c2 cmds hph
        cases hs
        have := purgeHosts_tracker _ _ _ _ _ _ hph
        intro t h; simp only [this]; exact h
  | endFlush =>
    simp only [step] at hs
    split at hs; · cases hs
    cases hs; exact fun t h => h
  | recv evs =>
    simp only [step] at hs
    split at hs; · cases hs
    split at hs
    · cases hs
    · cases hs; exact fun t h => h
  | notify1 =>
    simp only [step] at hs
    split at hs; · cases hs
    split at hs
    · cases hs
    · split at hs
      · cases hs
      · cases hs; exact fun t h => h
      · rename_i c2 hne
        cases hs
        exact (sL_notifyEvent_track j s.ctl c2 _ hne).1
  | endNotify =>
    simp only [step] at hs
    split at hs; · cases hs
    cases hs; exact fun t h => h
  | env es =>
    simp only [step] at hs
    split at hs; · cases hs
    cases he : envStepP f j s.env es with
    | none => simp [he] at hs
    | some e' =>
      simp only [he, Option.map_some, Option.some.injEq] at hs
      subst hs
      exact fun t h => h

end EkwVerif.Ctrl
