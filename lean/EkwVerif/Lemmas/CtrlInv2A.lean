/-
Tier 2 (`Inv2`) of the controller invariant, slice A: `init`, `.assign a`, `.plan1`, `.env es`.

Extra hypotheses (the given `Inv1 … Inv4` are not inductive on their own here):
* `.plan1` uses the shared tier `InvT` (`Lemmas/CtrlInvT.lean`): the `prep` list of every `todo`
  entry only names inputs of the assigned task (no "KeyError: purging_tracker[prep] in plan");
* `.env (.run w t)` uses the shared tier `Inv2X` (`Lemmas/CtrlInv2X.lean`), `flight_unique`: a task is
  in flight on at most one worker (for `queued_not_ran` of the other queued pairs).
-/
import EkwVerif.Lemmas.CtrlInvDefs
import EkwVerif.Lemmas.CtrlInvT
import EkwVerif.Lemmas.CtrlInv2X
import EkwVerif.Lemmas.CtrlInv1Step

namespace EkwVerif.Ctrl

/-- from `Inv2X.flight_unique`: a task is in flight on at most one worker
(own copy, so that this file only depends on the *fields* of `Inv2X`) -/
theorem i2a_uniq_of_nodup (s : Sys) (h : ((s.ctl.ongoing ++ s.todoPairs).map (·.2)).Nodup) :
    ∀ w w' t, s.inFlight w t → s.inFlight w' t → w = w' := by
  intro w w' t h1 h2
  have m1 : (w, t) ∈ s.ctl.ongoing ++ s.todoPairs := by
    simp only [Sys.inFlight] at h1; exact List.mem_append.mpr h1
  have m2 : (w', t) ∈ s.ctl.ongoing ++ s.todoPairs := by
    simp only [Sys.inFlight] at h2; exact List.mem_append.mpr h2
  generalize s.ctl.ongoing ++ s.todoPairs = l at h m1 m2
  induction l with
  | nil => simp at m1
  | cons x l ih =>
    simp only [List.map_cons, List.nodup_cons, List.mem_map, not_exists, not_and] at h
    rcases List.mem_cons.mp m1 with e1 | m1
    · rcases List.mem_cons.mp m2 with e2 | m2
      · rw [← e1] at e2; simp only [Prod.mk.injEq] at e2; exact e2.1.symm
      · exact absurd (by rw [← e1]) (h.1 _ m2)
    · rcases List.mem_cons.mp m2 with e2 | m2
      · exact absurd (by rw [← e2]) (h.1 _ m1)
      · exact ih h.2 m1 m2

/-! ### controller functions: frames and errors -/

theorem i2a_buildPrep_mem (cl : Cluster) (w : Worker) (cands : List (Ds × Host)) (l : List Ds) (c c' : Ctl)
    (p : List (Ds × Host)) (hr : buildPrep cl w cands c l = .ok (c', p)) : ∀ x, x ∈ p → x.1 ∈ l := by
  induction l generalizing c c' p with
  | nil => simp only [buildPrep, Except.ok.injEq, Prod.mk.injEq] at hr; obtain ⟨_, rfl⟩ := hr; simp
  | cons a l ih =>
    unfold buildPrep at hr
    split at hr
    · intro x hx; exact List.mem_cons_of_mem _ (ih _ _ _ hr x hx)
    · split at hr
      · split at hr
        · cases hr
        · rename_i c2 p2 hc2
          cases hr
          intro x hx
          rcases List.mem_cons.mp hx with rfl | hx
          · simp
          · exact List.mem_cons_of_mem _ (ih _ _ _ hc2 x hx)
      · split at hr
        · split at hr
          · dsimp only at hr
            split at hr
            · cases hr
            · rename_i c2 p2 hc2
              cases hr
              intro x hx
              rcases List.mem_cons.mp hx with rfl | hx
              · simp
              · exact List.mem_cons_of_mem _ (ih _ _ _ hc2 x hx)
          · cases hr
        · split at hr <;> cases hr

theorem i2a_buildPrep_err (cl : Cluster) (w : Worker) (cands : List (Ds × Host)) (l : List Ds) (c : Ctl) (e : String)
    (hr : buildPrep cl w cands c l = .error (.raised e)) : e = "ValueError: dataset not found in any host" := by
  induction l generalizing c with
  | nil => simp [buildPrep] at hr
  | cons x l ih =>
    unfold buildPrep at hr
    split at hr
    · exact ih _ hr
    · split at hr
      · split at hr
        · rename_i e3 h3; simp only [Except.error.injEq] at hr; subst hr; exact ih _ h3
        · cases hr
      · split at hr
        · split at hr
          · dsimp only at hr
            split at hr
            · rename_i e3 h3; simp only [Except.error.injEq] at hr; subst hr; exact ih _ h3
            · cases hr
          · simp at hr
        · split at hr
          · simp at hr
          · simp only [Except.error.injEq, Err.raised.injEq] at hr; exact hr.symm

theorem i2a_assignOne_err (j : Job) (cl : Cluster) (c : Ctl) (a : Asg) (e : String)
    (hr : assignOne j cl c a = .error (.raised e)) : e = "ValueError: dataset not found in any host" := by
  unfold assignOne at hr
  split at hr; · simp at hr
  split at hr; · simp at hr
  split at hr; · simp at hr
  split at hr
  · rename_i e2 hb; simp only [Except.error.injEq] at hr; subst hr; exact i2a_buildPrep_err _ _ _ _ _ _ hb
  · cases hr

theorem i2a_assignOne_frames (j : Job) (cl : Cluster) (c c' : Ctl) (a : Asg) (p : List (Ds × Host))
    (hr : assignOne j cl c a = .ok (c', p)) :
    c'.doneC = c.doneC ∧ c'.announced = c.announced ∧ c'.ptrack = c.ptrack ∧ c'.ptracked = c.ptracked ∧
    c'.purgeQ = c.purgeQ ∧ c'.outputs = c.outputs ∧ c'.tracker = c.tracker ∧ c'.tracked = c.tracked ∧
    c'.computable = c.computable.erase a.task ∧ (∀ x, x ∈ p → x.1 ∈ j.inputs a.task) := by
  unfold assignOne at hr
  split at hr; · cases hr
  split at hr; · cases hr
  split at hr; · cases hr
  split at hr; · cases hr
  rename_i c2 prep hb
  simp only [Except.ok.injEq, Prod.mk.injEq] at hr
  obtain ⟨rfl, rfl⟩ := hr
  have f1 := buildPrep_doneC _ _ _ _ _ _ _ hb
  have f2 := buildPrep_announced _ _ _ _ _ _ _ hb
  have f3 := buildPrep_ptrack _ _ _ _ _ _ _ hb
  have f4 := buildPrep_ptracked _ _ _ _ _ _ _ hb
  have f5 := buildPrep_purgeQ _ _ _ _ _ _ _ hb
  have f6 := buildPrep_outputs _ _ _ _ _ _ _ hb
  have f7 := buildPrep_tracker _ _ _ _ _ _ _ hb
  have f8 := buildPrep_tracked _ _ _ _ _ _ _ hb
  have f9 := buildPrep_computable _ _ _ _ _ _ _ hb
  exact ⟨f1, f2, f3, f4, f5, f6, f7, f8, by simp [f9], i2a_buildPrep_mem _ _ _ _ _ _ _ hb⟩

theorem i2a_fold_setPrep {α : Type} (g : α → Ds) (l : List α) (w : Worker) (c0 : Ctl) :
    (l.foldl (fun c p => setPreparingAt c (g p) w) c0).doneC = c0.doneC ∧
    (l.foldl (fun c p => setPreparingAt c (g p) w) c0).announced = c0.announced ∧
    (l.foldl (fun c p => setPreparingAt c (g p) w) c0).ptrack = c0.ptrack ∧
    (l.foldl (fun c p => setPreparingAt c (g p) w) c0).ptracked = c0.ptracked ∧
    (l.foldl (fun c p => setPreparingAt c (g p) w) c0).purgeQ = c0.purgeQ ∧
    (l.foldl (fun c p => setPreparingAt c (g p) w) c0).outputs = c0.outputs := by
  induction l generalizing c0 with
  | nil => simp
  | cons x l ih => simp only [List.foldl_cons]; have := ih (setPreparingAt c0 (g x) w); simpa using this

theorem i2a_planOne_frames (j : Job) (c c' : Ctl) (a : Asg) (prep : List (Ds × Host)) (h : planOne j c a prep = .ok c') :
    c'.doneC = c.doneC ∧ c'.announced = c.announced ∧ c'.ptrack = c.ptrack ∧ c'.ptracked = c.ptracked ∧
    c'.purgeQ = c.purgeQ ∧ c'.outputs = c.outputs := by
  unfold planOne at h
  split at h
  · cases h
  · dsimp only at h
    split at h
    · cases h
    · simp only [Except.ok.injEq] at h
      subst h
      have h1 := i2a_fold_setPrep (fun p : Ds × Host => p.1) prep a.worker c
      have h2 := i2a_fold_setPrep (fun d : Ds => d) (j.outputsOf a.task) a.worker
        (prep.foldl (fun c p => setPreparingAt c p.1 a.worker) c)
      obtain ⟨a1, a2, a3, a4, a5, a6⟩ := h1
      obtain ⟨b1, b2, b3, b4, b5, b6⟩ := h2
      exact ⟨by simp [b1, a1], by simp [b2, a2], by simp [b3, a3], by simp [b4, a4], by simp [b5, a5], by simp [b6, a6]⟩

theorem i2a_planOne_err (j : Job) (c : Ctl) (a : Asg) (prep : List (Ds × Host)) (e : Err)
    (h : planOne j c a prep = .error e) :
    (prep.any (fun p => !(c.ptracked p.1)) = true ∧ e = .raised "KeyError: purging_tracker[prep] in plan") ∨
    e = .raised "ValueError: double add" := by
  unfold planOne at h
  split at h
  · rename_i hc
    simp only [Except.error.injEq] at h
    exact Or.inl ⟨hc, h.symm⟩
  · dsimp only at h
    split at h
    · simp only [Except.error.injEq] at h; exact Or.inr h.symm
    · cases h

/-! ### a step that leaves everything Tier 2 talks about unchanged (up to non-`pubW` events and other monitors) -/

theorem i2a_congr {j : Job} {cl : Cluster} {s s' : Sys} (h : Inv2 j cl s)
    (hfl : ∀ w t, s'.inFlight w t ↔ s.inFlight w t)
    (hdone : s'.ctl.doneC = s.ctl.doneC) (hcomp : s'.ctl.computable = s.ctl.computable)
    (hdisp : s'.ctl.dispatched = s.ctl.dispatched) (hpt : s'.ctl.ptrack = s.ctl.ptrack)
    (hptd : s'.ctl.ptracked = s.ctl.ptracked) (hpq : s'.ctl.purgeQ = s.ctl.purgeQ)
    (hout : s'.ctl.outputs = s.ctl.outputs) (hann : s'.ctl.announced = s.ctl.announced)
    (htr : s'.ctl.tracker = s.ctl.tracker) (htrd : s'.ctl.tracked = s.ctl.tracked)
    (hran : s'.env.ran = s.env.ran) (hq : s'.env.queued = s.env.queued) (hprod : s'.env.produced = s.env.produced)
    (hev : ∀ w ds, s'.allEv.count (Event.pubW w ds) = s.allEv.count (Event.pubW w ds))
    (hinb : s'.phase ≠ .notifying → s'.phase ≠ .crashed → s'.inbox = [])
    (hviol : ∀ m, (m = "C02 input-not-produced" ∨ m = "C04 purge-before-consumer-done" ∨
        m = "C04 purge-needed-by-queued-task") → m ∉ s.env.viol → m ∉ s'.env.viol)
    (herr : ∀ m, (m = "KeyError: purging_tracker removal" ∨ m = "ValueError: removal from ongoing impossible" ∨
        m = "KeyError: purging_tracker[prep] in plan") → s'.err ≠ some m) : Inv2 j cl s' := by
  have hmem : ∀ w ds, Event.pubW w ds ∈ s'.allEv ↔ Event.pubW w ds ∈ s.allEv := by
    intro w ds; rw [← List.count_pos_iff, ← List.count_pos_iff, hev]
  refine ⟨?_, ?_, ?_, ?_, ?_, ?_, ?_, ?_, ?_, ?_, hinb, ?_, ?_, ?_, ?_, ?_, ?_,
    hviol _ (Or.inl rfl) h.no_input_not_produced, hviol _ (Or.inr (Or.inl rfl)) h.no_purge_before_consumer,
    hviol _ (Or.inr (Or.inr rfl)) h.no_purge_needed_queued,
    herr _ (Or.inl rfl), herr _ (Or.inr (Or.inl rfl)), herr _ (Or.inr (Or.inr rfl))⟩
  · intro w t hf; rw [hdone]; exact h.flight_not_done w t ((hfl w t).mp hf)
  · intro w t hf; exact h.flight_valid w t ((hfl w t).mp hf)
  · intro t ht; rw [hcomp] at ht; exact h.comp_valid t ht
  · intro t ht; rw [hdone] at ht; rw [hran]; exact h.done_ran t ht
  · intro t ht; rw [hran] at ht; rw [hdisp]; exact h.ran_disp t ht
  · intro w t hq'; rw [hq] at hq'; rw [hran]; exact h.queued_not_ran w t hq'
  · intro w t hf; rw [hq, hran]; exact h.flight_queued_or_ran w t ((hfl w t).mp hf)
  · intro w ds; rw [hev]; exact h.ev_count w ds
  · intro w ds he; rw [hran]; exact h.ev_ran w ds ((hmem w ds).mp he)
  · intro w ds he; exact (hfl _ _).mpr (h.ev_flight w ds ((hmem w ds).mp he))
  · intro ds t ht hd; rw [hdone] at hd; rw [hptd, hpt]; exact h.ptrack_sound ds t ht hd
  · intro ds hd; rw [hpq] at hd; rw [hdone, hout, hann]; exact h.purgeQ_ok ds hd
  · intro ds t ht ha; rw [hann] at ha; rw [htrd, htr]; exact h.tracker_complete ds t ht ha
  · intro t ht; rw [hcomp, hdisp] at ht; rw [hann]; exact h.ready t ht
  · intro ds hd; rw [hann] at hd; rw [hprod]; exact h.announced_produced ds hd
  · intro ds; rw [hprod, hran]; exact h.produced_iff ds

/-- a controller crash with an exception other than the three Tier-2 ones -/
theorem i2a_crash {j : Job} {cl : Cluster} {s : Sys} (h : Inv2 j cl s) (e : String)
    (h1 : e ≠ "KeyError: purging_tracker removal") (h2 : e ≠ "ValueError: removal from ongoing impossible")
    (h3 : e ≠ "KeyError: purging_tracker[prep] in plan") : Inv2 j cl (s.crash e) := by
  refine i2a_congr h (fun _ _ => Iff.rfl) rfl rfl rfl rfl rfl rfl rfl rfl rfl rfl rfl rfl rfl (fun _ _ => rfl)
    (fun _ hc => absurd rfl hc) (fun _ _ hv => hv) ?_
  intro m hm
  simp only [Sys.crash, ne_eq, Option.some.injEq]
  rcases hm with rfl | rfl | rfl
  · exact h1
  · exact h2
  · exact h3

/-! ### init -/

theorem i2a_init (j : Job) (cl : Cluster) (_wf : WF j cl) : Inv2 j cl (Sys.init j cl) := by
  refine ⟨?_, ?_, ?_, ?_, ?_, ?_, ?_, ?_, ?_, ?_, ?_, ?_, ?_, ?_, ?_, ?_, ?_, ?_, ?_, ?_, ?_, ?_, ?_⟩
  · intro w t _; rfl
  · intro w t hf; simp [Sys.inFlight, Sys.todoPairs, Sys.init, initCtl] at hf
  · intro t ht
    simp only [Sys.init, initCtl, Job.taskIds, List.mem_filter, List.mem_range] at ht
    exact ht.1
  · intro t ht; simp [Sys.init, initCtl] at ht
  · intro t ht; simp [Sys.init, Env.init] at ht
  · intro w t hq; simp [Sys.init, Env.init] at hq
  · intro w t hf; simp [Sys.inFlight, Sys.todoPairs, Sys.init, initCtl] at hf
  · intro w ds; simp [Sys.allEv, Sys.init, Env.init]
  · intro w ds he; simp [Sys.allEv, Sys.init, Env.init] at he
  · intro w ds he; simp [Sys.allEv, Sys.init, Env.init] at he
  · intro _ _; rfl
  · intro ds t ht _
    simp only [Sys.init, initCtl]
    refine ⟨?_, ht⟩
    cases hx : j.consumers ds with
    | nil => rw [hx] at ht; simp at ht
    | cons a b => simp
  · intro ds hd; simp [Sys.init, initCtl] at hd
  · intro ds t ht _
    simp only [Sys.init, initCtl]
    simp only [Job.consumers, Job.taskIds, List.mem_filter, List.mem_range, List.contains_iff_mem] at ht
    exact ⟨by simpa using ht.1, ht.2⟩
  · intro t ht ds hds
    simp only [Sys.init, initCtl] at ht
    rcases ht with ht | ht
    · simp only [List.mem_filter] at ht
      have := ht.2
      cases hx : j.inputs t with
      | nil => rw [hx] at hds; simp at hds
      | cons a b => simp [hx] at this
    · simp at ht
  · intro ds hd; simp [Sys.init, initCtl] at hd
  · intro ds; simp [Sys.init, Env.init]
  · simp [Sys.init, Env.init]
  · simp [Sys.init, Env.init]
  · simp [Sys.init, Env.init]
  · simp [Sys.init]
  · simp [Sys.init]
  · simp [Sys.init]

/-! ### assign -/

theorem i2a_applyCmds_transmits (j : Job) (cl : Cluster) (l : List Cmd) (e : Env)
    (hl : ∀ cmd ∈ l, ∃ ds a b, cmd = Cmd.transmit ds a b) :
    (applyCmds j cl e l).ran = e.ran ∧ (applyCmds j cl e l).produced = e.produced ∧
    (applyCmds j cl e l).pending = e.pending ∧ (applyCmds j cl e l).queued = e.queued ∧
    ∀ m, m ∈ (applyCmds j cl e l).viol → m ∈ e.viol ∨ m = "C04 transmit-from-missing" := by
  induction l generalizing e with
  | nil => exact ⟨rfl, rfl, rfl, rfl, fun m hm => Or.inl hm⟩
  | cons x l ih =>
    obtain ⟨ds, a, b, rfl⟩ := hl x (by simp)
    have := ih (applyCmd j cl e (.transmit ds a b)) (fun c hc => hl c (by simp [hc]))
    simp only [applyCmds, List.foldl_cons] at this ⊢
    obtain ⟨g1, g2, g3, g4, g5⟩ := this
    refine ⟨by rw [g1]; simp [applyCmd], by rw [g2]; simp [applyCmd], by rw [g3]; simp [applyCmd],
      by rw [g4]; simp [applyCmd], ?_⟩
    intro m hm
    rcases g5 m hm with hm | hm
    · rw [mem_viol_transmit] at hm
      rcases hm with hm | ⟨_, hm⟩
      · exact Or.inl hm
      · exact Or.inr hm
    · exact Or.inr hm

theorem i2a_assign_env (j : Job) (cl : Cluster) (e : Env) (a : Asg) (prep : List (Ds × Host)) :
    (applyCmds j cl e (actCmds j a prep)).ran = e.ran ∧ (applyCmds j cl e (actCmds j a prep)).produced = e.produced ∧
    (applyCmds j cl e (actCmds j a prep)).pending = e.pending ∧
    (applyCmds j cl e (actCmds j a prep)).queued = e.queued ++ [(a.worker, a.task)] ∧
    ∀ m, m ∈ (applyCmds j cl e (actCmds j a prep)).viol → m ∈ e.viol ∨ m = "C04 transmit-from-missing" ∨
      m = "C02 unknown-worker" ∨ m = "C02 busy-worker" ∨ m = "C02 double-dispatch" ∨ m = "C02 gpu" ∨
      ((j.inputs a.task).all (fun d => e.produced d) = false ∧ m = "C02 input-not-produced") ∨
      m = "C04 input-purged-on-target" ∨ m = "C02 input-neither-present-nor-in-transfer" := by
  have henv : applyCmds j cl e (actCmds j a prep) =
      applyCmd j cl (applyCmds j cl e ((prep.filter (fun p => p.2 != a.worker.host)).map
        (fun p => Cmd.transmit p.1 p.2 a.worker.host))) (.taskSeq a.worker a.task (asgOutputs j a.task)) := by
    simp [applyCmds, actCmds, List.foldl_append]
  have ht := i2a_applyCmds_transmits j cl ((prep.filter (fun p => p.2 != a.worker.host)).map
        (fun p => Cmd.transmit p.1 p.2 a.worker.host)) e (by
    intro cmd hm
    simp only [List.mem_map] at hm
    obtain ⟨p, _, rfl⟩ := hm
    exact ⟨_, _, _, rfl⟩)
  rw [henv]
  generalize applyCmds j cl e ((prep.filter (fun p => p.2 != a.worker.host)).map
        (fun p => Cmd.transmit p.1 p.2 a.worker.host)) = e1 at ht
  obtain ⟨g1, g2, g3, g4, g5⟩ := ht
  refine ⟨by simp [applyCmd, g1], by simp [applyCmd, g2], by simp [applyCmd, g3], by simp [applyCmd, g4], ?_⟩
  intro m hm
  rw [mem_viol_taskSeq, g2] at hm
  rcases hm with hm | ⟨_, rfl⟩ | ⟨_, rfl⟩ | ⟨_, rfl⟩ | ⟨_, rfl⟩ | ⟨h, rfl⟩ | ⟨_, rfl⟩ | ⟨_, rfl⟩
  · rcases g5 m hm with h | h
    · exact Or.inl h
    · exact Or.inr (Or.inl h)
  · simp
  · simp
  · simp
  · simp
  · exact Or.inr (Or.inr (Or.inr (Or.inr (Or.inr (Or.inr (Or.inl ⟨h, rfl⟩))))))
  · simp
  · simp

theorem i2a_step_assign (f : Sem) (j : Job) (cl : Cluster) (s s' : Sys) (a : Asg) (_wf : WF j cl)
    (h1 : Inv1 cl s) (h2 : Inv2 j cl s) (_h3 : Inv3 f j cl s) (_h4 : Inv4 j cl s)
    (hs : step f j cl s (.assign a) = some s') : Inv2 j cl s' := by
  simp only [step] at hs
  split at hs; · cases hs
  split at hs
  · cases hs
  · rename_i e he
    cases hs
    have := i2a_assignOne_err j cl s.ctl a e he
    subst this
    exact i2a_crash h2 _ (by simp) (by simp) (by simp)
  · rename_i c2 prep has
    cases hs
    obtain ⟨_, hd0, hd', hcomp, _, _, hon', _⟩ := once_assignOne j cl s.ctl c2 a prep h1.once has
    obtain ⟨f1, f2, f3, f4, f5, f6, f7, f8, f9, _⟩ := i2a_assignOne_frames j cl s.ctl c2 a prep has
    obtain ⟨g1, g2, g3, g4, g5⟩ := i2a_assign_env j cl s.env a prep
    generalize applyCmds j cl s.env (actCmds j a prep) = E at g1 g2 g3 g4 g5
    have hfl : ∀ w t, Sys.inFlight { s with ctl := c2, env := E, todo := s.todo ++ [(a, prep)] } w t ↔
        (s.inFlight w t ∨ (w, t) = (a.worker, a.task)) := by
      intro w t
      simp only [Sys.inFlight, Sys.todoPairs, hon', List.map_append, List.map_cons, List.map_nil, List.mem_append,
        List.mem_singleton]
      constructor
      · rintro (h1 | h1 | h1)
        · exact Or.inl (Or.inl h1)
        · exact Or.inl (Or.inr h1)
        · exact Or.inr h1
      · rintro ((h1 | h1) | h1)
        · exact Or.inl h1
        · exact Or.inr (Or.inl h1)
        · exact Or.inr (Or.inr h1)
    have hnr : s.env.ran a.task = false := by
      cases hr : s.env.ran a.task with
      | false => rfl
      | true => have := (h2.ran_disp _ hr).1; omega
    have hnd : s.ctl.doneC a.task = false := by
      cases hr : s.ctl.doneC a.task with
      | false => rfl
      | true => have := h2.done_ran _ hr; rw [hnr] at this; cases this
    have hall : Sys.allEv { s with ctl := c2, env := E, todo := s.todo ++ [(a, prep)] } = s.allEv := by
      simp only [Sys.allEv, g3]
    have hprodall : (j.inputs a.task).all (fun d => s.env.produced d) = true := by
      simp only [List.all_eq_true]
      intro d hd
      exact h2.announced_produced d (h2.ready _ (Or.inl hcomp) d hd)
    refine ⟨?_, ?_, ?_, ?_, ?_, ?_, ?_, ?_, ?_, ?_, h2.inbox_phase, ?_, ?_, ?_, ?_, ?_, ?_, ?_, ?_, ?_,
      h2.no_err_tracker, h2.no_err_ongoing, h2.no_err_plan⟩
    · intro w t hf
      simp only [f1]
      rcases (hfl w t).mp hf with hf | heq
      · exact h2.flight_not_done w t hf
      · simp only [Prod.mk.injEq] at heq; obtain ⟨_, rfl⟩ := heq; exact hnd
    · intro w t hf
      rcases (hfl w t).mp hf with hf | heq
      · exact h2.flight_valid w t hf
      · simp only [Prod.mk.injEq] at heq; obtain ⟨_, rfl⟩ := heq; exact h2.comp_valid _ hcomp
    · intro t ht; simp only [f9] at ht; exact h2.comp_valid t (List.mem_of_mem_erase ht)
    · intro t ht; simp only [f1] at ht; simp only [g1]; exact h2.done_ran t ht
    · intro t ht
      simp only [g1] at ht
      have := h2.ran_disp t ht
      simp only [hd']
      by_cases hne : t = a.task
      · subst hne; exact ⟨by simp, this.2⟩
      · exact ⟨by simp [upd_other _ _ _ _ hne, this.1], this.2⟩
    · intro w t hq
      simp only [g4, List.mem_append, List.mem_singleton] at hq
      simp only [g1]
      rcases hq with hq | heq
      · exact h2.queued_not_ran w t hq
      · simp only [Prod.mk.injEq] at heq; obtain ⟨_, rfl⟩ := heq; exact hnr
    · intro w t hf
      simp only [g4, g1, List.mem_append, List.mem_singleton]
      rcases (hfl w t).mp hf with hf | heq
      · rcases h2.flight_queued_or_ran w t hf with h | h
        · exact Or.inl (Or.inl h)
        · exact Or.inr h
      · exact Or.inl (Or.inr heq)
    · intro w ds; rw [hall]; exact h2.ev_count w ds
    · intro w ds he; rw [hall] at he; simp only [g1]; exact h2.ev_ran w ds he
    · intro w ds he; rw [hall] at he; exact (hfl _ _).mpr (Or.inl (h2.ev_flight w ds he))
    · intro ds t ht hd; simp only [f1] at hd; simp only [f3, f4]; exact h2.ptrack_sound ds t ht hd
    · intro ds hd; simp only [f5] at hd; simp only [f1, f6, f2]; exact h2.purgeQ_ok ds hd
    · intro ds t ht ha; simp only [f2] at ha; simp only [f7, f8]; exact h2.tracker_complete ds t ht ha
    · intro t ht ds hds
      simp only [f2]
      simp only [f9, hd'] at ht
      by_cases hne : t = a.task
      · subst hne; exact h2.ready _ (Or.inl hcomp) ds hds
      · rcases ht with ht | ht
        · exact h2.ready t (Or.inl (List.mem_of_mem_erase ht)) ds hds
        · simp only [upd_other _ _ _ _ hne] at ht; exact h2.ready t (Or.inr ht) ds hds
    · intro ds hd; simp only [f2] at hd; simp only [g2]; exact h2.announced_produced ds hd
    · intro ds; simp only [g2, g1]; exact h2.produced_iff ds
    · intro hm
      rcases g5 _ hm with h | h | h | h | h | h | ⟨h, _⟩ | h | h
      · exact h2.no_input_not_produced h
      · simp at h
      · simp at h
      · simp at h
      · simp at h
      · simp at h
      · rw [hprodall] at h; cases h
      · simp at h
      · simp at h
    · intro hm
      rcases g5 _ hm with h | h | h | h | h | h | ⟨_, h⟩ | h | h
      · exact h2.no_purge_before_consumer h
      all_goals simp at h
    · intro hm
      rcases g5 _ hm with h | h | h | h | h | h | ⟨_, h⟩ | h | h
      · exact h2.no_purge_needed_queued h
      all_goals simp at h

/-! ### plan1 -/

theorem i2a_step_plan1 (f : Sem) (j : Job) (cl : Cluster) (s s' : Sys) (_wf : WF j cl)
    (_h1 : Inv1 cl s) (h2 : Inv2 j cl s) (_h3 : Inv3 f j cl s) (_h4 : Inv4 j cl s) (hT : InvT j s)
    (hs : step f j cl s .plan1 = some s') : Inv2 j cl s' := by
  simp only [step] at hs
  split at hs; · cases hs
  split at hs
  · cases hs
  · rename_i a prep rest htd
    have hmem : (a.worker, a.task) ∈ s.todoPairs := by simp [Sys.todoPairs, htd]
    have hfa : s.inFlight a.worker a.task := Or.inr hmem
    split at hs
    · cases hs
    · rename_i e he
      cases hs
      have hne : e = "ValueError: double add" := by
        rcases i2a_planOne_err j s.ctl a prep _ he with ⟨hany, _⟩ | h
        · exfalso
          simp only [List.any_eq_true, Bool.not_eq_true'] at hany
          obtain ⟨x, hx, hpt⟩ := hany
          have hin := (hT.todo_prep a prep (by rw [htd]; simp) x hx).2
          have hcons : a.task ∈ j.consumers x.1 := by
            simp only [Job.consumers, Job.taskIds, List.mem_filter, List.mem_range, List.contains_iff_mem]
            exact ⟨h2.flight_valid _ _ hfa, hin⟩
          have := (h2.ptrack_sound x.1 a.task hcons (h2.flight_not_done _ _ hfa)).1
          rw [this] at hpt; cases hpt
        · simpa using h
      subst hne
      exact i2a_crash h2 _ (by simp) (by simp) (by simp)
    · rename_i c2 hpl
      cases hs
      obtain ⟨p1, p2, p3, p4, _, p6, _⟩ := planOne_frames j s.ctl c2 a prep hpl
      obtain ⟨q1, q2, q3, q4, q5, q6⟩ := i2a_planOne_frames j s.ctl c2 a prep hpl
      have hfl : ∀ w t, Sys.inFlight { s with ctl := c2, todo := rest } w t ↔ s.inFlight w t := by
        intro w t
        simp only [Sys.inFlight, Sys.todoPairs, p6, htd, List.map_cons, List.mem_append, List.mem_cons]
        grind
      refine i2a_congr h2 hfl q1 p1 p2 q3 q4 q5 q6 q2 p4 p3 rfl rfl rfl (fun _ _ => rfl) h2.inbox_phase
        (fun _ _ hv => hv) ?_
      intro m hm
      rcases hm with rfl | rfl | rfl
      · exact h2.no_err_tracker
      · exact h2.no_err_ongoing
      · exact h2.no_err_plan

/-! ### environment steps -/

theorem i2a_mem_outputsOf (j : Job) (t : Task) (ds : Ds) : ds ∈ j.outputsOf t ↔ ds.task = t ∧ ds.out < j.nOut t := by
  simp only [Job.outputsOf, List.mem_map, List.mem_range]
  constructor
  · rintro ⟨k, hk, rfl⟩; exact ⟨rfl, hk⟩
  · rintro ⟨rfl, hk⟩; exact ⟨ds.out, hk, rfl⟩

theorem i2a_publishOutputs_produced (f : Sem) (j : Job) (w : Worker) (t : Task) (args : List Val) (e : Env) (ds : Ds) :
    (publishOutputs f j w t args e).produced ds = true ↔ (e.produced ds = true ∨ ds ∈ j.outputsOf t) := by
  unfold publishOutputs
  generalize j.outputsOf t = l
  induction l generalizing e with
  | nil => simp
  | cons a l ih =>
    simp only [List.foldl_cons]
    rw [ih]
    simp only [List.mem_cons]
    by_cases hd : ds = a
    · subst hd; simp
    · simp [hd]

theorem i2a_envStep_run (f : Sem) (j : Job) (e e' : Env) (w : Worker) (t : Task)
    (h : envStep f j e (.run w t) = some e') :
    (w, t) ∈ e.queued ∧ e'.queued = e.queued.erase (w, t) ∧ e'.ran = upd e.ran t true ∧ e'.viol = e.viol ∧
    e'.pending = e.pending ++ (j.outputsOf t).map (fun ds => Event.pubW w ds) ∧
    (∀ ds, e'.produced ds = true ↔ (e.produced ds = true ∨ ds ∈ j.outputsOf t)) := by
  simp only [envStep] at h
  split at h
  · rename_i hc
    cases h
    have pf := publishOutputs_frame f j w t ((j.inputs t).map (fun d => (e.present w.host d).getD ""))
      { e with queued := e.queued.erase (w, t), ran := upd e.ran t true }
    obtain ⟨p1, _, p3, _, p5, _, _, p8⟩ := pf
    simp only [Bool.and_eq_true, List.contains_iff_mem] at hc
    refine ⟨hc.1, p1, p5, p3, p8, ?_⟩
    intro ds
    rw [i2a_publishOutputs_produced]
  · cases h

theorem i2a_envStep_io (f : Sem) (j : Job) (e e' : Env) (i : Nat) (h : envStep f j e (.io i) = some e') :
    e'.ran = e.ran ∧ e'.queued = e.queued ∧ e'.produced = e.produced ∧
    (∀ w ds, e'.pending.count (Event.pubW w ds) = e.pending.count (Event.pubW w ds)) ∧
    (∀ m, m ∈ e'.viol → m ∈ e.viol ∨ m = "C04 io-source-gone transmit" ∨ m = "C04 io-source-gone fetch") := by
  simp only [envStep] at h
  split at h
  · cases h
  · rename_i o ho
    cases o with
    | transmit ds src tgt =>
      dsimp only at h
      split at h
      · cases h
        refine ⟨by simp, by simp, by simp, by simp, ?_⟩
        intro m hm
        rw [mem_flag] at hm
        rcases hm with hm | ⟨_, hm⟩
        · exact Or.inl hm
        · exact Or.inr (Or.inl hm)
      · split at h
        · cases h; exact ⟨rfl, rfl, rfl, fun _ _ => rfl, fun m hm => Or.inl hm⟩
        · cases h
          refine ⟨rfl, rfl, rfl, ?_, fun m hm => Or.inl hm⟩
          intro w d
          simp [List.count_append]
    | fetch ds src =>
      dsimp only at h
      split at h
      · cases h
        refine ⟨by simp, by simp, by simp, by simp, ?_⟩
        intro m hm
        rw [mem_flag] at hm
        rcases hm with hm | ⟨_, hm⟩
        · exact Or.inl hm
        · exact Or.inr (Or.inr hm)
      · cases h
        refine ⟨rfl, rfl, rfl, ?_, fun m hm => Or.inl hm⟩
        intro w d
        simp [List.count_append]

theorem i2a_step_env (f : Sem) (j : Job) (cl : Cluster) (s s' : Sys) (es : EnvStep) (_wf : WF j cl)
    (h1 : Inv1 cl s) (h2 : Inv2 j cl s) (_h3 : Inv3 f j cl s) (_h4 : Inv4 j cl s) (hx : Inv2X j s)
    (hs : step f j cl s (.env es) = some s') : Inv2 j cl s' := by
  simp only [step] at hs
  split at hs; · cases hs
  rw [envStepP_eq f j s.env es h1.no_trim] at hs
  cases he : envStep f j s.env es with
  | none => simp [he] at hs
  | some e' =>
    simp only [he, Option.map_some, Option.some.injEq] at hs
    subst hs
    cases es with
    | io i =>
      obtain ⟨r1, r2, r3, r4, r5⟩ := i2a_envStep_io f j s.env e' i he
      refine i2a_congr h2 (fun _ _ => Iff.rfl) rfl rfl rfl rfl rfl rfl rfl rfl rfl rfl r1 r2 r3 ?_ h2.inbox_phase ?_ ?_
      · intro w ds
        simp only [Sys.allEv, List.count_append, r4]
      · intro m hm hv hm'
        rcases r5 m hm' with h | h | h
        · exact hv h
        · subst h; rcases hm with hm | hm | hm <;> simp at hm
        · subst h; rcases hm with hm | hm | hm <;> simp at hm
      · intro m hm
        rcases hm with rfl | rfl | rfl
        · exact h2.no_err_tracker
        · exact h2.no_err_ongoing
        · exact h2.no_err_plan
    | run w t =>
      obtain ⟨hq, r2, r3, r4, r5, r6⟩ := i2a_envStep_run f j s.env e' w t he
      have hfw : s.inFlight w t := h1.queued_flight w t hq
      have hnr : s.env.ran t = false := h2.queued_not_ran w t hq
      have hd1 : s.ctl.dispatched t = 1 := h1.flight_disp w t hfw
      have hvalid : t < j.tasks.length := h2.flight_valid w t hfw
      have hranmono : ∀ t', s.env.ran t' = true → upd s.env.ran t true t' = true := by
        intro t' h
        by_cases hh : t' = t
        · subst hh; simp
        · simp [upd_other _ _ _ _ hh, h]
      have hnodup : ((j.outputsOf t).map (fun ds => Event.pubW w ds)).Nodup := by
        unfold Job.outputsOf
        rw [List.map_map]
        exact List.Pairwise.map _ (fun a b hab heq => hab (by simpa using heq)) List.nodup_range
      have hmemnew : ∀ w' ds, Event.pubW w' ds ∈ (j.outputsOf t).map (fun ds => Event.pubW w ds) →
          w' = w ∧ ds.task = t ∧ ds.out < j.nOut t := by
        intro w' ds hm
        simp only [List.mem_map, Event.pubW.injEq] at hm
        obtain ⟨d, hd, rfl, rfl⟩ := hm
        exact ⟨rfl, (i2a_mem_outputsOf j t d).mp hd⟩
      have hall : Sys.allEv { s with env := e' } = s.allEv ++ (j.outputsOf t).map (fun ds => Event.pubW w ds) := by
        simp only [Sys.allEv, r5, List.append_assoc]
      refine ⟨h2.flight_not_done, h2.flight_valid, h2.comp_valid, ?_, ?_, ?_, ?_, ?_, ?_, ?_, h2.inbox_phase,
        h2.ptrack_sound, h2.purgeQ_ok, h2.tracker_complete, h2.ready, ?_, ?_, ?_, ?_, ?_,
        h2.no_err_tracker, h2.no_err_ongoing, h2.no_err_plan⟩
      · intro t' ht; simp only [r3]; exact hranmono t' (h2.done_ran t' ht)
      · intro t' ht
        simp only [r3] at ht
        by_cases hh : t' = t
        · subst hh; exact ⟨hd1, hvalid⟩
        · simp only [upd_other _ _ _ _ hh] at ht; exact h2.ran_disp t' ht
      · intro w' t' hq'
        simp only [r2] at hq'
        simp only [r3]
        have hq0 := List.mem_of_mem_erase hq'
        have hne : t' ≠ t := by
          intro heq; subst heq
          have := i2a_uniq_of_nodup s hx.flight_unique w' w t' (h1.queued_flight _ _ hq0) hfw
          subst this
          exact List.Nodup.not_mem_erase h1.queued_nodup hq'
        rw [upd_other _ _ _ _ hne]
        exact h2.queued_not_ran w' t' hq0
      · intro w' t' hf
        simp only [r2, r3]
        rcases h2.flight_queued_or_ran w' t' hf with h | h
        · by_cases heq : (w', t') = (w, t)
          · simp only [Prod.mk.injEq] at heq
            right; rw [heq.2]; simp
          · exact Or.inl ((List.mem_erase_of_ne heq).mpr h)
        · exact Or.inr (hranmono t' h)
      · intro w' ds
        rw [hall, List.count_append]
        have hc1 := h2.ev_count w' ds
        have hc2 := (List.nodup_iff_count.mp hnodup) (Event.pubW w' ds)
        by_cases hm : Event.pubW w' ds ∈ (j.outputsOf t).map (fun ds => Event.pubW w ds)
        · obtain ⟨_, htask, _⟩ := hmemnew w' ds hm
          have : s.allEv.count (Event.pubW w' ds) = 0 := by
            apply List.count_eq_zero_of_not_mem
            intro hin
            have := (h2.ev_ran w' ds hin).1
            rw [htask, hnr] at this; cases this
          omega
        · have := List.count_eq_zero_of_not_mem hm
          omega
      · intro w' ds hev
        rw [hall] at hev
        simp only [r3]
        rcases List.mem_append.mp hev with hev | hev
        · exact ⟨hranmono _ (h2.ev_ran w' ds hev).1, (h2.ev_ran w' ds hev).2⟩
        · obtain ⟨_, htask, hout⟩ := hmemnew w' ds hev
          rw [htask]
          exact ⟨by simp, hout⟩
      · intro w' ds hev
        rw [hall] at hev
        rcases List.mem_append.mp hev with hev | hev
        · exact h2.ev_flight w' ds hev
        · obtain ⟨rfl, htask, _⟩ := hmemnew w' ds hev
          rw [htask]; exact hfw
      · intro ds hd; exact (r6 ds).mpr (Or.inl (h2.announced_produced ds hd))
      · intro ds
        show e'.produced ds = true ↔ e'.ran ds.task = true ∧ ds.out < j.nOut ds.task
        rw [r6, r3, i2a_mem_outputsOf]
        have hpi := h2.produced_iff ds
        constructor
        · rintro (h | ⟨h, ho⟩)
          · exact ⟨hranmono _ (hpi.mp h).1, (hpi.mp h).2⟩
          · rw [h]; exact ⟨by simp, ho⟩
        · rintro ⟨hr, ho⟩
          by_cases hh : ds.task = t
          · exact Or.inr ⟨hh, by rw [← hh]; exact ho⟩
          · rw [upd_other _ _ _ _ hh] at hr
            exact Or.inl (hpi.mpr ⟨hr, ho⟩)
      · show _ ∉ e'.viol
        rw [r4]; exact h2.no_input_not_produced
      · show _ ∉ e'.viol
        rw [r4]; exact h2.no_purge_before_consumer
      · show _ ∉ e'.viol
        rw [r4]; exact h2.no_purge_needed_queued

end EkwVerif.Ctrl
