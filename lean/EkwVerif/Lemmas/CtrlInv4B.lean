/-
Tier 4 (`Inv4`) preservation, slice B: the steps `.plan1` and `.env es`.
-/
import EkwVerif.Lemmas.CtrlInv1Step
import EkwVerif.Lemmas.CtrlInvT

set_option linter.unusedVariables false

namespace EkwVerif.Ctrl

/-! ### `setPreparingAt` folds and `planOne` -/

theorem i4b_upd2 {α β γ : Type} [DecidableEq α] [DecidableEq β] (f : α → β → γ) (a : α) (b : β) (v : γ) (x : α) (y : β) :
    upd f a (upd (f a) b v) x y = if x = a ∧ y = b then v else f x y := by
  by_cases hx : x = a
  · subst hx
    by_cases hy : y = b
    · subst hy; simp
    · simp [hy]
  · simp [hx]

theorem i4b_fold_hostDs (w : Worker) (l : List Ds) (c : Ctl) (h : Host) (ds : Ds) :
    (l.foldl (fun c ds => setPreparingAt c ds w) c).hostDs h ds =
      if h = w.host ∧ ds ∈ l then .preparing else c.hostDs h ds := by
  induction l generalizing c with
  | nil => simp
  | cons x l ih =>
    simp only [List.foldl_cons]
    rw [ih]
    simp only [setPreparingAt, List.mem_cons, i4b_upd2]
    grind

theorem i4b_fold_dsHost (w : Worker) (l : List Ds) (c : Ctl) (h : Host) (ds : Ds) :
    (l.foldl (fun c ds => setPreparingAt c ds w) c).dsHost ds h =
      if h = w.host ∧ ds ∈ l ∧ c.dsHost ds h ≠ .available then .preparing else c.dsHost ds h := by
  induction l generalizing c with
  | nil => simp
  | cons x l ih =>
    simp only [List.foldl_cons]
    rw [ih]
    simp only [setPreparingAt, List.mem_cons, beq_iff_eq]
    by_cases hav : c.dsHost x w.host = .available
    · simp only [hav, if_true]; grind
    · simp only [hav, if_false, i4b_upd2]; grind

theorem i4b_fold_workerDs (w : Worker) (l : List Ds) (c : Ctl) (w' : Worker) (ds : Ds) :
    (l.foldl (fun c ds => setPreparingAt c ds w) c).workerDs w' ds =
      if w' = w ∧ ds ∈ l then .preparing else c.workerDs w' ds := by
  induction l generalizing c with
  | nil => simp
  | cons x l ih =>
    simp only [List.foldl_cons]
    rw [ih]
    simp only [setPreparingAt, List.mem_cons, i4b_upd2]
    grind

theorem i4b_fold_frame (w : Worker) (l : List Ds) (c : Ctl) :
    (l.foldl (fun c ds => setPreparingAt c ds w) c).doneC = c.doneC ∧
    (l.foldl (fun c ds => setPreparingAt c ds w) c).outputs = c.outputs ∧
    (l.foldl (fun c ds => setPreparingAt c ds w) c).announced = c.announced ∧
    (l.foldl (fun c ds => setPreparingAt c ds w) c).ongoing = c.ongoing := by
  induction l generalizing c with
  | nil => simp
  | cons x l ih =>
    simp only [List.foldl_cons]
    have := ih (setPreparingAt c x w)
    simpa using this

/-- the statuses after a successful `planOne` -/
theorem i4b_planOne_ok (j : Job) (c c' : Ctl) (a : Asg) (prep : List (Ds × Host))
    (h : planOne j c a prep = .ok c') :
    (∀ h ds, c'.hostDs h ds =
      if h = a.worker.host ∧ ds ∈ prep.map (·.1) ++ j.outputsOf a.task then .preparing else c.hostDs h ds) ∧
    (∀ ds h, c'.dsHost ds h =
      if h = a.worker.host ∧ ds ∈ prep.map (·.1) ++ j.outputsOf a.task ∧ c.dsHost ds h ≠ .available then .preparing
      else c.dsHost ds h) ∧
    (∀ w ds, c'.workerDs w ds =
      if w = a.worker ∧ ds ∈ prep.map (·.1) ++ j.outputsOf a.task then .preparing else c.workerDs w ds) ∧
    c'.doneC = c.doneC ∧ c'.outputs = c.outputs ∧ c'.announced = c.announced ∧
    c'.ongoing = c.ongoing ++ [(a.worker, a.task)] := by
  have hfold : (j.outputsOf a.task).foldl (fun c ds => setPreparingAt c ds a.worker)
        (prep.foldl (fun c p => setPreparingAt c p.1 a.worker) c) =
      (prep.map (·.1) ++ j.outputsOf a.task).foldl (fun c ds => setPreparingAt c ds a.worker) c := by
    rw [List.foldl_append, List.foldl_map]
  unfold planOne at h
  split at h
  · cases h
  · dsimp only at h
    split at h
    · cases h
    · simp only [Except.ok.injEq] at h
      subst h
      rw [hfold]
      obtain ⟨f1, f2, f3, f4⟩ := i4b_fold_frame a.worker (prep.map (·.1) ++ j.outputsOf a.task) c
      refine ⟨fun h ds => i4b_fold_hostDs _ _ _ _ _, fun ds h => i4b_fold_dsHost _ _ _ _ _,
        fun w ds => i4b_fold_workerDs _ _ _ _ _, f1, f2, f3, by simp only [f4]⟩

theorem i4b_planOne_err (j : Job) (c : Ctl) (a : Asg) (prep : List (Ds × Host)) (e : Err)
    (h : planOne j c a prep = .error e) :
    e = .raised "KeyError: purging_tracker[prep] in plan" ∨ e = .raised "ValueError: double add" := by
  unfold planOne at h
  split at h
  · simp only [Except.error.injEq] at h; exact Or.inl h.symm
  · dsimp only at h
    split at h
    · simp only [Except.error.injEq] at h; exact Or.inr h.symm
    · cases h

theorem i4b_host_mem (cl : Cluster) (w : Worker) (h : w ∈ cl.ids) : w.host ∈ cl.hosts := by
  simp only [Cluster.ids, List.mem_map] at h
  obtain ⟨p, hp, rfl⟩ := h
  simp only [Cluster.hosts, List.mem_eraseDups, List.mem_map]
  exact ⟨p, hp, rfl⟩

theorem i4b_outputsOf_mem (j : Job) (t : Task) (ds : Ds) :
    ds ∈ j.outputsOf t ↔ ds.task = t ∧ ds.out < j.nOut t := by
  simp only [Job.outputsOf, List.mem_map, List.mem_range]
  constructor
  · rintro ⟨k, hk, rfl⟩; exact ⟨rfl, hk⟩
  · rintro ⟨rfl, hk⟩; exact ⟨ds.out, hk, rfl⟩

/-! ### `.plan1` -/

theorem i4b_step_plan1 (f : Sem) (j : Job) (cl : Cluster) (s s' : Sys) (wf : WF j cl)
    (h1 : Inv1 cl s) (h2 : Inv2 j cl s) (h3 : Inv3 f j cl s) (h4 : Inv4 j cl s) (hT : InvT j s)
    (hs : step f j cl s .plan1 = some s') : Inv4 j cl s' := by
  simp only [step] at hs
  split at hs; · cases hs
  split at hs
  · cases hs
  · rename_i a prep rest htd
    split at hs
    · cases hs
    · rename_i e he
      cases hs
      have herr := i4b_planOne_err _ _ _ _ _ he
      refine ⟨h4.keys, h4.status_hosts, h4.workerDs_ok, h4.avail_present, h4.status_present, h4.transmit_out,
        h4.flight_present, h4.present_status, h4.ongoing_status, h4.evW_present, h4.evT_present, h4.avail_somewhere,
        h4.purged_unneeded, h4.present_produced, h4.no_transmit_from_missing, h4.no_fetch_from_missing,
        h4.no_purge_while_outstanding, h4.no_input_purged, h4.no_input_absent, h4.no_io_gone_t, h4.no_io_gone_f, ?_, ?_⟩
      · simp only [Sys.crash, ne_eq, Option.some.injEq]
        rcases herr with h | h <;> (simp only [Err.raised.injEq] at h; subst h; simp)
      · simp only [Sys.crash, ne_eq, Option.some.injEq]
        rcases herr with h | h <;> (simp only [Err.raised.injEq] at h; subst h; simp)
    · rename_i c2 hpl
      cases hs
      obtain ⟨pH, pD, pW, pdone, pout, pann, pong⟩ := i4b_planOne_ok j s.ctl c2 a prep hpl
      have hmemT : (a.worker, a.task) ∈ s.todoPairs := by simp [Sys.todoPairs, htd]
      have hflT : s.inFlight a.worker a.task := Or.inr hmemT
      have hwk : a.worker ∈ cl.ids := h1.flight_known _ _ hflT
      have hhost : a.worker.host ∈ cl.hosts := i4b_host_mem cl _ hwk
      have hneed : ∀ ds, needed j c2 ds ↔ needed j s.ctl ds := by
        intro ds; simp only [needed, pdone, pout]
      have hfl : ∀ w t, Sys.inFlight { s with ctl := c2, todo := rest } w t ↔ s.inFlight w t := by
        intro w t
        simp only [Sys.inFlight, Sys.todoPairs, pong, htd, List.map_cons, List.mem_append, List.mem_cons]
        grind
      have hmono : ∀ h ds, s.ctl.hostDs h ds ≠ .missing → c2.hostDs h ds ≠ .missing := by
        intro h ds hne; rw [pH]; split
        · simp
        · exact hne
      have hprep : ∀ ds, ds ∈ prep.map (·.1) → s.ctl.hostDs a.worker.host ds ≠ .missing := by
        intro ds hds
        simp only [List.mem_map] at hds
        obtain ⟨p, hp, rfl⟩ := hds
        exact (hT.todo_prep a prep (by simp [htd]) p hp).1
      refine ⟨?_, ?_, ?_, ?_, ?_, ?_, ?_, ?_, ?_, ?_, ?_, ?_,
        fun h ds hm hn => h4.purged_unneeded h ds hm ((hneed ds).mp hn), h4.present_produced,
        h4.no_transmit_from_missing, h4.no_fetch_from_missing,
        h4.no_purge_while_outstanding, h4.no_input_purged, h4.no_input_absent, h4.no_io_gone_t, h4.no_io_gone_f,
        h4.no_err_notfound, h4.no_err_pop⟩
      · -- keys
        intro h ds
        have := h4.keys h ds
        simp only [pH, pD]
        grind
      · -- status_hosts
        intro h ds hne
        simp only [pD] at hne
        split at hne
        · rename_i hc; rw [hc.1]; exact hhost
        · exact h4.status_hosts h ds hne
      · -- workerDs_ok
        intro w ds hne
        simp only [pW] at hne
        split at hne
        · rename_i hc
          obtain ⟨rfl, hm⟩ := hc
          refine ⟨?_, hwk⟩
          simp only [pH]; simp [hm]
        · have := h4.workerDs_ok w ds hne
          exact ⟨hmono _ _ this.1, this.2⟩
      · -- avail_present
        intro h ds hav hn
        simp only [pD] at hav
        split at hav
        · cases hav
        · exact h4.avail_present h ds hav ((hneed ds).mp hn)
      · -- status_present
        intro h ds hne hn han
        have hn' := (hneed ds).mp hn
        have han' : s.ctl.announced ds = true := by rw [← pann]; exact han
        by_cases hold : s.ctl.hostDs h ds = .missing
        · simp only [pH] at hne
          split at hne
          · rename_i hc
            obtain ⟨rfl, hm⟩ := hc
            rcases List.mem_append.mp hm with hm | hm
            · exact absurd hold (hprep ds hm)
            · -- an output of the planned task: announced ⇒ ran ⇒ present at the worker's host
              obtain ⟨htask, hk⟩ := (i4b_outputsOf_mem j a.task ds).mp hm
              have hprod := h2.announced_produced ds han'
              have hran := ((h2.produced_iff ds).mp hprod).1
              rw [htask] at hran
              have := h4.flight_present a.worker a.task hflT hran ds.out hk
                (by have : (⟨a.task, ds.out⟩ : Ds) = ds := by cases ds; simp_all
                    rw [this]; exact hn')
              have hds : (⟨a.task, ds.out⟩ : Ds) = ds := by cases ds; simp_all
              rw [hds] at this
              exact Or.inl this
          · exact absurd hold hne
        · exact h4.status_present h ds hold hn' han'
      · -- transmit_out
        intro ds src tgt hm
        obtain ⟨t1, t2, t3, t4⟩ := h4.transmit_out ds src tgt hm
        exact ⟨t1, t2, hmono _ _ t3, t4⟩
      · -- flight_present
        intro w t hf hran k hk hn
        exact h4.flight_present w t ((hfl w t).mp hf) hran k hk ((hneed _).mp hn)
      · -- present_status
        intro h ds hp
        rcases h4.present_status h ds hp with hst | ⟨w, hw, hm⟩
        · exact Or.inl (hmono _ _ hst)
        · simp only [Sys.todoPairs, htd, List.map_cons, List.mem_cons] at hm
          rcases hm with heq | hm
          · simp only [Prod.mk.injEq] at heq
            obtain ⟨rfl, htask⟩ := heq
            left
            have hprod := h4.present_produced h ds hp
            have hk := ((h2.produced_iff ds).mp hprod).2
            simp only [pH]
            rw [if_pos]
            · simp
            · refine ⟨hw.symm, List.mem_append.mpr (Or.inr ?_)⟩
              exact (i4b_outputsOf_mem j a.task ds).mpr ⟨htask, by rw [← htask]; exact hk⟩
          · exact Or.inr ⟨w, hw, by simpa [Sys.todoPairs] using hm⟩
      · -- ongoing_status
        intro w t hm hran k hk
        simp only [pong, List.mem_append, List.mem_singleton] at hm
        rcases hm with hm | heq
        · exact hmono _ _ (h4.ongoing_status w t hm hran k hk)
        · simp only [Prod.mk.injEq] at heq
          obtain ⟨rfl, rfl⟩ := heq
          rw [pH, if_pos]
          · simp
          · exact ⟨rfl, List.mem_append.mpr (Or.inr ((i4b_outputsOf_mem j a.task _).mpr ⟨rfl, hk⟩))⟩
      · -- evW_present
        intro w ds hev
        have := h4.evW_present w ds hev
        exact ⟨this.1, fun hn => this.2 ((hneed ds).mp hn)⟩
      · -- evT_present
        intro h ds hev
        have := h4.evT_present h ds hev
        exact ⟨this.1, fun hn => this.2 ((hneed ds).mp hn)⟩
      · -- avail_somewhere
        intro ds han hex
        simp only [pann, pdone] at han hex
        obtain ⟨h, hh, hav⟩ := h4.avail_somewhere ds han hex
        refine ⟨h, hh, ?_⟩
        simp only [pD]
        rw [if_neg]
        · exact hav
        · intro hc; exact hc.2.2 hav

end EkwVerif.Ctrl
