/-
What a task-sequence command CARRIES (audit C03 #1): `TaskSequence.publish`.

`Cmd.taskSeq w t pub` carries the publish set `act` copies from `Assignment.outputs`; the environment records it
(`Env.pubOf`) and a task body publishes ONLY the outputs named in it (`envRunSpec`). The controller detects completion
from the notices of ALL declared outputs (`Ctl.allPublished`), so the run would wait forever for the notice of an output
that the command left out. This file proves the invariant the completion rule needs:

  * every task sequence ever commanded carries exactly the declared outputs of its task (`InvPub.log_pub`), the recorded
    publish set of every dispatched task is that list and no command was trimmed (`pub_of`, `untrimmed`);
  * hence the system's environment step IS the specification `envRunSpec` ("publish what the command named") in every
    reachable state, and it coincides there with the all-outputs step `envStep` the invariant tiers reason about
    (`envStepP_spec`, `envStepP_reachable`).

The tier is inductive on its own (no other tier is needed).
-/
import EkwVerif.Lemmas.CtrlInv1Step

namespace EkwVerif.Ctrl

structure InvPub (j : Job) (s : Sys) : Prop where
  /-- every task sequence ever commanded carried exactly the declared outputs of its task -/
  log_pub : ∀ w t pb, Cmd.taskSeq w t pb ∈ s.env.log → pb = j.outputsOf t
  /-- the publish set the environment holds for a dispatched task is the list of its declared outputs -/
  pub_of : ∀ t, 1 ≤ s.env.dispatchedE t → s.env.pubOf t = j.outputsOf t
  /-- no command carried a publish set that omits a declared output -/
  untrimmed : ∀ t, s.env.trimmed t = false
  /-- `trimmed` says what it is meant to say about the recorded publish set -/
  trimmed_iff : ∀ t, 1 ≤ s.env.dispatchedE t → s.env.trimmed t = !(publishCovers j t (s.env.pubOf t))

/-- the same, as a predicate of the environment alone -/
structure PubOK (j : Job) (e : Env) : Prop where
  log_pub : ∀ w t pb, Cmd.taskSeq w t pb ∈ e.log → pb = j.outputsOf t
  pub_of : ∀ t, 1 ≤ e.dispatchedE t → e.pubOf t = j.outputsOf t
  untrimmed : ∀ t, e.trimmed t = false
  trimmed_iff : ∀ t, 1 ≤ e.dispatchedE t → e.trimmed t = !(publishCovers j t (e.pubOf t))

theorem publishCovers_all (j : Job) (t : Task) : publishCovers j t (j.outputsOf t) = true := by
  simp [publishCovers]

theorem pubOK_applyCmd (j : Job) (cl : Cluster) (e : Env) (cmd : Cmd) (h : PubOK j e)
    (hc : ∀ w t pb, cmd = .taskSeq w t pb → pb = j.outputsOf t) : PubOK j (applyCmd j cl e cmd) := by
  cases cmd with
  | taskSeq w t pb =>
    have hpb := hc w t pb rfl
    subst hpb
    refine ⟨?_, ?_, ?_, ?_⟩
    · intro w' t' pb' hm
      simp only [applyCmd, flag_log, List.mem_append, List.mem_singleton] at hm
      rcases hm with hm | hm
      · exact h.log_pub w' t' pb' hm
      · simp only [Cmd.taskSeq.injEq] at hm; obtain ⟨_, rfl, rfl⟩ := hm; rfl
    · intro t' ht'
      simp only [applyCmd, flag_pubOf, flag_dispatchedE] at ht' ⊢
      by_cases hh : t' = t
      · subst hh; simp
      · rw [upd_other _ _ _ _ hh] at ht' ⊢; exact h.pub_of t' ht'
    · intro t'
      simp only [applyCmd, flag_trimmed, publishCovers_all]
      by_cases hh : t' = t
      · subst hh; simp
      · rw [upd_other _ _ _ _ hh]; exact h.untrimmed t'
    · intro t' ht'
      simp only [applyCmd, flag_pubOf, flag_dispatchedE, flag_trimmed] at ht' ⊢
      by_cases hh : t' = t
      · subst hh; simp
      · rw [upd_other _ _ _ _ hh] at ht' ⊢; rw [upd_other _ _ _ _ hh]; exact h.trimmed_iff t' ht'
  | transmit ds a b =>
    refine ⟨?_, ?_, ?_, ?_⟩
    · intro w t pb hm
      simp only [applyCmd, flag_log, List.mem_append, List.mem_singleton] at hm
      rcases hm with hm | hm
      · exact h.log_pub w t pb hm
      · cases hm
    · intro t ht; simp only [applyCmd, flag_pubOf, flag_dispatchedE] at ht ⊢; exact h.pub_of t ht
    · intro t; simp only [applyCmd, flag_trimmed]; exact h.untrimmed t
    · intro t ht; simp only [applyCmd, flag_pubOf, flag_dispatchedE, flag_trimmed] at ht ⊢; exact h.trimmed_iff t ht
  | fetch ds a =>
    refine ⟨?_, ?_, ?_, ?_⟩
    · intro w t pb hm
      simp only [applyCmd, flag_log, List.mem_append, List.mem_singleton] at hm
      rcases hm with hm | hm
      · exact h.log_pub w t pb hm
      · cases hm
    · intro t ht; simp only [applyCmd, flag_pubOf, flag_dispatchedE] at ht ⊢; exact h.pub_of t ht
    · intro t; simp only [applyCmd, flag_trimmed]; exact h.untrimmed t
    · intro t ht; simp only [applyCmd, flag_pubOf, flag_dispatchedE, flag_trimmed] at ht ⊢; exact h.trimmed_iff t ht
  | purge a ds =>
    refine ⟨?_, ?_, ?_, ?_⟩
    · intro w t pb hm
      simp only [applyCmd, flag_log, List.mem_append, List.mem_singleton] at hm
      rcases hm with hm | hm
      · exact h.log_pub w t pb hm
      · cases hm
    · intro t ht; simp only [applyCmd, flag_pubOf, flag_dispatchedE] at ht ⊢; exact h.pub_of t ht
    · intro t; simp only [applyCmd, flag_trimmed]; exact h.untrimmed t
    · intro t ht; simp only [applyCmd, flag_pubOf, flag_dispatchedE, flag_trimmed] at ht ⊢; exact h.trimmed_iff t ht

theorem pubOK_applyCmds (j : Job) (cl : Cluster) (cmds : List Cmd) (e : Env) (h : PubOK j e)
    (hc : ∀ cmd ∈ cmds, ∀ w t pb, cmd = .taskSeq w t pb → pb = j.outputsOf t) : PubOK j (applyCmds j cl e cmds) := by
  induction cmds generalizing e with
  | nil => exact h
  | cons c cs ih =>
    simp only [applyCmds, List.foldl_cons]
    exact ih _ (pubOK_applyCmd j cl e c h (hc c (by simp))) (fun cmd hm => hc cmd (by simp [hm]))

theorem actCmds_pub (j : Job) (a : Asg) (prep : List (Ds × Host)) :
    ∀ cmd ∈ actCmds j a prep, ∀ w t pb, cmd = .taskSeq w t pb → pb = j.outputsOf t := by
  intro cmd hm w t pb he
  subst he
  simp only [actCmds, List.mem_append, List.mem_map, List.mem_singleton] at hm
  rcases hm with ⟨p, _, hp⟩ | hm
  · cases hp
  · simp only [Cmd.taskSeq.injEq] at hm; obtain ⟨_, rfl, rfl⟩ := hm; rfl

/-- an environment step of the system changes nothing the publish bookkeeping talks about -/
theorem envStepP_pubframe (f : Sem) (j : Job) (e e' : Env) (es : EnvStep) (h : envStepP f j e es = some e') :
    e'.log = e.log ∧ e'.pubOf = e.pubOf ∧ e'.trimmed = e.trimmed ∧ e'.dispatchedE = e.dispatchedE := by
  have pl : ∀ (w : Worker) (t : Task) (args : List Val) (l : List Ds) (e0 : Env),
      (publishList f w t args l e0).log = e0.log ∧ (publishList f w t args l e0).pubOf = e0.pubOf ∧
      (publishList f w t args l e0).trimmed = e0.trimmed ∧ (publishList f w t args l e0).dispatchedE = e0.dispatchedE := by
    intro w t args l
    unfold publishList
    induction l with
    | nil => intro e0; simp
    | cons a l ih => intro e0; simp only [List.foldl_cons]; rw [(ih _).1, (ih _).2.1, (ih _).2.2.1, (ih _).2.2.2]; simp
  cases es with
  | run w t =>
    simp only [envStepP] at h
    split at h
    · simp only [envRunSpec] at h
      split at h
      · cases h; exact pl _ _ _ _ _
      · cases h
    · simp only [envStep] at h
      split at h
      · cases h; rw [publishOutputs_eq_list]; exact pl _ _ _ _ _
      · cases h
  | io i =>
    simp only [envStepP, envStep] at h
    split at h
    · cases h
    · rename_i o ho
      cases o with
      | transmit ds src tgt =>
        dsimp only at h
        split at h
        · cases h; simp
        · split at h <;> (cases h; exact ⟨rfl, rfl, rfl, rfl⟩)
      | fetch ds src =>
        dsimp only at h
        split at h
        · cases h; simp
        · cases h; exact ⟨rfl, rfl, rfl, rfl⟩

theorem markDelivered_pubframe (e : Env) (evs : List Event) :
    (markDelivered e evs).log = e.log ∧ (markDelivered e evs).pubOf = e.pubOf ∧
    (markDelivered e evs).trimmed = e.trimmed ∧ (markDelivered e evs).dispatchedE = e.dispatchedE := by
  induction evs generalizing e with
  | nil => simp [markDelivered]
  | cons x l ih =>
    simp only [markDelivered, List.foldl_cons] at ih ⊢
    cases x <;> simp [ih]

theorem PubOK.congr {j : Job} {e e' : Env} (h : PubOK j e) (h1 : e'.log = e.log) (h2 : e'.pubOf = e.pubOf)
    (h3 : e'.trimmed = e.trimmed) (h4 : e'.dispatchedE = e.dispatchedE) : PubOK j e' :=
  ⟨fun w t pb hm => h.log_pub w t pb (by rw [← h1]; exact hm), fun t ht => by rw [h2]; exact h.pub_of t (by rw [← h4]; exact ht),
    fun t => by rw [h3]; exact h.untrimmed t, fun t ht => by rw [h3, h2]; exact h.trimmed_iff t (by rw [← h4]; exact ht)⟩

theorem pubOK_step (f : Sem) (j : Job) (cl : Cluster) (s s' : Sys) (st : Step) (h : PubOK j s.env)
    (hs : step f j cl s st = some s') : PubOK j s'.env := by
  cases st with
  | enter =>
    simp only [step] at hs
    split at hs; · cases hs
    split at hs <;> (cases hs; exact h)
  | assign a =>
    simp only [step] at hs
    split at hs; · cases hs
    split at hs
    · cases hs
    · cases hs; exact h
    · cases hs; exact pubOK_applyCmds j cl _ _ h (actCmds_pub j a _)
  | endAssign => simp only [step] at hs; split at hs; · cases hs
                 cases hs; exact h
  | plan1 =>
    simp only [step] at hs
    split at hs; · cases hs
    split at hs
    · cases hs
    · split at hs
      · cases hs
      · cases hs; exact h
      · cases hs; exact h
  | endPlan => simp only [step] at hs; split at hs; · cases hs
               cases hs; exact h
  | flushF1 =>
    simp only [step] at hs
    split at hs; · cases hs
    split at hs
    · cases hs
    · rename_i ds hst rest hq
      cases hs; exact pubOK_applyCmd j cl s.env (.fetch ds hst) h (by intro w t pb he; cases he)
  | endFlushF => simp only [step] at hs; split at hs; · cases hs
                 cases hs; exact h
  | flushP1 =>
    simp only [step] at hs
    split at hs; · cases hs
    split at hs
    · cases hs
    · rename_i ds0 rest hq
      split at hs
      · cases hs
      · cases hs; exact h
      · rename_i c2 cmds hph
        cases hs
        have hcm := purgeHosts_cmds cl ds0 cl.hosts s.ctl c2 cmds hph
        refine pubOK_applyCmds j cl _ _ h ?_
        intro cmd hm w t pb he
        obtain ⟨hh, hc⟩ := hcm cmd hm
        rw [hc] at he; cases he
  | endFlush => simp only [step] at hs; split at hs; · cases hs
                cases hs; exact h
  | recv evs =>
    simp only [step] at hs
    split at hs; · cases hs
    split at hs
    · cases hs
    · rename_i pend htk
      cases hs
      have := markDelivered_pubframe { s.env with pending := pend } evs
      exact h.congr this.1 this.2.1 this.2.2.1 this.2.2.2
  | notify1 =>
    simp only [step] at hs
    split at hs; · cases hs
    split at hs
    · cases hs
    · split at hs
      · cases hs
      · cases hs; exact h
      · cases hs; exact h
  | endNotify => simp only [step] at hs; split at hs; · cases hs
                 cases hs; exact h
  | env es =>
    simp only [step] at hs
    split at hs; · cases hs
    cases he : envStepP f j s.env es with
    | none => simp [he] at hs
    | some e' =>
      simp only [he, Option.map_some, Option.some.injEq] at hs
      subst hs
      have := envStepP_pubframe f j s.env e' es he
      exact h.congr this.1 this.2.1 this.2.2.1 this.2.2.2

theorem pubOK_reachable (f : Sem) (j : Job) (cl : Cluster) (s : Sys) (hr : Reachable f j cl s) : PubOK j s.env := by
  induction hr with
  | init => exact ⟨by simp [Sys.init, Env.init], by simp [Sys.init, Env.init], by simp [Sys.init, Env.init],
      by simp [Sys.init, Env.init]⟩
  | step s s' st _ hs ih => exact pubOK_step f j cl s s' st ih hs

theorem invPub_reachable (f : Sem) (j : Job) (cl : Cluster) (s : Sys) (hr : Reachable f j cl s) : InvPub j s :=
  let h := pubOK_reachable f j cl s hr
  ⟨h.log_pub, h.pub_of, h.untrimmed, h.trimmed_iff⟩

/-- **The system's environment step is its specification.** Whenever `trimmed` says what it is meant to say about the
publish set recorded for `t`, the body of `t` publishes exactly the outputs its command named (`envRunSpec`): the case
split in `envStepP` is only a presentation of `envRunSpec`. -/
theorem envStepP_spec (f : Sem) (j : Job) (e : Env) (w : Worker) (t : Task)
    (h : e.trimmed t = !(publishCovers j t (e.pubOf t))) : envStepP f j e (.run w t) = envRunSpec f j e w t := by
  simp only [envStepP]
  split
  · rfl
  · rename_i ht
    have hcov : publishCovers j t (e.pubOf t) = true := by
      cases hc : publishCovers j t (e.pubOf t) with
      | true => rfl
      | false => rw [hc] at h; simp [h] at ht
    have hf : (j.outputsOf t).filter (fun ds => (e.pubOf t).contains ds) = j.outputsOf t := by
      rw [List.filter_eq_self]
      simpa [publishCovers] using hcov
    simp only [envStep, envRunSpec, hf, publishOutputs_eq_list]

theorem inv1_reach (f : Sem) (j : Job) (cl : Cluster) (hw : cl.ids.Nodup) (s : Sys)
    (hr : Reachable f j cl s) : Inv1 cl s := by
  induction hr with
  | init => exact inv1_init j cl hw
  | step s s' st _ hs ih => exact inv1_step f j cl s s' st ih hs

/-- in every reachable state: the environment publishes what the commands named, and that is every declared output -/
theorem envStepP_reachable (f : Sem) (j : Job) (cl : Cluster) (hw : cl.ids.Nodup) (s : Sys) (hr : Reachable f j cl s)
    (w : Worker) (t : Task) :
    envStepP f j s.env (.run w t) = envRunSpec f j s.env w t ∧ envStepP f j s.env (.run w t) = envStep f j s.env (.run w t) := by
  have hp := pubOK_reachable f j cl s hr
  have h1 : Inv1 cl s := inv1_reach f j cl hw s hr
  refine ⟨?_, envStepP_eq f j s.env (.run w t) h1.no_trim⟩
  by_cases hq : (w, t) ∈ s.env.queued
  · have hd : 1 ≤ s.env.dispatchedE t := by
      rw [h1.disp_eq, h1.flight_disp w t (h1.queued_flight w t hq)]; exact Nat.le_refl 1
    exact envStepP_spec f j s.env w t (hp.trimmed_iff t hd)
  · simp [envStepP, envRunSpec, envStep, hq]

end EkwVerif.Ctrl
