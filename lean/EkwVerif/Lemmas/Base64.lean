import EkwVerif.Model.Base64

namespace EkwVerif.B64

theorem d_e : ∀ i : Fin 64, d (e i.val) = some i.val := by decide +kernel

theorem e_ne_pad : ∀ i : Fin 64, e i.val ≠ '=' := by decide +kernel

theorem d_e' (i : Nat) (h : i < 64) : d (e i) = some i := d_e ⟨i, h⟩
theorem e_ne_pad' (i : Nat) (h : i < 64) : e i ≠ '=' := e_ne_pad ⟨i, h⟩

/-- **base64 round trip**: decoding the encoding of any byte string gives the byte string. -/
theorem decode_encode (bs : List Nat) (h : ∀ b ∈ bs, b < 256) : decode (encode bs) = some bs := by
  induction bs using encode.induct with
  | case1 => rfl
  | case2 a =>
    have ha : a < 256 := h a (by simp)
    simp only [encode, decode, ↓reduceIte, ne_eq, not_true_eq_false, tail2]
    rw [d_e' _ (by omega), d_e' _ (by omega)]
    simp only [Option.some.injEq, List.cons.injEq, and_true]
    omega
  | case3 a b =>
    have ha : a < 256 := h a (by simp)
    have hb : b < 256 := h b (by simp)
    have hy : e (b % 16 * 4) ≠ '=' := e_ne_pad' _ (by omega)
    simp only [encode, decode, ↓reduceIte, ne_eq, not_true_eq_false, hy, tail3]
    rw [d_e' _ (by omega), d_e' _ (by omega), d_e' _ (by omega)]
    simp only [Option.some.injEq, List.cons.injEq, and_true]
    omega
  | case4 a b c rest ih =>
    have ha : a < 256 := h a (by simp)
    have hb : b < 256 := h b (by simp)
    have hc : c < 256 := h c (by simp)
    have hz : e (c % 64) ≠ '=' := e_ne_pad' _ (by omega)
    have ih' := ih (fun x hx => h x (by simp [hx]))
    simp only [encode, decode, hz, ↓reduceIte, quad, ih']
    rw [d_e' _ (by omega), d_e' _ (by omega), d_e' _ (by omega), d_e' _ (by omega)]
    simp only [List.cons_append, List.nil_append, Option.some.injEq, List.cons.injEq, and_true]
    omega

end EkwVerif.B64
