/-
The auxiliary tier `Inv2X` (definition in `CtrlInv2X.lean`) is an invariant: it holds initially and
is preserved by every step, given the pre-state Tier 1 and Tier 4.
-/
import EkwVerif.Lemmas.CtrlInv2B1

set_option linter.unusedVariables false
set_option linter.unusedSimpArgs false

namespace EkwVerif.Ctrl

theorem i2b_inv2x_init (j : Job) (cl : Cluster) : Inv2X j (Sys.init j cl) := by
  refine ⟨?_, ?_, ?_⟩
  · intro t ht; simpa [Sys.init, initCtl] using ht
  · simp [Sys.init, initCtl, Sys.todoPairs]
  · intro h ds he; simp [Sys.init, Sys.allEv, Env.init] at he

theorem Inv2X.i2b_congr {j : Job} {s s' : Sys} (h : Inv2X j s)
    (htd : ∀ t, s'.ctl.tracked t = true → s.ctl.tracked t = true)
    (hfl : ((s'.ctl.ongoing ++ s'.todoPairs).map (·.2)).Sublist ((s.ctl.ongoing ++ s.todoPairs).map (·.2)))
    (hev : ∀ a ds, Event.pubT a ds ∈ s'.allEv → Event.pubT a ds ∈ s.allEv ∨ s'.env.produced ds = true)
    (hprod : ∀ ds, s.env.produced ds = true → s'.env.produced ds = true) : Inv2X j s' := by
  refine ⟨fun t ht => h.tracked_valid t (htd t ht), hfl.nodup h.flight_unique, ?_⟩
  intro a ds he
  rcases hev a ds he with he | he
  · exact hprod ds (h.evT_produced a ds he)
  · exact he

/-! ### `tracked` only shrinks -/

theorem i2b_considerChild_tracked_mono (c : Ctl) (ds : Ds) (ch t : Task)
    (h : (considerChild c ds ch).tracked t = true) : c.tracked t = true := by
  unfold considerChild at h
  split at h
  · dsimp only at h
    split at h
    · simp only at h
      by_cases htc : t = ch
      · subst htc; simp at h
      · rw [upd_other _ _ _ _ htc] at h; exact h
    · exact h
  · exact h

theorem i2b_considerComputable_tracked_mono (c : Ctl) (ds : Ds) (t : Task)
    (h : (considerComputable c ds).tracked t = true) : c.tracked t = true := by
  unfold considerComputable at h
  generalize (if c.ptracked ds = true then c.ptrack ds else []) = l at h
  induction l generalizing c with
  | nil => exact h
  | cons a l ih => exact i2b_considerChild_tracked_mono c ds a t (ih _ h)

theorem i2b_notifyEvent_tracked_mono (j : Job) (c c' : Ctl) (ev : Event) (hr : notifyEvent j c ev = .ok c')
    (t : Task) (h : c'.tracked t = true) : c.tracked t = true := by
  cases ev with
  | payload ds v => simp only [notifyEvent, Except.ok.injEq] at hr; subst hr; exact h
  | pubT a ds =>
    simp only [notifyEvent, Except.ok.injEq] at hr; subst hr
    simpa using i2b_considerComputable_tracked_mono _ ds t h
  | pubW w ds =>
    simp only [notifyEvent] at hr
    split at hr
    · split at hr
      · cases hr
      · rename_i c4 hci
        have f := completeInputs_tracked _ _ _ _ _ hci
        split at hr
        · simp only [Except.ok.injEq] at hr; subst hr
          simp only [f] at h
          simpa using i2b_considerComputable_tracked_mono _ ds t h
        · cases hr
    · simp only [Except.ok.injEq] at hr; subst hr
      simpa using i2b_considerComputable_tracked_mono _ ds t h

theorem i2b_assignOne_tracked (j : Job) (cl : Cluster) (c c' : Ctl) (a : Asg) (p : List (Ds × Host))
    (hr : assignOne j cl c a = .ok (c', p)) : c'.tracked = c.tracked := by
  unfold assignOne at hr
  split at hr; · cases hr
  split at hr; · cases hr
  split at hr; · cases hr
  split at hr; · cases hr
  rename_i c2 prep hb
  simp only [Except.ok.injEq, Prod.mk.injEq] at hr
  obtain ⟨rfl, rfl⟩ := hr
  have := buildPrep_tracked _ _ _ _ _ _ _ hb
  simpa using this

/-! ### environment steps: `produced` grows, a new `pubT` is about a stored (hence produced) dataset -/

theorem i2b_publishOutputs_produced_mono (f : Sem) (j : Job) (w : Worker) (t : Task) (args : List Val) (e : Env)
    (ds : Ds) (h : e.produced ds = true) : (publishOutputs f j w t args e).produced ds = true := by
  unfold publishOutputs
  generalize j.outputsOf t = l
  induction l generalizing e with
  | nil => exact h
  | cons a l ih =>
    simp only [List.foldl_cons]
    apply ih
    simp only
    by_cases hd : ds = a
    · subst hd; simp
    · rw [upd_other _ _ _ _ hd]; exact h

theorem i2b_envStep_evT (f : Sem) (j : Job) (e e' : Env) (es : EnvStep)
    (hpp : ∀ h ds, (e.present h ds).isSome = true → e.produced ds = true)
    (hs : envStep f j e es = some e') :
    (∀ ds, e.produced ds = true → e'.produced ds = true) ∧
    (∀ a ds, Event.pubT a ds ∈ e'.pending → Event.pubT a ds ∈ e.pending ∨ e'.produced ds = true) := by
  cases es with
  | run w t =>
    simp only [envStep] at hs
    split at hs
    · cases hs
      have pf := publishOutputs_frame f j w t ((j.inputs t).map (fun d => (e.present w.host d).getD ""))
        { e with queued := e.queued.erase (w, t), ran := upd e.ran t true }
      refine ⟨fun ds h => i2b_publishOutputs_produced_mono f j w t _ _ ds h, ?_⟩
      intro a ds he
      rw [pf.2.2.2.2.2.2.2] at he
      rcases List.mem_append.mp he with he | he
      · exact Or.inl he
      · simp only [List.mem_map] at he
        obtain ⟨d, _, hd⟩ := he
        cases hd
    · cases hs
  | io i =>
    simp only [envStep] at hs
    split at hs
    · cases hs
    · rename_i o ho
      cases o with
      | transmit ds src tgt =>
        dsimp only at hs
        split at hs
        · cases hs
          exact ⟨fun _ h => by simpa using h, fun a d he => Or.inl (by simpa using he)⟩
        · rename_i v hv
          split at hs
          · cases hs; exact ⟨fun _ h => h, fun a d he => Or.inl he⟩
          · cases hs
            refine ⟨fun _ h => h, fun a d he => ?_⟩
            simp only [List.mem_append, List.mem_singleton] at he
            rcases he with he | he
            · exact Or.inl he
            · simp only [Event.pubT.injEq] at he
              obtain ⟨_, rfl⟩ := he
              exact Or.inr (hpp src d (by rw [hv]; rfl))
      | fetch ds src =>
        dsimp only at hs
        split at hs
        · cases hs
          exact ⟨fun _ h => by simpa using h, fun a d he => Or.inl (by simpa using he)⟩
        · cases hs
          refine ⟨fun _ h => h, fun a d he => ?_⟩
          simp only [List.mem_append, List.mem_singleton] at he
          rcases he with he | he
          · exact Or.inl he
          · cases he

/-! ### preservation -/

theorem i2b_inv2x_step (f : Sem) (j : Job) (cl : Cluster) (s s' : Sys) (st : Step)
    (h1 : Inv1 cl s) (h4 : Inv4 j cl s) (hx : Inv2X j s)
    (hs : step f j cl s st = some s') : Inv2X j s' := by
  cases st with
  | enter =>
    simp only [step] at hs
    split at hs; · cases hs
    rename_i hp
    have hp' : s.phase = .top := by simpa using hp
    have htodo : s.todo = [] := h1.todo_phase (by simp [hp']) (by simp [hp']) (by simp [hp'])
    split at hs
    · cases hs
      exact hx.i2b_congr (fun _ h => h) (List.Sublist.refl _) (fun _ _ h => Or.inl h) (fun _ h => h)
    · cases hs
      exact hx.i2b_congr (fun _ h => h) (by simp [Sys.todoPairs, htodo]) (fun _ _ h => Or.inl h) (fun _ h => h)
  | endAssign =>
    simp only [step] at hs
    split at hs; · cases hs
    cases hs
    exact hx.i2b_congr (fun _ h => h) (List.Sublist.refl _) (fun _ _ h => Or.inl h) (fun _ h => h)
  | endPlan =>
    simp only [step] at hs
    split at hs; · cases hs
    cases hs
    exact hx.i2b_congr (fun _ h => h) (List.Sublist.refl _) (fun _ _ h => Or.inl h) (fun _ h => h)
  | endFlushF =>
    simp only [step] at hs
    split at hs; · cases hs
    cases hs
    exact hx.i2b_congr (fun _ h => h) (List.Sublist.refl _) (fun _ _ h => Or.inl h) (fun _ h => h)
  | endFlush =>
    simp only [step] at hs
    split at hs; · cases hs
    cases hs
    exact hx.i2b_congr (fun _ h => h) (List.Sublist.refl _) (fun _ _ h => Or.inl h) (fun _ h => h)
  | endNotify =>
    simp only [step] at hs
    split at hs; · cases hs
    cases hs
    exact hx.i2b_congr (fun _ h => h) (List.Sublist.refl _) (fun _ _ h => Or.inl h) (fun _ h => h)
  | recv evs =>
    simp only [step] at hs
    split at hs; · cases hs
    split at hs
    · cases hs
    · rename_i pend htk
      cases hs
      obtain ⟨_, _, m3, _, m5, _⟩ := i2b_markDelivered_frame evs { s.env with pending := pend }
      have hsub := takeEvents_sub evs s.env.pending pend htk
      refine hx.i2b_congr (fun _ h => h) (List.Sublist.refl _) ?_ (fun d h => by rw [m3]; exact h)
      intro a d he
      simp only [Sys.allEv, m5] at he ⊢
      exact Or.inl (List.mem_append.mpr (Or.inr (hsub _ he)))
  | flushF1 =>
    simp only [step] at hs
    split at hs; · cases hs
    split at hs
    · cases hs
    · rename_i ds hst rest hq
      cases hs
      obtain ⟨_, e2, e3, _⟩ := i2b_applyCmd_frame j cl s.env (.fetch ds hst)
      refine hx.i2b_congr (fun t h => by simpa using h) (by simp [Sys.todoPairs]) ?_ (fun d h => by rw [e2]; exact h)
      intro a d he
      simp only [Sys.allEv, e3] at he ⊢
      exact Or.inl he
  | flushP1 =>
    simp only [step] at hs
    split at hs; · cases hs
    split at hs
    · cases hs
    · rename_i ds rest hq
      split at hs
      · cases hs
      · cases hs
        exact hx.i2b_congr (fun _ h => h) (List.Sublist.refl _) (fun _ _ h => Or.inl h) (fun _ h => h)
      · rename_i c2 cmds hph
        cases hs
        obtain ⟨_, e2, e3, _⟩ := i2b_applyCmds_frame j cl cmds s.env
        have ft := purgeHosts_tracked _ _ _ _ _ _ hph
        have fo := purgeHosts_ongoing _ _ _ _ _ _ hph
        refine hx.i2b_congr (fun t h => by simpa [ft] using h) (by simp [Sys.todoPairs, fo]) ?_
          (fun d h => by rw [e2]; exact h)
        intro a d he
        simp only [Sys.allEv, e3] at he ⊢
        exact Or.inl he
  | plan1 =>
    simp only [step] at hs
    split at hs; · cases hs
    split at hs
    · cases hs
    · rename_i a prep rest htd
      split at hs
      · cases hs
      · cases hs
        exact hx.i2b_congr (fun _ h => h) (List.Sublist.refl _) (fun _ _ h => Or.inl h) (fun _ h => h)
      · rename_i c2 hpl
        cases hs
        obtain ⟨_, _, f3, _, _, f6, _⟩ := planOne_frames j s.ctl c2 a prep hpl
        exact hx.i2b_congr (fun t h => by simpa [f3] using h) (by simp [Sys.todoPairs, f6, htd])
          (fun _ _ h => Or.inl h) (fun _ h => h)
  | notify1 =>
    simp only [step] at hs
    split at hs; · cases hs
    split at hs
    · cases hs
    · rename_i ev rest hib
      have hsub : ∀ a d, Event.pubT a d ∈ rest ++ s.env.pending → Event.pubT a d ∈ s.allEv := by
        intro a d he
        simp only [Sys.allEv, hib, List.cons_append]
        exact List.mem_cons_of_mem _ he
      split at hs
      · cases hs
      · cases hs
        exact hx.i2b_congr (fun _ h => h) (List.Sublist.refl _) (fun a d h => Or.inl (hsub a d h)) (fun _ h => h)
      · rename_i c2 hne
        cases hs
        obtain ⟨_, hw⟩ := notifyEvent_workers j s.ctl c2 ev hne
        have hong : c2.ongoing.Sublist s.ctl.ongoing := by
          rcases hw with ⟨_, hon⟩ | ⟨w, t, _, hon, _⟩
          · rw [hon]; exact List.Sublist.refl _
          · rw [hon]; exact List.erase_sublist
        refine hx.i2b_congr (fun t h => i2b_notifyEvent_tracked_mono j s.ctl c2 ev hne t h) ?_
          (fun a d h => Or.inl (hsub a d h)) (fun _ h => h)
        exact List.Sublist.map _ (List.Sublist.append hong (List.Sublist.refl _))
  | assign a =>
    simp only [step] at hs
    split at hs; · cases hs
    split at hs
    · cases hs
    · cases hs
      exact hx.i2b_congr (fun _ h => h) (List.Sublist.refl _) (fun _ _ h => Or.inl h) (fun _ h => h)
    · rename_i c2 prep has
      cases hs
      obtain ⟨_, hd0, _, _, _, _, hon', _⟩ := once_assignOne j cl s.ctl c2 a prep h1.once has
      have ft := i2b_assignOne_tracked j cl s.ctl c2 a prep has
      obtain ⟨_, e2, e3, _⟩ := i2b_applyCmds_frame j cl (actCmds j a prep) s.env
      refine ⟨?_, ?_, ?_⟩
      · intro t ht; simp only [ft] at ht; exact hx.tracked_valid t ht
      · have hnd := hx.flight_unique
        simp only [Sys.todoPairs, hon', List.map_append, List.map_cons, List.map_nil, ← List.append_assoc]
        simp only [Sys.todoPairs, List.map_append] at hnd
        refine List.nodup_append.mpr ⟨hnd, by simp, ?_⟩
        intro x hxm y hy
        simp only [List.mem_singleton] at hy
        subst hy
        intro hxy; subst hxy
        have : ∃ w, s.inFlight w a.task := by
          simp only [List.mem_append, List.mem_map] at hxm
          rcases hxm with ⟨p, hp, hp2⟩ | ⟨p, ⟨q, hq, hq2⟩, hp2⟩
          · refine ⟨p.1, Or.inl ?_⟩
            have : p = (p.1, a.task) := by rw [← hp2]
            rw [← this]; exact hp
          · refine ⟨p.1, Or.inr ?_⟩
            have : p = (p.1, a.task) := by rw [← hp2]
            rw [← this]
            simp only [Sys.todoPairs, List.mem_map]
            exact ⟨q, hq, hq2⟩
        obtain ⟨w, hf⟩ := this
        have := h1.flight_disp w a.task hf
        omega
      · intro b d he
        simp only [Sys.allEv, e3] at he
        simp only [e2]
        exact hx.evT_produced b d he
  | env es =>
    simp only [step] at hs
    split at hs; · cases hs
    rw [envStepP_eq f j s.env es h1.no_trim] at hs
    cases he : envStep f j s.env es with
    | none => simp [he] at hs
    | some e' =>
      simp only [he, Option.map_some, Option.some.injEq] at hs
      subst hs
      obtain ⟨t1, t2⟩ := i2b_envStep_evT f j s.env e' es h4.present_produced he
      refine hx.i2b_congr (fun _ h => h) (List.Sublist.refl _) ?_ t1
      intro a d hev
      simp only [Sys.allEv, List.mem_append] at hev ⊢
      rcases hev with hev | hev
      · exact Or.inl (Or.inl hev)
      · rcases t2 a d hev with h | h
        · exact Or.inl (Or.inr h)
        · exact Or.inr h

end EkwVerif.Ctrl
