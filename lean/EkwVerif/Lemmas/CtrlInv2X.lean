/-
Auxiliary tier `Inv2X`: three facts that Tier 2 needs at `.notify1` and that Tiers 1–4 do not imply
(they hold on all reachable states; preservation is proved in `CtrlInv2BX.lean`, `i2b_inv2x_step`).
-/
import EkwVerif.Lemmas.CtrlInvDefs

namespace EkwVerif.Ctrl

structure Inv2X (j : Job) (s : Sys) : Prop where
  /-- only real tasks are blocked in the computable-tracker -/
  tracked_valid : ∀ t, s.ctl.tracked t = true → t < j.tasks.length
  /-- a task is in flight on at most one worker, at most once -/
  flight_unique : ((s.ctl.ongoing ++ s.todoPairs).map (·.2)).Nodup
  /-- a transmit announcement is about a dataset that has been produced -/
  evT_produced : ∀ h ds, Event.pubT h ds ∈ s.allEv → s.env.produced ds = true

theorem i2b_snd_inj : ∀ (l : List (Worker × Task)) (a b : Worker) (t : Task),
    (l.map (·.2)).Nodup → (a, t) ∈ l → (b, t) ∈ l → a = b
  | [], _, _, _, _, ha, _ => by cases ha
  | x :: l, a, b, t, hnd, ha, hb => by
    simp only [List.map_cons, List.nodup_cons] at hnd
    rcases List.mem_cons.mp ha with ha' | ha' <;> rcases List.mem_cons.mp hb with hb' | hb'
    · rw [← hb'] at ha'; exact (Prod.mk.inj ha').1
    · subst ha'
      have : (b, t).2 ∈ l.map (·.2) := List.mem_map.mpr ⟨(b, t), hb', rfl⟩
      exact absurd this hnd.1
    · subst hb'
      have : (a, t).2 ∈ l.map (·.2) := List.mem_map.mpr ⟨(a, t), ha', rfl⟩
      exact absurd this hnd.1
    · exact i2b_snd_inj l a b t hnd.2 ha' hb'

/-- a task is in flight on at most one worker -/
theorem Inv2X.uniq {j : Job} {s : Sys} (h : Inv2X j s) (w w' : Worker) (t : Task)
    (hf : s.inFlight w t) (hf' : s.inFlight w' t) : w = w' :=
  i2b_snd_inj _ w w' t h.flight_unique (List.mem_append.mpr hf) (List.mem_append.mpr hf')

end EkwVerif.Ctrl
