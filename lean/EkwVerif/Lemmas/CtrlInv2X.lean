/-
Auxiliary tier `Inv2X`: three facts that Tier 2 needs at `.notify1` and that Tiers 1–4 do not imply
(they hold on all reachable states; preservation is proved in `CtrlInv2BX.lean`, `i2b_inv2x_step`).
-/
import EkwVerif.Lemmas.CtrlInvDefs

namespace EkwVerif.Ctrl

structure Inv2X (j : Job) (s : Sys) : Prop where
  /-- only real tasks are blocked in the computable-tracker -/
  tracked_valid : ∀ t, s.ctl.tracked t = true → t < j.tasks.length
  /-- a task is in flight on at most one worker, at most once -/
  flight_unique : ((s.ctl.ongoing ++ s.todoPairs).map (·.2)).Nodup
  /-- a transmit announcement is about a dataset that has been produced -/
  evT_produced : ∀ h ds, Event.pubT h ds ∈ s.allEv → s.env.produced ds = true

end EkwVerif.Ctrl
