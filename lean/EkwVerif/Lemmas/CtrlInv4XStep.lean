/-
Extra tier `Inv4X` (`transmit_count`, `status_produced`, `status_unran`) preservation, slice i4x:
`init` and the steps `.enter`, `.assign a`, `.endAssign`, `.plan1`, `.endPlan`, `.endFlushF`, `.endFlush`,
`.recv evs`, `.endNotify`, `.env es`.
-/
import EkwVerif.Lemmas.CtrlInv4XStepA

namespace EkwVerif.Ctrl

set_option linter.unusedVariables false

/-! ### init and the frame lemma -/

theorem i4x_init (j : Job) (cl : Cluster) (wf : WF j cl) : Inv4X j (Sys.init j cl) := by
  refine ⟨?_, ?_, ?_⟩
  · intro ds tgt; simp [Sys.init, Env.init]
  · intro h ds hne; simp [Sys.init, initCtl] at hne
  · intro h ds hne; simp [Sys.init, initCtl] at hne

/-- steps that leave the status map, `needed`, the stores, the transfers and the flights alone -/
theorem i4x_frame {j : Job} {s s' : Sys} (h : Inv4X j s)
    (hh : s'.ctl.hostDs = s.ctl.hostDs) (hd : s'.ctl.doneC = s.ctl.doneC) (ho : s'.ctl.outputs = s.ctl.outputs)
    (hong : s'.ctl.ongoing = s.ctl.ongoing) (htodo : s'.todo = s.todo)
    (hout : s'.env.outstanding = s.env.outstanding) (hpres : s'.env.present = s.env.present)
    (hprod : s'.env.produced = s.env.produced) (hran : s'.env.ran = s.env.ran) : Inv4X j s' := by
  refine ⟨?_, ?_, ?_⟩
  · intro ds tgt; rw [hout]; exact h.transmit_count ds tgt
  · intro hst ds hne hn hp
    rw [hh] at hne
    rw [i4x_needed_congr j _ _ ds hd ho] at hn
    rw [hprod] at hp
    simp only [inboundTransmit, hout, hpres]
    exact h.status_produced hst ds hne hn hp
  · intro hst ds hne hr
    rw [hh] at hne
    rw [hran] at hr
    obtain ⟨w, hw, hf⟩ := h.status_unran hst ds hne hr
    exact ⟨w, hw, by simpa only [Sys.inFlight, Sys.todoPairs, hong, htodo] using hf⟩

/-! ### the steps that only move the phase -/

theorem i4x_step_enter (f : Sem) (j : Job) (cl : Cluster) (s s' : Sys) (wf : WF j cl)
    (h1 : Inv1 cl s) (h2 : Inv2 j cl s) (h3 : Inv3 f j cl s) (h4 : Inv4 j cl s) (hT : InvT j s)
    (hx : Inv2X j s) (h4x : Inv4X j s) (hs : step f j cl s .enter = some s') : Inv4X j s' := by
  simp only [step] at hs
  split at hs; · cases hs
  rename_i hp
  have hp' : s.phase = .top := by simpa using hp
  have htodo : s.todo = [] := h1.todo_phase (by simp [hp']) (by simp [hp']) (by simp [hp'])
  split at hs
  · cases hs; exact i4x_frame h4x rfl rfl rfl rfl rfl rfl rfl rfl rfl
  · cases hs; exact i4x_frame h4x rfl rfl rfl rfl (by simp [htodo]) rfl rfl rfl rfl

theorem i4x_step_endAssign (f : Sem) (j : Job) (cl : Cluster) (s s' : Sys) (wf : WF j cl)
    (h1 : Inv1 cl s) (h2 : Inv2 j cl s) (h3 : Inv3 f j cl s) (h4 : Inv4 j cl s) (hT : InvT j s)
    (hx : Inv2X j s) (h4x : Inv4X j s) (hs : step f j cl s .endAssign = some s') : Inv4X j s' := by
  simp only [step] at hs
  split at hs; · cases hs
  cases hs; exact i4x_frame h4x rfl rfl rfl rfl rfl rfl rfl rfl rfl

theorem i4x_step_endPlan (f : Sem) (j : Job) (cl : Cluster) (s s' : Sys) (wf : WF j cl)
    (h1 : Inv1 cl s) (h2 : Inv2 j cl s) (h3 : Inv3 f j cl s) (h4 : Inv4 j cl s) (hT : InvT j s)
    (hx : Inv2X j s) (h4x : Inv4X j s) (hs : step f j cl s .endPlan = some s') : Inv4X j s' := by
  simp only [step] at hs
  split at hs; · cases hs
  cases hs; exact i4x_frame h4x rfl rfl rfl rfl rfl rfl rfl rfl rfl

theorem i4x_step_endFlushF (f : Sem) (j : Job) (cl : Cluster) (s s' : Sys) (wf : WF j cl)
    (h1 : Inv1 cl s) (h2 : Inv2 j cl s) (h3 : Inv3 f j cl s) (h4 : Inv4 j cl s) (hT : InvT j s)
    (hx : Inv2X j s) (h4x : Inv4X j s) (hs : step f j cl s .endFlushF = some s') : Inv4X j s' := by
  simp only [step] at hs
  split at hs; · cases hs
  cases hs; exact i4x_frame h4x rfl rfl rfl rfl rfl rfl rfl rfl rfl

theorem i4x_step_endFlush (f : Sem) (j : Job) (cl : Cluster) (s s' : Sys) (wf : WF j cl)
    (h1 : Inv1 cl s) (h2 : Inv2 j cl s) (h3 : Inv3 f j cl s) (h4 : Inv4 j cl s) (hT : InvT j s)
    (hx : Inv2X j s) (h4x : Inv4X j s) (hs : step f j cl s .endFlush = some s') : Inv4X j s' := by
  simp only [step] at hs
  split at hs; · cases hs
  cases hs; exact i4x_frame h4x rfl rfl rfl rfl rfl rfl rfl rfl rfl

theorem i4x_step_endNotify (f : Sem) (j : Job) (cl : Cluster) (s s' : Sys) (wf : WF j cl)
    (h1 : Inv1 cl s) (h2 : Inv2 j cl s) (h3 : Inv3 f j cl s) (h4 : Inv4 j cl s) (hT : InvT j s)
    (hx : Inv2X j s) (h4x : Inv4X j s) (hs : step f j cl s .endNotify = some s') : Inv4X j s' := by
  simp only [step] at hs
  split at hs; · cases hs
  cases hs; exact i4x_frame h4x rfl rfl rfl rfl rfl rfl rfl rfl rfl

theorem i4x_markDelivered_frame (l : List Event) (e : Env) :
    (markDelivered e l).outstanding = e.outstanding ∧ (markDelivered e l).present = e.present ∧
    (markDelivered e l).produced = e.produced ∧ (markDelivered e l).ran = e.ran := by
  induction l generalizing e with
  | nil => simp [markDelivered]
  | cons x l ih =>
    simp only [markDelivered, List.foldl_cons] at ih ⊢
    cases x <;> simp [ih]

theorem i4x_step_recv (f : Sem) (j : Job) (cl : Cluster) (s s' : Sys) (evs : List Event) (wf : WF j cl)
    (h1 : Inv1 cl s) (h2 : Inv2 j cl s) (h3 : Inv3 f j cl s) (h4 : Inv4 j cl s) (hT : InvT j s)
    (hx : Inv2X j s) (h4x : Inv4X j s) (hs : step f j cl s (.recv evs) = some s') : Inv4X j s' := by
  simp only [step] at hs
  split at hs; · cases hs
  split at hs
  · cases hs
  · rename_i pend htk
    cases hs
    obtain ⟨m1, m2, m3, m4⟩ := i4x_markDelivered_frame evs { s.env with pending := pend }
    exact i4x_frame h4x rfl rfl rfl rfl rfl (by simp [m1]) (by simp [m2]) (by simp [m3]) (by simp [m4])

/-! ### `.plan1` -/

theorem i4x_step_plan1 (f : Sem) (j : Job) (cl : Cluster) (s s' : Sys) (wf : WF j cl)
    (h1 : Inv1 cl s) (h2 : Inv2 j cl s) (h3 : Inv3 f j cl s) (h4 : Inv4 j cl s) (hT : InvT j s)
    (hx : Inv2X j s) (h4x : Inv4X j s) (hs : step f j cl s .plan1 = some s') : Inv4X j s' := by
  simp only [step] at hs
  split at hs; · cases hs
  split at hs
  · cases hs
  · rename_i a prep rest htd
    split at hs
    · cases hs
    · cases hs
      exact i4x_frame h4x rfl rfl rfl rfl rfl rfl rfl rfl rfl
    · rename_i c2 hpl
      cases hs
      obtain ⟨p1, _, _, p4, p5, _, p7⟩ := i4x_planOne_ok j s.ctl c2 a prep hpl
      have hmemT : (a, prep) ∈ s.todo := by rw [htd]; simp
      have hfa : s.inFlight a.worker a.task := Or.inr (by simp [Sys.todoPairs, htd])
      have hfl : ∀ w t, s.inFlight w t → Sys.inFlight { s with ctl := c2, todo := rest } w t := by
        intro w t hf
        simp only [Sys.inFlight, Sys.todoPairs, p7, htd, List.map_cons, List.mem_append, List.mem_cons] at hf ⊢
        grind
      have hprep : ∀ ds, ds ∈ prep.map (·.1) → s.ctl.hostDs a.worker.host ds ≠ .missing := by
        intro ds hm
        simp only [List.mem_map] at hm
        obtain ⟨p, hp, rfl⟩ := hm
        exact (hT.todo_prep a prep hmemT p hp).1
      refine ⟨h4x.transmit_count, ?_, ?_⟩
      · intro h ds hne hn hp
        simp only at hne hn hp ⊢
        rw [i4x_needed_congr j _ _ ds p4 p5] at hn
        rw [p1] at hne
        by_cases hc : h = a.worker.host ∧ ds ∈ prep.map (·.1) ++ j.outputsOf a.task
        · obtain ⟨rfl, hm⟩ := hc
          rcases List.mem_append.mp hm with hm | hm
          · exact h4x.status_produced _ ds (hprep ds hm) hn hp
          · rw [i4x_outputsOf_mem] at hm
            obtain ⟨ht, hk⟩ := hm
            have hran : s.env.ran a.task = true := by rw [← ht]; exact ((h2.produced_iff ds).mp hp).1
            have e : (⟨a.task, ds.out⟩ : Ds) = ds := by cases ds; simp only at ht; simp [ht]
            have := h4.flight_present a.worker a.task hfa hran ds.out hk (by rw [e]; exact hn)
            rw [e] at this
            exact Or.inl this
        · rw [if_neg hc] at hne
          exact h4x.status_produced h ds hne hn hp
      · intro h ds hne hr
        simp only at hne hr ⊢
        rw [p1] at hne
        by_cases hc : h = a.worker.host ∧ ds ∈ prep.map (·.1) ++ j.outputsOf a.task
        · obtain ⟨rfl, hm⟩ := hc
          rcases List.mem_append.mp hm with hm | hm
          · obtain ⟨w, hw, hf⟩ := h4x.status_unran _ ds (hprep ds hm) hr
            exact ⟨w, hw, hfl _ _ hf⟩
          · rw [i4x_outputsOf_mem] at hm
            refine ⟨a.worker, rfl, ?_⟩
            rw [hm.1]
            exact hfl _ _ hfa
        · rw [if_neg hc] at hne
          obtain ⟨w, hw, hf⟩ := h4x.status_unran h ds hne hr
          exact ⟨w, hw, hfl _ _ hf⟩

/-! ### `.env es` -/

theorem i4x_publish_spec (f : Sem) (w : Worker) (t : Task) (args : List Val) (l : List Ds) (e : Env) :
    let e' := l.foldl (fun e ds =>
      { e with present := upd e.present w.host (upd (e.present w.host) ds (some (f t ds.out args))),
               produced := upd e.produced ds true,
               pending := e.pending ++ [Event.pubW w ds] }) e
    e'.outstanding = e.outstanding ∧ e'.ran = e.ran ∧
    (∀ ds, e'.produced ds = true ↔ (ds ∈ l ∨ e.produced ds = true)) ∧
    (∀ h ds, (e.present h ds).isSome = true → (e'.present h ds).isSome = true) ∧
    (∀ ds, ds ∈ l → (e'.present w.host ds).isSome = true) := by
  induction l generalizing e with
  | nil => simp
  | cons a l ih =>
    simp only [List.foldl_cons]
    have := ih { e with present := upd e.present w.host (upd (e.present w.host) a (some (f t a.out args))),
                         produced := upd e.produced a true, pending := e.pending ++ [Event.pubW w a] }
    obtain ⟨a1, a2, a3, a4, a5⟩ := this
    refine ⟨a1, a2, ?_, ?_, ?_⟩
    · intro ds
      rw [a3]
      simp only [List.mem_cons]
      by_cases hd : ds = a
      · subst hd; simp
      · simp [hd]
    · intro h ds hp
      apply a4
      simp only [i4x_upd2]
      split
      · rfl
      · exact hp
    · intro ds hm
      rcases List.mem_cons.mp hm with rfl | hm
      · apply a4; simp
      · exact a5 ds hm

theorem i4x_mem_eraseIdx {α : Type} (l : List α) (i : Nat) (o x : α) (ho : l[i]? = some o) (hx : x ∈ l) (hne : x ≠ o) :
    x ∈ l.eraseIdx i := by
  induction l generalizing i with
  | nil => simp at hx
  | cons a l ih =>
    cases i with
    | zero =>
      simp only [List.getElem?_cons_zero, Option.some.injEq] at ho
      subst ho
      simp only [List.eraseIdx_cons_zero]
      rcases List.mem_cons.mp hx with rfl | hx
      · exact absurd rfl hne
      · exact hx
    | succ i =>
      simp only [List.getElem?_cons_succ] at ho
      simp only [List.eraseIdx_cons_succ]
      rcases List.mem_cons.mp hx with rfl | hx
      · exact List.mem_cons_self
      · exact List.mem_cons_of_mem _ (ih i ho hx)

theorem i4x_filter_eraseIdx_le {α : Type} (p : α → Bool) (l : List α) (i : Nat) :
    ((l.eraseIdx i).filter p).length ≤ (l.filter p).length :=
  ((List.eraseIdx_sublist l i).filter p).length_le

/-- what performing an outstanding transfer does to the fields `Inv4X` talks about -/
theorem i4x_io_spec (f : Sem) (j : Job) (e e' : Env) (i : Nat) (h : envStep f j e (.io i) = some e') :
    ∃ o, e.outstanding[i]? = some o ∧ e'.outstanding = e.outstanding.eraseIdx i ∧ e'.produced = e.produced ∧
      e'.ran = e.ran ∧ (∀ h ds, (e.present h ds).isSome = true → (e'.present h ds).isSome = true) ∧
      (∀ ds src tgt, o = IO.transmit ds src tgt → (e.present src ds).isSome = true →
        (e'.present tgt ds).isSome = true) := by
  simp only [envStep] at h
  split at h
  · cases h
  · rename_i o ho
    refine ⟨o, ho, ?_⟩
    cases o with
    | transmit ds src tgt =>
      dsimp only at h
      split at h
      · rename_i hnone
        cases h
        refine ⟨by simp, by simp, by simp, fun _ _ hp => by simpa using hp, ?_⟩
        intro ds' src' tgt' heq hp
        simp only [IO.transmit.injEq] at heq
        obtain ⟨rfl, rfl, rfl⟩ := heq
        rw [hnone] at hp; simp at hp
      · rename_i v hv
        split at h
        · rename_i hsome
          cases h
          refine ⟨rfl, rfl, rfl, fun _ _ hp => hp, ?_⟩
          intro ds' src' tgt' heq _
          simp only [IO.transmit.injEq] at heq
          obtain ⟨rfl, rfl, rfl⟩ := heq
          exact hsome
        · cases h
          refine ⟨rfl, rfl, rfl, ?_, ?_⟩
          · intro h' ds' hp
            simp only [i4x_upd2]
            split
            · rfl
            · exact hp
          · intro ds' src' tgt' heq _
            simp only [IO.transmit.injEq] at heq
            obtain ⟨rfl, rfl, rfl⟩ := heq
            simp
    | fetch ds src =>
      dsimp only at h
      split at h
      · cases h
        exact ⟨by simp, by simp, by simp, fun _ _ hp => by simpa using hp, by intro _ _ _ heq; cases heq⟩
      · cases h
        exact ⟨rfl, rfl, rfl, fun _ _ hp => hp, by intro _ _ _ heq; cases heq⟩

theorem i4x_step_env (f : Sem) (j : Job) (cl : Cluster) (s s' : Sys) (es : EnvStep) (wf : WF j cl)
    (h1 : Inv1 cl s) (h2 : Inv2 j cl s) (h3 : Inv3 f j cl s) (h4 : Inv4 j cl s) (hT : InvT j s)
    (hx : Inv2X j s) (h4x : Inv4X j s) (hs : step f j cl s (.env es) = some s') : Inv4X j s' := by
  simp only [step] at hs
  split at hs; · cases hs
  rw [envStepP_eq f j s.env es h1.no_trim] at hs
  cases he : envStep f j s.env es with
  | none => simp [he] at hs
  | some e' =>
    simp only [he, Option.map_some, Option.some.injEq] at hs
    subst hs
    cases es with
    | run w t =>
      simp only [envStep] at he
      split at he
      · rename_i hc
        simp only [Bool.and_eq_true, List.contains_iff_mem] at hc
        have hq : (w, t) ∈ s.env.queued := hc.1
        have hnr : s.env.ran t = false := h2.queued_not_ran w t hq
        have hfw : s.inFlight w t := h1.queued_flight w t hq
        simp only [Option.some.injEq] at he
        obtain ⟨q1, q2, q3, q4, q5⟩ := i4x_publish_spec f w t
          ((j.inputs t).map (fun d => (s.env.present w.host d).getD "")) (j.outputsOf t)
          { s.env with queued := s.env.queued.erase (w, t), ran := upd s.env.ran t true }
        simp only [publishOutputs] at he
        rw [he] at q1 q2 q3 q4 q5
        simp only at q1 q2 q3 q4 q5
        refine ⟨?_, ?_, ?_⟩
        · intro ds tgt; simp only [q1]; exact h4x.transmit_count ds tgt
        · intro h ds hne hn hp
          simp only at hne hn hp ⊢
          simp only [inboundTransmit, q1]
          rw [q3] at hp
          rcases hp with hm | hp
          · have hm' := (i4x_outputsOf_mem j t ds).mp hm
            obtain ⟨w', hw', hf'⟩ := h4x.status_unran h ds hne (by rw [hm'.1]; exact hnr)
            rw [hm'.1] at hf'
            have : w' = w := hx.uniq w' w t hf' hfw
            subst this
            rw [← hw']
            exact Or.inl (q5 ds hm)
          · rcases h4x.status_produced h ds hne hn hp with hpr | hin
            · exact Or.inl (q4 h ds hpr)
            · exact Or.inr hin
        · intro h ds hne hr
          simp only at hne hr ⊢
          rw [q2] at hr
          by_cases ht : ds.task = t
          · rw [ht] at hr; simp at hr
          · simp only [upd_other _ _ _ _ ht] at hr
            exact h4x.status_unran h ds hne hr
      · cases he
    | io i =>
      obtain ⟨o, ho, o1, o2, o3, o4, o5⟩ := i4x_io_spec f j s.env e' i he
      have hmem : o ∈ s.env.outstanding := List.mem_of_getElem? ho
      refine ⟨?_, ?_, ?_⟩
      · intro ds tgt
        simp only [o1]
        exact Nat.le_trans (i4x_filter_eraseIdx_le _ _ _) (h4x.transmit_count ds tgt)
      · intro h ds hne hn hp
        simp only at hne hn hp ⊢
        rw [o2] at hp
        rcases h4x.status_produced h ds hne hn hp with hpr | hin
        · exact Or.inl (o4 h ds hpr)
        · rw [i4x_inbound_iff] at hin
          obtain ⟨src, hsrc⟩ := hin
          by_cases heq : IO.transmit ds src h = o
          · subst heq
            exact Or.inl (o5 ds src h rfl (h4.transmit_out ds src h hmem).1)
          · refine Or.inr ?_
            rw [i4x_inbound_iff]
            exact ⟨src, by rw [o1]; exact i4x_mem_eraseIdx _ _ _ _ ho hsrc heq⟩
      · intro h ds hne hr
        simp only at hne hr ⊢
        rw [o3] at hr
        exact h4x.status_unran h ds hne hr

/-! ### `.assign a` -/

/-- the datasets of the prep list are inputs, in input order, each at most once -/
theorem i4x_buildPrep_sublist (cl : Cluster) (w : Worker) (cands : List (Ds × Host)) (l : List Ds) (c c' : Ctl)
    (p : List (Ds × Host)) (hr : buildPrep cl w cands c l = .ok (c', p)) : (p.map (·.1)).Sublist l := by
  induction l generalizing c c' p with
  | nil =>
    simp only [buildPrep, Except.ok.injEq, Prod.mk.injEq] at hr
    obtain ⟨_, rfl⟩ := hr
    simp
  | cons a l ih =>
    unfold buildPrep at hr
    split at hr
    · exact (ih _ _ _ hr).cons a
    · split at hr
      · split at hr
        · cases hr
        · rename_i c2 p2 hc2
          cases hr
          simp only [List.map_cons]
          exact (ih _ _ _ hc2).cons_cons a
      · split at hr
        · split at hr
          · dsimp only at hr
            split at hr
            · cases hr
            · rename_i c2 p2 hc2
              cases hr
              simp only [List.map_cons]
              exact (ih _ _ _ hc2).cons_cons a
          · cases hr
        · split at hr <;> cases hr

theorem i4x_assignOne_prep_nodup (j : Job) (cl : Cluster) (c c2 : Ctl) (a : Asg) (prep : List (Ds × Host))
    (hnd : (j.inputs a.task).Nodup) (hr : assignOne j cl c a = .ok (c2, prep)) : (prep.map (·.1)).Nodup := by
  unfold assignOne at hr
  split at hr; · cases hr
  split at hr; · cases hr
  split at hr; · cases hr
  split at hr; · cases hr
  rename_i cb prep' hb
  simp only [Except.ok.injEq, Prod.mk.injEq] at hr
  obtain ⟨_, rfl⟩ := hr
  exact (i4x_buildPrep_sublist _ _ _ _ _ _ _ hb).nodup hnd

/-- at most one transmit per dataset in a batch built from a list without duplicate datasets -/
theorem i4x_count_batch (tgt : Host) (q : List (Ds × Host)) (hnd : (q.map (·.1)).Nodup) (ds : Ds) (tgt' : Host) :
    ((q.map (fun p => IO.transmit p.1 p.2 tgt)).filter (isTransmitTo ds tgt')).length ≤ 1 := by
  induction q with
  | nil => simp
  | cons x q ih =>
    simp only [List.map_cons, List.nodup_cons] at hnd
    have := ih hnd.2
    simp only [List.map_cons, List.filter_cons]
    split
    · rename_i hc
      simp only [isTransmitTo, Bool.and_eq_true, beq_iff_eq] at hc
      have hz : (q.map (fun p => IO.transmit p.1 p.2 tgt)).filter (isTransmitTo ds tgt') = [] := by
        rw [List.filter_eq_nil_iff]
        intro o ho
        simp only [List.mem_map] at ho
        obtain ⟨p, hp, rfl⟩ := ho
        simp only [isTransmitTo, Bool.and_eq_true, beq_iff_eq, not_and]
        intro h1
        exfalso
        apply hnd.1
        simp only [List.mem_map]
        exact ⟨p, hp, by rw [h1, hc.1]⟩
      simp [hz]
    · exact this

theorem i4x_applyTransmits (j : Job) (cl : Cluster) (tgt : Host) (l : List (Ds × Host)) (e : Env) :
    (applyCmds j cl e (l.map (fun p => Cmd.transmit p.1 p.2 tgt))).present = e.present ∧
    (applyCmds j cl e (l.map (fun p => Cmd.transmit p.1 p.2 tgt))).ran = e.ran ∧
    (applyCmds j cl e (l.map (fun p => Cmd.transmit p.1 p.2 tgt))).produced = e.produced ∧
    (applyCmds j cl e (l.map (fun p => Cmd.transmit p.1 p.2 tgt))).outstanding =
      e.outstanding ++ l.map (fun p => IO.transmit p.1 p.2 tgt) := by
  induction l generalizing e with
  | nil => simp [applyCmds]
  | cons x l ih =>
    have := ih (applyCmd j cl e (.transmit x.1 x.2 tgt))
    simp only [applyCmds, List.map_cons, List.foldl_cons] at this ⊢
    obtain ⟨a1, a2, a3, a4⟩ := this
    exact ⟨by rw [a1]; simp [applyCmd], by rw [a2]; simp [applyCmd], by rw [a3]; simp [applyCmd],
      by rw [a4]; simp [applyCmd]⟩

theorem i4x_applyAct (j : Job) (cl : Cluster) (a : Asg) (prep : List (Ds × Host)) (e : Env) :
    (applyCmds j cl e (actCmds j a prep)).present = e.present ∧
    (applyCmds j cl e (actCmds j a prep)).ran = e.ran ∧
    (applyCmds j cl e (actCmds j a prep)).produced = e.produced ∧
    (applyCmds j cl e (actCmds j a prep)).outstanding =
      e.outstanding ++ (prep.filter (fun p => p.2 != a.worker.host)).map (fun p => IO.transmit p.1 p.2 a.worker.host) := by
  have henv : applyCmds j cl e (actCmds j a prep) =
      applyCmd j cl (applyCmds j cl e ((prep.filter (fun p => p.2 != a.worker.host)).map
        (fun p => Cmd.transmit p.1 p.2 a.worker.host))) (.taskSeq a.worker a.task (asgOutputs j a.task)) := by
    simp [applyCmds, actCmds, List.foldl_append]
  obtain ⟨a1, a2, a3, a4⟩ := i4x_applyTransmits j cl a.worker.host (prep.filter (fun p => p.2 != a.worker.host)) e
  rw [henv]
  exact ⟨by simp [applyCmd, a1], by simp [applyCmd, a2], by simp [applyCmd, a3], by simp [applyCmd, a4]⟩

theorem i4x_step_assign (f : Sem) (j : Job) (cl : Cluster) (s s' : Sys) (a : Asg) (wf : WF j cl)
    (h1 : Inv1 cl s) (h2 : Inv2 j cl s) (h3 : Inv3 f j cl s) (h4 : Inv4 j cl s) (hT : InvT j s)
    (hx : Inv2X j s) (h4x : Inv4X j s) (hs : step f j cl s (.assign a) = some s') : Inv4X j s' := by
  simp only [step] at hs
  split at hs; · cases hs
  split at hs
  · cases hs
  · cases hs
    exact i4x_frame h4x rfl rfl rfl rfl rfl rfl rfl rfl rfl
  · rename_i c2 prep has
    cases hs
    have hnd := wf.inputsNodup a.task
    obtain ⟨hcomp, _, _, s4, s5, _, s7, s8, s9, s10, s11⟩ := i4x_assignOne_spec j cl s.ctl c2 a prep hnd has
    have hpnd := i4x_assignOne_prep_nodup j cl s.ctl c2 a prep hnd has
    obtain ⟨e1, e2, e3, e4⟩ := i4x_applyAct j cl a prep s.env
    -- inputs of the assigned task have been produced by tasks that ran
    have hinran : ∀ ds, ds ∈ j.inputs a.task → s.env.ran ds.task = true := by
      intro ds hm
      have := h2.announced_produced ds (h2.ready a.task (Or.inl hcomp) ds hm)
      exact ((h2.produced_iff ds).mp this).1
    have hfl : ∀ w t, s.inFlight w t →
        Sys.inFlight { s with ctl := c2, env := applyCmds j cl s.env (actCmds j a prep), todo := s.todo ++ [(a, prep)] } w t := by
      intro w t hf
      simp only [Sys.inFlight, Sys.todoPairs, s7, List.map_append, List.mem_append] at hf ⊢
      rcases hf with hf | hf
      · exact Or.inl hf
      · exact Or.inr (Or.inl hf)
    -- every new transmit is for a dataset that had no status on the worker's host
    have hnew : ∀ p, p ∈ prep.filter (fun p => p.2 != a.worker.host) → s.ctl.hostDs a.worker.host p.1 = .missing := by
      intro p hp
      simp only [List.mem_filter, bne_iff_ne, ne_eq] at hp
      rcases (s10 p.1 p.2 hp.1).2.2 with ⟨hsrc, _⟩ | ⟨hm, _⟩
      · exact absurd hsrc hp.2
      · exact hm
    refine ⟨?_, ?_, ?_⟩
    · intro ds tgt
      simp only [e4, List.filter_append, List.length_append]
      by_cases hold : (s.env.outstanding.filter (isTransmitTo ds tgt)) = []
      · rw [hold]
        simp only [List.length_nil, Nat.zero_add]
        exact i4x_count_batch _ _ ((List.filter_sublist.map _).nodup hpnd) ds tgt
      · have hz : ((prep.filter (fun p => p.2 != a.worker.host)).map
            (fun p => IO.transmit p.1 p.2 a.worker.host)).filter (isTransmitTo ds tgt) = [] := by
          rw [List.filter_eq_nil_iff]
          intro o ho hc
          simp only [List.mem_map] at ho
          obtain ⟨p, hp, rfl⟩ := ho
          simp only [isTransmitTo, Bool.and_eq_true, beq_iff_eq] at hc
          obtain ⟨rfl, rfl⟩ := hc
          apply hold
          rw [List.filter_eq_nil_iff]
          intro o' ho' hc'
          cases o' with
          | fetch d sr => simp [isTransmitTo] at hc'
          | transmit d sr tg =>
            simp only [isTransmitTo, Bool.and_eq_true, beq_iff_eq] at hc'
            obtain ⟨rfl, rfl⟩ := hc'
            exact (h4.transmit_out _ _ _ ho').2.2.1 (hnew p hp)
        rw [hz]
        simp only [List.length_nil, Nat.add_zero]
        exact h4x.transmit_count ds tgt
    · intro h ds hne hn hp
      simp only at hne hn hp ⊢
      rw [i4x_needed_congr j _ _ ds s4 s5] at hn
      rw [e3] at hp
      rw [e1]
      by_cases hc : h = a.worker.host ∧ i4x_tx s.ctl a.worker (j.inputs a.task) ds
      · obtain ⟨rfl, htx⟩ := hc
        rcases s11 ds htx.1 with hw | hh | ⟨src, hsrc, hav⟩
        · exact absurd htx.2.1 hw
        · exact absurd htx.2.2 hh
        · have hsne : src ≠ a.worker.host := by
            intro heq; subst heq
            have := (h4.keys a.worker.host ds).mp htx.2.2
            rw [this] at hav; cases hav
          refine Or.inr ?_
          rw [i4x_inbound_iff]
          refine ⟨src, ?_⟩
          rw [e4]
          apply List.mem_append_right
          simp only [List.mem_map, List.mem_filter, bne_iff_ne, ne_eq]
          exact ⟨(ds, src), ⟨hsrc, hsne⟩, rfl⟩
      · rw [(s9 h ds hc).1] at hne
        rcases h4x.status_produced h ds hne hn hp with hpr | hin
        · exact Or.inl hpr
        · refine Or.inr ?_
          rw [i4x_inbound_iff] at hin ⊢
          obtain ⟨src, hsrc⟩ := hin
          exact ⟨src, by rw [e4]; exact List.mem_append_left _ hsrc⟩
    · intro h ds hne hr
      simp only at hne hr ⊢
      rw [e2] at hr
      by_cases hc : h = a.worker.host ∧ i4x_tx s.ctl a.worker (j.inputs a.task) ds
      · have := hinran ds hc.2.1
        rw [this] at hr; cases hr
      · rw [(s9 h ds hc).1] at hne
        obtain ⟨w, hw, hf⟩ := h4x.status_unran h ds hne hr
        exact ⟨w, hw, hfl _ _ hf⟩

end EkwVerif.Ctrl
