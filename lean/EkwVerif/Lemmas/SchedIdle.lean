/-
"No idle wait" (C03): whenever the controller blocks in `recv_events` (phase `waiting`), something is really
outstanding — an event is already pending, or an executor step is enabled (a queued task whose inputs are on its
host can run, or an outstanding transfer/fetch can be performed). Since every environment step strictly decreases
`|queued| + |outstanding|`, an event eventually arrives: the controller never waits for nothing.

For ANY order and batching of event delivery (plain `Reachable`):
* `sI_ongoing_live`   — something `ongoing` ⇒ an event is pending or an executor step is enabled;
* `sI_announced_live` — a requested output that was announced and not yet delivered, in phase `waiting` ⇒ its fetch
                        is outstanding or its payload is pending.
On a feasible cluster, also for ANY order and batching (`ReachableX`; completion is detected from the notices of ALL
outputs, Tier P):
* `sI_iter_reachable` — an iteration that has something computable has something in flight after `assign()`
                        (`sI_Iter`; from the progress theorem `sP_progress`'s invariant `sP_Good`);
* `sI_wait_ongoing_or_announced` — in phase `waiting`, something is ongoing or every requested output was announced;
* `sI_no_idle_wait`   — the theorem.
-/
import EkwVerif.Lemmas.SchedIdleB

set_option linter.unusedVariables false
set_option linter.unusedSimpArgs false

namespace EkwVerif.Ctrl

/-! ### enabledness of executor steps -/

/-- any outstanding transfer/fetch can be performed -/
theorem sI_io_enabled (f : Sem) (j : Job) (e : Env) (i : Nat) (hi : i < e.outstanding.length) :
    ∃ e', envStep f j e (.io i) = some e' := by
  simp only [envStep, List.getElem?_eq_getElem hi]
  cases e.outstanding[i] with
  | transmit ds src tgt =>
    dsimp only
    split
    · exact ⟨_, rfl⟩
    · split <;> exact ⟨_, rfl⟩
  | fetch ds src =>
    dsimp only
    split <;> exact ⟨_, rfl⟩

theorem sI_outstanding_live (f : Sem) (j : Job) (e : Env) (h : e.outstanding ≠ []) :
    ∃ es e', envStep f j e es = some e' := by
  obtain ⟨e', he⟩ := sI_io_enabled f j e 0 (List.length_pos_iff.mpr h)
  exact ⟨.io 0, e', he⟩

/-- a queued task all of whose inputs are on its host can run -/
theorem sI_run_enabled (f : Sem) (j : Job) (e : Env) (w : Worker) (t : Task) (hq : (w, t) ∈ e.queued)
    (hin : ∀ ds, ds ∈ j.inputs t → (e.present w.host ds).isSome = true) :
    ∃ e', envStep f j e (.run w t) = some e' := by
  have hc : (e.queued.contains (w, t) && (j.inputs t).all (fun d => (e.present w.host d).isSome)) = true := by
    simp only [Bool.and_eq_true, List.contains_iff_mem, List.all_eq_true]
    exact ⟨hq, hin⟩
  simp only [envStep, hc, if_true]
  exact ⟨_, rfl⟩

/-! ### any order of delivery -/

/-- **Something ongoing is really outstanding** (any order of delivery): if a task is `ongoing` and the controller has
no unprocessed event in its inbox, then an event is pending or an executor step is enabled. -/
theorem sI_ongoing_live (f : Sem) (j : Job) (cl : Cluster) (wf : WF j cl) (s : Sys) (hr : Reachable f j cl s)
    (hib : s.inbox = []) (ho : s.ctl.ongoing ≠ []) :
    s.env.pending ≠ [] ∨ ∃ es e', envStep f j s.env es = some e' := by
  have hA := invAll_reachable f j cl wf s hr
  have hI := sI_inv_reachable f j cl wf s hr
  obtain ⟨⟨w, t⟩, hm⟩ := List.exists_mem_of_ne_nil _ ho
  have hfl : s.inFlight w t := Or.inl hm
  rcases hA.h2.flight_queued_or_ran w t hfl with hq | hran
  · by_cases hout : s.env.outstanding = []
    · right
      have hin : ∀ ds, ds ∈ j.inputs t → (s.env.present w.host ds).isSome = true := by
        intro ds hds
        rcases hI.queued_inputs w t hq ds hds with h | h
        · exact h
        · rw [sI_inbound_iff, hout] at h
          obtain ⟨src, hsrc⟩ := h
          cases hsrc
      obtain ⟨e', he⟩ := sI_run_enabled f j s.env w t hq hin
      exact ⟨_, e', he⟩
    · exact Or.inr (sI_outstanding_live f j s.env hout)
  · left
    obtain ⟨k, _, this⟩ := sI_W1_reachable f j cl wf s hr w t hfl hran
    simp only [Sys.allEv, hib, List.nil_append] at this
    exact List.ne_nil_of_mem this

/-- **A requested output that was announced is in the fetch pipeline** (any order of delivery): in phase `waiting`, if
a requested output has been announced and its value has not reached the controller, its fetch is outstanding (so an
executor step is enabled) or its payload is pending. -/
theorem sI_announced_live (f : Sem) (j : Job) (cl : Cluster) (wf : WF j cl) (s : Sys) (hr : Reachable f j cl s)
    (hw : s.phase = .waiting) (ds : Ds) (hx : ds ∈ j.ext) (hn : s.ctl.outputs ds = none)
    (ha : s.ctl.announced ds = true) :
    s.env.pending ≠ [] ∨ ∃ es e', envStep f j s.env es = some e' := by
  have hA := invAll_reachable f j cl wf s hr
  have hI := sI_inv_reachable f j cl wf s hr
  have hib : s.inbox = [] := hA.h2.inbox_phase (by simp [hw]) (by simp [hw])
  have hfq := hI.phases.2 (Or.inr hw)
  rcases hI.announced_pipeline ds hx hn ha with ⟨h', hm⟩ | hfi
  · rw [hfq] at hm; cases hm
  · rcases hI.issued_pipeline ds hfi hn with ⟨h', hm⟩ | ⟨v, hm⟩
    · exact Or.inr (sI_outstanding_live f j s.env (List.ne_nil_of_mem hm))
    · left
      simp only [Sys.allEv, hib, List.nil_append] at hm
      exact List.ne_nil_of_mem hm

/-! ### the iteration invariant: something computable ⇒ something in flight after `assign()` -/

/-- the phases of one iteration between `enter` and `recv` -/
def sI_five (p : Phase) : Prop := p = .assigning ∨ p = .planning ∨ p = .flushF ∨ p = .flushP ∨ p = .waiting

/-- From `enter` until the controller waits: if something is (still) computable then something is ongoing, or an
assignment of this iteration awaits planning, or the controller is inside an `assign()` that owes an assignment
(`sP_Good`, the invariant of the progress theorem). -/
def sI_Iter (j : Job) (cl : Cluster) (cm : Comps) (x : SysX) : Prop :=
  sI_five x.sys.phase → x.sys.ctl.computable ≠ [] →
    x.sys.ctl.ongoing ≠ [] ∨ x.sys.todo ≠ [] ∨ ∃ c0 w0 g, sP_Entry j cl cm c0 w0 g ∧ sP_Good j cl cm c0 w0 g x

theorem sI_top_step (f : Sem) (j : Job) (cl : Cluster) (s s' : Sys) (st : Step) (hs : step f j cl s st = some s')
    (hp : s.phase = .top) : st = .enter ∨ ∃ es, st = .env es := by
  cases st <;> first
    | exact Or.inl rfl
    | exact Or.inr ⟨_, rfl⟩
    | (have := sB_enabled f j cl s s' _ _ rfl hs; rw [hp] at this; cases this)

/-- the steps taken after `assign()` returned: they leave the five phases, or make something ongoing, or change neither
`computable` nor `ongoing` nor `todo` -/
theorem sI_later_step (f : Sem) (j : Job) (cl : Cluster) (s s' : Sys) (st : Step) (hs : step f j cl s st = some s')
    (hnt : s.phase ≠ .top) (hna : s.phase ≠ .assigning) :
    ¬ sI_five s'.phase ∨ s'.ctl.ongoing ≠ [] ∨
      (s'.ctl.computable = s.ctl.computable ∧ s'.ctl.ongoing = s.ctl.ongoing ∧ s'.todo = s.todo ∧ sI_five s.phase) := by
  cases st with
  | enter => exact absurd (sB_enabled f j cl s s' _ _ rfl hs) hnt
  | assign a => exact absurd (sB_enabled f j cl s s' _ _ rfl hs) hna
  | endAssign => exact absurd (sB_enabled f j cl s s' _ _ rfl hs) hna
  | plan1 =>
    simp only [step] at hs
    split at hs; · cases hs
    split at hs; · cases hs
    rename_i a prep rest htodo
    split at hs
    · cases hs
    · cases hs; exact Or.inl (by simp [sI_five, Sys.crash])
    · rename_i c hr
      cases hs
      obtain ⟨_, _, _, _, _, hong, _⟩ := planOne_frames j s.ctl c a prep hr
      refine Or.inr (Or.inl ?_)
      simp only [hong]
      simp
  | endPlan =>
    have hp := sB_enabled f j cl s s' _ _ rfl hs
    simp only [step] at hs
    split at hs; · cases hs
    cases hs
    exact Or.inr (Or.inr ⟨rfl, rfl, rfl, by simp [sI_five, hp]⟩)
  | flushF1 =>
    have hp := sB_enabled f j cl s s' _ _ rfl hs
    simp only [step] at hs
    split at hs; · cases hs
    split at hs; · cases hs
    cases hs
    exact Or.inr (Or.inr ⟨by simp, by simp, rfl, by simp [sI_five, hp]⟩)
  | endFlushF =>
    have hp := sB_enabled f j cl s s' _ _ rfl hs
    simp only [step] at hs
    split at hs; · cases hs
    cases hs
    exact Or.inr (Or.inr ⟨rfl, rfl, rfl, by simp [sI_five, hp]⟩)
  | flushP1 =>
    have hp := sB_enabled f j cl s s' _ _ rfl hs
    simp only [step] at hs
    split at hs; · cases hs
    split at hs; · cases hs
    split at hs
    · cases hs
    · cases hs; exact Or.inl (by simp [sI_five, Sys.crash])
    · rename_i c cmds hr
      cases hs
      have e1 := purgeHosts_computable _ _ _ _ _ _ hr
      have e2 := purgeHosts_ongoing _ _ _ _ _ _ hr
      exact Or.inr (Or.inr ⟨e1, e2, rfl, by simp [sI_five, hp]⟩)
  | endFlush =>
    have hp := sB_enabled f j cl s s' _ _ rfl hs
    simp only [step] at hs
    split at hs; · cases hs
    cases hs
    exact Or.inr (Or.inr ⟨rfl, rfl, rfl, by simp [sI_five, hp]⟩)
  | recv evs =>
    simp only [step] at hs
    split at hs; · cases hs
    split at hs; · cases hs
    cases hs
    exact Or.inl (by simp [sI_five])
  | notify1 =>
    have hp := sB_enabled f j cl s s' _ _ rfl hs
    simp only [step] at hs
    split at hs; · cases hs
    split at hs; · cases hs
    split at hs
    · cases hs
    · cases hs; exact Or.inl (by simp [sI_five, Sys.crash])
    · cases hs; exact Or.inl (by simp [sI_five, hp])
  | endNotify =>
    simp only [step] at hs
    split at hs; · cases hs
    cases hs
    exact Or.inl (by simp [sI_five])
  | env es =>
    obtain ⟨_, _, hph, hctl, htodo⟩ := sB_env_step f j cl s s' es hs
    by_cases h5 : sI_five s.phase
    · exact Or.inr (Or.inr ⟨by rw [hctl], by rw [hctl], htodo, h5⟩)
    · exact Or.inl (by rw [hph]; exact h5)

theorem sI_iter_init (j : Job) (cl : Cluster) (cm : Comps) : sI_Iter j cl cm (SysX.init j cl cm) := by
  intro h5
  simp [sI_five, SysX.init, Sys.init] at h5

theorem sI_iter_step (f : Sem) (j : Job) (cl : Cluster) (cm : Comps) (wf : WF j cl) (wfc : WFC j cm)
    (feas : Feasible j cl) (x x' : SysX) (st : StepX) (hr : ReachableX f j cl cm x) (hI : sI_Iter j cl cm x)
    (hs : stepX f j cl cm x st = some x') : sI_Iter j cl cm x' := by
  intro h5 hcomp
  -- from the pre-state's disjunction
  have carry : sI_five x.sys.phase → x'.sys.ctl.computable = x.sys.ctl.computable →
      x'.sys.ctl.ongoing = x.sys.ctl.ongoing → x'.sys.todo = x.sys.todo →
      x'.sys.ctl.ongoing ≠ [] ∨ x'.sys.todo ≠ [] ∨ ∃ c0 w0 g, sP_Entry j cl cm c0 w0 g ∧ sP_Good j cl cm c0 w0 g x' := by
    intro h5x ec eo et
    rcases hI h5x (by rw [← ec]; exact hcomp) with h | h | ⟨c0, w0, g, hE, hG⟩
    · exact Or.inl (by rw [eo]; exact h)
    · exact Or.inr (Or.inl (by rw [et]; exact h))
    · rcases sP_step f j cl cm c0 w0 g x x' st hE hG hs with h | h | h
      · rw [h] at h5; simp [sI_five] at h5
      · exact Or.inr (Or.inl h)
      · exact Or.inr (Or.inr ⟨c0, w0, g, hE, h⟩)
  rcases sL_stepX_proj f j cl cm x x' st hs with hsys | ⟨bst, rfl, hb⟩
  · exact carry (by rw [← hsys]; exact h5) (by rw [hsys]) (by rw [hsys]) (by rw [hsys])
  · have hA := invAll_reachable f j cl wf x.sys (sL_reachableX_base f j cl cm x hr)
    by_cases htop : x.sys.phase = .top
    · rcases sI_top_step f j cl x.sys x'.sys bst hb htop with rfl | ⟨es, rfl⟩
      · obtain ⟨ectl, _, _, _⟩ := sI_ctrl_step f j cl x.sys x'.sys _ hA.h1 rfl hb
        by_cases hong : x.sys.ctl.ongoing = []
        · have hc : x.sys.ctl.hasComputable = true := by
            simp only [Ctl.hasComputable, gt_iff_lt, decide_eq_true_eq]
            rw [ectl] at hcomp
            exact List.length_pos_iff.mpr hcomp
          obtain ⟨g, hE⟩ := sP_entry f j cl cm x wf wfc feas hr htop hc hong
          have hG := sP_after_enter f j cl cm x x' g hE htop hc hs
          exact Or.inr (Or.inr ⟨_, _, g, hE, hG⟩)
        · exact Or.inl (by rw [ectl]; exact hong)
      · obtain ⟨_, _, hph, _, _⟩ := sB_env_step f j cl x.sys x'.sys es hb
        rw [hph, htop] at h5
        simp [sI_five] at h5
    · by_cases has : x.sys.phase = .assigning
      · rcases sP_base_step f j cl x.sys x'.sys bst has hb with h | ⟨l, hl, h⟩ | ⟨ht, hc, _⟩
        · rw [h] at h5; simp [sI_five] at h5
        · refine Or.inr (Or.inl ?_)
          rw [h]
          intro hnil
          exact hl (List.append_eq_nil_iff.mp hnil).2
        · exact carry (Or.inl has) (by rw [hc]) (by rw [hc]) ht
      · rcases sI_later_step f j cl x.sys x'.sys bst hb htop has with h | h | ⟨ec, eo, et, h5x⟩
        · exact absurd h5 h
        · exact Or.inl h
        · rcases hI h5x (by rw [← ec]; exact hcomp) with h | h | ⟨c0, w0, g, hE, hG⟩
          · exact Or.inl (by rw [eo]; exact h)
          · exact Or.inr (Or.inl (by rw [et]; exact h))
          · exact absurd hG.phase has

/-- **the iteration invariant holds in every reachable state of a feasible cluster** (any event order) -/
theorem sI_iter_reachable (f : Sem) (j : Job) (cl : Cluster) (cm : Comps) (wf : WF j cl) (wfc : WFC j cm)
    (feas : Feasible j cl) (x : SysX) (hr : ReachableX f j cl cm x) : sI_Iter j cl cm x := by
  induction hr with
  | init => exact sI_iter_init j cl cm
  | step x x' st hx hs ih => exact sI_iter_step f j cl cm wf wfc feas x x' st hx ih hs

/-! ### the theorems on a feasible cluster (any event order) -/

/-- **The controller waits only for a task or for an announced output**: in phase `waiting`,
something is ongoing, or every requested output that is still missing has been announced (so it is in the fetch
pipeline, `sI_announced_live`). -/
theorem sI_wait_ongoing_or_announced (f : Sem) (j : Job) (cl : Cluster) (cm : Comps) (wf : WF j cl) (wfc : WFC j cm)
    (feas : Feasible j cl) (x : SysX) (hr : ReachableX f j cl cm x) (hw : x.sys.phase = .waiting) :
    x.sys.ctl.ongoing ≠ [] ∨ ∀ ds, ds ∈ j.ext → x.sys.ctl.outputs ds = none → x.sys.ctl.announced ds = true := by
  have hR := sL_reachableX_base f j cl cm x hr
  have hA := invAll_reachable f j cl wf x.sys hR
  have hF := sL_reachableX f j cl cm wf x hr
  have hDA := sL_done_announced f j cl wf x.sys hR
  have hIt := sI_iter_reachable f j cl cm wf wfc feas x hr
  by_cases hong : x.sys.ctl.ongoing = []
  · right
    intro ds hx hn
    cases hann : x.sys.ctl.announced ds with
    | true => rfl
    | false =>
      exfalso
      have htodo : x.sys.todo = [] := hA.h1.todo_phase (by simp [hw]) (by simp [hw]) (by simp [hw])
      have hnofl : ∀ w t, ¬ x.sys.inFlight w t := by
        intro w t h
        simp [Sys.inFlight, Sys.todoPairs, hong, htodo] at h
      obtain ⟨hlt, hko⟩ := wf.extValid ds hx
      have hle := hA.h1.once.le ds.task
      have hcomp : x.sys.ctl.computable ≠ [] := by
        by_cases hd1 : x.sys.ctl.dispatched ds.task = 1
        · exfalso
          rcases hF.disp_flight_or_done ds.task hd1 with ⟨w, hfl⟩ | hdone
          · exact hnofl w ds.task hfl
          · have h3 : x.sys.ctl.announced ⟨ds.task, ds.out⟩ = true := hDA ds.task hdone ds.out hko
            have h4 : (⟨ds.task, ds.out⟩ : Ds) = ds := rfl
            rw [h4, hann] at h3
            cases h3
        · obtain ⟨t', ht', _⟩ := sP_undisp_has_computable j cl cm x.sys wf wfc hA.h1 hF hDA hnofl (cm.compOf ds.task)
            (ds.task + 1) ds.task (by omega) hlt rfl (by omega)
          exact List.ne_nil_of_mem ht'
      rcases hIt (Or.inr (Or.inr (Or.inr (Or.inr hw)))) hcomp with h | h | ⟨c0, w0, g, _, hG⟩
      · exact h hong
      · exact h htodo
      · have := hG.phase
        rw [hw] at this
        cases this
  · exact Or.inl hong

/-- **No idle wait (C03, any event order, feasible cluster).** Whenever the controller blocks in `recv_events`, an
event is already pending or an executor step is enabled: a queued task whose inputs are on its host can run, or an
outstanding transfer/fetch can be performed. -/
theorem sI_no_idle_wait (f : Sem) (j : Job) (cl : Cluster) (cm : Comps) (wf : WF j cl) (wfc : WFC j cm)
    (feas : Feasible j cl) (x : SysX) (hr : ReachableX f j cl cm x) (hw : x.sys.phase = .waiting) :
    x.sys.env.pending ≠ [] ∨ ∃ es e', envStep f j x.sys.env es = some e' := by
  have hR := sL_reachableX_base f j cl cm x hr
  have hA := invAll_reachable f j cl wf x.sys hR
  have hI := sI_inv_reachable f j cl wf x.sys hR
  have hib : x.sys.inbox = [] := hA.h2.inbox_phase (by simp [hw]) (by simp [hw])
  rcases sI_wait_ongoing_or_announced f j cl cm wf wfc feas x hr hw with hong | hall
  · exact sI_ongoing_live f j cl wf x.sys hR hib hong
  · have haw := hI.phases.1 hw
    simp only [Ctl.hasAwaitable, Bool.or_eq_true, gt_iff_lt, decide_eq_true_eq, List.any_eq_true] at haw
    rcases haw with hpos | ⟨ds, hx, hn⟩
    · exact sI_ongoing_live f j cl wf x.sys hR hib (List.length_pos_iff.mp hpos)
    · have hn' : x.sys.ctl.outputs ds = none := by
        cases ho : x.sys.ctl.outputs ds with
        | none => rfl
        | some v => simp [ho] at hn
      exact sI_announced_live f j cl wf x.sys hR hw ds hx hn' (hall ds hx hn')

end EkwVerif.Ctrl
