/-
Tier S, slice S1, part C: `InvS` holds initially and is preserved by the base steps that carry no
scheduler bookkeeping, and by `enter`, `endAssign`, `plan1`.
-/
import EkwVerif.Lemmas.SchedInvS1B

set_option linter.unusedVariables false
set_option linter.unusedSimpArgs false

namespace EkwVerif.Ctrl

/-! ### small facts -/

theorem sS1_mem_workersOf (cl : Cluster) (h : Host) (w : Worker) : w ∈ cl.workersOf h ↔ w ∈ cl.ids ∧ w.host = h := by
  simp [Cluster.workersOf, List.mem_filter]

theorem sS1_stageOk_offdone (cl : Cluster) (cm : Comps) (x : SysX) (h : x.sch.stage = .off ∨ x.sch.stage = .done) :
    StageOk cl cm x := by
  unfold StageOk
  rcases h with h | h <;> simp [h]

theorem sS1_stageOk_congr (cl : Cluster) (cm : Comps) (x x' : SysX) (hst : x'.sch.stage = x.sch.stage)
    (hh : x'.sch.host2comp = x.sch.host2comp) (hi : x'.sys.ctl.idle = x.sys.ctl.idle)
    (hc : x'.sys.ctl.computable = x.sys.ctl.computable) (h : StageOk cl cm x) : StageOk cl cm x' := by
  unfold StageOk at h ⊢
  rw [hst, hh, hi, hc]
  exact h

theorem sS1_undispatched_congr (j : Job) (cm : Comps) (c c' : Ctl) (h : c'.dispatched = c.dispatched) (comp : Nat) :
    undispatched j cm c' comp = undispatched j cm c comp := by
  unfold undispatched; rw [h]

/-! ### init -/

theorem sS1_init (j : Job) (cl : Cluster) (cm : Comps) (wf : WF j cl) (wfc : WFC j cm) :
    InvS j cl cm (SysX.init j cl cm) := by
  refine ⟨?_, ?_, ?_, ?_, ?_, ?_, ?_, ?_, ?_⟩
  · intro t ht
    simp only [SysX.init, Sys.init, initCtl, Sch.init, List.mem_filter] at ht ⊢
    exact ⟨ht.1, by simp [ht.2]⟩
  · intro h c hc; simp [SysX.init, Sch.init] at hc
  · intro h c hc; simp [SysX.init, Sch.init] at hc
  · intro w t hw; simp [SysX.init, Sch.init] at hw
  · intro w t hf
    simp [SysX.init, Sys.init, initCtl, Sys.inFlight, Sys.todoPairs] at hf
  · intro c
    simp [SysX.init, Sys.init, initCtl, Sch.init, undispatched]
  · simp [StageOk, SysX.init, Sch.init]
  · intro _; left; rfl
  · rfl

/-! ### a step that keeps the maps and does not enlarge `computable` / in-flight pairs -/

theorem InvS.sS1_congr {j : Job} {cl : Cluster} {cm : Comps} {x x' : SysX} (h : InvS j cl cm x)
    (hh : x'.sch.host2comp = x.sch.host2comp) (hdd : x'.sch.distDom = x.sch.distDom)
    (hw : x'.sch.weight = x.sch.weight)
    (hdisp : x'.sys.ctl.dispatched = x.sys.ctl.dispatched)
    (hcomp : ∀ t, t ∈ x'.sys.ctl.computable → t ∈ x.sys.ctl.computable)
    (hv : ∀ c t, t ∈ x.sch.values c → t ∈ x'.sch.values c)
    (hov : ∀ w t, t ∈ x.sch.ovDom w → t ∈ x'.sch.ovDom w)
    (hfl : ∀ w t, x'.sys.inFlight w t → x.sys.inFlight w t)
    (hstage : StageOk cl cm x')
    (hsp : x'.sys.phase ≠ .assigning → (x'.sch.stage = .off ∨ x'.sch.stage = .done))
    (herr : x'.sch.schErr = none) : InvS j cl cm x' := by
  refine ⟨?_, ?_, ?_, ?_, ?_, ?_, hstage, hsp, herr⟩
  · intro t ht; exact hv _ _ (h.values_comp t (hcomp t ht))
  · intro hh' c hc w hw'; rw [hdd]; rw [hh] at hc; exact h.host_dist hh' c hc w hw'
  · intro hh' c hc; rw [hh] at hc; exact h.host_comp_lt hh' c hc
  · intro w t hw' ht; rw [hdd] at hw'; exact hov _ _ (h.ov_comp w t hw' (hcomp t ht))
  · intro w t hf; rw [hdd]; exact h.flight_dist w t (hfl w t hf)
  · intro c; rw [hw, sS1_undispatched_congr j cm _ _ hdisp]; exact h.weight_eq c

/-! ### plain steps -/

theorem sS1_step_plain (f : Sem) (j : Job) (cl : Cluster) (cm : Comps) (x x' : SysX) (st : Step) (hp : sS1_plain st)
    (hS : InvS j cl cm x) (hs : stepX f j cl cm x (.base st) = some x') : InvS j cl cm x' := by
  obtain ⟨_, hb, hsch⟩ := sS1_plain_spec f j cl cm x x' st hp hs
  obtain ⟨g1, g2, g3, g4, g5, g6, g7⟩ := sS1_plain_frames f j cl x.sys x'.sys st hp hb
  refine hS.sS1_congr (by rw [hsch]) (by rw [hsch]) (by rw [hsch]) g1 (by rw [g3]; exact fun _ h => h)
    (by rw [hsch]; exact fun _ _ h => h) (by rw [hsch]; exact fun _ _ h => h) ?_ ?_ ?_ (by rw [hsch]; exact hS.no_schErr)
  · intro w t hf
    simpa only [Sys.inFlight, Sys.todoPairs, g2, g5] using hf
  · exact sS1_stageOk_congr cl cm x x' (by rw [hsch]) (by rw [hsch]) g4 g3 hS.stage_ok
  · intro hne
    rw [hsch]
    rcases g7 with g7 | g7
    · rw [g7] at hne; exact hS.stage_phase hne
    · exact hS.stage_phase g7.1

/-! ### enter / endAssign -/

theorem sS1_step_enter (f : Sem) (j : Job) (cl : Cluster) (cm : Comps) (x x' : SysX)
    (hA : InvAll f j cl x.sys) (hS : InvS j cl cm x) (hs : stepX f j cl cm x (.base .enter) = some x') :
    InvS j cl cm x' := by
  have h1 := hA.h1
  obtain ⟨_, hb, hsch⟩ := sS1_enter_spec f j cl cm x x' hs
  obtain ⟨hctl, hph, hph', htd⟩ := sS1_enter_frames f j cl x.sys x'.sys hb
  have htodo : x.sys.todo = [] := h1.todo_phase (by simp [hph]) (by simp [hph]) (by simp [hph])
  have htodo' : x'.sys.todo = [] := by rcases htd with h | h; exact h; rw [h, htodo]
  refine hS.sS1_congr (by rw [hsch]) (by rw [hsch]) (by rw [hsch]) (by rw [hctl]) (by rw [hctl]; exact fun _ h => h)
    (by rw [hsch]; exact fun _ _ h => h) (by rw [hsch]; exact fun _ _ h => h) ?_ ?_ ?_ (by rw [hsch]; exact hS.no_schErr)
  · intro w t hf
    simpa only [Sys.inFlight, Sys.todoPairs, htodo, htodo', hctl] using hf
  · by_cases hc : (x'.sys.phase == .assigning && x'.sys.mayAssign) = true
    · have hst : x'.sch.stage = .stepI ((x'.sys.ctl.idle.filterMap (fun w => x.sch.host2comp w.host)).eraseDups) := by
        rw [hsch]; unfold sS1_enterStage; rw [if_pos hc]
      unfold StageOk
      rw [hst]
      dsimp only
      intro c hc
      rw [List.mem_eraseDups, List.mem_filterMap] at hc
      obtain ⟨w, _, hw⟩ := hc
      exact hS.host_comp_lt w.host c hw
    · have hst : x'.sch.stage = .done := by
        rw [hsch]; unfold sS1_enterStage; rw [if_neg hc]
      exact sS1_stageOk_offdone cl cm x' (Or.inr hst)
  · intro hne
    by_cases hc : (x'.sys.phase == .assigning && x'.sys.mayAssign) = true
    · simp only [Bool.and_eq_true, beq_iff_eq] at hc
      exact absurd hc.1 hne
    · right
      rw [hsch]; unfold sS1_enterStage; rw [if_neg hc]

theorem sS1_step_endAssign (f : Sem) (j : Job) (cl : Cluster) (cm : Comps) (x x' : SysX)
    (hS : InvS j cl cm x) (hs : stepX f j cl cm x (.base .endAssign) = some x') :
    InvS j cl cm x' := by
  obtain ⟨_, hb, hsch⟩ := sS1_endAssign_spec f j cl cm x x' hs
  obtain ⟨hctl, htd, hph, hph'⟩ := sS1_endAssign_frames f j cl x.sys x'.sys hb
  refine hS.sS1_congr (by rw [hsch]) (by rw [hsch]) (by rw [hsch]) (by rw [hctl]) (by rw [hctl]; exact fun _ h => h)
    (by rw [hsch]; exact fun _ _ h => h) (by rw [hsch]; exact fun _ _ h => h) ?_ ?_ ?_ (by rw [hsch]; exact hS.no_schErr)
  · intro w t hf
    simpa only [Sys.inFlight, Sys.todoPairs, htd, hctl] using hf
  · exact sS1_stageOk_offdone cl cm x' (by rw [hsch]; left; rfl)
  · intro _; rw [hsch]; left; rfl

/-! ### plan1 -/

theorem sS1_step_plan1 (f : Sem) (j : Job) (cl : Cluster) (cm : Comps) (x x' : SysX) (wf : WF j cl) (wfc : WFC j cm)
    (hA : InvAll f j cl x.sys) (hS : InvS j cl cm x) (hX : InvS1X j cm x)
    (hs : stepX f j cl cm x (.base .plan1) = some x') : InvS j cl cm x' := by
  have h1 := hA.h1
  obtain ⟨_, hb, a, prep, rest, htodo, hsch⟩ := sS1_plan1_spec f j cl cm x x' hs
  obtain ⟨hph, a', prep', rest', htodo', hcase⟩ := sS1_plan1_frames f j cl x.sys x'.sys hb
  rw [htodo] at htodo'
  simp only [List.cons.injEq, Prod.mk.injEq] at htodo'
  obtain ⟨⟨rfl, rfl⟩, rfl⟩ := htodo'
  have hstg : x.sch.stage = .off ∨ x.sch.stage = .done := hS.stage_phase (by simp [hph])
  rcases hcase with ⟨hctl, htd, hph'⟩ | ⟨c2, hpl, hctl, htd, hph'⟩
  · have hsch' : x'.sch = x.sch := by rw [hsch]; simp [hph']
    refine hS.sS1_congr (by rw [hsch']) (by rw [hsch']) (by rw [hsch']) (by rw [hctl]) (by rw [hctl]; exact fun _ h => h)
      (by rw [hsch']; exact fun _ _ h => h) (by rw [hsch']; exact fun _ _ h => h) ?_ ?_ ?_ (by rw [hsch']; exact hS.no_schErr)
    · intro w t hf
      simpa only [Sys.inFlight, Sys.todoPairs, htd, hctl] using hf
    · exact sS1_stageOk_offdone cl cm x' (by rw [hsch']; exact hstg)
    · intro _; rw [hsch']; exact hstg
  · have hsch' : x'.sch = sS1_planSch j cm x.sys.ctl x.sch a prep := by
      rw [hsch]; simp [hph', hph]
    obtain ⟨f1, f2, _, _, f5, f6, _⟩ := planOne_frames j x.sys.ctl c2 a prep hpl
    obtain ⟨p1, p2, p3, p4, p5, p6, p7⟩ := sS1_planFold cm a.worker (fun p : Ds × Host => x.sys.ctl.ptrack p.1) prep x.sch
    obtain ⟨q1, q2, q3, q4, q5, q6, q7⟩ := sS1_planFold cm a.worker (fun ds : Ds => j.consumers ds) (j.outputsOf a.task)
      (prep.foldl (fun sc p => planChildren cm sc a.worker (x.sys.ctl.ptrack p.1)) x.sch)
    have e1 : x'.sch.host2comp = x.sch.host2comp := by rw [hsch']; unfold sS1_planSch; dsimp only; rw [q1, p1]
    have e2 : x'.sch.weight = x.sch.weight := by rw [hsch']; unfold sS1_planSch; dsimp only; rw [q2, p2]
    have e3 : x'.sch.distDom = x.sch.distDom := by rw [hsch']; unfold sS1_planSch; dsimp only; rw [q3, p3]
    have e4 : x'.sch.ovDom = x.sch.ovDom := by rw [hsch']; unfold sS1_planSch; dsimp only; rw [q4, p4]
    have e5 : x'.sch.stage = x.sch.stage := by rw [hsch']; unfold sS1_planSch; dsimp only; rw [q5, p5]
    have hfa : x.sys.inFlight a.worker a.task := Or.inr (by simp [Sys.todoPairs, htodo])
    have hwd : a.worker ∈ x.sch.distDom (cm.compOf a.task) := hS.flight_dist _ _ hfa
    refine hS.sS1_congr e1 e3 e2 (by rw [hctl, f2]) (by rw [hctl, f1]; exact fun _ h => h) ?_
      (by rw [e4]; exact fun _ _ h => h) ?_ ?_ ?_ ?_
    · intro c t ht
      rw [hsch']
      unfold sS1_planSch
      dsimp only
      rw [q6, p6]
      exact Or.inl (Or.inl ht)
    · intro w t hf
      simp only [Sys.inFlight, Sys.todoPairs, htd, hctl, f6, htodo, List.mem_append, List.mem_singleton, List.map_cons,
        List.mem_cons] at hf ⊢
      grind
    · exact sS1_stageOk_offdone cl cm x' (by rw [e5]; exact hstg)
    · intro _; rw [e5]; exact hstg
    · rw [hsch']
      unfold sS1_planSch
      dsimp only
      refine q7 (p7 hS.no_schErr ?_) ?_
      · intro p hp ch hch
        have hc := hX.ptrack_sub p.1 ch hch
        have hin : p.1 ∈ j.inputs ch := (i2b_mem_consumers j p.1 ch).mp hc
        have e1 := wfc.edge_same ch p.1 hin
        have e2 := wfc.edge_same a.task p.1 (hA.hT.todo_prep a prep (by simp [htodo]) p hp).2
        rw [← e1, e2]; exact hwd
      · intro ds hds ch hch
        rw [p3]
        have hin : ds ∈ j.inputs ch := (i2b_mem_consumers j ds ch).mp hch
        have e1 := wfc.edge_same ch ds hin
        have e2 : ds.task = a.task := ((i2a_mem_outputsOf j a.task ds).mp hds).1
        rw [← e1, e2]; exact hwd

end EkwVerif.Ctrl
