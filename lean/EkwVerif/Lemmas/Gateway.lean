/-
Helper definitions and lemmas for Props/C18 (gateway). Spec-side functions over histories
(`reportsOf`, `eff`, `uploads`, `lastFor`, `Newest`) and the refinement lemmas that relate them
to the model of Model/Gateway.lean.
-/
import EkwVerif.Model.Gateway

namespace EkwVerif.Gateway

/-! ### job-level view of a history -/

/-- What one handled controller report does to the job it names. -/
def jobStep (job : Job) (r : Report) : Job :=
  if secondShutdown job r then job else putResults (maybeUpdate job r.status r.ts) r.results

/-- The reports of a history of handled events that name job `j`, in order of reception
(whatever socket they arrived on). -/
def reportsOf (j : String) : List Ev → List Report
  | [] => []
  | .ctrl _ (.report r) :: evs => if r.job == j then r :: reportsOf j evs else reportsOf j evs
  | _ :: evs => reportsOf j evs

/-- The progress reports among them: (progress, timestamp). Shutdown notices and pure uploads
carry no progress. -/
def eff : List Report → List (String × Int)
  | [] => []
  | r :: rs =>
    match r.status with
    | none => eff rs
    | some p => if p == shutdownMark then eff rs else (p, r.ts) :: eff rs

/-- the abstract rule: keep the entry with the greatest timestamp, first received wins ties -/
def upd (cur : String × Int) (e : String × Int) : String × Int :=
  if cur.2 ≥ e.2 then cur else e

/-- `(p,t)` is the first-received entry among those of greatest timestamp in `es`, provided
that timestamp exceeds the initial one; otherwise it is the initial value. -/
def Newest (init : String × Int) (es : List (String × Int)) (cur : String × Int) : Prop :=
  (cur = init ∧ ∀ e ∈ es, e.2 ≤ init.2) ∨
  (∃ i : Nat, es[i]? = some cur ∧ init.2 < cur.2 ∧ (∀ e ∈ es, e.2 ≤ cur.2) ∧
        ∀ k : Nat, k < i → ∀ e : String × Int, es[k]? = some e → e.2 < cur.2)

/-- The uploads for a job that are accepted, in order of reception. `reg` = the job's own socket is
still registered: the first shutdown notice is accepted (with what it carries), a repeated one is
rejected as a whole. -/
def uploads : Bool → List Report → List (String × String)
  | _, [] => []
  | reg, r :: rs =>
    if r.status == some shutdownMark then
      (if reg then r.results ++ uploads false rs else uploads false rs)
    else r.results ++ uploads reg rs

/-- the last binding of `d` in a list of (dataset, bytes) given in order of reception -/
def lastFor (d : String) : List (String × String) → Option String
  | [] => none
  | (k, v) :: l =>
    match lastFor d l with
    | some b => some b
    | none => if k == d then some v else none

/-- job-level effect of one handled event -/
def evStep (j : String) (job : Job) : Ev → Job
  | .ctrl _ (.report r) => if r.job == j then jobStep job r else job
  | _ => job

/-- the id handed out by handling `e` in state `s`, if any -/
def newId (s : St) (e : Ev) : Option String :=
  match handle s e with
  | some (_, .spawned (some j)) => some j
  | _ => none

namespace Aux

theorem newest_snoc (init : String × Int) (es : List (String × Int)) (cur e : String × Int)
    (h : Newest init es cur) : Newest init (es ++ [e]) (upd cur e) := by
  unfold upd
  rcases h with ⟨hc, hall⟩ | ⟨i, hi, hlt, hall, hbefore⟩
  · subst hc
    by_cases hge : cur.2 ≥ e.2
    · simp only [hge, ↓reduceIte]
      left
      refine ⟨rfl, ?_⟩
      intro x hx
      rcases List.mem_append.mp hx with hx | hx
      · exact hall x hx
      · simp at hx; subst hx; exact hge
    · simp only [hge, ↓reduceIte]
      right
      refine ⟨es.length, by simp, by omega, ?_, ?_⟩
      · intro x hx
        rcases List.mem_append.mp hx with hx | hx
        · have := hall x hx; omega
        · simp at hx; subst hx; omega
      · intro k hk x hx
        have : es[k]? = some x := by
          rw [List.getElem?_append_left hk] at hx; exact hx
        have hm : x ∈ es := List.mem_of_getElem? this
        have := hall x hm; omega
  · have hilt : i < es.length := by
      rcases Nat.lt_or_ge i es.length with h | h
      · exact h
      · rw [List.getElem?_eq_none h] at hi; cases hi
    by_cases hge : cur.2 ≥ e.2
    · simp only [hge, ↓reduceIte]
      right
      refine ⟨i, ?_, hlt, ?_, ?_⟩
      · rw [List.getElem?_append_left hilt]; exact hi
      · intro x hx
        rcases List.mem_append.mp hx with hx | hx
        · exact hall x hx
        · simp at hx; subst hx; exact hge
      · intro k hk x hx
        have hk' : k < es.length := by omega
        rw [List.getElem?_append_left hk'] at hx
        exact hbefore k hk x hx
    · simp only [hge, ↓reduceIte]
      right
      refine ⟨es.length, by simp, by omega, ?_, ?_⟩
      · intro x hx
        rcases List.mem_append.mp hx with hx | hx
        · have := hall x hx; omega
        · simp at hx; subst hx; omega
      · intro k hk x hx
        rw [List.getElem?_append_left hk] at hx
        have hm : x ∈ es := List.mem_of_getElem? hx
        have := hall x hm; omega

theorem newest_foldl (init : String × Int) (es pre : List (String × Int)) (cur : String × Int)
    (h : Newest init pre cur) : Newest init (pre ++ es) (es.foldl upd cur) := by
  induction es generalizing pre cur with
  | nil => simpa using h
  | cons e es ih =>
    have := ih (pre ++ [e]) (upd cur e) (newest_snoc init pre cur e h)
    simpa [List.append_assoc] using this

theorem putResults_progress (job : Job) (rs : List (String × String)) :
    (putResults job rs).progress = job.progress ∧ (putResults job rs).lastSeen = job.lastSeen ∧
    (putResults job rs).registered = job.registered := by
  unfold putResults
  induction rs generalizing job with
  | nil => simp
  | cons r rs ih => simp only [List.foldl_cons]; have := ih { job with results := r :: job.results }; simpa using this

theorem putResults_results (job : Job) (rs : List (String × String)) :
    (putResults job rs).results = rs.reverse ++ job.results := by
  unfold putResults
  induction rs generalizing job with
  | nil => simp
  | cons r rs ih =>
    simp only [List.foldl_cons, List.reverse_cons, List.append_assoc]
    rw [ih]; simp

theorem maybeUpdate_results (job : Job) (st : Option String) (ts : Int) :
    (maybeUpdate job st ts).results = job.results := by
  unfold maybeUpdate
  cases st with
  | none => rfl
  | some p => by_cases h1 : (p == shutdownMark) = true <;> by_cases h2 : job.lastSeen ≥ ts <;> simp [h1, h2]

theorem maybeUpdate_registered (job : Job) (st : Option String) (ts : Int) :
    (maybeUpdate job st ts).registered = (if st == some shutdownMark then false else job.registered) := by
  unfold maybeUpdate
  cases st with
  | none => simp
  | some p =>
    by_cases h1 : (p == shutdownMark) = true
    · have : p = shutdownMark := by simpa using h1
      simp [this]
    · have hne : ¬ p = shutdownMark := by simpa using h1
      by_cases h2 : job.lastSeen ≥ ts <;> simp [h1, h2]

theorem jobStep_registered (job : Job) (r : Report) :
    (jobStep job r).registered = (if r.status == some shutdownMark then false else job.registered) := by
  unfold jobStep secondShutdown
  by_cases hs : (r.status == some shutdownMark) = true
  · cases hreg : job.registered
    · simp [hs, hreg]
    · simp [hs, (putResults_progress _ _).2.2, maybeUpdate_registered]
  · simp [hs, (putResults_progress _ _).2.2, maybeUpdate_registered]

theorem jobStep_unreg (job : Job) (r : Report) (h : job.registered = false) :
    (jobStep job r).registered = false := by
  rw [jobStep_registered]; split <;> simp [h]

theorem jobStep_foldl_unreg (job : Job) (rs : List Report) (h : job.registered = false) :
    (rs.foldl jobStep job).registered = false := by
  induction rs generalizing job with
  | nil => exact h
  | cons r rs ih => simp only [List.foldl_cons]; exact ih _ (jobStep_unreg job r h)

/-- progress view of a job along the reports naming it: the fold of the abstract rule over the
progress entries -/
theorem view_foldl (job : Job) (rs : List Report) :
    let job' := rs.foldl jobStep job
    (job'.progress, job'.lastSeen) = (eff rs).foldl upd (job.progress, job.lastSeen) := by
  induction rs generalizing job with
  | nil => simp [eff]
  | cons r rs ih =>
    simp only [List.foldl_cons]
    have := ih (jobStep job r)
    simp only at this
    rw [this]
    have hp := putResults_progress (maybeUpdate job r.status r.ts) r.results
    cases hs : r.status with
    | none =>
      have : jobStep job r = putResults (maybeUpdate job r.status r.ts) r.results := by
        simp [jobStep, secondShutdown, hs]
      rw [this, hp.1, hp.2.1]
      simp [eff, hs, maybeUpdate]
    | some p =>
      by_cases hsd : (p == shutdownMark) = true
      · have hpe : p = shutdownMark := by simpa using hsd
        have : (jobStep job r).progress = job.progress ∧ (jobStep job r).lastSeen = job.lastSeen := by
          unfold jobStep secondShutdown
          cases hreg : job.registered
          · simp [hs, hpe]
          · have hq := putResults_progress ({ job with registered := false }) r.results
            simp [hs, hpe, maybeUpdate, hq.1, hq.2.1]
        rw [this.1, this.2]
        simp [eff, hs, hsd]
      · have hne : ¬ p = shutdownMark := by simpa using hsd
        have : jobStep job r = putResults (maybeUpdate job r.status r.ts) r.results := by
          simp [jobStep, secondShutdown, hs, hne]
        rw [this, hp.1, hp.2.1]
        by_cases hge : job.lastSeen ≥ r.ts
        · simp [eff, hs, maybeUpdate, hsd, hge, upd]
        · simp [eff, hs, maybeUpdate, hsd, hge, upd]

/-! ### association list -/

theorem find_set_same (s : St) (j : String) (job : Job) (h : (find? s j).isSome) :
    find? (set s j job) j = some job := by
  induction s with
  | nil => simp [find?] at h
  | cons e s ih =>
    obtain ⟨k, jb⟩ := e
    by_cases he : (k == j) = true
    · simp [find?, set, he]
    · simp only [find?, he] at h
      simp [find?, set, he, ih h]

theorem find_set_other (s : St) (j k : String) (job : Job) (h : (k == j) = false) :
    find? (set s k job) j = find? s j := by
  induction s with
  | nil => rfl
  | cons e s ih =>
    obtain ⟨k', jb⟩ := e
    by_cases he : (k' == k) = true
    · have hek : k' = k := by simpa using he
      subst hek
      simp [find?, set, h, ih]
    · simp only [set, he]
      by_cases hej : (k' == j) = true
      · simp [find?, hej]
      · simp [find?, hej, ih]

theorem find_set_isSome (s : St) (j k : String) (job : Job) :
    (find? (set s k job) j).isSome = (find? s j).isSome := by
  induction s with
  | nil => rfl
  | cons e s ih =>
    obtain ⟨k', jb⟩ := e
    by_cases he : (k' == k) = true
    · have hek : k' = k := by simpa using he
      subst hek
      by_cases hj : (k' == j) = true
      · simp [find?, set, hj]
      · simp [find?, set, hj, ih]
    · simp only [set, he]
      by_cases hej : (k' == j) = true
      · simp [find?, hej]
      · simp [find?, hej, ih]

theorem find_append (s : St) (j k : String) (job : Job) :
    find? (s ++ [(k, job)]) j = match find? s j with
      | some x => some x
      | none => if k == j then some job else none := by
  induction s with
  | nil => simp [find?]
  | cons e s ih =>
    obtain ⟨k', jb⟩ := e
    by_cases hej : (k' == j) = true
    · simp [find?, hej]
    · simp [find?, hej, ih]

theorem find_append_fresh (s : St) (j k : String) (job : Job) (h : (find? s j).isSome) :
    find? (s ++ [(k, job)]) j = find? s j := by
  rw [find_append]
  cases hf : find? s j with
  | none => simp [hf] at h
  | some x => rfl

theorem nextFresh_fresh (s : St) (cs : List String) (k : String) (hn : nextFresh s cs = some k) :
    find? s k = none := by
  induction cs with
  | nil => simp [nextFresh] at hn
  | cons c cs ih =>
    unfold nextFresh at hn
    by_cases hc : (find? s c).isSome = true
    · simp only [hc, ↓reduceIte] at hn; exact ih hn
    · simp only [hc] at hn
      have : c = k := by simpa using hn
      subst this; simpa using hc

theorem nextFresh_mem (s : St) (cs : List String) (k : String) (hn : nextFresh s cs = some k) : k ∈ cs := by
  induction cs with
  | nil => simp [nextFresh] at hn
  | cons c cs ih =>
    unfold nextFresh at hn
    by_cases hc : (find? s c).isSome = true
    · simp only [hc, ↓reduceIte] at hn; exact List.mem_cons_of_mem _ (ih hn)
    · simp only [hc] at hn
      have : c = k := by simpa using hn
      subst this; exact List.mem_cons_self

/-! ### one handled event -/

theorem handle_ne_none (s : St) (e : Ev) : handle s e ≠ none := by
  cases e with
  | fe q => cases q <;> simp [handle, handleFe]
  | ctrl k m => simp [handle]

/-- what handling one event does to a job that exists -/
theorem find_stepH (s : St) (e : Ev) (j : String) (job : Job) (h : find? s j = some job) :
    find? (stepH s e) j = some (evStep j job e) := by
  cases e with
  | fe q =>
    cases q with
    | submit cs fail =>
      simp only [stepH, handle, handleFe, spawn, evStep]
      cases hn : nextFresh s cs with
      | none => simpa using h
      | some k =>
        cases fail
        · simp only [Bool.false_eq_true, ↓reduceIte]
          rw [find_append_fresh s j k _ (by simp [h])]; exact h
        · simpa using h
    | progressOf ids => simpa [stepH, handle, handleFe, evStep] using h
    | getResult a b => simpa [stepH, handle, handleFe, evStep] using h
    | shutdown => simpa [stepH, handle, handleFe, evStep] using h
    | malformed => simpa [stepH, handle, handleFe, evStep] using h
  | ctrl k m =>
    cases m with
    | garbage => simpa [stepH, handle, handleCtrl, evStep] using h
    | report r =>
      simp only [stepH, handle, handleCtrl, report, evStep]
      by_cases hj : (r.job == j) = true
      · have hjj : r.job = j := by simpa using hj
        simp only [hj, ↓reduceIte]
        rw [hjj, h]
        simp only
        by_cases hsec : secondShutdown job r = true
        · simp only [hsec, ↓reduceIte]
          rw [h]; simp [jobStep, hsec]
        · simp only [hsec, Bool.false_eq_true, ↓reduceIte]
          rw [find_set_same s j _ (by simp [h])]
          simp [jobStep, hsec]
      · have hj' : (r.job == j) = false := by simpa using hj
        simp only [hj', Bool.false_eq_true, ↓reduceIte]
        cases hf : find? s r.job with
        | none => simp only; split <;> exact h
        | some jb =>
          simp only
          by_cases hsec : secondShutdown jb r = true
          · simp only [hsec, ↓reduceIte]; exact h
          · simp only [hsec, Bool.false_eq_true, ↓reduceIte]
            rw [find_set_other s j r.job _ hj']; exact h

theorem foldl_evStep (j : String) (job : Job) (evs : List Ev) :
    evs.foldl (evStep j) job = (reportsOf j evs).foldl jobStep job := by
  induction evs generalizing job with
  | nil => rfl
  | cons e evs ih =>
    simp only [List.foldl_cons]
    rw [ih]
    cases e with
    | fe q => simp [evStep, reportsOf]
    | ctrl k m =>
      cases m with
      | garbage => simp [evStep, reportsOf]
      | report r =>
        by_cases hj : (r.job == j) = true
        · simp [evStep, reportsOf, hj]
        · simp [evStep, reportsOf, hj]

/-- Projection: what a history does to job `j` is the fold of `jobStep` over the reports naming it. -/
theorem find_run (s : St) (evs : List Ev) (j : String) (job : Job) (h : find? s j = some job) :
    find? (runH s evs) j = some ((reportsOf j evs).foldl jobStep job) := by
  rw [← foldl_evStep]
  induction evs generalizing s job with
  | nil => simpa [runH] using h
  | cons e evs ih =>
    unfold runH
    simp only [List.foldl_cons]
    exact ih (stepH s e) (evStep j job e) (find_stepH s e j job h)

/-- which ids are known after one event -/
theorem find_stepH_isSome (s : St) (e : Ev) (j : String) :
    (find? (stepH s e) j).isSome = ((find? s j).isSome || newId s e == some j) := by
  cases e with
  | fe q =>
    cases q with
    | submit cs fail =>
      simp only [stepH, newId, handle, handleFe, spawn]
      cases hn : nextFresh s cs with
      | none => simp
      | some k =>
        cases fail
        · simp only [Bool.false_eq_true, ↓reduceIte]
          rw [find_append]
          cases hf : find? s j with
          | some x => simp
          | none => by_cases hk : k = j <;> simp [hk]
        · simp
    | progressOf ids => simp [stepH, newId, handle, handleFe]
    | getResult a b => simp [stepH, newId, handle, handleFe]
    | shutdown => simp [stepH, newId, handle, handleFe]
    | malformed => simp [stepH, newId, handle, handleFe]
  | ctrl k m =>
    cases m with
    | garbage => simp [stepH, newId, handle, handleCtrl]
    | report r =>
      simp only [stepH, newId, handle, handleCtrl, report]
      cases hf : find? s r.job with
      | none => simp only; split <;> simp
      | some jb =>
        simp only
        by_cases hsec : secondShutdown jb r = true
        · simp [hsec]
        · simp only [hsec, Bool.false_eq_true, ↓reduceIte]
          rw [find_set_isSome]; simp

theorem newId_fresh (s : St) (e : Ev) (j : String) (h : newId s e = some j) : find? s j = none := by
  cases e with
  | fe q =>
    cases q with
    | submit cs fail =>
      simp only [newId, handle, handleFe, spawn] at h
      cases hn : nextFresh s cs with
      | none => simp [hn] at h
      | some k =>
        cases fail
        · simp only [hn, Bool.false_eq_true, ↓reduceIte] at h
          have : k = j := by simpa using h
          subst this; exact nextFresh_fresh s cs k hn
        · simp [hn] at h
    | progressOf ids => simp [newId, handle, handleFe] at h
    | getResult a b => simp [newId, handle, handleFe] at h
    | shutdown => simp [newId, handle, handleFe] at h
    | malformed => simp [newId, handle, handleFe] at h
  | ctrl k m =>
    cases m with
    | garbage => simp [newId, handle, handleCtrl] at h
    | report r =>
      simp only [newId, handle, handleCtrl] at h
      cases hr : report s r with
      | mk s' o => simp at h

theorem handedOut_cons (s : St) (e : Ev) (evs : List Ev) :
    handedOut s (e :: evs) = (newId s e).toList ++ handedOut (stepH s e) evs := by
  simp only [handedOut, newId, stepH]
  cases hh : handle s e with
  | none => simp
  | some p =>
    obtain ⟨s', o⟩ := p
    cases o with
    | spawned j => cases j <;> simp
    | _ => simp

theorem known_iff (s : St) (evs : List Ev) (j : String) :
    (find? (runH s evs) j).isSome = true ↔ ((find? s j).isSome = true ∨ j ∈ handedOut s evs) := by
  induction evs generalizing s with
  | nil => simp [runH, handedOut]
  | cons e evs ih =>
    have : runH s (e :: evs) = runH (stepH s e) evs := by simp [runH]
    rw [this, ih (stepH s e), handedOut_cons, find_stepH_isSome]
    cases hn : newId s e with
    | none => simp
    | some k =>
      by_cases hk : k = j
      · subst hk; simp
      · have hk' : ¬ j = k := fun h => hk h.symm
        simp [hk, hk']

theorem handedOut_fresh (s : St) (evs : List Ev) (j : String) (h : j ∈ handedOut s evs) : find? s j = none := by
  induction evs generalizing s with
  | nil => simp [handedOut] at h
  | cons e evs ih =>
    rw [handedOut_cons] at h
    rcases List.mem_append.mp h with h | h
    · cases hn : newId s e with
      | none => simp [hn] at h
      | some k =>
        simp [hn] at h
        subst h; exact newId_fresh s e _ hn
    · have h1 := ih (stepH s e) h
      have h2 := find_stepH_isSome s e j
      rw [h1] at h2
      cases hf : find? s j with
      | none => rfl
      | some x => simp [hf] at h2

theorem handedOut_nodup (s : St) (evs : List Ev) : (handedOut s evs).Nodup := by
  induction evs generalizing s with
  | nil => simp [handedOut]
  | cons e evs ih =>
    rw [handedOut_cons]
    cases hn : newId s e with
    | none => simpa using ih (stepH s e)
    | some k =>
      simp only [Option.toList_some, List.singleton_append, List.nodup_cons]
      refine ⟨?_, ih (stepH s e)⟩
      intro hk
      have h1 := handedOut_fresh (stepH s e) evs k hk
      have h2 := find_stepH_isSome s e k
      rw [h1, hn] at h2
      simp at h2

/-! ### results -/

theorem lastFor_append (d : String) (a b : List (String × String)) :
    lastFor d (a ++ b) = (lastFor d b).or (lastFor d a) := by
  induction a with
  | nil => simp [lastFor]
  | cons e a ih =>
    obtain ⟨k, v⟩ := e
    simp only [List.cons_append, lastFor, ih]
    cases hb : lastFor d b <;> cases ha : lastFor d a <;> simp

theorem lookup_rev_append (a rest : List (String × String)) (d : String) :
    lookupRes (a.reverse ++ rest) d = (lastFor d a).or (lookupRes rest d) := by
  induction a generalizing rest with
  | nil => simp [lastFor]
  | cons e a ih =>
    obtain ⟨k, v⟩ := e
    simp only [List.reverse_cons, List.append_assoc, List.singleton_append]
    rw [ih, lastFor]
    cases ha : lastFor d a with
    | some x => simp
    | none =>
      by_cases hk : (k == d) = true
      · simp [lookupRes, hk]
      · simp [lookupRes, hk]

theorem lastFor_mem (d : String) (l : List (String × String)) (b : String) (h : lastFor d l = some b) :
    (d, b) ∈ l := by
  induction l with
  | nil => simp [lastFor] at h
  | cons e l ih =>
    obtain ⟨k, v⟩ := e
    simp only [lastFor] at h
    cases hl : lastFor d l with
    | some x =>
      simp only [hl] at h
      exact List.mem_cons_of_mem _ (ih (by rw [hl, h]))
    | none =>
      simp only [hl] at h
      by_cases hk : (k == d) = true
      · simp only [hk, ↓reduceIte, Option.some.injEq] at h
        have : k = d := by simpa using hk
        subst this; subst h; exact List.mem_cons_self
      · simp [hk] at h

theorem lastFor_none (d : String) (l : List (String × String)) (h : ∀ p ∈ l, p.1 ≠ d) : lastFor d l = none := by
  induction l with
  | nil => rfl
  | cons e l ih =>
    obtain ⟨k, v⟩ := e
    have h1 : lastFor d l = none := ih (fun p hp => h p (List.mem_cons_of_mem _ hp))
    have h2 : ¬ k = d := h (k, v) List.mem_cons_self
    simp [lastFor, h1, h2]

theorem uploads_mem (reg : Bool) (rs : List Report) (p : String × String) (h : p ∈ uploads reg rs) :
    ∃ r ∈ rs, p ∈ r.results := by
  induction rs generalizing reg with
  | nil => simp [uploads] at h
  | cons r rs ih =>
    simp only [uploads] at h
    by_cases hs : (r.status == some shutdownMark) = true
    · simp only [hs, ↓reduceIte] at h
      cases reg
      · simp only [Bool.false_eq_true, ↓reduceIte] at h
        obtain ⟨r', hr', hp⟩ := ih false h
        exact ⟨r', List.mem_cons_of_mem _ hr', hp⟩
      · simp only [↓reduceIte] at h
        rcases List.mem_append.mp h with h | h
        · exact ⟨r, List.mem_cons_self, h⟩
        · obtain ⟨r', hr', hp⟩ := ih false h
          exact ⟨r', List.mem_cons_of_mem _ hr', hp⟩
    · simp only [hs, Bool.false_eq_true, ↓reduceIte] at h
      rcases List.mem_append.mp h with h | h
      · exact ⟨r, List.mem_cons_self, h⟩
      · obtain ⟨r', hr', hp⟩ := ih reg h
        exact ⟨r', List.mem_cons_of_mem _ hr', hp⟩

/-- results view of a job along the reports naming it -/
theorem results_foldl (job : Job) (rs : List Report) (d : String) :
    lookupRes (rs.foldl jobStep job).results d =
      (lastFor d (uploads job.registered rs)).or (lookupRes job.results d) := by
  induction rs generalizing job with
  | nil => simp [uploads, lastFor]
  | cons r rs ih =>
    simp only [List.foldl_cons]
    rw [ih (jobStep job r), jobStep_registered]
    by_cases hs : (r.status == some shutdownMark) = true
    · cases hreg : job.registered
      · have : jobStep job r = job := by simp [jobStep, secondShutdown, hs, hreg]
        simp [uploads, hs, this]
      · have : (jobStep job r).results = r.results.reverse ++ job.results := by
          simp [jobStep, secondShutdown, hs, hreg, putResults_results, maybeUpdate_results]
        rw [this, lookup_rev_append]
        simp only [uploads, hs, ↓reduceIte, lastFor_append]
        cases lastFor d (uploads false rs) <;> simp
    · have : (jobStep job r).results = r.results.reverse ++ job.results := by
        simp [jobStep, secondShutdown, hs, putResults_results, maybeUpdate_results]
      rw [this, lookup_rev_append]
      simp only [uploads, hs, Bool.false_eq_true, ↓reduceIte, lastFor_append]
      cases lastFor d (uploads job.registered rs) <;> simp

end Aux

end EkwVerif.Gateway
