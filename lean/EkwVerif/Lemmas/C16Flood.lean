/-
C16 helper lemmas, part 2: the flood fill of `decompose`.
-/
import EkwVerif.Model.Presched

set_option linter.unusedSectionVars false
set_option linter.unusedVariables false

namespace EkwVerif.Presched.Aux
open EkwVerif.Presched

variable {α : Type} [DecidableEq α]

/-- `b` is reachable from `a` along `nb` steps -/
inductive Conn (nb : α → List α) : α → α → Prop
  | refl (a : α) : Conn nb a a
  | step {a b c : α} : Conn nb a b → c ∈ nb b → Conn nb a c

theorem Conn.trans {nb : α → List α} {a b c : α} (h1 : Conn nb a b) (h2 : Conn nb b c) : Conn nb a c := by
  induction h2 with
  | refl => exact h1
  | step _ hm ih => exact Conn.step ih hm

theorem Conn.symm {nb : α → List α} (hsym : ∀ a b, b ∈ nb a → a ∈ nb b) {a b : α}
    (h : Conn nb a b) : Conn nb b a := by
  induction h with
  | refl => exact Conn.refl _
  | step _ hm ih => exact Conn.trans (Conn.step (Conn.refl _) (hsym _ _ hm)) ih

theorem Conn.closed {nb : α → List α} {S : α → Prop} (hS : ∀ x y, S x → y ∈ nb x → S y) {a b : α}
    (h : Conn nb a b) (ha : S a) : S b := by
  induction h with
  | refl => exact ha
  | step _ hm ih => exact hS _ _ ih hm

/-! ### pushNew -/

theorem pushNew_spec (nbs q vis : List α) :
    ∃ new : List α, pushNew nbs (q, vis) = (new ++ q, new ++ vis) ∧ new.Nodup ∧
      (∀ x ∈ new, x ∉ vis ∧ x ∈ nbs) ∧ (∀ x ∈ nbs, x ∈ new ∨ x ∈ vis) := by
  unfold pushNew
  induction nbs generalizing q vis with
  | nil => exact ⟨[], by simp⟩
  | cons v nbs ih =>
    simp only [List.foldl_cons]
    by_cases hv : v ∈ vis
    · simp only [hv, ↓reduceIte]
      obtain ⟨new, h1, h2, h3, h4⟩ := ih q vis
      refine ⟨new, h1, h2, ?_, ?_⟩
      · intro x hx
        exact ⟨(h3 x hx).1, List.mem_cons_of_mem _ (h3 x hx).2⟩
      · intro x hx
        rcases List.mem_cons.mp hx with h | h
        · subst h; exact Or.inr hv
        · exact h4 x h
    · simp only [hv, ↓reduceIte]
      obtain ⟨new, h1, h2, h3, h4⟩ := ih (v :: q) (v :: vis)
      refine ⟨new ++ [v], ?_, ?_, ?_, ?_⟩
      · rw [h1]; simp
      · rw [List.nodup_append]
        refine ⟨h2, by simp, ?_⟩
        intro a ha b hb
        simp at hb
        subst hb
        intro hab
        subst hab
        exact (h3 a ha).1 (by simp)
      · intro x hx
        rcases List.mem_append.mp hx with h | h
        · have := h3 x h
          exact ⟨fun hc => this.1 (List.mem_cons_of_mem _ hc), List.mem_cons_of_mem _ this.2⟩
        · simp at h
          subst h
          exact ⟨hv, by simp⟩
      · intro x hx
        rcases List.mem_cons.mp hx with h | h
        · subst h; left; simp
        · rcases h4 x h with h | h
          · left; exact List.mem_append_left _ h
          · rcases List.mem_cons.mp h with h | h
            · subst h; left; simp
            · exact Or.inr h

/-! ### the fuel measure -/

/-- number of nodes not yet visited -/
def unvisited : List α → List α → Nat
  | [], _ => 0
  | a :: ns, vis => (if a ∈ vis then 0 else 1) + unvisited ns vis

theorem unvisited_le_length (ns vis : List α) : unvisited ns vis ≤ ns.length := by
  induction ns with
  | nil => simp [unvisited]
  | cons a ns ih =>
    simp only [unvisited, List.length_cons]
    split <;> omega

theorem unvisited_cons_le (ns vis : List α) (x : α) : unvisited ns (x :: vis) ≤ unvisited ns vis := by
  induction ns with
  | nil => simp [unvisited]
  | cons a ns ih =>
    simp only [unvisited]
    by_cases h1 : a ∈ vis
    · have h2 : a ∈ x :: vis := List.mem_cons_of_mem _ h1
      rw [if_pos h1, if_pos h2]; omega
    · rw [if_neg h1]
      split <;> omega

theorem unvisited_cons_lt (ns vis : List α) (x : α) (hx : x ∈ ns) (hv : x ∉ vis) :
    unvisited ns (x :: vis) + 1 ≤ unvisited ns vis := by
  induction ns with
  | nil => simp at hx
  | cons a ns ih =>
    simp only [unvisited]
    by_cases hax : a = x
    · subst hax
      have := unvisited_cons_le ns vis a
      rw [if_neg hv, if_pos (by simp)]
      omega
    · have hx' : x ∈ ns := by
        rcases List.mem_cons.mp hx with h | h
        · exact absurd h.symm hax
        · exact h
      have := ih hx'
      by_cases h1 : a ∈ vis
      · have h2 : a ∈ x :: vis := List.mem_cons_of_mem _ h1
        rw [if_pos h1, if_pos h2]; omega
      · have h2 : a ∉ x :: vis := by
          intro hc
          rcases List.mem_cons.mp hc with h | h
          · exact hax h
          · exact h1 h
        rw [if_neg h1, if_neg h2]; omega

theorem unvisited_append (ns vis new : List α) (hn : new.Nodup) (hd : ∀ x ∈ new, x ∉ vis ∧ x ∈ ns) :
    unvisited ns (new ++ vis) + new.length ≤ unvisited ns vis := by
  induction new with
  | nil => simp
  | cons a new ih =>
    simp only [List.nodup_cons] at hn
    have h1 := ih hn.2 (fun x hx => hd x (List.mem_cons_of_mem _ hx))
    have ha := hd a (by simp)
    have h2 := unvisited_cons_lt ns (new ++ vis) a ha.2 (by
      intro hc
      rcases List.mem_append.mp hc with h | h
      · exact hn.1 h
      · exact ha.1 h)
    simp only [List.cons_append, List.length_cons]
    omega

/-! ### flood -/

structure FloodPre (nb : α → List α) (q vis comp : List α) : Prop where
  q_nodup : q.Nodup
  comp_nodup : comp.Nodup
  disj : ∀ x, x ∈ q → x ∉ comp
  q_vis : ∀ x ∈ q, x ∈ vis
  comp_vis : ∀ x ∈ comp, x ∈ vis
  comp_closed : ∀ x ∈ comp, ∀ y ∈ nb x, y ∈ vis

structure FloodPost (nb : α → List α) (q vis comp : List α) (r : List α × List α) : Prop where
  nodup : r.2.Nodup
  sub_vis : ∀ x ∈ r.2, x ∈ r.1
  closed : ∀ x ∈ r.2, ∀ y ∈ nb x, y ∈ r.1
  vis_iff : ∀ x, x ∈ r.1 ↔ x ∈ vis ∨ x ∈ r.2
  origin : ∀ x ∈ r.2, x ∈ comp ∨ x ∈ q ∨ x ∉ vis
  comp_sub : ∀ x ∈ comp, x ∈ r.2
  q_sub : ∀ x ∈ q, x ∈ r.2
  inv : ∀ S : α → Prop, (∀ x y, S x → y ∈ nb x → S y) → (∀ x ∈ q, S x) → (∀ x ∈ comp, S x) →
    ∀ x ∈ r.2, S x

theorem flood_post_nil (nb : α → List α) (vis comp : List α) (h : FloodPre nb [] vis comp) :
    FloodPost nb [] vis comp (vis, comp) where
  nodup := h.comp_nodup
  sub_vis := h.comp_vis
  closed := h.comp_closed
  vis_iff := by
    intro x
    constructor
    · exact Or.inl
    · rintro (h1 | h1)
      · exact h1
      · exact h.comp_vis x h1
  origin := fun x hx => Or.inl hx
  comp_sub := fun x hx => hx
  q_sub := by intro x hx; simp at hx
  inv := fun S _ _ hc x hx => hc x hx

theorem flood_spec (nb : α → List α) (ns : List α) (hns : ∀ a b, b ∈ nb a → b ∈ ns) :
    ∀ (fuel : Nat) (q vis comp : List α), FloodPre nb q vis comp →
      unvisited ns vis + q.length ≤ fuel →
      FloodPost nb q vis comp (flood nb fuel q vis comp) := by
  intro fuel
  induction fuel with
  | zero =>
    intro q vis comp hpre hfuel
    have hq : q = [] := by
      cases q with
      | nil => rfl
      | cons a q => simp at hfuel
    subst hq
    simpa [flood] using flood_post_nil nb vis comp hpre
  | succ f ih =>
    intro q vis comp hpre hfuel
    cases q with
    | nil => simpa [flood] using flood_post_nil nb vis comp hpre
    | cons h q =>
      simp only [flood]
      obtain ⟨new, hpn, hnn, hnew, hall⟩ := pushNew_spec (nb h) q vis
      rw [hpn]
      simp only
      have hqn := hpre.q_nodup
      simp only [List.nodup_cons] at hqn
      have hh_vis : h ∈ vis := hpre.q_vis h (by simp)
      have hh_comp : h ∉ comp := hpre.disj h (by simp)
      have hpre' : FloodPre nb (new ++ q) (new ++ vis) (comp ++ [h]) := by
        constructor
        · rw [List.nodup_append]
          refine ⟨hnn, hqn.2, ?_⟩
          intro a ha b hb hab
          subst hab
          exact (hnew a ha).1 (hpre.q_vis a (List.mem_cons_of_mem _ hb))
        · rw [List.nodup_append]
          refine ⟨hpre.comp_nodup, by simp, ?_⟩
          intro a ha b hb hab
          simp at hb
          subst hb
          subst hab
          exact hh_comp ha
        · intro x hx hc
          rcases List.mem_append.mp hc with hc | hc
          · rcases List.mem_append.mp hx with hx | hx
            · exact (hnew x hx).1 (hpre.comp_vis x hc)
            · exact hpre.disj x (List.mem_cons_of_mem _ hx) hc
          · simp at hc
            subst hc
            rcases List.mem_append.mp hx with hx | hx
            · exact (hnew x hx).1 hh_vis
            · exact hqn.1 hx
        · intro x hx
          rcases List.mem_append.mp hx with hx | hx
          · exact List.mem_append_left _ hx
          · exact List.mem_append_right _ (hpre.q_vis x (List.mem_cons_of_mem _ hx))
        · intro x hx
          rcases List.mem_append.mp hx with hx | hx
          · exact List.mem_append_right _ (hpre.comp_vis x hx)
          · simp at hx
            subst hx
            exact List.mem_append_right _ hh_vis
        · intro x hx y hy
          rcases List.mem_append.mp hx with hx | hx
          · exact List.mem_append_right _ (hpre.comp_closed x hx y hy)
          · simp at hx
            subst hx
            rcases hall y hy with h1 | h1
            · exact List.mem_append_left _ h1
            · exact List.mem_append_right _ h1
      have hfuel' : unvisited ns (new ++ vis) + (new ++ q).length ≤ f := by
        have := unvisited_append ns vis new hnn (fun x hx => ⟨(hnew x hx).1, hns h x (hnew x hx).2⟩)
        simp only [List.length_append, List.length_cons] at hfuel ⊢
        omega
      have post := ih (new ++ q) (new ++ vis) (comp ++ [h]) hpre' hfuel'
      constructor
      · exact post.nodup
      · exact post.sub_vis
      · exact post.closed
      · intro x
        rw [post.vis_iff x]
        constructor
        · rintro (h1 | h1)
          · rcases List.mem_append.mp h1 with h1 | h1
            · exact Or.inr (post.q_sub x (List.mem_append_left _ h1))
            · exact Or.inl h1
          · exact Or.inr h1
        · rintro (h1 | h1)
          · exact Or.inl (List.mem_append_right _ h1)
          · exact Or.inr h1
      · intro x hx
        rcases post.origin x hx with h1 | h1 | h1
        · rcases List.mem_append.mp h1 with h1 | h1
          · exact Or.inl h1
          · simp at h1
            subst h1
            exact Or.inr (Or.inl (by simp))
        · rcases List.mem_append.mp h1 with h1 | h1
          · exact Or.inr (Or.inr (hnew x h1).1)
          · exact Or.inr (Or.inl (List.mem_cons_of_mem _ h1))
        · exact Or.inr (Or.inr (fun hc => h1 (List.mem_append_right _ hc)))
      · intro x hx
        exact post.comp_sub x (List.mem_append_left _ hx)
      · intro x hx
        rcases List.mem_cons.mp hx with h1 | h1
        · subst h1
          exact post.comp_sub x (by simp)
        · exact post.q_sub x (List.mem_append_right _ h1)
      · intro S hS hq hc x hx
        apply post.inv S hS ?_ ?_ x hx
        · intro y hy
          rcases List.mem_append.mp hy with h1 | h1
          · exact hS h y (hq h (by simp)) (hnew y h1).2
          · exact hq y (List.mem_cons_of_mem _ h1)
        · intro y hy
          rcases List.mem_append.mp hy with h1 | h1
          · exact hc y h1
          · simp at h1
            subst h1
            exact hq y (by simp)

/-- more fuel than `unvisited + |queue|` changes nothing: the `while queue` loop of the real code
(which has no fuel) is what `flood` computes. -/
theorem flood_fuel_indep (nb : α → List α) (ns : List α) (hns : ∀ a b, b ∈ nb a → b ∈ ns) :
    ∀ (fuel extra : Nat) (q vis comp : List α), (∀ x ∈ q, x ∈ vis) → q.Nodup →
      unvisited ns vis + q.length ≤ fuel →
      flood nb (fuel + extra) q vis comp = flood nb fuel q vis comp := by
  intro fuel
  induction fuel with
  | zero =>
    intro extra q vis comp _ _ hfuel
    have hq : q = [] := by
      cases q with
      | nil => rfl
      | cons a q => simp at hfuel
    subst hq
    cases extra <;> simp [flood]
  | succ f ih =>
    intro extra q vis comp hqv hqn hfuel
    have : f + 1 + extra = (f + extra) + 1 := by omega
    rw [this]
    cases q with
    | nil => simp [flood]
    | cons h q =>
      simp only [flood]
      obtain ⟨new, hpn, hnn, hnew, hall⟩ := pushNew_spec (nb h) q vis
      rw [hpn]
      simp only
      simp only [List.nodup_cons] at hqn
      apply ih
      · intro x hx
        rcases List.mem_append.mp hx with hx | hx
        · exact List.mem_append_left _ hx
        · exact List.mem_append_right _ (hqv x (List.mem_cons_of_mem _ hx))
      · rw [List.nodup_append]
        refine ⟨hnn, hqn.2, ?_⟩
        intro a ha b hb hab
        subst hab
        exact (hnew a ha).1 (hqv a (List.mem_cons_of_mem _ hb))
      · have := unvisited_append ns vis new hnn (fun x hx => ⟨(hnew x hx).1, hns h x (hnew x hx).2⟩)
        simp only [List.length_append, List.length_cons] at hfuel ⊢
        omega

/-! ### decomposeLoop -/

structure DecompPost (nb : α → List α) (sources srcs vis : List α) (ns : List α)
    (comps : List (List α × List α)) : Prop where
  nodup : (comps.map (·.1)).flatten.Nodup
  fresh : ∀ x ∈ (comps.map (·.1)).flatten, x ∉ vis
  cover : ∀ s ∈ srcs, s ∈ vis ∨ s ∈ (comps.map (·.1)).flatten
  closed : ∀ c ∈ comps, ∀ x ∈ c.1, ∀ y ∈ nb x, y ∈ c.1
  conn : ∀ c ∈ comps, ∃ s ∈ srcs, s ∈ c.1 ∧ ∀ x ∈ c.1, Conn nb s x
  srcs_eq : ∀ c ∈ comps, c.2 = c.1.filter (fun e => e ∈ sources)
  sub_ns : ∀ c ∈ comps, ∀ x ∈ c.1, x ∈ ns

theorem decomposeLoop_spec (nb : α → List α) (ns : List α) (hns : ∀ a b, b ∈ nb a → b ∈ ns)
    (hsym : ∀ a b, b ∈ nb a → a ∈ nb b) (fuel : Nat) (hfuel : ns.length ≤ fuel) (sources : List α) :
    ∀ (srcs vis : List α), (∀ s ∈ srcs, s ∈ ns) → (∀ x ∈ vis, ∀ y ∈ nb x, y ∈ vis) →
      DecompPost nb sources srcs vis ns (decomposeLoop nb fuel sources srcs vis) := by
  intro srcs
  induction srcs with
  | nil =>
    intro vis _ _
    simp only [decomposeLoop]
    constructor <;> simp
  | cons s rest ih =>
    intro vis hsn hclosed
    simp only [decomposeLoop]
    have hrest : ∀ s ∈ rest, s ∈ ns := fun x hx => hsn x (List.mem_cons_of_mem _ hx)
    by_cases hs : s ∈ vis
    · simp only [hs, ↓reduceIte]
      have post := ih vis hrest hclosed
      constructor
      · exact post.nodup
      · exact post.fresh
      · intro x hx
        rcases List.mem_cons.mp hx with h | h
        · subst h; exact Or.inl hs
        · exact post.cover x h
      · exact post.closed
      · intro c hc
        obtain ⟨s', hs', h⟩ := post.conn c hc
        exact ⟨s', List.mem_cons_of_mem _ hs', h⟩
      · exact post.srcs_eq
      · exact post.sub_ns
    · simp only [hs, ↓reduceIte]
      have hpre : FloodPre nb [s] (s :: vis) [] := by
        constructor <;> simp
      have hsns : s ∈ ns := hsn s (by simp)
      have hf : unvisited ns (s :: vis) + [s].length ≤ fuel := by
        have h1 := unvisited_cons_lt ns vis s hsns hs
        have h2 : unvisited ns vis ≤ ns.length := unvisited_le_length ns vis
        simp only [List.length_cons, List.length_nil]
        omega
      have fp := flood_spec nb ns hns fuel [s] (s :: vis) [] hpre hf
      generalize flood nb fuel [s] (s :: vis) [] = r at fp
      -- facts about this component
      have hs_in : s ∈ r.2 := fp.q_sub s (by simp)
      have hfresh : ∀ x ∈ r.2, x ∉ vis := by
        intro x hx hc
        rcases fp.origin x hx with h | h | h
        · simp at h
        · simp at h; subst h; exact hs hc
        · exact h (List.mem_cons_of_mem _ hc)
      have hcl : ∀ x ∈ r.2, ∀ y ∈ nb x, y ∈ r.2 := by
        intro x hx y hy
        have h1 := fp.closed x hx y hy
        rcases (fp.vis_iff y).mp h1 with h2 | h2
        · rcases List.mem_cons.mp h2 with h3 | h3
          · subst h3; exact hs_in
          · exact absurd (hclosed y h3 x (hsym x y hy)) (hfresh x hx)
        · exact h2
      have hconn : ∀ x ∈ r.2, Conn nb s x ∧ x ∈ ns := by
        apply fp.inv (fun x => Conn nb s x ∧ x ∈ ns)
        · intro x y hx hy
          exact ⟨Conn.step hx.1 hy, hns x y hy⟩
        · intro x hx
          simp at hx
          subst hx
          exact ⟨Conn.refl _, hsns⟩
        · intro x hx; simp at hx
      have hclosed' : ∀ x ∈ r.1, ∀ y ∈ nb x, y ∈ r.1 := by
        intro x hx y hy
        rcases (fp.vis_iff x).mp hx with h | h
        · rcases List.mem_cons.mp h with h3 | h3
          · subst h3
            exact fp.sub_vis y (hcl x hs_in y hy)
          · exact (fp.vis_iff y).mpr (Or.inl (List.mem_cons_of_mem _ (hclosed x h3 y hy)))
        · exact fp.sub_vis y (hcl x h y hy)
      have post := ih r.1 hrest hclosed'
      constructor
      · simp only [List.map_cons, List.flatten_cons]
        rw [List.nodup_append]
        refine ⟨fp.nodup, post.nodup, ?_⟩
        intro a ha b hb hab
        subst hab
        exact post.fresh a hb (fp.sub_vis a ha)
      · intro x hx
        simp only [List.map_cons, List.flatten_cons] at hx
        rcases List.mem_append.mp hx with h | h
        · exact hfresh x h
        · intro hc
          exact post.fresh x h ((fp.vis_iff x).mpr (Or.inl (List.mem_cons_of_mem _ hc)))
      · intro x hx
        simp only [List.map_cons, List.flatten_cons]
        rcases List.mem_cons.mp hx with h | h
        · subst h
          exact Or.inr (List.mem_append_left _ hs_in)
        · rcases post.cover x h with h1 | h1
          · rcases (fp.vis_iff x).mp h1 with h2 | h2
            · rcases List.mem_cons.mp h2 with h3 | h3
              · subst h3; exact Or.inr (List.mem_append_left _ hs_in)
              · exact Or.inl h3
            · exact Or.inr (List.mem_append_left _ h2)
          · exact Or.inr (List.mem_append_right _ h1)
      · intro c hc
        rcases List.mem_cons.mp hc with h | h
        · subst h; exact hcl
        · exact post.closed c h
      · intro c hc
        rcases List.mem_cons.mp hc with h | h
        · subst h
          exact ⟨s, by simp, hs_in, fun x hx => (hconn x hx).1⟩
        · obtain ⟨s', hs', h'⟩ := post.conn c h
          exact ⟨s', List.mem_cons_of_mem _ hs', h'⟩
      · intro c hc
        rcases List.mem_cons.mp hc with h | h
        · subst h; rfl
        · exact post.srcs_eq c h
      · intro c hc
        rcases List.mem_cons.mp hc with h | h
        · subst h
          exact fun x hx => (hconn x hx).2
        · exact post.sub_ns c h

/-- Every node is connected to a source ⇒ the components cover all nodes. -/
theorem decompose_cover (nb : α → List α) (sources : List α)
    (comps : List (List α × List α)) (ns : List α)
    (post : DecompPost nb sources sources [] ns comps)
    (hcover : ∀ x ∈ ns, ∃ s ∈ sources, Conn nb s x) :
    ∀ x ∈ ns, x ∈ (comps.map (·.1)).flatten := by
  intro x hx
  obtain ⟨s, hs, hc⟩ := hcover x hx
  have h1 : s ∈ (comps.map (·.1)).flatten := by
    rcases post.cover s hs with h | h
    · simp at h
    · exact h
  simp only [List.mem_flatten, List.mem_map] at h1 ⊢
  obtain ⟨l, ⟨c, hc1, hc2⟩, hsl⟩ := h1
  subst hc2
  refine ⟨c.1, ⟨c, hc1, rfl⟩, ?_⟩
  exact Conn.closed (S := fun y => y ∈ c.1) (fun a b ha hb => post.closed c hc1 a ha b hb) hc hsl

end EkwVerif.Presched.Aux
