/-
Tier 4 (`Inv4`) preservation, slice A: `init`, `.enter`, `.endAssign`, `.endPlan`, `.endFlushF`,
`.endFlush`, `.endNotify`, `.recv evs` (this file) and `.assign a` (CtrlInv4A2.lean).
-/
import EkwVerif.Lemmas.CtrlInvDefs
import EkwVerif.Lemmas.CtrlInv1Step

namespace EkwVerif.Ctrl

theorem i4a_init (j : Job) (cl : Cluster) (_wf : WF j cl) : Inv4 j cl (Sys.init j cl) := by
  constructor <;>
    simp [Sys.init, initCtl, Env.init, Sys.inFlight, Sys.todoPairs, Sys.allEv, inboundTransmit]

/-- a step that changes neither the controller state nor the environment fields Tier 4 talks about -/
theorem i4a_congr {j : Job} {cl : Cluster} {s s' : Sys} (h : Inv4 j cl s) (hctl : s'.ctl = s.ctl)
    (hpres : s'.env.present = s.env.present) (hout : s'.env.outstanding = s.env.outstanding)
    (hq : s'.env.queued = s.env.queued) (hran : s'.env.ran = s.env.ran)
    (hprod : s'.env.produced = s.env.produced) (hpur : s'.env.purged = s.env.purged)
    (hviol : s'.env.viol = s.env.viol) (hev : ∀ e, e ∈ s'.allEv → e ∈ s.allEv)
    (htodo : s'.todo = s.todo) (herr : s'.err = s.err) : Inv4 j cl s' := by
  have inb : ∀ ds hh, inboundTransmit s'.env ds hh = inboundTransmit s.env ds hh := by
    intro ds hh; simp only [inboundTransmit, hout]
  have htp : s'.todoPairs = s.todoPairs := by simp only [Sys.todoPairs, htodo]
  have hfl : ∀ w t, s'.inFlight w t ↔ s.inFlight w t := by
    intro w t; simp only [Sys.inFlight, htp, hctl]
  refine ⟨?_, ?_, ?_, ?_, ?_, ?_, ?_, ?_, ?_, ?_, ?_, ?_, ?_, ?_, ?_, ?_, ?_, ?_, ?_, ?_, ?_, ?_, ?_⟩
  · rw [hctl]; exact h.keys
  · rw [hctl]; exact h.status_hosts
  · rw [hctl]; exact h.workerDs_ok
  · rw [hctl, hpres]; exact h.avail_present
  · intro hh ds; rw [hctl, hpres, inb]; exact h.status_present hh ds
  · rw [hctl, hpres, hout, hq]; exact h.transmit_out
  · intro w t hf; rw [hctl, hpres, hran]; exact h.flight_present w t ((hfl w t).mp hf)
  · rw [hctl, hpres, htp]; exact h.present_status
  · rw [hctl, hran]; exact h.ongoing_status
  · intro w ds he; rw [hctl, hpres]; exact h.evW_present w ds (hev _ he)
  · intro hh ds he; rw [hctl, hpres]; exact h.evT_present hh ds (hev _ he)
  · rw [hctl]; exact h.avail_somewhere
  · rw [hctl, hpur]; exact h.purged_unneeded
  · rw [hpres, hprod]; exact h.present_produced
  · rw [hviol]; exact h.no_transmit_from_missing
  · rw [hviol]; exact h.no_fetch_from_missing
  · rw [hviol]; exact h.no_purge_while_outstanding
  · rw [hviol]; exact h.no_input_purged
  · rw [hviol]; exact h.no_input_absent
  · rw [hviol]; exact h.no_io_gone_t
  · rw [hviol]; exact h.no_io_gone_f
  · rw [herr]; exact h.no_err_notfound
  · rw [herr]; exact h.no_err_pop

theorem i4a_step_enter (f : Sem) (j : Job) (cl : Cluster) (s s' : Sys) (_wf : WF j cl)
    (h1 : Inv1 cl s) (_h2 : Inv2 j cl s) (_h3 : Inv3 f j cl s) (h4 : Inv4 j cl s)
    (hs : step f j cl s .enter = some s') : Inv4 j cl s' := by
  simp only [step] at hs
  split at hs; · cases hs
  rename_i hp
  have hp' : s.phase = .top := by simpa using hp
  have htodo : s.todo = [] := h1.todo_phase (by simp [hp']) (by simp [hp']) (by simp [hp'])
  split at hs
  · cases hs
    exact i4a_congr h4 rfl rfl rfl rfl rfl rfl rfl rfl (fun _ he => he) rfl rfl
  · cases hs
    exact i4a_congr h4 rfl rfl rfl rfl rfl rfl rfl rfl (fun _ he => he) (by simp [htodo]) rfl

theorem i4a_step_endAssign (f : Sem) (j : Job) (cl : Cluster) (s s' : Sys) (_wf : WF j cl)
    (_h1 : Inv1 cl s) (_h2 : Inv2 j cl s) (_h3 : Inv3 f j cl s) (h4 : Inv4 j cl s)
    (hs : step f j cl s .endAssign = some s') : Inv4 j cl s' := by
  simp only [step] at hs
  split at hs; · cases hs
  cases hs
  exact i4a_congr h4 rfl rfl rfl rfl rfl rfl rfl rfl (fun _ he => he) rfl rfl

theorem i4a_step_endPlan (f : Sem) (j : Job) (cl : Cluster) (s s' : Sys) (_wf : WF j cl)
    (_h1 : Inv1 cl s) (_h2 : Inv2 j cl s) (_h3 : Inv3 f j cl s) (h4 : Inv4 j cl s)
    (hs : step f j cl s .endPlan = some s') : Inv4 j cl s' := by
  simp only [step] at hs
  split at hs; · cases hs
  cases hs
  exact i4a_congr h4 rfl rfl rfl rfl rfl rfl rfl rfl (fun _ he => he) rfl rfl

theorem i4a_step_endFlushF (f : Sem) (j : Job) (cl : Cluster) (s s' : Sys) (_wf : WF j cl)
    (_h1 : Inv1 cl s) (_h2 : Inv2 j cl s) (_h3 : Inv3 f j cl s) (h4 : Inv4 j cl s)
    (hs : step f j cl s .endFlushF = some s') : Inv4 j cl s' := by
  simp only [step] at hs
  split at hs; · cases hs
  cases hs
  exact i4a_congr h4 rfl rfl rfl rfl rfl rfl rfl rfl (fun _ he => he) rfl rfl

theorem i4a_step_endFlush (f : Sem) (j : Job) (cl : Cluster) (s s' : Sys) (_wf : WF j cl)
    (_h1 : Inv1 cl s) (_h2 : Inv2 j cl s) (_h3 : Inv3 f j cl s) (h4 : Inv4 j cl s)
    (hs : step f j cl s .endFlush = some s') : Inv4 j cl s' := by
  simp only [step] at hs
  split at hs; · cases hs
  cases hs
  exact i4a_congr h4 rfl rfl rfl rfl rfl rfl rfl rfl (fun _ he => he) rfl rfl

theorem i4a_step_endNotify (f : Sem) (j : Job) (cl : Cluster) (s s' : Sys) (_wf : WF j cl)
    (_h1 : Inv1 cl s) (_h2 : Inv2 j cl s) (_h3 : Inv3 f j cl s) (h4 : Inv4 j cl s)
    (hs : step f j cl s .endNotify = some s') : Inv4 j cl s' := by
  simp only [step] at hs
  split at hs; · cases hs
  cases hs
  exact i4a_congr h4 rfl rfl rfl rfl rfl rfl rfl rfl (fun _ he => he) rfl rfl

/-- `markDelivered` only touches the `delivered` ghost -/
theorem i4a_markDelivered_frame (l : List Event) (e : Env) :
    (markDelivered e l).present = e.present ∧ (markDelivered e l).outstanding = e.outstanding ∧
    (markDelivered e l).queued = e.queued ∧ (markDelivered e l).ran = e.ran ∧
    (markDelivered e l).produced = e.produced ∧ (markDelivered e l).purged = e.purged ∧
    (markDelivered e l).viol = e.viol ∧ (markDelivered e l).pending = e.pending := by
  induction l generalizing e with
  | nil => simp [markDelivered]
  | cons x l ih =>
    simp only [markDelivered, List.foldl_cons] at ih ⊢
    cases x <;> simp [ih]

theorem i4a_step_recv (f : Sem) (j : Job) (cl : Cluster) (s s' : Sys) (evs : List Event) (_wf : WF j cl)
    (_h1 : Inv1 cl s) (_h2 : Inv2 j cl s) (_h3 : Inv3 f j cl s) (h4 : Inv4 j cl s)
    (hs : step f j cl s (.recv evs) = some s') : Inv4 j cl s' := by
  simp only [step] at hs
  split at hs; · cases hs
  split at hs
  · cases hs
  · rename_i pend htk
    cases hs
    have hsub := takeEvents_sub evs s.env.pending pend htk
    obtain ⟨m1, m2, m3, m4, m5, m6, m7, m8⟩ := i4a_markDelivered_frame evs { s.env with pending := pend }
    refine i4a_congr h4 rfl m1 m2 m3 m4 m5 m6 m7 ?_ rfl rfl
    intro e he
    simp only [Sys.allEv, m8] at he ⊢
    exact List.mem_append.mpr (Or.inr (hsub e he))

end EkwVerif.Ctrl
