/-
Tier 4 (`Inv4`) preservation, slice B, second part: the environment steps `.env es`.
-/
import EkwVerif.Lemmas.CtrlInv4B
import EkwVerif.Lemmas.CtrlInv2X
import EkwVerif.Lemmas.CtrlInv4X

set_option linter.unusedVariables false

namespace EkwVerif.Ctrl

/-! ### list helpers -/

theorem i4b_mem_eraseIdx {α : Type} (l : List α) (i : Nat) (o o' : α) (hm : o ∈ l) (hi : l[i]? = some o') :
    o ∈ l.eraseIdx i ∨ o = o' := by
  induction l generalizing i with
  | nil => simp at hm
  | cons x l ih =>
    cases i with
    | zero =>
      simp only [List.getElem?_cons_zero, Option.some.injEq] at hi
      subst hi
      simp only [List.eraseIdx_zero, List.tail_cons]
      rcases List.mem_cons.mp hm with h | h
      · exact Or.inr h
      · exact Or.inl h
    | succ i =>
      simp only [List.getElem?_cons_succ] at hi
      simp only [List.eraseIdx_cons_succ, List.mem_cons]
      rcases List.mem_cons.mp hm with h | h
      · exact Or.inl (Or.inl h)
      · rcases ih i h hi with h' | h'
        · exact Or.inl (Or.inr h')
        · exact Or.inr h'

theorem i4b_two_le {α : Type} (p : α → Bool) (l : List α) (i : Nat) (o o' : α) (hi : l[i]? = some o)
    (hp : p o = true) (hm : o' ∈ l.eraseIdx i) (hp' : p o' = true) : 2 ≤ (l.filter p).length := by
  induction l generalizing i with
  | nil => simp at hi
  | cons x l ih =>
    cases i with
    | zero =>
      simp only [List.getElem?_cons_zero, Option.some.injEq] at hi
      subst hi
      simp only [List.eraseIdx_zero, List.tail_cons] at hm
      have : 0 < (l.filter p).length := List.length_pos_of_mem (List.mem_filter.mpr ⟨hm, hp'⟩)
      simp only [List.filter_cons, hp, if_true, List.length_cons]
      omega
    | succ i =>
      simp only [List.getElem?_cons_succ] at hi
      simp only [List.eraseIdx_cons_succ, List.mem_cons] at hm
      rcases hm with h | h
      · subst h
        have : 0 < (l.filter p).length :=
          List.length_pos_of_mem (List.mem_filter.mpr ⟨List.mem_of_getElem? hi, hp⟩)
        simp only [List.filter_cons, hp', if_true, List.length_cons]
        omega
      · have := ih i hi h
        simp only [List.filter_cons]
        split
        · simp only [List.length_cons]; omega
        · exact this

/-! ### what `publishOutputs` does to `present` / `produced` -/

theorem i4b_publish_present (f : Sem) (j : Job) (w : Worker) (t : Task) (args : List Val) (e : Env) (h : Host) (ds : Ds) :
    (publishOutputs f j w t args e).present h ds =
      if h = w.host ∧ ds ∈ j.outputsOf t then some (f t ds.out args) else e.present h ds := by
  unfold publishOutputs
  generalize j.outputsOf t = l
  induction l generalizing e with
  | nil => simp
  | cons x l ih =>
    simp only [List.foldl_cons]
    rw [ih]
    simp only [i4b_upd2, List.mem_cons]
    grind

theorem i4b_publish_produced (f : Sem) (j : Job) (w : Worker) (t : Task) (args : List Val) (e : Env) (ds : Ds) :
    (publishOutputs f j w t args e).produced ds = if ds ∈ j.outputsOf t then true else e.produced ds := by
  unfold publishOutputs
  generalize j.outputsOf t = l
  induction l generalizing e with
  | nil => simp
  | cons x l ih =>
    simp only [List.foldl_cons]
    rw [ih]
    simp only [upd, List.mem_cons]
    grind

/-- everything the `.run w t` step does to the environment -/
theorem i4b_run_facts (f : Sem) (j : Job) (e e' : Env) (w : Worker) (t : Task)
    (h : envStep f j e (.run w t) = some e') :
    (w, t) ∈ e.queued ∧ (∀ d, d ∈ j.inputs t → (e.present w.host d).isSome = true) ∧
    e'.queued = e.queued.erase (w, t) ∧ e'.ran = upd e.ran t true ∧ e'.viol = e.viol ∧
    e'.outstanding = e.outstanding ∧ e'.purged = e.purged ∧
    e'.pending = e.pending ++ (j.outputsOf t).map (fun ds => Event.pubW w ds) ∧
    (∀ h ds, h = w.host ∧ ds ∈ j.outputsOf t → (e'.present h ds).isSome = true) ∧
    (∀ h ds, ¬ (h = w.host ∧ ds ∈ j.outputsOf t) → e'.present h ds = e.present h ds) ∧
    (∀ ds, ds ∈ j.outputsOf t → e'.produced ds = true) ∧
    (∀ ds, ds ∉ j.outputsOf t → e'.produced ds = e.produced ds) := by
  simp only [envStep] at h
  split at h
  · rename_i hc
    simp only [Option.some.injEq] at h
    subst h
    simp only [Bool.and_eq_true, List.contains_iff_mem, List.all_eq_true] at hc
    obtain ⟨h1, h2, h3, h4, h5, h6, h7, h8⟩ := publishOutputs_frame f j w t
      ((j.inputs t).map (fun d => (e.present w.host d).getD ""))
      { e with queued := e.queued.erase (w, t), ran := upd e.ran t true }
    refine ⟨hc.1, hc.2, h1, h5, h3, h4, h7, h8, ?_, ?_, ?_, ?_⟩
    · intro h ds hcond; rw [i4b_publish_present, if_pos hcond]; rfl
    · intro h ds hcond; rw [i4b_publish_present, if_neg hcond]
    · intro ds hcond; rw [i4b_publish_produced, if_pos hcond]
    · intro ds hcond; rw [i4b_publish_produced, if_neg hcond]
  · cases h

/-! ### `.env (.run w t)` -/

theorem i4b_env_run (f : Sem) (j : Job) (cl : Cluster) (s : Sys) (e' : Env) (w : Worker) (t : Task)
    (h1 : Inv1 cl s) (h2 : Inv2 j cl s) (h4 : Inv4 j cl s) (hx : Inv2X j s)
    (he : envStep f j s.env (.run w t) = some e') : Inv4 j cl { s with env := e' } := by
  obtain ⟨hq, hin, eq_q, eq_ran, eq_viol, eq_out, eq_purged, eq_pend, pNew, pOld, prNew, prOld⟩ :=
    i4b_run_facts f j s.env e' w t he
  have hfl : s.inFlight w t := h1.queued_flight w t hq
  have hnran : s.env.ran t = false := h2.queued_not_ran w t hq
  have hwk : w ∈ cl.ids := h1.flight_known w t hfl
  have pmono : ∀ h ds, (s.env.present h ds).isSome = true → (e'.present h ds).isSome = true := by
    intro h ds hp
    by_cases hc : h = w.host ∧ ds ∈ j.outputsOf t
    · exact pNew h ds hc
    · rw [pOld h ds hc]; exact hp
  have hinb : ∀ ds h, inboundTransmit e' ds h = inboundTransmit s.env ds h := by
    intro ds h; simp only [inboundTransmit, eq_out]
  have hev : ∀ ev, ev ∈ Sys.allEv { s with env := e' } →
      ev ∈ s.allEv ∨ ∃ ds, ds ∈ j.outputsOf t ∧ ev = Event.pubW w ds := by
    intro ev hm
    simp only [Sys.allEv, eq_pend, List.mem_append, List.mem_map] at hm ⊢
    rcases hm with hm | hm | ⟨ds, hds, rfl⟩
    · exact Or.inl (Or.inl hm)
    · exact Or.inl (Or.inr hm)
    · exact Or.inr ⟨ds, hds, rfl⟩
  have hv : ∀ m, m ∉ s.env.viol → m ∉ e'.viol := by
    intro m hm; rw [eq_viol]; exact hm
  have hmk : ∀ ds : Ds, (⟨ds.task, ds.out⟩ : Ds) = ds := fun ds => by cases ds; rfl
  refine ⟨h4.keys, h4.status_hosts, h4.workerDs_ok, ?_, ?_, ?_, ?_, ?_, ?_, ?_, ?_, h4.avail_somewhere, ?_, ?_,
    hv _ h4.no_transmit_from_missing, hv _ h4.no_fetch_from_missing, hv _ h4.no_purge_while_outstanding,
    hv _ h4.no_input_purged, hv _ h4.no_input_absent, hv _ h4.no_io_gone_t, hv _ h4.no_io_gone_f,
    h4.no_err_notfound, h4.no_err_pop⟩
  · -- avail_present
    intro h ds hav hn
    exact pmono _ _ (h4.avail_present h ds hav hn)
  · -- status_present
    intro h ds hne hn han
    rcases h4.status_present h ds hne hn han with hp | hi
    · exact Or.inl (pmono _ _ hp)
    · exact Or.inr ((hinb ds h).trans hi)
  · -- transmit_out
    intro ds src tgt hm
    have hm' : IO.transmit ds src tgt ∈ s.env.outstanding := by rw [← eq_out]; exact hm
    obtain ⟨t1, t2, t3, w', t', hq', hw', hin'⟩ := h4.transmit_out ds src tgt hm'
    refine ⟨pmono _ _ t1, ?_, t3, ?_⟩
    · by_cases hc : tgt = w.host ∧ ds ∈ j.outputsOf t
      · exfalso
        have hprod := h4.present_produced src ds t1
        have hran := ((h2.produced_iff ds).mp hprod).1
        rw [((i4b_outputsOf_mem j t ds).mp hc.2).1, hnran] at hran
        cases hran
      · show e'.present tgt ds = none
        rw [pOld _ _ hc]; exact t2
    · by_cases heq : (w', t') = (w, t)
      · exfalso
        simp only [Prod.mk.injEq] at heq
        obtain ⟨rfl, rfl⟩ := heq
        have := hin ds hin'
        rw [hw', t2] at this
        simp at this
      · refine ⟨w', t', ?_, hw', hin'⟩
        show (w', t') ∈ e'.queued
        rw [eq_q]; exact (List.mem_erase_of_ne heq).mpr hq'
  · -- flight_present
    intro w' t' hf hran k hk hn
    have hran' : upd s.env.ran t true t' = true := by rw [← eq_ran]; exact hran
    by_cases ht : t' = t
    · subst ht
      have hw : w' = w := hx.uniq w' w t' hf hfl
      subst hw
      exact pNew _ _ ⟨rfl, (i4b_outputsOf_mem j t' _).mpr ⟨rfl, hk⟩⟩
    · rw [upd_other _ _ _ _ ht] at hran'
      exact pmono _ _ (h4.flight_present w' t' hf hran' k hk hn)
  · -- present_status
    intro h ds hp
    have hp' : (e'.present h ds).isSome = true := hp
    by_cases hc : h = w.host ∧ ds ∈ j.outputsOf t
    · obtain ⟨rfl, hm⟩ := hc
      obtain ⟨htask, hk⟩ := (i4b_outputsOf_mem j t ds).mp hm
      rcases hfl with hon | htd
      · left
        have := h4.ongoing_status w t hon hnran ds.out hk
        rw [← htask, hmk] at this
        exact this
      · right
        exact ⟨w, rfl, by rw [htask]; exact htd⟩
    · rw [pOld _ _ hc] at hp'
      exact h4.present_status h ds hp'
  · -- ongoing_status
    intro w' t' hm hran k hk
    have hran' : upd s.env.ran t true t' = false := by rw [← eq_ran]; exact hran
    by_cases ht : t' = t
    · subst ht; simp at hran'
    · rw [upd_other _ _ _ _ ht] at hran'
      exact h4.ongoing_status w' t' hm hran' k hk
  · -- evW_present
    intro w' ds hm
    rcases hev _ hm with hold | ⟨ds', hds', heq⟩
    · have := h4.evW_present w' ds hold
      exact ⟨this.1, fun hn => pmono _ _ (this.2 hn)⟩
    · simp only [Event.pubW.injEq] at heq
      obtain ⟨rfl, rfl⟩ := heq
      exact ⟨hwk, fun _ => pNew _ _ ⟨rfl, hds'⟩⟩
  · -- evT_present
    intro h ds hm
    rcases hev _ hm with hold | ⟨ds', hds', heq⟩
    · have := h4.evT_present h ds hold
      exact ⟨this.1, fun hn => pmono _ _ (this.2 hn)⟩
    · cases heq
  · -- purged_unneeded
    intro h ds hm hn
    exact h4.purged_unneeded h ds (by rw [← eq_purged]; exact hm) hn
  · -- present_produced
    intro h ds hp
    have hp' : (e'.present h ds).isSome = true := hp
    show e'.produced ds = true
    by_cases hc : ds ∈ j.outputsOf t
    · exact prNew ds hc
    · rw [prOld ds hc]
      rw [pOld h ds (fun hh => hc hh.2)] at hp'
      exact h4.present_produced h ds hp'

/-! ### `.env (.io i)` -/

theorem i4b_env_io (f : Sem) (j : Job) (cl : Cluster) (s : Sys) (e' : Env) (i : Nat)
    (h3 : Inv3 f j cl s) (h4 : Inv4 j cl s) (h4x : Inv4X j s)
    (he : envStep f j s.env (.io i) = some e') : Inv4 j cl { s with env := e' } := by
  simp only [envStep] at he
  split at he
  · cases he
  · rename_i o ho
    have hmem : o ∈ s.env.outstanding := List.mem_of_getElem? ho
    cases o with
    | transmit ds src tgt =>
      obtain ⟨t1, t2, t3, t4⟩ := h4.transmit_out ds src tgt hmem
      dsimp only at he
      split at he
      · rename_i hnone
        rw [hnone] at t1; simp at t1
      · rename_i v hv
        split at he
        · rename_i hsome
          rw [t2] at hsome; simp at hsome
        · simp only [Option.some.injEq] at he
          subst he
          have hpres : ∀ h' ds', upd s.env.present tgt (upd (s.env.present tgt) ds (some v)) h' ds' =
              if h' = tgt ∧ ds' = ds then some v else s.env.present h' ds' := fun _ _ => i4b_upd2 _ _ _ _ _ _
          have pmono : ∀ h' ds', (s.env.present h' ds').isSome = true →
              (upd s.env.present tgt (upd (s.env.present tgt) ds (some v)) h' ds').isSome = true := by
            intro h' ds' hp
            rw [hpres]; split
            · rfl
            · exact hp
          have hevs : ∀ ev, ev ∈ s.inbox ++ (s.env.pending ++ [Event.pubT tgt ds]) →
              ev ∈ s.allEv ∨ ev = Event.pubT tgt ds := by
            intro ev hm
            simp only [Sys.allEv, List.mem_append, List.mem_singleton] at hm ⊢
            rcases hm with hm | hm | hm
            · exact Or.inl (Or.inl hm)
            · exact Or.inl (Or.inr hm)
            · exact Or.inr hm
          refine ⟨h4.keys, h4.status_hosts, h4.workerDs_ok, ?_, ?_, ?_, ?_, ?_, h4.ongoing_status, ?_, ?_,
            h4.avail_somewhere, h4.purged_unneeded, ?_,
            h4.no_transmit_from_missing, h4.no_fetch_from_missing, h4.no_purge_while_outstanding,
            h4.no_input_purged, h4.no_input_absent, h4.no_io_gone_t, h4.no_io_gone_f,
            h4.no_err_notfound, h4.no_err_pop⟩
          · -- avail_present
            intro h' ds' hav hn
            exact pmono _ _ (h4.avail_present h' ds' hav hn)
          · -- status_present
            intro h' ds' hne hn han
            rcases h4.status_present h' ds' hne hn han with hp | hi
            · exact Or.inl (pmono _ _ hp)
            · simp only [inboundTransmit, List.any_eq_true] at hi
              obtain ⟨o, ho', hcond⟩ := hi
              rcases i4b_mem_eraseIdx _ i o _ ho' ho with hin | heq
              · right
                simp only [inboundTransmit, List.any_eq_true]
                exact ⟨o, hin, hcond⟩
              · subst heq
                simp only [Bool.and_eq_true, beq_iff_eq] at hcond
                obtain ⟨rfl, rfl⟩ := hcond
                left
                show (upd s.env.present tgt (upd (s.env.present tgt) ds (some v)) tgt ds).isSome = true
                rw [hpres]; simp
          · -- transmit_out
            intro ds' src' tgt' hm'
            have hm'' : IO.transmit ds' src' tgt' ∈ s.env.outstanding.eraseIdx i := hm'
            obtain ⟨u1, u2, u3, u4⟩ := h4.transmit_out ds' src' tgt' (List.mem_of_mem_eraseIdx hm'')
            refine ⟨pmono _ _ u1, ?_, u3, u4⟩
            show upd s.env.present tgt (upd (s.env.present tgt) ds (some v)) tgt' ds' = none
            rw [hpres]
            split
            · rename_i hc
              obtain ⟨rfl, rfl⟩ := hc
              exfalso
              have := i4b_two_le (isTransmitTo ds' tgt') s.env.outstanding i _ _ ho (by simp [isTransmitTo]) hm''
                (by simp [isTransmitTo])
              have := h4x.transmit_count ds' tgt'
              omega
            · exact u2
          · -- flight_present
            intro w' t' hf hran k hk hn
            exact pmono _ _ (h4.flight_present w' t' hf hran k hk hn)
          · -- present_status
            intro h' ds' hp
            have hp' : (upd s.env.present tgt (upd (s.env.present tgt) ds (some v)) h' ds').isSome = true := hp
            rw [hpres] at hp'
            split at hp'
            · rename_i hc
              obtain ⟨rfl, rfl⟩ := hc
              exact Or.inl t3
            · exact h4.present_status h' ds' hp'
          · -- evW_present
            intro w' ds' hm
            rcases hevs _ hm with hold | heq
            · have := h4.evW_present w' ds' hold
              exact ⟨this.1, fun hn => pmono _ _ (this.2 hn)⟩
            · cases heq
          · -- evT_present
            intro h' ds' hm
            rcases hevs _ hm with hold | heq
            · have := h4.evT_present h' ds' hold
              exact ⟨this.1, fun hn => pmono _ _ (this.2 hn)⟩
            · simp only [Event.pubT.injEq] at heq
              obtain ⟨rfl, rfl⟩ := heq
              refine ⟨h4.status_hosts h' ds' (fun hmiss => t3 ((h4.keys h' ds').mpr hmiss)), fun _ => ?_⟩
              show (upd s.env.present h' (upd (s.env.present h') ds' (some v)) h' ds').isSome = true
              rw [hpres]; simp
          · -- present_produced
            intro h' ds' hp
            have hp' : (upd s.env.present tgt (upd (s.env.present tgt) ds (some v)) h' ds').isSome = true := hp
            rw [hpres] at hp'
            split at hp'
            · rename_i hc
              obtain ⟨rfl, rfl⟩ := hc
              exact h4.present_produced src ds' t1
            · exact h4.present_produced h' ds' hp'
    | fetch ds src =>
      have hf := (h3.fetch_out ds src hmem).2.2.2.2
      dsimp only at he
      split at he
      · rename_i hnone
        rw [hnone] at hf; simp at hf
      · rename_i v hv
        simp only [Option.some.injEq] at he
        subst he
        have hevs : ∀ ev, ev ∈ s.inbox ++ (s.env.pending ++ [Event.payload ds v]) →
            ev ∈ s.allEv ∨ ev = Event.payload ds v := by
          intro ev hm
          simp only [Sys.allEv, List.mem_append, List.mem_singleton] at hm ⊢
          rcases hm with hm | hm | hm
          · exact Or.inl (Or.inl hm)
          · exact Or.inl (Or.inr hm)
          · exact Or.inr hm
        refine ⟨h4.keys, h4.status_hosts, h4.workerDs_ok, h4.avail_present, ?_, ?_, h4.flight_present,
          h4.present_status, h4.ongoing_status, ?_, ?_,
          h4.avail_somewhere, h4.purged_unneeded, h4.present_produced,
          h4.no_transmit_from_missing, h4.no_fetch_from_missing, h4.no_purge_while_outstanding,
          h4.no_input_purged, h4.no_input_absent, h4.no_io_gone_t, h4.no_io_gone_f,
          h4.no_err_notfound, h4.no_err_pop⟩
        · -- status_present
          intro h' ds' hne hn han
          rcases h4.status_present h' ds' hne hn han with hp | hi
          · exact Or.inl hp
          · simp only [inboundTransmit, List.any_eq_true] at hi
            obtain ⟨o, ho', hcond⟩ := hi
            rcases i4b_mem_eraseIdx _ i o _ ho' ho with hin | heq
            · right
              simp only [inboundTransmit, List.any_eq_true]
              exact ⟨o, hin, hcond⟩
            · subst heq
              simp at hcond
        · -- transmit_out
          intro ds' src' tgt' hm'
          have hm'' : IO.transmit ds' src' tgt' ∈ s.env.outstanding.eraseIdx i := hm'
          exact h4.transmit_out ds' src' tgt' (List.mem_of_mem_eraseIdx hm'')
        · -- evW_present
          intro w' ds' hm
          rcases hevs _ hm with hold | heq
          · exact h4.evW_present w' ds' hold
          · cases heq
        · -- evT_present
          intro h' ds' hm
          rcases hevs _ hm with hold | heq
          · exact h4.evT_present h' ds' hold
          · cases heq

theorem i4b_step_env (f : Sem) (j : Job) (cl : Cluster) (s s' : Sys) (es : EnvStep) (wf : WF j cl)
    (h1 : Inv1 cl s) (h2 : Inv2 j cl s) (h3 : Inv3 f j cl s) (h4 : Inv4 j cl s)
    (hx : Inv2X j s) (h4x : Inv4X j s)
    (hs : step f j cl s (.env es) = some s') : Inv4 j cl s' := by
  simp only [step] at hs
  split at hs; · cases hs
  rw [envStepP_eq f j s.env es h1.no_trim] at hs
  cases he : envStep f j s.env es with
  | none => simp [he] at hs
  | some e' =>
    simp only [he, Option.map_some, Option.some.injEq] at hs
    subst hs
    cases es with
    | run w t => exact i4b_env_run f j cl s e' w t h1 h2 h4 hx he
    | io i => exact i4b_env_io f j cl s e' i h3 h4 h4x he

end EkwVerif.Ctrl
