/-
Executable (Bool) versions of the hypotheses of the controller theorems — `WF` (well-formed job and cluster), `WFC`
(component map consistent with the job) and `Feasible` — with soundness proofs. The drivers `Drive/Ctrl.lean` and
`Drive/CtrlX.lean` evaluate them on EVERY replayed input (`wf`, `wfc`, `feasible` in the answer to `init`), so that the
hypotheses under which the theorems of C01–C04 speak about a replayed run are checked, not assumed of the generator.
-/
import EkwVerif.Lemmas.SchedInvDefs
import EkwVerif.Lemmas.SchedProgressDefs

namespace EkwVerif.Ctrl

def wfCheck (j : Job) (cl : Cluster) : Bool :=
  (j.taskIds.all fun t => (j.inputs t).all fun ds => decide (ds.task < t) && decide (ds.out < j.nOut ds.task)) &&
  (j.taskIds.all fun t => decide (1 ≤ j.nOut t)) &&
  (j.taskIds.all fun t => decide (j.inputs t).Nodup) &&
  (j.ext.all fun ds => decide (ds.task < j.tasks.length) && decide (ds.out < j.nOut ds.task)) &&
  decide cl.ids.Nodup

def wfcCheck (j : Job) (cm : Comps) : Bool :=
  j.taskIds.all fun t => decide (cm.compOf t < cm.n) && (j.inputs t).all fun ds => decide (cm.compOf ds.task = cm.compOf t)

def feasCheck (j : Job) (cl : Cluster) : Bool :=
  !cl.ids.isEmpty && (!(j.taskIds.any fun t => j.gpu t) || cl.ids.any fun w => cl.hasGpu w)

theorem Job.inputs_of_ge (j : Job) (t : Task) (h : j.tasks.length ≤ t) : j.inputs t = [] := by
  simp [Job.inputs, List.getElem?_eq_none h]

theorem Job.mem_taskIds (j : Job) (t : Task) : t ∈ j.taskIds ↔ t < j.tasks.length := by
  simp [Job.taskIds]

theorem wfCheck_sound (j : Job) (cl : Cluster) (h : wfCheck j cl = true) : WF j cl := by
  simp only [wfCheck, Bool.and_eq_true, List.all_eq_true, decide_eq_true_eq] at h
  obtain ⟨⟨⟨⟨h1, h2⟩, h3⟩, h4⟩, h5⟩ := h
  have key : ∀ t ds, ds ∈ j.inputs t → ds.task < t ∧ ds.out < j.nOut ds.task := by
    intro t ds hd
    by_cases ht : t < j.tasks.length
    · exact h1 t ((Job.mem_taskIds j t).mpr ht) ds hd
    · rw [Job.inputs_of_ge j t (Nat.le_of_not_lt ht)] at hd; cases hd
  refine ⟨fun t ds hd => (key t ds hd).1, fun t ds hd => (key t ds hd).2, ?_, ?_, ?_, h5⟩
  · intro t ht; exact h2 t ((Job.mem_taskIds j t).mpr ht)
  · intro t
    by_cases ht : t < j.tasks.length
    · exact h3 t ((Job.mem_taskIds j t).mpr ht)
    · rw [Job.inputs_of_ge j t (Nat.le_of_not_lt ht)]; exact List.nodup_nil
  · intro ds hd; exact h4 ds hd

theorem wfcCheck_sound (j : Job) (cm : Comps) (h : wfcCheck j cm = true) : WFC j cm := by
  simp only [wfcCheck, Bool.and_eq_true, List.all_eq_true, decide_eq_true_eq] at h
  refine ⟨?_, ?_⟩
  · intro t ds hd
    by_cases ht : t < j.tasks.length
    · exact (h t ((Job.mem_taskIds j t).mpr ht)).2 ds hd
    · rw [Job.inputs_of_ge j t (Nat.le_of_not_lt ht)] at hd; cases hd
  · intro t ht; exact (h t ((Job.mem_taskIds j t).mpr ht)).1

theorem feasCheck_sound (j : Job) (cl : Cluster) (h : feasCheck j cl = true) : Feasible j cl := by
  simp only [feasCheck, Bool.and_eq_true, Bool.or_eq_true, Bool.not_eq_true', List.any_eq_true, List.any_eq_false] at h
  obtain ⟨h1, h2⟩ := h
  refine ⟨?_, ?_⟩
  · intro he; simp [he] at h1
  · rintro ⟨t, ht, hg⟩
    rcases h2 with h2 | h2
    · exact absurd hg (by simpa using h2 t ((Job.mem_taskIds j t).mpr ht))
    · exact h2

end EkwVerif.Ctrl
