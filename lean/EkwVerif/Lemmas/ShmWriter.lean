/-
"Not readable before its writer has finished" at the level of histories (audit item C09-1).

The code identifies a writer by the KEY only (`close_callback(key, "")`), so the statement needs the writers' identities
as ghost information: every op of an annotated history carries the generation number (`Dataset.gen`, the identity of
the allocation) of the allocation its sender was granted -- meaningful for `closeW` only, ignored by `step`.
`closed` collects the allocations whose OWN writer has closed them while they were being written.

Excluded classes (explicit, decidable hypotheses; both are known findings with witnesses in Props/C09.lean):
  * `ownCloseB`   : a writer's close reaches the allocation it was granted (false after purge/drop + key reuse:
                    C09-purge-created-key-reuse);
  * `timelyB`     : no eviction attempt happens while some writer is older than STALE_CREATE (otherwise the store treats
                    the writer as dead: C09-stale-writer-readable).
-/
import EkwVerif.Lemmas.ShmCore2

namespace EkwVerif.Shm
open Aux

/-- an op and the allocation (generation) its sender holds -/
abbrev AOp := Op × Nat

/-- the ops that are a writer's close for the code: `close_callback(key, "")` -/
def wclose : Op → Option String
  | .closeW k => some k
  | .closeR k r => if r = "" then some k else none
  | _ => none

/-- allocations closed by their own writer so far -/
def closedStep (s : St) (cl : List Nat) (a : AOp) : List Nat :=
  match wclose a.1 with
  | some k =>
    match find? s.ds k with
    | some d => if d.status = .created ∧ d.gen = a.2 then d.gen :: cl else cl
    | none => cl
  | none => cl

def runA (s : St) (cl : List Nat) : List AOp → St × List Nat
  | [] => (s, cl)
  | a :: as => runA (step s a.1).1 (closedStep s cl a) as

theorem runA_fst (as : List AOp) : ∀ (s : St) (cl : List Nat), (runA s cl as).1 = run s (as.map (·.1)) := by
  induction as with
  | nil => intro s cl; rfl
  | cons a as ih => intro s cl; simp only [runA, List.map_cons, run]; exact ih _ _

/-- the time an op reads from the clock -/
def opTimeW : Op → Option Nat
  | .add _ _ _ t => some t
  | .get _ t _ => some t
  | _ => none

/-- no dataset is still being written by a writer older than STALE_CREATE at time `t` -/
def noStaleWriter (s : St) (t : Nat) : Bool :=
  s.ds.all (fun p => !(p.2.status == .created && decide (p.2.created + s.staleCreate < t)))

def ownCloseB (s : St) (a : AOp) : Bool :=
  match wclose a.1 with
  | some k =>
    match find? s.ds k with
    | some d => d.status != .created || d.gen == a.2
    | none => true
  | none => true

def timelyB (s : St) (a : AOp) : Bool :=
  match opTimeW a.1 with
  | some t => noStaleWriter s t
  | none => true

/-- the histories of the class: every step satisfies both conditions -/
def WriterRun : St → List AOp → Prop
  | _, [] => True
  | s, a :: as => (ownCloseB s a = true ∧ timelyB s a = true) ∧ WriterRun (step s a.1).1 as

instance decWriterRun : (s : St) → (as : List AOp) → Decidable (WriterRun s as)
  | _, [] => isTrue trivial
  | s, a :: as =>
    have := decWriterRun (step s a.1).1 as
    inferInstanceAs (Decidable ((ownCloseB s a = true ∧ timelyB s a = true) ∧ WriterRun (step s a.1).1 as))

namespace Aux

/-- every dataset of `ds'` that is not `created` was already there, same allocation, and was not `created` before -/
def NoNewReadable (ds ds' : List (String × Dataset)) : Prop :=
  ∀ k d', find? ds' k = some d' → d'.status ≠ .created → ∃ d, find? ds k = some d ∧ d.gen = d'.gen ∧ d.status ≠ .created

theorem nr_refl (ds : List (String × Dataset)) : NoNewReadable ds ds := fun _ d' h hs => ⟨d', h, rfl, hs⟩

theorem nr_trans {a b c : List (String × Dataset)} (h1 : NoNewReadable a b) (h2 : NoNewReadable b c) : NoNewReadable a c := by
  intro k d' h hs
  obtain ⟨d1, e1, g1, s1⟩ := h2 k d' h hs
  obtain ⟨d0, e0, g0, s0⟩ := h1 k d1 e1 s1
  exact ⟨d0, e0, g0.trans g1, s0⟩

/-- replacing a dataset by one of the same allocation that is readable only if the old one was -/
theorem nr_set (ds : List (String × Dataset)) (k : String) (d0 v : Dataset) (h : find? ds k = some d0)
    (hg : v.gen = d0.gen) (hst : v.status ≠ .created → d0.status ≠ .created) : NoNewReadable ds (set ds k v) := by
  intro x d' hx hs
  by_cases e : x = k
  · subst e; rw [find?_set_self _ _ _ _ h] at hx; cases hx; exact ⟨d0, h, hg.symm, hst hs⟩
  · rw [find?_set_ne _ _ _ _ e] at hx; exact ⟨d', hx, rfl, hs⟩

theorem nr_erase (ds : List (String × Dataset)) (k : String) (hn : Nd ds) : NoNewReadable ds (erase ds k) := by
  intro x d' hx hs
  by_cases e : x = k
  · subst e; rw [find?_erase_self _ _ hn] at hx; cases hx
  · rw [find?_erase_ne _ _ _ e] at hx; exact ⟨d', hx, rfl, hs⟩

theorem nr_purge (s : St) (k : String) (hn : Nd s.ds) : NoNewReadable s.ds (purge s k).ds := by
  unfold purge
  cases hd : find? s.ds k with
  | none => exact nr_refl _
  | some d =>
    simp only
    split
    · exact nr_set _ _ d _ hd rfl (fun h => h)
    · split
      · exact nr_refl _
      · cases find? s.segs k with
        | none => exact nr_refl _
        | some g => exact nr_erase _ _ hn

theorem nr_purgeFailed (s : St) (k : String) (hn : Nd s.ds) : NoNewReadable s.ds (purgeFailed s k).ds := by
  unfold purgeFailed
  cases hd : find? s.ds k with
  | none => exact nr_refl _
  | some d => simp only; split; exact nr_refl _; exact nr_erase _ _ hn

theorem nr_afterClose (s : St) (k : String) (hn : Nd s.ds) : NoNewReadable s.ds (afterClose s k).ds := by
  unfold afterClose
  cases find? s.ds k with
  | none => exact nr_refl _
  | some d => simp only; split; exact nr_purge s k hn; exact nr_refl _

/-- `page_out(k)` keeps the set of readable allocations provided `k` is not being written -/
theorem nr_pageOut (s : St) (k : String) (h : ∀ d, find? s.ds k = some d → d.status ≠ .created) : NoNewReadable s.ds (pageOut s k).ds := by
  unfold pageOut
  cases hd : find? s.ds k with
  | none => exact nr_refl _
  | some d => exact nr_set _ _ d _ hd rfl (fun _ => h d hd)

theorem pageOut_status_other (s : St) (k x : String) (hx : x ≠ k) : find? (pageOut s k).ds x = find? s.ds x := pageOut_other' s k x hx
where
  pageOut_other' (s : St) (k x : String) (h : x ≠ k) : find? (pageOut s k).ds x = find? s.ds x := by
    unfold pageOut
    cases find? s.ds k with
    | none => rfl
    | some d => simp only; exact find?_set_ne _ _ _ _ h

theorem nr_pageOutAll (ws : List String) : ∀ (s : St), ws.Nodup → (∀ w ∈ ws, ∀ d, find? s.ds w = some d → d.status ≠ .created) →
    NoNewReadable s.ds (pageOutAll s ws).ds := by
  induction ws with
  | nil => intro s _ _; exact nr_refl _
  | cons k ws ih =>
    intro s hnd h
    rw [List.nodup_cons] at hnd
    simp only [pageOutAll, List.foldl_cons]
    refine nr_trans (nr_pageOut s k (h k (by simp))) (ih _ hnd.2 ?_)
    intro w hw d hd
    have hne : w ≠ k := fun e => hnd.1 (e ▸ hw)
    rw [pageOut_status_other s k w hne] at hd
    exact h w (List.mem_cons_of_mem _ hw) d hd

theorem noStale_mem (s : St) (t : Nat) (h : noStaleWriter s t = true) (k : String) (d : Dataset) (hd : find? s.ds k = some d)
    (hp : isPageoutable s.staleCreate s.staleRead d t = true) : d.status ≠ .created := by
  unfold noStaleWriter at h
  rw [List.all_eq_true] at h
  have := h (k, d) (find?_mem _ _ _ hd)
  intro hst
  unfold isPageoutable at hp
  simp [hst] at hp this
  omega

theorem nr_pageOutAtLeast (s : St) (a t : Nat) (hn : Nd s.ds) (h : noStaleWriter s t = true) :
    NoNewReadable s.ds (pageOutAtLeast s a t).ds := by
  unfold pageOutAtLeast
  split
  · exact nr_refl _
  · simp only; split
    · exact nr_refl _
    · refine nr_pageOutAll _ { s with lock := true, count := _ } (winners_nodup _ _ _ _ _ hn) ?_
      intro w hw d hd
      obtain ⟨d', hd', hp⟩ := winners_pageoutable _ _ _ _ _ hn w hw
      have : d' = d := by
        have e : find? s.ds w = some d := hd
        rw [hd'] at e; exact Option.some.inj e
      subst this
      exact noStale_mem s t h w d' hd' hp

theorem nr_cbStep (s : St) (id : Nat) (hn : Nd s.ds) (hc : Core s) : NoNewReadable s.ds (cbStep s id).1.ds := by
  unfold cbStep
  cases hf : findJob s.jobs id with
  | none => exact nr_refl _
  | some j =>
    simp only
    obtain ⟨hj, _⟩ := findJob_some _ _ _ hf
    obtain ⟨d, hd, hgen, _, hstat⟩ := hc.jobLink j hj
    have hnc : d.status ≠ .created := by
      rw [hstat]; cases j.kind <;> simp [jobStatus]
    cases j.io with
    | none => exact nr_refl _
    | some b =>
      have hss : ∀ st, NoNewReadable s.ds (setStatusIfSame s.ds j.key j.gen st) := by
        intro st
        unfold setStatusIfSame
        by_cases hg' : d.gen = j.gen
        · simp only [hd, hg', ↓reduceIte]
          exact nr_set _ _ d _ hd (by first | rfl | exact hg'.symm) (fun _ => hnc)
        · simp only [hd, hg', ↓reduceIte]
          exact nr_refl _
      cases j.kind <;> cases b <;> simp only [decCount]
      · exact nr_purgeFailed { s with jobs := eraseJob s.jobs id } j.key hn
      · exact hss _
      · exact nr_purgeFailed { s with jobs := eraseJob s.jobs id } j.key hn
      · exact hss _

/-- one step of a history of the class: a dataset that is readable afterwards was readable before, or has just been
closed by its own writer -/
theorem readable_step (s : St) (hb : Base s) (hc : Core s) (a : AOp) (ho : ownCloseB s a = true) (ht : timelyB s a = true)
    (cl : List Nat) (hw : ∀ k d, find? s.ds k = some d → d.status ≠ .created → d.gen ∈ cl) :
    ∀ k d, find? (step s a.1).1.ds k = some d → d.status ≠ .created → d.gen ∈ closedStep s cl a := by
  have hn := hb.nd
  -- ops that do not close a writer: `closed` is unchanged and no dataset becomes readable
  have plain : closedStep s cl a = cl → NoNewReadable s.ds (step s a.1).1.ds →
      ∀ k d, find? (step s a.1).1.ds k = some d → d.status ≠ .created → d.gen ∈ closedStep s cl a := by
    intro e h k d hd hs
    obtain ⟨d0, h0, g0, s0⟩ := h k d hd hs
    rw [e, ← g0]; exact hw k d0 h0 s0
  obtain ⟨op, g⟩ := a
  -- a writer's close `close_callback(k', "")`
  have wc : ∀ k', wclose op = some k' → (step s op).1.ds = (closeCb s k' "").1.ds →
      ∀ k d, find? (step s op).1.ds k = some d → d.status ≠ .created → d.gen ∈ closedStep s cl (op, g) := by
    intro k' hwc hstep k d hd hs
    rw [hstep] at hd
    simp only [closeCb] at hd
    cases hd' : find? s.ds k' with
    | none =>
      simp only [hd'] at hd
      have e : closedStep s cl (op, g) = cl := by simp [closedStep, hwc, hd']
      rw [e]; exact hw k d hd hs
    | some d' =>
      simp only [hd', ↓reduceIte] at hd
      by_cases hst : d'.status = .created
      · -- the accepted close of a writer: by `ownCloseB` it is the writer of this allocation
        have hown : d'.gen = g := by
          simp [ownCloseB, hwc, hd', hst] at ho; exact ho
        have e : closedStep s cl (op, g) = d'.gen :: cl := by simp [closedStep, hwc, hd', hst, hown]
        rw [e]
        simp only [hst, ne_eq, not_true_eq_false, ↓reduceIte] at hd
        obtain ⟨d1, h1, g1, s1⟩ := nr_afterClose { s with ds := set s.ds k' { d' with status := .inMemory } } k' (nd_set _ _ _ hn) k d hd hs
        by_cases ek : k = k'
        · subst ek
          simp only at h1
          rw [find?_set_self _ _ _ _ hd'] at h1; cases h1
          rw [← g1]; exact List.mem_cons_self
        · simp only at h1
          rw [find?_set_ne _ _ _ _ ek] at h1
          rw [← g1]; exact List.mem_cons_of_mem _ (hw k d1 h1 s1)
      · have e : closedStep s cl (op, g) = cl := by simp [closedStep, hwc, hd', hst]
        rw [e]
        simp only [hst, ne_eq, not_false_eq_true, ↓reduceIte] at hd
        exact hw k d hd hs
  cases op with
  | freeSpace => exact plain rfl (nr_refl _)
  | purge k' => exact plain rfl (nr_purge s k' hn)
  | io id inj => exact plain rfl (by simp only [step]; rw [(ioStep_frame s id inj).1]; exact nr_refl _)
  | cb id => exact plain rfl (nr_cbStep s id hn hc)
  | cwrite k' size tok =>
    refine plain rfl ?_
    simp only [step, cwrite]
    split
    · exact nr_refl _
    cases find? s.segs k' with
    | some _ => exact nr_refl _
    | none =>
      simp only
      cases hk' : find? s.ds k' with
      | none => exact nr_refl _
      | some dk => exact nr_set _ _ dk _ hk' rfl (fun h => h)
  | add k' size deser t =>
    have ht' : noStaleWriter s t = true := by simpa [timelyB, opTimeW] using ht
    refine plain rfl ?_
    simp only [step, add]
    split
    · exact nr_refl _
    · split
      · exact nr_refl _
      · split
        · exact nr_pageOutAtLeast s _ t hn ht'
        · rename_i hk _ _
          intro k d hd hs
          simp only at hd
          by_cases e : k = k'
          · subst e
            have hnone : find? s.ds k = none := by cases h : find? s.ds k <;> simp [h] at hk ⊢
            rw [find?_append_self _ _ _ hnone] at hd; cases hd; simp at hs
          · rw [find?_append_ne _ _ _ _ e] at hd; exact ⟨d, hd, rfl, hs⟩
  | get k' t cands =>
    have ht' : noStaleWriter s t = true := by simpa [timelyB, opTimeW] using ht
    refine plain rfl ?_
    simp only [step, get]
    cases hd' : find? s.ds k' with
    | none => exact nr_refl _
    | some d' =>
      simp only
      split
      · exact nr_refl _
      · exact nr_refl _
      · exact nr_refl _
      · rename_i hst
        split
        · exact nr_pageOutAtLeast s _ t hn ht'
        · exact nr_set _ _ d' _ hd' rfl (fun _ => by rw [hst]; simp)
      · rename_i hst
        split
        · exact nr_refl _
        · exact nr_set _ _ d' _ hd' rfl (fun _ => by rw [hst]; simp)
  | closeR k' r =>
    by_cases hr : r = ""
    · subst hr
      exact wc k' (by simp [wclose]) (by simp [step])
    · refine plain (by simp [closedStep, wclose, hr]) ?_
      simp only [step, closeCb]
      cases hd' : find? s.ds k' with
      | none => exact nr_refl _
      | some d' =>
        simp only [hr, ↓reduceIte]
        split
        · exact nr_refl _
        · exact nr_trans (nr_set _ _ d' { d' with readers := eraseReader d'.readers r } hd' rfl (fun h => h))
            (nr_afterClose { s with ds := set s.ds k' { d' with readers := eraseReader d'.readers r } } k' (nd_set _ _ _ hn))
  | closeW k' => exact wc k' (by simp [wclose]) (by simp [step])


/-- every readable dataset has been closed by its own writer -/
def AllClosed (s : St) (cl : List Nat) : Prop := ∀ k d, find? s.ds k = some d → d.status ≠ .created → d.gen ∈ cl

theorem readable_run (as : List AOp) : ∀ (s : St) (cl : List Nat), Base s → Core s → SafeRun s (as.map (·.1)) → WriterRun s as →
    AllClosed s cl → AllClosed (runA s cl as).1 (runA s cl as).2 := by
  induction as with
  | nil => intro s cl _ _ _ _ h; exact h
  | cons a as ih =>
    intro s cl hb hc hs hw h
    simp only [runA]
    simp only [List.map_cons] at hs
    exact ih _ _ (base_step s a.1 hb) (core_step s a.1 hb hc hs.1) hs.2 hw.2 (readable_step s hb hc a hw.1.1 hw.1.2 cl h)

/-- where the members of `closed` come from: an accepted writer's close by the writer of that very allocation -/
theorem closed_origin (as : List AOp) : ∀ (s : St) (cl : List Nat) (g : Nat), g ∈ (runA s cl as).2 →
    g ∈ cl ∨ ∃ pre post op k d, as = pre ++ (op, g) :: post ∧ wclose op = some k ∧
      find? (run s (pre.map (·.1))).ds k = some d ∧ d.status = .created ∧ d.gen = g := by
  induction as with
  | nil => intro s cl g h; exact Or.inl h
  | cons a as ih =>
    intro s cl g h
    simp only [runA] at h
    rcases ih _ _ g h with h1 | ⟨pre, post, op, k, d, e, hw, hd, hst, hg⟩
    · -- g was in `closed` right after the first step
      obtain ⟨op, ga⟩ := a
      unfold closedStep at h1
      cases hwc : wclose op with
      | none => simp only [hwc] at h1; exact Or.inl h1
      | some k =>
        simp only [hwc] at h1
        cases hd : find? s.ds k with
        | none => simp only [hd] at h1; exact Or.inl h1
        | some d =>
          simp only [hd] at h1
          by_cases hc : d.status = .created ∧ d.gen = ga
          · simp only [hc, and_self, ↓reduceIte] at h1
            rcases List.mem_cons.mp h1 with h2 | h2
            · right
              refine ⟨[], as, op, k, d, ?_, hwc, hd, hc.1, hc.2.trans h2.symm⟩
              simp [h2]
            · exact Or.inl h2
          · simp only [hc, ↓reduceIte] at h1; exact Or.inl h1
    · right
      exact ⟨a :: pre, post, op, k, d, by simp [e], hw, by simpa [run] using hd, hst, hg⟩

end Aux
end EkwVerif.Shm
