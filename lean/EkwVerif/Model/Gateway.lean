/-
Model of `cascade.gateway.router.JobRouter` together with `cascade.gateway.server`:
`handle_controller`, `handle_fe` and the poll loop `serve`.

State = association list job id ↦ (progress, last_seen, results, registered).
`registered` = the job's own PULL socket is still registered with the poller.

Router level
  * `spawn`        : `JobRouter.spawn_job`; the id generator is a stream of candidate ids
                     (`next_uuid` retries until the id is fresh). `fail` = `_spawn_subprocess`
                     raises: the job is entered only after the launch succeeded, so a failed
                     launch leaves the state unchanged (error response).
  * `report`       : body of `handle_controller` after `recv`: `maybe_update` then `put_result`
                     for each result, inside the per-report error capture. Attribution is by
                     `report.job_id` only (never by the socket the report arrived on). A report
                     naming an unknown job raises `KeyError` unless it carries neither progress
                     nor results (`maybe_update` returns early on `None`); a second shutdown
                     notice raises in `poller.unregister`. Both are raised before any effect, so
                     an error is a no-op (logged).
  * `progressOf`   : `progress_of` (empty list = all jobs); `none` = KeyError → error response
  * `getResult`    : `get_result`; `none` = KeyError → error response

Server level
  * `handleFe`     : `handle_fe`. Bytes that `parse_request` rejects (no JSON, unknown `clazz`, a
                     request class with a missing or ill-typed field) are answered with an error
                     response and the loop goes on (`rejected`). `none` = an exception escapes: no
                     request does that any more; the `Option` is kept so that the loop's `dead`
                     branch stays in the model and the theorems say that it is never taken.
  * `handleCtrl`   : `handle_controller` (garbage on a controller socket is caught and logged).
  * `poll`         : one iteration of the `while not is_break` loop of `serve`: the poller returns
                     the sockets that are registered *at poll time* (`ready`), they are handled in
                     order, `is_break` is whatever the frontend handler returned last, an escaping
                     exception ends the process (`dead`).
  * `serve`        : the loop over a scripted sequence of poll results.
-/
namespace EkwVerif.Gateway

structure Job where
  progress : String
  lastSeen : Int
  results : List (String × String)     -- dataset ↦ bytes; head = most recent binding
  registered : Bool
deriving Repr, DecidableEq

abbrev St := List (String × Job)       -- job id ↦ Job; ids unique (invariant)

def started : String := "0.00"
def shutdownMark : String := "Shutdown"

def find? : St → String → Option Job
  | [], _ => none
  | (k, job) :: s, j => if k == j then some job else find? s j

def set : St → String → Job → St
  | [], _, _ => []
  | (k, jb) :: s, j, job => if k == j then (j, job) :: set s j job else (k, jb) :: set s j job

structure Report where
  job : String
  status : Option String
  ts : Int
  results : List (String × String)
deriving Repr, DecidableEq

/-- `JobRouter.maybe_update` on an existing job whose socket is registered if the report is a
shutdown notice. -/
def maybeUpdate (job : Job) (status : Option String) (ts : Int) : Job :=
  match status with
  | none => job
  | some p =>
    if p == shutdownMark then { job with registered := false }
    else if job.lastSeen ≥ ts then job
    else { job with progress := p, lastSeen := ts }

def putResults (job : Job) (rs : List (String × String)) : Job :=
  rs.foldl (fun jb r => { jb with results := r :: jb.results }) job

inductive ReportOut | ok | error
deriving Repr, DecidableEq

/-- a shutdown notice for a job whose socket is no longer registered: `poller.unregister` raises -/
def secondShutdown (job : Job) (r : Report) : Bool :=
  r.status == some shutdownMark && !job.registered

/-- Body of `handle_controller` (after `recv`), inside its error capture. -/
def report (s : St) (r : Report) : St × ReportOut :=
  match find? s r.job with
  | none => if r.status.isNone && r.results.isEmpty then (s, .ok) else (s, .error)   -- KeyError, logged
  | some job =>
    if secondShutdown job r then (s, .error)
    else (set s r.job (putResults (maybeUpdate job r.status r.ts) r.results), .ok)

/-- `next_uuid`: first candidate not already a key. `none` models an exhausted generator. -/
def nextFresh (s : St) : List String → Option String
  | [] => none
  | c :: cs => if (find? s c).isSome then nextFresh s cs else some c

def freshJob : Job := { progress := started, lastSeen := -1, results := [], registered := true }

def spawn (s : St) (candidates : List String) (fail : Bool := false) : St × Option String :=
  match nextFresh s candidates with
  | none => (s, none)
  | some j => if fail then (s, none) else (s ++ [(j, freshJob)], some j)

/-- `progress_of`: `none` = KeyError → error response. -/
def progressOf (s : St) (ids : List String) : Option (List (String × String)) :=
  let ids := if ids.isEmpty then s.map (fun e => e.1) else ids
  ids.mapM (fun j => (find? s j).map (fun job => (j, job.progress)))

def lookupRes : List (String × String) → String → Option String
  | [], _ => none
  | (k, v) :: rs, d => if k == d then some v else lookupRes rs d

/-- `get_result`: `none` = KeyError → error response. -/
def getResult (s : St) (j d : String) : Option String :=
  match find? s j with
  | none => none
  | some job => lookupRes job.results d

/-! ### server level -/

/-- A frontend request as it arrives on the REP socket. -/
inductive Req
  | submit (candidates : List String) (fail : Bool)
  | progressOf (ids : List String)
  | getResult (j d : String)
  | shutdown
  | malformed                      -- bytes that `parse_request` rejects
deriving Repr, DecidableEq

/-- A message as it arrives on a job's PULL socket. -/
inductive Msg
  | report (r : Report)
  | garbage                        -- bytes that `report.deserialize` rejects
deriving Repr, DecidableEq

/-- One ready socket with the message that `recv` will return. `owner` = the job whose PULL
socket the message arrived on (independent of the job the report names). -/
inductive Ev
  | fe (q : Req)
  | ctrl (owner : String) (m : Msg)
deriving Repr, DecidableEq

inductive Out
  | spawned (j : Option String)
  | progress (r : Option (List (String × String)))
  | result (r : Option String)
  | bye
  | rejected         -- error response to frontend bytes that are no request
  | reported (o : ReportOut)
  | notRead          -- socket not registered at poll time: the message stays in the socket
  | died             -- an exception escaped `serve` while handling this event
  | lost             -- ready, but the process died earlier in the same poll round
  | notServed        -- the loop has ended (shutdown request or death)
deriving Repr, DecidableEq

/-- `handle_fe`. `none` = an exception escapes. -/
def handleFe (s : St) : Req → Option (St × Out)
  | .submit cs fail => let (s', j) := spawn s cs fail; some (s', .spawned j)
  | .progressOf ids => some (s, .progress (progressOf s ids))
  | .getResult j d => some (s, .result (getResult s j d))
  | .shutdown => some (s, .bye)
  | .malformed => some (s, .rejected)

/-- `handle_controller`. -/
def handleCtrl (s : St) : Msg → St × Out
  | .report r => let (s', o) := report s r; (s', .reported o)
  | .garbage => (s, .reported .error)

def handle (s : St) : Ev → Option (St × Out)
  | .fe q => handleFe s q
  | .ctrl _ m => some (handleCtrl s m)

/-- `is_break` after handling `e`. -/
def brkOf (e : Ev) (brk : Bool) : Bool :=
  match e with
  | .fe .shutdown => true
  | .fe _ => false
  | .ctrl _ _ => brk

/-- Is the socket of this event registered with the poller? -/
def ready (s : St) : Ev → Bool
  | .fe _ => true
  | .ctrl k _ => match find? s k with
    | some job => job.registered
    | none => false

structure LoopRes where
  st : St
  brk : Bool
  dead : Bool
  outs : List Out
  handled : List Ev
deriving Repr

/-- `for socket, _ in ready:` — the events carry the readiness computed at poll time. -/
def pollLoop (s : St) (brk : Bool) : List (Ev × Bool) → LoopRes
  | [] => ⟨s, brk, false, [], []⟩
  | (e, rdy) :: rest =>
    if !rdy then
      let r := pollLoop s brk rest
      { r with outs := .notRead :: r.outs }
    else match handle s e with
      | none => ⟨s, brk, true, .died :: rest.map (fun p => if p.2 then .lost else .notRead), []⟩
      | some (s', o) =>
        let r := pollLoop s' (brkOf e brk) rest
        { r with outs := o :: r.outs, handled := e :: r.handled }

inductive Phase | running | stopped | dead
deriving Repr, DecidableEq

structure G where
  st : St
  phase : Phase
deriving Repr

def G.init : G := ⟨[], .running⟩

structure PollRes where
  g : G
  outs : List Out
  handled : List Ev
deriving Repr

/-- One iteration of `while not is_break:` with the scripted poll result `b`. -/
def poll (g : G) (b : List Ev) : PollRes :=
  match g.phase with
  | .running =>
    let r := pollLoop g.st false (b.map (fun e => (e, ready g.st e)))
    ⟨⟨r.st, if r.dead then .dead else if r.brk then .stopped else .running⟩, r.outs, r.handled⟩
  | _ => ⟨g, b.map (fun _ => .notServed), []⟩

/-- `serve` over a scripted sequence of poll results: final state, outputs per round, and the
events that were handled, in order. -/
def serve (g : G) : List (List Ev) → G × List (List Out) × List Ev
  | [] => (g, [], [])
  | b :: bs =>
    let r := poll g b
    let (g', outs, hd) := serve r.g bs
    (g', r.outs :: outs, r.handled ++ hd)

/-! ### the flat machine: a sequence of handled events -/

def stepH (s : St) (e : Ev) : St :=
  match handle s e with
  | some (s', _) => s'
  | none => s

def runH (s : St) (evs : List Ev) : St := evs.foldl stepH s

/-- the ids returned by successful submits along a flat history -/
def handedOut (s : St) : List Ev → List String
  | [] => []
  | e :: evs =>
    match handle s e with
    | some (s', .spawned (some j)) => j :: handedOut s' evs
    | some (s', _) => handedOut s' evs
    | none => handedOut s evs

end EkwVerif.Gateway
