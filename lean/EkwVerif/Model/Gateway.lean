/-
Model of `cascade.gateway.router.JobRouter` together with the dispatch of
`cascade.gateway.server.handle_controller` / `handle_fe` / `serve`.

State = association list job id ↦ (progress, last_seen, results, registered).
  * `spawn`        : `JobRouter.spawn_job` with the id generator abstracted to a stream of
                     candidate ids (`next_uuid` retries until the id is fresh)
  * `report`       : `handle_controller` = `maybe_update` then `put_result` for each result.
                     `serve` polls only registered sockets, so a report on an unregistered
                     socket is never read: the step is disabled (`.notRead`).
  * `progressOf`   : `handle_fe` on JobProgressRequest (empty list = all jobs)
  * `getResult`    : `handle_fe` on ResultRetrievalRequest
Python exceptions inside `handle_fe` become an error *response* with unchanged state.
-/
namespace EkwVerif.Gateway

structure Job where
  progress : String
  lastSeen : Int
  results : List (String × String)     -- dataset ↦ bytes; head = most recent binding
  registered : Bool
deriving Repr, DecidableEq

abbrev St := List (String × Job)       -- job id ↦ Job; ids unique (invariant)

def started : String := "0.00"
def shutdownMark : String := "Shutdown"

def find? : St → String → Option Job
  | [], _ => none
  | (k, job) :: s, j => if k == j then some job else find? s j

def set : St → String → Job → St
  | [], _, _ => []
  | (k, jb) :: s, j, job => if k == j then (j, job) :: set s j job else (k, jb) :: set s j job

structure Report where
  job : String
  status : Option String
  ts : Int
  results : List (String × String)
deriving Repr

/-- `JobRouter.maybe_update` on an existing job. -/
def maybeUpdate (job : Job) (status : Option String) (ts : Int) : Job :=
  match status with
  | none => job
  | some p =>
    if p == shutdownMark then { job with registered := false }
    else if job.lastSeen ≥ ts then job
    else { job with progress := p, lastSeen := ts }

def putResults (job : Job) (rs : List (String × String)) : Job :=
  rs.foldl (fun jb r => { jb with results := r :: jb.results }) job

inductive ReportOut | ok | notRead | keyError
deriving Repr, DecidableEq

/-- `handle_controller` as reached from `serve`. -/
def report (s : St) (r : Report) : St × ReportOut :=
  match find? s r.job with
  | none => (s, .keyError)               -- `self.jobs[job_id]` raises: the serve loop dies
  | some job =>
    if !job.registered then (s, .notRead)
    else (set s r.job (putResults (maybeUpdate job r.status r.ts) r.results), .ok)

/-- `next_uuid`: first candidate not already a key. `none` models an exhausted generator. -/
def nextFresh (s : St) : List String → Option String
  | [] => none
  | c :: cs => if (find? s c).isSome then nextFresh s cs else some c

def spawn (s : St) (candidates : List String) : St × Option String :=
  match nextFresh s candidates with
  | none => (s, none)
  | some j => (s ++ [(j, { progress := started, lastSeen := -1, results := [], registered := true })], some j)

/-- `progress_of`: `none` = KeyError → error response. -/
def progressOf (s : St) (ids : List String) : Option (List (String × String)) :=
  let ids := if ids.isEmpty then s.map (fun e => e.1) else ids
  ids.mapM (fun j => (find? s j).map (fun job => (j, job.progress)))

def lookupRes : List (String × String) → String → Option String
  | [], _ => none
  | (k, v) :: rs, d => if k == d then some v else lookupRes rs d

/-- `get_result`: `none` = KeyError → error response. -/
def getResult (s : St) (j d : String) : Option String :=
  match find? s j with
  | none => none
  | some job => lookupRes job.results d

/-- One externally visible operation of the gateway. -/
inductive Op
  | spawn (candidates : List String)
  | report (r : Report)
  | progressOf (ids : List String)
  | getResult (j d : String)
deriving Repr

inductive Out
  | spawned (j : Option String)
  | reported (o : ReportOut)
  | progress (r : Option (List (String × String)))
  | result (r : Option String)
deriving Repr

def step (s : St) : Op → St × Out
  | .spawn cs => let (s', j) := spawn s cs; (s', .spawned j)
  | .report r => let (s', o) := report s r; (s', .reported o)
  | .progressOf ids => (s, .progress (progressOf s ids))
  | .getResult j d => (s, .result (getResult s j d))

def run (s : St) (ops : List Op) : St := ops.foldl (fun s op => (step s op).1) s

end EkwVerif.Gateway
