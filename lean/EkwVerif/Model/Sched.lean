/-
Extension of the controller model by the scheduler's own bookkeeping: host→component
assignment, component weights, and the DOMAINS of the dictionaries the assignment heuristics
index (`worker2task_distance`, `worker2task_values`, `worker2task_overhead`), together with
the control flow of `scheduler.api.assign` (step I per component, step II migration
round-robin), `assign_within_component` (GPU then CPU) and `_assignment_heuristic` (optimum-
distance phase, then greedy overhead phase).

The base system (`Model/Ctrl.lean`) is untouched: `SysX` pairs a base state with the extra
state `Sch`, and `stepX` performs a base step on the base part (so every base theorem lifts:
`reachableX_base`). The numeric values of distances/overheads and hence WHICH admissible pair a
phase picks remain an oracle; what is modelled is which keys exist — the KeyError sites on the dictionaries whose key
SETS change during a run: `worker2task_distance[worker]` (`_assignment_heuristic` phase 1, `update_worker2task_distance`
in `plan`), `worker2task_overhead[w][t]` (phase 2), `worker2task_values.remove(task)` are an `.error` — and which calls
are made. NOT in this model: the two lookups into the STATIC tables of the preschedule, `core.distance_matrix[a][b]`
(`update_worker2task_distance`, both tasks in the component) and `core.value[t]` (phase 2), which are total on a
component by C16 (`c03_heuristic_tables_total` cites `c16_ncd`/`c16_value`); `component.computable[task]`/`.pop(task)`
are covered by `StageOk` (the tasks of a heuristic call are computable tasks of the component)
(so that "a round with something computable and every worker idle dispatches something" can be
stated and proved).
-/
import EkwVerif.Model.Ctrl

namespace EkwVerif.Ctrl

/-- component of each task (`State.ts2component`); C16 shows these are the weakly connected components -/
structure Comps where
  compOf : Task → Nat
  n : Nat

inductive HPhase | p1 | p2
deriving DecidableEq, Repr

inductive Cls | gpu | cpu
deriving DecidableEq, Repr

/-- position inside `assign()` -/
inductive AStage
  | off                                                     -- not inside assign()
  | stepI (pending : List Nat)                              -- step I: components (with idle local workers) not yet processed
  | stepII (comps : List Nat) (i : Nat) (migrants : List Host)   -- step II: sorted components, round-robin index, hosts still to migrate
  | ready (c : Nat) (ws : List Worker) (k : Bool)           -- about to call assign_within_component(ws, c); k = true: return to step II
  | inH (c : Nat) (cls : Cls) (tasks : List Task) (workers : List Worker) (phase : HPhase)
        (cpuT : List Task) (cpuW : List Worker) (k : Bool)  -- inside _assignment_heuristic
  | done                                                    -- assign() returned
deriving Repr

structure Sch where
  host2comp : Host → Option Nat          -- state.host2component
  weight : Nat → Nat                     -- components[c].weight
  distDom : Nat → List Worker            -- keys of components[c].worker2task_distance
  values : Nat → List Task               -- components[c].worker2task_values
  ovDom : Worker → List Task             -- keys of state.worker2task_overhead[w]
  stage : AStage
  stepIIcomps : List Nat                 -- (kept while inside a step-II awc call)
  stepIIi : Nat
  stepIImig : List Host
  schErr : Option String                 -- KeyError in the heuristics' bookkeeping

structure SysX where
  sys : Sys
  sch : Sch

def addL {α : Type} [DecidableEq α] (l : List α) (x : α) : List α := if l.contains x then l else l ++ [x]
def addAll {α : Type} [DecidableEq α] (l : List α) (xs : List α) : List α := xs.foldl addL l

/-- add `ts` to `f w` for every `w ∈ ws` (one closure layer; written so that a lookup evaluates `f` once) -/
def addAt (f : Worker → List Task) (ws : List Worker) (ts : List Task) : Worker → List Task :=
  fun w => if ws.contains w then addAll (f w) ts else f w

def Sch.init (j : Job) (cm : Comps) : Sch where
  host2comp := fun _ => none
  weight := fun c => (j.taskIds.filter (fun t => cm.compOf t == c)).length
  distDom := fun _ => []
  values := fun c => j.taskIds.filter (fun t => cm.compOf t == c && (j.inputs t).isEmpty)    -- set(sources)
  ovDom := fun _ => []
  stage := .off
  stepIIcomps := []
  stepIIi := 0
  stepIImig := []
  schErr := none

def SysX.init (j : Job) (cl : Cluster) (cm : Comps) : SysX := { sys := Sys.init j cl, sch := Sch.init j cm }

/-- computable tasks of component c -/
def compTasks (cm : Comps) (c : Ctl) (comp : Nat) : List Task := c.computable.filter (fun t => cm.compOf t == comp)

/-- components sorted as `components.sort(reverse=True)` sorts `(weight, id)` pairs -/
def insertDesc (w : Nat → Nat) (c : Nat) : List Nat → List Nat
  | [] => [c]
  | d :: ds => if w c > w d || (w c == w d && c > d) then c :: d :: ds else d :: insertDesc w c ds
def sortDesc (w : Nat → Nat) (l : List Nat) : List Nat := l.foldr (insertDesc w) []

inductive StepX
  | base (st : Step)                 -- a step of the base system (with the bookkeeping it entails)
  | awcBegin (c : Nat)               -- step I: assign_within_component for a pending component
  | beginStepII
  | migrate (h : Host)               -- step II: migrate_to_component(h, comps[i]) then assign_within_component
  | awcEnter                         -- enter assign_within_component from `ready`
  | hPhase2                          -- _assignment_heuristic: phase 1 over, build the candidate list
  | hEnd                             -- _assignment_heuristic returns
deriving Repr

/-- `update_worker2task_distance` for the children of one dataset at worker `w` (plan) -/
def planChildren (cm : Comps) (sc : Sch) (w : Worker) (children : List Task) : Sch :=
  children.foldl (fun sc ch =>
    let c := cm.compOf ch
    let sc := { sc with values := upd sc.values c (addL (sc.values c) ch) }
    if sc.schErr.isNone && !((sc.distDom c).contains w) then { sc with schErr := some "KeyError: worker2task_distance[worker] in plan" }
    else sc) sc

/-- the scheduler bookkeeping of `consider_computable` for one publication event -/
def notifyChildren (cm : Comps) (cl : Cluster) (pre post : Ctl) (sc : Sch) (ds : Ds) (host : Host) : Sch :=
  let children := if pre.ptracked ds then pre.ptrack ds else []
  children.foldl (fun sc ch =>
    let sc := if pre.computable.contains ch then
        { sc with ovDom := addAt sc.ovDom (cl.workersOf host) [ch] }
      else sc
    if post.computable.contains ch && !(pre.computable.contains ch) then
      { sc with ovDom := addAt sc.ovDom (sc.distDom (cm.compOf ch)) [ch] }
    else sc) sc

def stepX (f : Sem) (j : Job) (cl : Cluster) (cm : Comps) (x : SysX) : StepX → Option SysX
  | .base st =>
    if x.sch.schErr.isSome then none else
    match st with
    | .enter =>
      (step f j cl x.sys .enter).map (fun s' =>
        if s'.phase == .assigning && s'.mayAssign then
          -- component2workers: components having an idle worker on one of their hosts
          let pend := ((s'.ctl.idle.filterMap (fun w => x.sch.host2comp w.host)).eraseDups)
          { sys := s', sch := { x.sch with stage := .stepI pend } }
        else { sys := s', sch := { x.sch with stage := .done } })
    | .assign a =>
      match x.sch.stage with
      | .inH c cls tasks workers phase cpuT cpuW k =>
        if !(tasks.contains a.task) || !(workers.contains a.worker) then none
        else (step f j cl x.sys (.assign a)).map (fun s' =>
          if s'.phase == .crashed then { sys := s', sch := x.sch } else
          let sc := x.sch
          let sc := if (sc.values c).contains a.task then { sc with values := upd sc.values c ((sc.values c).erase a.task) }
                    else { sc with schErr := some "KeyError: worker2task_values.remove" }
          let sc := { sc with weight := upd sc.weight c (sc.weight c - 1),
                              stage := .inH c cls (tasks.erase a.task) (workers.erase a.worker) phase cpuT cpuW k }
          { sys := s', sch := sc })
      | _ => none
    | .endAssign =>
      match x.sch.stage with
      | .done => (step f j cl x.sys .endAssign).map (fun s' => { sys := s', sch := { x.sch with stage := .off } })
      | .stepII _ _ [] => (step f j cl x.sys .endAssign).map (fun s' => { sys := s', sch := { x.sch with stage := .off } })
      | _ => none
    | .plan1 =>
      match x.sys.todo with
      | [] => none
      | (a, prep) :: _ =>
        (step f j cl x.sys .plan1).map (fun s' =>
          if s'.phase == .crashed then { sys := s', sch := x.sch } else
          let sc := prep.foldl (fun sc p => planChildren cm sc a.worker (x.sys.ctl.ptrack p.1)) x.sch
          let sc := (j.outputsOf a.task).foldl (fun sc ds => planChildren cm sc a.worker (j.consumers ds)) sc
          { sys := s', sch := sc })
    | .notify1 =>
      match x.sys.inbox with
      | [] => none
      | ev :: _ =>
        (step f j cl x.sys .notify1).map (fun s' =>
          if s'.phase == .crashed then { sys := s', sch := x.sch } else
          match ev with
          | .pubW w ds => { sys := s', sch := notifyChildren cm cl x.sys.ctl s'.ctl x.sch ds w.host }
          | .pubT h ds => { sys := s', sch := notifyChildren cm cl x.sys.ctl s'.ctl x.sch ds h }
          | .payload _ _ => { sys := s', sch := x.sch })
    | st => (step f j cl x.sys st).map (fun s' => { sys := s', sch := x.sch })
  | .awcBegin c =>
    if x.sch.schErr.isSome || x.sys.phase != .assigning then none else
    match x.sch.stage with
    | .stepI pend =>
      if pend.contains c then
        let ws := x.sys.ctl.idle.filter (fun w => x.sch.host2comp w.host == some c)
        some { x with sch := { x.sch with stage := .ready c ws false, stepIIcomps := pend.erase c } }
      else none
    | _ => none
  | .awcEnter =>
    if x.sch.schErr.isSome || x.sys.phase != .assigning then none else
    match x.sch.stage with
    | .ready c ws k =>
      let ts := compTasks cm x.sys.ctl c
      let gpuT := ts.filter (fun t => j.gpu t)
      let cpuT := ts.filter (fun t => !(j.gpu t))
      let gpuW := ws.filter (fun w => cl.hasGpu w)
      let cpuW := ws.filter (fun w => !(cl.hasGpu w))
      -- phase 1 of the GPU call indexes worker2task_distance[worker] for its workers when it has tasks
      let bad := !gpuT.isEmpty && gpuW.any (fun w => !((x.sch.distDom c).contains w))
      let sc := { x.sch with stage := .inH c .gpu gpuT gpuW .p1 cpuT cpuW k }
      some { x with sch := if bad then { sc with schErr := some "KeyError: worker2task_distance[worker]" } else sc }
    | _ => none
  | .hPhase2 =>
    if x.sch.schErr.isSome || x.sys.phase != .assigning then none else
    match x.sch.stage with
    | .inH c cls tasks workers .p1 cpuT cpuW k =>
      -- candidates = [(overhead[w][t], …) for w in workers for t in remaining_t]
      let bad := workers.any (fun w => tasks.any (fun t => !((x.sch.ovDom w).contains t)))
      let sc := { x.sch with stage := .inH c cls tasks workers .p2 cpuT cpuW k }
      some { x with sch := if bad then { sc with schErr := some "KeyError: worker2task_overhead[w][t]" } else sc }
    | _ => none
  | .hEnd =>
    if x.sch.schErr.isSome || x.sys.phase != .assigning then none else
    match x.sch.stage with
    | .inH c cls tasks workers .p2 cpuT cpuW k =>
      -- the greedy phase stops only when tasks or workers are exhausted
      if !(tasks.isEmpty || workers.isEmpty) then none else
      match cls with
      | .gpu =>
        -- `for worker in gpu_w: if worker in state.idle_workers: cpu_w.append(worker)`
        let cpuW' := cpuW ++ workers.filter (fun w => x.sys.ctl.idle.contains w)
        let bad := !cpuT.isEmpty && cpuW'.any (fun w => !((x.sch.distDom c).contains w))
        let sc := { x.sch with stage := .inH c .cpu cpuT cpuW' .p1 [] [] k }
        some { x with sch := if bad then { sc with schErr := some "KeyError: worker2task_distance[worker]" } else sc }
      | .cpu =>
        if k then some { x with sch := { x.sch with stage := .stepII x.sch.stepIIcomps x.sch.stepIIi x.sch.stepIImig } }
        else some { x with sch := { x.sch with stage := .stepI x.sch.stepIIcomps } }
    | _ => none
  | .beginStepII =>
    if x.sch.schErr.isSome || x.sys.phase != .assigning then none else
    match x.sch.stage with
    | .stepI [] =>
      if x.sys.ctl.idle.isEmpty then some { x with sch := { x.sch with stage := .done } } else
      let comps := sortDesc x.sch.weight ((List.range cm.n).filter (fun c => x.sch.weight c > 0))
      if comps.isEmpty then some { x with sch := { x.sch with stage := .done } } else
      let mig := (x.sys.ctl.idle.filter (fun w => match x.sch.host2comp w.host with
        | none => true
        | some c => x.sch.weight c == 0)).map (·.host) |>.eraseDups
      some { x with sch := { x.sch with stage := .stepII comps 0 mig } }
    | _ => none
  | .migrate h =>
    if x.sch.schErr.isSome || x.sys.phase != .assigning then none else
    match x.sch.stage with
    | .stepII comps i mig =>
      if !(mig.contains h) then none else
      match comps[i % comps.length]? with
      | none => none
      | some c =>
        let hw := cl.workersOf h
        let sc := { x.sch with
          host2comp := upd x.sch.host2comp h (some c),
          distDom := upd x.sch.distDom c (addAll (x.sch.distDom c) hw),
          ovDom := addAt x.sch.ovDom hw (x.sch.values c),
          stage := .ready c (x.sys.ctl.idle.filter (fun w => w.host == h)) true,
          stepIIcomps := comps, stepIIi := i + 1, stepIImig := mig.erase h }
        some { x with sch := sc }
    | _ => none

inductive ReachableX (f : Sem) (j : Job) (cl : Cluster) (cm : Comps) : SysX → Prop
  | init : ReachableX f j cl cm (SysX.init j cl cm)
  | step (x x' : SysX) (st : StepX) : ReachableX f j cl cm x → stepX f j cl cm x st = some x' → ReachableX f j cl cm x'

def runStepsX (f : Sem) (j : Job) (cl : Cluster) (cm : Comps) : SysX → List StepX → Option SysX
  | x, [] => some x
  | x, st :: rest => match stepX f j cl cm x st with
    | none => none
    | some x' => runStepsX f j cl cm x' rest

end EkwVerif.Ctrl
