/-
Model of `earthkit.workflows.graph`: `nodes.py` (Node / Output), `graph.py` (Graph = list of sinks),
`visit.py` (`node_visit`), `transform.py` (`Transformer.transform`, `__transform_output`),
`copy.py` (`_Copier`), `rename.py` (`_Renamer`), `deduplicate.py` (`_cmp_nodes`, `_DedupTransformer`),
`split.py` (`CutEdge`, `Splitter`), `expand.py` (`Splicer`, `_Subgraph`, `_Expander`), `fuse.py`
(`_FuseTransformer`).

Representation.  Python graphs are object graphs reachable from `Graph.sinks`.  Here a graph is the
list of its nodes in the order in which `Transformer.transform` finishes them (a topological order:
every input refers to an EARLIER index) plus the list of sink indices.  A node object is identified
by its index; an `Output(parent, name)` is a `Ref = (index, name)`.  Transformers that build node
objects write them to an output store (`List Node`, again topologically ordered: a node is appended
when the Python object is created or, for the in-place transformers, when it is rewritten).

Names are `List Char` (the property is about strings: `str.lstrip`), payloads are interned by the
harness (`atom 0` = `None`); `fused` is the payload a fusion callback builds from two payloads.
Python exceptions are `Except Err`.

The model mirrors the code AFTER the `fix:` commits of C11 (get_output before getattr in
`__transform_output`, positional-only node parameter of the callbacks, `removeprefix` instead of
`lstrip` in `Splicer.graph`, leaves of an expanded sink kept by `_Expander.graph`, `Splicer` copying the
sub-graph's nodes instead of renaming / re-wiring them in place — so that a sub-graph is a VALUE: handing
out one `Graph` object for several nodes is the same as handing out fresh copies).

Appended below the original model: the splice in closed form (`splicedNode`, `leafOf`, `expandOK`), the
traversal loop of `Transformer.transform` itself (`travLoop`, `visitOrder`, `reorder`, `asVisited`),
`Splicer` subclasses with overridden `splice_source` / `splice_sink` (`SpliceFns`, `expandGraphW`), fusion
callbacks that answer by mutating `current` (`FuseFuncM`, `fuseGraphM`), `Graph.__add__` / `join_namespaced`.
-/
namespace EkwVerif.Graph

abbrev Name := List Char
/-- `Output(parent, name)`: index of the parent node and the output name. -/
abbrev Ref := Nat × Name

/-- Payloads: opaque atoms (interned by the harness), and the payload of a node obtained by fusing
a child (payload `child`) with the parent (payload `parent`, input names `pins`, outputs `pouts`)
that feeds its input `cin` from output `pout`. -/
inductive Payload where
  | atom (n : Nat)
  | fused (child : Payload) (cin : Name) (parent : Payload) (pout : Name) (pins : List Name) (pouts : List Name)
deriving DecidableEq, Repr

instance : OfNat Payload n := ⟨.atom n⟩
instance : Inhabited Payload := ⟨.atom 0⟩

structure Node where
  name : Name
  outputs : List Name
  payload : Payload
  inputs : List (Name × Ref)          -- dict input name ↦ Output, in dict (insertion) order
deriving DecidableEq, Repr

def Node.isSource (n : Node) : Bool := n.inputs.isEmpty
def Node.isSink (n : Node) : Bool := n.outputs.isEmpty
def Node.isProcessor (n : Node) : Bool := !n.isSink && !n.isSource

/-- `Node.DEFAULT_OUTPUT = "0"` -/
def defaultOutput : Name := ['0']
/-- payload of Python's `None` -/
def nonePayload : Payload := .atom 0

structure Graph where
  nodes : List Node
  sinks : List Nat
deriving DecidableEq, Repr

inductive Err
  | dangling      -- a reference to a node that does not exist (not constructible in Python)
  | noOutput      -- `get_output` raised AttributeError / the `(node, output)` tuple fall-back
  | noCallback    -- `node_visit` fell through to `return node`
  | keyError      -- dict lookup failed
  | assertion     -- a Python `assert` failed
deriving DecidableEq, Repr

/-! ## Denotation -/

/-- The expression over payloads a node denotes: payload, declared outputs and, per input name,
the output name and the term of the parent it is connected to.  Node names do not occur; the
inputs are a function of the input NAME (a Python dict: the order of the inputs is immaterial). -/
inductive Term where
  | app (payload : Payload) (outputs : List Name) (ins : Name → Option (Name × Term))

/-- Term of a node given the terms of all earlier nodes. -/
def termOf (acc : List Term) (n : Node) : Term :=
  .app n.payload n.outputs fun k =>
    match n.inputs.lookup k with
    | none => none
    | some (j, o) =>
      match acc[j]? with
      | none => none
      | some t => some (o, t)

def denFrom (acc : List Term) : List Node → List Term
  | [] => acc
  | n :: rest => denFrom (acc ++ [termOf acc n]) rest

/-- Terms of all nodes, by recursion along the topological order. -/
def denAll (ns : List Node) : List Term := denFrom [] ns

/-- `den ns i` = the term node `i` denotes (`none` iff there is no node `i`). -/
def den (ns : List Node) (i : Nat) : Option Term := (denAll ns)[i]?

/-- What output `o` of node `i` denotes. -/
def denOut (ns : List Node) (r : Ref) : Option (Name × Term) := (den ns r.1).map fun t => (r.2, t)

/-- What the sinks of a graph compute. -/
def Graph.sinkDen (g : Graph) : List (Option Term) := g.sinks.map (den g.nodes)

/-! ## Denotation under an interpretation of the payloads (needed for fusion: a fused payload is a
different term, it denotes the same VALUES) -/

/-- An interpretation: what a payload computes at each output from the values at its inputs. -/
abbrev Interp (V : Type) := Payload → (Name → Option V) → Name → V

/-- Value of a node at each output, given what every `Output` it may refer to carries. -/
def nodeVal {V : Type} (I : Interp V) (env : Ref → Option V) (n : Node) : Name → V :=
  fun o => I n.payload (fun k => (n.inputs.lookup k).bind env) o

/-- the values carried by the outputs of already evaluated nodes -/
def envOf {V : Type} (acc : List (Name → V)) : Ref → Option V :=
  fun r => (acc[r.1]?).map fun f => f r.2

def evalFrom {V : Type} (I : Interp V) (acc : List (Name → V)) : List Node → List (Name → V)
  | [] => acc
  | n :: rest => evalFrom I (acc ++ [nodeVal I (envOf acc) n]) rest

def evalAll {V : Type} (I : Interp V) (ns : List Node) : List (Name → V) := evalFrom I [] ns

/-- `eval I ns i o` = the value at output `o` of node `i`. -/
def eval {V : Type} (I : Interp V) (ns : List Node) (i : Nat) : Option (Name → V) := (evalAll I ns)[i]?

/-! ## Well-formedness (what `Node(...)` / `get_output` guarantee by construction) -/

/-- Node `n` placed after the nodes `pre`: input names are distinct (dict keys) and every input
refers to an existing output of an earlier node. -/
def NodeOK (pre : List Node) (n : Node) : Prop :=
  (n.inputs.map (·.1)).Nodup ∧
  ∀ x ∈ n.inputs, ∃ m, pre[x.2.1]? = some m ∧ x.2.2 ∈ m.outputs

def wfFrom (pre : List Node) : List Node → Prop
  | [] => True
  | n :: rest => NodeOK pre n ∧ wfFrom (pre ++ [n]) rest

def WFNodes (ns : List Node) : Prop := wfFrom [] ns

structure Graph.WF (g : Graph) : Prop where
  nodes : WFNodes g.nodes
  sinks : ∀ s ∈ g.sinks, s < g.nodes.length

instance : Decidable (NodeOK pre n) := by unfold NodeOK; exact inferInstance

instance wfFromDec : (pre ns : List Node) → Decidable (wfFrom pre ns)
  | _, [] => isTrue trivial
  | pre, n :: rest =>
    have := wfFromDec (pre ++ [n]) rest
    by unfold wfFrom; exact inferInstance

instance : Decidable (WFNodes ns) := wfFromDec [] ns

/-! ## `Transformer` (transform.py) and `node_visit` (visit.py) -/

/-- Fold with exceptions. -/
def foldE {α β ε : Type} (f : β → α → Except ε β) : β → List α → Except ε β
  | b, [] => .ok b
  | b, a :: l =>
    match f b a with
    | .error e => .error e
    | .ok b' => foldE f b' l

def mapE {α β ε : Type} (f : α → Except ε β) : List α → Except ε (List β)
  | [] => .ok []
  | a :: l =>
    match f a with
    | .error e => .error e
    | .ok b =>
      match mapE f l with
      | .error e => .error e
      | .ok bs => .ok (b :: bs)

/-- A transformer: the optional callbacks of `Transformer`, threading the Python object's mutable
attributes (and the store of created nodes) as `σ`.  `T` = transformed node, `O` = transformed
output.  `output` is `__transform_output` as it resolves for this kind of transformed node. -/
structure Transformer (σ T O : Type) where
  source    : Option (σ → Node → Except Err (σ × T)) := none
  sink      : Option (σ → Node → List (Name × O) → Except Err (σ × T)) := none
  processor : Option (σ → Node → List (Name × O) → Except Err (σ × T)) := none
  node      : Option (σ → Node → List (Name × O) → Except Err (σ × T)) := none
  output    : σ → T → Name → Except Err O

/-- `node_visit`: source, sink, processor, node, in this order. -/
def nodeVisit {σ T O : Type} (tr : Transformer σ T O) (s : σ) (n : Node) (ins : List (Name × O)) :
    Except Err (σ × T) :=
  match (if n.isSource then tr.source else none) with
  | some f => f s n
  | none =>
    match (if n.isSink then tr.sink else none) with
    | some f => f s n ins
    | none =>
      match (if n.isProcessor then tr.processor else none) with
      | some f => f s n ins
      | none =>
        match tr.node with
        | some f => f s n ins
        | none => .error .noCallback

/-- The `inputs[iname] = self.__transform_output(done[inode], isrc)` loop. -/
def transInputs {σ T O : Type} (tr : Transformer σ T O) (s : σ) (done : List T) (ins : List (Name × Ref)) :
    Except Err (List (Name × O)) :=
  mapE (fun (x : Name × Ref) =>
    match done[x.2.1]? with
    | none => .error .dangling
    | some t =>
      match tr.output s t x.2.2 with
      | .error e => .error e
      | .ok r => .ok (x.1, r)) ins

/-- One node of the traversal: transform the inputs, visit, record in `done`. -/
def step {σ T O : Type} (tr : Transformer σ T O) (st : σ × List T) (n : Node) : Except Err (σ × List T) :=
  match transInputs tr st.1 st.2 n.inputs with
  | .error e => .error e
  | .ok ins =>
    match nodeVisit tr st.1 n ins with
    | .error e => .error e
    | .ok r => .ok (r.1, st.2 ++ [r.2])

/-- `Transformer.transform` up to the `graph` callback: final state and `done`. -/
def run {σ T O : Type} (tr : Transformer σ T O) (s0 : σ) (ns : List Node) : Except Err (σ × List T) :=
  foldE (step tr) (s0, []) ns

/-- `[done[onode] for onode in graph.sinks]` -/
def sinksOf {T : Type} (done : List T) (sinks : List Nat) : Except Err (List T) :=
  mapE (fun i => match done[i]? with | none => .error .dangling | some t => .ok t) sinks

/-- `Transformer.transform` with `graph` callback `fin`. -/
def transform {σ T O R : Type} (tr : Transformer σ T O) (fin : σ → List T → Except Err R) (s0 : σ) (g : Graph) :
    Except Err R :=
  match run tr s0 g.nodes with
  | .error e => .error e
  | .ok st =>
    match sinksOf st.2 g.sinks with
    | .error e => .error e
    | .ok ts => fin st.1 ts

/-- `__transform_output` for node-like results (`Node.get_output` first, see the `fix:` commit in
transform.py): the output must be declared by the transformed node. -/
def nodeOutput (out : List Node) (t : Nat) (o : Name) : Except Err Ref :=
  match out[t]? with
  | none => .error .dangling
  | some m => if o ∈ m.outputs then .ok (t, o) else .error .noOutput

/-! ## copy.py -/

/-- `_Copier`: `newnode = node.copy(); newnode.inputs = inputs`. -/
def copier : Transformer (List Node) Nat Ref where
  node := some fun out n ins => .ok (out ++ [{ n with inputs := ins }], out.length)
  output := nodeOutput

def copyGraph (g : Graph) : Except Err Graph :=
  transform copier (fun out sinks => .ok { nodes := out, sinks := sinks }) [] g

/-! ## rename.py -/

/-- `_Renamer`: `n.name = self.func(n.name); n.inputs = inputs`. -/
def renamer (f : Name → Name) : Transformer (List Node) Nat Ref where
  node := some fun out n ins => .ok (out ++ [{ n with name := f n.name, inputs := ins }], out.length)
  output := nodeOutput

def renameGraph (f : Name → Name) (g : Graph) : Except Err Graph :=
  transform (renamer f) (fun out sinks => .ok { nodes := out, sinks := sinks }) [] g

/-! ## deduplicate.py -/

/-- The input part of `_cmp_nodes`: `set(a.inputs.keys()) == set(b.inputs.keys())`, and for every
input name of `a` the same output name of the same parent object (`is`). -/
def sameInputs (a b : List (Name × Ref)) : Bool :=
  (a.all fun x => b.any fun y => y.1 == x.1) && (b.all fun y => a.any fun x => x.1 == y.1) &&
  a.all fun x => b.lookup x.1 == some x.2

/-- `_cmp_nodes(a, b) and pred(a, b)` -/
def sameNode (pred : Node → Node → Bool) (a b : Node) : Bool :=
  a.outputs == b.outputs && sameInputs a.inputs b.inputs && pred a b

/-- `same_payload` -/
def samePayload (a b : Node) : Bool := a.payload == b.payload

/-- `__find_node`: the store holds exactly `self.nodes`. Python iterates a set; by
`Aux.dedup_match_unique` at most one element matches, so the order is immaterial. -/
def findNode (pred : Node → Node → Bool) (out : List Node) (n : Node) : Option Nat :=
  out.findIdx? (sameNode pred n)

/-- `_DedupTransformer.node` -/
def dedupNode (pred : Node → Node → Bool) (out : List Node) (n : Node) (ins : List (Name × Ref)) :
    Except Err (List Node × Nat) :=
  let n' := { n with inputs := ins }
  match findNode pred out n' with
  | some m => .ok (out, m)
  | none => .ok (out ++ [n'], out.length)

def deduper (pred : Node → Node → Bool) : Transformer (List Node) Nat Ref where
  node := some (dedupNode pred)
  output := nodeOutput

/-- `list(set(l))` up to order: first occurrences. -/
def uniq : List Nat → List Nat
  | [] => []
  | a :: l => a :: (uniq l).filter (· != a)

/-- `_DedupTransformer.graph`: look every sink up again, collect in a `set` (order arbitrary: here
first occurrences). -/
def refind (pred : Node → Node → Bool) (out : List Node) (t : Nat) : Except Err Nat :=
  match out[t]? with
  | none => .error .dangling
  | some m =>
    match findNode pred out m with
    | none => .error .assertion          -- `assert ref is not None`
    | some r => .ok r

def dedupFin (pred : Node → Node → Bool) (out : List Node) (sinks : List Nat) : Except Err Graph :=
  match mapE (refind pred out) sinks with
  | .error e => .error e
  | .ok refs => .ok { nodes := out, sinks := uniq refs }

def dedupGraph (pred : Node → Node → Bool) (g : Graph) : Except Err Graph :=
  transform (deduper pred) (dedupFin pred) [] g

/-! ## split.py -/

/-- `CutEdge` (keys are interned to `Nat`) -/
structure CutEdge where
  sourceKey : Nat
  sourceNode : Name
  sourceOutput : Name
  destKey : Nat
  destNode : Name
  destInput : Name
deriving DecidableEq, Repr

/-- State of a `Splitter`: the store of nodes (shared by all parts), `owner` = the key of the part
each store node is created for (ghost: Python has no such field), `self.cuts`, `self.sinks`. -/
structure SplitSt where
  out : List Node := []
  owner : List Nat := []
  cuts : List CutEdge := []
  sinks : List (Nat × List Nat) := []      -- dict key ↦ list of sinks, in insertion order
deriving Repr

/-- `d.setdefault(k, []).append(i)` -/
def addSink : List (Nat × List Nat) → Nat → Nat → List (Nat × List Nat)
  | [], k, i => [(k, [i])]
  | (k', l) :: rest, k, i => if k' == k then (k', l ++ [i]) :: rest else (k', l) :: addSink rest k i

def inputName : Name := "input".toList

/-- `node.name` of a store node -/
def nameAt (out : List Node) (i : Nat) : Name :=
  match out[i]? with
  | some m => m.name
  | none => []

/-- One iteration of the loop over `inputs` in `Splitter.node` (with the default `cut_edge`):
an input from the same part is kept, any other is cut: `Node(cut.name, outputs=[], input=ival)` becomes
a sink of the source part, `Node(cut.name)` a source of this part. -/
def splitInput (cutName : CutEdge → Name) (k : Nat) (nname : Name) (st : SplitSt × List (Name × Ref))
    (x : Name × (Nat × Ref)) : SplitSt × List (Name × Ref) :=
  if x.2.1 == k then (st.1, st.2 ++ [(x.1, x.2.2)])
  else
    let s := st.1
    let pname := nameAt s.out x.2.2.1
    let cut : CutEdge := ⟨x.2.1, pname, x.2.2.2, k, nname, x.1⟩
    let snk : Node := { name := cutName cut, outputs := [], payload := nonePayload, inputs := [(inputName, x.2.2)] }
    let src : Node := { name := cutName cut, outputs := [defaultOutput], payload := nonePayload, inputs := [] }
    ({ out := s.out ++ [snk, src], owner := s.owner ++ [x.2.1, k], cuts := s.cuts ++ [cut],
       sinks := addSink s.sinks x.2.1 s.out.length },
     st.2 ++ [(x.1, (s.out.length + 1, defaultOutput))])

/-- `Splitter.node` -/
def splitNode (key : Node → Nat) (cutName : CutEdge → Name) (s : SplitSt) (n : Node) (ins : List (Name × (Nat × Ref))) :
    Except Err (SplitSt × (Nat × Nat)) :=
  let k := key n
  let r := ins.foldl (splitInput cutName k n.name) (s, [])
  let s' := r.1
  .ok ({ s' with out := s'.out ++ [{ n with inputs := r.2 }], owner := s'.owner ++ [k] }, (k, s'.out.length))

/-- `Splitter.output`: `(k, node.get_output(output))` -/
def splitOutput (s : SplitSt) (t : Nat × Nat) (o : Name) : Except Err (Nat × Ref) :=
  match nodeOutput s.out t.2 o with
  | .error e => .error e
  | .ok r => .ok (t.1, r)

def splitter (key : Node → Nat) (cutName : CutEdge → Name) : Transformer SplitSt (Nat × Nat) (Nat × Ref) where
  node := some (splitNode key cutName)
  output := splitOutput

structure SplitResult where
  nodes : List Node
  owner : List Nat
  parts : List (Nat × List Nat)      -- key ↦ sinks of `Graph(sinks)`; all parts live in `nodes`
  cuts : List CutEdge
deriving Repr

/-- `Splitter.graph` -/
def splitFin (s : SplitSt) (sinks : List (Nat × Nat)) : Except Err SplitResult :=
  .ok { nodes := s.out, owner := s.owner, cuts := s.cuts,
        parts := sinks.foldl (fun d ks => addSink d ks.1 ks.2) s.sinks }

def splitGraph (key : Node → Nat) (cutName : CutEdge → Name) (g : Graph) : Except Err SplitResult :=
  transform (splitter key cutName) splitFin {} g

/-! ## strings (expand.py) -/

/-- Python `str.lstrip(chars)`: drop leading characters that occur in the SET `chars`. -/
def lstripChars (s chars : Name) : Name := s.dropWhile fun c => chars.contains c

/-- Python `str.removeprefix(p)` -/
def removePrefix (s p : Name) : Name := if p.isPrefixOf s then s.drop p.length else s

/-! ## expand.py -/

/-- What the `expand` callback returns for a node it wants replaced: the sub-graph, `input_map`
(source name ↦ name of an input of the expanded node) and `output_map` (output name ↦ sink name).
A bare `Graph` is `(graph, None, None)`. -/
structure Expansion where
  sub : Graph
  inputMap : Option (List (Name × Name))
  outputMap : Option (List (Name × Name))
deriving Repr

/-- `_Subgraph`: what replaces an expanded node during the traversal. -/
structure Subgraph where
  name : Name
  leaves : List (Name × Nat)          -- dict sink name ↦ transformed sink (store index), insertion order
  outputMap : List (Name × Name)      -- `Splicer.outputs`: output of the expanded node ↦ sink name
  innerSinks : List Nat
deriving Repr

/-- attributes of a `Splicer` -/
structure SplicerCfg where
  name : Name
  inputs : List (Name × Ref)          -- source name ↦ Output it is to be connected to
  outputs : List (Name × Name)        -- output name ↦ sink name

/-- `f"{self.name}."` -/
def prefixOf (name : Name) : Name := name ++ ['.']
/-- `f"{self.name}.{s.name}"` -/
def prefixed (name nm : Name) : Name := prefixOf name ++ nm

def mapValues (m : List (Name × Name)) : List Name := m.map (·.2)

/-- `Splicer.outputs`: `{o: o}` without an output map, `{o: output_map.get(o, o)}` with one -/
def outputsMap (outputs : List Name) (outputMap : Option (List (Name × Name))) : List (Name × Name) :=
  match outputMap with
  | none => outputs.map fun o => (o, o)
  | some om => outputs.map fun o => (o, (om.lookup o).getD o)

/-- `Splicer.__init__`: `KeyError` if the input map names an input the node does not have. -/
def splicerInit (name : Name) (inputs : List (Name × Ref)) (inputMap : Option (List (Name × Name)))
    (outputs : List Name) (outputMap : Option (List (Name × Name))) : Except Err SplicerCfg :=
  let outs := outputsMap outputs outputMap
  match inputMap with
  | none => .ok { name := name, inputs := inputs, outputs := outs }
  | some im =>
    match mapE (fun (x : Name × Name) => match inputs.lookup x.2 with
                                         | none => Except.error Err.keyError
                                         | some r => .ok (x.1, r)) im with
    | .error e => .error e
    | .ok ins => .ok { name := name, inputs := ins, outputs := outs }

/-- `Splicer` (default `splice_source` / `splice_sink`), writing into the store of the enclosing
`_Expander`. -/
def splicer (c : SplicerCfg) : Transformer (List Node) Nat Ref where
  source := some fun out n =>
    match c.inputs.lookup n.name with
    | none => .ok (out ++ [{ n with name := prefixed c.name n.name }], out.length)
    | some r => .ok (out ++ [{ name := prefixed c.name n.name, outputs := n.outputs, payload := n.payload,
                               inputs := [(inputName, r)] }], out.length)
  processor := some fun out n ins =>
    .ok (out ++ [{ n with name := prefixed c.name n.name, inputs := ins }], out.length)
  sink := some fun out n ins =>
    if (mapValues c.outputs).contains n.name then
      .ok (out ++ [{ name := prefixed c.name n.name, outputs := [defaultOutput], payload := n.payload, inputs := ins }],
           out.length)
    else .ok (out ++ [{ n with name := prefixed c.name n.name, inputs := ins }], out.length)
  output := nodeOutput

/-- `d[k] = v` on a dict kept as an association list in insertion order -/
def dictSet : List (Name × Nat) → Name → Nat → List (Name × Nat)
  | [], k, v => [(k, v)]
  | (k', v') :: rest, k, v => if k' == k then (k', v) :: rest else (k', v') :: dictSet rest k v

/-- the loop of `Splicer.graph` (uses `removeprefix`, see the `fix:` commit; `lstrip` before) -/
def spliceLeaves (c : SplicerCfg) (out : List Node) : List Nat → List (Name × Nat) × List Nat → List (Name × Nat) × List Nat
  | [], acc => acc
  | t :: rest, acc =>
    let sname := removePrefix (nameAt out t) (prefixOf c.name)
    if (mapValues c.outputs).contains sname then spliceLeaves c out rest (dictSet acc.1 sname t, acc.2)
    else spliceLeaves c out rest (acc.1, acc.2 ++ [t])

/-- `Splicer.graph` -/
def splicerFin (c : SplicerCfg) (out : List Node) (sinks : List Nat) : Except Err (List Node × Subgraph) :=
  let r := spliceLeaves c out sinks ([], [])
  .ok (out, { name := c.name, leaves := r.1, outputMap := c.outputs, innerSinks := r.2 })

/-- transformed node of `_Expander`: a `Node` or a `_Subgraph` -/
inductive XNode
  | node (i : Nat)
  | sub (s : Subgraph)
deriving Repr

/-- `_Subgraph.get_output(name)` -/
def subgraphOutput (out : List Node) (sg : Subgraph) (o : Name) : Except Err Ref :=
  match sg.outputMap.lookup o with
  | none => .error .noOutput
  | some lname =>
    match sg.leaves.lookup lname with
    | none => .error .noOutput
    | some t => nodeOutput out t defaultOutput        -- `self.leaves[lname].get_output()`

/-- `_Expander.node` -/
def expandNode (ex : Node → Option Expansion) (out : List Node) (n : Node) (ins : List (Name × Ref)) :
    Except Err (List Node × XNode) :=
  match ex n with
  | none => .ok (out ++ [{ n with inputs := ins }], .node out.length)
  | some e =>
    match splicerInit n.name ins e.inputMap n.outputs e.outputMap with
    | .error err => .error err
    | .ok c =>
      match transform (splicer c) (splicerFin c) out e.sub with
      | .error err => .error err
      | .ok r => .ok (r.1, .sub r.2)

def expander (ex : Node → Option Expansion) : Transformer (List Node) XNode Ref where
  node := some (expandNode ex)
  output := fun out t o =>
    match t with
    | .node i => nodeOutput out i o
    | .sub sg => subgraphOutput out sg o

/-- `_Expander.graph`: plain nodes stay sinks; of a sub-graph its inner sinks and (see the `fix:`
commit) its leaves. -/
def expandFin (out : List Node) (sinks : List XNode) : Except Err Graph :=
  .ok { nodes := out,
        sinks := sinks.flatMap fun t =>
          match t with
          | .node i => [i]
          | .sub sg => sg.leaves.map (·.2) ++ sg.innerSinks }

def expandGraph (ex : Node → Option Expansion) (g : Graph) : Except Err Graph :=
  transform (expander ex) expandFin [] g

/-! ## fuse.py -/

/-- A fusion callback, restricted to callbacks that (a) look only at the two nodes they are given
(name, outputs, payload, inputs) and (b) answer with a FRESH node (not one of their arguments).
`func parent parent_out current current_in`. -/
abbrev FuseFunc := Node → Name → Node → Name → Option Node

/-- State of `_FuseTransformer`.  `out`: every node object in existence (topologically ordered);
`cnt`: `self.counter`, per object; `orig`: where the ORIGINAL object of each input node lives.  An
input node that is replaced by a fused node keeps existing as a (stale) object with its original
inputs — the callback is handed it as `current` and may take over its inputs. -/
structure FuseSt where
  out : List Node := []
  cnt : List Nat := []
  orig : List Nat := []
deriving Repr

/-- `Counter(isrc.parent for node in graph.nodes() for isrc in node.inputs.values())`, by node index -/
def countEdges (ns : List Node) : List Nat :=
  (List.range ns.length).map fun i => (ns.flatMap fun n => n.inputs.filter fun x => x.2.1 == i).length

/-- the loop over `inputs` in `_FuseTransformer.node` -/
def fuseLoop (func : FuseFunc) (s : FuseSt) : List (Name × Ref) → Node × Bool → Node × Bool
  | [], acc => acc
  | x :: rest, acc =>
    if s.cnt.getD x.2.1 0 > 1 then fuseLoop func s rest acc            -- `self.counter[isrc.parent] > 1`
    else
      match s.out[x.2.1]? with
      | none => fuseLoop func s rest acc
      | some parent =>
        match func parent x.2.2 acc.1 x.1 with
        | none => fuseLoop func s rest acc
        | some fusedNode => fuseLoop func s rest (fusedNode, true)

/-- `_FuseTransformer.node` -/
def fuseNode (func : FuseFunc) (counts : List Nat) (s : FuseSt) (n : Node) (ins : List (Name × Ref)) :
    Except Err (FuseSt × Nat) :=
  let c := counts.getD s.orig.length 0
  let self : Node := { n with inputs := n.inputs.map fun x => (x.1, (s.orig.getD x.2.1 0, x.2.2)) }
  let r := fuseLoop func s ins (self, false)
  if r.2 then
    -- `self.counter[result] = self.counter[node]`; the original object stays behind with its old inputs
    .ok ({ out := s.out ++ [self, r.1], cnt := s.cnt ++ [c, c], orig := s.orig ++ [s.out.length] }, s.out.length + 1)
  else
    -- `result.inputs = inputs` (in place)
    .ok ({ out := s.out ++ [{ n with inputs := ins }], cnt := s.cnt ++ [c], orig := s.orig ++ [s.out.length] }, s.out.length)

def fuser (func : FuseFunc) (counts : List Nat) : Transformer FuseSt Nat Ref where
  node := some (fuseNode func counts)
  output := fun s t o => nodeOutput s.out t o

def fuseGraph (func : FuseFunc) (g : Graph) : Except Err Graph :=
  transform (fuser func (countEdges g.nodes)) (fun s sinks => .ok { nodes := s.out, sinks := sinks }) {} g

/-- The callback used by the harness ("inline the parent"): the fused node keeps the current node's
other inputs under their names, takes over the parent's inputs as `<cin>.<name>`, has the current
node's outputs and a `fused` payload.  `accept` decides which pairs are fused; a clash of input
names is declined. -/
def inlineFuse (accept : Node → Name → Node → Name → Bool) : FuseFunc := fun parent pout cur cin =>
  let kept := cur.inputs.filter fun x => x.1 != cin
  let taken := parent.inputs.map fun x => (cin ++ ['.'] ++ x.1, x.2)
  if !accept parent pout cur cin then none
  else if !(cur.inputs.any fun x => x.1 == cin) then none
  else if taken.any (fun x => kept.any fun y => y.1 == x.1) then none
  else some { name := cur.name ++ ['+'] ++ parent.name, outputs := cur.outputs,
              payload := .fused cur.payload cin parent.payload pout (parent.inputs.map (·.1)) parent.outputs,
              inputs := kept ++ taken }

/-! ## expand.py: the splice in closed form (specification of what `Splicer` builds) -/

/-- `output_map.get(o, o)`: the name of the sub-graph sink selected for output `o` of the expanded node. -/
def leafName (e : Expansion) (o : Name) : Name :=
  match e.outputMap with
  | none => o
  | some om => (om.lookup o).getD o

/-- Inputs of a sub-graph node re-pointed into the store: sub-graph node `j` lives at `base + j`. -/
def shiftIns (base : Nat) (ins : List (Name × Ref)) : List (Name × Ref) :=
  ins.map fun x => (x.1, (base + x.2.1, x.2.2))

/-- What `Splicer` (default `splice_source` / `splice_sink`) makes of sub-graph node `m` when the
sub-graph's nodes are stored from index `base` on: the name is prefixed; a source named in
`Splicer.inputs` becomes a processor with the single input `input` connected to the mapped `Output` of
the parent graph; a sink whose name is a value of `Splicer.outputs` becomes a processor with a default
output; every other node keeps outputs and wiring (inside the sub-graph). -/
def splicedNode (c : SplicerCfg) (base : Nat) (m : Node) : Node :=
  if m.isSource then
    match c.inputs.lookup m.name with
    | none => { m with name := prefixed c.name m.name }
    | some r => { name := prefixed c.name m.name, outputs := m.outputs, payload := m.payload, inputs := [(inputName, r)] }
  else if m.isSink && (mapValues c.outputs).contains m.name then
    { name := prefixed c.name m.name, outputs := [defaultOutput], payload := m.payload, inputs := shiftIns base m.inputs }
  else { m with name := prefixed c.name m.name, inputs := shiftIns base m.inputs }

/-- `Splicer.inputs` in closed form: all the node's (transformed) inputs without an input map,
`{source: inputs[mapped]}` with one. -/
def cfgInputs (inputs : List (Name × Ref)) : Option (List (Name × Name)) → List (Name × Ref)
  | none => inputs
  | some im => im.filterMap fun x => (inputs.lookup x.2).map fun r => (x.1, r)

/-- The input NAME of the expanded node a sub-graph source called `s` is connected to, if any. -/
def srcInput (inames : List Name) (im : Option (List (Name × Name))) (s : Name) : Option Name :=
  match im with
  | none => if inames.contains s then some s else none
  | some im => im.lookup s

/-- the last element satisfying `p` (a later `leaves[sname] = s` overwrites an earlier one) -/
def lastWith (p : Nat → Bool) : List Nat → Option Nat → Option Nat
  | [], acc => acc
  | t :: rest, acc => lastWith p rest (if p t then some t else acc)

/-- The sub-graph sink (index into `e.sub.nodes`) that ends up as the leaf for output `o`. -/
def leafOf (e : Expansion) (o : Name) : Option Nat :=
  lastWith (fun q => nameAt e.sub.nodes q == leafName e o) e.sub.sinks none

/-- Output `o` of the expanded node can be consumed: the selected leaf exists among the sub-graph's
sinks and its spliced copy has a default output (it is a proper sink, which `splice_sink` gives one,
or it declares one itself). -/
def leafOK (e : Expansion) (o : Name) : Bool :=
  match leafOf e o with
  | none => false
  | some q =>
    match e.sub.nodes[q]? with
    | none => false
    | some mq => (!mq.isSource && mq.isSink) || mq.outputs.contains defaultOutput

/-- The expander's answer `e` for node `n` is well formed: the sub-graph is a graph (built with
`Node(...)`), and an explicit input map only names inputs the node has (`KeyError` otherwise). -/
def nodeExpOK (n : Node) (e : Expansion) : Bool :=
  decide (WFNodes e.sub.nodes) && e.sub.sinks.all (· < e.sub.nodes.length) &&
  match e.inputMap with
  | none => true
  | some im => im.all fun x => (n.inputs.map (·.1)).contains x.2

/-- The (decidable) domain of `expand_graph`: every answer of the expander is well formed and every
consumed output of an expanded node selects a usable leaf. -/
def expandOK (ex : Node → Option Expansion) (ns : List Node) : Bool :=
  ns.all (fun n => match ex n with | none => true | some e => nodeExpOK n e) &&
  ns.all (fun m => m.inputs.all fun x =>
    match ns[x.2.1]? with
    | none => true
    | some pj => match ex pj with | none => true | some e => leafOK e x.2.2)

/-- The names `expand_graph` gives the nodes that replace node `n`. -/
def expNames (ex : Node → Option Expansion) (n : Node) : List Name :=
  match ex n with
  | none => [n.name]
  | some e => e.sub.nodes.map fun m => prefixed n.name m.name

/-! ## transform.py: the traversal loop of `Transformer.transform` itself

`while todo:` over a stack of node objects.  Here the object graph is a node list in ANY order in
which inputs refer to earlier entries (e.g. the order in which the `Node(...)` calls were made);
the loop computes the order in which nodes are finished (handed to the callbacks). -/

/-- `for iname, isrc in node.inputs.items(): if isrc.parent not in done: ... break` -/
def firstUndone (done : List Nat) : List (Name × Ref) → Option Nat
  | [] => none
  | x :: rest => if done.contains x.2.1 then firstUndone done rest else some x.2.1

/-- One iteration of `while todo:`; state = (`todo`, top of the stack first; finished nodes in
finishing order). -/
def travStep (ns : List Node) (st : List Nat × List Nat) : List Nat × List Nat :=
  match st.1 with
  | [] => st
  | top :: rest =>
    if st.2.contains top then (rest, st.2)                   -- `if node in done: todo.pop(); continue`
    else
      match ns[top]? with
      | none => (rest, st.2)                                 -- not constructible
      | some n =>
        match firstUndone st.2 n.inputs with
        | some p => (p :: top :: rest, st.2)                 -- `todo.append(inode); complete = False; break`
        | none => (rest, st.2 ++ [top])                      -- `done[node] = transformed; todo.pop()`

/-- The loop, with a bound on the number of iterations. -/
def travLoop (ns : List Node) : Nat → List Nat × List Nat → Option (List Nat)
  | 0, st => if st.1.isEmpty then some st.2 else none
  | fuel + 1, st => if st.1.isEmpty then some st.2 else travLoop ns fuel (travStep ns st)

/-- `todo = [sink for sink in graph.sinks]`, top = `todo[-1]`. -/
def travInit (g : Graph) : List Nat × List Nat := (g.sinks.reverse, [])

/-- number of iterations that always suffices (`c11_traverse_terminates`) -/
def travBound (g : Graph) : Nat := g.sinks.length + 2 * g.nodes.length

/-- The order in which `Transformer.transform` finishes the nodes of `g`. -/
def visitOrder (g : Graph) : Option (List Nat) := travLoop g.nodes (travBound g) (travInit g)

/-- The graph as the callbacks see it: nodes listed in finishing order `ord`, references re-indexed. -/
def reorder (g : Graph) (ord : List Nat) : Graph :=
  { nodes := ord.map fun i =>
      match g.nodes[i]? with
      | none => { name := [], outputs := [], payload := nonePayload, inputs := [] }
      | some n => { n with inputs := n.inputs.map fun x => (x.1, (ord.idxOf x.2.1, x.2.2)) },
    sinks := g.sinks.map ord.idxOf }

/-- The graph as the callbacks of a `Transformer` see it: the traversal loop decides the order.  (`none`
does not occur on well-formed graphs, `c11_traverse_terminates`.) -/
def asVisited (g : Graph) : Graph :=
  match visitOrder g with
  | some ord => reorder g ord
  | none => g

/-- `expand_graph` from the graph AS LISTED (any creation order), sub-graphs included: both traversals
(`_Expander.transform`, and `Splicer.transform` per expanded node) are the model's own. -/
def expandGraphListed (ex : Node → Option Expansion) (g : Graph) : Except Err Graph :=
  expandGraph (fun n => (ex n).map fun e => { e with sub := asVisited e.sub }) (asVisited g)

/-! ## expand.py: `Splicer` subclasses overriding `splice_source` / `splice_sink`

Overrides are restricted (as fusion callbacks are) to functions of their arguments that answer with a
FRESH `Node` carrying the given name and connected only to what they are given. -/

/-- `src name s` = (outputs, payload, input names ALL connected to `input`) of the node that replaces the
source `s`;  `snk name s keys` = (outputs, payload, selection) of the node that replaces the sink `s` whose
transformed inputs are named `keys`: `none` = `**inputs` as given, `some sel` = the inputs
`{new: inputs[given] for (new, given) in sel}`. -/
structure SpliceFns where
  src : Name → Node → List Name × Payload × List Name
  snk : Name → Node → List Name → List Name × Payload × Option (List (Name × Name))

/-- the node `splice_source(name, s, input)` answers with -/
def mkSource (f : SpliceFns) (name : Name) (s : Node) (r : Ref) : Node :=
  { name := name, outputs := (f.src name s).1, payload := (f.src name s).2.1,
    inputs := (f.src name s).2.2.map fun k => (k, r) }

/-- the node `splice_sink(name, s, **inputs)` answers with -/
def mkSink (f : SpliceFns) (name : Name) (s : Node) (ins : List (Name × Ref)) : Node :=
  { name := name, outputs := (f.snk name s (ins.map (·.1))).1, payload := (f.snk name s (ins.map (·.1))).2.1,
    inputs := cfgInputs ins (f.snk name s (ins.map (·.1))).2.2 }

/-- the methods of `Splicer` itself -/
def defaultSplice : SpliceFns where
  src := fun _ s => (s.outputs, s.payload, [inputName])
  snk := fun _ s _ => ([defaultOutput], s.payload, none)

/-- `Splicer` with overridden `splice_source` / `splice_sink` -/
def splicerW (f : SpliceFns) (c : SplicerCfg) : Transformer (List Node) Nat Ref where
  source := some fun out n =>
    match c.inputs.lookup n.name with
    | none => .ok (out ++ [{ n with name := prefixed c.name n.name }], out.length)
    | some r => .ok (out ++ [mkSource f (prefixed c.name n.name) n r], out.length)
  processor := some fun out n ins =>
    .ok (out ++ [{ n with name := prefixed c.name n.name, inputs := ins }], out.length)
  sink := some fun out n ins =>
    if (mapValues c.outputs).contains n.name then .ok (out ++ [mkSink f (prefixed c.name n.name) n ins], out.length)
    else .ok (out ++ [{ n with name := prefixed c.name n.name, inputs := ins }], out.length)
  output := nodeOutput

/-- `_Expander.node` with the splicer factory `lambda *a: MySplicer(*a)` -/
def expandNodeW (f : SpliceFns) (ex : Node → Option Expansion) (out : List Node) (n : Node) (ins : List (Name × Ref)) :
    Except Err (List Node × XNode) :=
  match ex n with
  | none => .ok (out ++ [{ n with inputs := ins }], .node out.length)
  | some e =>
    match splicerInit n.name ins e.inputMap n.outputs e.outputMap with
    | .error err => .error err
    | .ok c =>
      match transform (splicerW f c) (splicerFin c) out e.sub with
      | .error err => .error err
      | .ok r => .ok (r.1, .sub r.2)

def expanderW (f : SpliceFns) (ex : Node → Option Expansion) : Transformer (List Node) XNode Ref where
  node := some (expandNodeW f ex)
  output := fun out t o =>
    match t with
    | .node i => nodeOutput out i o
    | .sub sg => subgraphOutput out sg o

/-- `expand_graph(expand, graph, splicer=MySplicer)` -/
def expandGraphW (f : SpliceFns) (ex : Node → Option Expansion) (g : Graph) : Except Err Graph :=
  transform (expanderW f ex) expandFin [] g

/-- the closed form of the splice with overrides (`splicedNode` for `defaultSplice`) -/
def splicedNodeW (f : SpliceFns) (c : SplicerCfg) (base : Nat) (m : Node) : Node :=
  if m.isSource then
    match c.inputs.lookup m.name with
    | none => { m with name := prefixed c.name m.name }
    | some r => mkSource f (prefixed c.name m.name) m r
  else if m.isSink && (mapValues c.outputs).contains m.name then
    mkSink f (prefixed c.name m.name) m (shiftIns base m.inputs)
  else { m with name := prefixed c.name m.name, inputs := shiftIns base m.inputs }

/-! the `Splicer` subclasses the correspondence check uses -/

def wrapPayload (d : Nat) : Payload → Payload
  | .atom n => .atom (n + d)
  | p => p

/-- `TapSplicer`: a replaced source declares an extra output `tap`, carries a wrapped payload and is connected to the
node's input TWICE (`src=input, ctl=input`); a replaced sink declares `0` and `aux`, carries a wrapped payload and
renames every input `k` to `k_`. -/
def tapSplice : SpliceFns where
  src := fun _ s => (if s.outputs.contains "tap".toList then s.outputs else s.outputs ++ ["tap".toList],
                     wrapPayload 1000 s.payload, ["src".toList, "ctl".toList])
  snk := fun _ s keys => ([defaultOutput, "aux".toList], wrapPayload 2000 s.payload, some (keys.map fun k => (k ++ ['_'], k)))

/-- `FirstSplicer`: default `splice_source`; a replaced sink keeps only its first input. -/
def firstSplice : SpliceFns where
  src := defaultSplice.src
  snk := fun _ s keys => ([defaultOutput], s.payload, some (match keys with | [] => [] | k :: _ => [(k, k)]))

/-! ## fuse.py: callbacks that answer by MUTATING `current` and returning it

`FuseFunc` covers callbacks that answer with a fresh node.  A callback may also change `current` (name,
payload, inputs) in place and return it; `_FuseTransformer.node` then keeps working on the same object
(`result = fused`), and — because `any_fused` is set — leaves the inputs as the callback set them.  The
difference to a fresh answer is object identity: no stale copy of the original node stays behind, and the
original inputs of LATER nodes (which the callback is shown) point to the mutated object. -/

structure FuseAns where
  node : Node          -- the content of the answer
  inplace : Bool       -- `true`: `current` itself, mutated; `false`: a fresh node
deriving Repr

abbrev FuseFuncM := Node → Name → Node → Name → Option FuseAns

/-- loop state: `cur` = content of `result`, `fused` = `any_fused`, `selfc` = content of the ORIGINAL node object,
`isSelf` = `result is node` -/
structure FuseLoopSt where
  cur : Node
  fused : Bool
  selfc : Node
  isSelf : Bool

def fuseLoopM (func : FuseFuncM) (s : FuseSt) : List (Name × Ref) → FuseLoopSt → FuseLoopSt
  | [], acc => acc
  | x :: rest, acc =>
    if s.cnt.getD x.2.1 0 > 1 then fuseLoopM func s rest acc
    else
      match s.out[x.2.1]? with
      | none => fuseLoopM func s rest acc
      | some parent =>
        match func parent x.2.2 acc.cur x.1 with
        | none => fuseLoopM func s rest acc
        | some a =>
          fuseLoopM func s rest
            { cur := a.node, fused := true,
              selfc := if a.inplace && acc.isSelf then a.node else acc.selfc,
              isSelf := a.inplace && acc.isSelf }

def fuseNodeM (func : FuseFuncM) (counts : List Nat) (s : FuseSt) (n : Node) (ins : List (Name × Ref)) :
    Except Err (FuseSt × Nat) :=
  let c := counts.getD s.orig.length 0
  let self : Node := { n with inputs := n.inputs.map fun x => (x.1, (s.orig.getD x.2.1 0, x.2.2)) }
  let r := fuseLoopM func s ins { cur := self, fused := false, selfc := self, isSelf := true }
  if r.fused then
    if r.isSelf then
      -- the original object itself is the (mutated) result
      .ok ({ out := s.out ++ [r.cur], cnt := s.cnt ++ [c], orig := s.orig ++ [s.out.length] }, s.out.length)
    else
      .ok ({ out := s.out ++ [r.selfc, r.cur], cnt := s.cnt ++ [c, c], orig := s.orig ++ [s.out.length] }, s.out.length + 1)
  else
    .ok ({ out := s.out ++ [{ n with inputs := ins }], cnt := s.cnt ++ [c], orig := s.orig ++ [s.out.length] }, s.out.length)

def fuserM (func : FuseFuncM) (counts : List Nat) : Transformer FuseSt Nat Ref where
  node := some (fuseNodeM func counts)
  output := fun s t o => nodeOutput s.out t o

def fuseGraphM (func : FuseFuncM) (g : Graph) : Except Err Graph :=
  transform (fuserM func (countEdges g.nodes)) (fun s sinks => .ok { nodes := s.out, sinks := sinks }) {} g

/-- the harness' callback with in-place answers: `inplace parent pout cur cin` decides whether `cur` is mutated -/
def inlineFuseM (accept inplace : Node → Name → Node → Name → Bool) : FuseFuncM := fun parent pout cur cin =>
  (inlineFuse accept parent pout cur cin).map fun f => { node := f, inplace := inplace parent pout cur cin }

/-! ## graph.py `Graph.__add__` and rename.py `join_namespaced` -/

/-- a node of the second operand, its references re-pointed behind the first operand's nodes -/
def shiftNode (b : Nat) (n : Node) : Node := { n with inputs := shiftIns b n.inputs }

/-- `Graph.__add__`: `Graph(self.sinks + other.sinks)` (the node objects of both graphs, disjoint) -/
def addGraphs (g1 g2 : Graph) : Graph :=
  { nodes := g1.nodes ++ g2.nodes.map (shiftNode g1.nodes.length),
    sinks := g1.sinks ++ g2.sinks.map (g1.nodes.length + ·) }

/-- `rename_nodes(lambda n: f"{namespace}.{n}", graph)` -/
def renameNs (p : Name × Graph) : Except Err Graph := renameGraph (prefixed p.1) p.2

/-- `join_namespaced(**graphs)` = `reduce(add, (rename_nodes(...) for namespace, graph in graphs.items()))`;
`reduce` of an empty sequence raises `TypeError`. -/
def joinNamespaced : List (Name × Graph) → Except Err Graph
  | [] => .error .noCallback
  | p :: rest =>
    match renameNs p with
    | .error e => .error e
    | .ok r =>
      foldE (fun acc q => match renameNs q with | .error e => .error e | .ok r' => .ok (addGraphs acc r')) r rest

end EkwVerif.Graph
