/-
Model of the frame-sequence parser of `Listener._recv_one` (src/cascade/executor/comms.py).

A zmq multipart message is a list of frames (byte strings). `_recv_one` looks at what
`des_message` (= `pickle.loads`) makes of the first one or two frames and at the length of the
list. The abstract frame alphabet keeps exactly that much of a byte string:

* `syn i a`  — unpickles to `Syn(idx=i, addr=a)`
* `hdr h`    — unpickles to a `DatasetTransmitPayloadHeader` (interned as `h`)
* `msg m`    — unpickles to anything else (`Ack(idx)` is told apart because the loops dispatch on it)
* `junk b`   — `des_message` raises on it (only usable as the raw value of a payload)

The value part of a payload is NOT unpickled by `_recv_one`; any frame can stand there.
NO Mathlib.
-/
namespace EkwVerif.Frames

/-- What travels inside a frame that is neither Syn nor payload header. -/
inductive Msg where
  | ack (idx : Nat)
  | app (m : Nat)
deriving DecidableEq, Repr, Inhabited

inductive Frame where
  | syn (idx : Nat) (addr : Nat)
  | hdr (h : Nat)
  | msg (m : Msg)
  | junk (b : Nat)
deriving DecidableEq, Repr, Inhabited

/-- What `_recv_one` hands to its caller. -/
inductive Parsed where
  | msg (m : Msg)
  | payload (h : Nat) (value : Frame)
deriving DecidableEq, Repr, Inhabited

/-- The `raise` sites of `_recv_one`, in source order (`des` = `des_message` itself raised). -/
inductive Err where
  | empty      -- "unexpected empty message"
  | des        -- pickle.loads raised on frame 0 / frame 1
  | synOnly    -- "unexpected message with Syn only"
  | hdrLen2    -- "first message was payload header, but len(data) != 2"
  | len1       -- "expected len 1 but gotten ..."
  | doubleSyn  -- "unexpected double Syn"
  | hdrLen3    -- "second message was payload header, but len(data) != 3"
  | len2       -- "expected len(data) to equal 2"
deriving DecidableEq, Repr, Inhabited

/-- `Syn` as a pair (idx, addr). -/
abbrev SynId := Nat × Nat

/-- The part of `_recv_one` after the (optional) Syn: one message or header+value. `n1`/`n2` are
the error codes of the two copies of this logic in the source. -/
def parseBody (eHdr eLen : Err) : List Frame → Except Err Parsed
  | [] => .error .empty                -- not reachable from `recvOne`
  | .junk _ :: _ => .error .des
  | .syn _ _ :: _ => .error .doubleSyn -- only used for the tail after a Syn
  | [.hdr h, v] => .ok (.payload h v)
  | .hdr _ :: _ => .error eHdr
  | [.msg m] => .ok (.msg m)
  | .msg _ :: _ => .error eLen

/-- Pure view: which (optional Syn, content) a frame list denotes; everything else is an error. -/
def parse : List Frame → Except Err (Option SynId × Parsed)
  | [] => .error .empty
  | [.syn _ _] => .error .synOnly
  | .syn i a :: rest => (parseBody .hdrLen3 .len2 rest).map (fun p => (some (i, a), p))
  | fs => (parseBody .hdrLen2 .len1 fs).map (fun p => (none, p))

/-- Everything `_recv_one` does with one multipart message, given the listener's `acked` set:
`ack` — the `Ack` sent back via `callback(m0.addr, Ack(idx))` (destination address, idx);
`mark` — the Syn added to `acked`; `res` — return value (`none` = Python `None`) or the raise. -/
structure RecvOut where
  ack : Option (Nat × Nat) := none      -- (addr, idx)
  mark : Option SynId := none
  res : Except Err (Option Parsed)
deriving Repr

def recvOne (acked : Nat → Nat → Bool) : List Frame → RecvOut
  | [] => { res := .error .empty }
  | .syn i a :: rest =>
    -- callback(m0.addr, Ack(idx=m0.idx)) happens first, whatever follows
    match rest with
    | [] => { ack := some (a, i), res := .error .synOnly }
    | _ :: _ =>
      if acked i a then { ack := some (a, i), res := .ok none }
      else
        { ack := some (a, i), mark := some (i, a)
          res := (parseBody .hdrLen3 .len2 rest).map some }
  | fs => { res := (parseBody .hdrLen2 .len1 fs).map some }

/-! ### the sender side of the wire format -/

/-- how an acknowledged message is put on the wire after its Syn: `ReliableSender.send` pickles it
into ONE frame; `send_data` splits a DatasetTransmitPayload into header + value -/
inductive Shape where
  | plain
  | data
deriving DecidableEq, Repr

/-- the frames that follow the Syn (`m` = the interned message; for a payload the header and the raw
value are both determined by it) -/
def wireBody : Shape → Nat → List Frame
  | .plain, m => [.msg (.app m)]
  | .data, m => [.hdr m, .msg (.app m)]

/-- what `_recv_one` makes of `wireBody` -/
def parsedBody : Shape → Nat → Parsed
  | .plain, m => .msg (.app m)
  | .data, m => .payload m (.msg (.app m))

theorem parseBody_wireBody (sh : Shape) (m : Nat) :
    parseBody .hdrLen3 .len2 (wireBody sh m) = .ok (parsedBody sh m) := by
  cases sh <;> rfl

theorem wireBody_ne_nil (sh : Shape) (m : Nat) : wireBody sh m ≠ [] := by
  cases sh <;> simp [wireBody]

/-- the parsed content determines shape and message -/
theorem parsedBody_inj {sh sh' : Shape} {m m' : Nat} (h : parsedBody sh m = parsedBody sh' m') :
    sh = sh' ∧ m = m' := by
  cases sh <;> cases sh' <;> simp [parsedBody] at h <;> simp [h]

theorem parsedBody_inj_msg (sh : Shape) {m m' : Nat} (h : parsedBody sh m = parsedBody sh m') : m = m' :=
  (parsedBody_inj h).2

theorem parsedBody_shape_ne (m m' : Nat) : parsedBody .plain m ≠ parsedBody .data m' := by
  simp [parsedBody]

theorem wireBody_inj {sh sh' : Shape} {m m' : Nat} (h : wireBody sh m = wireBody sh' m') :
    sh = sh' ∧ m = m' := by
  cases sh <;> cases sh' <;> simp [wireBody] at h <;> simp [h]

theorem parsedBody_ne_ack (sh : Shape) (m i : Nat) : parsedBody sh m ≠ .msg (.ack i) := by
  cases sh <;> simp [parsedBody]

theorem wireBody_ne_ack (sh : Shape) (m i : Nat) : wireBody sh m ≠ [.msg (.ack i)] := by
  cases sh <;> simp [wireBody]

/-- **closed form of `_recv_one` on a Syn followed by either wire shape**: the Ack always goes out;
a Syn seen before: nothing returned, nothing recorded; otherwise the Syn is recorded and the
content returned — the same for both shapes -/
theorem recvOne_syn_wireBody (acked : Nat → Nat → Bool) (i a : Nat) (sh : Shape) (m : Nat) :
    recvOne acked (.syn i a :: wireBody sh m) =
      if acked i a then { ack := some (a, i), res := .ok none }
      else { ack := some (a, i), mark := some (i, a), res := .ok (some (parsedBody sh m)) } := by
  cases sh <;> simp only [recvOne, wireBody, parsedBody, parseBody, Except.map]

/-- The four legal shapes. -/
inductive Legal : List Frame → Option SynId → Parsed → Prop where
  | plain (m : Msg) : Legal [.msg m] none (.msg m)
  | data (h : Nat) (v : Frame) : Legal [.hdr h, v] none (.payload h v)
  | synPlain (i a : Nat) (m : Msg) : Legal [.syn i a, .msg m] (some (i, a)) (.msg m)
  | synData (i a h : Nat) (v : Frame) : Legal [.syn i a, .hdr h, v] (some (i, a)) (.payload h v)

end EkwVerif.Frames
