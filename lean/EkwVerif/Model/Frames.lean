/-
Model of the frame-sequence parser of `Listener._recv_one` (src/cascade/executor/comms.py).

A zmq multipart message is a list of frames (byte strings). `_recv_one` looks at what
`des_message` (= `pickle.loads`) makes of the first one or two frames and at the length of the
list. The abstract frame alphabet keeps exactly that much of a byte string:

* `syn i a`  — unpickles to `Syn(idx=i, addr=a)`
* `hdr h`    — unpickles to a `DatasetTransmitPayloadHeader` (interned as `h`)
* `msg m`    — unpickles to anything else (`Ack(idx)` is told apart because the loops dispatch on it)
* `junk b`   — `des_message` raises on it (only usable as the raw value of a payload)

The value part of a payload is NOT unpickled by `_recv_one`; any frame can stand there.
NO Mathlib.
-/
namespace EkwVerif.Frames

/-- What travels inside a frame that is neither Syn nor payload header. -/
inductive Msg where
  | ack (idx : Nat)
  | app (m : Nat)
deriving DecidableEq, Repr, Inhabited

inductive Frame where
  | syn (idx : Nat) (addr : Nat)
  | hdr (h : Nat)
  | msg (m : Msg)
  | junk (b : Nat)
deriving DecidableEq, Repr, Inhabited

/-- What `_recv_one` hands to its caller. -/
inductive Parsed where
  | msg (m : Msg)
  | payload (h : Nat) (value : Frame)
deriving DecidableEq, Repr, Inhabited

/-- The `raise` sites of `_recv_one`, in source order (`des` = `des_message` itself raised). -/
inductive Err where
  | empty      -- "unexpected empty message"
  | des        -- pickle.loads raised on frame 0 / frame 1
  | synOnly    -- "unexpected message with Syn only"
  | hdrLen2    -- "first message was payload header, but len(data) != 2"
  | len1       -- "expected len 1 but gotten ..."
  | doubleSyn  -- "unexpected double Syn"
  | hdrLen3    -- "second message was payload header, but len(data) != 3"
  | len2       -- "expected len(data) to equal 2"
deriving DecidableEq, Repr, Inhabited

/-- `Syn` as a pair (idx, addr). -/
abbrev SynId := Nat × Nat

/-- The part of `_recv_one` after the (optional) Syn: one message or header+value. `n1`/`n2` are
the error codes of the two copies of this logic in the source. -/
def parseBody (eHdr eLen : Err) : List Frame → Except Err Parsed
  | [] => .error .empty                -- not reachable from `recvOne`
  | .junk _ :: _ => .error .des
  | .syn _ _ :: _ => .error .doubleSyn -- only used for the tail after a Syn
  | [.hdr h, v] => .ok (.payload h v)
  | .hdr _ :: _ => .error eHdr
  | [.msg m] => .ok (.msg m)
  | .msg _ :: _ => .error eLen

/-- Pure view: which (optional Syn, content) a frame list denotes; everything else is an error. -/
def parse : List Frame → Except Err (Option SynId × Parsed)
  | [] => .error .empty
  | [.syn _ _] => .error .synOnly
  | .syn i a :: rest => (parseBody .hdrLen3 .len2 rest).map (fun p => (some (i, a), p))
  | fs => (parseBody .hdrLen2 .len1 fs).map (fun p => (none, p))

/-- Everything `_recv_one` does with one multipart message, given the listener's `acked` set:
`ack` — the `Ack` sent back via `callback(m0.addr, Ack(idx))` (destination address, idx);
`mark` — the Syn added to `acked`; `res` — return value (`none` = Python `None`) or the raise. -/
structure RecvOut where
  ack : Option (Nat × Nat) := none      -- (addr, idx)
  mark : Option SynId := none
  res : Except Err (Option Parsed)
deriving Repr

def recvOne (acked : Nat → Nat → Bool) : List Frame → RecvOut
  | [] => { res := .error .empty }
  | .syn i a :: rest =>
    -- callback(m0.addr, Ack(idx=m0.idx)) happens first, whatever follows
    match rest with
    | [] => { ack := some (a, i), res := .error .synOnly }
    | _ :: _ =>
      if acked i a then { ack := some (a, i), res := .ok none }
      else
        { ack := some (a, i), mark := some (i, a)
          res := (parseBody .hdrLen3 .len2 rest).map some }
  | fs => { res := (parseBody .hdrLen2 .len1 fs).map some }

/-- The four legal shapes. -/
inductive Legal : List Frame → Option SynId → Parsed → Prop where
  | plain (m : Msg) : Legal [.msg m] none (.msg m)
  | data (h : Nat) (v : Frame) : Legal [.hdr h, v] none (.payload h v)
  | synPlain (i a : Nat) (m : Msg) : Legal [.syn i a, .msg m] (some (i, a)) (.msg m)
  | synData (i a h : Nat) (v : Frame) : Legal [.syn i a, .hdr h, v] (some (i, a)) (.payload h v)

end EkwVerif.Frames
