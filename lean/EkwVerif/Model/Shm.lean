/-
Model of the shared-memory store: `cascade.shm.dataset.Manager` (+ `Dataset.is_pageoutable`),
`cascade.shm.algorithms.lottery`, the two disk jobs of `cascade.shm.disk.Disk`
(`_page_out`, `_page_in`), the part of `cascade.shm.client` that touches `/dev/shm`
(create-and-write by the writer), and the `FreeSpaceRequest` branch of
`cascade.shm.server.LocalServer.start`.

Conventions (DESIGN §3/§4):
  * every request handler and every pool-thread callback is one atomic step; a disk job is
    split into an I/O step (`ioStep`, may fail) and a callback step (`cbStep`), interleaved
    arbitrarily with requests;
  * `time.time_ns()` is an argument `t` of the step (the harness installs a fake clock that
    returns `t` during the step); `uuid.uuid4()` is a stream of candidates `cands`;
  * a Python closure that captured the `Dataset` *object* is modelled by the generation number
    `gen` of that object: `ds.status = …` inside a callback acts on the dataset stored under
    the key only if it still is the same object, `ds.size` is the recorded size,
    `self.purge(key)` goes by key (exactly as in the code);
  * `shmid` is an injective function of the key (md5 prefix), so segments and files are keyed by
    the dataset key; contents are `(size, data)` with `data` an opaque token (0 = zero bytes);
  * exceptions swallowed by `purge`'s outer `except Exception` are "no change";
  * mirrors the code AFTER the `fix:` commits: the lock leak (`page_out_at_least` releases
    `pageout_all` again when the lottery has no winners), the purge of a FAILED disk job's callback
    (`purge(key, is_failed_job=True)`: not delayed by readers, a missing segment is fine: `purgeFailed`),
    and `free_space -= …` under `pageout_one` in `add` / `page_in` (which is what makes the handler-atomic
    update of `free` below adequate; the micro-step argument is Lemmas/ShmMicro.lean);
  * contents: a token `t < 256` stands for the bytes `pattern(t, size)` of the harness, `0` for zero
    bytes, `256 + 256*m + t` for `m` leading bytes of `pattern(t, ·)` followed by zeros (a partially
    filled segment: page-in of a file shorter than the dataset, or interrupted by a file that is longer).
No Mathlib.
-/
namespace EkwVerif.Shm

/-! ### association lists (Python dicts: insertion ordered, unique keys) -/

def find? {α : Type} : List (String × α) → String → Option α
  | [], _ => none
  | (k, v) :: l, x => if k = x then some v else find? l x

/-- replace the value of the first binding of `x` (no-op when absent) -/
def set {α : Type} : List (String × α) → String → α → List (String × α)
  | [], _, _ => []
  | (k, v) :: l, x, w => if k = x then (k, w) :: l else (k, v) :: set l x w

/-- remove the first binding of `x` -/
def erase {α : Type} : List (String × α) → String → List (String × α)
  | [], _ => []
  | (k, v) :: l, x => if k = x then l else (k, v) :: erase l x

/-- `d[x] = w` on a dict: overwrite in place or append -/
def put {α : Type} (l : List (String × α)) (x : String) (w : α) : List (String × α) :=
  match find? l x with
  | some _ => set l x w
  | none => l ++ [(x, w)]

/-! ### state -/

inductive Status | created | inMemory | pagingOut | onDisk | pagedIn
deriving DecidableEq, Repr

/-- `Dataset` of dataset.py. `gen` = identity of the Python object; `wrote` is a ghost field:
the token the writer put into the segment it created (none = it has not created it). -/
structure Dataset where
  gen : Nat
  size : Nat
  status : Status
  created : Nat
  readers : List (String × Nat)      -- ongoing_reads: rdid ↦ start time
  first : Nat                        -- retrieved_first
  last : Nat                         -- retrieved_last
  deser : String
  delayed : Bool                     -- delayed_purge
  wrote : Option Nat
deriving Repr, DecidableEq

/-- a shared-memory segment or a file: its size and an opaque content token -/
structure Seg where
  size : Nat
  data : Nat
deriving Repr, DecidableEq

inductive JobKind | out | inn
deriving DecidableEq, Repr

/-- outcome of the I/O part of a disk job: `ok`; `fail` = failed, nothing changed;
`failLate` (page-in only) = the segment was created, then reading the file failed. -/
inductive IoRes | ok | fail | failLate
deriving DecidableEq, Repr

/-- a job submitted to `disk.writers` (`out`) or `disk.readers` (`inn`): the closure holds the
key, the dataset object (`gen`, `size`); `io` = result of the I/O part once it has run. -/
structure Job where
  id : Nat
  kind : JobKind
  key : String
  gen : Nat
  size : Nat
  io : Option Bool
deriving Repr

structure St where
  cap : Nat
  free : Nat
  staleCreate : Nat
  staleRead : Nat
  ds : List (String × Dataset)
  lock : Bool                        -- pageout_all.locked()
  count : Nat                        -- pageout_count
  segs : List (String × Seg)         -- /dev/shm
  files : List (String × Seg)        -- disk.root
  jobs : List Job
  nextGen : Nat
  nextJob : Nat
deriving Repr

def init (cap staleCreate staleRead : Nat) : St :=
  { cap := cap, free := cap, staleCreate := staleCreate, staleRead := staleRead, ds := [],
    lock := false, count := 0, segs := [], files := [], jobs := [], nextGen := 0, nextJob := 0 }

/-- `Manager.__init__`: the capacity the store works with. `configured` is the `capacity` argument (`None` / 0 = not
configured), `avail` what `get_capacity()` reports for /dev/shm: `if not capacity: capacity = default_capacity elif capacity >
default_capacity: capacity = default_capacity`. -/
def configCapacity (configured : Option Nat) (avail : Nat) : Nat :=
  match configured with
  | none => avail
  | some c => if c = 0 then avail else if c > avail then avail else c

/-- `Executor.__init__`: the capacity argument given to the shm server process, `shm_vol_gb * (1024**3) if shm_vol_gb else None` -/
def execCapacity (shmVolGb : Option Nat) : Option Nat :=
  match shmVolGb with
  | none => none
  | some g => if g = 0 then none else some (g * 1024 ^ 3)

/-- `server.entrypoint(port, capacity, …)` → `LocalServer.__init__` → `Manager(shm_pref, capacity)`: the configured value is
handed through unchanged, the Manager trims it to what /dev/shm offers -/
def boot (configured : Option Nat) (avail staleCreate staleRead : Nat) : St :=
  init (configCapacity configured avail) staleCreate staleRead

/-- statuses whose size is promised out of shared memory -/
def Status.resident : Status → Bool
  | .onDisk => false
  | _ => true

def weight (d : Dataset) : Nat := if d.status.resident then d.size else 0

def total {α : Type} (w : α → Nat) : List (String × α) → Nat
  | [] => 0
  | (_, v) :: l => w v + total w l

/-- Σ { size | status ∈ created, in_memory, paging_out, paged_in } -/
def residentTotal (ds : List (String × Dataset)) : Nat := total weight ds

/-- total size of the existing segments -/
def segTotal (segs : List (String × Seg)) : Nat := total Seg.size segs

/-! ### `Dataset.is_pageoutable` and `algorithms.lottery` -/

def maxStart : List (String × Nat) → Nat
  | [] => 0
  | (_, t) :: l => Nat.max t (maxStart l)

/-- `ref_time - x > stale` over Python ints, for naturals: `x + stale < ref_time` -/
def isPageoutable (staleCreate staleRead : Nat) (d : Dataset) (t : Nat) : Bool :=
  let createdStale := d.status == .created && d.created + staleCreate < t
  let noFreshRead := d.readers.isEmpty || maxStart d.readers + staleRead < t
  createdStale || (d.status == .inMemory && noFreshRead)

structure Entity where
  key : String
  created : Nat
  first : Nat
  last : Nat
  size : Nat
deriving Repr

/-- stable insertion: `x` goes behind every element that is not greater -/
def ins (lt : Entity → Entity → Bool) (x : Entity) : List Entity → List Entity
  | [] => [x]
  | y :: ys => if lt x y then x :: y :: ys else y :: ins lt x ys

/-- Python's stable `sorted` -/
def sortBy (lt : Entity → Entity → Bool) (l : List Entity) : List Entity :=
  l.foldl (fun acc x => ins lt x acc) []

/-- the three `for e in …: winners.append; freed += size; if freed >= amount: return` loops
share `freed` and `winners`: one sweep over the concatenation, stopping at the first prefix
that reaches `amount`. -/
def sweep (amount : Nat) : List Entity → Nat → List String
  | [], _ => []
  | e :: es, freed => if freed + e.size ≥ amount then [e.key] else e.key :: sweep amount es (freed + e.size)

def isNever (e : Entity) : Bool := e.first == 0
def isOnce (e : Entity) : Bool := !(e.first == 0) && e.first == e.last
def isMult (e : Entity) : Bool := !(e.first == 0) && !(e.first == e.last)

def lotteryOrder (es : List Entity) : List Entity :=
  sortBy (fun a b => a.created < b.created) (es.filter isOnce)
  ++ sortBy (fun a b => a.last < b.last) (es.filter isMult)
  ++ sortBy (fun a b => b.created < a.created) (es.filter isNever)     -- key = -created

def lottery (es : List Entity) (amount : Nat) : List String := sweep amount (lotteryOrder es) 0

def candidates (staleCreate staleRead : Nat) (t : Nat) : List (String × Dataset) → List Entity
  | [] => []
  | (k, d) :: l =>
    if isPageoutable staleCreate staleRead d t
    then { key := k, created := d.created, first := d.first, last := d.last, size := d.size } :: candidates staleCreate staleRead t l
    else candidates staleCreate staleRead t l

/-! ### Manager -/

/-- `Manager.page_out(key)`: status := paging_out, job submitted to `disk.writers` -/
def pageOut (s : St) (k : String) : St :=
  match find? s.ds k with
  | none => s
  | some d =>
    { s with ds := set s.ds k { d with status := .pagingOut },
             jobs := s.jobs ++ [{ id := s.nextJob, kind := .out, key := k, gen := d.gen, size := d.size, io := none }],
             nextJob := s.nextJob + 1 }

def pageOutAll (s : St) (ws : List String) : St := ws.foldl pageOut s

/-- `Manager.page_out_at_least` (fixed: an empty lottery gives the lock back) -/
def pageOutAtLeast (s : St) (amount : Nat) (t : Nat) : St :=
  if s.lock then s else
  let ws := lottery (candidates s.staleCreate s.staleRead t s.ds) amount
  if ws.isEmpty then s
  else pageOutAll { s with lock := true, count := ws.length } ws

inductive AddOut | granted | conflict | capacityExceeded | wait
deriving DecidableEq, Repr

/-- `Manager.add` -/
def add (s : St) (k : String) (size : Nat) (deser : String) (t : Nat) : St × AddOut :=
  if (find? s.ds k).isSome then (s, .conflict)
  else if size > s.cap then (s, .capacityExceeded)
  else if size > s.free then (pageOutAtLeast s (size - s.free) t, .wait)
  else ({ s with free := s.free - size,
                 ds := s.ds ++ [(k, { gen := s.nextGen, size := size, status := .created, created := t,
                                      readers := [], first := 0, last := 0, deser := deser,
                                      delayed := false, wrote := none })],
                 nextGen := s.nextGen + 1 }, .granted)

/-- `Manager.purge(key)` (is_exit = False). KeyError, "skipping purge because is on disk" and a
failing `SharedMemory(shmid, create=False)` all leave the state unchanged. -/
def purge (s : St) (k : String) : St :=
  match find? s.ds k with
  | none => s
  | some d =>
    if !d.readers.isEmpty then { s with ds := set s.ds k { d with delayed := true } }
    else if d.status == .onDisk then s
    else match find? s.segs k with
      | none => s
      | some _ => { s with segs := erase s.segs k, free := s.free + d.size, ds := erase s.ds k }

/-- `Manager.purge(key, is_failed_job=True)`, called by the callback of a failed page-out / page-in: registered
(stale) readers do not delay it and a segment that does not exist is fine; KeyError and "is on disk" leave the state
unchanged. The dataset never stays in its transitional status. -/
def purgeFailed (s : St) (k : String) : St :=
  match find? s.ds k with
  | none => s
  | some d =>
    if d.status == .onDisk then s
    else { s with segs := erase s.segs k, free := s.free + d.size, ds := erase s.ds k }

/-- `Manager.purge(key, is_exit=True)`: ongoing reads do NOT delay it, free space is not touched (no lock at exit);
a missing key, a dataset on disk and a failing `SharedMemory(shmid, create=False)` leave the state unchanged. -/
def purgeExit (s : St) (k : String) : St :=
  match find? s.ds k with
  | none => s
  | some d =>
    if d.status == .onDisk then s
    else match find? s.segs k with
      | none => s
      | some _ => { s with segs := erase s.segs k, ds := erase s.ds k }

/-- `Manager.atexit`: purge every key known when the handler starts (SIGTERM handler / ShutdownCommand of the shm server) -/
def atexit (s : St) : St := (s.ds.map (·.1)).foldl purgeExit s

inductive CloseOut | ok | keyError | valueError
deriving DecidableEq, Repr

def eraseReader (rs : List (String × Nat)) (r : String) : List (String × Nat) := erase rs r

/-- the tail of `close_callback`: `if delayed_purge and not ongoing_reads: purge` -/
def afterClose (s : St) (k : String) : St :=
  match find? s.ds k with
  | none => s
  | some d => if d.delayed && d.readers.isEmpty then purge s k else s

/-- `Manager.close_callback(key, rdid)`; rdid = "" is the writer -/
def closeCb (s : St) (k : String) (rdid : String) : St × CloseOut :=
  match find? s.ds k with
  | none => (s, .keyError)
  | some d =>
    if rdid = "" then
      if d.status ≠ .created then (s, .valueError)
      else (afterClose { s with ds := set s.ds k { d with status := .inMemory } } k, .ok)
    else
      if d.status ≠ .inMemory then (s, .valueError)
      else (afterClose { s with ds := set s.ds k { d with readers := eraseReader d.readers rdid } } k, .ok)

/-- `Manager.page_in(key)` (the caller has checked `size ≤ free`) -/
def pageIn (s : St) (k : String) (d : Dataset) : St :=
  { s with ds := set s.ds k { d with status := .pagedIn },
           free := s.free - d.size,
           jobs := s.jobs ++ [{ id := s.nextJob, kind := .inn, key := k, gen := d.gen, size := d.size, io := none }],
           nextJob := s.nextJob + 1 }

inductive GetOut
  | granted (size : Nat) (rdid : String) (deser : String)
  | wait | keyError | noUuid
deriving DecidableEq, Repr

def firstFresh (rs : List (String × Nat)) : List String → Option String
  | [] => none
  | c :: cs => if (find? rs c).isSome then firstFresh rs cs else some c

/-- `Manager.get(key)` -/
def get (s : St) (k : String) (t : Nat) (cands : List String) : St × GetOut :=
  match find? s.ds k with
  | none => (s, .keyError)
  | some d =>
    match d.status with
    | .created | .pagedIn | .pagingOut => (s, .wait)
    | .onDisk =>
      if d.size > s.free then (pageOutAtLeast s (d.size - s.free) t, .wait)
      else (pageIn s k d, .wait)
    | .inMemory =>
      match firstFresh d.readers cands with
      | none => (s, .noUuid)
      | some r =>
        ({ s with ds := set s.ds k { d with readers := d.readers ++ [(r, t)],
                                            first := if d.first = 0 then t else d.first,
                                            last := t } },
         .granted d.size r d.deser)

/-! ### the client's side of `/dev/shm` and the disk jobs -/

inductive WriteOut | ok | exists | invalid
deriving DecidableEq, Repr

/-- `AllocatedBuffer(shmid, l, create=True)` + filling the buffer: the OS creates the segment if
the name is free (`SharedMemory(create=True, size=0)` raises before anything is created). Ghost: remember the
token in the dataset stored under the key. -/
def cwrite (s : St) (k : String) (size tok : Nat) : St × WriteOut :=
  if size = 0 then (s, .invalid) else
  match find? s.segs k with
  | some _ => (s, .exists)
  | none =>
    let ds := match find? s.ds k with
      | some d => set s.ds k { d with wrote := some tok }
      | none => s.ds
    ({ s with segs := s.segs ++ [(k, { size := size, data := tok })], ds := ds }, .ok)

def findJob : List Job → Nat → Option Job
  | [], _ => none
  | j :: js, id => if j.id = id then some j else findJob js id

/-- ids are unique (a counter), so "the job with this id" = "every job with this id" -/
def setJobIo (js : List Job) (id : Nat) (r : Bool) : List Job :=
  js.map (fun j => if j.id = id then { j with io := some r } else j)

def eraseJob (js : List Job) (id : Nat) : List Job := js.filter (fun j => j.id ≠ id)

inductive IoOut | done (ok : Bool) | noJob
deriving DecidableEq, Repr

/-- `chunk_size` of `Disk._page_in` -/
def chunkSize : Nat := 4096

def tokOf (data : Nat) : Nat := if data < 256 then data else (data - 256) % 256

/-- number of leading pattern bytes of a content of `size` bytes -/
def fillOf (data size : Nat) : Nat := if data = 0 then 0 else if data < 256 then size else (data - 256) / 256

def mkData (tok fill total : Nat) : Nat :=
  if tok = 0 || fill = 0 then 0 else if fill ≥ total then tok else 256 + 256 * fill + tok

/-- the first `m` bytes of a content `data` of `srcSize` bytes, copied to the start of a zeroed buffer of `total` bytes -/
def prefixData (data srcSize m total : Nat) : Nat := mkData (tokOf data) (min (fillOf data srcSize) m) total

/-- the I/O part of `Disk._page_out` / `Disk._page_in` for job `id`; `inj` is the fault the
harness injects (`ok` = none; page-out `fail`/`failLate` = the spill file cannot be opened; page-in `fail` = the
segment cannot be created, `failLate` = the file cannot be opened after the segment was created). Natural failures:
page-out of a missing segment, page-in of a dataset of size 0 or onto an existing segment (nothing changes), from a
missing file (the segment stays behind, zero-filled) or from a file LONGER than the dataset (the chunks that fit have
been copied when the slice assignment raises). A file SHORTER than the dataset is no failure: the loop ends at EOF and
the rest of the segment stays zero (`_page_in` literally). -/
def ioStep (s : St) (id : Nat) (inj : IoRes) : St × IoOut :=
  match findJob s.jobs id with
  | none => (s, .noJob)
  | some j =>
    if j.io.isSome then (s, .noJob) else
    match j.kind with
    | .out =>
      if inj ≠ .ok then ({ s with jobs := setJobIo s.jobs id false }, .done false) else
      match find? s.segs j.key with
      | none => ({ s with jobs := setJobIo s.jobs id false }, .done false)
      | some g => ({ s with files := put s.files j.key g, segs := erase s.segs j.key,
                            jobs := setJobIo s.jobs id true }, .done true)
    | .inn =>
      if inj = .fail || j.size == 0 then ({ s with jobs := setJobIo s.jobs id false }, .done false) else
      match find? s.segs j.key with
      | some _ => ({ s with jobs := setJobIo s.jobs id false }, .done false)
      | none =>
        match (if inj = .failLate then none else find? s.files j.key) with
        | none => ({ s with segs := s.segs ++ [(j.key, { size := j.size, data := 0 })],
                            jobs := setJobIo s.jobs id false }, .done false)
        | some f =>
          if f.size = j.size
          then ({ s with segs := s.segs ++ [(j.key, { size := j.size, data := f.data })],
                         jobs := setJobIo s.jobs id true }, .done true)
          else if f.size < j.size
          then ({ s with segs := s.segs ++ [(j.key, { size := j.size, data := prefixData f.data f.size f.size j.size })],
                         jobs := setJobIo s.jobs id true }, .done true)
          else ({ s with segs := s.segs ++ [(j.key, { size := j.size,
                                                      data := prefixData f.data f.size (chunkSize * (j.size / chunkSize)) j.size })],
                         jobs := setJobIo s.jobs id false }, .done false)

/-- A purge request served by the main loop WHILE the writer thread of page-out job `id` is inside `Disk._page_out`,
between writing the file and unlinking the segment (the only window of a disk job in which the server thread can
interleave with an effect: attach and unlink are by name). If the segment cannot be attached the job fails before that
window exists and nothing interleaves (= `ioStep`). -/
def ioMidPurge (s : St) (id : Nat) (k : String) : St × IoOut :=
  match findJob s.jobs id with
  | none => (s, .noJob)
  | some j =>
    if j.io.isSome || j.kind != .out then (s, .noJob) else
    match find? s.segs j.key with
    | none => ({ s with jobs := setJobIo s.jobs id false }, .done false)
    | some g =>
      let s1 := purge { s with files := put s.files j.key g } k
      match find? s1.segs j.key with
      | some _ => ({ s1 with segs := erase s1.segs j.key, jobs := setJobIo s1.jobs id true }, .done true)
      | none => ({ s1 with jobs := setJobIo s1.jobs id false }, .done false)

/-- `ds.status = st` inside a callback: acts on the captured object -/
def setStatusIfSame (ds : List (String × Dataset)) (k : String) (gen : Nat) (st : Status) : List (String × Dataset) :=
  match find? ds k with
  | some d => if d.gen = gen then set ds k { d with status := st } else ds
  | none => ds

/-- `pageout_count -= 1; if pageout_count == 0: pageout_all.release()` -/
def decCount (s : St) : St :=
  { s with count := s.count - 1, lock := if s.count - 1 = 0 then false else s.lock }

inductive CbOut | done | noJob
deriving DecidableEq, Repr

/-- the `callback(ok)` closures of `Manager.page_out` / `Manager.page_in` -/
def cbStep (s : St) (id : Nat) : St × CbOut :=
  match findJob s.jobs id with
  | none => (s, .noJob)
  | some j =>
    match j.io with
    | none => (s, .noJob)
    | some r =>
      let s1 := { s with jobs := eraseJob s.jobs id }
      match j.kind, r with
      | .out, true => (decCount { s1 with ds := setStatusIfSame s1.ds j.key j.gen .onDisk, free := s1.free + j.size }, .done)
      | .out, false => (decCount (purgeFailed s1 j.key), .done)
      | .inn, true => ({ s1 with ds := setStatusIfSame s1.ds j.key j.gen .inMemory }, .done)
      | .inn, false => (purgeFailed s1 j.key, .done)

/-! ### operations and histories -/

inductive Op
  | add (k : String) (size : Nat) (deser : String) (t : Nat)
  | cwrite (k : String) (size tok : Nat)
  | closeW (k : String)
  | get (k : String) (t : Nat) (cands : List String)
  | closeR (k : String) (rdid : String)
  | purge (k : String)
  | freeSpace
  | io (id : Nat) (inj : IoRes)
  | cb (id : Nat)
deriving Repr

inductive Out
  | add (o : AddOut)
  | write (o : WriteOut)
  | close (o : CloseOut)
  | get (o : GetOut)
  | purged
  | free (n : Nat)
  | io (o : IoOut)
  | cb (o : CbOut)
deriving Repr, DecidableEq

def step (s : St) : Op → St × Out
  | .add k size deser t => let (s', o) := add s k size deser t; (s', .add o)
  | .cwrite k size tok => let (s', o) := cwrite s k size tok; (s', .write o)
  | .closeW k => let (s', o) := closeCb s k ""; (s', .close o)
  | .get k t cands => let (s', o) := get s k t cands; (s', .get o)
  | .closeR k rdid => let (s', o) := closeCb s k rdid; (s', .close o)
  | .purge k => (purge s k, .purged)
  | .freeSpace => (s, .free s.free)
  | .io id inj => let (s', o) := ioStep s id inj; (s', .io o)
  | .cb id => let (s', o) := cbStep s id; (s', .cb o)

def run (s : St) : List Op → St
  | [] => s
  | op :: ops => run (step s op).1 ops

/-! ### the client layer: `cascade.shm.client._send_command`, `allocate`, `get`, the close lambdas -/

/-- what happens around one attempt of `_send_command`: the steps the environment (other clients, the disk threads)
made since the previous attempt -- i.e. during `time.sleep(timeout_i)` --, the clock when the request is handled, and
the uuid candidates (for a `GetRequest`) -/
structure Attempt where
  env : List Op
  t : Nat
  cands : List String
deriving Repr

/-- result of a client call. `granted rdid`: the `AllocatedBuffer` whose `close()` sends `CloseCallback(key, rdid)`
(`rdid = ""` for the writer's buffer returned by `allocate`). `timeout` = `TimeoutError`, `conflict` = `ConflictError`,
the others = `ValueError(error)`. `outOfSchedule`: the schedule given to the model was too short (not an outcome). -/
inductive ClientOut
  | granted (rdid : String)
  | timeout | conflict | capacityExceeded | keyError | noUuid | outOfSchedule
deriving DecidableEq, Repr

/-- `timeout_i = 0.1`, `coeff = 1`: the pause between two attempts, in ms -/
def sleepMs : Nat := 100

/-- `timeout_sec: float = 60.0` of `allocate` / `get`, in ms -/
def defaultBudgetMs : Nat := 60000

/-- `_send_command`: `while timeout_sec > 0:` send the request; an answer other than `wait` ends the call; on `wait`
sleep `timeout_i`, `timeout_sec -= timeout_i`, `timeout_i = min(timeout_i, timeout_sec)`; `raise TimeoutError` when the
budget is used up. `ask` handles one request (`none` = the answer `wait`). Returns the state, the result and the number
of requests sent. -/
def sendLoop (ask : St → Attempt → St × Option ClientOut) : List Attempt → Nat → St → Nat → St × ClientOut × Nat
  | [], budget, s, n => (s, if budget = 0 then .timeout else .outOfSchedule, n)
  | a :: rest, budget, s, n =>
    if budget = 0 then (s, .timeout, n) else
    match ask (run s a.env) a with
    | (s', some r) => (s', r, n + 1)
    | (s', none) => sendLoop ask rest (budget - min sleepMs budget) s' (n + 1)

def askAdd (k : String) (size : Nat) (deser : String) (s : St) (a : Attempt) : St × Option ClientOut :=
  match add s k size deser a.t with
  | (s', .wait) => (s', none)
  | (s', .granted) => (s', some (.granted ""))
  | (s', .conflict) => (s', some .conflict)
  | (s', .capacityExceeded) => (s', some .capacityExceeded)

def askGet (k : String) (s : St) (a : Attempt) : St × Option ClientOut :=
  match get s k a.t a.cands with
  | (s', .wait) => (s', none)
  | (s', .granted _ r _) => (s', some (.granted r))
  | (s', .keyError) => (s', some .keyError)
  | (s', .noUuid) => (s', some .noUuid)

/-- `client.allocate(key, l, deser_fun, timeout_sec)` up to the creation of the segment (which is `cwrite`) -/
def clientAlloc (s : St) (k : String) (size : Nat) (deser : String) (budget : Nat) (sched : List Attempt) : St × ClientOut × Nat :=
  sendLoop (askAdd k size deser) sched budget s 0

/-- `client.get(key, timeout_sec)` -/
def clientGet (s : St) (k : String) (budget : Nat) (sched : List Attempt) : St × ClientOut × Nat :=
  sendLoop (askGet k) sched budget s 0

/-- `AllocatedBuffer.close()` of a buffer obtained with result `granted rdid`: one `CloseCallback(key, rdid)`; the
server never answers `wait` to it, so `_send_command` sends exactly one request -/
def clientClose (s : St) (k rdid : String) : St × CloseOut := closeCb s k rdid

end EkwVerif.Shm
