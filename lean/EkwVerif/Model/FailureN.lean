/-
C05, any cluster shape: the controller of Model/Failure.lean with a LIST of executors (hosts), each with its own
listener queue, all sending into one network towards the controller. Executors do not talk to each other in this model
(transfers between data servers are C07); what matters for C05 is who reports a failure, who is told to shut down, and
who tears down.

Steps: `tick i` (executor i runs one `recv_loop` iteration), `deliver` (everything in flight reaches the controller's
listener), `lose` (everything in flight is LOST: the frames of a sender that has left its loop are not retried — known
finding C06-exit-unretried), `ctrl` (one iteration of the controller's loop; when it ends the run, `Bridge.shutdown`
sends ExecutorShutdown to every host still registered).
-/
import EkwVerif.Model.Failure
namespace EkwVerif.Failure

structure Node where
  exec : ExecSt
  inbox : List EMsg          -- the executor's listener queue (from its workers and from the controller)
deriving DecidableEq, Repr

structure SysN where
  nodes : List Node
  net : List CMsg            -- sent by some executor, not yet at the controller
  ctrlInbox : List CMsg
  ctrl : Ctrl
  delivered : List CMsg      -- ghost: everything the controller has ever read
deriving DecidableEq, Repr

/-- one `recv_loop` iteration of one executor (drains its queue); a terminating executor has left its loop -/
def tickNode (t : HealthTable) (n : Node) : Node × List CMsg :=
  if n.exec.terminating then (n, []) else
  let r := tick t n.exec n.inbox
  ({ exec := r.1, inbox := [] }, r.2.filterMap EOut.ctrl?)

def execTickN (t : HealthTable) (s : SysN) (i : Nat) : SysN :=
  match s.nodes[i]? with
  | none => s
  | some n => { s with nodes := s.nodes.set i (tickNode t n).1, net := s.net ++ (tickNode t n).2 }

def deliverN (s : SysN) : SysN := { s with ctrlInbox := s.ctrlInbox ++ s.net, net := [] }

/-- the network loses everything in flight -/
def loseN (s : SysN) : SysN := { s with net := [] }

/-- `Bridge.shutdown`: ExecutorShutdown to every host still registered with the sender -/
def shutdownTo (hosts : List String) (n : Node) : Node :=
  if hosts.contains n.exec.host then { n with inbox := n.inbox ++ [.executorShutdown] } else n

def endRunN (s : SysN) (c : Ctrl) (st : CtrlStatus) (calls : Nat) : SysN :=
  { s with ctrl := { c with status := st, shutdownCalls := c.shutdownCalls + calls, shutdownSent := c.shutdownSent ++ c.hosts },
           ctrlInbox := [],
           delivered := s.delivered ++ s.ctrlInbox,
           nodes := s.nodes.map (shutdownTo c.hosts) }

def ctrlStepN (s : SysN) : SysN :=
  match s.ctrl.status with
  | .running =>
    if !awaitable s.ctrl then endRunN s s.ctrl .endedOk 1
    else
      let sc := scanBatch s.ctrl.hosts s.ctrlInbox
      if sc.reason then endRunN s { s.ctrl with hosts := sc.hosts } .endedErr 2
      else
        let c' := sc.events.foldl notifyOne { s.ctrl with hosts := sc.hosts }
        { s with ctrl := c', ctrlInbox := [], delivered := s.delivered ++ s.ctrlInbox }
  | _ => s

inductive StepN
  | tick (i : Nat) | deliver | lose | ctrl
deriving DecidableEq, Repr

def stepN (t : HealthTable) (s : SysN) : StepN → SysN
  | .tick i => execTickN t s i
  | .deliver => deliverN s
  | .lose => loseN s
  | .ctrl => ctrlStepN s

def runN (t : HealthTable) (s : SysN) (sched : List StepN) : SysN := sched.foldl (stepN t) s

end EkwVerif.Failure
