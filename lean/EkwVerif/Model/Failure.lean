/-
Model of the failure-handling decision logic of cascade (property C05):

  * `workerBody`     : `executor/runner/entrypoint.py::execute_sequence` inside a forked worker:
                       `Exception` → `TaskFailure` message, the worker stays alive;
                       `SystemExit` / other `BaseException` / a signal → the process is gone with an
                       exit code and NO message.
  * `healthcheck`    : `executor/executor.py::Executor.healthcheck` as a function of the child exit
                       codes, interpreted through a `HealthTable` (generated from the source by the
                       `health` translator: which predicate decides "failed", does the branch `raise`).
  * `terminateWith`  : `Executor.terminate` as a PROGRAM against an explicit environment `Os` (guard `terminating`;
                       per worker: WorkerShutdown, bounded join, kill if still alive; shm server: shutdown command with a
                       timeout, bounded join, kill if it did not answer or is still alive; data server: kill if alive).
                       What the children / the OS do in reaction is NOT built into the program: it is the `Os` argument
                       (`posix` = the standard one; `terminate := terminateWith posix` is what `tick` uses), and the
                       teardown theorems state what they need of it as hypotheses.
  * `ShmEntry`, `shmShutdown`, `shmDies` : `shm/server.py::entrypoint` + `LocalServer.start/atexit/__init__` as far
                       as the END of the server process goes (which ways out of the request loop there are, whether
                       the exit handler runs on each of them, exit code), interpreted through a table generated
                       from the source by the `shm_entry` translator.
  * `tick`, `tickEnv`: one iteration of `Executor.recv_loop`: forward failures, `break` on
                       ExecutorShutdown, healthcheck unless terminating, on any exception
                       `ExecutorFailure` + `terminate`; `tickEnv` adds the two inputs of the environment: heartbeat
                       due (registration re-sent by a healthy healthcheck), `sender.maybe_retry()` raises.
  * `scanBatch`, `recvEvents`, `shutdownLoop` : `executor/bridge.py::Bridge.recv_events / shutdown`.
  * `runLoop`        : `controller/impl.py::run` with the scheduler abstracted to "tasks remaining" and
                       "requested outputs still None" (`has_computable or has_awaitable`),
                       `finally: bridge.shutdown()`.
  * `Sys`, `execTick`, `deliver`, `ctrlStep` : one executor + network + controller composed in rounds.

No Mathlib. Everything is total and computable (the line-protocol driver runs it).
-/
namespace EkwVerif.Failure

/-! ## health table (shape of `Executor.healthcheck`) -/

/-- which exit codes a branch of `healthcheck` treats as "failed" -/
inductive FailPred
  | exited      -- `exitcode is not None`
  | nonzero     -- `exitcode is not None and exitcode != 0`
  | never       -- the child class is not checked at all
deriving DecidableEq, Repr

inductive ChildClass | worker | shm | dataServer
deriving DecidableEq, Repr

structure HealthRow where
  child : ChildClass
  pred : FailPred
  raises : Bool          -- the branch really `raise`s (a bare `ValueError(...)` expression does not)
deriving DecidableEq, Repr

structure HealthTable where
  rows : List HealthRow
  workerNoneRaises : Bool   -- branch `if e is None` (worker never started)
deriving DecidableEq, Repr

def FailPred.holds : FailPred → Option Int → Bool
  | .exited, c => c.isSome
  | .nonzero, some c => c != 0
  | .nonzero, none => false
  | .never, _ => false

def rowFails (r : HealthRow) (code : Option Int) : Bool := r.raises && r.pred.holds code

def classFails (t : HealthTable) (c : ChildClass) (code : Option Int) : Bool :=
  t.rows.any (fun r => r.child == c && rowFails r code)

/-- side condition of the detection theorems: every child class has a branch that raises as soon as
the child has exited with whatever code, and the never-started branch raises -/
def allRaise (t : HealthTable) : Bool :=
  [ChildClass.worker, .shm, .dataServer].all
    (fun c => t.rows.any (fun r => r.child == c && r.raises && r.pred == .exited))
  && t.workerNoneRaises

/-! ## executor state -/

/-- a worker process handle as the executor sees it (`self.workers[w]`) -/
inductive Handle
  | notStarted                                   -- `None`
  | proc (exit : Option Int) (stuck : Bool)      -- exit code (none = alive); `stuck`: alive but will never read its socket again
deriving DecidableEq, Repr

/-- how a LIVE shm server will react to the executor's shutdown command (an attribute of the environment, carried in
the state like `stuck` of a worker handle) -/
inductive ShmMode
  | ok        -- answers, leaves its request loop, exits
  | mute      -- never answers: frozen, or killed between reading the command and answering it
  | lingers   -- answers, but does not exit within the grace
deriving DecidableEq, Repr

structure ExecSt where
  host : String
  workers : List (String × Handle)     -- in dict order
  shm : Option Int                     -- exit code of the shm server (none = alive)
  data : Option Int                    -- exit code of the data server (none = alive)
  terminating : Bool
  segments : List String := []         -- /dev/shm segments of this host's shm server
  shmMode : ShmMode := .ok             -- reaction of the shm server (if alive) to the shutdown command
deriving DecidableEq, Repr

inductive HealthErr
  | workerNotAlive (w : String) | workerFailed (w : String) | shmFailed | dataFailed
deriving DecidableEq, Repr

def workerCheck (t : HealthTable) : String × Handle → Option HealthErr
  | (w, .notStarted) => if t.workerNoneRaises then some (.workerNotAlive w) else none
  | (w, .proc code _) => if classFails t .worker code then some (.workerFailed w) else none

/-- `Executor.healthcheck` (the heartbeat part is not modelled): `some e` = raises -/
def healthcheck (t : HealthTable) (st : ExecSt) : Option HealthErr :=
  match st.workers.findSome? (workerCheck t) with
  | some e => some e
  | none =>
    if classFails t .shm st.shm then some .shmFailed
    else if classFails t .dataServer st.data then some .dataFailed
    else none

/-! ## messages -/

/-- what reaches the controller's listener -/
inductive CMsg
  | published (ds : String) (completes : Bool)   -- DatasetPublished; `completes`: last output of its task, not a transmit confirmation
  | payload (ds : String) (val : Int)            -- DatasetTransmitPayload
  | ack
  | registration (host : String)
  | taskFailure
  | executorFailure (host : String)
  | transmitFailure
  | executorExit (host : String)
  | unsupported                                  -- TaskSequence | DatasetPurge | DatasetTransmitCommand | ExecutorShutdown
deriving DecidableEq, Repr

/-- `ToShutdown | Unsupported` of bridge.py: the message makes `recv_events` shut down and raise -/
def CMsg.isFailure : CMsg → Bool
  | .taskFailure | .executorFailure _ | .transmitFailure | .executorExit _ | .unsupported => true
  | _ => false

def CMsg.isEvent : CMsg → Bool
  | .published _ _ | .payload _ _ => true
  | _ => false

/-- what reaches the executor's listener -/
inductive EMsg
  | taskSequence (w : String)
  | ack
  | purge
  | executorShutdown
  | taskFailure (w : String)
  | published (ds : String) (completes : Bool)
  | transmitFailure
  | other                                         -- anything else: `raise TypeError(m)`
deriving DecidableEq, Repr

inductive TermAct
  | workerShutdown (w : String) | workerJoin (w : String) | workerKill (w : String)
  | shmShutdown | shmJoin | shmKill | dataKill
deriving DecidableEq, Repr

inductive EOut
  | toController (m : CMsg)
  | toWorker (w : String)
  | act (a : TermAct)
deriving DecidableEq, Repr

/-! ## worker body -/

inductive TaskOutcome
  | returns
  | raisesException            -- any subclass of `Exception`
  | systemExit (code : Int)    -- `sys.exit(n)`
  | baseException              -- KeyboardInterrupt, GeneratorExit ...: uncaught, exit code 1
  | killed (sig : Nat)         -- signal: exit code -sig
deriving DecidableEq, Repr

structure WorkerRes where
  msgs : List EMsg           -- messages sent to the executor (publications before the crash point, then maybe TaskFailure)
  exit : Option Int          -- none: the worker process is still alive and serving
deriving DecidableEq, Repr

/-- `execute_sequence` + process semantics. `pubs`: DatasetPublished already sent before the crash point -/
def workerBody (w : String) (pubs : List EMsg) : TaskOutcome → WorkerRes
  | .returns => ⟨pubs, none⟩
  | .raisesException => ⟨pubs ++ [.taskFailure w], none⟩
  | .systemExit c => ⟨pubs, some c⟩
  | .baseException => ⟨pubs, some 1⟩
  | .killed s => ⟨pubs, some (-(s : Int))⟩

/-! ## terminate -/

/-- The ENVIRONMENT of `Executor.terminate`: how the children and the OS react to the executor's teardown actions.
Nothing in here is code of the repository. `terminateWith` is the executor's PROGRAM (which action it takes next,
given what it observes: `is_alive()` after a bounded `join`, an answer or a timeout of the shm shutdown command);
what the teardown theorems need of the environment are explicit hypotheses on an `Os` (Props/C05.lean: `KillWorks`,
`ShmConforms`). -/
structure Os where
  /-- exit code of a LIVE worker after `WorkerShutdown` was sent and `join(worker_shutdown_grace_s)` has returned;
  argument: is the worker stuck (it will never read its socket again); `none`: still alive -/
  workerExit : Bool → Option Int
  /-- exit code the executor sees after `kill()` + `join()`; `none`: the process is still there -/
  killed : Option Int
  /-- does the shm server answer the shutdown command within `shm_shutdown_grace_s` -/
  shmReply : ShmMode → Bool
  /-- after an answered shutdown command and `join(shm_shutdown_grace_s)`: segments left, exit code (`none`: still alive) -/
  shmExit : ShmMode → List String → List String × Option Int

/-- the standard environment: a worker that is not stuck reads the shutdown and exits with 0; SIGKILL ends any process;
a shm server in mode `ok` answers, unlinks and exits with 0 (= `shmShutdown` on the table generated from
shm/server.py: theorem `c05_terminate_matches_shm_server`), a mute one never answers, a lingering one never exits -/
def posix : Os :=
  { workerExit := fun stuck => if stuck then none else some 0,
    killed := some (-9),
    shmReply := fun m => m != .mute,
    shmExit := fun m segs => match m with | .ok => ([], some 0) | _ => (segs, none) }

/-- per worker: `callback(WorkerShutdown)`, `proc.join(grace)`, `if proc.is_alive(): proc.kill(); proc.join()` -/
def termWorkerWith (os : Os) : String × Handle → List TermAct × (String × Handle)
  | (w, .notStarted) => ([], (w, .notStarted))
  | (w, .proc (some c) s) => ([.workerShutdown w, .workerJoin w], (w, .proc (some c) s))
  | (w, .proc none s) =>
    match os.workerExit s with
    | some c => ([.workerShutdown w, .workerJoin w], (w, .proc (some c) s))
    | none => ([.workerShutdown w, .workerJoin w, .workerKill w, .workerJoin w], (w, .proc os.killed s))

/-- shm server: `if is_alive(): try: shm_client.shutdown(grace); join(grace) except: ..; if is_alive(): kill(); join()`.
Returns actions, exit code afterwards, segments afterwards. -/
def termShmWith (os : Os) (st : ExecSt) : List TermAct × Option Int × List String :=
  match st.shm with
  | some c => ([], some c, st.segments)
  | none =>
    if os.shmReply st.shmMode then
      let r := os.shmExit st.shmMode st.segments
      match r.2 with
      | some c => ([.shmShutdown, .shmJoin], some c, r.1)
      | none => ([.shmShutdown, .shmJoin, .shmKill, .shmJoin], os.killed, r.1)
    else ([.shmShutdown, .shmKill, .shmJoin], os.killed, st.segments)   -- the command times out: no join before the kill

/-- data server: `if is_alive(): kill()` -/
def termDataWith (os : Os) (st : ExecSt) : List TermAct × Option Int :=
  match st.data with
  | some c => ([], some c)
  | none => ([.dataKill], os.killed)

/-- `Executor.terminate` as a program against the environment `os` -/
def terminateWith (os : Os) (st : ExecSt) : List TermAct × ExecSt :=
  if st.terminating then ([], st) else
  let ws := st.workers.map (termWorkerWith os)
  let sh := termShmWith os st
  let da := termDataWith os st
  (ws.flatMap (·.1) ++ sh.1 ++ da.1,
   { st with workers := ws.map (·.2), shm := sh.2.1, data := da.2, segments := sh.2.2, terminating := true })

/-- `Executor.terminate` in the standard environment (what `tick` uses) -/
def terminate (st : ExecSt) : List TermAct × ExecSt := terminateWith posix st

/-! ## the shm server process (`cascade.shm.server.entrypoint`, `LocalServer`) -/

/-- the ways out of `LocalServer.start()` -/
inductive StartExit
  | returned     -- the request loop is left by `break` (ShutdownCommand)
  | raised       -- an `Exception` escapes the request loop: `receive()`/`api.deser` on an undecodable datagram,
                 -- `respond()`, a socket closed under `recvfrom` — all outside the per-request `try`
deriving DecidableEq, Repr

/-- what `entrypoint` does after `server.start()` was left in one way -/
structure EntryRow where
  exit : StartExit
  goesOn : Bool        -- `entrypoint` ends normally on this path (for `raised`: the exception is caught and not re-raised):
                       -- process exit code 0, otherwise 1
  atexit : Bool        -- `server.atexit(..)` is executed on this path
deriving DecidableEq, Repr

/-- shape of cascade/shm/server.py (generated from its AST: Gen/ShmEntry.lean) -/
structure ShmEntry where
  rows : List EntryRow
  shutdownBreaks : Bool      -- `LocalServer.start`: the ShutdownCommand branch leaves the loop
  sigtermHandler : Bool      -- `LocalServer.__init__`: `signal.signal(SIGTERM, self.atexit)`
  sigintHandler : Bool       -- same for SIGINT
  atexitUnlinks : Bool       -- `LocalServer.atexit` calls `self.manager.atexit()` unconditionally (then closes the socket)
deriving DecidableEq, Repr

/-- the exit handler has run (and has unlinked every segment: Props/C05Shm.lean) once `start()` was left by `x` -/
def ShmEntry.cleansOn (e : ShmEntry) (x : StartExit) : Bool :=
  e.atexitUnlinks && e.rows.any (fun r => r.exit == x && r.atexit)

/-- exit code of the server process once `start()` was left by `x` -/
def ShmEntry.codeOn (e : ShmEntry) (x : StartExit) : Int :=
  if e.rows.any (fun r => r.exit == x && r.goesOn) then 0 else 1

/-- side condition of the segment theorems: the exit handler runs on EVERY path out of `server.start()`, it unlinks,
the shutdown command leaves the loop, and both signal handlers are the exit handler -/
def entryClean (e : ShmEntry) : Bool :=
  [StartExit.returned, .raised].all e.cleansOn && e.shutdownBreaks && e.sigtermHandler && e.sigintHandler

/-- the shm server is sent the ShutdownCommand (`Executor.terminate`, shm alive): segments left, exit code
(`none`: the server keeps serving, `shm_process.join()` would block) -/
def shmShutdown (e : ShmEntry) (segs : List String) : List String × Option Int :=
  if e.shutdownBreaks then (if e.cleansOn .returned then [] else segs, some (e.codeOn .returned))
  else (segs, none)

/-- how the shm server can die while the executor lives -/
inductive ShmDeath
  | sigterm | sigint     -- a handled signal
  | sigkill              -- cannot be handled
  | loopException        -- the request loop raises (e.g. ONE undecodable datagram on the shm port)
deriving DecidableEq, Repr

/-- a handled signal: the handler (`LocalServer.atexit`) unlinks and closes the socket under the pending `recvfrom`,
which then raises: `start()` is left by `raised`. Without a handler the default action kills the process. -/
def shmSignalled (e : ShmEntry) (st : ExecSt) (handler : Bool) (signo : Int) : ExecSt :=
  if handler then
    { st with shm := some (e.codeOn .raised),
              segments := if e.atexitUnlinks then [] else st.segments }
  else { st with shm := some (-signo) }

/-- SIGTERM/SIGINT run the handler (`Manager.atexit` unlinks everything, exit code 0); SIGKILL cannot be handled;
an exception out of the request loop is caught by `entrypoint`, which runs the exit handler and returns (exit code 0) —
all as far as the generated table `e` says so -/
def shmDies (e : ShmEntry) (st : ExecSt) : ShmDeath → ExecSt
  | .sigterm => shmSignalled e st e.sigtermHandler 15
  | .sigint => shmSignalled e st e.sigintHandler 2
  | .sigkill => { st with shm := some (-9) }
  | .loopException =>
    { st with shm := some (e.codeOn .raised), segments := if e.cleansOn .raised then [] else st.segments }

/-! ## one iteration of `Executor.recv_loop` -/

inductive LoopStatus | done | broke | raised
deriving DecidableEq, Repr

def workerAlive (st : ExecSt) (w : String) : Bool :=
  match st.workers.lookup w with
  | some (.proc none _) => true
  | _ => false

/-- the `for m in self.mlistener.recv_messages(...)` loop -/
def processMsgs (st : ExecSt) : List EMsg → ExecSt × List EOut × LoopStatus
  | [] => (st, [], .done)
  | m :: rest =>
    match m with
    | .taskSequence w =>
      if workerAlive st w then
        let r := processMsgs st rest
        (r.1, .toWorker w :: r.2.1, r.2.2)
      else (st, [], .raised)
    | .ack => processMsgs st rest
    | .purge => processMsgs st rest
    | .executorShutdown =>
      let t := terminate st
      (t.2, .toController (.executorExit st.host) :: t.1.map .act, .broke)
    | .taskFailure _ =>
      let r := processMsgs st rest
      (r.1, .toController .taskFailure :: r.2.1, r.2.2)
    | .published ds c =>
      let r := processMsgs st rest
      (r.1, .toController (.published ds c) :: r.2.1, r.2.2)
    | .transmitFailure =>
      let r := processMsgs st rest
      (r.1, .toController .transmitFailure :: r.2.1, r.2.2)
    | .other => (st, [], .raised)

/-- body of `while not self.terminating:` — messages, then healthcheck unless terminating; any
exception: `ExecutorFailure` to the controller, then `terminate` -/
def tick (t : HealthTable) (st : ExecSt) (inbox : List EMsg) : ExecSt × List EOut :=
  if st.terminating then (st, []) else
  let r := processMsgs st inbox
  let failed : Bool :=
    match r.2.2 with
    | .raised => true
    | _ => !r.1.terminating && (healthcheck t r.1).isSome
  if failed then
    let tm := terminate r.1
    (tm.2, r.2.1 ++ [.toController (.executorFailure st.host)] ++ tm.1.map .act)
  else (r.1, r.2.1)

/-- `tick` with the two inputs of the environment that `tick` fixes to `false`: the heartbeat watcher reports a breach
(a `healthcheck` that found nothing wrong then re-sends the registration as heartbeat), and `sender.maybe_retry()`
raises because a message to the controller ran out of its retry budget (C06). The for-loop's exception skips both;
`maybe_retry` runs even after a clean ExecutorShutdown (`break`), healthcheck and heartbeat do not. -/
def tickEnv (t : HealthTable) (st : ExecSt) (inbox : List EMsg) (hbDue retryRaises : Bool) : ExecSt × List EOut :=
  if st.terminating then (st, []) else
  let r := processMsgs st inbox
  let fail (out : List EOut) : ExecSt × List EOut :=
    let tm := terminate r.1
    (tm.2, out ++ [.toController (.executorFailure st.host)] ++ tm.1.map .act)
  match r.2.2 with
  | .raised => fail r.2.1
  | _ =>
    if !r.1.terminating && (healthcheck t r.1).isSome then fail r.2.1
    else
      let hb : List EOut := if !r.1.terminating && hbDue then [.toController (.registration st.host)] else []
      if retryRaises then fail (r.2.1 ++ hb) else (r.1, r.2.1 ++ hb)

def EOut.ctrl? : EOut → Option CMsg
  | .toController m => some m
  | _ => none

/-! ## controller side: `Bridge.recv_events`, `Bridge.shutdown` -/

def popHost (hosts : List String) : CMsg → List String
  | .executorExit h => hosts.filter (· != h)
  | .executorFailure h => hosts.filter (· != h)
  | _ => hosts

structure Scan where
  events : List CMsg
  reason : Bool
  hosts : List String
deriving DecidableEq, Repr

/-- one pass of `for message in self.mlistener.recv_messages(...)` (the loop does not stop at a failure) -/
def scanBatch (hosts : List String) (batch : List CMsg) : Scan :=
  { events := batch.filter CMsg.isEvent,
    reason := batch.any CMsg.isFailure,
    hosts := batch.foldl popHost hosts }

/-- the waiting loop of `Bridge.shutdown` after ExecutorShutdown has been sent: consume batches while
hosts remain; an exhausted stream = the 3 minute grace elapses. Returns the hosts that never answered
and the unread rest of the stream. -/
def shutdownLoop (hosts : List String) : List (List CMsg) → List String × List (List CMsg)
  | [] => (hosts, [])
  | b :: bs =>
    if hosts.isEmpty then ([], b :: bs)
    else shutdownLoop (b.foldl popHost hosts) bs

inductive RecvRes
  | events (ev : List CMsg) (hosts : List String) (rest : List (List CMsg))
  | raised (shutdownTo : List String) (hostsLeft : List String) (rest : List (List CMsg))
  | starved (hosts : List String)     -- nothing will ever arrive: the real loop polls forever
deriving Repr

/-- `Bridge.recv_events` over the stream of batches the listener will return -/
def recvEvents (hosts : List String) : List (List CMsg) → RecvRes
  | [] => .starved hosts
  | b :: bs =>
    let s := scanBatch hosts b
    if s.reason then
      let r := shutdownLoop s.hosts bs
      .raised s.hosts r.1 r.2
    else if !s.events.isEmpty then .events s.events s.hosts bs
    else recvEvents s.hosts bs

/-! ## controller: `impl.run` -/

inductive CtrlStatus | running | endedOk | endedErr | starved
deriving DecidableEq, Repr

structure Ctrl where
  status : CtrlStatus
  requested : List String            -- job.ext_outputs
  outputs : List (String × Int)      -- entries of `state.outputs` that are not None
  remaining : Nat                    -- tasks not yet known to be complete
  hosts : List String                -- executors still registered with the sender
  shutdownCalls : Nat                -- calls of `bridge.shutdown`
  shutdownSent : List String         -- hosts that were sent ExecutorShutdown (in order, with repetition)
deriving DecidableEq, Repr

def setOutput (o : List (String × Int)) (ds : String) (v : Int) : List (String × Int) :=
  (ds, v) :: o.filter (fun e => e.1 != ds)

/-- `notify` as far as C05 cares: completion bookkeeping and `state.outputs[ds] = payload` -/
def notifyOne (c : Ctrl) : CMsg → Ctrl
  | .published _ completes => if completes then { c with remaining := c.remaining - 1 } else c
  | .payload ds v => { c with outputs := setOutput c.outputs ds v }
  | _ => c

def missing (c : Ctrl) : Bool := c.requested.any (fun d => (c.outputs.lookup d).isNone)

/-- `has_computable(state) or has_awaitable(state)` -/
def awaitable (c : Ctrl) : Bool := c.remaining > 0 || missing c

/-- `Bridge.shutdown` on the given stream -/
def doShutdown (c : Ctrl) (stream : List (List CMsg)) : Ctrl × List (List CMsg) :=
  let r := shutdownLoop c.hosts stream
  ({ c with hosts := r.1, shutdownCalls := c.shutdownCalls + 1, shutdownSent := c.shutdownSent ++ c.hosts }, r.2)

/-- `impl.run`: loop, `finally: bridge.shutdown()`. `fuel` bounds the number of `recv_events` calls. -/
def runLoop : Nat → Ctrl → List (List CMsg) → Ctrl
  | 0, c, _ => c
  | fuel + 1, c, stream =>
    if !awaitable c then
      { (doShutdown c stream).1 with status := .endedOk }
    else
      match recvEvents c.hosts stream with
      | .starved hosts => { c with hosts := hosts, status := .starved }
      | .raised sentTo left rest =>
        -- recv_events has shut down itself, then raises; `finally` shuts down once more
        let c1 : Ctrl := { c with hosts := left, shutdownCalls := c.shutdownCalls + 1, shutdownSent := c.shutdownSent ++ sentTo }
        { (doShutdown c1 rest).1 with status := .endedErr }
      | .events ev hosts rest =>
        runLoop fuel (ev.foldl notifyOne { c with hosts := hosts }) rest

/-! ## one executor + network + controller in rounds -/

structure Sys where
  exec : ExecSt
  execInbox : List EMsg       -- executor's listener queue (from its workers and from the controller)
  net : List CMsg             -- sent by the executor, not yet at the controller
  ctrlInbox : List CMsg       -- controller's listener queue
  ctrl : Ctrl
  delivered : List CMsg       -- ghost: everything the controller has ever read
deriving Repr

/-- round 1: the executor's recv_loop iteration (drains its queue) -/
def execTick (t : HealthTable) (s : Sys) : Sys :=
  let r := tick t s.exec s.execInbox
  if s.exec.terminating then s else
  { s with exec := r.1, execInbox := [], net := s.net ++ r.2.filterMap EOut.ctrl? }

/-- round 2: delivery of everything in flight (bounded delay is C06's theorem) -/
def deliver (s : Sys) : Sys :=
  { s with ctrlInbox := s.ctrlInbox ++ s.net, net := [] }

/-- the controller ends: ExecutorShutdown goes to every host still registered -/
def endRun (s : Sys) (c : Ctrl) (st : CtrlStatus) (calls : Nat) : Sys :=
  { s with ctrl := { c with status := st, shutdownCalls := c.shutdownCalls + calls, shutdownSent := c.shutdownSent ++ c.hosts },
           ctrlInbox := [],
           delivered := s.delivered ++ s.ctrlInbox,
           execInbox := if c.hosts.contains s.exec.host then s.execInbox ++ [.executorShutdown] else s.execInbox }

/-- round 3: the controller's loop iteration: `recv_events` drains the listener queue, `notify`, loop test -/
def ctrlStep (s : Sys) : Sys :=
  match s.ctrl.status with
  | .running =>
    if !awaitable s.ctrl then endRun s s.ctrl .endedOk 1
    else
      let sc := scanBatch s.ctrl.hosts s.ctrlInbox
      if sc.reason then endRun s { s.ctrl with hosts := sc.hosts } .endedErr 2
      else
        let c' := sc.events.foldl notifyOne { s.ctrl with hosts := sc.hosts }
        { s with ctrl := c', ctrlInbox := [], delivered := s.delivered ++ s.ctrlInbox }
  | _ => s

inductive Step | tick | deliver | ctrl
deriving DecidableEq, Repr

def step (t : HealthTable) (s : Sys) : Step → Sys
  | .tick => execTick t s
  | .deliver => deliver s
  | .ctrl => ctrlStep s

def runSchedule (t : HealthTable) (s : Sys) (sched : List Step) : Sys := sched.foldl (step t) s

end EkwVerif.Failure
