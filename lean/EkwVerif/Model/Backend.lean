/-
Model of `earthkit.workflows.backends` (src/earthkit/workflows/backends/__init__.py,
arrayapi.py, xarray.py): the fifteen array operations and the way fluent `reduce` applies a
function marked `@batchable`.  Core Lean only.

Arrays are total: a rank, an extent per axis and a value per index, where an index is a function
`axis ↦ position`.  Values outside the extents are never inspected by the driver; the operations
are nevertheless defined on every index so that the theorems are plain equalities of arrays.

The element type `α` is a parameter and the arithmetic of one dtype is a record `Alg α`
(`add`, `mul`, `min`, …): the same definitions serve
  * `Alg.rat`   exact rationals (the reference semantics "no rounding, no overflow"),
  * `Alg.wrap`  NumPy's fixed-width integers (int64, int32, uint8, uint64: results wrap),
  * `Alg.bool`  NumPy's bool (`+` is or, `*` is and),
  * `Alg.f64`   IEEE-754 binary64 with NaN and ±inf and round-to-nearest-even after every
                operation (Model/F64.lean),
and the theorems say for which algebras a law holds (associativity of the dtype's `add` is a
hypothesis of `c15_sum_batchable`; it is proved for the first three and refuted for binary64).

One model serves both back ends: the array-API backend addresses an axis by number, the xarray
backend by dimension name; the harness translates the name into the position the dimension has
in the operand (that is all `dim=` means for values).  Where the back ends differ in WHETHER they
return a value (broadcasting rules, labelled coordinates, which keyword carries the axis) the
difference is in `Model/BackendRun.lean` (`errorOf`), not in the value semantics below.
-/

namespace EkwVerif.Backend

/-- an index: position along every axis (positions of axes ≥ rank are ignored) -/
abbrev Idx := Nat → Nat

namespace Idx
/-- replace the position along axis `a` -/
def set (i : Idx) (a v : Nat) : Idx := fun k => if k = a then v else i k
/-- insert a new axis `a` with position `v` (axes ≥ a move up by one) -/
def ins (i : Idx) (a v : Nat) : Idx := fun k => if k < a then i k else if k = a then v else i (k - 1)
/-- delete axis `a` (axes > a move down by one) -/
def del (i : Idx) (a : Nat) : Idx := fun k => if k < a then i k else i (k + 1)
end Idx

structure Arr (α : Type) where
  rank : Nat
  /-- extent along axis `k` (meaningful for `k < rank`) -/
  ext : Nat → Nat
  get : Idx → α

namespace Arr
variable {α : Type}
def scalar (v : α) : Arr α := ⟨0, fun _ => 0, fun _ => v⟩
/-- what the total functions return where the Python code raises (never printed: the driver
reports an error token whenever `errorOf` finds a reason) -/
def zero [Inhabited α] : Arr α := scalar default
/-- a vector, for examples -/
def vec [Inhabited α] (l : List α) : Arr α := ⟨1, fun _ => l.length, fun i => l.getD (i 0) default⟩
def shape (x : Arr α) : List Nat := (List.range x.rank).map x.ext
end Arr

/-- all indices of a `rank`-dimensional box, row-major (C order, like `ndarray.flatten`) -/
def idxs : Nat → (Nat → Nat) → List Idx
  | 0, _ => [fun _ => 0]
  | r + 1, ext => (List.range (ext 0)).flatMap fun j => (idxs r (fun k => ext (k + 1))).map (fun i => Idx.ins i 0 j)

/-- the elements in row-major order -/
def Arr.elems {α : Type} (x : Arr α) : List α := (idxs x.rank x.ext).map x.get

/-! ### the operations (names as in `Backend`) -/

inductive Op where
  | mean | std | max | min | sum | prod | var | stack | concat
  | add | subtract | multiply | divide | pow | take
  deriving DecidableEq, Repr

def Op.all : List Op :=
  [.mean, .std, .max, .min, .sum, .prod, .var, .stack, .concat, .add, .subtract, .multiply, .divide, .pow, .take]

/-- `some n`: the function takes exactly `n` array arguments (`@num_args(2)`, `take(array, …)`);
`none`: variadic (`*args`) -/
def Op.arity : Op → Option Nat
  | .add | .subtract | .multiply | .divide | .pow => some 2
  | .take => some 1
  | _ => none

/-- second positional argument of `take` (a 0-d index array and a NumPy integer scalar behave
like a Python int: the axis is removed) -/
inductive IndexArg where
  | int (i : Int)
  | seq (is : List Int)

/-- the `axis=` (array API) / position(s) of `dim=` (xarray) argument: absent, one axis, or a
tuple / list of axes (`axis=(0, 2)`, `dim=["d0", "d2"]`) -/
inductive AxisArg where
  | none
  | one (a : Int)
  | many (as : List Int)

/-- keyword arguments that matter for values; `take`'s `indices` rides along -/
structure Kw where
  axis : AxisArg := .none
  index : IndexArg := .int 0

/-! ### scalar level: the arithmetic of one dtype and what a reduction does to the values it sees -/

/-- the arithmetic of one dtype -/
structure Alg (α : Type) where
  add : α → α → α
  sub : α → α → α
  mul : α → α → α
  div : α → α → α
  pow : α → α → α
  min : α → α → α
  max : α → α → α
  /-- value of an empty sum -/
  zero : α
  /-- value of an empty product -/
  one : α
  /-- the element count as a value (divisor of `mean`) -/
  ofNat : Nat → α

section scalar
variable {α : Type}

/-- left fold without a unit (`d` only for the empty list) -/
def fold1 (op : α → α → α) (d : α) : List α → α
  | [] => d
  | x :: xs => xs.foldl op x

def vsum (A : Alg α) : List α → α := fold1 A.add A.zero
def vprod (A : Alg α) : List α → α := fold1 A.mul A.one
/-- (`min` / `max` of nothing raise in NumPy: `errorOf`) -/
def vmin (A : Alg α) : List α → α := fold1 A.min A.zero
def vmax (A : Alg α) : List α → α := fold1 A.max A.zero
def vmean (A : Alg α) (xs : List α) : α := A.div (vsum A xs) (A.ofNat xs.length)
/-- population variance (`ddof = 0`, the default of NumPy and xarray), computed as NumPy does:
mean, deviations, squares, mean -/
def vvar (A : Alg α) (xs : List α) : α :=
  vmean A (xs.map fun x => A.mul (A.sub x (vmean A xs)) (A.sub x (vmean A xs)))
/-- `std = sqrt ∘ var`.  The square root is a parameter: the theorems hold for every function
`sq` that is right on 0 and 1; the driver prints the radicand (`sq := id`) and the harness
takes the (correctly rounded) root of it. -/
def vstd (A : Alg α) (sq : α → α) (xs : List α) : α := sq (vvar A xs)

end scalar

/-! ### array level -/

/-- a negative axis / index counts from the end -/
def normAx (a : Int) (n : Nat) : Nat := if a < 0 then (a + n).toNat else a.toNat

section array
variable {α : Type} [Inhabited α]

/-- `xp.stack(args, axis=a)` / `XArrayBackend.stack(*args, dim=new, axis=a)` for equal shapes -/
def stack (a : Nat) (args : List (Arr α)) : Arr α :=
  let h := args.headD Arr.zero
  { rank := h.rank + 1
    ext := Idx.ins h.ext a args.length
    get := fun i => (args.getD (i a) Arr.zero).get (Idx.del i a) }

/-- `getattr(xp, name)(x, axis=a)` / `x.<name>(dim=…)` -/
def reduceAx (f : List α → α) (a : Nat) (x : Arr α) : Arr α :=
  { rank := x.rank - 1
    ext := Idx.del x.ext a
    get := fun i => f ((List.range (x.ext a)).map fun j => x.get (Idx.ins i a j)) }

/-- no `axis`/`dim`: reduction over all elements -/
def reduceAll (f : List α → α) (x : Arr α) : Arr α :=
  { rank := 0, ext := fun _ => 0, get := fun _ => f x.elems }

/-- the positions of the sub-box spanned by the axes `as` (row-major in the order given),
every other position as in `i` -/
def subIdxs (ext : Nat → Nat) : List Nat → Idx → List Idx
  | [], i => [i]
  | a :: as, i => (List.range (ext a)).flatMap fun j => subIdxs ext as (Idx.set i a j)

/-- insert the (ascending) axes `as` into an index of the reduced array -/
def expandIdx (i : Idx) (as : List Nat) : Idx := as.foldl (fun i a => Idx.ins i a 0) i

/-- remove the (ascending) axes `as` from the extents -/
def delAxes (ext : Nat → Nat) (as : List Nat) : Nat → Nat := as.reverse.foldl (fun e a => Idx.del e a) ext

/-- `axis=(a₁,…,aₘ)` / `dim=[…]`: reduction over several axes at once (`as` ascending, distinct) -/
def reduceAxes (f : List α → α) (as : List Nat) (x : Arr α) : Arr α :=
  { rank := x.rank - as.length
    ext := delAxes x.ext as
    get := fun i => f ((subIdxs x.ext as (expandIdx i as)).map x.get) }

/-- insertion sort of axis numbers (ascending) -/
def sortAxes : List Nat → List Nat
  | [] => []
  | a :: as => let s := sortAxes as; s.takeWhile (· < a) ++ a :: s.dropWhile (· < a)

def reduceKw (f : List α → α) (axis : AxisArg) (x : Arr α) : Arr α :=
  match axis with
  | .none => reduceAll f x
  | .one a => reduceAx f (normAx a x.rank) x
  | .many as => reduceAxes f (sortAxes (as.map fun a => normAx a x.rank)) x

/-- `_xp_multi_args` / `XArrayBackend.multi_arg_function`: one argument → reduce it with the
given kwargs; several → stack on a new leading axis and reduce that axis (the caller's `axis`
/ `dim` is overwritten). -/
def multiArg (f : List α → α) (axis : AxisArg) : List (Arr α) → Arr α
  | [x] => reduceKw f axis x
  | args => reduceAx f 0 (stack 0 args)

def axisOne : AxisArg → Int
  | .one a => a
  | _ => 0

/-- `stack(*args, axis=a)`; default axis 0; negative axes count from the end of the RESULT -/
def stackKw (axis : AxisArg) (args : List (Arr α)) : Arr α :=
  stack (normAx (axisOne axis) ((args.headD Arr.zero).rank + 1)) args

/-- position `j` in the concatenation of segments `(length, accessor)`.  The last segment is
not bounded (positions beyond the end are never inspected; this makes `concat [x] = x` and the
batch law hold as equalities). -/
def catAt : List (Nat × (Nat → α)) → Nat → α
  | [], _ => default
  | (n, g) :: rest, j => if rest.isEmpty || decide (j < n) then g j else catAt rest (j - n)

def sumExt (a : Nat) (args : List (Arr α)) : Nat := (args.map (fun x => x.ext a)).sum

/-- `xp.concat(args, axis=a)` / `xr.concat(args, dim=…)` along an existing axis -/
def concat (a : Nat) (args : List (Arr α)) : Arr α :=
  let h := args.headD Arr.zero
  { rank := h.rank
    ext := Idx.set h.ext a (sumExt a args)
    get := fun i => catAt (args.map fun x => (x.ext a, fun r => x.get (Idx.set i a r))) (i a) }

def concatKw (axis : AxisArg) (args : List (Arr α)) : Arr α :=
  concat (normAx (axisOne axis) (args.headD Arr.zero).rank) args

/-- elementwise binary operation on operands of equal shape; a rank-0 operand (Python scalar)
broadcasts.  (General NumPy broadcasting is the pre-pass `broadcastArgs` below.) -/
def bin (f : α → α → α) (x y : Arr α) : Arr α :=
  if y.rank ≤ x.rank then { rank := x.rank, ext := x.ext, get := fun i => f (x.get i) (y.get i) }
  else { rank := y.rank, ext := y.ext, get := fun i => f (x.get i) (y.get i) }

/-- `@num_args(2)` -/
def binArgs (f : α → α → α) : List (Arr α) → Arr α
  | [x, y] => bin f x y
  | _ => Arr.zero

/-- `take(array, indices, dim=d)`: an integer index removes the axis, a sequence keeps it -/
def take (x : Arr α) (ix : IndexArg) (d : Int) : Arr α :=
  let a := normAx d x.rank
  match ix with
  | .int j =>
    { rank := x.rank - 1, ext := Idx.del x.ext a
      get := fun i => x.get (Idx.ins i a (normAx j (x.ext a))) }
  | .seq js =>
    { rank := x.rank, ext := Idx.set x.ext a js.length
      get := fun i => x.get (Idx.set i a (normAx (js.getD (i a) 0) (x.ext a))) }

/-- `dim` is a required keyword of `take` (absent: `TypeError`, see `errorOf`) -/
def takeArgs (kw : Kw) : List (Arr α) → Arr α
  | [x] => (match kw.axis with | .one d => take x kw.index d | _ => Arr.zero)
  | _ => Arr.zero

/-- meaning of `backends.<op>(*args, **kw)` on arguments of one dtype with arithmetic `A` -/
def sem (A : Alg α) (sq : α → α) (kw : Kw) : Op → List (Arr α) → Arr α
  | .mean => multiArg (vmean A) kw.axis
  | .std => multiArg (vstd A sq) kw.axis
  | .max => multiArg (vmax A) kw.axis
  | .min => multiArg (vmin A) kw.axis
  | .sum => multiArg (vsum A) kw.axis
  | .prod => multiArg (vprod A) kw.axis
  | .var => multiArg (vvar A) kw.axis
  | .stack => stackKw kw.axis
  | .concat => concatKw kw.axis
  | .add => binArgs A.add
  | .subtract => binArgs A.sub
  | .multiply => binArgs A.mul
  | .divide => binArgs A.div
  | .pow => binArgs A.pow
  | .take => takeArgs kw

/-! ### NumPy broadcasting (pre-pass of `stack`, the binary operations and, on xarray, the
multi-argument reductions) -/

/-- broadcast of two extents; `none`: incompatible -/
def bext (m n : Nat) : Option Nat := if m = n then some m else if m = 1 then some n else if n = 1 then some m else none

/-- right-aligned broadcast of two shapes -/
def bshape2 (s t : List Nat) : Option (List Nat) :=
  let r := Nat.max s.length t.length
  let s' := List.replicate (r - s.length) 1 ++ s
  let t' := List.replicate (r - t.length) 1 ++ t
  (List.zipWith bext s' t').foldr (fun o acc => match o, acc with | some e, some l => some (e :: l) | _, _ => none) (some [])

def bshape : List (List Nat) → Option (List Nat)
  | [] => some []
  | s :: rest => rest.foldl (fun acc t => acc.bind fun u => bshape2 u t) (some s)

/-- view of `x` with the (compatible) shape `sh`: leading axes are added, extents 1 stretch -/
def bcastTo (sh : List Nat) (x : Arr α) : Arr α :=
  let off := sh.length - x.rank
  { rank := sh.length
    ext := fun k => sh.getD k 0
    get := fun i => x.get fun k => if x.ext k = 1 then 0 else i (k + off) }

def broadcastArgs (args : List (Arr α)) : List (Arr α) :=
  match bshape (args.map Arr.shape) with
  | some sh => args.map (bcastTo sh)
  | none => args

end array

/-! ### batching, exactly as fluent `reduce` + `_batch_transform` apply a batchable function -/

section batching
variable {α : Type}

/-- one batch: a chunk of length 1 is passed through unreduced, a longer one is reduced -/
def applyBatch (f : List (Arr α) → Arr α) : List (Arr α) → Arr α
  | [x] => x
  | b => f b

/-- the batched computation: reduce each batch, then reduce the results -/
def batched (f : List (Arr α) → Arr α) (batches : List (List (Arr α))) : Arr α :=
  f (batches.map (applyBatch f))

/-- `f` is batchable: for every way of cutting the argument list into at least two non-empty
batches (`reduce` batches only when `batch_size < size`, so there are always ≥ 2), reducing the
batches first gives the same array as reducing everything at once.  The arguments of one
reduction are results of one node array: they all have the same rank `r`. -/
def IsBatchable (f : List (Arr α) → Arr α) : Prop :=
  ∀ (r : Nat) (batches : List (List (Arr α))), 2 ≤ batches.length → (∀ b ∈ batches, b ≠ []) →
    (∀ b ∈ batches, ∀ x ∈ b, x.rank = r) →
    batched f batches = f batches.flatten

/-- the law exactly as the property text writes it: EVERY batch, also one of a single array,
goes through `f`, and a partition may consist of one batch -/
def batchedLit (f : List (Arr α) → Arr α) (batches : List (List (Arr α))) : Arr α :=
  f (batches.map f)

/-- `f(f(batch_1), …, f(batch_k)) = f(all inputs)` for every partition into (non-empty,
consecutive) batches, k ≥ 1 -/
def IsBatchableLit (f : List (Arr α) → Arr α) : Prop :=
  ∀ (r : Nat) (batches : List (List (Arr α))), batches ≠ [] → (∀ b ∈ batches, b ≠ []) →
    (∀ b ∈ batches, ∀ x ∈ b, x.rank = r) →
    batchedLit f batches = f batches.flatten

/-- the partitions on which the literal reading and fluent `reduce` coincide: at least two
batches, none of them a single array (decidable) -/
def NoSingleton (batches : List (List (Arr α))) : Bool :=
  decide (2 ≤ batches.length) && batches.all fun b => decide (2 ≤ b.length)

/-- cut `args` into consecutive batches of the given sizes (driver) -/
def cut : List Nat → List (Arr α) → List (List (Arr α))
  | [], _ => []
  | n :: ns, args => args.take n :: cut ns (args.drop n)

end batching

/-! ### concrete arithmetics -/

/-- exact rationals: no rounding, no overflow (`pow`: exponent a non-negative integer) -/
def Alg.rat : Alg Rat :=
  { add := (· + ·), sub := (· - ·), mul := (· * ·), div := (· / ·), pow := fun a b => a ^ b.num.toNat,
    min := Min.min, max := Max.max, zero := 0, one := 1, ofNat := fun n => (n : Rat) }

/-- NumPy's fixed-width integer: the representative of `x` modulo `2^bits` in the signed /
unsigned range -/
def wrapInt (bits : Nat) (signed : Bool) (x : Int) : Int :=
  if signed then Int.bmod x (2 ^ bits) else x % ((2 ^ bits : Nat) : Int)

/-- fixed-width integers (int64 = `wrap 64 true`, uint8 = `wrap 8 false`, …); `div` is floor
division (not used by the fifteen operations: `divide` and `mean` of integers are computed in
binary64) -/
def Alg.wrap (bits : Nat) (signed : Bool) : Alg Int :=
  { add := fun a b => wrapInt bits signed (a + b), sub := fun a b => wrapInt bits signed (a - b),
    mul := fun a b => wrapInt bits signed (a * b), div := fun a b => wrapInt bits signed (Int.fdiv a b),
    pow := fun a b => wrapInt bits signed (a ^ b.toNat), min := Min.min, max := Max.max,
    zero := 0, one := wrapInt bits signed 1, ofNat := fun n => wrapInt bits signed n }

/-- NumPy's bool as 0 / 1: `+` and `max` are "or", `*` and `min` are "and" (`-` raises) -/
def Alg.bool : Alg Int :=
  { add := Max.max, sub := fun a _ => a, mul := Min.min, div := fun a _ => a, pow := fun a _ => a,
    min := Min.min, max := Max.max, zero := 0, one := 1, ofNat := fun n => if n = 0 then 0 else 1 }

end EkwVerif.Backend
