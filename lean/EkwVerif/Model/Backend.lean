/-
Model of `earthkit.workflows.backends` (src/earthkit/workflows/backends/__init__.py,
arrayapi.py, xarray.py): the fifteen array operations and the way fluent `reduce` applies a
function marked `@batchable`.  No imports: `Rat` (exact rationals) is part of core Lean.

Arrays are exact and total: a rank, an extent per axis and a value per index, where an index
is a function `axis ↦ position`.  Values outside the extents are never inspected by the
driver; the operations are nevertheless defined on every index so that the theorems are
plain equalities of arrays (no "up to bounds" relation is needed).

One model serves both backends: the array-API backend addresses an axis by number, the xarray
backend by dimension name; the harness translates the name into the position the dimension has
in the operand (that is all `dim=` means for values).  What differs between the back ends for
the same value semantics (which kwarg carries the axis, `**NEW**` helper dimension, `isel`) is
below the level of this model and is covered by running both back ends against it.
-/

namespace EkwVerif.Backend

/-- exact values: integers embedded in the rationals (`mean`, `var`, `divide` leave ℤ) -/
abbrev Val := Rat

/-- an index: position along every axis (positions of axes ≥ rank are ignored) -/
abbrev Idx := Nat → Nat

namespace Idx
/-- replace the position along axis `a` -/
def set (i : Idx) (a v : Nat) : Idx := fun k => if k = a then v else i k
/-- insert a new axis `a` with position `v` (axes ≥ a move up by one) -/
def ins (i : Idx) (a v : Nat) : Idx := fun k => if k < a then i k else if k = a then v else i (k - 1)
/-- delete axis `a` (axes > a move down by one) -/
def del (i : Idx) (a : Nat) : Idx := fun k => if k < a then i k else i (k + 1)
end Idx

structure Arr where
  rank : Nat
  /-- extent along axis `k` (meaningful for `k < rank`) -/
  ext : Nat → Nat
  get : Idx → Val

namespace Arr
def scalar (v : Val) : Arr := ⟨0, fun _ => 0, fun _ => v⟩
/-- what the total functions return where the Python code raises (never printed: the driver
reports `error` whenever `valid` is false) -/
def zero : Arr := scalar 0
/-- a vector, for examples -/
def vec (l : List Val) : Arr := ⟨1, fun _ => l.length, fun i => l.getD (i 0) 0⟩
def shape (x : Arr) : List Nat := (List.range x.rank).map x.ext
end Arr

/-- all indices of a `rank`-dimensional box, row-major (C order, like `ndarray.flatten`) -/
def idxs : Nat → (Nat → Nat) → List Idx
  | 0, _ => [fun _ => 0]
  | r + 1, ext => (List.range (ext 0)).flatMap fun j => (idxs r (fun k => ext (k + 1))).map (fun i => Idx.ins i 0 j)

/-- the elements in row-major order -/
def Arr.elems (x : Arr) : List Val := (idxs x.rank x.ext).map x.get

/-! ### the operations (names as in `Backend`) -/

inductive Op where
  | mean | std | max | min | sum | prod | var | stack | concat
  | add | subtract | multiply | divide | pow | take
  deriving DecidableEq, Repr

def Op.all : List Op :=
  [.mean, .std, .max, .min, .sum, .prod, .var, .stack, .concat, .add, .subtract, .multiply, .divide, .pow, .take]

/-- `some n`: the function takes exactly `n` array arguments (`@num_args(2)`, `take(array, …)`);
`none`: variadic (`*args`) -/
def Op.arity : Op → Option Nat
  | .add | .subtract | .multiply | .divide | .pow => some 2
  | .take => some 1
  | _ => none

/-- second positional argument of `take` -/
inductive IndexArg where
  | int (i : Int)
  | seq (is : List Int)

/-- keyword arguments that matter for values: `axis=` (array API) / position of `dim=` (xarray);
`take`'s `indices` rides along -/
structure Kw where
  axis : Option Int := none
  index : IndexArg := .int 0

/-! ### scalar level: what a reduction does to the list of values it sees -/

/-- left fold without a unit (`d` only for the empty list) -/
def fold1 (op : Val → Val → Val) (d : Val) : List Val → Val
  | [] => d
  | x :: xs => xs.foldl op x

def vsum : List Val → Val := fold1 (· + ·) 0
def vprod : List Val → Val := fold1 (· * ·) 1
def vmin : List Val → Val := fold1 min 0
def vmax : List Val → Val := fold1 max 0
def vmean (xs : List Val) : Val := vsum xs / (xs.length : Nat)
/-- population variance (`ddof = 0`, the default of NumPy and xarray) -/
def vvar (xs : List Val) : Val := vmean (xs.map fun x => (x - vmean xs) * (x - vmean xs))
/-- `std = sqrt ∘ var`.  The square root is a parameter: the theorems hold for every function
`sq` that is right on 0 and 1; the driver prints the radicand (`sq := id`) and the harness
squares the float the implementation returns. -/
def vstd (sq : Val → Val) (xs : List Val) : Val := sq (vvar xs)

/-! ### array level -/

/-- a negative axis / index counts from the end -/
def normAx (a : Int) (n : Nat) : Nat := if a < 0 then (a + n).toNat else a.toNat

/-- `xp.stack(args, axis=a)` / `XArrayBackend.stack(*args, dim=new, axis=a)` for equal shapes -/
def stack (a : Nat) (args : List Arr) : Arr :=
  let h := args.headD Arr.zero
  { rank := h.rank + 1
    ext := Idx.ins h.ext a args.length
    get := fun i => (args.getD (i a) Arr.zero).get (Idx.del i a) }

/-- `getattr(xp, name)(x, axis=a)` / `x.<name>(dim=…)` -/
def reduceAx (f : List Val → Val) (a : Nat) (x : Arr) : Arr :=
  { rank := x.rank - 1
    ext := Idx.del x.ext a
    get := fun i => f ((List.range (x.ext a)).map fun j => x.get (Idx.ins i a j)) }

/-- no `axis`/`dim`: reduction over all elements -/
def reduceAll (f : List Val → Val) (x : Arr) : Arr :=
  { rank := 0, ext := fun _ => 0, get := fun _ => f x.elems }

def reduceKw (f : List Val → Val) (axis : Option Int) (x : Arr) : Arr :=
  match axis with
  | none => reduceAll f x
  | some a => reduceAx f (normAx a x.rank) x

/-- `_xp_multi_args` / `XArrayBackend.multi_arg_function`: one argument → reduce it with the
given kwargs; several → stack on a new leading axis and reduce that axis (the caller's `axis`
/ `dim` is overwritten). -/
def multiArg (f : List Val → Val) (axis : Option Int) : List Arr → Arr
  | [x] => reduceKw f axis x
  | args => reduceAx f 0 (stack 0 args)

/-- `stack(*args, axis=a)`; default axis 0; negative axes count from the end of the RESULT -/
def stackKw (axis : Option Int) (args : List Arr) : Arr :=
  stack (normAx (axis.getD 0) ((args.headD Arr.zero).rank + 1)) args

/-- position `j` in the concatenation of segments `(length, accessor)`.  The last segment is
not bounded (positions beyond the end are never inspected; this makes `concat [x] = x` and the
batch law hold as equalities). -/
def catAt : List (Nat × (Nat → Val)) → Nat → Val
  | [], _ => 0
  | (n, g) :: rest, j => if rest.isEmpty || decide (j < n) then g j else catAt rest (j - n)

def sumExt (a : Nat) (args : List Arr) : Nat := (args.map (fun x => x.ext a)).sum

/-- `xp.concat(args, axis=a)` / `xr.concat(args, dim=…)` along an existing axis -/
def concat (a : Nat) (args : List Arr) : Arr :=
  let h := args.headD Arr.zero
  { rank := h.rank
    ext := Idx.set h.ext a (sumExt a args)
    get := fun i => catAt (args.map fun x => (x.ext a, fun r => x.get (Idx.set i a r))) (i a) }

def concatKw (axis : Option Int) (args : List Arr) : Arr :=
  concat (normAx (axis.getD 0) (args.headD Arr.zero).rank) args

/-- elementwise binary operation; a rank-0 operand (Python scalar) broadcasts -/
def bin (f : Val → Val → Val) (x y : Arr) : Arr :=
  if y.rank ≤ x.rank then { rank := x.rank, ext := x.ext, get := fun i => f (x.get i) (y.get i) }
  else { rank := y.rank, ext := y.ext, get := fun i => f (x.get i) (y.get i) }

/-- `@num_args(2)` -/
def binArgs (f : Val → Val → Val) : List Arr → Arr
  | [x, y] => bin f x y
  | _ => Arr.zero

/-- integer power (the domain is: exponent a non-negative integer) -/
def vpow (a b : Val) : Val := a ^ b.num.toNat

/-- `take(array, indices, dim=d)`: an integer index removes the axis, a sequence keeps it -/
def take (x : Arr) (ix : IndexArg) (d : Int) : Arr :=
  let a := normAx d x.rank
  match ix with
  | .int j =>
    { rank := x.rank - 1, ext := Idx.del x.ext a
      get := fun i => x.get (Idx.ins i a (normAx j (x.ext a))) }
  | .seq js =>
    { rank := x.rank, ext := Idx.set x.ext a js.length
      get := fun i => x.get (Idx.set i a (normAx (js.getD (i a) 0) (x.ext a))) }

def takeArgs (kw : Kw) : List Arr → Arr
  | [x] => take x kw.index (kw.axis.getD 0)
  | _ => Arr.zero

/-- meaning of `backends.<op>(*args, **kw)` -/
def sem (sq : Val → Val) (kw : Kw) : Op → List Arr → Arr
  | .mean => multiArg vmean kw.axis
  | .std => multiArg (vstd sq) kw.axis
  | .max => multiArg vmax kw.axis
  | .min => multiArg vmin kw.axis
  | .sum => multiArg vsum kw.axis
  | .prod => multiArg vprod kw.axis
  | .var => multiArg vvar kw.axis
  | .stack => stackKw kw.axis
  | .concat => concatKw kw.axis
  | .add => binArgs (· + ·)
  | .subtract => binArgs (· - ·)
  | .multiply => binArgs (· * ·)
  | .divide => binArgs (· / ·)
  | .pow => binArgs vpow
  | .take => takeArgs kw

/-! ### where the Python code raises (used by the driver only) -/

def axisOk (a : Int) (n : Nat) : Bool := decide (-(n : Int) ≤ a) && decide (a < n)

def sameShape (args : List Arr) : Bool :=
  match args with
  | [] => true
  | x :: rest => rest.all fun y => y.shape == x.shape

def positive (x : Arr) : Bool := x.shape.all (0 < ·)

def isReduction : Op → Bool
  | .mean | .std | .max | .min | .sum | .prod | .var => true
  | _ => false

def valid (kw : Kw) (op : Op) (args : List Arr) : Bool :=
  if isReduction op then
    match args with
    | [] => false
    | [x] => positive x && (match kw.axis with | none => true | some a => axisOk a x.rank)
    | _ => sameShape args && args.all positive
  else match op, args with
  | .stack, x :: _ => sameShape args && axisOk (kw.axis.getD 0) (x.rank + 1)
  | .concat, x :: _ =>
    let a := normAx (kw.axis.getD 0) x.rank
    axisOk (kw.axis.getD 0) x.rank &&
      args.all fun y => y.rank == x.rank &&
        (List.range x.rank).all fun k => k == a || y.ext k == x.ext k
  | .take, [x] =>
    let a := normAx (kw.axis.getD 0) x.rank
    axisOk (kw.axis.getD 0) x.rank &&
      (match kw.index with
       | .int j => axisOk j (x.ext a)
       | .seq js => js.all fun j => axisOk j (x.ext a))
  | .divide, [x, y] => (x.rank == 0 || y.rank == 0 || sameShape args) && y.elems.all (· != 0)
  | .pow, [x, y] => (x.rank == 0 || y.rank == 0 || sameShape args) && y.elems.all (fun e => e.den == 1 && 0 ≤ e.num)
  | .add, [x, y] | .subtract, [x, y] | .multiply, [x, y] => x.rank == 0 || y.rank == 0 || sameShape args
  | _, _ => false

/-! ### batching, exactly as fluent `reduce` + `_batch_transform` apply a batchable function -/

/-- one batch: a chunk of length 1 is passed through unreduced, a longer one is reduced -/
def applyBatch (f : List Arr → Arr) : List Arr → Arr
  | [x] => x
  | b => f b

/-- the batched computation: reduce each batch, then reduce the results -/
def batched (f : List Arr → Arr) (batches : List (List Arr)) : Arr :=
  f (batches.map (applyBatch f))

/-- `f` is batchable: for every way of cutting the argument list into at least two non-empty
batches (`reduce` batches only when `batch_size < size`, so there are always ≥ 2), reducing the
batches first gives the same array as reducing everything at once.  The arguments of one
reduction are results of one node array: they all have the same rank `r`. -/
def IsBatchable (f : List Arr → Arr) : Prop :=
  ∀ (r : Nat) (batches : List (List Arr)), 2 ≤ batches.length → (∀ b ∈ batches, b ≠ []) →
    (∀ b ∈ batches, ∀ x ∈ b, x.rank = r) →
    batched f batches = f batches.flatten

/-- cut `args` into consecutive batches of the given sizes (driver) -/
def cut : List Nat → List Arr → List (List Arr)
  | [], _ => []
  | n :: ns, args => args.take n :: cut ns (args.drop n)

end EkwVerif.Backend
