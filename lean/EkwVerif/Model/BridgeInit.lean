/-
Model of `cascade.executor.bridge.Bridge.__init__` (re-audit C02 #1, probe G): how the controller's `Environment` — the
`Cluster` of the controller theorems, i.e. what `cl.hasGpu` says — is built from the executors' `ExecutorRegistration`
messages. Mirrors the loop body literally:

    for message in messages:
        if message.host in self.sender.hosts or "data." + message.host in self.sender.hosts:   # double registration
            continue
        self.sender.add_host(message.host, …); self.sender.add_host("data." + message.host, …)
        for worker in message.workers:
            self.environment.workers[worker.worker_id] = Worker(cpu=worker.cpu, gpu=worker.gpu, memory_mb=worker.memory_mb)

A registration is `(host, [(worker index, gpu flag)])`; the `Environment` is the insertion-ordered list of (worker, gpu flag).
The registration an executor sends is `regGpu` of Model/ExecLayer.lean (`Executor.__init__`).
-/
import EkwVerif.Model.Ctrl
import EkwVerif.Model.ExecLayer

namespace EkwVerif.BridgeInit
open EkwVerif.Ctrl

structure Reg where
  host : Nat
  workers : List (Nat × Bool)
deriving Repr, DecidableEq

structure BState where
  hosts : List Nat                      -- `sender.hosts` (the executor entries), in registration order
  env : List (Worker × Bool)            -- `environment.workers` (a dict: insertion order), worker ↦ gpu ≥ 1

def BState.init : BState := ⟨[], []⟩

/-- the body of the `for message in messages` loop -/
def recvReg (s : BState) (r : Reg) : BState :=
  if r.host ∈ s.hosts then s
  else { hosts := s.hosts ++ [r.host], env := s.env ++ r.workers.map (fun p => (⟨r.host, p.1⟩, p.2)) }

/-- `Bridge.__init__` over everything it receives (any batching: the loop only concatenates the batches) -/
def bridgeInit (msgs : List Reg) : BState := msgs.foldl recvReg BState.init

/-- `Executor.__init__` on host `h` with `nW` workers and CASCADE_GPU_COUNT = `gpus` -/
def execReg (h nW gpus : Nat) : Reg := ⟨h, ExecLayer.regGpu gpus nW⟩

/-- the cluster the controller works with: `Bridge.get_environment()` -/
def BState.cluster (s : BState) : Cluster := ⟨s.env⟩

end EkwVerif.BridgeInit
