/-
The convention by which the fluent model (Model/Fluent: array elements are expressions, `Expr.out k e` = "output number k
of the node e") and the lowering model (Model/Lower: inputs are references `(parent name, output name)`) meet:
what `Action.__init__(nodes, yields)` puts into the node array is `[x.get_output(out) for out in x.outputs]`, so the
element at position k of the yields dimension is `Output(parent, parent.outputs[k])`.

It is a DEFINITION (an interpretation of `Expr.out`), not derived from a model of `xr.apply_ufunc`; it is compared with
the real `Action.__init__` by the C10 correspondence check (driver op `ref_of`: the output name of the real array element
at every position of the yields dimension).
-/
import EkwVerif.Model.Fluent
import EkwVerif.Model.Lower

namespace EkwVerif.Runner
open EkwVerif.Lower EkwVerif.Fluent

/-- how a consumer built on the array element `e` refers to it in the serialised graph: an element of a yields
dimension is `Output(parent, parent.outputs[k])`, i.e. the input reference `(parent, outputs[k])`; any other element is
the node itself (its default output). `nameOf` = the names the nodes got (C14's subject), `N` = `num_outputs` of the
generator nodes. -/
def refOf (nameOf : Expr → String) (N : Nat) : Expr → InRef
  | .out k e => .named (nameOf e) ((fluentOutputs N).getD k "")
  | e => .dflt (nameOf e)


/-- the reference under which the element at position `k` of a yields dimension with `N` coordinates is consumed, the
node below it being called `parent` (what the driver op `ref_of` answers): through `withYields`, as in
`c10_yield_coordinate` -/
def yieldRef (parent : String) (N k : Nat) : InRef :=
  refOf (fun _ => parent) N
    ((withYields (fromSource [("x", [.int 0])] 0) (some ("y", (List.range N).map (fun i => Coord.int (Int.ofNat i))))).node
      (fun d => if d = "y" then k else 0))

end EkwVerif.Runner
