/-
Model of `cascade.executor.data_server.DataServer` (recv_loop, maybe_clean, send_payload,
store_payload, the purge branch, the 4 s retry rule), the payload framing of
`cascade.executor.comms` (`send_data` = Syn(command.idx, source daddress) + header + value;
`Listener._recv_one` = always ack a Syn, drop an already-acked Syn, `recv_messages` stops
draining at the first dropped frame), the part of `cascade.shm.client` / `cascade.shm.dataset.Manager`
the data server uses (allocate → ConflictError when the key exists or is being written; get → error
when the key is unknown or not yet closed; purge → `Manager.purge` swallows the KeyError of an unknown
key and the server answers Ok, so `shm_client.purge` RETURNS NORMALLY), and the part of
`cascade.executor.executor.Executor.recv_loop` that sits between the controller and the data server:
`DatasetPublished` / `DatasetTransmitFailure` coming from the data server are forwarded to the
controller, a `DatasetPurge` from the controller is dropped when the dataset is not in
`Executor.datasets` and otherwise forwarded to the data server.

Pool jobs are NOT atomic: `store_payload` has three stages (allocate · write + close · announce
callback), `send_payload` two (validate + get · send_data + close).  Every stage can be hit by an
environment fault: `Fault.fail` = the shm / socket call of that stage raises (allocate under memory
pressure → TimeoutError / "capacity exceeded", a failing close, a failing local push) and the job
reports DatasetTransmitFailure; `Fault.closeExc` = the `buf.close()` in the `finally` of
`send_payload` raises, the exception escapes into the Future and `maybe_clean` reports it (and never
stamps `awaiting_confirmation`, so that transfer is never retried).

Identifiers: hosts are `Nat ≥ 1`, a host's data address is its id, the controller is `0`.
Datasets and command indices are `Nat`; bytes and `deser_fun` are opaque `String`s.
Time is in milliseconds (`grace = 4000`).

Two layers:
  * **micro steps** (`cleanAll`, `stepAt`, `deliver`, `recvOne`, `inject`, `handleHead`, `retryOne`,
    `advance`, `dropFrame`, `ctrlRecv`, `execHandle`, `injectE`): the atomic actions of the main
    thread, of a pool thread, of the executor and of the network.  `MStep` is the transition relation;
    it allows any interleaving (this is what real threads do) and any fault.
  * **operations** (`Op`, `step`, `run`): what the correspondence check drives — one iteration
    of the real `recv_loop` body (`tick`), one pool job run to completion (`job`) or by one stage,
    possibly with a fault (`jobstep`), one iteration of the executor's loop (`etick`), clock, network
    faults.  Every operation is a composition of micro steps (`Aux.step_mstar`).

`log` is a ghost trace (newest first) of what happened; the properties are stated on it.

How the two `concurrent.futures.wait` calls are written in the source (what is waited for, `return_when`,
`timeout`) is read from data_server.py by the translator (`Gen/DataServerWait.lean`); the purge arm's wait
enters the model through `purgeWaitBlocks` / `purgeWait`.
-/
import EkwVerif.Gen.DataServerWait
namespace EkwVerif.Transfer

structure Cmd where
  source : Nat
  target : Nat
  daddr : Nat
  ds : Nat
  idx : Nat
deriving DecidableEq, Repr

/-- `DatasetTransmitPayload` (header + value). -/
structure Payload where
  confirmAddr : Nat
  confirmIdx : Nat
  ds : Nat
  deser : String
  value : String
deriving DecidableEq, Repr

/-- key of `futs_in_progress` -/
inductive Key
  | cmd (c : Cmd)
  | pay (p : Payload)
deriving DecidableEq, Repr

def Key.ds : Key → Nat
  | .cmd c => c.ds
  | .pay p => p.ds

/-- outcome of a finished pool job: `fut.result()` (a time stamp) or `fut.exception()` -/
inductive Res
  | ok (t : Nat)
  | exc
deriving DecidableEq, Repr

/-- what the environment does to one stage of a pool job -/
inductive Fault
  | none
  | fail        -- the shm / socket call of the stage raises; caught by the job, reported
  | closeExc    -- `buf.close()` in the `finally` of send_payload raises; escapes into the Future
deriving DecidableEq, Repr

/-- a `Future` of the pool: `result = none` = not finished; `stage` = how far its job has got
(store: 0 submitted, 1 allocated, 2 written and closed; send: 0 submitted, 1 buffer open). -/
structure Fut where
  key : Key
  stage : Nat
  result : Option Res
deriving DecidableEq, Repr

inductive Msg
  | cmd (c : Cmd)
  | pay (p : Payload)
  | ack (idx : Nat)
  | purge (ds : Nat)
deriving DecidableEq, Repr

/-- what arrives on the executor's message socket (as far as transfers are concerned) -/
inductive EMsg
  | pub (ds idx : Nat)     -- DatasetPublished(ds, origin = this host, transmit_idx = idx) from the data server
  | fail                   -- DatasetTransmitFailure from the data server
  | purge (ds : Nat)       -- DatasetPurge from the controller
deriving DecidableEq, Repr

/-- a multipart zmq message in flight -/
inductive Frame
  | data (dst synIdx synAddr : Nat) (p : Payload)   -- Syn + header + value
  | plain (dst : Nat) (m : Msg)                      -- no Syn (local callbacks, Ack)
deriving DecidableEq, Repr

def Frame.dst : Frame → Nat
  | .data d _ _ _ => d
  | .plain d _ => d

inductive Event
  | submitted (h idx ds : Nat)             -- first send job of a command
  | resubmit (h idx ds : Nat)              -- retry send job
  | sent (h : Nat) (c : Cmd) (value deser : String)
  | sendFail (h : Nat) (c : Cmd)           -- DatasetTransmitFailure from send_payload
  | stored (h ds idx : Nat) (value deser : String)   -- buffer written and closed: the copy exists
  | announced (h ds idx : Nat)             -- DatasetPublished(ds, origin=h, transmit_idx=idx) pushed to the executor
  | redundant (h ds idx : Nat)             -- ConflictError branch
  | storeFail (h ds idx stage : Nat)       -- DatasetTransmitFailure from store_payload (which stage raised)
  | futFail (h : Nat) (k : Key)            -- DatasetTransmitFailure from maybe_clean: the Future raised
  | ignored (h ds idx : Nat)               -- payload of a purged dataset discarded
  | ackRecv (h idx : Nat)
  | purged (h ds inProgress : Nat)         -- shm purge request; futures of `ds` then in progress
  | ctrlGot (p : Payload)                  -- payload delivered to the controller
  | ctrlPub (h ds idx : Nat)               -- the executor forwarded DatasetPublished to the controller
  | ctrlFail (h : Nat)                     -- the executor forwarded DatasetTransmitFailure to the controller
  | purgeFwd (h ds : Nat)                  -- the executor forwarded a DatasetPurge to workers and data server
  | purgeDropped (h ds : Nat)              -- "unexpected purge": not in Executor.datasets
  | crashed (h : Nat) (why : Nat)          -- recv_loop raised (1 idx conflict, 2 command for purged ds,
                                           --  3 retry while in progress, 5 KeyError in the retry loop)
deriving DecidableEq, Repr

structure Host where
  store : List (Nat × String × String) := []     -- shm, status in_memory: ds ↦ (bytes, deser_fun)
  allocd : List Nat := []                        -- shm, status created: allocated, writer not closed
  awaiting : List (Nat × Cmd × Option Nat) := [] -- awaiting_confirmation (none = -1)
  acks : List Nat := []
  invalid : List Nat := []
  futs : List Fut := []                          -- futs_in_progress, insertion order
  acked : List (Nat × Nat) := []                 -- Listener.acked : set of Syn(idx, addr)
  sock : List Frame := []                        -- frames in the PULL socket, not yet read
  inbox : List Msg := []                         -- result of recv_messages being processed
  crashed : Bool := false
  published : List Nat := []                     -- Executor.datasets
  mbox : List EMsg := []                         -- the executor's message socket
deriving Repr

structure World where
  hosts : Nat → Host
  net : List Frame := []
  now : Nat := 1
  used : List Nat := []                          -- command indices already issued
  ctrlAcked : List (Nat × Nat) := []
  log : List Event := []                         -- newest first

def grace : Nat := 4000
def cap : Nat := 2

/-! ### association lists (Python dicts, insertion ordered) -/

def lookup {β : Type} : List (Nat × β) → Nat → Option β
  | [], _ => none
  | (k, v) :: l, x => if k = x then some v else lookup l x

/-- `d[k] = v` : in place when the key exists, else appended. -/
def setA {β : Type} : List (Nat × β) → Nat → β → List (Nat × β)
  | [], x, v => [(x, v)]
  | (k, b) :: l, x, v => if k = x then (k, v) :: l else (k, b) :: setA l x v

def eraseA {β : Type} (l : List (Nat × β)) (x : Nat) : List (Nat × β) := l.filter (fun e => e.1 ≠ x)

def insertS {α : Type} [DecidableEq α] (l : List α) (x : α) : List α := if x ∈ l then l else l ++ [x]

/-! ### world plumbing -/

def World.setHost (w : World) (h : Nat) (x : Host) : World :=
  { w with hosts := fun k => if k = h then x else w.hosts k }

def World.emit (w : World) (e : Event) : World := { w with log := e :: w.log }

def World.crash (w : World) (h why : Nat) : World :=
  (w.setHost h { w.hosts h with crashed := true }).emit (.crashed h why)

/-- `callback(self.maddress, m)`: a local push to the executor's message socket, traced as `e`. -/
def World.report (w : World) (h : Nat) (m : EMsg) (e : Event) : World :=
  (w.setHost h { w.hosts h with mbox := (w.hosts h).mbox ++ [m] }).emit e

/-! ### pool jobs, stage by stage -/

/-- `send_payload(command)` on host `h`, first stage: validate the command, `shm_client.get`.
Returns the world and whether the buffer is now open. -/
def sendOpen (h : Nat) (c : Cmd) (flt : Fault) (w : World) : World × Bool :=
  if c.target = h ∨ c.source ≠ h then (w.report h .fail (.sendFail h c), false) else
  if flt = .fail then (w.report h .fail (.sendFail h c), false) else
  match lookup (w.hosts h).store c.ds with
  | none => (w.report h .fail (.sendFail h c), false)    -- unknown key, or allocated but not closed ("wait" until timeout)
  | some _ => (w, true)

/-- second stage: `send_data`, then `finally: buf.close()`. Returns the world and the Future's outcome. -/
def sendData (h : Nat) (c : Cmd) (flt : Fault) (w : World) : World × Res :=
  match lookup (w.hosts h).store c.ds with
  | none => (w.report h .fail (.sendFail h c), .ok w.now)    -- not reachable: the purge waits for open buffers
  | some (b, f) =>
    if flt = .fail then (w.report h .fail (.sendFail h c), .ok w.now) else
    ({ w with net := w.net ++ [Frame.data c.daddr c.idx h ⟨h, c.idx, c.ds, f, b⟩] }.emit (.sent h c b f),
     if flt = .closeExc then .exc else .ok w.now)

/-- one stage of `store_payload(payload)` on host `h`. Second component: `some n` = the job goes on
at stage `n`, `none` = the job returns. -/
def storeStep (h : Nat) (p : Payload) (st : Nat) (flt : Fault) (w : World) : World × Option Nat :=
  let hs := w.hosts h
  match st with
  | 0 =>
    if flt = .fail then (w.report h .fail (.storeFail h p.ds p.confirmIdx 0), none)
    else if (lookup hs.store p.ds).isSome ∨ p.ds ∈ hs.allocd then (w.emit (.redundant h p.ds p.confirmIdx), none)
    else (w.setHost h { hs with allocd := hs.allocd ++ [p.ds] }, some 1)
  | 1 =>
    if flt = .fail then (w.report h .fail (.storeFail h p.ds p.confirmIdx 1), none)
    else ((w.setHost h { hs with allocd := hs.allocd.filter (fun d => d ≠ p.ds),
                                 store := hs.store ++ [(p.ds, p.value, p.deser)] }).emit
            (.stored h p.ds p.confirmIdx p.value p.deser), some 2)
  | _ =>
    if flt = .fail then (w.report h .fail (.storeFail h p.ds p.confirmIdx 2), none)
    else (w.report h (.pub p.ds p.confirmIdx) (.announced h p.ds p.confirmIdx), none)

def World.setFut (w : World) (h i : Nat) (f : Fut) : World :=
  w.setHost h { w.hosts h with futs := (w.hosts h).futs.set i f }

/-- a pool thread advances the job of the `i`-th entry of `futs_in_progress` by one stage. -/
def stepAt (h i : Nat) (flt : Fault) (w : World) : World :=
  if (w.hosts h).crashed then w else
  match (w.hosts h).futs[i]? with
  | some ⟨.cmd c, st, none⟩ =>
    if st = 0 then
      let r := sendOpen h c flt w
      r.1.setFut h i ⟨.cmd c, if r.2 then 1 else 0, if r.2 then none else some (.ok w.now)⟩
    else
      let r := sendData h c flt w
      r.1.setFut h i ⟨.cmd c, st, some r.2⟩
  | some ⟨.pay p, st, none⟩ =>
    let r := storeStep h p st flt w
    r.1.setFut h i ⟨.pay p, r.2.getD st, if r.2.isSome then none else some (.ok w.now)⟩
  | _ => w

/-- the job of entry `i` run to its end without faults (at most three stages). -/
def runAt (h i : Nat) (w : World) : World :=
  stepAt h i .none (stepAt h i .none (stepAt h i .none w))

/-! ### maybe_clean -/

/-- one pass of `maybe_clean` over the keys: done futures are popped, a finished send stamps
`awaiting_confirmation`, a future that raised stamps nothing. Returns (awaiting', remaining futures). -/
def cleanList : List Fut → List (Nat × Cmd × Option Nat) → List (Nat × Cmd × Option Nat) × List Fut
  | [], aw => (aw, [])
  | f :: fs, aw =>
    match f.result with
    | none => let r := cleanList fs aw; (r.1, f :: r.2)
    | some .exc => cleanList fs aw
    | some (.ok t) =>
      match f.key with
      | .cmd c => cleanList fs (setA aw c.idx (c, some t))
      | .pay _ => cleanList fs aw

/-- the futures that raised, in order: each is reported with DatasetTransmitFailure -/
def cleanFails (fs : List Fut) : List Key := (fs.filter (fun f => f.result = some .exc)).map (·.key)

def cleanAll (h : Nat) (w : World) : World :=
  if (w.hosts h).crashed then w else
  let hs := w.hosts h
  let r := cleanList hs.futs hs.awaiting
  let fl := cleanFails hs.futs
  { w.setHost h { hs with awaiting := r.1, futs := r.2, mbox := hs.mbox ++ fl.map (fun _ => EMsg.fail) } with
    log := (fl.map (Event.futFail h)).reverse ++ w.log }

/-! ### network and listener -/

/-- the network hands frame `i` to the socket of its destination host (`dup`: and keeps a copy). -/
def deliver (i : Nat) (dup : Bool) (w : World) : World :=
  match w.net[i]? with
  | none => w
  | some fr =>
    if fr.dst = 0 then w else
    let w1 := if dup then w else { w with net := w.net.eraseIdx i }
    w1.setHost fr.dst { w1.hosts fr.dst with sock := (w1.hosts fr.dst).sock ++ [fr] }

def dropFrame (i : Nat) (w : World) : World := { w with net := w.net.eraseIdx i }

/-- the controller (or the local executor) hands a command / purge to the data server of host `h`;
a command index is used once. -/
def inject (h : Nat) (m : Msg) (w : World) : World :=
  match m with
  | .cmd c =>
    if c.idx ∈ w.used then w else
    { w with used := c.idx :: w.used }.setHost h { w.hosts h with sock := (w.hosts h).sock ++ [Frame.plain h m] }
  | .purge _ => w.setHost h { w.hosts h with sock := (w.hosts h).sock ++ [Frame.plain h m] }
  | _ => w

/-- `Listener._recv_one` on the head of the socket. Returns the new world and whether a message
was produced (`false` = `None`: empty socket or an already-acked Syn). -/
def recvOne (h : Nat) (w : World) : World × Bool :=
  let hs := w.hosts h
  if hs.crashed then (w, false) else
  match hs.sock with
  | [] => (w, false)
  | .plain _ m :: rest => (w.setHost h { hs with sock := rest, inbox := hs.inbox ++ [m] }, true)
  | .data _ si sa p :: rest =>
    let w1 := { w with net := w.net ++ [Frame.plain sa (Msg.ack si)] }
    if (si, sa) ∈ hs.acked then (w1.setHost h { hs with sock := rest }, false)
    else (w1.setHost h { hs with sock := rest, acked := hs.acked ++ [(si, sa)], inbox := hs.inbox ++ [Msg.pay p] }, true)

/-- the controller's listener reads frame `i` of the network. -/
def ctrlRecv (i : Nat) (dup : Bool) (w : World) : World :=
  match w.net[i]? with
  | some (.data 0 si sa p) =>
    let w1 := if dup then w else { w with net := w.net.eraseIdx i }
    let w2 := { w1 with net := w1.net ++ [Frame.plain sa (Msg.ack si)] }
    if (si, sa) ∈ w2.ctrlAcked then w2
    else { w2 with ctrlAcked := w2.ctrlAcked ++ [(si, sa)] }.emit (.ctrlGot p)
  | _ => w

/-! ### message handlers of recv_loop -/

def inProgress (futs : List Fut) (ds : Nat) : Nat := (futs.filter (fun f => f.key.ds = ds)).length

def hasKey (futs : List Fut) (k : Key) : Bool := futs.any (fun f => f.key = k)

/-- the body of the purge branch after the wait: drop pending confirmations, ask shm to purge (an
unknown key is NOT an error: the Manager logs the KeyError and the server answers Ok), mark invalid. -/
def purgeAct (h ds : Nat) (w : World) : World :=
  let hs := w.hosts h
  let aw := hs.awaiting.filter (fun e => e.2.1.ds ≠ ds)
  (w.setHost h { hs with awaiting := aw, store := eraseA hs.store ds, allocd := hs.allocd.filter (fun d => d ≠ ds),
                         invalid := insertS hs.invalid ds }).emit
    (.purged h ds (inProgress hs.futs ds))

/-- handle one message (already popped from the inbox). -/
def handleMsg (h : Nat) (m : Msg) (w : World) : World :=
  let hs := w.hosts h
  match m with
  | .cmd c =>
    if (lookup hs.awaiting c.idx).isSome then w.crash h 1
    else if c.ds ∈ hs.invalid then w.crash h 2
    else (w.setHost h { hs with awaiting := setA hs.awaiting c.idx (c, none),
                                futs := hs.futs ++ [⟨.cmd c, 0, none⟩] }).emit (.submitted h c.idx c.ds)
  | .pay p =>
    if p.ds ∈ hs.invalid then w.emit (.ignored h p.ds p.confirmIdx)
    else w.setHost h { hs with futs := hs.futs ++ [⟨.pay p, 0, none⟩] }
  | .ack i => (w.setHost h { hs with acks := insertS hs.acks i }).emit (.ackRecv h i)
  | .purge ds => purgeAct h ds w

/-- pop the head of the inbox and handle it. -/
def handleHead (h : Nat) (w : World) : World :=
  let hs := w.hosts h
  if hs.crashed then w else
  match hs.inbox with
  | [] => w
  | m :: rest => handleMsg h m (w.setHost h { hs with inbox := rest })

/-- one element of the retry queue. -/
def retryOne (h e : Nat) (w : World) : World :=
  let hs := w.hosts h
  if hs.crashed then w else
  match lookup hs.awaiting e with
  | none => w.crash h 5     -- KeyError (unreachable: only this loop pops)
  | some (c, _) =>
    if hasKey hs.futs (.cmd c) then w.crash h 3
    else if c.idx ∈ hs.acks then w.setHost h { hs with awaiting := eraseA hs.awaiting e }
    else if c.ds ∈ hs.invalid then w.setHost h { hs with awaiting := eraseA hs.awaiting e }
    else (w.setHost h { hs with futs := hs.futs ++ [⟨.cmd c, 0, none⟩],
                                awaiting := setA hs.awaiting e (c, none) }).emit (.resubmit h c.idx c.ds)

def advance (d : Nat) (w : World) : World := { w with now := w.now + d }

/-! ### the executor between controller and data server (`Executor.recv_loop`) -/

/-- the controller's DatasetPurge arrives on the executor's message socket -/
def injectE (h ds : Nat) (w : World) : World :=
  w.setHost h { w.hosts h with mbox := (w.hosts h).mbox ++ [EMsg.purge ds] }

/-- the executor handles the head of its message socket -/
def execHandle (h : Nat) (w : World) : World :=
  let hs := w.hosts h
  match hs.mbox with
  | [] => w
  | .pub ds idx :: rest =>
    (w.setHost h { hs with mbox := rest, published := insertS hs.published ds }).emit (.ctrlPub h ds idx)
  | .fail :: rest => (w.setHost h { hs with mbox := rest }).emit (.ctrlFail h)
  | .purge ds :: rest =>
    if ds ∈ hs.published then
      (w.setHost h { hs with mbox := rest, published := hs.published.filter (fun d => d ≠ ds),
                             sock := hs.sock ++ [Frame.plain h (Msg.purge ds)] }).emit (.purgeFwd h ds)
    else (w.setHost h { hs with mbox := rest }).emit (.purgeDropped h ds)

/-! ### the transition relation: any interleaving of main thread, pool threads, executor, network -/

inductive MStep : World → World → Prop
  | clean (h : Nat) (w : World) : MStep w (cleanAll h w)
  | run (h i : Nat) (flt : Fault) (w : World) : MStep w (stepAt h i flt w)
  | deliver (i : Nat) (dup : Bool) (w : World) : MStep w (deliver i dup w)
  | drop (i : Nat) (w : World) : MStep w (dropFrame i w)
  | inject (h : Nat) (m : Msg) (w : World) : MStep w (inject h m w)
  | recv (h : Nat) (w : World) : MStep w (recvOne h w).1
  | ctrl (i : Nat) (dup : Bool) (w : World) : MStep w (ctrlRecv i dup w)
  /-- `wait(futs_in_progress.values(), ALL_COMPLETED)` is a blocking call: the purge branch goes on
  only when it has returned.  The guard is the part of that which the invariants need (no future of
  THAT dataset left); that the code establishes it — whatever the pool does, whatever stage the jobs
  were at — is `Aux.handleAll_mstar` (`waitAll_done`, `mclean_nil`). -/
  | handle (h : Nat) (w : World)
      (guard : ∀ ds rest, (w.hosts h).inbox = .purge ds :: rest → inProgress (w.hosts h).futs ds = 0) :
      MStep w (handleHead h w)
  | retry (h e : Nat) (w : World) : MStep w (retryOne h e w)
  | advance (d : Nat) (w : World) : MStep w (advance d w)
  | exec (h : Nat) (w : World) : MStep w (execHandle h w)
  | injectE (h ds : Nat) (w : World) : MStep w (injectE h ds w)

inductive MStar : World → World → Prop
  | refl (w : World) : MStar w w
  | tail {w w' w'' : World} : MStar w w' → MStep w' w'' → MStar w w''

/-! ### operations = what one call into the real code does -/

/-- absolute index in `futs` of the `k`-th pending future -/
def pendingIdx : List Fut → Nat → Option Nat
  | [], _ => none
  | f :: fs, k =>
    match f.result with
    | none => if k = 0 then some 0 else (pendingIdx fs (k - 1)).map (· + 1)
    | some _ => (pendingIdx fs k).map (· + 1)

def nPending (futs : List Fut) : Nat := (futs.filter (fun f => f.result.isNone)).length

/-- run the pending job chosen by the scheduler oracle `c` to its end. -/
def runChoice (h c : Nat) (w : World) : World :=
  let n := nPending (w.hosts h).futs
  if n = 0 then w else
  match pendingIdx (w.hosts h).futs (c % n) with
  | none => w
  | some i => runAt h i w

/-- advance the pending job chosen by `c` by one stage, under fault `flt`. -/
def stepChoice (h c : Nat) (flt : Fault) (w : World) : World :=
  let n := nPending (w.hosts h).futs
  if n = 0 then w else
  match pendingIdx (w.hosts h).futs (c % n) with
  | none => w
  | some i => stepAt h i flt w

/-- `wait(futs, ALL_COMPLETED)`: the pool runs every pending job, in the order given by `sched`. -/
def waitAll (h : Nat) : Nat → List Nat → World → World × List Nat
  | 0, sched, w => (w, sched)
  | fuel + 1, sched, w =>
    if nPending (w.hosts h).futs = 0 then (w, sched)
    else waitAll h fuel sched.tail (runChoice h (sched.headD 0) w)

/-- `maybe_clean`: clean; while `cap` or more futures remain, wait for one and clean again. -/
def maybeClean (h : Nat) : Nat → List Nat → World → World × List Nat
  | 0, sched, w => (cleanAll h w, sched)
  | fuel + 1, sched, w =>
    let w1 := cleanAll h w
    if (w1.hosts h).futs.length < cap then (w1, sched)
    else maybeClean h fuel sched.tail (runChoice h (sched.headD 0) w1)

def mclean (h : Nat) (sched : List Nat) (w : World) : World × List Nat :=
  maybeClean h (w.hosts h).futs.length sched w

/-- `recv_messages`: read until `_recv_one` gives `None`. -/
def recvAll (h : Nat) : Nat → World → World
  | 0, w => w
  | fuel + 1, w =>
    let r := recvOne h w
    if r.2 then recvAll h fuel r.1 else r.1

/-- The purge arm calls `wait(<futures>, return_when=ALL_COMPLETED)` with no `timeout` (read from the source:
`Gen/DataServerWait.lean`): only such a call blocks until every future handed to it has finished.  (WHICH futures
are handed to it — all of `futs_in_progress` — is an expression the translator only records; the tie observes it at
run time: the fake `wait` notes whether the awaited set is all of `futs_in_progress`, and a call that waits for
fewer leaves jobs the model has finished.) -/
def purgeWaitBlocks : Bool :=
  Gen.DataServerWait.purgeWaitReturnWhen == "ALL_COMPLETED" &&
  Gen.DataServerWait.purgeWaitTimeoutMs.isNone

/-- `maybe_clean` calls `wait(<futures>, return_when=FIRST_COMPLETED)` with no `timeout`:
what `maybeClean` models (one pending job, chosen by the scheduler oracle, is run to its end). -/
def cleanWaitAsModelled : Bool :=
  Gen.DataServerWait.cleanWaitReturnWhen == "FIRST_COMPLETED" &&
  Gen.DataServerWait.cleanWaitTimeoutMs.isNone

/-- the wait of the purge arm, its blocking behaviour a parameter.  A blocking wait has the pool run every pending
job to its end (`waitAll`).  Any other call — a `timeout`, FIRST_COMPLETED, a subset of the futures, no call — may
return with every pending job still running (jobs that need longer than the timeout): that worst case is the
model; the clock then moves on by `timeoutMs`. -/
def purgeWaitWith (blocks : Bool) (timeoutMs : Option Nat) (h : Nat) (fuel : Nat) (sched : List Nat) (w : World) :
    World × List Nat :=
  if blocks then waitAll h fuel sched w
  else if nPending (w.hosts h).futs = 0 then (w, sched)
  else ({ w with now := w.now + timeoutMs.getD 0 }, sched)

/-- the wait of the purge arm as the source has it -/
def purgeWait (h : Nat) (fuel : Nat) (sched : List Nat) (w : World) : World × List Nat :=
  purgeWaitWith purgeWaitBlocks Gen.DataServerWait.purgeWaitTimeoutMs h fuel sched w

/-- the `for m in messages` loop. A purge first waits for the futures (`purgeWait`) and cleans. -/
def handleAll (h : Nat) : Nat → List Nat → World → World × List Nat
  | 0, sched, w => (w, sched)
  | fuel + 1, sched, w =>
    let hs := w.hosts h
    if hs.crashed then (w, sched) else
    match hs.inbox with
    | [] => (w, sched)
    | .purge _ :: _ =>
      let r1 := purgeWait h hs.futs.length sched w
      let r2 := mclean h r1.2 r1.1
      handleAll h fuel r2.2 (handleHead h r2.1)
    | _ :: _ => handleAll h fuel sched (handleHead h w)

/-- entries of `awaiting_confirmation` that are due: `at > 0 and at < now - grace`. -/
def dueQueue (aw : List (Nat × Cmd × Option Nat)) (now : Nat) : List Nat :=
  (aw.filter (fun e => match e.2.2 with | some t => decide (0 < t ∧ t + grace < now) | none => false)).map (·.1)

def retryLoop (h : Nat) : List Nat → List Nat → World → World × List Nat
  | [], sched, w => (w, sched)
  | e :: q, sched, w =>
    if (w.hosts h).crashed then (w, sched) else
    let r := mclean h sched w
    retryLoop h q r.2 (retryOne h e r.1)

inductive Input
  | frame (i : Nat) (dup : Bool)
  | msg (m : Msg)
deriving Repr

def feed (h : Nat) : List Input → World → World
  | [], w => w
  | .frame i dup :: ins, w =>
    match w.net[i]? with
    | some fr => if fr.dst = h then feed h ins (deliver i dup w) else feed h ins w
    | none => feed h ins w
  | .msg m :: ins, w => feed h ins (inject h m w)

/-- the iteration after the initial `maybe_clean`: recv_messages, the message loop, the retry loop. -/
def tickRest (h : Nat) (r1 : World × List Nat) : World :=
  let w2 := recvAll h ((r1.1.hosts h).sock.length + 1) r1.1
  let r3 := handleAll h (w2.hosts h).inbox.length r1.2 w2
  if (r3.1.hosts h).crashed then r3.1 else
  (retryLoop h (dueQueue (r3.1.hosts h).awaiting r3.1.now) r3.2 r3.1).1

/-- one iteration of the `recv_loop` body of host `h`, after the network has put `inputs` into
its socket. -/
def tick (h : Nat) (inputs : List Input) (sched : List Nat) (w : World) : World :=
  let w0 := feed h inputs w
  if (w0.hosts h).crashed then w0 else tickRest h (mclean h sched w0)

def execAll (h : Nat) : Nat → World → World
  | 0, w => w
  | fuel + 1, w => execAll h fuel (execHandle h w)

def feedE (h : Nat) : List Nat → World → World
  | [], w => w
  | ds :: ps, w => feedE h ps (injectE h ds w)

/-- one iteration of `Executor.recv_loop` of host `h` after the controller's `purges` arrived: every
message on the socket is handled. -/
def etick (h : Nat) (purges : List Nat) (w : World) : World :=
  let w0 := feedE h purges w
  execAll h (w0.hosts h).mbox.length w0

inductive Op
  | tick (h : Nat) (inputs : List Input) (sched : List Nat)
  | job (h c : Nat)
  | jobstep (h c : Nat) (flt : Fault)
  | etick (h : Nat) (purges : List Nat)
  | adv (d : Nat)
  | drop (i : Nat)
  | ctrl (i : Nat) (dup : Bool)
deriving Repr

def step (w : World) : Op → World
  | .tick h ins sched => tick h ins sched w
  | .job h c => runChoice h c w
  | .jobstep h c flt => stepChoice h c flt w
  | .etick h ps => etick h ps w
  | .adv d => advance d w
  | .drop i => dropFrame i w
  | .ctrl i dup => ctrlRecv i dup w

def run (w : World) (ops : List Op) : World := ops.foldl step w

/-! ### ghost counters on the log -/

def storedCnt (log : List Event) (h ds : Nat) : Nat :=
  log.countP (fun e => match e with | .stored h' ds' _ _ _ => h' = h ∧ ds' = ds | _ => false)

def annCnt (log : List Event) (h ds : Nat) : Nat :=
  log.countP (fun e => match e with | .announced h' ds' _ => h' = h ∧ ds' = ds | _ => false)

/-- failure reports of `store_payload` raised AFTER the copy was written and closed (announce stage) -/
def annFailCnt (log : List Event) (h ds : Nat) : Nat :=
  log.countP (fun e => match e with | .storeFail h' ds' _ st => h' = h ∧ ds' = ds ∧ 2 ≤ st | _ => false)

def ctrlPubCnt (log : List Event) (h ds : Nat) : Nat :=
  log.countP (fun e => match e with | .ctrlPub h' ds' _ => h' = h ∧ ds' = ds | _ => false)

def resubmitCnt (log : List Event) (h idx : Nat) : Nat :=
  log.countP (fun e => match e with | .resubmit h' i' _ => h' = h ∧ i' = idx | _ => false)

/-- send jobs (first or retry) submitted at `h` for dataset `ds` -/
def submitDsCnt (log : List Event) (h ds : Nat) : Nat :=
  log.countP (fun e => match e with
    | .resubmit h' _ ds' => h' = h ∧ ds' = ds
    | .submitted h' _ ds' => h' = h ∧ ds' = ds
    | _ => false)

def sentDsCnt (log : List Event) (h ds : Nat) : Nat :=
  log.countP (fun e => match e with | .sent h' c _ _ => h' = h ∧ c.ds = ds | _ => false)

def copies (store : List (Nat × String × String)) (ds : Nat) : Nat :=
  (store.filter (fun e => e.1 = ds)).length

/-- unfinished store job of `ds` between allocate and close -/
def atStage1 (ds : Nat) (f : Fut) : Bool :=
  match f.key, f.result with
  | .pay p, none => decide (p.ds = ds ∧ f.stage = 1)
  | _, _ => false

/-- unfinished store job of `ds` between close and the announce callback -/
def atStage2 (ds : Nat) (f : Fut) : Bool :=
  match f.key, f.result with
  | .pay p, none => decide (p.ds = ds ∧ 2 ≤ f.stage)
  | _, _ => false

/-- DatasetTransmitFailure raised by the data server of `h` (by a send job, a store job, or `maybe_clean`) -/
def failCnt (log : List Event) (h : Nat) : Nat :=
  log.countP (fun e => match e with
    | .sendFail h' _ => h' = h
    | .storeFail h' _ _ _ => h' = h
    | .futFail h' _ => h' = h
    | _ => false)

/-- DatasetTransmitFailure the executor of `h` passed on to the controller -/
def ctrlFailCnt (log : List Event) (h : Nat) : Nat :=
  log.countP (fun e => match e with | .ctrlFail h' => h' = h | _ => false)

/-- failure reports on their way from the data server to the executor -/
def failPending (mbox : List EMsg) : Nat :=
  mbox.countP (fun m => match m with | .fail => true | _ => false)

/-- the latest thing the executor of `h` did about `ds` (log is newest first): `some true` = told the
controller it is there, `some false` = forwarded its purge -/
def lastEx : List Event → Nat → Nat → Option Bool
  | [], _, _ => none
  | .ctrlPub h' d _ :: l, h, ds => if h' = h ∧ d = ds then some true else lastEx l h ds
  | .purgeFwd h' d :: l, h, ds => if h' = h ∧ d = ds then some false else lastEx l h ds
  | _ :: l, h, ds => lastEx l h ds

/-- `DatasetPublished` of `ds` on their way from the data server to the executor -/
def pubPending (mbox : List EMsg) (ds : Nat) : Nat :=
  mbox.countP (fun m => match m with | .pub d _ => d = ds | _ => false)

end EkwVerif.Transfer
