/-
Model of `earthkit.workflows.graph.export` (serialise / deserialise / to_json / from_json, after
the C12 `fix:` commit), `Node.serialise` / `Output.serialise` (graph/nodes.py) and
`Graph.__eq__` (graph/graph.py).

A Python `Graph` is a list of sink `Node` objects whose inputs point at parent objects.  Under the
property's hypothesis (unique node names) an object reference is a name, so a graph is modelled
as
    nodes : the node records, parents before children (a topological order)
    sinks : the names in `Graph.sinks`
`Graph.nodes()` (DFS from the sinks) is modelled by its result SET: `graphNodes` keeps the nodes
reachable from the sinks, computed by one backward sweep over the topological order.  Iteration
orders (DFS order, `graphlib.TopologicalSorter.static_order`, dict order) are not modelled:
`serialise` and `__eq__` are keyed by name and nothing in the property depends on an order; the
model's `deserialise` takes the dict entries in a topological order and returns `.error` where
Python would raise (`KeyError` for an unknown parent, `AttributeError` for a missing output).

Payloads are JSON-like values plus tuples (`PV`); `jsonNorm` is `json.loads ∘ json.dumps`
(tuples become lists, in payloads and in the `(parent, output)` references).
-/
namespace EkwVerif.Export

/-! ### payload values -/

inductive PV
  | none
  | bool (b : Bool)
  | int (i : Int)
  | str (s : String)
  | list (l : List PV)
  | tuple (l : List PV)
  | dict (l : List (String × PV))
deriving Repr

mutual
/-- `json.loads(json.dumps(v))` on a value -/
def normPV : PV → PV
  | .tuple l => .list (normL l)
  | .list l => .list (normL l)
  | .dict d => .dict (normD d)
  | v => v
def normL : List PV → List PV
  | [] => []
  | v :: vs => normPV v :: normL vs
def normD : List (String × PV) → List (String × PV)
  | [] => []
  | (k, v) :: r => (k, normPV v) :: normD r
end

mutual
/-- Python `==` on payload values (structural; a tuple is never equal to a list) -/
def pvEq : PV → PV → Bool
  | .none, .none => true
  | .bool a, .bool b => a == b
  | .int a, .int b => a == b
  | .str a, .str b => a == b
  | .list a, .list b => pvEqL a b
  | .tuple a, .tuple b => pvEqL a b
  | .dict a, .dict b => pvEqD a b
  | _, _ => false
def pvEqL : List PV → List PV → Bool
  | [], [] => true
  | a :: as, b :: bs => pvEq a b && pvEqL as bs
  | _, _ => false
def pvEqD : List (String × PV) → List (String × PV) → Bool
  | [], [] => true
  | (k, a) :: as, (k', b) :: bs => k == k' && pvEq a b && pvEqD as bs
  | _, _ => false
end

/-! ### nodes and graphs -/

def defaultOutput : String := "0"        -- Node.DEFAULT_OUTPUT

/-- `Output`: (parent node, output name) -/
structure Src where
  parent : String
  out : String
deriving DecidableEq, Repr

structure Node where
  name : String
  outputs : List String
  payload : PV                           -- `.none` = Python `None`
  inputs : List (String × Src)           -- dict: input name ↦ Output
deriving Repr

structure Graph where
  nodes : List Node
  sinks : List String
deriving Repr

def parents (n : Node) : List String := n.inputs.map (fun i => i.2.parent)

/-- backward sweep: process the LATER nodes first; keep a node iff some kept consumer (or the
sink list) needs it.  Returns (kept nodes in list order, names needed so far). -/
def sweep : List Node → List String → List Node × List String
  | [], need => ([], need)
  | n :: rest, need =>
    let r := sweep rest need
    if n.name ∈ r.2 then (n :: r.1, r.2 ++ parents n) else r

/-- the node set of `Graph.nodes()` -/
def graphNodes (g : Graph) : List Node := (sweep g.nodes g.sinks).1

/-! ### serialised form -/

/-- `Output.serialise()`: a bare parent name for the default output, else a pair; after a JSON
round trip the pair is a list (`tup = false`). -/
inductive Ref
  | bare (parent : String)
  | pair (tup : Bool) (parent out : String)
deriving DecidableEq, Repr

/-- `Node.serialise()`: `payload` key present iff the payload is not `None` -/
structure SNode where
  outputs : List String
  inputs : List (String × Ref)
  payload : Option PV
deriving Repr

def serSrc (s : Src) : Ref := if s.out = defaultOutput then .bare s.parent else .pair true s.parent s.out

def isNone : PV → Bool
  | .none => true
  | _ => false

def serNode (n : Node) : SNode :=
  { outputs := n.outputs
    inputs := n.inputs.map (fun i => (i.1, serSrc i.2))
    payload := if isNone n.payload then none else some n.payload }

/-- `serialise(graph)`: one entry per node of `graph.nodes()` -/
def serialise (g : Graph) : List (String × SNode) := (graphNodes g).map (fun n => (n.name, serNode n))

def normRef : Ref → Ref
  | .bare p => .bare p
  | .pair _ p o => .pair false p o

/-- `json.loads(json.dumps(data))` -/
def jsonNorm (data : List (String × SNode)) : List (String × SNode) :=
  data.map (fun e => (e.1, { outputs := e.2.outputs
                             inputs := e.2.inputs.map (fun i => (i.1, normRef i.2))
                             payload := e.2.payload.map normPV }))

inductive Err | keyError | attributeError
deriving DecidableEq, Repr

def findNode : List Node → String → Option Node
  | [], _ => none
  | n :: ns, name => if n.name = name then some n else findNode ns name

/-- `nodes[src].get_output()` / `nodes[parent].get_output(oname)` -/
def resolve (built : List Node) (r : Ref) : Except Err Src :=
  let po : String × String := match r with
    | .bare p => (p, defaultOutput)
    | .pair _ p o => (p, o)
  match findNode built po.1 with
  | none => .error .keyError
  | some p => if po.2 ∈ p.outputs then .ok { parent := po.1, out := po.2 } else .error .attributeError

def resolveAll (built : List Node) : List (String × Ref) → Except Err (List (String × Src))
  | [] => .ok []
  | (i, r) :: rest =>
    match resolve built r with
    | .error e => .error e
    | .ok s =>
      match resolveAll built rest with
      | .error e => .error e
      | .ok ss => .ok ((i, s) :: ss)

/-- the loop of `deserialise` over the entries in topological order -/
def deserLoop (built : List Node) : List (String × SNode) → Except Err (List Node)
  | [] => .ok built
  | (name, sn) :: rest =>
    match resolveAll built sn.inputs with
    | .error e => .error e
    | .ok ins =>
      deserLoop (built ++ [{ name := name, outputs := sn.outputs, payload := sn.payload.getD .none, inputs := ins }]) rest

/-- the parent named by a reference (`inp if isinstance(inp, str) else inp[0]`) -/
def refParent : Ref → String
  | .bare p => p
  | .pair _ p _ => p

/-- `consumed`: every name some entry lists as a parent -/
def consumed (data : List (String × SNode)) : List String :=
  data.flatMap (fun e => e.2.inputs.map (fun i => refParent i.2))

/-- `deserialise(data)` (fixed: the sinks are the nodes nobody consumes) -/
def deserialise (data : List (String × SNode)) : Except Err Graph :=
  match deserLoop [] data with
  | .error e => .error e
  | .ok ns => .ok { nodes := ns, sinks := (ns.map (·.name)).filter (fun n => n ∉ consumed data) }

/-! ### `Graph.__eq__` -/

def lookupSrc : List (String × Src) → String → Option Src
  | [], _ => none
  | (k, s) :: r, i => if k = i then some s else lookupSrc r i

/-- `a.keys() == b.keys()` on key lists -/
def sameKeys (a b : List String) : Bool := a.all (fun k => k ∈ b) && b.all (fun k => k ∈ a)

def nodeEq (n o : Node) : Bool :=
  n.name == o.name && n.outputs == o.outputs && sameKeys (n.inputs.map (·.1)) (o.inputs.map (·.1)) &&
  n.inputs.all (fun i => match lookupSrc o.inputs i.1 with
    | none => false
    | some s => i.2.parent == s.parent && i.2.out == s.out) &&
  pvEq n.payload o.payload

def graphEq (a b : Graph) : Bool :=
  let na := graphNodes a
  let nb := graphNodes b
  sameKeys (na.map (·.name)) (nb.map (·.name)) &&
  na.all (fun n => match findNode nb n.name with
    | none => false
    | some o => nodeEq n o)

/-- node-set comparison used by the driver / oracle side: same records, field by field -/
def sameNodes (a b : List Node) : Bool :=
  a.length == b.length && (a.zip b).all (fun p => nodeEq p.1 p.2 && p.1.inputs.length == p.2.inputs.length)

end EkwVerif.Export
